import ParryModel.Proto
import ParryModel.C03.Model
import ParryModel.C03.Oracle
import ParryModel.C03.Sat
import ParryModel.C03.SatDriver
import ParryModel.C03.WrapDriver
/-! C03 protocol handlers: model evaluation at `Float` and exact-`Rat` oracles on implementation output. -/
namespace C03
open Model Proto

def fiso3 (m : Iso3 Float) : String := s!"{ff m.qi} {ff m.qj} {ff m.qk} {ff m.qw} {fv3 m.t}"
def poiso3 : P (Iso3 Float) := do
  let i ← pfo; let j ← pfo; let k ← pfo; let w ← pfo; let t ← pov3; pure ⟨i, j, k, w, t⟩
def finiteIso (m : Iso3 Float) : Bool :=
  FloatIO.isFinite m.qi && FloatIO.isFinite m.qj && FloatIO.isFinite m.qk && FloatIO.isFinite m.qw && finite3 m.t

def withOut {α} (p : P α) (out : List String) (k : α → String) : String :=
  match out with
  | "panic" :: _ :: _ => "fail panic"
  | _ => match run p out with
    | some a => k a
    | none => "fail unparsable-output"

/-- sample points for the action-level group oracles -/
def probes : List (V3 Rat) := [⟨0, 0, 0⟩, ⟨1, 0, 0⟩, ⟨0, 1, 0⟩, ⟨0, 0, 1⟩, ⟨3, -2, 5⟩]
def allClose (ps qs : List (V3 Rat)) (scale : Rat) : Bool :=
  (ps.zip qs).all fun (a, b) => closeV a b scale
def isoScale (m : Iso3 Rat) : Rat := vmag m.t + 10

def pcontactIn : P (Contact3 Float) := do
  let a ← pv3; let b ← pv3; let c ← pv3; let d ← pv3; let e ← pf; pure ⟨a, b, c, d, e⟩
def pcpIn : P (ClosestPoints3 Float) := do
  let t ← tok
  match t with
  | "intersecting" => pure .intersecting
  | "disjoint" => pure .disjoint
  | "within" => do let a ← pv3; let b ← pv3; pure (.withinMargin a b)
  | _ => failure
def fhit (h : ShapeCastHit3 Float) : String :=
  s!"{ff h.toi} {fv3 h.witness1} {fv3 h.witness2} {fv3 h.normal1} {fv3 h.normal2} {h.status}"

/-- pair of closed-form shapes + relative pose -/
def pDetails : P (Shape3 Float × Shape3 Float × Iso3 Float) := do
  let a ← pshape; let b ← pshape; let m ← piso3
  match a.closed, b.closed with
  | some x, some y => pure (x, y, m)
  | _, _ => failure
/-- `s1 pos1 s2 pos2` -/
def pWorld : P (Shape3 Float × Iso3 Float × Shape3 Float × Iso3 Float) := do
  let a ← pshape; let m1 ← piso3; let b ← pshape; let m2 ← piso3
  match a.closed, b.closed with
  | some x, some y => pure (x, m1, y, m2)
  | _, _ => failure

def localPair (s1 s2 : Shape3 Float) (pos12 : Iso3 Float) : Pair :=
  ⟨qshape s1, Iso3.identity, qshape s2, qiso3 pos12⟩
def worldPair (s1 : Shape3 Float) (p1 : Iso3 Float) (s2 : Shape3 Float) (p2 : Iso3 Float) : Pair :=
  ⟨qshape s1, qiso3 p1, qshape s2, qiso3 p2⟩
/-- a contact in the two local frames, moved to the frame of shape 1 -/
def contactToFrame1 (c : Contact3 Rat) (pos12 : Iso3 Rat) : Contact3 Rat :=
  ⟨c.point1, pos12.act c.point2, c.normal1, pos12.rot c.normal2, c.dist⟩
def cpToFrame1 (c : ClosestPoints3 Rat) (pos12 : Iso3 Rat) : ClosestPoints3 Rat :=
  match c with
  | .withinMargin a b => .withinMargin a (pos12.act b)
  | c => c
def qcp : ClosestPoints3 Float → ClosestPoints3 Rat
  | .intersecting => .intersecting
  | .disjoint => .disjoint
  | .withinMargin a b => .withinMargin (q3 a) (q3 b)
def finiteCP : ClosestPoints3 Float → Bool
  | .withinMargin a b => finite3 a && finite3 b
  | _ => true

def routeStr {α} (r : Option α) (f : α → String) : String :=
  match r with
  | none => "noroute"
  | some x => f x

/-! ### world-frame models of the free functions on the closed-form routes -/
def worldContact (s1 : Shape3 Float) (p1 : Iso3 Float) (s2 : Shape3 Float) (p2 : Iso3 Float) (pred : Float) : String :=
  match detailsContact s1 s2 Iso3.identity pred with
  | none => "noroute"
  | some _ => fcontact (queryContact (fun m => (detailsContact s1 s2 m pred).getD none) p1 p2)
def worldCP (s1 : Shape3 Float) (p1 : Iso3 Float) (s2 : Shape3 Float) (p2 : Iso3 Float) (margin : Float) : String :=
  match detailsClosestPoints s1 s2 (p1.invMul p2) margin with
  | none => "noroute"
  | some none => "panic"
  | some (some _) =>
    fcp (some (queryClosestPoints (fun m => ((detailsClosestPoints s1 s2 m margin).getD none).getD .disjoint) p1 p2))

/-! ### oracle-only dispatcher runs: A = (1,2), B = (2,1), C = (g·1, g·2) -/
def splitSemi (toks : List String) : List (List String) :=
  let rec go (acc cur : List String) (rest : List String) (out : List (List String)) : List (List String) :=
    match rest with
    | [] => (out ++ [cur.reverse])
    | t :: ts => if t = ";" then go acc [] ts (out ++ [cur.reverse]) else go acc (t :: cur) ts out
  go [] [] toks []

def wsize : WShape → Rat
  | .ball r => rabs (q r)
  | .cuboid h => vmag (q3 h)
  | .halfspace _ => 0
  | .capsule a b r => vmag (q3 a) + vmag (q3 b) + rabs (q r)
  | .triangle a b c => vmag (q3 a) + vmag (q3 b) + vmag (q3 c)
  | .segment a b => vmag (q3 a) + vmag (q3 b)
  | .composite _ s => rabs (q s)
def wkind : WShape → String
  | .ball _ => "ball" | .cuboid _ => "cuboid" | .halfspace _ => "halfspace"
  | .capsule .. => "capsule" | .triangle .. => "triangle" | .segment .. => "segment"
  | .composite k _ => k
def WShape.isComposite : WShape → Bool
  | .composite .. => true
  | _ => false
def WShape.isHalfSpace : WShape → Bool
  | .halfspace _ => true
  | _ => false
/-- the two argument orders of this pair are served by ONE canonical function through a mirrored wrapper
(`*_ball_convex_polyhedron`, `*_ball_point_query`, `*_support_map_halfspace`, `*_shape_composite_shape`): on identical
data the swapped answer must be the flipped answer exactly.  Ball/ball and composite/composite are self-paired
functions evaluated on different data, and support-map pairs go through GJK from both sides. -/
def mirroredPair (a b : WShape) : Bool :=
  let special (s : WShape) := s.isBall || s.isHalfSpace || s.isComposite
  (special a || special b) && !(a.isBall && b.isBall) && !(a.isComposite && b.isComposite)

structure OCtx where
  /-- magnitude of the poses (rounding of world coordinates) -/
  S : Rat
  /-- size of the two shapes -/
  sz : Rat
  ball : Bool
  G : Iso3 Rat
  pair : String
  concentric : Bool
  /-- a composite (non-convex) shape is involved: closest pairs need not be unique -/
  composite : Bool := false
  /-- `pos2.inv_mul(pos1).inverse()` is bit-identical to `pos1.inv_mul(pos2)`: both argument orders are evaluated on
  the same data, so the mirrored wrappers must agree exactly on every discrete verdict (ties included) -/
  exact : Bool := false
  /-- no ball / half-space involved: penetration depths come from GJK + EPA -/
  epa : Bool := false

def OCtx.tag (c : OCtx) : String := s!"pair={c.pair}" ++ (if c.concentric then " concentric" else "")
/-- scalars: 1e-6 relative to the values and the size of the shapes -/
def OCtx.scal (c : OCtx) (a b : Rat) : Bool := rabs (a - b) ≤ (1 / 1000000) * (1 + rabs a + rabs b + c.sz) + tol * c.S
/-- witnesses: GJK stops at a relative gap of 4.7e-8 on the distance, which bounds the witness direction only to
about `sqrt(2·4.7e-8) ≈ 3e-4` rad; tolerance `2e-3 · (size + |dist|)` plus rounding of world coordinates. -/
def OCtx.wtol (c : OCtx) (d : Rat) : Rat := (2 / 1000) * (c.sz + rabs d) + (1 / 1000000) * (1 + c.S)
def OCtx.wit (c : OCtx) (a b : V3 Rat) (d : Rat) : Bool :=
  let t := c.wtol d
  rabs (a.x - b.x) ≤ t && rabs (a.y - b.y) ≤ t && rabs (a.z - b.z) ≤ t

def pOArgs (withPar : Bool) : P (WShape × Iso3 Float × WShape × Iso3 Float × Iso3 Float × Float) := do
  let a ← pshape; let m1 ← piso3; let b ← pshape; let m2 ← piso3; let g ← piso3
  let p ← if withPar then pf else pure 0.0
  pure (a, m1, b, m2, g, p)
def mkCtx (a : WShape) (m1 : Iso3 Float) (b : WShape) (m2 : Iso3 Float) (g : Iso3 Float) : OCtx :=
  let G := qiso3 g
  { S := vmag (q3 m1.t) + vmag (q3 m2.t) + vmag G.t + (vmag (q3 m1.t) + vmag (q3 m2.t)), sz := wsize a + wsize b,
    ball := a.isBall || b.isBall, G := G, pair := s!"{wkind a}/{wkind b}",
    concentric := (q m1.t.x == q m2.t.x) && (q m1.t.y == q m2.t.y) && (q m1.t.z == q m2.t.z),
    composite := a.isComposite || b.isComposite,
    epa := !(a.isBall || b.isBall || a.isHalfSpace || b.isHalfSpace) }

/-- a result followed by `@ m1 m2` (distances of the two witnesses to their own shapes, from the point query) -/
def splitAt (toks : List String) : List String × List String :=
  (toks.takeWhile (· ≠ "@"), (toks.dropWhile (· ≠ "@")).drop 1)
/-- both witnesses lie on / in their own shape -/
def membOK (c : OCtx) (what : String) (memb : List String) (d : Rat) : Option String :=
  match memb with
  | [] => none
  | _ => match run (do let a ← pfo; let b ← pfo; pure (a, b)) memb with
    | none => some s!"{what}-membership-unparsable"
    | some (m1, m2) =>
      if !(FloatIO.isFinite m1 && FloatIO.isFinite m2) then some s!"{what}-membership-nonfinite {c.tag}"
      else if q m1 > c.wtol d then some s!"{what}-witness1-not-on-its-shape {c.tag}{if d == 0 then " exactly-touching" else ""} off-by={m1}"
      else if q m2 > c.wtol d then some s!"{what}-witness2-not-on-its-shape {c.tag}{if d == 0 then " exactly-touching" else ""} off-by={m2}"
      else none

/-- the record EPA returns when it gives up: zero normals and zero distance -/
def isNull (x : Contact3 Rat) : Bool := x.normal1.normSq == 0 && x.dist == 0

/-- compare two world-frame contacts that should describe the same configuration (`b` already in `a`'s convention);
`exact`: both computed from bit-identical relative poses -/
def cmpContact (c : OCtx) (what : String) (pred : Rat) (exact : Bool) (a b : Option (Contact3 Rat)) : Option String :=
  match a, b with
  | none, none => none
  | some x, none | none, some x =>
    if exact then some s!"{what}-none-vs-some-on-identical-data {c.tag} dist={x.dist.toF} prediction={pred.toF}"
    else if c.scal x.dist pred then none else some s!"{what}-none-vs-some {c.tag} dist={x.dist.toF} prediction={pred.toF}"
  | some x, some y =>
    if isNull x || isNull y then some s!"{what}-null-contact {c.tag} (zero normals, dist 0: EPA gave up)"
    else if !c.scal x.dist y.dist &&
        !(c.epa && x.dist ≤ (1 / 1000000) * (1 + c.sz) && y.dist ≤ (1 / 1000000) * (1 + c.sz) && rabs (x.dist - y.dist) ≤ c.wtol x.dist) then
      -- (penetration depths from EPA are only reproducible to the witness tolerance: its polytope expansion stops at
      --  a relative tolerance of about 1e-4 on round shapes)
      let t : Rat := (1 / 1000000) * (1 + c.sz)
      some s!"{what}-dist {c.tag}{if x.dist ≤ t && y.dist ≤ t then " penetrating" else ""} a={x.dist.toF} b={y.dist.toF}"
    else if x.dist ≤ (1 / 1000000) * (1 + c.sz) || y.dist ≤ (1 / 1000000) * (1 + c.sz) then none
      -- penetration / touching: normal and witnesses may tie (flat contacts); the signed distance is the invariant
    else if c.composite then none                 -- non-convex: the closest pair need not be unique
    else if !c.wit (x.point2.sub x.point1) (y.point2.sub y.point1) x.dist then some s!"{what}-separation-vector {c.tag}"
    else if c.ball && !(c.wit x.point1 y.point1 x.dist && c.wit x.point2 y.point2 x.dist) then some s!"{what}-witnesses {c.tag}"
    else none

def cmpCP (c : OCtx) (what : String) (margin dist : Rat) (exact : Bool) (a b : ClosestPoints3 Rat) : Option String :=
  let nearBoundary := c.scal dist 0 || c.scal dist margin
  match a, b with
  | .intersecting, .intersecting => none
  | .disjoint, .disjoint => none
  | .withinMargin p1 p2, .withinMargin r1 r2 =>
    if c.composite || c.scal dist 0 then none   -- non-convex or touching: the closest pair need not be unique
    else if !c.wit (p2.sub p1) (r2.sub r1) dist then some s!"{what}-separation-vector {c.tag}"
    else if c.ball && !(c.wit p1 r1 dist && c.wit p2 r2 dist) then some s!"{what}-witnesses {c.tag}"
    else none
  | _, _ =>
    if exact then some s!"{what}-variant-on-identical-data {c.tag} dist={dist.toF} margin={margin.toF}"
    else if nearBoundary then none else some s!"{what}-variant {c.tag} dist={dist.toF} margin={margin.toF}"

def contactMapG (G : Iso3 Rat) (c : Contact3 Rat) : Contact3 Rat := c.transformBy G G

def firstSome (xs : List (Option String)) : String :=
  match xs.filterMap id with
  | [] => "pass"
  | m :: _ => "fail " ++ m

def unsupported (xs : List String) : Bool := xs = ["unsupported"]

def oracleO (fn : String) (args out : List String) : String :=
  let withPar := fn = "o_contact" || fn = "o_cp"
  match run (pOArgs withPar) args with
  | none => "skip bad-args"
  | some (a, m1, b, m2, g, par) =>
    let pairTag := s!"pair={wkind a}/{wkind b}"
    match out with
    | "panic" :: _ => s!"fail panic {pairTag}"
    | _ =>
    match splitSemi out with
    | [A0, B0, C0, D, aux] =>
      let (A, mA) := splitAt A0; let (B, mB) := splitAt B0; let (C, mC) := splitAt C0
      let c0 := mkCtx a m1 b m2 g
      if !(unitQ (qiso3 m1) && unitQ (qiso3 m2) && unitQ c0.G) then "skip non-unit-rotation" else
      if unsupported A && unsupported B && unsupported C then "skip unsupported-pair" else
      if unsupported A || unsupported B || unsupported C then s!"fail support-differs-between-orders {c0.tag}" else
      if A ≠ D then s!"fail free-function-differs-from-dispatcher-form {c0.tag}" else
      match run (do let d ← pfo; let e ← pfo; let r ← pbool; pure (d, e, r)) aux with
      | none => "fail unparsable-output"
      | some (dist, depth, rt) =>
        let c := { c0 with exact := rt && mirroredPair a b }
        let D := q dist
        match fn with
        | "o_distance" =>
          match run pfo A, run pfo B, run pfo C with
          | some x, some y, some z =>
            if !(FloatIO.isFinite x && FloatIO.isFinite y && FloatIO.isFinite z) then "fail nonfinite-output" else
            firstSome [if c.scal (q x) (q y) then none else some s!"swap-distance {c.tag} a={x} b={y}",
                       if c.scal (q x) (q z) then none else some s!"frame-distance {c.tag} a={x} c={z}"]
          | _, _, _ => "fail unparsable-output"
        | "o_it" =>
          match run pbool A, run pbool B, run pbool C with
          | some x, some y, some z =>
            -- absolute judge for polytope pairs (cuboid / triangle): exact separating-axis verdict on the vertices
            let absolute : Option String :=
              match a.poly (qiso3 m1), b.poly (qiso3 m2) with
              | some PA, some PB =>
                match satVerdict PA PB ((1 / 10000000) * (1 + c.sz) + tol * c.S) with
                | some true => if x || y || z then
                    some s!"intersection-reported-for-separated-shapes {c.tag} a={x} b={y} c={z} dist={dist}" else none
                | some false => if !(x && y && z) then
                    some s!"no-intersection-reported-for-overlapping-shapes {c.tag} a={x} b={y} c={z} depth={depth}" else none
                | none => none
              | _, _ => none
            match absolute with
            | some m => "fail " ++ m
            | none =>
            if x == y && x == z then "pass"
            else if c.exact && x != y then s!"fail verdict-differs-on-identical-data {c.tag} a={x} b={y} dist={dist}"
            else
              let t : Rat := (1 / 1000000) * (1 + c.sz) + tol * c.S
              let touching := FloatIO.isFinite dist && D ≤ t && !(FloatIO.isFinite depth && q depth < -t)
              if touching then "pass" else s!"fail verdict-differs {c.tag} a={x} b={y} c={z} dist={dist}"
          | _, _, _ => "fail unparsable-output"
        | "o_contact" =>
          match run pcontactOut A, run pcontactOut B, run pcontactOut C with
          | some x, some y, some z =>
            if !(x.all finiteContact && y.all finiteContact && z.all finiteContact) then "fail nonfinite-output" else
            let X := x.map qcontact; let Y := y.map qcontact; let Z := z.map qcontact
            let dA := (X.map (·.dist)).getD 0
            firstSome [if X.any isNull || Y.any isNull || Z.any isNull then some s!"null-contact {c.tag} (zero normals, dist 0: EPA gave up)" else none,
                       membOK c "a" mA dA, membOK c "swapped" mB ((Y.map (·.dist)).getD 0), membOK c "frame" mC ((Z.map (·.dist)).getD 0),
                       cmpContact c "swap" (q par) c.exact X (Y.map Contact3.flipped),
                       cmpContact c "frame" (q par) false (X.map (contactMapG c.G)) Z]
          | _, _, _ => "fail unparsable-output"
        | _ =>
          match run pcpOut A, run pcpOut B, run pcpOut C with
          | some (some x), some (some y), some (some z) =>
            if !(finiteCP x && finiteCP y && finiteCP z) then "fail nonfinite-output" else
            if !FloatIO.isFinite dist then "skip no-distance" else
            firstSome [membOK c "a" mA D, membOK c "swapped" mB D, membOK c "frame" mC D,
                       cmpCP c "swap" (q par) D c.exact (qcp x) (qcp y).flipped,
                       cmpCP c "frame" (q par) D false ((qcp x).transformBy c.G c.G) (qcp z)]
          | _, _, _ => "fail unparsable-output-or-panic"
    | _ => "fail unparsable-output"

/-! ### oracle-only shape casts: A = (1,2), B = (2,1), C = (g·1, g·2), D = dispatcher form -/
structure Hit where
  toi : Rat
  w1 : V3 Rat
  w2 : V3 Rat
  n1 : V3 Rat
  n2 : V3 Rat
  status : Nat
  m1 : Rat
  m2 : Rat

/-- `none` | `hit toi w1 w2 n1 n2 status @ m1 m2` ; outer `none` = unparsable / non-finite -/
def phit (toks : List String) : Option (Option Hit) :=
  match toks with
  | ["none"] => some none
  | "hit" :: rest =>
    match run (do let t ← pfo; let a ← pov3; let b ← pov3; let c ← pov3; let d ← pov3; let st ← pnat
                  let _ ← tok; let m1 ← pfo; let m2 ← pfo; pure (t, a, b, c, d, st, m1, m2)) rest with
    | some (t, a, b, c, d, st, m1, m2) =>
      if FloatIO.isFinite t && finite3 a && finite3 b && finite3 c && finite3 d && FloatIO.isFinite m1 && FloatIO.isFinite m2
      then some (some ⟨q t, q3 a, q3 b, q3 c, q3 d, st, q m1, q m2⟩) else none
    | none => none
  | _ => none

structure CastCtx where
  c : OCtx
  target : Rat
  maxtoi : Rat
  /-- the motion starts with the shapes (numerically) at the target distance or closer: whether an impact at time 0
  is reported is then decided by rounding -/
  startsInContact : Bool := false
  /-- size of the scene at the start (shapes + poses) -/
  reach : Rat := 0
  /-- |vel2 - vel1| (upper bound) -/
  speed : Rat

/-- tolerance on positions at the time of impact: witness tolerance plus the travel during the time tolerance -/
def CastCtx.ptol (k : CastCtx) (toi : Rat) : Rat := k.c.wtol k.target + (1 / 100000) * k.speed * (1 + toi)

/-- checks on one hit given its world-frame data at the time of impact (`w_i` = pose_i · witness_i + vel_i · toi,
`n_i` = pose_i · normal_i) -/
def hitSelfW (k : CastCtx) (what : String) (h : Hit) (w1 w2 n1 n2 : V3 Rat) : Option String :=
  let tag := k.c.tag
  if h.toi < 0 then some s!"{what}-negative-toi {tag}"
  else if h.toi > k.maxtoi * (1 + tol) + tol then some s!"{what}-toi-beyond-max {tag} toi={h.toi.toF}"
  else if h.status != 1 then none     -- penetrating / failed / out-of-iterations: only the cross checks apply
  else
    let t := k.ptol h.toi
    -- separation of the witnesses along the contact normal (flat contacts leave the lateral position free)
    let gap := (w2.sub w1).dot n1
    if !close n1.normSq 1 1000 then some s!"{what}-normal1-not-unit {tag}"
    else if !closeV n2 n1.neg 1000 then some s!"{what}-normal2-not-minus-normal1-in-world {tag}"
    else if h.m1 > t then some s!"{what}-witness1-not-on-its-shape-surface {tag} off-by={h.m1.toF} target={k.target.toF}"
    else if h.m2 > t then some s!"{what}-witness2-not-on-its-shape-surface {tag} off-by={h.m2.toF} target={k.target.toF}"
    else if rabs (gap - k.target) > t + t then some s!"{what}-witness-gap-along-normal-at-impact {tag} gap={gap.toF} target={k.target.toF}"
    else none

/-- `P1,v1` pose/velocity of the shape carrying witness1, `P2,v2` of the one carrying witness2 -/
def hitSelf (k : CastCtx) (what : String) (h : Hit) (P1 : Iso3 Rat) (v1 : V3 Rat) (P2 : Iso3 Rat) (v2 : V3 Rat) : Option String :=
  hitSelfW k what h ((P1.act h.w1).add (v1.smul h.toi)) ((P2.act h.w2).add (v2.smul h.toi)) (P1.rot h.n1) (P2.rot h.n2)

/-- two hits that should describe the same cast; `sameFrames`: witness i of `a` and of `b` are in the same local frame -/
def hitCross (k : CastCtx) (what : String) (stop : Bool) (a b : Option Hit) : Option String :=
  let tag := k.c.tag
  match a, b with
  | none, none => none
  | some x, none | none, some x =>
    -- a hit may be dropped at the boundaries: toi at max_toi, or (stop_at_penetration = false) a start in contact
    if k.c.scal (x.toi * k.speed) (k.maxtoi * k.speed) || (!stop && x.toi * k.speed ≤ (1 / 1000) * (1 + k.c.sz)) || x.status != 1
       || (k.startsInContact && x.toi == 0)
       || x.toi * k.speed > 1000000 * (1 + k.reach)   -- motion numerically parallel to the obstacle: "never" vs "after 1e6 sizes"
    then none
    else some s!"{what}-hit-vs-none {tag} toi={x.toi.toF}"
  | some x, some y =>
    if k.startsInContact && (x.toi == 0 || y.toi == 0) then none
    else if !k.c.scal (x.toi * k.speed) (y.toi * k.speed) then some s!"{what}-toi {tag} a={x.toi.toF} b={y.toi.toF}"
    else if x.status != y.status then
      (if x.toi * k.speed ≤ (1 / 1000) * (1 + k.c.sz) then none else some s!"{what}-status {tag} a={x.status} b={y.status}")
    else if x.status != 1 then none
    else if k.c.ball && !k.c.composite && !(k.c.wit x.w1 y.w1 k.target && k.c.wit x.w2 y.w2 k.target) then
      some s!"{what}-witnesses {tag}"   -- (a composite can be hit on two parts at the same time)
    else none

def Hit.swapped (h : Hit) : Hit := ⟨h.toi, h.w2, h.w1, h.n2, h.n1, h.status, h.m2, h.m1⟩

def pCastArgs : P (WShape × Iso3 Float × V3 Float × WShape × Iso3 Float × V3 Float × Iso3 Float × Float × Bool × Float) := do
  let a ← pshape; let m1 ← piso3; let v1 ← pv3; let b ← pshape; let m2 ← piso3; let v2 ← pv3; let g ← piso3
  let target ← pf; let stop ← pbool; let maxtoi ← pf
  pure (a, m1, v1, b, m2, v2, g, target, stop, maxtoi)

def oracleCast (args out : List String) : String :=
  match run pCastArgs args with
  | none => "skip bad-args"
  | some (a, m1, v1, b, m2, v2, g, target, stop, maxtoi) =>
    let pairTag := s!"pair={wkind a}/{wkind b}"
    match out with
    | "panic" :: _ => s!"fail panic {pairTag}"
    | _ =>
    match splitSemi out with
    | [A, B, C, D, aux] =>
      let c := mkCtx a m1 b m2 g
      let P1 := qiso3 m1; let P2 := qiso3 m2; let G := c.G
      let d0 := (run pfo aux).getD (0.0 / 0.0)
      let inContact := FloatIO.isFinite d0 && q d0 ≤ q target + (1 / 1000000) * (1 + c.sz) + tol * c.S
      if !(unitQ P1 && unitQ P2 && unitQ G) then "skip non-unit-rotation" else
      if unsupported A && unsupported B && unsupported C then "skip unsupported-pair" else
      if unsupported A || unsupported B || unsupported C then s!"fail support-differs-between-orders {c.tag}" else
      if A ≠ D then s!"fail free-function-differs-from-dispatcher-form {c.tag}" else
      if q target < 0 then "skip negative-target" else
      match phit A, phit B, phit C with
      | some x, some y, some z =>
        let V1 := q3 v1; let V2 := q3 v2
        let vr := V2.sub V1
        let mt : Rat := if FloatIO.isFinite maxtoi then q maxtoi else 0
        let k : CastCtx := { c := { c with S := c.S + (vmag V1 + vmag V2) * (((x.map (·.toi)).getD 0) + 1) }, target := q target,
                             maxtoi := mt, speed := vmag vr, startsInContact := inContact,
                             reach := c.sz + vmag P1.t + vmag P2.t }
        firstSome [x.bind fun h => hitSelf k "a" h P1 V1 P2 V2,
                   y.bind fun h => hitSelf k "swapped" h P2 V2 P1 V1,
                   z.bind fun h => hitSelf k "frame" h (G.mul P1) (G.rot V1) (G.mul P2) (G.rot V2),
                   hitCross k "swap" stop x (y.map Hit.swapped),
                   hitCross k "frame" stop x z]
      | _, _, _ => "fail unparsable-or-nonfinite-output"
    | _ => "fail unparsable-output"

def oHandler (fn : String) : Handler :=
  { model := fun _ => some "oracle-only", oracle := fun a o => oracleO fn a o }

/-! ### tabulated canonical sibling for the higher-order wrappers -/
def pcanonContact : P (Option (Contact3 Float)) := do
  let t ← tok
  if t = "none" then pure none else if t = "some" then (do let c ← pcontactIn; pure (some c)) else failure
def sameIso (a b : Iso3 Float) : Bool := fiso3 a = fiso3 b
def pBallCub : P (Float × Shape3 Float × Iso3 Float) := do
  let r ← pf; let s ← pshape; let m ← piso3
  match s.closed with
  | some c => pure (r, c, m)
  | none => failure

/-! ### 2-D -/
def fiso2 (m : Iso2 Float) : String := s!"{ff m.re} {ff m.im} {fv2 m.t}"
def poiso2 : P (Iso2 Float) := do let a ← pfo; let b ← pfo; let t ← pov2; pure ⟨a, b, t⟩
def finiteIso2 (m : Iso2 Float) : Bool := FloatIO.isFinite m.re && FloatIO.isFinite m.im && finite2 m.t
def probes2 : List (V2 Rat) := [⟨0, 0⟩, ⟨1, 0⟩, ⟨0, 1⟩, ⟨3, -2⟩]
def allClose2 (ps qs : List (V2 Rat)) (scale : Rat) : Bool := (ps.zip qs).all fun (a, b) => closeV2 a b scale
def pDetails2 : P (Shape2 Float × Shape2 Float × Iso2 Float) := do
  let a ← pshape2; let b ← pshape2; let m ← piso2
  match a.closed, b.closed with
  | some x, some y => pure (x, y, m)
  | _, _ => failure
def pWorld2 : P (Shape2 Float × Iso2 Float × Shape2 Float × Iso2 Float) := do
  let a ← pshape2; let m1 ← piso2; let b ← pshape2; let m2 ← piso2
  match a.closed, b.closed with
  | some x, some y => pure (x, m1, y, m2)
  | _, _ => failure
def worldContact2 (s1 : Shape2 Float) (p1 : Iso2 Float) (s2 : Shape2 Float) (p2 : Iso2 Float) (pred : Float) : String :=
  match detailsContact2 s1 s2 Iso2.identity pred with
  | none => "noroute"
  | some _ => fcontact2 (queryContact2 (fun m => (detailsContact2 s1 s2 m pred).getD none) p1 p2)

def pOArgs2 (withPar : Bool) : P (WShape2 × Iso2 Float × WShape2 × Iso2 Float × Iso2 Float × Float) := do
  let a ← pshape2; let m1 ← piso2; let b ← pshape2; let m2 ← piso2; let g ← piso2
  let p ← if withPar then pf else pure 0.0
  pure (a, m1, b, m2, g, p)
def pcpOut2 : P (Option (ClosestPoints3 Rat)) := do
  let t ← tok
  match t with
  | "intersecting" => pure (some .intersecting)
  | "disjoint" => pure (some .disjoint)
  | "within" => do
      let a ← pov2; let b ← pov2
      if finite2 a && finite2 b then pure (some (.withinMargin (embed (q2 a)) (embed (q2 b)))) else failure
  | _ => failure
def cpMapG2 (G : Iso2 Rat) (a : V2 Float) : V3 Rat := embed (G.act (q2 a))

def mirroredPair2 (a b : WShape2) : Bool :=
  let special (s : WShape2) := s.isBall || s.isHalfSpace || s.isComposite
  (special a || special b) && !(a.isBall && b.isBall) && !(a.isComposite && b.isComposite)

/-- oracle-only 2-D dispatcher runs; witnesses are embedded in the plane `z = 0` and compared by the 3-D code -/
def oracleO2 (fn : String) (args out : List String) : String :=
  let withPar := fn = "o2_contact" || fn = "o2_cp"
  match run (pOArgs2 withPar) args with
  | none => "skip bad-args"
  | some (a, m1, b, m2, g, par) =>
    let pairTag := s!"pair={a.kind}/{b.kind}"
    match out with
    | "panic" :: _ => s!"fail panic {pairTag}"
    | _ =>
    match splitSemi out with
    | [A0, B0, C0, D, aux] =>
      let (A, mA) := splitAt A0; let (B, mB) := splitAt B0; let (C, mC) := splitAt C0
      let G := qiso2 g
      let c0 : OCtx :=
        { S := 2 * (vmag2 (q2 m1.t) + vmag2 (q2 m2.t)) + vmag2 G.t, sz := a.size + b.size, ball := a.isBall || b.isBall,
          G := Iso3.identity, pair := s!"{a.kind}/{b.kind}",
          concentric := (q m1.t.x == q m2.t.x) && (q m1.t.y == q m2.t.y),
          composite := a.isComposite || b.isComposite,
          epa := !(a.isBall || b.isBall || a.isHalfSpace || b.isHalfSpace) }
      if !(unitC (qiso2 m1) && unitC (qiso2 m2) && unitC G) then "skip non-unit-rotation" else
      if unsupported A && unsupported B && unsupported C then "skip unsupported-pair" else
      if unsupported A || unsupported B || unsupported C then s!"fail support-differs-between-orders {c0.tag}" else
      if A ≠ D then s!"fail free-function-differs-from-dispatcher-form {c0.tag}" else
      match run (do let d ← pfo; let e ← pfo; let r ← pbool; pure (d, e, r)) aux with
      | none => "fail unparsable-output"
      | some (dist, depth, rt) =>
        let c := { c0 with exact := rt && mirroredPair2 a b }
        let D := q dist
        match fn with
        | "o2_distance" =>
          match run pfo A, run pfo B, run pfo C with
          | some x, some y, some z =>
            if !(FloatIO.isFinite x && FloatIO.isFinite y && FloatIO.isFinite z) then "fail nonfinite-output" else
            firstSome [if c.scal (q x) (q y) then none else some s!"swap-distance {c.tag} a={x} b={y}",
                       if c.scal (q x) (q z) then none else some s!"frame-distance {c.tag} a={x} c={z}"]
          | _, _, _ => "fail unparsable-output"
        | "o2_it" =>
          match run pbool A, run pbool B, run pbool C with
          | some x, some y, some z =>
            if x == y && x == z then "pass"
            else if c.exact && x != y then s!"fail verdict-differs-on-identical-data {c.tag} a={x} b={y} dist={dist}"
            else
              let t : Rat := (1 / 1000000) * (1 + c.sz) + tol * c.S
              let touching := FloatIO.isFinite dist && D ≤ t && !(FloatIO.isFinite depth && q depth < -t)
              if touching then "pass" else s!"fail verdict-differs {c.tag} a={x} b={y} c={z} dist={dist}"
          | _, _, _ => "fail unparsable-output"
        | "o2_contact" =>
          match run pcontactOut2 A, run pcontactOut2 B, run pcontactOut2 C with
          | some x, some y, some z =>
            if !(x.all finiteContact2 && y.all finiteContact2 && z.all finiteContact2) then "fail nonfinite-output" else
            let X := (x.map qcontact2).map embedC; let Y := (y.map qcontact2).map embedC; let Z := (z.map qcontact2).map embedC
            let XG := (x.map qcontact2).map fun k => embedC (k.transformBy G G)
            firstSome [if X.any isNull || Y.any isNull || Z.any isNull then some s!"null-contact {c.tag} (zero normals, dist 0: EPA gave up)" else none,
                       membOK c "a" mA ((X.map (·.dist)).getD 0), membOK c "swapped" mB ((Y.map (·.dist)).getD 0),
                       membOK c "frame" mC ((Z.map (·.dist)).getD 0),
                       cmpContact c "swap" (q par) c.exact X (Y.map Contact3.flipped),
                       cmpContact c "frame" (q par) false XG Z]
          | _, _, _ => "fail unparsable-output"
        | _ =>
          let mapG : List String → Option (ClosestPoints3 Rat) := fun toks =>
            match toks with
            | ["intersecting"] => some .intersecting
            | ["disjoint"] => some .disjoint
            | "within" :: rest => (run (do let a ← pov2; let b ← pov2; pure (a, b)) rest).map fun (a, b) =>
                .withinMargin (cpMapG2 G a) (cpMapG2 G b)
            | _ => none
          match run pcpOut2 A, run pcpOut2 B, run pcpOut2 C, mapG A with
          | some (some x), some (some y), some (some z), some xg =>
            if !FloatIO.isFinite dist then "skip no-distance" else
            firstSome [membOK c "a" mA D, membOK c "swapped" mB D, membOK c "frame" mC D,
                       cmpCP c "swap" (q par) D c.exact x y.flipped, cmpCP c "frame" (q par) D false xg z]
          | _, _, _, _ => "fail unparsable-output-or-panic"
    | _ => "fail unparsable-output"

/-- `none` | `hit toi w1(2) w2(2) n1(2) n2(2) status @ m1 m2`, embedded in `z = 0` -/
def phit2 (toks : List String) : Option (Option Hit) :=
  match toks with
  | ["none"] => some none
  | "hit" :: rest =>
    match run (do let t ← pfo; let a ← pov2; let b ← pov2; let c ← pov2; let d ← pov2; let st ← pnat
                  let _ ← tok; let m1 ← pfo; let m2 ← pfo; pure (t, a, b, c, d, st, m1, m2)) rest with
    | some (t, a, b, c, d, st, m1, m2) =>
      if FloatIO.isFinite t && finite2 a && finite2 b && finite2 c && finite2 d && FloatIO.isFinite m1 && FloatIO.isFinite m2
      then some (some ⟨q t, embed (q2 a), embed (q2 b), embed (q2 c), embed (q2 d), st, q m1, q m2⟩) else none
    | none => none
  | _ => none

def oracleCast2 (args out : List String) : String :=
  match run (do let a ← pshape2; let m1 ← piso2; let v1 ← pv2; let b ← pshape2; let m2 ← piso2; let v2 ← pv2; let g ← piso2
                let target ← pf; let stop ← pbool; let maxtoi ← pf
                pure (a, m1, v1, b, m2, v2, g, target, stop, maxtoi)) args with
  | none => "skip bad-args"
  | some (a, m1, v1, b, m2, v2, g, target, stop, maxtoi) =>
    let pairTag := s!"pair={a.kind}/{b.kind}"
    match out with
    | "panic" :: _ => s!"fail panic {pairTag}"
    | _ =>
    match splitSemi out with
    | [A, B, C, D, aux] =>
      let P1 := qiso2 m1; let P2 := qiso2 m2; let G := qiso2 g
      let d0 := (run pfo aux).getD (0.0 / 0.0)
      let U1 := q2 v1; let U2 := q2 v2
      if !(unitC P1 && unitC P2 && unitC G) then "skip non-unit-rotation" else
      if unsupported A && unsupported B && unsupported C then "skip unsupported-pair" else
      if unsupported A || unsupported B || unsupported C then s!"fail support-differs-between-orders {pairTag}" else
      if A ≠ D then s!"fail free-function-differs-from-dispatcher-form {pairTag}" else
      if q target < 0 then "skip negative-target" else
      match phit2 A, phit2 B, phit2 C with
      | some x, some y, some z =>
        let toi0 := (x.map (·.toi)).getD 0
        let c : OCtx :=
          { S := 2 * (vmag2 P1.t + vmag2 P2.t) + vmag2 G.t + (vmag2 U1 + vmag2 U2) * (toi0 + 1), sz := a.size + b.size,
            ball := a.isBall || b.isBall, G := Iso3.identity, pair := s!"{a.kind}/{b.kind}", concentric := false,
            composite := a.isComposite || b.isComposite }
        let mt : Rat := if FloatIO.isFinite maxtoi then q maxtoi else 0
        let inContact := FloatIO.isFinite d0 && q d0 ≤ q target + (1 / 1000000) * (1 + c.sz) + tol * c.S
        let k : CastCtx := { c := c, target := q target, maxtoi := mt, speed := vmag2 (U2.sub U1), startsInContact := inContact,
                             reach := c.sz + vmag2 P1.t + vmag2 P2.t }
        let un (v : V3 Rat) : V2 Rat := ⟨v.x, v.y⟩
        let self2 (what : String) (h : Hit) (Pa : Iso2 Rat) (va : V2 Rat) (Pb : Iso2 Rat) (vb : V2 Rat) : Option String :=
          hitSelfW k what h (embed ((Pa.act (un h.w1)).add (va.smul h.toi))) (embed ((Pb.act (un h.w2)).add (vb.smul h.toi)))
            (embed (Pa.rot (un h.n1))) (embed (Pb.rot (un h.n2)))
        firstSome [x.bind fun h => self2 "a" h P1 U1 P2 U2,
                   y.bind fun h => self2 "swapped" h P2 U2 P1 U1,
                   z.bind fun h => self2 "frame" h (G.mul P1) (G.rot U1) (G.mul P2) (G.rot U2),
                   hitCross k "swap" stop x (y.map Hit.swapped),
                   hitCross k "frame" stop x z]
      | _, _, _ => "fail unparsable-or-nonfinite-output"
    | _ => "fail unparsable-output"

/-- `s1 pos1 s2 pos2` for the exact corner referee (any primitive kinds) -/
def pXWorld : P XPair := do
  let a ← pshape; let m1 ← piso3; let b ← pshape; let m2 ← piso3
  pure ⟨a, qiso3 m1, b, qiso3 m2⟩

def handlerCore (fn : String) : Option Handler :=
  match fn with
  /- ---------------- degenerate-but-valid corners: free functions against the exact referee (oracle-only) -------- -/
  | "x_contact" => some {
      model := fun _ => some "oracle-only"
      oracle := fun a o => match run (do let x ← pXWorld; let p ← pf; pure (x, p)) a with
        | some (P, p) =>
          if o = ["unsupported"] then "skip unsupported-pair" else
          withOut pcontactOut o fun r =>
            if !(r.all finiteContact) then "fail non-finite-output x_contact" else
            if q p < 0 then "skip negative-parameter" else
            judgeXContact P (q p) (r.map qcontact)
        | none => "skip bad-args" }
  | "x_cp" => some {
      model := fun _ => some "oracle-only"
      oracle := fun a o => match run (do let x ← pXWorld; let p ← pf; pure (x, p)) a with
        | some (P, p) =>
          if o = ["unsupported"] then "skip unsupported-pair" else
          if o = ["panic"] then (if q p < 0 then "skip negative-margin" else "fail panic-with-nonnegative-margin") else
          withOut pcpOut o fun r => match r with
            | none => "fail unparsable-output"
            | some r =>
              if !finiteCP r then "fail non-finite-output x_cp" else
              if q p < 0 then "skip negative-margin" else judgeXCP P (q p) (qcp r)
        | none => "skip bad-args" }
  | "x_distance" => some {
      model := fun _ => some "oracle-only"
      oracle := fun a o => match run pXWorld a with
        | some P =>
          if o = ["unsupported"] then "skip unsupported-pair" else
          withOut pfo o fun r =>
            if !FloatIO.isFinite r then "fail non-finite-output x_distance" else judgeXDistance P (q r)
        | none => "skip bad-args" }
  | "x_it" => some {
      model := fun _ => some "oracle-only"
      oracle := fun a o => match run pXWorld a with
        | some P =>
          if o = ["unsupported"] then "skip unsupported-pair" else
          withOut pbool o fun r => judgeXIT P r
        | none => "skip bad-args" }
  /- ---------------- isometry group glue ---------------- -/
  | "iso_inverse" => some {
      model := fun a => run (do let m ← piso3; pure (fiso3 m.inverse)) a
      oracle := fun a o => match run piso3 a with
        | some m => withOut poiso3 o fun r =>
            if !finiteIso r then "fail nonfinite-output" else
            let M := qiso3 m; let R := qiso3 r
            if !unitQ M then "skip non-unit-rotation" else
            if allClose (probes.map fun p => R.act (M.act p)) probes (isoScale M) &&
               allClose (probes.map fun p => M.act (R.act p)) probes (isoScale M)
            then "pass" else "fail inverse-is-not-a-two-sided-inverse"
        | none => "skip bad-args" }
  | "iso_mul" => some {
      model := fun a => run (do let m ← piso3; let n ← piso3; pure (fiso3 (m.mul n))) a
      oracle := fun a o => match run (do let m ← piso3; let n ← piso3; pure (m, n)) a with
        | some (m, n) => withOut poiso3 o fun r =>
            if !finiteIso r then "fail nonfinite-output" else
            let M := qiso3 m; let N := qiso3 n; let R := qiso3 r
            if !(unitQ M && unitQ N) then "skip non-unit-rotation" else
            if allClose (probes.map R.act) (probes.map fun p => M.act (N.act p)) (isoScale M + isoScale N)
            then "pass" else "fail product-does-not-act-as-composition"
        | none => "skip bad-args" }
  | "iso_inv_mul" => some {
      model := fun a => run (do let m ← piso3; let n ← piso3; pure (fiso3 (m.invMul n))) a
      oracle := fun a o => match run (do let m ← piso3; let n ← piso3; pure (m, n)) a with
        | some (m, n) => withOut poiso3 o fun r =>
            if !finiteIso r then "fail nonfinite-output" else
            let M := qiso3 m; let N := qiso3 n; let R := qiso3 r
            if !(unitQ M && unitQ N) then "skip non-unit-rotation" else
            -- M · (M⁻¹N) p = N p
            if allClose (probes.map fun p => M.act (R.act p)) (probes.map N.act) (isoScale M + isoScale N)
            then "pass" else "fail inv_mul-is-not-inverse-times"
        | none => "skip bad-args" }
  | "iso_act" => some {
      model := fun a => run (do let m ← piso3; let p ← pv3; pure (fv3 (m.act p))) a
      oracle := fun a o => match run (do let m ← piso3; let p ← pv3; pure (m, p)) a with
        | some (m, p) => withOut pov3 o fun r =>
            if !finite3 r then "fail nonfinite-output" else
            let M := qiso3 m
            if !unitQ M then "skip non-unit-rotation" else
            -- an isometry: distance to the image of the origin is the norm of p
            if close ((q3 r).sub M.t).normSq (q3 p).normSq ((q3 p).normSq + vmag M.t) then "pass" else "fail action-not-isometric"
        | none => "skip bad-args" }
  | "iso_inv_act" => some {
      model := fun a => run (do let m ← piso3; let p ← pv3; pure (fv3 (m.invAct p))) a
      oracle := fun a o => match run (do let m ← piso3; let p ← pv3; pure (m, p)) a with
        | some (m, p) => withOut pov3 o fun r =>
            if !finite3 r then "fail nonfinite-output" else
            let M := qiso3 m
            if !unitQ M then "skip non-unit-rotation" else
            if closeV (M.act (q3 r)) (q3 p) (vmag (q3 p) + vmag M.t) then "pass" else "fail inverse-action-not-inverse"
        | none => "skip bad-args" }
  | "iso_rot" => some {
      model := fun a => run (do let m ← piso3; let p ← pv3; pure (fv3 (m.rot p))) a
      oracle := fun a o => match run (do let m ← piso3; let p ← pv3; pure (m, p)) a with
        | some (m, p) => withOut pov3 o fun r =>
            if !finite3 r then "fail nonfinite-output" else
            let M := qiso3 m
            if !unitQ M then "skip non-unit-rotation" else
            if close (q3 r).normSq (q3 p).normSq (q3 p).normSq then "pass" else "fail rotation-changes-norm"
        | none => "skip bad-args" }
  | "iso_inv_rot" => some {
      model := fun a => run (do let m ← piso3; let p ← pv3; pure (fv3 (m.invRot p))) a
      oracle := fun a o => match run (do let m ← piso3; let p ← pv3; pure (m, p)) a with
        | some (m, p) => withOut pov3 o fun r =>
            if !finite3 r then "fail nonfinite-output" else
            let M := qiso3 m
            if !unitQ M then "skip non-unit-rotation" else
            if closeV (M.rot (q3 r)) (q3 p) (vmag (q3 p)) then "pass" else "fail inverse-rotation-not-inverse"
        | none => "skip bad-args" }
  /- ---------------- closed-form details functions, pos12 form ---------------- -/
  | "d_contact" => some {
      model := fun a => run (do let (s1, s2, m) ← pDetails; let p ← pf
                                pure (routeStr (detailsContact s1 s2 m p) fcontact)) a
      oracle := fun a o => match run (do let x ← pDetails; let p ← pf; pure (x, p)) a with
        | some ((s1, s2, m), p) => withOut pcontactOut o fun r =>
            if !(r.all finiteContact) then "fail nonfinite-output" else
            judgeContact (localPair s1 s2 m) (q p) (r.map fun c => contactToFrame1 (qcontact c) (qiso3 m))
        | none => "skip bad-args" }
  | "d_distance" => some {
      model := fun a => run (do let (s1, s2, m) ← pDetails; pure (routeStr (detailsDistance s1 s2 m) ff)) a
      oracle := fun a o => match run pDetails a with
        | some (s1, s2, m) => withOut pfo o fun r =>
            if !FloatIO.isFinite r then "fail nonfinite-output" else judgeDistance (localPair s1 s2 m) (q r)
        | none => "skip bad-args" }
  | "d_it" => some {
      model := fun a => run (do let (s1, s2, m) ← pDetails; pure (routeStr (detailsIntersectionTest s1 s2 m) fb)) a
      oracle := fun a o => match run pDetails a with
        | some (s1, s2, m) => withOut pbool o fun r => judgeIT (localPair s1 s2 m) r
        | none => "skip bad-args" }
  | "d_cp" => some {
      model := fun a => run (do let (s1, s2, m) ← pDetails; let p ← pf
                                pure (routeStr (detailsClosestPoints s1 s2 m p) fcp)) a
      oracle := fun a o => match run (do let x ← pDetails; let p ← pf; pure (x, p)) a with
        | some ((s1, s2, m), p) => withOut pcpOut o fun r =>
            if !(r.all finiteCP) then "fail nonfinite-output" else
            judgeCP (localPair s1 s2 m) (q p) (r.map fun c => cpToFrame1 (qcp c) (qiso3 m))
        | none => "skip bad-args" }
  /- ---------------- free functions through the dispatcher, closed-form routes ---------------- -/
  | "q_contact" => some {
      model := fun a => run (do let (s1, p1, s2, p2) ← pWorld; let p ← pf; pure (worldContact s1 p1 s2 p2 p)) a
      oracle := fun a o => match run (do let x ← pWorld; let p ← pf; pure (x, p)) a with
        | some ((s1, p1, s2, p2), p) => withOut pcontactOut o fun r =>
            if !(r.all finiteContact) then "fail nonfinite-output" else
            judgeContact (worldPair s1 p1 s2 p2) (q p) (r.map qcontact)
        | none => "skip bad-args" }
  | "q_distance" => some {
      model := fun a => run (do let (s1, p1, s2, p2) ← pWorld
                                pure (routeStr (queryDistance (detailsDistance s1 s2) p1 p2) ff)) a
      oracle := fun a o => match run pWorld a with
        | some (s1, p1, s2, p2) => withOut pfo o fun r =>
            if !FloatIO.isFinite r then "fail nonfinite-output" else judgeDistance (worldPair s1 p1 s2 p2) (q r)
        | none => "skip bad-args" }
  | "q_it" => some {
      model := fun a => run (do let (s1, p1, s2, p2) ← pWorld
                                pure (routeStr (queryIntersectionTest (detailsIntersectionTest s1 s2) p1 p2) fb)) a
      oracle := fun a o => match run pWorld a with
        | some (s1, p1, s2, p2) => withOut pbool o fun r => judgeIT (worldPair s1 p1 s2 p2) r
        | none => "skip bad-args" }
  | "q_cp" => some {
      model := fun a => run (do let (s1, p1, s2, p2) ← pWorld; let p ← pf; pure (worldCP s1 p1 s2 p2 p)) a
      oracle := fun a o => match run (do let x ← pWorld; let p ← pf; pure (x, p)) a with
        | some ((s1, p1, s2, p2), p) => withOut pcpOut o fun r =>
            if !(r.all finiteCP) then "fail nonfinite-output" else
            judgeCP (worldPair s1 p1 s2 p2) (q p) (r.map qcp)
        | none => "skip bad-args" }
  /- ---------------- result helpers ---------------- -/
  | "contact_flipped" => some {
      model := fun a => run (do let c ← pcontactIn; pure (fcontact (some c.flipped))) a
      oracle := fun a o => match run pcontactIn a with
        | some c => withOut pcontactOut o fun r => match r with
          | none => "fail none"
          | some r =>
            if fv3 r.point1 = fv3 c.point2 && fv3 r.point2 = fv3 c.point1 && fv3 r.normal1 = fv3 c.normal2 &&
               fv3 r.normal2 = fv3 c.normal1 && ff r.dist = ff c.dist then "pass" else "fail not-the-swapped-record"
        | none => "skip bad-args" }
  | "contact_transform_by" => some {
      model := fun a => run (do let c ← pcontactIn; let p1 ← piso3; let p2 ← piso3
                                pure (fcontact (some (c.transformBy p1 p2)))) a
      oracle := fun a o => match run (do let c ← pcontactIn; let p1 ← piso3; let p2 ← piso3; pure (c, p1, p2)) a with
        | some (c, p1, p2) => withOut pcontactOut o fun r => match r with
          | none => "fail none"
          | some r =>
            if !finiteContact r then "fail nonfinite-output" else
            let P1 := qiso3 p1; let P2 := qiso3 p2; let C := qcontact c; let R := qcontact r
            if !(unitQ P1 && unitQ P2) then "skip non-unit-rotation" else
            let sc := vmag P1.t + vmag P2.t + vmag C.point1 + vmag C.point2
            if ff r.dist = ff c.dist && closeV (P1.invAct R.point1) C.point1 sc && closeV (P2.invAct R.point2) C.point2 sc &&
               closeV (P1.invRot R.normal1) C.normal1 1 && closeV (P2.invRot R.normal2) C.normal2 1
            then "pass" else "fail not-the-transformed-record"
        | none => "skip bad-args" }
  | "cp_flipped" => some {
      model := fun a => run (do let c ← pcpIn; pure (fcp (some c.flipped))) a
      oracle := fun a o => match run pcpIn a with
        | some c => withOut pcpOut o fun r => match c, r with
          | .intersecting, some .intersecting => "pass"
          | .disjoint, some .disjoint => "pass"
          | .withinMargin x y, some (.withinMargin u v) =>
            if fv3 u = fv3 y && fv3 v = fv3 x then "pass" else "fail not-the-swapped-points"
          | _, _ => "fail variant-changed"
        | none => "skip bad-args" }
  | "cp_transform_by" => some {
      model := fun a => run (do let c ← pcpIn; let p1 ← piso3; let p2 ← piso3; pure (fcp (some (c.transformBy p1 p2)))) a
      oracle := fun a o => match run (do let c ← pcpIn; let p1 ← piso3; let p2 ← piso3; pure (c, p1, p2)) a with
        | some (c, p1, p2) => withOut pcpOut o fun r => match c, r with
          | .intersecting, some .intersecting => "pass"
          | .disjoint, some .disjoint => "pass"
          | .withinMargin x y, some (.withinMargin u v) =>
            let P1 := qiso3 p1; let P2 := qiso3 p2
            if !(unitQ P1 && unitQ P2) then "skip non-unit-rotation" else
            if !(finite3 u && finite3 v) then "fail nonfinite-output" else
            let sc := vmag P1.t + vmag P2.t + vmag (q3 x) + vmag (q3 y)
            if closeV (P1.invAct (q3 u)) (q3 x) sc && closeV (P2.invAct (q3 v)) (q3 y) sc then "pass"
            else "fail not-the-transformed-points"
          | _, _ => "fail variant-changed"
        | none => "skip bad-args" }
  | "hit_swapped" => some {
      model := fun a => run (do let t ← pf; let w1 ← pv3; let w2 ← pv3; let n1 ← pv3; let n2 ← pv3; let st ← pnat
                                pure (fhit (ShapeCastHit3.swapped ⟨t, w1, w2, n1, n2, st⟩))) a
      oracle := fun a o => match run (do let t ← pf; let w1 ← pv3; let w2 ← pv3; let n1 ← pv3; let n2 ← pv3; let st ← pnat
                                         pure (t, w1, w2, n1, n2, st)) a with
        | some (t, w1, w2, n1, n2, st) =>
          withOut (do let t' ← pfo; let a ← pov3; let b ← pov3; let c ← pov3; let d ← pov3; let s ← pnat; pure (t', a, b, c, d, s)) o
            fun (t', a, b, c, d, s) =>
              if ff t' = ff t && fv3 a = fv3 w2 && fv3 b = fv3 w1 && fv3 c = fv3 n2 && fv3 d = fv3 n1 && s = st then "pass"
              else "fail not-the-swapped-hit"
        | none => "skip bad-args" }
  /- ---------------- support maps of ball and cuboid ---------------- -/
  | "support_toward" | "support" => some {
      model := fun a => run (do let s ← pshape; let m ← piso3; let d ← pv3
                                match s.closed.bind Shape3.supportMap with
                                | some S => pure (fv3 (if fn = "support" then S.support m d else S.supportToward m d))
                                | none => failure) a
      oracle := fun a o => match run (do let s ← pshape; let m ← piso3; let d ← pv3; pure (s, m, d)) a with
        | some (s, m, d) => withOut pov3 o fun r =>
            if !finite3 r then "fail nonfinite-output" else
            let M := qiso3 m; let D := q3 d; let R := q3 r
            if !unitQ M then "skip non-unit-rotation" else
            if fn = "support_toward" && !unitV D then "skip non-unit-direction" else
            match s.closed.map qshape with
            | some (.cuboid he) =>
              let best := ((cuboidCorners he).map fun c => D.dot (M.act c)).foldl max (D.dot (M.act ⟨he.x, he.y, he.z⟩))
              let sc := vmag M.t + vmag he
              if !memW (.cuboid he) M R (tol * (1 + sc)) then "fail support-point-outside-cuboid"
              else if close (D.dot R) best (vmag D * sc) then "pass" else "fail not-a-maximiser"
            | some (.ball rad) =>
              let v := R.sub M.t
              let sc := vmag M.t + rad
              -- v = rad · D/|D|  ⇔  v·D ≥ 0, (v·D)² = rad²|D|², |v|² = rad²
              if !close v.normSq (rad * rad) (sc * sc) then "fail support-point-not-on-sphere"
              else if v.dot D < 0 then "fail wrong-side"
              else if close ((v.dot D) * (v.dot D)) (rad * rad * D.normSq) (sc * sc * D.normSq) then "pass" else "fail not-a-maximiser"
            | _ => "skip bad-shape"
        | none => "skip bad-args" }
  /- ---------------- mirrored wrappers over the tabulated canonical sibling (ball vs cuboid) ---------------- -/
  | "w_contact_ball_cp" => some {
      model := fun a => run (do let (_, _, m) ← pBallCub; let _ ← pf; let pinv ← piso3; let canon ← pcanonContact
                                if !sameIso m.inverse pinv then pure "inverse-mismatch"
                                else pure (fcontact (contactBallCP (fun _ => canon) m))) a
      oracle := fun a o => match run (do let x ← pBallCub; let p ← pf; pure (x, p)) a with
        | some ((r, s, m), p) => withOut pcontactOut o fun out =>
            if !(out.all finiteContact) then "fail nonfinite-output" else
            judgeContact (localPair (.ball r) s m) (q p) (out.map fun c => contactToFrame1 (qcontact c) (qiso3 m))
        | none => "skip bad-args" }
  | "w_cp_ball_cp" => some {
      model := fun a => run (do let (_, _, m) ← pBallCub; let _ ← pf; let pinv ← piso3; let canon ← pcanonContact
                                if !sameIso m.inverse pinv then pure "inverse-mismatch"
                                else pure (fcp (some (closestPointsBallCP (fun _ => canon) m)))) a
      oracle := fun a o => match run (do let x ← pBallCub; let p ← pf; pure (x, p)) a with
        | some ((r, s, m), p) => withOut pcpOut o fun out =>
            if !(out.all finiteCP) then "fail nonfinite-output" else
            if q p < 0 then "skip negative-margin" else
            judgeCP (localPair (.ball r) s m) (q p) (out.map fun c => cpToFrame1 (qcp c) (qiso3 m))
        | none => "skip bad-args" }
  | "w_cp_cp_ball" => some {
      model := fun a => run (do let (_, _, m) ← pBallCub; let _ ← pf; let canon ← pcanonContact
                                pure (fcp (some (closestPointsCPBall (fun _ => canon) m)))) a
      oracle := fun a o => match run (do let x ← pBallCub; let p ← pf; pure (x, p)) a with
        | some ((r, s, m), p) => withOut pcpOut o fun out =>
            if !(out.all finiteCP) then "fail nonfinite-output" else
            if q p < 0 then "skip negative-margin" else
            judgeCP (localPair s (.ball r) m) (q p) (out.map fun c => cpToFrame1 (qcp c) (qiso3 m))
        | none => "skip bad-args" }
  | "w_distance_ball_cp" => some {
      model := fun a => run (do let (_, _, m) ← pBallCub; let pinv ← piso3; let cd ← pf
                                if !sameIso m.inverse pinv then pure "inverse-mismatch"
                                else pure (ff (distanceBallCP (fun _ => cd) m))) a
      oracle := fun a o => match run pBallCub a with
        | some (r, s, m) => withOut pfo o fun out =>
            if !FloatIO.isFinite out then "fail nonfinite-output" else judgeDistance (localPair (.ball r) s m) (q out)
        | none => "skip bad-args" }
  | "w_it_ball_pq" => some {
      model := fun a => run (do let (_, _, m) ← pBallCub; let pinv ← piso3; let ci ← pbool
                                if !sameIso m.inverse pinv then pure "inverse-mismatch"
                                else pure (fb (intersectionTestBallPQ (fun _ => ci) m))) a
      oracle := fun a o => match run pBallCub a with
        | some (r, s, m) => withOut pbool o fun out => judgeIT (localPair (.ball r) s m) out
        | none => "skip bad-args" }
  | "o_contact" | "o_distance" | "o_it" | "o_cp" => some (oHandler fn)
  | "o_cast" => some { model := fun _ => some "oracle-only", oracle := fun a o => oracleCast a o }
  /- ---------------- 2-D ---------------- -/
  | "iso2_inverse" => some {
      model := fun a => run (do let m ← piso2; pure (fiso2 m.inverse)) a
      oracle := fun a o => match run piso2 a with
        | some m => withOut poiso2 o fun r =>
            if !finiteIso2 r then "fail nonfinite-output" else
            let M := qiso2 m; let R := qiso2 r
            if !unitC M then "skip non-unit-rotation" else
            if allClose2 (probes2.map fun p => R.act (M.act p)) probes2 (vmag2 M.t + 10) &&
               allClose2 (probes2.map fun p => M.act (R.act p)) probes2 (vmag2 M.t + 10)
            then "pass" else "fail inverse-is-not-a-two-sided-inverse"
        | none => "skip bad-args" }
  | "iso2_mul" => some {
      model := fun a => run (do let m ← piso2; let n ← piso2; pure (fiso2 (m.mul n))) a
      oracle := fun a o => match run (do let m ← piso2; let n ← piso2; pure (m, n)) a with
        | some (m, n) => withOut poiso2 o fun r =>
            if !finiteIso2 r then "fail nonfinite-output" else
            let M := qiso2 m; let N := qiso2 n; let R := qiso2 r
            if !(unitC M && unitC N) then "skip non-unit-rotation" else
            if allClose2 (probes2.map R.act) (probes2.map fun p => M.act (N.act p)) (vmag2 M.t + vmag2 N.t + 10)
            then "pass" else "fail product-does-not-act-as-composition"
        | none => "skip bad-args" }
  | "iso2_inv_mul" => some {
      model := fun a => run (do let m ← piso2; let n ← piso2; pure (fiso2 (m.invMul n))) a
      oracle := fun a o => match run (do let m ← piso2; let n ← piso2; pure (m, n)) a with
        | some (m, n) => withOut poiso2 o fun r =>
            if !finiteIso2 r then "fail nonfinite-output" else
            let M := qiso2 m; let N := qiso2 n; let R := qiso2 r
            if !(unitC M && unitC N) then "skip non-unit-rotation" else
            if allClose2 (probes2.map fun p => M.act (R.act p)) (probes2.map N.act) (vmag2 M.t + vmag2 N.t + 10)
            then "pass" else "fail inv_mul-is-not-inverse-times"
        | none => "skip bad-args" }
  | "iso2_act" => some {
      model := fun a => run (do let m ← piso2; let p ← pv2; pure (fv2 (m.act p))) a
      oracle := fun a o => match run (do let m ← piso2; let p ← pv2; pure (m, p)) a with
        | some (m, p) => withOut pov2 o fun r =>
            if !finite2 r then "fail nonfinite-output" else
            let M := qiso2 m
            if !unitC M then "skip non-unit-rotation" else
            if close ((q2 r).sub M.t).normSq (q2 p).normSq ((q2 p).normSq + vmag2 M.t) then "pass" else "fail action-not-isometric"
        | none => "skip bad-args" }
  | "iso2_inv_act" => some {
      model := fun a => run (do let m ← piso2; let p ← pv2; pure (fv2 (m.invAct p))) a
      oracle := fun a o => match run (do let m ← piso2; let p ← pv2; pure (m, p)) a with
        | some (m, p) => withOut pov2 o fun r =>
            if !finite2 r then "fail nonfinite-output" else
            let M := qiso2 m
            if !unitC M then "skip non-unit-rotation" else
            if closeV2 (M.act (q2 r)) (q2 p) (vmag2 (q2 p) + vmag2 M.t) then "pass" else "fail inverse-action-not-inverse"
        | none => "skip bad-args" }
  | "d2_contact" => some {
      model := fun a => run (do let (s1, s2, m) ← pDetails2; let p ← pf
                                pure (routeStr (detailsContact2 s1 s2 m p) fcontact2)) a
      oracle := fun a o => match run (do let x ← pDetails2; let p ← pf; pure (x, p)) a with
        | some ((s1, s2, m), p) => withOut pcontactOut2 o fun r =>
            if !(r.all finiteContact2) then "fail nonfinite-output" else
            let M := qiso2 m
            judgeContact2 ⟨qshape2 s1, Iso2.identity, qshape2 s2, M⟩ (q p)
              (r.map fun c => let c := qcontact2 c; ⟨c.point1, M.act c.point2, c.normal1, M.rot c.normal2, c.dist⟩)
        | none => "skip bad-args" }
  | "q2_contact" => some {
      model := fun a => run (do let (s1, p1, s2, p2) ← pWorld2; let p ← pf; pure (worldContact2 s1 p1 s2 p2 p)) a
      oracle := fun a o => match run (do let x ← pWorld2; let p ← pf; pure (x, p)) a with
        | some ((s1, p1, s2, p2), p) => withOut pcontactOut2 o fun r =>
            if !(r.all finiteContact2) then "fail nonfinite-output" else
            judgeContact2 ⟨qshape2 s1, qiso2 p1, qshape2 s2, qiso2 p2⟩ (q p) (r.map qcontact2)
        | none => "skip bad-args" }
  | "o2_contact" | "o2_distance" | "o2_it" | "o2_cp" =>
      some { model := fun _ => some "oracle-only", oracle := fun a o => oracleO2 fn a o }
  | "o2_cast" => some { model := fun _ => some "oracle-only", oracle := fun a o => oracleCast2 a o }
  /- ---------------- closed-form cuboid/cuboid separating-axis test (SatDriver.lean) ---------------- -/
  | _ => match satHandler fn with
    | some h => some h
    | none => wrapHandler fn

/-- every C03 oracle starts with the totality clause (`fail non-finite-output …`, see `guardFinite`) -/
def handler (fn : String) : Option Handler := (handlerCore fn).map (guardFinite fn)

end C03
