import ParryModel.Proto
import ParryModel.C03.Model
import ParryModel.C03.Oracle
/-! C03 protocol handlers: model evaluation at `Float` and exact-`Rat` oracles on implementation output. -/
namespace C03
open Model Proto

def fiso3 (m : Iso3 Float) : String := s!"{ff m.qi} {ff m.qj} {ff m.qk} {ff m.qw} {fv3 m.t}"
def poiso3 : P (Iso3 Float) := do
  let i ← pfo; let j ← pfo; let k ← pfo; let w ← pfo; let t ← pov3; pure ⟨i, j, k, w, t⟩
def finiteIso (m : Iso3 Float) : Bool :=
  FloatIO.isFinite m.qi && FloatIO.isFinite m.qj && FloatIO.isFinite m.qk && FloatIO.isFinite m.qw && finite3 m.t

def withOut {α} (p : P α) (out : List String) (k : α → String) : String :=
  match out with
  | "panic" :: _ :: _ => "fail panic"
  | _ => match run p out with
    | some a => k a
    | none => "fail unparsable-output"

/-- sample points for the action-level group oracles -/
def probes : List (V3 Rat) := [⟨0, 0, 0⟩, ⟨1, 0, 0⟩, ⟨0, 1, 0⟩, ⟨0, 0, 1⟩, ⟨3, -2, 5⟩]
def allClose (ps qs : List (V3 Rat)) (scale : Rat) : Bool :=
  (ps.zip qs).all fun (a, b) => closeV a b scale
def isoScale (m : Iso3 Rat) : Rat := vmag m.t + 10

def pcontactIn : P (Contact3 Float) := do
  let a ← pv3; let b ← pv3; let c ← pv3; let d ← pv3; let e ← pf; pure ⟨a, b, c, d, e⟩
def pcpIn : P (ClosestPoints3 Float) := do
  let t ← tok
  match t with
  | "intersecting" => pure .intersecting
  | "disjoint" => pure .disjoint
  | "within" => do let a ← pv3; let b ← pv3; pure (.withinMargin a b)
  | _ => failure
def fhit (h : ShapeCastHit3 Float) : String :=
  s!"{ff h.toi} {fv3 h.witness1} {fv3 h.witness2} {fv3 h.normal1} {fv3 h.normal2} {h.status}"

/-- pair of closed-form shapes + relative pose -/
def pDetails : P (Shape3 Float × Shape3 Float × Iso3 Float) := do
  let a ← pshape; let b ← pshape; let m ← piso3
  match a.closed, b.closed with
  | some x, some y => pure (x, y, m)
  | _, _ => failure
/-- `s1 pos1 s2 pos2` -/
def pWorld : P (Shape3 Float × Iso3 Float × Shape3 Float × Iso3 Float) := do
  let a ← pshape; let m1 ← piso3; let b ← pshape; let m2 ← piso3
  match a.closed, b.closed with
  | some x, some y => pure (x, m1, y, m2)
  | _, _ => failure

def localPair (s1 s2 : Shape3 Float) (pos12 : Iso3 Float) : Pair :=
  ⟨qshape s1, Iso3.identity, qshape s2, qiso3 pos12⟩
def worldPair (s1 : Shape3 Float) (p1 : Iso3 Float) (s2 : Shape3 Float) (p2 : Iso3 Float) : Pair :=
  ⟨qshape s1, qiso3 p1, qshape s2, qiso3 p2⟩
/-- a contact in the two local frames, moved to the frame of shape 1 -/
def contactToFrame1 (c : Contact3 Rat) (pos12 : Iso3 Rat) : Contact3 Rat :=
  ⟨c.point1, pos12.act c.point2, c.normal1, pos12.rot c.normal2, c.dist⟩
def cpToFrame1 (c : ClosestPoints3 Rat) (pos12 : Iso3 Rat) : ClosestPoints3 Rat :=
  match c with
  | .withinMargin a b => .withinMargin a (pos12.act b)
  | c => c
def qcp : ClosestPoints3 Float → ClosestPoints3 Rat
  | .intersecting => .intersecting
  | .disjoint => .disjoint
  | .withinMargin a b => .withinMargin (q3 a) (q3 b)
def finiteCP : ClosestPoints3 Float → Bool
  | .withinMargin a b => finite3 a && finite3 b
  | _ => true

def routeStr {α} (r : Option α) (f : α → String) : String :=
  match r with
  | none => "noroute"
  | some x => f x

/-! ### world-frame models of the free functions on the closed-form routes -/
def worldContact (s1 : Shape3 Float) (p1 : Iso3 Float) (s2 : Shape3 Float) (p2 : Iso3 Float) (pred : Float) : String :=
  match detailsContact s1 s2 Iso3.identity pred with
  | none => "noroute"
  | some _ => fcontact (queryContact (fun m => (detailsContact s1 s2 m pred).getD none) p1 p2)
def worldCP (s1 : Shape3 Float) (p1 : Iso3 Float) (s2 : Shape3 Float) (p2 : Iso3 Float) (margin : Float) : String :=
  match detailsClosestPoints s1 s2 (p1.invMul p2) margin with
  | none => "noroute"
  | some none => "panic"
  | some (some _) =>
    fcp (some (queryClosestPoints (fun m => ((detailsClosestPoints s1 s2 m margin).getD none).getD .disjoint) p1 p2))

def handler (fn : String) : Option Handler :=
  match fn with
  /- ---------------- isometry group glue ---------------- -/
  | "iso_inverse" => some {
      model := fun a => run (do let m ← piso3; pure (fiso3 m.inverse)) a
      oracle := fun a o => match run piso3 a with
        | some m => withOut poiso3 o fun r =>
            if !finiteIso r then "fail nonfinite-output" else
            let M := qiso3 m; let R := qiso3 r
            if !unitQ M then "skip non-unit-rotation" else
            if allClose (probes.map fun p => R.act (M.act p)) probes (isoScale M) &&
               allClose (probes.map fun p => M.act (R.act p)) probes (isoScale M)
            then "pass" else "fail inverse-is-not-a-two-sided-inverse"
        | none => "skip bad-args" }
  | "iso_mul" => some {
      model := fun a => run (do let m ← piso3; let n ← piso3; pure (fiso3 (m.mul n))) a
      oracle := fun a o => match run (do let m ← piso3; let n ← piso3; pure (m, n)) a with
        | some (m, n) => withOut poiso3 o fun r =>
            if !finiteIso r then "fail nonfinite-output" else
            let M := qiso3 m; let N := qiso3 n; let R := qiso3 r
            if !(unitQ M && unitQ N) then "skip non-unit-rotation" else
            if allClose (probes.map R.act) (probes.map fun p => M.act (N.act p)) (isoScale M + isoScale N)
            then "pass" else "fail product-does-not-act-as-composition"
        | none => "skip bad-args" }
  | "iso_inv_mul" => some {
      model := fun a => run (do let m ← piso3; let n ← piso3; pure (fiso3 (m.invMul n))) a
      oracle := fun a o => match run (do let m ← piso3; let n ← piso3; pure (m, n)) a with
        | some (m, n) => withOut poiso3 o fun r =>
            if !finiteIso r then "fail nonfinite-output" else
            let M := qiso3 m; let N := qiso3 n; let R := qiso3 r
            if !(unitQ M && unitQ N) then "skip non-unit-rotation" else
            -- M · (M⁻¹N) p = N p
            if allClose (probes.map fun p => M.act (R.act p)) (probes.map N.act) (isoScale M + isoScale N)
            then "pass" else "fail inv_mul-is-not-inverse-times"
        | none => "skip bad-args" }
  | "iso_act" => some {
      model := fun a => run (do let m ← piso3; let p ← pv3; pure (fv3 (m.act p))) a
      oracle := fun a o => match run (do let m ← piso3; let p ← pv3; pure (m, p)) a with
        | some (m, p) => withOut pov3 o fun r =>
            if !finite3 r then "fail nonfinite-output" else
            let M := qiso3 m
            if !unitQ M then "skip non-unit-rotation" else
            -- an isometry: distance to the image of the origin is the norm of p
            if close ((q3 r).sub M.t).normSq (q3 p).normSq ((q3 p).normSq + vmag M.t) then "pass" else "fail action-not-isometric"
        | none => "skip bad-args" }
  | "iso_inv_act" => some {
      model := fun a => run (do let m ← piso3; let p ← pv3; pure (fv3 (m.invAct p))) a
      oracle := fun a o => match run (do let m ← piso3; let p ← pv3; pure (m, p)) a with
        | some (m, p) => withOut pov3 o fun r =>
            if !finite3 r then "fail nonfinite-output" else
            let M := qiso3 m
            if !unitQ M then "skip non-unit-rotation" else
            if closeV (M.act (q3 r)) (q3 p) (vmag (q3 p) + vmag M.t) then "pass" else "fail inverse-action-not-inverse"
        | none => "skip bad-args" }
  | "iso_rot" => some {
      model := fun a => run (do let m ← piso3; let p ← pv3; pure (fv3 (m.rot p))) a
      oracle := fun a o => match run (do let m ← piso3; let p ← pv3; pure (m, p)) a with
        | some (m, p) => withOut pov3 o fun r =>
            if !finite3 r then "fail nonfinite-output" else
            let M := qiso3 m
            if !unitQ M then "skip non-unit-rotation" else
            if close (q3 r).normSq (q3 p).normSq (q3 p).normSq then "pass" else "fail rotation-changes-norm"
        | none => "skip bad-args" }
  | "iso_inv_rot" => some {
      model := fun a => run (do let m ← piso3; let p ← pv3; pure (fv3 (m.invRot p))) a
      oracle := fun a o => match run (do let m ← piso3; let p ← pv3; pure (m, p)) a with
        | some (m, p) => withOut pov3 o fun r =>
            if !finite3 r then "fail nonfinite-output" else
            let M := qiso3 m
            if !unitQ M then "skip non-unit-rotation" else
            if closeV (M.rot (q3 r)) (q3 p) (vmag (q3 p)) then "pass" else "fail inverse-rotation-not-inverse"
        | none => "skip bad-args" }
  /- ---------------- closed-form details functions, pos12 form ---------------- -/
  | "d_contact" => some {
      model := fun a => run (do let (s1, s2, m) ← pDetails; let p ← pf
                                pure (routeStr (detailsContact s1 s2 m p) fcontact)) a
      oracle := fun a o => match run (do let x ← pDetails; let p ← pf; pure (x, p)) a with
        | some ((s1, s2, m), p) => withOut pcontactOut o fun r =>
            if !(r.all finiteContact) then "fail nonfinite-output" else
            judgeContact (localPair s1 s2 m) (q p) (r.map fun c => contactToFrame1 (qcontact c) (qiso3 m))
        | none => "skip bad-args" }
  | "d_distance" => some {
      model := fun a => run (do let (s1, s2, m) ← pDetails; pure (routeStr (detailsDistance s1 s2 m) ff)) a
      oracle := fun a o => match run pDetails a with
        | some (s1, s2, m) => withOut pfo o fun r =>
            if !FloatIO.isFinite r then "fail nonfinite-output" else judgeDistance (localPair s1 s2 m) (q r)
        | none => "skip bad-args" }
  | "d_it" => some {
      model := fun a => run (do let (s1, s2, m) ← pDetails; pure (routeStr (detailsIntersectionTest s1 s2 m) fb)) a
      oracle := fun a o => match run pDetails a with
        | some (s1, s2, m) => withOut pbool o fun r => judgeIT (localPair s1 s2 m) r
        | none => "skip bad-args" }
  | "d_cp" => some {
      model := fun a => run (do let (s1, s2, m) ← pDetails; let p ← pf
                                pure (routeStr (detailsClosestPoints s1 s2 m p) fcp)) a
      oracle := fun a o => match run (do let x ← pDetails; let p ← pf; pure (x, p)) a with
        | some ((s1, s2, m), p) => withOut pcpOut o fun r =>
            if !(r.all finiteCP) then "fail nonfinite-output" else
            judgeCP (localPair s1 s2 m) (q p) (r.map fun c => cpToFrame1 (qcp c) (qiso3 m))
        | none => "skip bad-args" }
  /- ---------------- free functions through the dispatcher, closed-form routes ---------------- -/
  | "q_contact" => some {
      model := fun a => run (do let (s1, p1, s2, p2) ← pWorld; let p ← pf; pure (worldContact s1 p1 s2 p2 p)) a
      oracle := fun a o => match run (do let x ← pWorld; let p ← pf; pure (x, p)) a with
        | some ((s1, p1, s2, p2), p) => withOut pcontactOut o fun r =>
            if !(r.all finiteContact) then "fail nonfinite-output" else
            judgeContact (worldPair s1 p1 s2 p2) (q p) (r.map qcontact)
        | none => "skip bad-args" }
  | "q_distance" => some {
      model := fun a => run (do let (s1, p1, s2, p2) ← pWorld
                                pure (routeStr (queryDistance (detailsDistance s1 s2) p1 p2) ff)) a
      oracle := fun a o => match run pWorld a with
        | some (s1, p1, s2, p2) => withOut pfo o fun r =>
            if !FloatIO.isFinite r then "fail nonfinite-output" else judgeDistance (worldPair s1 p1 s2 p2) (q r)
        | none => "skip bad-args" }
  | "q_it" => some {
      model := fun a => run (do let (s1, p1, s2, p2) ← pWorld
                                pure (routeStr (queryIntersectionTest (detailsIntersectionTest s1 s2) p1 p2) fb)) a
      oracle := fun a o => match run pWorld a with
        | some (s1, p1, s2, p2) => withOut pbool o fun r => judgeIT (worldPair s1 p1 s2 p2) r
        | none => "skip bad-args" }
  | "q_cp" => some {
      model := fun a => run (do let (s1, p1, s2, p2) ← pWorld; let p ← pf; pure (worldCP s1 p1 s2 p2 p)) a
      oracle := fun a o => match run (do let x ← pWorld; let p ← pf; pure (x, p)) a with
        | some ((s1, p1, s2, p2), p) => withOut pcpOut o fun r =>
            if !(r.all finiteCP) then "fail nonfinite-output" else
            judgeCP (worldPair s1 p1 s2 p2) (q p) (r.map qcp)
        | none => "skip bad-args" }
  | _ => none

end C03
