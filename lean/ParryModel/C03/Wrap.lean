import ParryModel.C03.Model
/-!
# C03 model, part 3: the remaining mirrored wrappers and the `NonlinearRigidMotion` frame helpers.

Literal transliteration of
`src/query/{closest_points,contact,distance,intersection_test}/*_composite_shape_shape.rs`
(`*_shape_composite_shape`: the swapped wrappers of the composite-shape dispatch arms),
`src/query/shape_cast/shape_cast_composite_shape_shape.rs` (`cast_shapes_shape_composite_shape`),
`src/query/shape_cast/shape_cast_halfspace_support_map.rs` (`cast_shapes_support_map_halfspace`),
`src/query/nonlinear_shape_cast/nonlinear_shape_cast_composite_shape_shape.rs`
(`cast_shapes_nonlinear_shape_composite_shape`),
`src/query/nonlinear_shape_cast/nonlinear_rigid_motion.rs`
(`set_start`, `append_translation`, `prepend_translation`, `append`, `prepend`, `position_at_time`),
`src/query/nonlinear_shape_cast/nonlinear_shape_cast.rs` (`cast_shapes_nonlinear`, the free function),
nalgebra `Translation * Isometry`, `Isometry * Translation`, `Translation::inverse`.

As in `Model.lean` every wrapper is a higher-order function of its canonical sibling `f` (the `*_composite_shape_shape`
function with the dispatcher, the shapes and the scalar parameters already applied).
-/
namespace Model
variable {K : Type} [Num K]

/-! ## swapped composite-shape wrappers -/

/-- `closest_points_shape_composite_shape(dispatcher, pos12, g1, g2, margin)` =
`closest_points_composite_shape_shape(dispatcher, &pos12.inverse(), g2, g1, margin).flipped()` -/
def closestPointsShapeComposite (f : Iso3 K → ClosestPoints3 K) (pos12 : Iso3 K) : ClosestPoints3 K :=
  (f pos12.inverse).flipped

/-- `contact_shape_composite_shape`: `contact_composite_shape_shape(&pos12.inverse(), g2, g1, prediction).map(flipped)` -/
def contactShapeComposite (f : Iso3 K → Option (Contact3 K)) (pos12 : Iso3 K) : Option (Contact3 K) :=
  (f pos12.inverse).map Contact3.flipped

/-- `distance_shape_composite_shape`: `distance_composite_shape_shape(&pos12.inverse(), g2, g1)` -/
def distanceShapeComposite (f : Iso3 K → K) (pos12 : Iso3 K) : K := f pos12.inverse

/-- `intersection_test_shape_composite_shape`: `intersection_test_composite_shape_shape(&pos12.inverse(), g2, g1)` -/
def intersectionTestShapeComposite (f : Iso3 K → Bool) (pos12 : Iso3 K) : Bool := f pos12.inverse

/-- the swapped shape-cast wrappers `cast_shapes_shape_composite_shape` and `cast_shapes_support_map_halfspace`:
`canonical(&pos12.inverse(), &-pos12.inverse_transform_vector(vel12), g2, g1, options).map(|hit| hit.swapped())` -/
def castShapesSwapped (f : Iso3 K → V3 K → Option (ShapeCastHit3 K)) (pos12 : Iso3 K) (vel12 : V3 K) :
    Option (ShapeCastHit3 K) :=
  (f pos12.inverse (pos12.invRot vel12).neg).map ShapeCastHit3.swapped

/-! ## `NonlinearRigidMotion` -/

/-- `struct NonlinearRigidMotion` (dim3) -/
structure Motion3 (K : Type) where
  start : Iso3 K
  localCenter : V3 K
  linvel : V3 K
  angvel : V3 K

/-- `Translation::from(tra) * iso`: `Isometry::from_parts(tra * iso.translation, iso.rotation)`, `tra.vector + iso.t` -/
@[inline] def transMulIso (tra : V3 K) (iso : Iso3 K) : Iso3 K := { iso with t := tra.add iso.t }

/-- `iso * Translation::from(tra)`: `new_tr = iso.translation.vector + iso.rotation.transform_vector(tra)` -/
@[inline] def isoMulTrans (iso : Iso3 K) (tra : V3 K) : Iso3 K := { iso with t := iso.t.add (iso.rot tra) }

namespace Motion3
/-- `NonlinearRigidMotion::set_start`: the local centre is re-expressed in the new start frame -/
def setStart (m : Motion3 K) (newStart : Iso3 K) : Motion3 K :=
  { m with localCenter := newStart.invAct (m.start.act m.localCenter), start := newStart }
/-- `append_translation(tra)`: `set_start(Translation::from(tra) * start)` -/
def appendTranslation (m : Motion3 K) (tra : V3 K) : Motion3 K := m.setStart (transMulIso tra m.start)
/-- `prepend_translation(tra)`: `set_start(start * Translation::from(tra))` -/
def prependTranslation (m : Motion3 K) (tra : V3 K) : Motion3 K := m.setStart (isoMulTrans m.start tra)
/-- `append(iso)`: `set_start(iso * start)` -/
def append (m : Motion3 K) (iso : Iso3 K) : Motion3 K := m.setStart (iso.mul m.start)
/-- `prepend(iso)`: `set_start(start * iso)` -/
def prepend (m : Motion3 K) (iso : Iso3 K) : Motion3 K := m.setStart (m.start.mul iso)
/-- `position_at_time(t)` with `e = Isometry::new(linvel * t, angvel * t)` (the exponential map, tabulated):
`(shift * e) * (shift.inverse() * start)`, `shift = Translation::from((start * local_center).coords)` -/
def positionAt (m : Motion3 K) (e : Iso3 K) : Iso3 K :=
  let center := m.start.act m.localCenter
  (transMulIso center e).mul (transMulIso center.neg m.start)
end Motion3

/-- `cast_shapes_nonlinear_shape_composite_shape(dispatcher, motion1, g1, motion2, g2, …)` =
`cast_shapes_nonlinear_composite_shape_shape(dispatcher, motion2, g2, motion1, g1, …).map(|hit| hit.swapped())` -/
def castShapesNonlinearSwapped {M : Type} (f : M → M → Option (ShapeCastHit3 K)) (motion1 motion2 : M) :
    Option (ShapeCastHit3 K) :=
  (f motion2 motion1).map ShapeCastHit3.swapped

/-- `query::cast_shapes_nonlinear(motion1, g1, motion2, g2, …)`: the dispatcher-level function, as is (the motions
carry their own world frames) -/
def queryCastShapesNonlinear {M α : Type} (d : M → M → α) (motion1 motion2 : M) : α := d motion1 motion2

end Model
