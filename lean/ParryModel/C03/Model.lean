import ParryModel.Shapes
/-!
# C03 model: result flipping helpers, mirrored wrappers, free (world-frame) query functions,
and the closed-form pairwise queries they are instantiated with.

Literal transliteration of
`src/query/contact/contact.rs` (`Contact::{flipped, transform_by_mut}`),
`src/query/closest_points/closest_points.rs` (`ClosestPoints::{flipped, transform_by}`),
`src/query/shape_cast/shape_cast.rs` (`ShapeCastHit::swapped`, `cast_shapes`),
`src/query/*/*_halfspace_support_map.rs` (canonical + mirrored, all four queries),
`src/query/*/*_ball_ball.rs`,
`src/query/*/*_ball_convex_polyhedron.rs`, `intersection_test_ball_point_query.rs` (the mirrored wrappers, as
higher-order functions of their canonical sibling),
`src/query/{distance,closest_points,contact,intersection_test}/*.rs` free functions
(`pos12 = pos1.inv_mul(pos2)`, then back-transform),
`src/shape/{ball,cuboid}.rs` + `src/shape/support_map.rs` (support maps), `src/utils/wops.rs` (`copy_sign_to`).

**Genuine defect (pinned tree).** `contact_support_map_halfspace` is written in /repo as
`contact_halfspace_support_map(pos12, …).map(flipped)` — every sibling wrapper passes `&pos12.inverse()`.
Following the defect protocol the model `contactSH` is the *corrected* behaviour; the as-written function is kept
as `contactSH_pinned` only so that the theorem file can refute its symmetry by a concrete witness.
-/
namespace Model
variable {K : Type} [Num K]

/-! ## nalgebra / parry primitives not in `Vec.lean` -/

/-- `WSign::copy_sign_to` on a scalar: the sign **bit** of `d` is copied onto `to`.
`1 / d < 0` reads the sign bit of a zero at `Float` (`1 / -0.0 = -∞`) and is `d < 0` in an ordered field. -/
@[inline] def copySign (d to : K) : K := if 1 / d < 0 then -(nabs to) else nabs to


/-- `Vector::x_axis()` -/
@[inline] def V3.xAxis : V3 K := ⟨1, 0, 0⟩
@[inline] def V2.xAxis : V2 K := ⟨1, 0⟩

/-! ## Support maps (`trait SupportMap`) -/

/-- The two transformed support functions of `trait SupportMap` used by the half-space queries. -/
structure SupportMap3 (K : Type) where
  /-- `support_point(transform, dir)` -/
  support : Iso3 K → V3 K → V3 K
  /-- `support_point_toward(transform, dir)` (`dir : Unit<Vector>`) -/
  supportToward : Iso3 K → V3 K → V3 K

/-- `Cuboid::local_support_point`: `dir.copy_sign_to(self.half_extents)` -/
@[inline] def cuboidLocalSupport (he dir : V3 K) : V3 K :=
  ⟨copySign dir.x he.x, copySign dir.y he.y, copySign dir.z he.z⟩

/-- `impl SupportMap for Cuboid` with the trait's default `support_point`/`support_point_toward`:
`transform * local_support_point(transform.inverse_transform_vector(dir))`. -/
@[inline] def cuboidSupportMap (he : V3 K) : SupportMap3 K where
  support m dir := m.act (cuboidLocalSupport he (m.invRot dir))
  supportToward m dir := m.act (cuboidLocalSupport he (m.invRot dir))

/-- `impl SupportMap for Ball` (overrides both): `support_point_toward(m, dir) = m.translation + dir * radius`,
`support_point(m, dir) = support_point_toward(m, Unit::new_normalize(dir))`. -/
@[inline] def ballSupportMap (r : K) : SupportMap3 K where
  support m dir := m.t.add ((V3.normalize dir).smul r)
  supportToward m dir := m.t.add (dir.smul r)

/-! ## Result records and their flipping helpers -/

/-- `struct Contact` -/
structure Contact3 (K : Type) where
  point1 : V3 K
  point2 : V3 K
  normal1 : V3 K
  normal2 : V3 K
  dist : K

namespace Contact3
/-- `Contact::flipped`: swaps points and normals -/
@[inline] def flipped (c : Contact3 K) : Contact3 K := ⟨c.point2, c.point1, c.normal2, c.normal1, c.dist⟩
/-- `Contact::transform_by_mut(pos1, pos2)` -/
@[inline] def transformBy (c : Contact3 K) (pos1 pos2 : Iso3 K) : Contact3 K :=
  ⟨pos1.act c.point1, pos2.act c.point2, pos1.rot c.normal1, pos2.rot c.normal2, c.dist⟩
end Contact3

/-- `enum ClosestPoints` -/
inductive ClosestPoints3 (K : Type) where
  | intersecting
  | withinMargin (p1 p2 : V3 K)
  | disjoint

namespace ClosestPoints3
/-- `ClosestPoints::flipped` -/
@[inline] def flipped : ClosestPoints3 K → ClosestPoints3 K
  | withinMargin p1 p2 => withinMargin p2 p1
  | c => c
/-- `ClosestPoints::transform_by(pos1, pos2)` -/
@[inline] def transformBy (c : ClosestPoints3 K) (pos1 pos2 : Iso3 K) : ClosestPoints3 K :=
  match c with
  | withinMargin p1 p2 => withinMargin (pos1.act p1) (pos2.act p2)
  | c => c
end ClosestPoints3

/-- `struct ShapeCastHit` (`status` as its discriminant) -/
structure ShapeCastHit3 (K : Type) where
  toi : K
  witness1 : V3 K
  witness2 : V3 K
  normal1 : V3 K
  normal2 : V3 K
  status : Nat

/-- `ShapeCastHit::swapped` -/
@[inline] def ShapeCastHit3.swapped (h : ShapeCastHit3 K) : ShapeCastHit3 K :=
  ⟨h.toi, h.witness2, h.witness1, h.normal2, h.normal1, h.status⟩
/-- `ShapeCastHit::transform1_by` -/
@[inline] def ShapeCastHit3.transform1By (h : ShapeCastHit3 K) (pos : Iso3 K) : ShapeCastHit3 K :=
  ⟨h.toi, pos.act h.witness1, h.witness2, pos.rot h.normal1, h.normal2, h.status⟩

/-! ## Half-space vs support map: canonical functions and their mirrored wrappers
`n` is `halfspace.normal`, `S` the other shape's support map, `pos12` the pose of the second argument in the
frame of the first. -/

/-- `distance_halfspace_support_map` -/
def distanceHS (pos12 : Iso3 K) (n : V3 K) (S : SupportMap3 K) : K :=
  let deepest := S.supportToward pos12 n.neg
  nmax (n.dot deepest) 0

/-- `distance_support_map_halfspace` -/
def distanceSH (pos12 : Iso3 K) (S : SupportMap3 K) (n : V3 K) : K :=
  distanceHS pos12.inverse n S

/-- `intersection_test_halfspace_support_map` -/
def intersectionTestHS (pos12 : Iso3 K) (n : V3 K) (S : SupportMap3 K) : Bool :=
  let deepest := S.supportToward pos12 n.neg
  decide (n.dot deepest ≤ 0)

/-- `intersection_test_support_map_halfspace` -/
def intersectionTestSH (pos12 : Iso3 K) (S : SupportMap3 K) (n : V3 K) : Bool :=
  intersectionTestHS pos12.inverse n S

/-- `closest_points_halfspace_support_map`; `none` = the `assert!(margin >= 0.0)` panic. -/
def closestPointsHS (pos12 : Iso3 K) (n : V3 K) (S : SupportMap3 K) (margin : K) : Option (ClosestPoints3 K) :=
  if ¬ (0 ≤ margin) then none else
  let deepest := S.support pos12 n.neg
  let distance := n.dot deepest.neg
  if -margin ≤ distance then
    if 0 ≤ distance then some .intersecting
    else
      let p1 := deepest.add (n.smul distance)
      let p2 := pos12.invAct deepest
      some (.withinMargin p1 p2)
  else some .disjoint

/-- `closest_points_support_map_halfspace` -/
def closestPointsSH (pos12 : Iso3 K) (S : SupportMap3 K) (n : V3 K) (margin : K) : Option (ClosestPoints3 K) :=
  (closestPointsHS pos12.inverse n S margin).map ClosestPoints3.flipped

/-- `contact_halfspace_support_map` -/
def contactHS (pos12 : Iso3 K) (n : V3 K) (S : SupportMap3 K) (prediction : K) : Option (Contact3 K) :=
  let deepest := S.supportToward pos12 n.neg
  let distance := n.dot deepest
  if distance ≤ prediction then
    let point1 := deepest.sub (n.smul distance)
    let point2 := pos12.invAct deepest
    let normal2 := pos12.invRot n.neg
    some ⟨point1, point2, n, normal2, distance⟩
  else none

/-- `contact_support_map_halfspace`, **corrected**: `contact_halfspace_support_map(&pos12.inverse(), …).map(flipped)`
(fixes/C03-contact-support-map-halfspace.diff). -/
def contactSH (pos12 : Iso3 K) (S : SupportMap3 K) (n : V3 K) (prediction : K) : Option (Contact3 K) :=
  (contactHS pos12.inverse n S prediction).map Contact3.flipped

/-- `contact_support_map_halfspace` **as written on the pinned tree** (passes `pos12`, not its inverse).
Not used by the correspondence; kept to state `contactSH_pinned_not_mirrored`. -/
def contactSH_pinned (pos12 : Iso3 K) (S : SupportMap3 K) (n : V3 K) (prediction : K) : Option (Contact3 K) :=
  (contactHS pos12 n S prediction).map Contact3.flipped

/-! ## Ball vs ball (self-mirrored closed forms) -/

/-- `distance_ball_ball(b1, center2, b2)` -/
def distanceBallBall (r1 : K) (center2 : V3 K) (r2 : K) : K :=
  let distanceSquared := center2.normSq
  let sumRadius := r1 + r2
  if distanceSquared ≤ sumRadius * sumRadius then 0 else Num.sqrt distanceSquared - sumRadius

/-- `intersection_test_ball_ball(center12, b1, b2)` -/
def intersectionTestBallBall (center12 : V3 K) (r1 r2 : K) : Bool :=
  let distanceSquared := center12.normSq
  let sumRadius := r1 + r2
  decide (distanceSquared ≤ sumRadius * sumRadius)

/-- `closest_points_ball_ball`; `none` = the `assert!(margin >= 0.0)` panic. -/
def closestPointsBallBall (pos12 : Iso3 K) (r1 r2 margin : K) : Option (ClosestPoints3 K) :=
  if ¬ (0 ≤ margin) then none else
  let deltaPos := pos12.t
  let distance := deltaPos.norm
  let sumRadius := r1 + r2
  if distance - margin ≤ sumRadius then
    if distance ≤ sumRadius then some .intersecting
    else
      let normal := V3.normalize deltaPos
      let p1 := normal.smul r1
      let p2 := (pos12.invRot normal).smul (-r2)
      some (.withinMargin p1 p2)
  else some .disjoint

/-- `contact_ball_ball` -/
def contactBallBall (pos12 : Iso3 K) (r1 r2 prediction : K) : Option (Contact3 K) :=
  let center2_1 := pos12.t
  let distanceSquared := center2_1.normSq
  let sumRadius := r1 + r2
  let sumRadiusWithError := sumRadius + prediction
  if distanceSquared < sumRadiusWithError * sumRadiusWithError then
    let normal1 := if !(neq distanceSquared 0) then V3.normalize center2_1 else V3.xAxis
    let normal2 := (pos12.invRot normal1).neg
    let point1 := normal1.smul r1
    let point2 := normal2.smul r2
    some ⟨point1, point2, normal1, normal2, Num.sqrt distanceSquared - sumRadius⟩
  else none

/-! ## Mirrored wrappers over an arbitrary canonical sibling (`*_ball_convex_polyhedron`, `*_ball_point_query`)
`f` is the canonical function with its shapes and scalar parameter already applied:
`f pos = contact_convex_polyhedron_ball(pos, shape2, ball1, prediction)` etc. -/

/-- `contact_ball_convex_polyhedron(pos12, ball1, shape2, prediction)` -/
def contactBallCP (f : Iso3 K → Option (Contact3 K)) (pos12 : Iso3 K) : Option (Contact3 K) :=
  (f pos12.inverse).map Contact3.flipped

/-- `distance_ball_convex_polyhedron(pos12, ball1, shape2)` -/
def distanceBallCP (f : Iso3 K → K) (pos12 : Iso3 K) : K := f pos12.inverse

/-- `intersection_test_ball_point_query(pos12, ball1, point_query2)` -/
def intersectionTestBallPQ (f : Iso3 K → Bool) (pos12 : Iso3 K) : Bool := f pos12.inverse

/-- the `match contact { … }` shared by `closest_points_{ball_convex_polyhedron, convex_polyhedron_ball}` -/
def closestPointsOfContact (c : Option (Contact3 K)) : ClosestPoints3 K :=
  match c with
  | some contact => if contact.dist ≤ 0 then .intersecting else .withinMargin contact.point1 contact.point2
  | none => .disjoint

/-- `closest_points_convex_polyhedron_ball` -/
def closestPointsCPBall (f : Iso3 K → Option (Contact3 K)) (pos12 : Iso3 K) : ClosestPoints3 K :=
  closestPointsOfContact (f pos12)

/-- `closest_points_ball_convex_polyhedron`: goes through `contact_ball_convex_polyhedron` -/
def closestPointsBallCP (f : Iso3 K → Option (Contact3 K)) (pos12 : Iso3 K) : ClosestPoints3 K :=
  closestPointsOfContact (contactBallCP f pos12)

/-! ## The closed-form corner of `DefaultQueryDispatcher` -/

/-- the shape kinds whose pairwise queries are closed forms modelled here -/
inductive Shape3 (K : Type) where
  | ball (r : K)
  | cuboid (he : V3 K)
  | halfspace (n : V3 K)

/-- `Shape::as_support_map` restricted to the modelled kinds -/
def Shape3.supportMap : Shape3 K → Option (SupportMap3 K)
  | .ball r => some (ballSupportMap r)
  | .cuboid he => some (cuboidSupportMap he)
  | .halfspace _ => none

/-- `details::contact_*` chosen by `DefaultQueryDispatcher::contact` for the modelled pairs
(ball/ball, half-space/support-map, support-map/half-space); `none` = another route (not modelled). -/
def detailsContact (s1 s2 : Shape3 K) (pos12 : Iso3 K) (prediction : K) : Option (Option (Contact3 K)) :=
  match s1, s2 with
  | .ball r1, .ball r2 => some (contactBallBall pos12 r1 r2 prediction)
  | .halfspace n, s => s.supportMap.map fun S => contactHS pos12 n S prediction
  | s, .halfspace n => s.supportMap.map fun S => contactSH pos12 S n prediction
  | _, _ => none

/-- `details::distance_*` for ball/ball and (directly called) half-space/support-map pairs -/
def detailsDistance (s1 s2 : Shape3 K) (pos12 : Iso3 K) : Option K :=
  match s1, s2 with
  | .ball r1, .ball r2 => some (distanceBallBall r1 pos12.t r2)
  | .halfspace n, s => s.supportMap.map fun S => distanceHS pos12 n S
  | s, .halfspace n => s.supportMap.map fun S => distanceSH pos12 S n
  | _, _ => none

/-- `details::intersection_test_*` -/
def detailsIntersectionTest (s1 s2 : Shape3 K) (pos12 : Iso3 K) : Option Bool :=
  match s1, s2 with
  | .ball r1, .ball r2 => some (intersectionTestBallBall pos12.t r1 r2)
  | .halfspace n, s => s.supportMap.map fun S => intersectionTestHS pos12 n S
  | s, .halfspace n => s.supportMap.map fun S => intersectionTestSH pos12 S n
  | _, _ => none

/-- `details::closest_points_*`; inner `none` = assert panic -/
def detailsClosestPoints (s1 s2 : Shape3 K) (pos12 : Iso3 K) (margin : K) : Option (Option (ClosestPoints3 K)) :=
  match s1, s2 with
  | .ball r1, .ball r2 => some (closestPointsBallBall pos12 r1 r2 margin)
  | .halfspace n, s => s.supportMap.map fun S => closestPointsHS pos12 n S margin
  | s, .halfspace n => s.supportMap.map fun S => closestPointsSH pos12 S n margin
  | _, _ => none

/-! ## Free functions `query::{distance, closest_points, contact, intersection_test, cast_shapes}`
`d` is the dispatcher-level (`pos12`, local-frame) function with shapes and parameters applied. -/

/-- `query::distance(pos1, g1, pos2, g2)` -/
def queryDistance {α : Type} (d : Iso3 K → α) (pos1 pos2 : Iso3 K) : α := d (pos1.invMul pos2)

/-- `query::intersection_test(pos1, g1, pos2, g2)` -/
def queryIntersectionTest {α : Type} (d : Iso3 K → α) (pos1 pos2 : Iso3 K) : α := d (pos1.invMul pos2)

/-- `query::closest_points(pos1, g1, pos2, g2, max_dist)`: `.map(|res| res.transform_by(pos1, pos2))` -/
def queryClosestPoints (d : Iso3 K → ClosestPoints3 K) (pos1 pos2 : Iso3 K) : ClosestPoints3 K :=
  (d (pos1.invMul pos2)).transformBy pos1 pos2

/-- `query::contact(pos1, g1, pos2, g2, prediction)`: `contact.transform_by_mut(pos1, pos2)` -/
def queryContact (d : Iso3 K → Option (Contact3 K)) (pos1 pos2 : Iso3 K) : Option (Contact3 K) :=
  (d (pos1.invMul pos2)).map fun c => c.transformBy pos1 pos2

/-- `query::cast_shapes(pos1, vel1, g1, pos2, vel2, g2, options)`:
`vel12 = pos1.inverse_transform_vector(vel2 - vel1)`; the hit is returned as produced (local frames). -/
def queryCastShapes {α : Type} (d : Iso3 K → V3 K → α) (pos1 : Iso3 K) (vel1 : V3 K) (pos2 : Iso3 K) (vel2 : V3 K) : α :=
  d (pos1.invMul pos2) (pos1.invRot (vel2.sub vel1))


/-! ## 2-D (`parry2d`): the same sources compiled with `dim2` -/

structure SupportMap2 (K : Type) where
  support : Iso2 K → V2 K → V2 K
  supportToward : Iso2 K → V2 K → V2 K

@[inline] def cuboidLocalSupport2 (he dir : V2 K) : V2 K := ⟨copySign dir.x he.x, copySign dir.y he.y⟩

@[inline] def cuboidSupportMap2 (he : V2 K) : SupportMap2 K where
  support m dir := m.act (cuboidLocalSupport2 he (m.invRot dir))
  supportToward m dir := m.act (cuboidLocalSupport2 he (m.invRot dir))

@[inline] def ballSupportMap2 (r : K) : SupportMap2 K where
  support m dir := m.t.add ((V2.normalize dir).smul r)
  supportToward m dir := m.t.add (dir.smul r)

structure Contact2 (K : Type) where
  point1 : V2 K
  point2 : V2 K
  normal1 : V2 K
  normal2 : V2 K
  dist : K

namespace Contact2
@[inline] def flipped (c : Contact2 K) : Contact2 K := ⟨c.point2, c.point1, c.normal2, c.normal1, c.dist⟩
@[inline] def transformBy (c : Contact2 K) (pos1 pos2 : Iso2 K) : Contact2 K :=
  ⟨pos1.act c.point1, pos2.act c.point2, pos1.rot c.normal1, pos2.rot c.normal2, c.dist⟩
end Contact2

/-- `contact_halfspace_support_map` (dim2) -/
def contactHS2 (pos12 : Iso2 K) (n : V2 K) (S : SupportMap2 K) (prediction : K) : Option (Contact2 K) :=
  let deepest := S.supportToward pos12 n.neg
  let distance := n.dot deepest
  if distance ≤ prediction then
    let point1 := deepest.sub (n.smul distance)
    let point2 := pos12.invAct deepest
    let normal2 := pos12.invRot n.neg
    some ⟨point1, point2, n, normal2, distance⟩
  else none

/-- `contact_support_map_halfspace` (dim2), corrected as in 3-D -/
def contactSH2 (pos12 : Iso2 K) (S : SupportMap2 K) (n : V2 K) (prediction : K) : Option (Contact2 K) :=
  (contactHS2 pos12.inverse n S prediction).map Contact2.flipped

/-- `contact_ball_ball` (dim2) -/
def contactBallBall2 (pos12 : Iso2 K) (r1 r2 prediction : K) : Option (Contact2 K) :=
  let center2_1 := pos12.t
  let distanceSquared := center2_1.normSq
  let sumRadius := r1 + r2
  let sumRadiusWithError := sumRadius + prediction
  if distanceSquared < sumRadiusWithError * sumRadiusWithError then
    let normal1 := if !(neq distanceSquared 0) then V2.normalize center2_1 else V2.xAxis
    let normal2 := (pos12.invRot normal1).neg
    let point1 := normal1.smul r1
    let point2 := normal2.smul r2
    some ⟨point1, point2, normal1, normal2, Num.sqrt distanceSquared - sumRadius⟩
  else none

inductive Shape2 (K : Type) where
  | ball (r : K)
  | cuboid (he : V2 K)
  | halfspace (n : V2 K)

def Shape2.supportMap : Shape2 K → Option (SupportMap2 K)
  | .ball r => some (ballSupportMap2 r)
  | .cuboid he => some (cuboidSupportMap2 he)
  | .halfspace _ => none

/-- `details::contact_*` (dim2) for the closed-form pairs -/
def detailsContact2 (s1 s2 : Shape2 K) (pos12 : Iso2 K) (prediction : K) : Option (Option (Contact2 K)) :=
  match s1, s2 with
  | .ball r1, .ball r2 => some (contactBallBall2 pos12 r1 r2 prediction)
  | .halfspace n, s => s.supportMap.map fun S => contactHS2 pos12 n S prediction
  | s, .halfspace n => s.supportMap.map fun S => contactSH2 pos12 S n prediction
  | _, _ => none

/-- `query::contact` (dim2) -/
def queryContact2 (d : Iso2 K → Option (Contact2 K)) (pos1 pos2 : Iso2 K) : Option (Contact2 K) :=
  (d (pos1.invMul pos2)).map fun c => c.transformBy pos1 pos2

/-- `query::distance` / `query::intersection_test` (dim2) -/
def queryScalar2 {α : Type} (d : Iso2 K → α) (pos1 pos2 : Iso2 K) : α := d (pos1.invMul pos2)

end Model
