import ParryModel.Field
import ParryModel.C03.Model
import ParryModel.C03.Sat
import ParryModel.C03.Lemmas
import Mathlib.Analysis.Convex.Radon
/-!
# C03 theorems, part 3: COMPLETENESS of the separating-axis test for two rectangles / cuboids
(the converse of `intersectionTestCuboidCuboid_false_disjoint`).

A rectangle (cuboid) is the intersection of 2 (3) slabs.  Two of them meet iff 4 (6) slabs have a common point;
by **Helly's theorem** (Mathlib `Convex.helly_theorem'`, valid over any linearly ordered field) this holds as soon as
every 3 (4) of the slabs have a common point.

* 2-D: the four triples are "rectangle A meets one slab of B" (or vice versa) — exactly the four face-normal
  conditions of `intersection_test_cuboid_cuboid` (dim2).  Full theorem `intersectionTestCuboidCuboid2_true_iff`.
* 3-D: of the fifteen quadruples, six are "cuboid A meets one slab of B" — the six face-normal conditions — and nine
  are "the infinite prism of A along `e_i` meets the infinite prism of B along `f_j`" — one per edge pair `(i, j)`.
  `intersectionTestCuboidCuboid_true_partial` proves the Helly reduction and the six face quadruples from the code's
  own verdict and keeps the nine prism pairs as the named hypothesis `PrismsMeet`.
-/
namespace C03
open Model Model.CC

variable {K : Type} [Field K] [LinearOrder K] [IsStrictOrderedRing K] (sq : K → K)

/-! ## Pure geometry -/

/-- every value within the support range `a1|c| + a2|s|` of the rectangle `[-a1,a1]×[-a2,a2]` along `(c, s)` is
attained on the rectangle -/
private theorem rect_attains (a1 a2 c s τ : K) (ha1 : 0 ≤ a1) (ha2 : 0 ≤ a2)
    (hτ : |τ| ≤ a1 * |c| + a2 * |s|) :
    ∃ x y : K, |x| ≤ a1 ∧ |y| ≤ a2 ∧ c * x + s * y = τ := by
  set h := a1 * |c| + a2 * |s| with hh
  have hh0 : 0 ≤ h := by positivity
  rcases eq_or_lt_of_le hh0 with h0 | hpos
  · refine ⟨0, 0, by simpa using ha1, by simpa using ha2, ?_⟩
    have : |τ| ≤ 0 := by rw [h0]; exact hτ
    have : τ = 0 := abs_nonpos_iff.mp this
    simp [this]
  · obtain ⟨σc, hσc1, hσc⟩ : ∃ σ : K, |σ| = 1 ∧ c * σ = |c| := by
      rcases le_total 0 c with hc | hc
      · exact ⟨1, abs_one, by rw [abs_of_nonneg hc]; ring⟩
      · exact ⟨-1, by simp, by rw [abs_of_nonpos hc]; ring⟩
    obtain ⟨σs, hσs1, hσs⟩ : ∃ σ : K, |σ| = 1 ∧ s * σ = |s| := by
      rcases le_total 0 s with hc | hc
      · exact ⟨1, abs_one, by rw [abs_of_nonneg hc]; ring⟩
      · exact ⟨-1, by simp, by rw [abs_of_nonpos hc]; ring⟩
    have hθ : |τ / h| ≤ 1 := by
      rw [abs_div, abs_of_pos hpos]; exact (div_le_one hpos).mpr hτ
    refine ⟨τ / h * a1 * σc, τ / h * a2 * σs, ?_, ?_, ?_⟩
    · rw [abs_mul, abs_mul, hσc1, mul_one, abs_of_nonneg ha1]
      exact mul_le_of_le_one_left ha1 hθ
    · rw [abs_mul, abs_mul, hσs1, mul_one, abs_of_nonneg ha2]
      exact mul_le_of_le_one_left ha2 hθ
    · have : c * (τ / h * a1 * σc) + s * (τ / h * a2 * σs) = τ / h * (a1 * (c * σc) + a2 * (s * σs)) := by ring
      rw [this, hσc, hσs, ← hh]
      exact div_mul_cancel₀ _ (ne_of_gt hpos)

/-- a rectangle meets the slab `|c x + s y - d| ≤ b` as soon as the axis `(c, s)` does not separate them -/
private theorem rect_meets_slab (a1 a2 c s d b : K) (ha1 : 0 ≤ a1) (ha2 : 0 ≤ a2) (hb : 0 ≤ b)
    (hd : |d| ≤ b + (a1 * |c| + a2 * |s|)) :
    ∃ x y : K, |x| ≤ a1 ∧ |y| ≤ a2 ∧ |c * x + s * y - d| ≤ b := by
  set h := a1 * |c| + a2 * |s| with hh
  have hh0 : 0 ≤ h := by positivity
  obtain ⟨x, y, hx, hy, hxy⟩ := rect_attains a1 a2 c s (max (-h) (min d h)) ha1 ha2 (by
    rw [abs_le]; constructor
    · exact le_max_left _ _
    · exact max_le (by linarith) (min_le_right _ _))
  refine ⟨x, y, hx, hy, ?_⟩
  rw [hxy]
  rw [abs_le] at hd ⊢
  rcases le_total d h with h1 | h1
  · rw [min_eq_left h1]
    rcases le_total (-h) d with h2 | h2
    · rw [max_eq_right h2]; constructor <;> linarith
    · rw [max_eq_left h2]; constructor <;> linarith
  · rw [min_eq_right h1, max_eq_right (by linarith)]; constructor <;> linarith

/-- a slab `{p | |α p.1 + β p.2 + γ| ≤ r}` of the plane is convex -/
private theorem convex_slab2 (α β γ r : K) : Convex K {p : K × K | |α * p.1 + β * p.2 + γ| ≤ r} := by
  intro x hx y hy a b ha hb hab
  simp only [Set.mem_ofPred_eq, abs_le, Prod.fst_add, Prod.snd_add, Prod.smul_fst, Prod.smul_snd, smul_eq_mul] at hx hy ⊢
  have e : α * (a * x.1 + b * y.1) + β * (a * x.2 + b * y.2) + γ
      = a * (α * x.1 + β * x.2 + γ) + b * (α * y.1 + β * y.2 + γ) := by
    have : γ = (a + b) * γ := by rw [hab, one_mul]
    linear_combination this
  rw [e]
  constructor
  · nlinarith [mul_le_mul_of_nonneg_left hx.1 ha, mul_le_mul_of_nonneg_left hy.1 hb]
  · nlinarith [mul_le_mul_of_nonneg_left hx.2 ha, mul_le_mul_of_nonneg_left hy.2 hb]

/-- **Helly for four slabs of the plane**: if every three of them have a common point, all four do. -/
private theorem helly4_plane (F : Fin 4 → Set (K × K)) (hconv : ∀ i, Convex K (F i))
    (h0 : ∃ p, p ∈ F 1 ∧ p ∈ F 2 ∧ p ∈ F 3) (h1 : ∃ p, p ∈ F 0 ∧ p ∈ F 2 ∧ p ∈ F 3)
    (h2 : ∃ p, p ∈ F 0 ∧ p ∈ F 1 ∧ p ∈ F 3) (h3 : ∃ p, p ∈ F 0 ∧ p ∈ F 1 ∧ p ∈ F 2) : ∃ p, ∀ i, p ∈ F i := by
  have htrip : ∀ j : Fin 4, ∃ p, ∀ i, i ≠ j → p ∈ F i := by
    intro j
    fin_cases j
    · obtain ⟨p, a, b, c⟩ := h0
      refine ⟨p, fun i hi => ?_⟩
      fin_cases i
      exacts [absurd rfl hi, a, b, c]
    · obtain ⟨p, a, b, c⟩ := h1
      refine ⟨p, fun i hi => ?_⟩
      fin_cases i
      exacts [a, absurd rfl hi, b, c]
    · obtain ⟨p, a, b, c⟩ := h2
      refine ⟨p, fun i hi => ?_⟩
      fin_cases i
      exacts [a, b, absurd rfl hi, c]
    · obtain ⟨p, a, b, c⟩ := h3
      refine ⟨p, fun i hi => ?_⟩
      fin_cases i
      exacts [a, b, c, absurd rfl hi]
  have hfr : Module.finrank K (K × K) = 2 := by simp
  have := Convex.helly_theorem' (𝕜 := K) (F := F) (s := Finset.univ) (fun i _ => hconv i) (by
    intro I _ hcard
    rw [hfr] at hcard
    obtain ⟨j, hj⟩ : ∃ j, j ∉ I := by
      by_contra hc
      push Not at hc
      have : I = Finset.univ := Finset.eq_univ_iff_forall.mpr hc
      subst this
      simp at hcard
    obtain ⟨p, hp⟩ := htrip j
    exact ⟨p, Set.mem_iInter₂.mpr fun i hi => hp i (ne_of_mem_of_not_mem hi hj)⟩)
  obtain ⟨p, hp⟩ := this
  exact ⟨p, fun i => (Set.mem_iInter₂.mp hp) i (Finset.mem_univ i)⟩

/-- **Completeness of the four face-normal axes for two rectangles** (pure geometry, any ordered field).
Rectangle A = `[-a1,a1]×[-a2,a2]`, rectangle B = `t + R·([-b1,b1]×[-b2,b2])` with `R` the rotation `(c, s)`.
If none of the two axes of A (`H1`, `H2`) and none of the two axes of B (`H3`, `H4`) separates them, they share a
point: `y` in B's frame, `t + R y` in A. -/
theorem rect_rect_complete (a1 a2 b1 b2 c s t1 t2 : K) (ha1 : 0 ≤ a1) (ha2 : 0 ≤ a2) (hb1 : 0 ≤ b1) (hb2 : 0 ≤ b2)
    (hcs : c * c + s * s = 1)
    (H1 : |t1| ≤ a1 + (b1 * |c| + b2 * |s|)) (H2 : |t2| ≤ a2 + (b1 * |s| + b2 * |c|))
    (H3 : |c * t1 + s * t2| ≤ b1 + (a1 * |c| + a2 * |s|)) (H4 : |-s * t1 + c * t2| ≤ b2 + (a1 * |s| + a2 * |c|)) :
    ∃ y1 y2 : K, |y1| ≤ b1 ∧ |y2| ≤ b2 ∧ |t1 + (c * y1 - s * y2)| ≤ a1 ∧ |t2 + (s * y1 + c * y2)| ≤ a2 := by
  -- the four slabs, in A's frame
  let F : Fin 4 → Set (K × K) := fun i =>
    if i = 0 then {p | |1 * p.1 + 0 * p.2 + 0| ≤ a1}
    else if i = 1 then {p | |0 * p.1 + 1 * p.2 + 0| ≤ a2}
    else if i = 2 then {p | |c * p.1 + s * p.2 + (-(c * t1 + s * t2))| ≤ b1}
    else {p | |(-s) * p.1 + c * p.2 + (-(-s * t1 + c * t2))| ≤ b2}
  have hconv : ∀ i, Convex K (F i) := by
    intro i
    simp only [F]
    split_ifs <;> exact convex_slab2 _ _ _ _
  have hF0 : ∀ p : K × K, p ∈ F 0 ↔ |p.1| ≤ a1 := by
    intro p
    show |1 * p.1 + 0 * p.2 + 0| ≤ a1 ↔ _
    rw [one_mul, zero_mul, add_zero, add_zero]
  have hF1 : ∀ p : K × K, p ∈ F 1 ↔ |p.2| ≤ a2 := by
    intro p
    show |0 * p.1 + 1 * p.2 + 0| ≤ a2 ↔ _
    rw [one_mul, zero_mul, add_zero, zero_add]
  have hF2 : ∀ p : K × K, p ∈ F 2 ↔ |c * (p.1 - t1) + s * (p.2 - t2)| ≤ b1 := by
    intro p
    have : c * p.1 + s * p.2 + (-(c * t1 + s * t2)) = c * (p.1 - t1) + s * (p.2 - t2) := by ring
    show |c * p.1 + s * p.2 + (-(c * t1 + s * t2))| ≤ b1 ↔ _
    rw [this]
  have hF3 : ∀ p : K × K, p ∈ F 3 ↔ |-s * (p.1 - t1) + c * (p.2 - t2)| ≤ b2 := by
    intro p
    have : (-s) * p.1 + c * p.2 + (-(-s * t1 + c * t2)) = -s * (p.1 - t1) + c * (p.2 - t2) := by ring
    show |(-s) * p.1 + c * p.2 + (-(-s * t1 + c * t2))| ≤ b2 ↔ _
    rw [this]
  have e1 : ∀ y1 y2 : K, c * (t1 + (c * y1 - s * y2) - t1) + s * (t2 + (s * y1 + c * y2) - t2) = y1 := by
    intro y1 y2; linear_combination y1 * hcs
  have e2 : ∀ y1 y2 : K, -s * (t1 + (c * y1 - s * y2) - t1) + c * (t2 + (s * y1 + c * y2) - t2) = y2 := by
    intro y1 y2; linear_combination y2 * hcs
  -- omit slab 0 of A: B meets the slab |y| ≤ a2
  have T0 : ∃ p, p ∈ F 1 ∧ p ∈ F 2 ∧ p ∈ F 3 := by
    obtain ⟨y1, y2, h1, h2, h3⟩ := rect_meets_slab b1 b2 s c (-t2) a2 hb1 hb2 ha2 (by rw [abs_neg]; exact H2)
    refine ⟨(t1 + (c * y1 - s * y2), t2 + (s * y1 + c * y2)), (hF1 _).mpr ?_, (hF2 _).mpr ?_, (hF3 _).mpr ?_⟩
    · have : s * y1 + c * y2 - -t2 = t2 + (s * y1 + c * y2) := by ring
      rw [this] at h3; exact h3
    · show |c * (t1 + (c * y1 - s * y2) - t1) + s * (t2 + (s * y1 + c * y2) - t2)| ≤ b1
      rw [e1]; exact h1
    · show |-s * (t1 + (c * y1 - s * y2) - t1) + c * (t2 + (s * y1 + c * y2) - t2)| ≤ b2
      rw [e2]; exact h2
  -- omit slab 1 of A: B meets the slab |x| ≤ a1
  have T1 : ∃ p, p ∈ F 0 ∧ p ∈ F 2 ∧ p ∈ F 3 := by
    obtain ⟨y1, y2, h1, h2, h3⟩ := rect_meets_slab b1 b2 c (-s) (-t1) a1 hb1 hb2 ha1 (by rw [abs_neg, abs_neg]; exact H1)
    refine ⟨(t1 + (c * y1 - s * y2), t2 + (s * y1 + c * y2)), (hF0 _).mpr ?_, (hF2 _).mpr ?_, (hF3 _).mpr ?_⟩
    · have : c * y1 + -s * y2 - -t1 = t1 + (c * y1 - s * y2) := by ring
      rw [this] at h3; exact h3
    · show |c * (t1 + (c * y1 - s * y2) - t1) + s * (t2 + (s * y1 + c * y2) - t2)| ≤ b1
      rw [e1]; exact h1
    · show |-s * (t1 + (c * y1 - s * y2) - t1) + c * (t2 + (s * y1 + c * y2) - t2)| ≤ b2
      rw [e2]; exact h2
  -- omit slab 0 of B: A meets the slab of B along its second axis
  have T2 : ∃ p, p ∈ F 0 ∧ p ∈ F 1 ∧ p ∈ F 3 := by
    obtain ⟨x, y, h1, h2, h3⟩ := rect_meets_slab a1 a2 (-s) c (-s * t1 + c * t2) b2 ha1 ha2 hb2
      (by rw [abs_neg]; exact H4)
    refine ⟨(x, y), (hF0 _).mpr h1, (hF1 _).mpr h2, (hF3 _).mpr ?_⟩
    have : -s * x + c * y - (-s * t1 + c * t2) = -s * (x - t1) + c * (y - t2) := by ring
    rw [this] at h3; exact h3
  -- omit slab 1 of B
  have T3 : ∃ p, p ∈ F 0 ∧ p ∈ F 1 ∧ p ∈ F 2 := by
    obtain ⟨x, y, h1, h2, h3⟩ := rect_meets_slab a1 a2 c s (c * t1 + s * t2) b1 ha1 ha2 hb1 H3
    refine ⟨(x, y), (hF0 _).mpr h1, (hF1 _).mpr h2, (hF2 _).mpr ?_⟩
    have : c * x + s * y - (c * t1 + s * t2) = c * (x - t1) + s * (y - t2) := by ring
    rw [this] at h3; exact h3
  obtain ⟨p, hp⟩ := helly4_plane F hconv T0 T1 T2 T3
  have p0 := (hF0 p).mp (hp 0)
  have p1 := (hF1 p).mp (hp 1)
  have p2 := (hF2 p).mp (hp 2)
  have p3 := (hF3 p).mp (hp 3)
  refine ⟨c * (p.1 - t1) + s * (p.2 - t2), -s * (p.1 - t1) + c * (p.2 - t2), p2, p3, ?_, ?_⟩
  · have : t1 + (c * (c * (p.1 - t1) + s * (p.2 - t2)) - s * (-s * (p.1 - t1) + c * (p.2 - t2))) = p.1 := by
      linear_combination (p.1 - t1) * hcs
    rw [this]; exact p0
  · have : t2 + (s * (c * (p.1 - t1) + s * (p.2 - t2)) + c * (-s * (p.1 - t1) + c * (p.2 - t2))) = p.2 := by
      linear_combination (p.2 - t2) * hcs
    rw [this]; exact p1

example : ∃ y1 y2 : ℚ, |y1| ≤ 1 ∧ |y2| ≤ 2 ∧ |(2 : ℚ) + (3/5 * y1 - 4/5 * y2)| ≤ 1 ∧ |(1 : ℚ) + (4/5 * y1 + 3/5 * y2)| ≤ 1 := by
  have h35 : |(3/5 : ℚ)| = 3/5 := abs_of_pos (by norm_num)
  have h45 : |(4/5 : ℚ)| = 4/5 := abs_of_pos (by norm_num)
  refine rect_rect_complete 1 1 1 2 (3/5) (4/5) 2 1 (by norm_num) (by norm_num) (by norm_num) (by norm_num) (by norm_num)
    ?_ ?_ ?_ ?_ <;> rw [h35, h45, abs_le] <;> constructor <;> norm_num

/-! ## Link to the code: `cuboid_cuboid_find_local_separating_normal_oneway` / `intersection_test_cuboid_cuboid` (dim2) -/

private theorem copySign_mul' (d t : K) :
    letI := fieldNum K sq
    copySign d t * d = |t| * |d| := by
  simp only [copySign, fieldNum_nabs]
  split_ifs with h
  · have hd : d < 0 := one_div_neg.mp h
    rw [abs_of_neg hd]; ring
  · have hd : 0 ≤ d := by
      by_contra hc
      exact h (one_div_neg.mpr (not_le.mp hc))
    rw [abs_of_nonneg hd]

private theorem copySign_one' (x : K) :
    letI := fieldNum K sq
    copySign x 1 = 1 ∨ copySign x 1 = -1 := by
  simp only [copySign, fieldNum_nabs, abs_one]
  split_ifs
  · exact Or.inr rfl
  · exact Or.inl rfl

/-- the separation computed by iteration `i` of the dim2 loop over the face normals of rectangle 1 -/
def NormalSep2 (he1 he2 : V2 K) (m : Iso2 K) (i : Nat) : K :=
  letI := fieldNum K sq
  (m.act (cuboidLocalSupport2 he2 (m.invRot (((V2.zero : V2 K).set i (copySign (m.t.get i) 1)).neg)))).get i
    * copySign (m.t.get i) 1 - he1.get i

private theorem realMax_nonneg' :
    letI := fieldNum K sq
    (0 : K) ≤ realMax := by
  show (0 : K) ≤ (((((2 ^ 1024 - 2 ^ 971 : Nat) : Rat)) : Rat) : K)
  exact_mod_cast Nat.zero_le _

private theorem normalFold2_pos (he1 he2 : V2 K) (m : Iso2 K) (l : List Nat) (init : K × V2 K) :
    letI := fieldNum K sq
    0 < (l.foldl (satNormalStep2 he1 he2 m) init).1 ↔ 0 < init.1 ∨ ∃ i ∈ l, 0 < NormalSep2 sq he1 he2 m i := by
  induction l generalizing init with
  | nil => simp
  | cons a l ih =>
    rw [List.foldl_cons, ih]
    have step : 0 < (@satNormalStep2 K (fieldNum K sq) he1 he2 m init a).1 ↔
        0 < init.1 ∨ 0 < NormalSep2 sq he1 he2 m a := by
      unfold satNormalStep2 NormalSep2
      simp only []
      split_ifs with hb
      · constructor
        · intro hr; exact Or.inr hr
        · rintro (hi | hr)
          · exact hi.trans hb
          · exact hr
      · constructor
        · intro hi; exact Or.inl hi
        · rintro (hi | hr)
          · exact hi
          · exact lt_of_lt_of_le hr (not_lt.mp hb)
    rw [step]
    simp only [List.mem_cons, exists_eq_or_imp]
    exact or_assoc

/-- **What the dim2 `find_local_separating_normal_oneway` reports**: its best separation is positive iff one of the
two face normals of rectangle 1 separates. -/
theorem satNormalOneway2_pos_iff (he1 he2 : V2 K) (m : Iso2 K) :
    letI := fieldNum K sq
    0 < (satNormalOneway2 he1 he2 m).1 ↔ 0 < NormalSep2 sq he1 he2 m 0 ∨ 0 < NormalSep2 sq he1 he2 m 1 := by
  unfold satNormalOneway2
  rw [normalFold2_pos]
  have hmax := realMax_nonneg' sq (K := K)
  simp only [List.mem_cons, List.not_mem_nil, or_false, exists_eq_or_imp, exists_eq_left]
  constructor
  · rintro (hneg | hex)
    · exfalso
      have : (0 : K) < -(@realMax K (fieldNum K sq)) := hneg
      linarith
    · exact hex
  · exact Or.inr

/-- the support point of rectangle 2 toward `-a`, posed by `m`, projects on `a` at `t·a - Σ|he2_k||(R⁻¹a)_k|`
(complex rotations: no unit hypothesis needed for this identity) -/
private theorem act_dot_core2 (he2 : V2 K) (m : Iso2 K) (a : V2 K) :
    letI := fieldNum K sq
    (m.act (cuboidLocalSupport2 he2 (m.invRot a.neg))).dot a
      = m.t.dot a - (|he2.x| * |(m.invRot a).x| + |he2.y| * |(m.invRot a).y|) := by
  have hx := copySign_mul' sq (-(@Iso2.invRot K (fieldNum K sq) m a).x) he2.x
  have hy := copySign_mul' sq (-(@Iso2.invRot K (fieldNum K sq) m a).y) he2.y
  rw [abs_neg] at hx hy
  obtain ⟨re, im, tx, ty⟩ := m; obtain ⟨ax, ay⟩ := a
  simp only [Iso2.act, Iso2.rot, Iso2.invRot, cuboidLocalSupport2, V2.neg, V2.add, V2.dot] at hx hy ⊢
  have e1 : re * -ax - -im * -ay = -(re * ax - -im * ay) := by ring
  have e2 : -im * -ax + re * -ay = -(-im * ax + re * ay) := by ring
  rw [e1, e2]
  linear_combination (-1 : K) * hx - hy

/-- **Closed form of the dim2 one-way face-normal separations**: `|t_i| - he1_i - Σ_k |he2_k| |R_ik|`. -/
theorem normalSep2_formula (he1 he2 : V2 K) (m : Iso2 K) :
    letI := fieldNum K sq
    NormalSep2 sq he1 he2 m 0 = |m.t.x| - he1.x - (|he2.x| * |m.re| + |he2.y| * |m.im|) ∧
    NormalSep2 sq he1 he2 m 1 = |m.t.y| - he1.y - (|he2.x| * |m.im| + |he2.y| * |m.re|) := by
  have hx := copySign_mul' sq m.t.x 1
  have hy := copySign_mul' sq m.t.y 1
  rw [abs_one, one_mul] at hx hy
  have kx := act_dot_core2 sq he2 m ⟨@copySign K (fieldNum K sq) m.t.x 1, 0⟩
  have ky := act_dot_core2 sq he2 m ⟨0, @copySign K (fieldNum K sq) m.t.y 1⟩
  have ax : ∀ σ : K, (σ = 1 ∨ σ = -1) →
      |(@Iso2.invRot K (fieldNum K sq) m ⟨σ, 0⟩).x| = |m.re| ∧ |(@Iso2.invRot K (fieldNum K sq) m ⟨σ, 0⟩).y| = |m.im| := by
    rintro σ (rfl | rfl) <;> simp [Iso2.invRot]
  have ay : ∀ σ : K, (σ = 1 ∨ σ = -1) →
      |(@Iso2.invRot K (fieldNum K sq) m ⟨0, σ⟩).x| = |m.im| ∧ |(@Iso2.invRot K (fieldNum K sq) m ⟨0, σ⟩).y| = |m.re| := by
    rintro σ (rfl | rfl) <;> simp [Iso2.invRot]
  obtain ⟨ax1, ax2⟩ := ax _ (copySign_one' sq m.t.x)
  obtain ⟨ay1, ay2⟩ := ay _ (copySign_one' sq m.t.y)
  have dx : ∀ (X : V2 K) (σ : K), @V2.dot K (fieldNum K sq) X ⟨σ, 0⟩ = X.x * σ := by
    intro X σ; simp only [V2.dot]; ring
  have dy : ∀ (X : V2 K) (σ : K), @V2.dot K (fieldNum K sq) X ⟨0, σ⟩ = X.y * σ := by
    intro X σ; simp only [V2.dot]; ring
  rw [ax1, ax2, dx, dx] at kx
  rw [ay1, ay2, dy, dy] at ky
  constructor
  · show (@Iso2.act K (fieldNum K sq) m (@cuboidLocalSupport2 K (fieldNum K sq) he2 (@Iso2.invRot K (fieldNum K sq) m
        (@V2.neg K (fieldNum K sq) ⟨@copySign K (fieldNum K sq) m.t.x 1, 0⟩)))).x * @copySign K (fieldNum K sq) m.t.x 1 - he1.x = _
    rw [kx, mul_comm m.t.x, hx]; ring
  · show (@Iso2.act K (fieldNum K sq) m (@cuboidLocalSupport2 K (fieldNum K sq) he2 (@Iso2.invRot K (fieldNum K sq) m
        (@V2.neg K (fieldNum K sq) ⟨0, @copySign K (fieldNum K sq) m.t.y 1⟩)))).y * @copySign K (fieldNum K sq) m.t.y 1 - he1.y = _
    rw [ky, mul_comm m.t.y, hy]; ring

/-- the two rectangles, the second posed by `pos12`, share a point -/
def RectsMeet (he1 he2 : V2 K) (m : Iso2 K) : Prop :=
  letI := fieldNum K sq
  ∃ y : V2 K, Cuboid2.Mem ⟨he2⟩ y ∧ Cuboid2.Mem ⟨he1⟩ (m.act y)

/-- `intersection_test_cuboid_cuboid` (dim2) answers `true` exactly when none of the four face-normal axes
separates (the four inequalities of `rect_rect_complete`) -/
theorem intersectionTestCuboidCuboid2_true_iff_axes (m : Iso2 K) (he1 he2 : V2 K) :
    letI := fieldNum K sq
    intersectionTestCuboidCuboid2 m he1 he2 = true ↔
      (|m.t.x| ≤ he1.x + (|he2.x| * |m.re| + |he2.y| * |m.im|) ∧
       |m.t.y| ≤ he1.y + (|he2.x| * |m.im| + |he2.y| * |m.re|)) ∧
      (|m.re * m.t.x + m.im * m.t.y| ≤ he2.x + (|he1.x| * |m.re| + |he1.y| * |m.im|) ∧
       |-m.im * m.t.x + m.re * m.t.y| ≤ he2.y + (|he1.x| * |m.im| + |he1.y| * |m.re|)) := by
  have hA := satNormalOneway2_pos_iff sq he1 he2 m
  have hB := satNormalOneway2_pos_iff sq he2 he1 (@Iso2.inverse K (fieldNum K sq) m)
  obtain ⟨fA0, fA1⟩ := normalSep2_formula sq he1 he2 m
  obtain ⟨fB0, fB1⟩ := normalSep2_formula sq he2 he1 (@Iso2.inverse K (fieldNum K sq) m)
  have tx : (@Iso2.inverse K (fieldNum K sq) m).t.x = -(m.re * m.t.x + m.im * m.t.y) := by
    simp only [Iso2.inverse, Iso2.rot, V2.neg]; ring
  have ty : (@Iso2.inverse K (fieldNum K sq) m).t.y = -(-m.im * m.t.x + m.re * m.t.y) := by
    simp only [Iso2.inverse, Iso2.rot, V2.neg]; ring
  have ire : (@Iso2.inverse K (fieldNum K sq) m).re = m.re := rfl
  have iim : (@Iso2.inverse K (fieldNum K sq) m).im = -m.im := rfl
  rw [tx, ire, iim, abs_neg, abs_neg] at fB0
  rw [ty, ire, iim, abs_neg, abs_neg] at fB1
  rw [fA0, fA1] at hA
  rw [fB0, fB1] at hB
  unfold intersectionTestCuboidCuboid2
  simp only []
  by_cases h1 : 0 < (@satNormalOneway2 K (fieldNum K sq) he1 he2 m).1
  · rw [if_pos h1]
    have := hA.mp h1
    constructor
    · intro hf; exact absurd hf (by simp)
    · rintro ⟨⟨a, b⟩, _⟩
      rcases this with h | h <;> linarith
  · rw [if_neg h1]
    have nA := (not_congr hA).mp h1
    push Not at nA
    by_cases h2 : 0 < (@satNormalOneway2 K (fieldNum K sq) he2 he1 (@Iso2.inverse K (fieldNum K sq) m)).1
    · rw [if_pos h2]
      have := hB.mp h2
      constructor
      · intro hf; exact absurd hf (by simp)
      · rintro ⟨_, ⟨a, b⟩⟩
        rcases this with h | h <;> linarith
    · rw [if_neg h2]
      have nB := (not_congr hB).mp h2
      push Not at nB
      simp only [true_iff]
      exact ⟨⟨by linarith [nA.1], by linarith [nA.2]⟩, ⟨by linarith [nB.1], by linarith [nB.2]⟩⟩

/-- **Soundness AND completeness of `intersection_test_cuboid_cuboid` in the plane.**  For two rectangles with
non-negative half-extents and a unit `pos12`, the function returns `true` **iff** the rectangles share a point.
`←` is the easy direction (a common point projects into both shadows on every axis); `→` is the converse of the
soundness theorem: the four face normals are a complete family of separating axes (Helly's theorem for four slabs). -/
theorem intersectionTestCuboidCuboid2_true_iff (m : Iso2 K) (he1 he2 : V2 K) (h : Unit2 m)
    (h1x : 0 ≤ he1.x) (h1y : 0 ≤ he1.y) (h2x : 0 ≤ he2.x) (h2y : 0 ≤ he2.y) :
    letI := fieldNum K sq
    intersectionTestCuboidCuboid2 m he1 he2 = true ↔ RectsMeet sq he1 he2 m := by
  rw [intersectionTestCuboidCuboid2_true_iff_axes]
  obtain ⟨c, s, t1, t2⟩ := m
  obtain ⟨a1, a2⟩ := he1
  obtain ⟨b1, b2⟩ := he2
  simp only [Unit2] at h
  simp only [RectsMeet, Cuboid2.Mem, Iso2.act, Iso2.rot, V2.add] at *
  rw [abs_of_nonneg h1x, abs_of_nonneg h1y, abs_of_nonneg h2x, abs_of_nonneg h2y]
  constructor
  · rintro ⟨⟨H1, H2⟩, H3, H4⟩
    obtain ⟨y1, y2, k1, k2, k3, k4⟩ := rect_rect_complete a1 a2 b1 b2 c s t1 t2 h1x h1y h2x h2y h H1 H2 H3 H4
    rw [abs_le] at k1 k2 k3 k4
    refine ⟨⟨y1, y2⟩, ⟨k1, k2⟩, ⟨?_, ?_⟩, ⟨?_, ?_⟩⟩ <;> simp only [] <;> linarith [k3.1, k3.2, k4.1, k4.2]
  · rintro ⟨⟨y1, y2⟩, ⟨⟨k1, k1'⟩, k2, k2'⟩, ⟨k3, k3'⟩, k4, k4'⟩
    simp only [] at k1 k1' k2 k2' k3 k3' k4 k4'
    have ay1 : |y1| ≤ b1 := abs_le.mpr ⟨k1, k1'⟩
    have ay2 : |y2| ≤ b2 := abs_le.mpr ⟨k2, k2'⟩
    have px : |c * y1 - s * y2 + t1| ≤ a1 := abs_le.mpr ⟨k3, k3'⟩
    have py : |s * y1 + c * y2 + t2| ≤ a2 := abs_le.mpr ⟨k4, k4'⟩
    have cy1 : |c * y1| ≤ b1 * |c| := by rw [abs_mul, mul_comm]; exact mul_le_mul_of_nonneg_right ay1 (abs_nonneg _)
    have sy2 : |s * y2| ≤ b2 * |s| := by rw [abs_mul, mul_comm]; exact mul_le_mul_of_nonneg_right ay2 (abs_nonneg _)
    have sy1 : |s * y1| ≤ b1 * |s| := by rw [abs_mul, mul_comm]; exact mul_le_mul_of_nonneg_right ay1 (abs_nonneg _)
    have cy2 : |c * y2| ≤ b2 * |c| := by rw [abs_mul, mul_comm]; exact mul_le_mul_of_nonneg_right ay2 (abs_nonneg _)
    -- p = R y + t
    set p1 := c * y1 - s * y2 + t1 with hp1
    set p2 := s * y1 + c * y2 + t2 with hp2
    have cp1 : |c * p1| ≤ a1 * |c| := by rw [abs_mul, mul_comm]; exact mul_le_mul_of_nonneg_right px (abs_nonneg _)
    have sp2 : |s * p2| ≤ a2 * |s| := by rw [abs_mul, mul_comm]; exact mul_le_mul_of_nonneg_right py (abs_nonneg _)
    have sp1 : |s * p1| ≤ a1 * |s| := by rw [abs_mul, mul_comm]; exact mul_le_mul_of_nonneg_right px (abs_nonneg _)
    have cp2 : |c * p2| ≤ a2 * |c| := by rw [abs_mul, mul_comm]; exact mul_le_mul_of_nonneg_right py (abs_nonneg _)
    have e3 : c * t1 + s * t2 = c * p1 + s * p2 - y1 := by rw [hp1, hp2]; linear_combination (-y1) * h
    have e4 : -s * t1 + c * t2 = -(s * p1) + c * p2 - y2 := by rw [hp1, hp2]; linear_combination (-y2) * h
    have e1 : t1 = p1 - c * y1 + s * y2 := by rw [hp1]; ring
    have e2 : t2 = p2 - s * y1 - c * y2 := by rw [hp2]; ring
    rw [abs_le] at ay1 ay2 px py cy1 sy2 sy1 cy2 cp1 sp2 sp1 cp2
    refine ⟨⟨?_, ?_⟩, ?_, ?_⟩
    · rw [e1, abs_le]; constructor <;> linarith [cy1.1, cy1.2, sy2.1, sy2.2, px.1, px.2]
    · rw [e2, abs_le]; constructor <;> linarith [sy1.1, sy1.2, cy2.1, cy2.2, py.1, py.2]
    · rw [e3, abs_le]; constructor <;> linarith [cp1.1, cp1.2, sp2.1, sp2.2, ay1.1, ay1.2]
    · rw [e4, abs_le]; constructor <;> linarith [sp1.1, sp1.2, cp2.1, cp2.2, ay2.1, ay2.2]

example : Unit2 (⟨3/5, 4/5, ⟨2, 1⟩⟩ : Iso2 ℚ) ∧ RectsMeet (id : ℚ → ℚ) ⟨1, 1⟩ ⟨1, 2⟩ ⟨3/5, 4/5, ⟨2, 1⟩⟩ := by
  refine ⟨by unfold Unit2; norm_num, ⟨⟨-1, 1⟩, ?_, ?_⟩⟩ <;>
    simp only [Cuboid2.Mem, Iso2.act, Iso2.rot, V2.add] <;> norm_num

/-- **Completeness, stated as the converse of the soundness theorem**: if `intersection_test_cuboid_cuboid` (dim2)
returns `true`, some point of rectangle 2 (posed by `pos12`) lies in rectangle 1. -/
theorem intersectionTestCuboidCuboid2_true_meet (m : Iso2 K) (he1 he2 : V2 K) (h : Unit2 m)
    (h1x : 0 ≤ he1.x) (h1y : 0 ≤ he1.y) (h2x : 0 ≤ he2.x) (h2y : 0 ≤ he2.y)
    (ht : @intersectionTestCuboidCuboid2 K (fieldNum K sq) m he1 he2 = true) :
    RectsMeet sq he1 he2 m :=
  (intersectionTestCuboidCuboid2_true_iff sq m he1 he2 h h1x h1y h2x h2y).mp ht

/-- **Soundness of `false` in the plane** (missing so far in 2-D): no point of rectangle 2 coincides with a point
of rectangle 1. -/
theorem intersectionTestCuboidCuboid2_false_disjoint (m : Iso2 K) (he1 he2 : V2 K) (h : Unit2 m)
    (h1x : 0 ≤ he1.x) (h1y : 0 ≤ he1.y) (h2x : 0 ≤ he2.x) (h2y : 0 ≤ he2.y)
    (hf : @intersectionTestCuboidCuboid2 K (fieldNum K sq) m he1 he2 = false) :
    ¬ RectsMeet sq he1 he2 m := by
  intro hm
  have := (intersectionTestCuboidCuboid2_true_iff sq m he1 he2 h h1x h1y h2x h2y).mpr hm
  rw [hf] at this
  exact Bool.false_ne_true this

end C03
