import ParryModel.C03.Model
/-!
# C03 model, part 2: the closed-form cuboid/cuboid separating-axis test.

Literal transliteration of
`src/query/sat/sat_cuboid_cuboid.rs`
(`cuboid_cuboid_compute_separation_wrt_local_line`, `cuboid_cuboid_find_local_separating_edge_twoway`,
`cuboid_cuboid_find_local_separating_normal_oneway`) and of
`src/query/intersection_test/intersection_test_cuboid_cuboid.rs` (`intersection_test_cuboid_cuboid`), the function
`DefaultQueryDispatcher::intersection_test` calls for a cuboid/cuboid pair (both `dim3` and `dim2`).

Same branch order, same `>` / `<=`, same floating-point operation order: `(1.0).copysign(x)` is `copySign x 1`,
`axis * s` is `smul`, `axis / norm` is `sdiv` (component-wise division), `pos12 * Vector::x()` is the quaternion
sandwich on `(1, 0, 0)`, `Vector::ith(i, s)` is the zero vector with component `i` set.
(The C02 model carries its own copy of these functions in namespace `Model`; this one lives in `Model.CC`.)
-/
namespace Model.CC
variable {K : Type} [Num K]

/-- `Real::MAX` (`f64::MAX = 2^1024 - 2^971`) -/
@[inline] def realMax : K := Num.ofRat (((2 ^ 1024 - 2 ^ 971 : Nat) : Rat))

/-- `Real::default_epsilon()` (`f64::EPSILON = 2^-52`) -/
@[inline] def realEps : K := lit 1 4503599627370496

/-! ## 3-D -/

/-- `cuboid_cuboid_compute_separation_wrt_local_line(cuboid1, cuboid2, pos12, axis1)` -/
def satSepLine (he1 he2 : V3 K) (pos12 : Iso3 K) (axis1 : V3 K) : K × V3 K :=
  let signum := copySign (pos12.t.dot axis1) 1
  let axis1 := axis1.smul signum
  let axis2 := pos12.invRot axis1.neg
  let localPt1 := cuboidLocalSupport he1 axis1
  let localPt2 := cuboidLocalSupport he2 axis2
  let pt2 := pos12.act localPt2
  let separation := (pt2.sub localPt1).dot axis1
  (separation, axis1)

/-- the table of the `3 * 3 = 9` candidate axes `e_i × (pos12 * e_j)` of
`cuboid_cuboid_find_local_separating_edge_twoway`, in the order of the source (`j` outer, `i` inner) -/
def satEdgeAxes (pos12 : Iso3 K) : List (V3 K) :=
  let x2 := pos12.rot ⟨1, 0, 0⟩
  let y2 := pos12.rot ⟨0, 1, 0⟩
  let z2 := pos12.rot ⟨0, 0, 1⟩
  [ ⟨0, -x2.z, x2.y⟩, ⟨x2.z, 0, -x2.x⟩, ⟨-x2.y, x2.x, 0⟩,
    ⟨0, -y2.z, y2.y⟩, ⟨y2.z, 0, -y2.x⟩, ⟨-y2.y, y2.x, 0⟩,
    ⟨0, -z2.z, z2.y⟩, ⟨z2.z, 0, -z2.x⟩, ⟨-z2.y, z2.x, 0⟩ ]

/-- body of the `for axis1 in &axes` loop -/
def satEdgeStep (he1 he2 : V3 K) (pos12 : Iso3 K) (best : K × V3 K) (axis1 : V3 K) : K × V3 K :=
  let norm1 := axis1.norm
  if realEps < norm1 then
    let r := satSepLine he1 he2 pos12 (axis1.sdiv norm1)
    if best.1 < r.1 then r else best
  else best

/-- `cuboid_cuboid_find_local_separating_edge_twoway(cuboid1, cuboid2, pos12)` -/
def satEdgeTwoway (he1 he2 : V3 K) (pos12 : Iso3 K) : K × V3 K :=
  (satEdgeAxes pos12).foldl (satEdgeStep he1 he2 pos12) (-realMax, V3.zero)

/-- body of the `for i in 0..DIM` loop of `cuboid_cuboid_find_local_separating_normal_oneway` -/
def satNormalStep (he1 he2 : V3 K) (pos12 : Iso3 K) (best : K × V3 K) (i : Nat) : K × V3 K :=
  let sign := copySign (pos12.t.get i) 1
  let axis1 := (V3.zero : V3 K).set i sign
  let axis2 := pos12.invRot axis1.neg
  let localPt2 := cuboidLocalSupport he2 axis2
  let pt2 := pos12.act localPt2
  let separation := pt2.get i * sign - he1.get i
  if best.1 < separation then (separation, axis1) else best

/-- `cuboid_cuboid_find_local_separating_normal_oneway(cuboid1, cuboid2, pos12)` (dim3) -/
def satNormalOneway (he1 he2 : V3 K) (pos12 : Iso3 K) : K × V3 K :=
  [0, 1, 2].foldl (satNormalStep he1 he2 pos12) (-realMax, V3.zero)

/-- `intersection_test_cuboid_cuboid(pos12, cuboid1, cuboid2)` (dim3) -/
def intersectionTestCuboidCuboid (pos12 : Iso3 K) (he1 he2 : V3 K) : Bool :=
  let sep1 := (satNormalOneway he1 he2 pos12).1
  if 0 < sep1 then false else
  let pos21 := pos12.inverse
  let sep2 := (satNormalOneway he2 he1 pos21).1
  if 0 < sep2 then false else
  let sep3 := (satEdgeTwoway he1 he2 pos12).1
  decide (sep3 ≤ 0)

/-! ## 2-D -/

/-- loop body of `cuboid_cuboid_find_local_separating_normal_oneway` (dim2) -/
def satNormalStep2 (he1 he2 : V2 K) (pos12 : Iso2 K) (best : K × V2 K) (i : Nat) : K × V2 K :=
  let sign := copySign (pos12.t.get i) 1
  let axis1 := (V2.zero : V2 K).set i sign
  let axis2 := pos12.invRot axis1.neg
  let localPt2 := cuboidLocalSupport2 he2 axis2
  let pt2 := pos12.act localPt2
  let separation := pt2.get i * sign - he1.get i
  if best.1 < separation then (separation, axis1) else best

/-- `cuboid_cuboid_find_local_separating_normal_oneway` (dim2) -/
def satNormalOneway2 (he1 he2 : V2 K) (pos12 : Iso2 K) : K × V2 K :=
  [0, 1].foldl (satNormalStep2 he1 he2 pos12) (-realMax, V2.zero)

/-- `intersection_test_cuboid_cuboid` (dim2: "This case does not exist in 2D" for the edge axes) -/
def intersectionTestCuboidCuboid2 (pos12 : Iso2 K) (he1 he2 : V2 K) : Bool :=
  let sep1 := (satNormalOneway2 he1 he2 pos12).1
  if 0 < sep1 then false else
  let pos21 := pos12.inverse
  let sep2 := (satNormalOneway2 he2 he1 pos21).1
  if 0 < sep2 then false else true

end Model.CC
