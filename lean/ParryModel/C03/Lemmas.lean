import ParryModel.Field
import ParryModel.C03.Model
/-!
# C03 helper lemmas: the quaternion sandwich `rotQ` and the isometry group, at the lawful instance.

`rotQ u w v = v + 2w(u×v) + 2u×(u×v)` is nalgebra's `UnitQuaternion * Vector`.  For a general quaternion
`q = (u, w)` it equals `q v q* + (1 - |q|²) v`; all group laws below are therefore polynomial identities modulo
`|q|² = 1`, and each is discharged by `linear_combination` with the explicit cofactor.
-/
namespace C03
open Model

variable {K : Type} [Field K] [LinearOrder K] [IsStrictOrderedRing K] (sq : K → K)

/-- `|q|² = 1` for the rotation part of a 3-D isometry -/
def Unit3 (m : Iso3 K) : Prop := m.qi * m.qi + m.qj * m.qj + m.qk * m.qk + m.qw * m.qw = 1
/-- `|z|² = 1` for the rotation part of a 2-D isometry -/
def Unit2 (m : Iso2 K) : Prop := m.re * m.re + m.im * m.im = 1

/-! ## `rotQ`: linearity -/

theorem rotQ_add (u : V3 K) (w : K) (a b : V3 K) :
    letI := fieldNum K sq
    Iso3.rotQ u w (a.add b) = (Iso3.rotQ u w a).add (Iso3.rotQ u w b) := by
  simp only [Iso3.rotQ, V3.add, V3.smul, V3.cross, fieldNum_two, V3.mk.injEq]
  refine ⟨?_, ?_, ?_⟩ <;> ring

theorem rotQ_sub (u : V3 K) (w : K) (a b : V3 K) :
    letI := fieldNum K sq
    Iso3.rotQ u w (a.sub b) = (Iso3.rotQ u w a).sub (Iso3.rotQ u w b) := by
  simp only [Iso3.rotQ, V3.add, V3.sub, V3.smul, V3.cross, fieldNum_two, V3.mk.injEq]
  refine ⟨?_, ?_, ?_⟩ <;> ring

theorem rotQ_neg (u : V3 K) (w : K) (a : V3 K) :
    letI := fieldNum K sq
    Iso3.rotQ u w a.neg = (Iso3.rotQ u w a).neg := by
  simp only [Iso3.rotQ, V3.add, V3.neg, V3.smul, V3.cross, fieldNum_two, V3.mk.injEq]
  refine ⟨?_, ?_, ?_⟩ <;> ring

theorem rotQ_smul (u : V3 K) (w : K) (a : V3 K) (s : K) :
    letI := fieldNum K sq
    Iso3.rotQ u w (a.smul s) = (Iso3.rotQ u w a).smul s := by
  simp only [Iso3.rotQ, V3.add, V3.smul, V3.cross, fieldNum_two, V3.mk.injEq]
  refine ⟨?_, ?_, ?_⟩ <;> ring

/-! ## `rotQ`: inverse, dot product, composition (need `|q| = 1`) -/

/-- conjugate rotation undoes the rotation -/
theorem rotQ_conj_rotQ (u : V3 K) (w : K) (v : V3 K) (h : u.x * u.x + u.y * u.y + u.z * u.z + w * w = 1) :
    letI := fieldNum K sq
    Iso3.rotQ u.neg w (Iso3.rotQ u w v) = v := by
  obtain ⟨i, j, k⟩ := u; obtain ⟨x, y, z⟩ := v
  simp only [Iso3.rotQ, V3.add, V3.neg, V3.smul, V3.cross, fieldNum_two, V3.mk.injEq] at h ⊢
  refine ⟨?_, ?_, ?_⟩
  · linear_combination (-4 * ((i * x + j * y + k * z) * i - (i * i + j * j + k * k) * x)) * h
  · linear_combination (-4 * ((i * x + j * y + k * z) * j - (i * i + j * j + k * k) * y)) * h
  · linear_combination (-4 * ((i * x + j * y + k * z) * k - (i * i + j * j + k * k) * z)) * h

/-- the rotation undoes the conjugate rotation -/
theorem rotQ_rotQ_conj (u : V3 K) (w : K) (v : V3 K) (h : u.x * u.x + u.y * u.y + u.z * u.z + w * w = 1) :
    letI := fieldNum K sq
    Iso3.rotQ u w (Iso3.rotQ u.neg w v) = v := by
  obtain ⟨i, j, k⟩ := u; obtain ⟨x, y, z⟩ := v
  simp only [Iso3.rotQ, V3.add, V3.neg, V3.smul, V3.cross, fieldNum_two, V3.mk.injEq] at h ⊢
  refine ⟨?_, ?_, ?_⟩
  · linear_combination (-4 * ((i * x + j * y + k * z) * i - (i * i + j * j + k * k) * x)) * h
  · linear_combination (-4 * ((i * x + j * y + k * z) * j - (i * i + j * j + k * k) * y)) * h
  · linear_combination (-4 * ((i * x + j * y + k * z) * k - (i * i + j * j + k * k) * z)) * h

/-- a unit quaternion preserves dot products -/
theorem rotQ_dot (u : V3 K) (w : K) (a b : V3 K) (h : u.x * u.x + u.y * u.y + u.z * u.z + w * w = 1) :
    letI := fieldNum K sq
    (Iso3.rotQ u w a).dot (Iso3.rotQ u w b) = a.dot b := by
  obtain ⟨i, j, k⟩ := u; obtain ⟨x, y, z⟩ := a; obtain ⟨x', y', z'⟩ := b
  simp only [Iso3.rotQ, V3.add, V3.smul, V3.cross, V3.dot, fieldNum_two] at h ⊢
  linear_combination
    (-4 * ((i * x + j * y + k * z) * (i * x' + j * y' + k * z') - (i * i + j * j + k * k) * (x * x' + y * y' + z * z'))) * h

/-- the quaternion product of the model, as a vector part and a scalar part -/
def qmulV (a : V3 K) (aw : K) (b : V3 K) (bw : K) : V3 K :=
  letI := fieldNum K sq
  ⟨(Iso3.qmul a.x a.y a.z aw b.x b.y b.z bw).1, (Iso3.qmul a.x a.y a.z aw b.x b.y b.z bw).2.1,
   (Iso3.qmul a.x a.y a.z aw b.x b.y b.z bw).2.2.1⟩
def qmulW (a : V3 K) (aw : K) (b : V3 K) (bw : K) : K :=
  letI := fieldNum K sq
  (Iso3.qmul a.x a.y a.z aw b.x b.y b.z bw).2.2.2

/-- rotation by a product of unit quaternions is the composition of the rotations -/
theorem rotQ_qmul (a : V3 K) (aw : K) (b : V3 K) (bw : K) (v : V3 K)
    (ha : a.x * a.x + a.y * a.y + a.z * a.z + aw * aw = 1)
    (hb : b.x * b.x + b.y * b.y + b.z * b.z + bw * bw = 1) :
    letI := fieldNum K sq
    Iso3.rotQ (qmulV sq a aw b bw) (qmulW sq a aw b bw) v = Iso3.rotQ a aw (Iso3.rotQ b bw v) := by
  obtain ⟨a0, a1, a2⟩ := a; obtain ⟨b0, b1, b2⟩ := b; obtain ⟨x, y, z⟩ := v
  simp only [qmulV, qmulW, Iso3.qmul, Iso3.rotQ, V3.add, V3.smul, V3.cross, fieldNum_two, V3.mk.injEq] at ha hb ⊢
  refine ⟨?_, ?_, ?_⟩
  · linear_combination
      (2 * bw * (b1 * z - b2 * y) + 2 * (b1 * (b0 * y - b1 * x) - b2 * (b2 * x - b0 * z))) * ha +
      (2 * aw * (a1 * z - a2 * y) + 2 * (a1 * (a0 * y - a1 * x) - a2 * (a2 * x - a0 * z))) * hb
  · linear_combination
      (2 * bw * (b2 * x - b0 * z) + 2 * (b2 * (b1 * z - b2 * y) - b0 * (b0 * y - b1 * x))) * ha +
      (2 * aw * (a2 * x - a0 * z) + 2 * (a2 * (a1 * z - a2 * y) - a0 * (a0 * y - a1 * x))) * hb
  · linear_combination
      (2 * bw * (b0 * y - b1 * x) + 2 * (b0 * (b2 * x - b0 * z) - b1 * (b1 * z - b2 * y))) * ha +
      (2 * aw * (a0 * y - a1 * x) + 2 * (a0 * (a2 * x - a0 * z) - a1 * (a1 * z - a2 * y))) * hb

/-- the quaternion norm is multiplicative -/
theorem qmul_unit (a : V3 K) (aw : K) (b : V3 K) (bw : K)
    (ha : a.x * a.x + a.y * a.y + a.z * a.z + aw * aw = 1)
    (hb : b.x * b.x + b.y * b.y + b.z * b.z + bw * bw = 1) :
    (qmulV sq a aw b bw).x * (qmulV sq a aw b bw).x + (qmulV sq a aw b bw).y * (qmulV sq a aw b bw).y +
      (qmulV sq a aw b bw).z * (qmulV sq a aw b bw).z + qmulW sq a aw b bw * qmulW sq a aw b bw = 1 := by
  obtain ⟨a0, a1, a2⟩ := a; obtain ⟨b0, b1, b2⟩ := b
  simp only [qmulV, qmulW, Iso3.qmul] at ha hb ⊢
  linear_combination (b0 * b0 + b1 * b1 + b2 * b2 + bw * bw) * ha + hb

/-! ## isometries: rotation part of products / inverses -/

theorem mul_rot (a b : Iso3 K) (v : V3 K) (ha : Unit3 a) (hb : Unit3 b) :
    letI := fieldNum K sq
    (a.mul b).rot v = a.rot (b.rot v) :=
  rotQ_qmul sq ⟨a.qi, a.qj, a.qk⟩ a.qw ⟨b.qi, b.qj, b.qk⟩ b.qw v ha hb

theorem invMul_rot (a b : Iso3 K) (v : V3 K) (ha : Unit3 a) (hb : Unit3 b) :
    letI := fieldNum K sq
    (a.invMul b).rot v = a.invRot (b.rot v) :=
  rotQ_qmul sq ⟨-a.qi, -a.qj, -a.qk⟩ a.qw ⟨b.qi, b.qj, b.qk⟩ b.qw v (by unfold Unit3 at ha; linear_combination ha) hb

theorem inverse_rot (m : Iso3 K) (v : V3 K) :
    letI := fieldNum K sq
    m.inverse.rot v = m.invRot v := rfl

theorem invRot_rot (m : Iso3 K) (v : V3 K) (h : Unit3 m) :
    letI := fieldNum K sq
    m.invRot (m.rot v) = v := rotQ_conj_rotQ sq ⟨m.qi, m.qj, m.qk⟩ m.qw v h

theorem rot_invRot (m : Iso3 K) (v : V3 K) (h : Unit3 m) :
    letI := fieldNum K sq
    m.rot (m.invRot v) = v := rotQ_rotQ_conj sq ⟨m.qi, m.qj, m.qk⟩ m.qw v h

/-- the translation of the inverse has the same length -/
theorem inverse_t_normSq (m : Iso3 K) (h : Unit3 m) :
    letI := fieldNum K sq
    m.inverse.t.normSq = m.t.normSq := by
  have h' : (-m.qi) * (-m.qi) + (-m.qj) * (-m.qj) + (-m.qk) * (-m.qk) + m.qw * m.qw = 1 := by
    unfold Unit3 at h; linear_combination h
  have e := rotQ_dot sq ⟨-m.qi, -m.qj, -m.qk⟩ m.qw ⟨-m.t.x, -m.t.y, -m.t.z⟩ ⟨-m.t.x, -m.t.y, -m.t.z⟩ h'
  obtain ⟨i, j, k, w, tx, ty, tz⟩ := m
  simp only [Iso3.inverse, Iso3.qv, V3.normSq, V3.neg, V3.dot] at e ⊢
  rw [e]; ring

theorem fieldNum_neq (a b : K) : @Model.neq K (fieldNum K sq) a b = decide (a = b) := by
  unfold Model.neq
  rcases lt_trichotomy a b with h | h | h
  · simp [h.le, not_le.mpr h, h.ne]
  · simp [h]
  · simp [h.le, not_le.mpr h, h.ne']

/-- inverse rotation of a product: `(a·b)⁻¹ v = b⁻¹(a⁻¹ v)` -/
theorem mul_invRot (a b : Iso3 K) (v : V3 K) (ha : Unit3 a) (hb : Unit3 b) :
    letI := fieldNum K sq
    (a.mul b).invRot v = b.invRot (a.invRot v) := by
  have ha' : (-a.qi) * (-a.qi) + (-a.qj) * (-a.qj) + (-a.qk) * (-a.qk) + a.qw * a.qw = 1 := by
    unfold Unit3 at ha; linear_combination ha
  have hb' : (-b.qi) * (-b.qi) + (-b.qj) * (-b.qj) + (-b.qk) * (-b.qk) + b.qw * b.qw = 1 := by
    unfold Unit3 at hb; linear_combination hb
  have e := rotQ_qmul sq ⟨-b.qi, -b.qj, -b.qk⟩ b.qw ⟨-a.qi, -a.qj, -a.qk⟩ a.qw v hb' ha'
  obtain ⟨a0, a1, a2, aw, ax, ay, az⟩ := a; obtain ⟨b0, b1, b2, bw, bx, by', bz⟩ := b; obtain ⟨x, y, z⟩ := v
  simp only [qmulV, qmulW, Iso3.mul, Iso3.invRot, Iso3.qv, Iso3.qmul, Iso3.rotQ, V3.add, V3.neg, V3.smul, V3.cross,
    fieldNum_two, V3.mk.injEq] at e ⊢
  obtain ⟨e1, e2, e3⟩ := e
  refine ⟨?_, ?_, ?_⟩
  · linear_combination e1
  · linear_combination e2
  · linear_combination e3

/-- inverse rotation of `a⁻¹·b`: `(a⁻¹b)⁻¹ v = b⁻¹(a v)` -/
theorem invMul_invRot (a b : Iso3 K) (v : V3 K) (ha : Unit3 a) (hb : Unit3 b) :
    letI := fieldNum K sq
    (a.invMul b).invRot v = b.invRot (a.rot v) := by
  have hb' : (-b.qi) * (-b.qi) + (-b.qj) * (-b.qj) + (-b.qk) * (-b.qk) + b.qw * b.qw = 1 := by
    unfold Unit3 at hb; linear_combination hb
  have e := rotQ_qmul sq ⟨-b.qi, -b.qj, -b.qk⟩ b.qw ⟨a.qi, a.qj, a.qk⟩ a.qw v hb' ha
  obtain ⟨a0, a1, a2, aw, ax, ay, az⟩ := a; obtain ⟨b0, b1, b2, bw, bx, by', bz⟩ := b; obtain ⟨x, y, z⟩ := v
  simp only [qmulV, qmulW, Iso3.invMul, Iso3.invRot, Iso3.rot, Iso3.qv, Iso3.qmul, Iso3.rotQ, V3.add, V3.neg, V3.smul,
    V3.cross, fieldNum_two, V3.mk.injEq] at e ⊢
  obtain ⟨e1, e2, e3⟩ := e
  refine ⟨?_, ?_, ?_⟩
  · linear_combination e1
  · linear_combination e2
  · linear_combination e3

theorem invRot_sub (m : Iso3 K) (a b : V3 K) :
    letI := fieldNum K sq
    m.invRot (a.sub b) = (m.invRot a).sub (m.invRot b) := rotQ_sub sq _ _ a b

theorem invRot_neg (m : Iso3 K) (a : V3 K) :
    letI := fieldNum K sq
    m.invRot a.neg = (m.invRot a).neg := rotQ_neg sq _ _ a

theorem rot_sub (m : Iso3 K) (a b : V3 K) :
    letI := fieldNum K sq
    m.rot (a.sub b) = (m.rot a).sub (m.rot b) := rotQ_sub sq _ _ a b

theorem V3.neg_sub' (a b : V3 K) :
    letI := fieldNum K sq
    (a.sub b).neg = b.sub a := by
  simp only [V3.sub, V3.neg, V3.mk.injEq]
  refine ⟨?_, ?_, ?_⟩ <;> ring

/-- `m · (m⁻¹ · p) = p` for `inverse_transform_point` -/
theorem iso3_invAct_act' (m : Iso3 K) (p : V3 K) (h : Unit3 m) :
    letI := fieldNum K sq
    m.act (m.invAct p) = p := by
  have e := rot_invRot sq m (V3.mk (p.x - m.t.x) (p.y - m.t.y) (p.z - m.t.z)) h
  obtain ⟨i, j, k, w, tx, ty, tz⟩ := m; obtain ⟨x, y, z⟩ := p
  simp only [Iso3.invAct, Iso3.invRot, Iso3.act, Iso3.rot, Iso3.qv, Iso3.rotQ, V3.add, V3.sub, V3.neg,
    V3.smul, V3.cross, fieldNum_two, V3.mk.injEq] at e ⊢
  obtain ⟨b1, b2, b3⟩ := e
  refine ⟨?_, ?_, ?_⟩
  · linear_combination b1
  · linear_combination b2
  · linear_combination b3

end C03
