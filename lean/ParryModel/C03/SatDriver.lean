import ParryModel.Proto
import ParryModel.C03.Model
import ParryModel.C03.Sat
import ParryModel.C03.Oracle
/-!
# C03 follow-up 2: exact separating-axis judge for convex polytopes, and the handlers of the closed-form
cuboid/cuboid separating-axis functions.

The judge works in exact rational arithmetic on the **vertices** of the posed shapes: for a direction `d` the signed
gap of the two projections is `max (min_B - max_A) (min_A - max_B)` (brute force over the vertex lists, no support
function, no reference to which shape is "first").  Two convex polytopes are disjoint iff the gap is positive for one
of: the face normals of either (for a flat shape: its normal and its in-plane edge normals) or the cross product of an
edge direction of one with an edge direction of the other.
-/
namespace C03
open Model Model.CC Proto

/-! ## exact polytopes -/
structure Poly where
  verts : List (V3 Rat)
  edges : List (V3 Rat)
  normals : List (V3 Rat)

def basis3 : List (V3 Rat) := [⟨1, 0, 0⟩, ⟨0, 1, 0⟩, ⟨0, 0, 1⟩]

def polyCuboid (he : V3 Rat) (P : Iso3 Rat) : Poly :=
  let ax := basis3.map P.rot
  ⟨(cuboidCorners he).map P.act, ax, ax⟩

def polyTriangle (a b c : V3 Rat) (P : Iso3 Rat) : Poly :=
  let A := P.act a; let B := P.act b; let C := P.act c
  let es := [B.sub A, C.sub B, A.sub C]
  let n := (B.sub A).cross (C.sub A)
  ⟨[A, B, C], es, n :: es.map fun e => n.cross e⟩

/-- 2-D rectangle embedded in the plane `z = 0` (no edge/edge axes: "this case does not exist in 2D") -/
def polyCuboid2 (he : V2 Rat) (P : Iso2 Rat) : Poly :=
  let ax : List (V3 Rat) := [embed (P.rot ⟨1, 0⟩), embed (P.rot ⟨0, 1⟩)]
  let cs : List (V2 Rat) := [⟨he.x, he.y⟩, ⟨he.x, -he.y⟩, ⟨-he.x, he.y⟩, ⟨-he.x, -he.y⟩]
  ⟨cs.map fun c => embed (P.act c), [], ax⟩

def WShape.poly (s : WShape) (P : Iso3 Rat) : Option Poly :=
  match s with
  | .cuboid he => some (polyCuboid (q3 he) P)
  | .triangle a b c => some (polyTriangle (q3 a) (q3 b) (q3 c) P)
  | _ => none

def listMax (l : List Rat) : Rat := l.foldl max (l.headD 0)
def listMin (l : List Rat) : Rat := l.foldl min (l.headD 0)

/-- signed gap of the projections on `d` (scaled by `|d|`): positive iff `d` separates -/
def sepBoth (A B : Poly) (d : V3 Rat) : Rat :=
  let pa := A.verts.map d.dot; let pb := B.verts.map d.dot
  max (listMin pb - listMax pa) (listMin pa - listMax pb)

/-- candidate axes with a reference squared length (for the cross products `|e|²|f|²`): an edge/edge axis counts as
evidence of separation only when the edges are not numerically parallel -/
def satAxes (A B : Poly) : List (V3 Rat × Rat) :=
  (A.normals ++ B.normals).map (fun n => (n, n.normSq)) ++
  (A.edges.flatMap fun e => B.edges.map fun f => (e.cross f, e.normSq * f.normSq))

/-- `some true`: separated by more than `τ`; `some false`: every candidate axis overlaps by more than `τ`
(the shapes intersect); `none`: within `τ` of touching -/
def satVerdict (A B : Poly) (τ : Rat) : Option Bool :=
  let rel := ((satAxes A B).filter fun (d, _) => d.normSq > 0).map fun (d, ref) => (sepBoth A B d, d.normSq, ref)
  if rel.any (fun (s, n2, ref) => s > 0 && s * s > τ * τ * n2 && n2 * 1000000000000 ≥ ref) then some true
  else if rel.all (fun (s, n2, _) => s < 0 && s * s > τ * τ * n2) then some false
  else none

/-- `Rat → Float` without overflow of numerator / denominator -/
def ratToFloat (x : Rat) : Float :=
  let n := x.num.natAbs; let d := x.den
  let sn := n.log2 - 62; let sd := d.log2 - 62
  let f := (Float.ofNat (n >>> sn) / Float.ofNat (d >>> sd)).scaleB ((sn : Int) - (sd : Int))
  if x < 0 then -f else f
/-- square root with relative error far below the oracle tolerances (float seed + one Newton step) -/
def ratSqrt (x : Rat) : Rat :=
  if x ≤ 0 then 0 else
    let s := q (Float.sqrt (ratToFloat x))
    if s ≤ 0 then 0 else (s + x / s) / 2

def withOutS {α} (p : P α) (out : List String) (k : α → String) : String :=
  match out with
  | "panic" :: _ => "fail panic"
  | _ => match run p out with
    | some a => k a
    | none => "fail unparsable-output"
def axisName (i : Nat) : String := ["x", "y", "z"].getD i "?"

def judgeVerdict (v : Option Bool) (out : Bool) : String :=
  match v with
  | some true => if out then "fail intersection-reported-for-separated-cuboids" else "pass"
  | some false => if out then "pass" else "fail no-intersection-reported-for-overlapping-cuboids"
  | none => "pass"      -- within tolerance of touching: either answer

def pCC : P (V3 Float × V3 Float × Iso3 Float) := do let a ← pv3; let b ← pv3; let m ← piso3; pure (a, b, m)
def pCCW : P (V3 Float × Iso3 Float × V3 Float × Iso3 Float) := do
  let a ← pv3; let m1 ← piso3; let b ← pv3; let m2 ← piso3; pure (a, m1, b, m2)
def pCC2 : P (V2 Float × V2 Float × Iso2 Float) := do let a ← pv2; let b ← pv2; let m ← piso2; pure (a, b, m)
def pCCW2 : P (V2 Float × Iso2 Float × V2 Float × Iso2 Float) := do
  let a ← pv2; let m1 ← piso2; let b ← pv2; let m2 ← piso2; pure (a, m1, b, m2)
def fsepdir (r : Float × V3 Float) : String := s!"{ff r.1} {fv3 r.2}"
def fsepdir2 (r : Float × V2 Float) : String := s!"{ff r.1} {fv2 r.2}"
def posHe (h : V3 Rat) : Bool := h.x > 0 && h.y > 0 && h.z > 0

/-- the three face-normal candidates of cuboid 1: `(e_i, gap)` -/
def faceGaps (A B : Poly) (axes : List (V3 Rat)) : List (V3 Rat × Rat) := axes.map fun e => (e, sepBoth A B e)

def satHandler (fn : String) : Option Handler :=
  match fn with
  | "sat_sep_line" => some {
      model := fun a => run (do let (h1, h2, m) ← pCC; let ax ← pv3; pure (fsepdir (satSepLine h1 h2 m ax))) a
      oracle := fun a o => match run (do let x ← pCC; let ax ← pv3; pure (x, ax)) a with
        | some ((h1, h2, m), ax) => withOutS (do let s ← pfo; let d ← pov3; pure (s, d)) o fun (s, d) =>
            if !(FloatIO.isFinite s && finite3 d) then "fail nonfinite-output" else
            let M := qiso3 m; let H1 := q3 h1; let H2 := q3 h2; let A := q3 ax; let D := q3 d
            if !unitQ M then "skip non-unit-rotation" else
            if !(posHe H1 && posHe H2) then "skip non-positive-extents" else
            let sc := (vmag H1 + vmag H2 + vmag M.t) * vmag A
            if !(D.x == A.x && D.y == A.y && D.z == A.z) && !(D.x == -A.x && D.y == -A.y && D.z == -A.z) then
              "fail returned-axis-is-not-plus-or-minus-the-given-axis"
            else if M.t.dot D < -(tol * (1 + sc)) then "fail returned-axis-points-away-from-cuboid2"
            else
              let P1 := polyCuboid H1 Iso3.identity; let P2 := polyCuboid H2 M
              let expected := listMin (P2.verts.map D.dot) - listMax (P1.verts.map D.dot)
              if close (q s) expected sc then "pass" else s!"fail separation-along-axis got={s} expected={expected.toF}"
        | none => "skip bad-args" }
  | "sat_edge_twoway" => some {
      model := fun a => run (do let (h1, h2, m) ← pCC; pure (fsepdir (satEdgeTwoway h1 h2 m))) a
      oracle := fun a o => match run pCC a with
        | some (h1, h2, m) => withOutS (do let s ← pfo; let d ← pov3; pure (s, d)) o fun (s, d) =>
            if !(FloatIO.isFinite s && finite3 d) then "fail nonfinite-output" else
            let M := qiso3 m; let H1 := q3 h1; let H2 := q3 h2; let D := q3 d; let S := q s
            if !unitQ M then "skip non-unit-rotation" else
            if !(posHe H1 && posHe H2) then "skip non-positive-extents" else
            let sc := vmag H1 + vmag H2 + vmag M.t
            let P1 := polyCuboid H1 Iso3.identity; let P2 := polyCuboid H2 M
            -- the nine axes e_i × R e_j with their exact (un-normalised) gap, named "ij"
            let cands : List (String × V3 Rat × Rat × Rat) :=
              (List.range 3).flatMap fun j => (List.range 3).map fun i =>
                let dd := (basis3.getD i ⟨0, 0, 0⟩).cross (M.rot (basis3.getD j ⟨0, 0, 0⟩))
                (axisName i ++ "1x" ++ axisName j ++ "2", dd, dd.normSq, sepBoth P1 P2 dd)
            -- clearly non-degenerate candidates (|e_i × R e_j| ≥ 1e-3) must all be accounted for
            let good := cands.filter fun (_, _, n2, _) => n2 * 1000000 ≥ 1
            let sloppy := cands.any fun (_, _, n2, _) => n2 > 0 && n2 * 1000000 < 1
            let missed := good.filter fun (_, _, n2, g) => g / ratSqrt n2 > S + tol * (1 + sc) * 10
            if !close D.normSq 1 1 then "fail direction-not-unit"
            else if !close S (sepBoth P1 P2 D) (sc * 10) then
              s!"fail reported-separation-is-not-the-gap-along-the-reported-direction got={s} gap={(sepBoth P1 P2 D).toF}"
            else match missed with
              | (nm, _, n2, g) :: _ =>
                s!"fail edge-axis-{nm}-separates-more-than-the-reported-best best={s} axis-gap={(g / ratSqrt n2).toF}"
              | [] =>
                if sloppy then "pass"
                else if good.any (fun (_, dd, n2, _) =>
                    let n := ratSqrt n2
                    closeV (D.smul n) dd 1000 || closeV (D.smul n) dd.neg 1000) then "pass"
                else "fail reported-direction-is-not-one-of-the-nine-edge-axes"
        | none => "skip bad-args" }
  | "sat_normal_oneway" => some {
      model := fun a => run (do let (h1, h2, m) ← pCC; pure (fsepdir (satNormalOneway h1 h2 m))) a
      oracle := fun a o => match run pCC a with
        | some (h1, h2, m) => withOutS (do let s ← pfo; let d ← pov3; pure (s, d)) o fun (s, d) =>
            if !(FloatIO.isFinite s && finite3 d) then "fail nonfinite-output" else
            let M := qiso3 m; let H1 := q3 h1; let H2 := q3 h2; let D := q3 d; let S := q s
            if !unitQ M then "skip non-unit-rotation" else
            if !(posHe H1 && posHe H2) then "skip non-positive-extents" else
            let sc := vmag H1 + vmag H2 + vmag M.t
            let P1 := polyCuboid H1 Iso3.identity; let P2 := polyCuboid H2 M
            let gaps := faceGaps P1 P2 basis3
            let best := listMax (gaps.map (·.2))
            if !close S best sc then s!"fail not-the-largest-face-normal-gap got={s} expected={best.toF}"
            else if !(gaps.any fun (e, g) => (D.x == e.x && D.y == e.y && D.z == e.z || D.x == -e.x && D.y == -e.y && D.z == -e.z)
                        && close g best sc) then "fail direction-is-not-a-best-face-normal-of-cuboid1"
            else if M.t.dot D < 0 then "fail direction-points-away-from-cuboid2"
            else "pass"
        | none => "skip bad-args" }
  | "d_it_cc" => some {
      model := fun a => run (do let (h1, h2, m) ← pCC; pure (fb (intersectionTestCuboidCuboid m h1 h2))) a
      oracle := fun a o => match run pCC a with
        | some (h1, h2, m) => withOutS pbool o fun r =>
            let M := qiso3 m; let H1 := q3 h1; let H2 := q3 h2
            if !unitQ M then "skip non-unit-rotation" else
            if !(posHe H1 && posHe H2) then "skip non-positive-extents" else
            judgeVerdict (satVerdict (polyCuboid H1 Iso3.identity) (polyCuboid H2 M)
              ((1 / 10000000) * (1 + vmag H1 + vmag H2 + vmag M.t))) r
        | none => "skip bad-args" }
  | "q_it_cc" => some {
      model := fun a => run (do let (h1, p1, h2, p2) ← pCCW
                                pure (fb (queryIntersectionTest (fun m => intersectionTestCuboidCuboid m h1 h2) p1 p2))) a
      oracle := fun a o => match run pCCW a with
        | some (h1, p1, h2, p2) => withOutS pbool o fun r =>
            let M1 := qiso3 p1; let M2 := qiso3 p2; let H1 := q3 h1; let H2 := q3 h2
            if !(unitQ M1 && unitQ M2) then "skip non-unit-rotation" else
            if !(posHe H1 && posHe H2) then "skip non-positive-extents" else
            judgeVerdict (satVerdict (polyCuboid H1 M1) (polyCuboid H2 M2)
              ((1 / 10000000) * (1 + vmag H1 + vmag H2 + vmag M1.t + vmag M2.t))) r
        | none => "skip bad-args" }
  /- ---------------- 2-D ---------------- -/
  | "sat2_normal_oneway" => some {
      model := fun a => run (do let (h1, h2, m) ← pCC2; pure (fsepdir2 (satNormalOneway2 h1 h2 m))) a
      oracle := fun a o => match run pCC2 a with
        | some (h1, h2, m) => withOutS (do let s ← pfo; let d ← pov2; pure (s, d)) o fun (s, d) =>
            if !(FloatIO.isFinite s && finite2 d) then "fail nonfinite-output" else
            let M := qiso2 m; let H1 := q2 h1; let H2 := q2 h2; let D := embed (q2 d); let S := q s
            if !unitC M then "skip non-unit-rotation" else
            if !(H1.x > 0 && H1.y > 0 && H2.x > 0 && H2.y > 0) then "skip non-positive-extents" else
            let sc := vmag2 H1 + vmag2 H2 + vmag2 M.t
            let P1 := polyCuboid2 H1 Iso2.identity; let P2 := polyCuboid2 H2 M
            let gaps := faceGaps P1 P2 [⟨1, 0, 0⟩, ⟨0, 1, 0⟩]
            let best := listMax (gaps.map (·.2))
            if !close S best sc then s!"fail not-the-largest-face-normal-gap got={s} expected={best.toF}"
            else if !(gaps.any fun (e, g) => (D.x == e.x && D.y == e.y || D.x == -e.x && D.y == -e.y) && close g best sc) then
              "fail direction-is-not-a-best-face-normal-of-cuboid1"
            else if (embed M.t).dot D < 0 then "fail direction-points-away-from-cuboid2"
            else "pass"
        | none => "skip bad-args" }
  | "d2_it_cc" => some {
      model := fun a => run (do let (h1, h2, m) ← pCC2; pure (fb (intersectionTestCuboidCuboid2 m h1 h2))) a
      oracle := fun a o => match run pCC2 a with
        | some (h1, h2, m) => withOutS pbool o fun r =>
            let M := qiso2 m; let H1 := q2 h1; let H2 := q2 h2
            if !unitC M then "skip non-unit-rotation" else
            if !(H1.x > 0 && H1.y > 0 && H2.x > 0 && H2.y > 0) then "skip non-positive-extents" else
            judgeVerdict (satVerdict (polyCuboid2 H1 Iso2.identity) (polyCuboid2 H2 M)
              ((1 / 10000000) * (1 + vmag2 H1 + vmag2 H2 + vmag2 M.t))) r
        | none => "skip bad-args" }
  | "q2_it_cc" => some {
      model := fun a => run (do let (h1, p1, h2, p2) ← pCCW2
                                pure (fb (queryScalar2 (fun m => intersectionTestCuboidCuboid2 m h1 h2) p1 p2))) a
      oracle := fun a o => match run pCCW2 a with
        | some (h1, p1, h2, p2) => withOutS pbool o fun r =>
            let M1 := qiso2 p1; let M2 := qiso2 p2; let H1 := q2 h1; let H2 := q2 h2
            if !(unitC M1 && unitC M2) then "skip non-unit-rotation" else
            if !(H1.x > 0 && H1.y > 0 && H2.x > 0 && H2.y > 0) then "skip non-positive-extents" else
            judgeVerdict (satVerdict (polyCuboid2 H1 M1) (polyCuboid2 H2 M2)
              ((1 / 10000000) * (1 + vmag2 H1 + vmag2 H2 + vmag2 M1.t + vmag2 M2.t))) r
        | none => "skip bad-args" }
  | _ => none

end C03
