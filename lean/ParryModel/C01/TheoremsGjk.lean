import ParryModel.Field
import ParryModel.C01.ModelGjk
import ParryModel.C05.Theorems1
import ParryModel.C05.Theorems2
import ParryModel.C05.Theorems3
set_option linter.style.haveILetI false
set_option linter.unusedSimpArgs false
set_option linter.unusedVariables false
/-!
# C01 property theorems, part 2: the GJK simplex (`VoronoiSimplex`, 2-D and 3-D) and the exits of `gjk::closest_points`

Statements are about the model functions of `C01/ModelGjk.lean` at the lawful instance `fieldNum K sq` (any linearly ordered field).
`Hull2 s` / `Hull3 s` is the convex hull of the `dim + 1` live vertices of the simplex (a point, a `Segment*.Mem`, a `Triangle*.Mem`).
-/
namespace C01
open Model Model.Gjk

section generic
variable {K : Type} [Num K]

/-- which projection `project_origin_and_reduce` returns, whatever the reported location (2-D) -/
theorem reduce2_pt (s s' : Vs2 K) (p : V2 K) (h : s.projectOriginAndReduce = some (s', p)) :
    (s.dim = 0 ∧ p = s.v0.point) ∨
    (s.dim = 1 ∧ p = (Segment2.projectLoc ⟨s.v0.point, s.v1.point⟩ V2.zero).1.pt) ∨
    (s.dim = 2 ∧ p = (Triangle2.projectLoc ⟨s.v0.point, s.v1.point, s.v2.point⟩ V2.zero true).1.pt) := by
  unfold Vs2.projectOriginAndReduce at h
  split_ifs at h with h0 h1 h2
  · left; simp only [Option.some.injEq, Prod.mk.injEq] at h; exact ⟨h0, h.2.symm⟩
  · right; left; refine ⟨h1, ?_⟩
    dsimp only at h
    split at h <;> simp only [Option.some.injEq, Prod.mk.injEq, reduceCtorEq] at h <;> exact h.2.symm
  · right; right; refine ⟨h2, ?_⟩
    dsimp only at h
    split at h <;> (try split_ifs at h) <;> simp only [Option.some.injEq, Prod.mk.injEq, reduceCtorEq] at h <;> exact h.2.symm

/-- which projection `project_origin_and_reduce` returns (3-D, simplex of dimension ≤ 2) -/
theorem reduce3_pt (s s' : Vs3 K) (p : V3 K) (h : s.projectOriginAndReduce = some (s', p)) (hd : s.dim ≤ 2) :
    (s.dim = 0 ∧ p = s.v0.point) ∨
    (s.dim = 1 ∧ p = (Segment3.projectLoc ⟨s.v0.point, s.v1.point⟩ V3.zero).1.pt) ∨
    (s.dim = 2 ∧ p = (Triangle3.projectLoc ⟨s.v0.point, s.v1.point, s.v2.point⟩ V3.zero true).1.pt) := by
  unfold Vs3.projectOriginAndReduce at h
  split_ifs at h with h0 h1 h2 h3
  · left; simp only [Option.some.injEq, Prod.mk.injEq] at h; exact ⟨h0, h.2.symm⟩
  · right; left; refine ⟨h1, ?_⟩
    dsimp only at h
    split at h <;> simp only [Option.some.injEq, Prod.mk.injEq, reduceCtorEq] at h <;> exact h.2.symm
  · right; right; refine ⟨h2, ?_⟩
    dsimp only at h
    split at h <;> (try split_ifs at h) <;> simp only [Option.some.injEq, Prod.mk.injEq, reduceCtorEq] at h <;> exact h.2.symm
  · omega

/-- **`reset` forgets the history**: whatever the simplex was used for before, after `reset(pt)` it is the 0-dimensional
simplex `{pt}` (this is what makes the `*_with_params` entry points independent of the caller-supplied simplex). -/
theorem reset2_spec (s : Vs2 K) (pt : CSO2 K) : (s.reset pt).dim = 0 ∧ (s.reset pt).prevDim = 0 ∧ (s.reset pt).v0 = pt := ⟨rfl, rfl, rfl⟩
theorem reset3_spec (s : Vs3 K) (pt : CSO3 K) : (s.reset pt).dim = 0 ∧ (s.reset pt).prevDim = 0 ∧ (s.reset pt).v0 = pt := ⟨rfl, rfl, rfl⟩

/-- the first reduction after a `reset` returns the reset point itself, with weight 1, for every previous state -/
theorem reset2_then_reduce (s : Vs2 K) (pt : CSO2 K) :
    ∃ s', (s.reset pt).projectOriginAndReduce = some (s', pt.point) ∧ s'.dim = 0 ∧ s'.v0 = pt ∧ s'.p0 = 1 := by
  refine ⟨{ s.reset pt with p0 := 1 }, ?_, rfl, rfl, rfl⟩
  simp [Vs2.projectOriginAndReduce, Vs2.reset]
theorem reset3_then_reduce (s : Vs3 K) (pt : CSO3 K) :
    ∃ s', (s.reset pt).projectOriginAndReduce = some (s', pt.point) ∧ s'.dim = 0 ∧ s'.v0 = pt ∧ s'.p0 = 1 := by
  refine ⟨{ s.reset pt with p0 := 1 }, ?_, rfl, rfl, rfl⟩
  simp [Vs3.projectOriginAndReduce, Vs3.reset]

end generic

variable {K : Type} [Field K] [LinearOrder K] [IsStrictOrderedRing K] (sq : K → K)

/-- convex hull of the live vertices (2-D) -/
def Hull2 (s : Vs2 K) (q : V2 K) : Prop :=
  letI := fieldNum K sq
  (s.dim = 0 ∧ q = s.v0.point) ∨ (s.dim = 1 ∧ (Segment2.mk s.v0.point s.v1.point).Mem q) ∨
  (s.dim = 2 ∧ (Triangle2.mk s.v0.point s.v1.point s.v2.point).Mem q)
/-- convex hull of the live vertices (3-D, dimension ≤ 2) -/
def Hull3 (s : Vs3 K) (q : V3 K) : Prop :=
  letI := fieldNum K sq
  (s.dim = 0 ∧ q = s.v0.point) ∨ (s.dim = 1 ∧ (Segment3.mk s.v0.point s.v1.point).Mem q) ∨
  (s.dim = 2 ∧ (Triangle3.mk s.v0.point s.v1.point s.v2.point).Mem q)

/-- a full 2-D simplex is a genuine triangle -/
def Vs2Ok (s : Vs2 K) : Prop := s.dim = 2 → C05.Tri2Ok ⟨s.v0.point, s.v1.point, s.v2.point⟩
def Vs3Ok (s : Vs3 K) : Prop := s.dim = 2 → C05.Tri3Ok ⟨s.v0.point, s.v1.point, s.v2.point⟩

/-- **2-D reduction returns the nearest point**: no point of the hull of the live vertices is closer to the origin than the
point returned by `project_origin_and_reduce` (vertex, both segment regions, all seven triangle regions). -/
theorem reduce2_nearest (s s' : Vs2 K) (p q : V2 K) (hok : Vs2Ok s) :
    letI := fieldNum K sq
    s.projectOriginAndReduce = some (s', p) → Hull2 sq s q → C05.dsq2 V2.zero p ≤ C05.dsq2 V2.zero q := by
  letI := fieldNum K sq
  intro h hq
  rcases reduce2_pt s s' p h with ⟨h0, rfl⟩ | ⟨h1, rfl⟩ | ⟨h2, rfl⟩
  · rcases hq with ⟨_, rfl⟩ | ⟨e, _⟩ | ⟨e, _⟩
    · exact le_refl _
    · omega
    · omega
  · rcases hq with ⟨e, _⟩ | ⟨_, hm⟩ | ⟨e, _⟩
    · omega
    · exact C05.seg2_project_optimal sq _ _ _ hm
    · omega
  · rcases hq with ⟨e, _⟩ | ⟨e, _⟩ | ⟨_, hm⟩
    · omega
    · omega
    · exact C05.tri2_project_optimal sq _ _ _ true (hok h2) hm (Or.inl rfl)

/-- **2-D reduction returns a point of the simplex** -/
theorem reduce2_mem (s s' : Vs2 K) (p : V2 K) (hok : Vs2Ok s) :
    letI := fieldNum K sq
    s.projectOriginAndReduce = some (s', p) → Hull2 sq s p := by
  letI := fieldNum K sq
  intro h
  rcases reduce2_pt s s' p h with ⟨h0, rfl⟩ | ⟨h1, rfl⟩ | ⟨h2, rfl⟩
  · exact Or.inl ⟨h0, rfl⟩
  · exact Or.inr (Or.inl ⟨h1, C05.seg2_project_mem sq _ _⟩)
  · exact Or.inr (Or.inr ⟨h2, C05.tri2_project_mem_all sq _ _ true (hok h2)⟩)

/-- **3-D reduction returns the nearest point** (simplex of dimension ≤ 2: vertex, segment, triangle regions).
Gap to `reduce3_nearest_full`: the tetrahedron case `dim = 3` (`Tetrahedron::project_local_point_and_get_location` is in the model
and checked bit-exact and by the brute-force oracle of `vs3`, but its 15-region analysis is not proved). -/
theorem reduce3_nearest_partial (s s' : Vs3 K) (p q : V3 K) (hok : Vs3Ok s) (hd : s.dim ≤ 2) :
    letI := fieldNum K sq
    s.projectOriginAndReduce = some (s', p) → Hull3 sq s q → C05.dsq3 V3.zero p ≤ C05.dsq3 V3.zero q := by
  letI := fieldNum K sq
  intro h hq
  rcases reduce3_pt s s' p h hd with ⟨h0, rfl⟩ | ⟨h1, rfl⟩ | ⟨h2, rfl⟩
  · rcases hq with ⟨_, rfl⟩ | ⟨e, _⟩ | ⟨e, _⟩
    · exact le_refl _
    · omega
    · omega
  · rcases hq with ⟨e, _⟩ | ⟨_, hm⟩ | ⟨e, _⟩
    · omega
    · exact C05.seg3_project_optimal sq _ _ _ hm
    · omega
  · rcases hq with ⟨e, _⟩ | ⟨e, _⟩ | ⟨_, hm⟩
    · omega
    · omega
    · exact C05.tri3_project_optimal sq _ _ _ true (hok h2) hm

/-- **3-D reduction returns a point of the simplex** (dimension ≤ 2) -/
theorem reduce3_mem_partial (s s' : Vs3 K) (p : V3 K) (hok : Vs3Ok s) (hd : s.dim ≤ 2) :
    letI := fieldNum K sq
    s.projectOriginAndReduce = some (s', p) → Hull3 sq s p := by
  letI := fieldNum K sq
  intro h
  rcases reduce3_pt s s' p h hd with ⟨h0, rfl⟩ | ⟨h1, rfl⟩ | ⟨h2, rfl⟩
  · exact Or.inl ⟨h0, rfl⟩
  · exact Or.inr (Or.inl ⟨h1, C05.seg3_project_mem sq _ _⟩)
  · exact Or.inr (Or.inr ⟨h2, C05.tri3_project_mem sq _ _ true (hok h2)⟩)

/-- `c` is one of the `dim + 1` live vertices of `s` -/
def Live2 (s : Vs2 K) (c : CSO2 K) : Prop := c = s.v0 ∨ (1 ≤ s.dim ∧ c = s.v1) ∨ (2 ≤ s.dim ∧ c = s.v2)

/-- **the kept sub-simplex contains the returned point, with the stored barycentric weights** (2-D): after the reduction the
simplex is either one old vertex `= p` with weight 1, or an edge between two old vertices with non-negative weights
`proj[0] + proj[1] = 1` and `p = proj[0]·v0 + proj[1]·v1`, or the untouched full triangle, in which case the origin is inside and
`p` is the origin itself. -/
theorem reduce2_kept (s s' : Vs2 K) (p : V2 K) (hok : Vs2Ok s) :
    letI := fieldNum K sq
    s.projectOriginAndReduce = some (s', p) →
    (s'.dim = 0 ∧ s'.p0 = 1 ∧ p = s'.v0.point ∧ Live2 s s'.v0) ∨
    (s'.dim = 1 ∧ 0 ≤ s'.p0 ∧ 0 ≤ s'.p1 ∧ s'.p0 + s'.p1 = 1 ∧ p = (s'.v0.point.smul s'.p0).add (s'.v1.point.smul s'.p1)
        ∧ Live2 s s'.v0 ∧ Live2 s s'.v1) ∨
    (s'.dim = 2 ∧ s' = s ∧ p = V2.zero) := by
  letI := fieldNum K sq
  intro h
  unfold Vs2.projectOriginAndReduce at h
  split_ifs at h with h0 h1 h2
  · simp only [Option.some.injEq, Prod.mk.injEq] at h
    obtain ⟨rfl, rfl⟩ := h
    exact Or.inl ⟨h0, rfl, rfl, Or.inl rfl⟩
  · dsimp only at h
    have hl := C05.seg2_location_sound sq ⟨s.v0.point, s.v1.point⟩ V2.zero
    generalize Segment2.projectLoc ⟨s.v0.point, s.v1.point⟩ V2.zero = r at h hl
    obtain ⟨pp, loc⟩ := r
    cases loc with
    | vertex i =>
      dsimp only at hl h
      rcases hl with ⟨rfl, e⟩ | ⟨rfl, e⟩
      · simp only [Option.some.injEq, Prod.mk.injEq] at h
        obtain ⟨rfl, rfl⟩ := h
        exact Or.inl ⟨rfl, rfl, e, Or.inl rfl⟩
      · simp only [Option.some.injEq, Prod.mk.injEq] at h
        obtain ⟨rfl, rfl⟩ := h
        exact Or.inl ⟨rfl, rfl, e, Or.inr (Or.inl ⟨by omega, rfl⟩)⟩
    | edge b0 b1 =>
      dsimp only at hl h
      simp only [Option.some.injEq, Prod.mk.injEq] at h
      obtain ⟨rfl, rfl⟩ := h
      obtain ⟨hb0, hb1, hs, e⟩ := hl
      exact Or.inr (Or.inl ⟨h1, hb0, hb1, hs, e, Or.inl rfl, Or.inr (Or.inl ⟨by omega, rfl⟩)⟩)
  · dsimp only at h
    have hl := C05.tri2_location_sound sq ⟨s.v0.point, s.v1.point, s.v2.point⟩ V2.zero true
    have hc := C05.tri2_location_contains sq ⟨s.v0.point, s.v1.point, s.v2.point⟩ V2.zero true (hok h2)
    generalize Triangle2.projectLoc ⟨s.v0.point, s.v1.point, s.v2.point⟩ V2.zero true = r at h hl hc
    obtain ⟨pp, loc⟩ := r
    cases loc with
    | vertex i =>
      dsimp only at hl hc h
      rcases hl with ⟨rfl, e⟩ | ⟨rfl, e⟩ | ⟨rfl, e⟩
      · norm_num at h
        obtain ⟨rfl, rfl⟩ := h
        exact Or.inl ⟨rfl, rfl, e, Or.inl rfl⟩
      · norm_num at h
        obtain ⟨rfl, rfl⟩ := h
        exact Or.inl ⟨rfl, rfl, e, Or.inr (Or.inl ⟨by omega, rfl⟩)⟩
      · norm_num at h
        obtain ⟨rfl, rfl⟩ := h
        exact Or.inl ⟨rfl, rfl, e, Or.inr (Or.inr ⟨by omega, rfl⟩)⟩
    | edge i b0 b1 =>
      dsimp only at hl hc h
      obtain ⟨_, hb0, hb1⟩ := hc
      obtain ⟨hs, ⟨rfl, e⟩ | ⟨rfl, e⟩ | ⟨rfl, e⟩⟩ := hl
      · simp only [Option.some.injEq, Prod.mk.injEq] at h
        obtain ⟨rfl, rfl⟩ := h
        exact Or.inr (Or.inl ⟨rfl, hb0, hb1, hs, e, Or.inl rfl, Or.inr (Or.inl ⟨by omega, rfl⟩)⟩)
      · simp only [Option.some.injEq, Prod.mk.injEq] at h
        obtain ⟨rfl, rfl⟩ := h
        refine Or.inr (Or.inl ⟨rfl, hb1, hb0, by linarith, ?_, Or.inr (Or.inr ⟨by omega, rfl⟩), Or.inr (Or.inl ⟨by omega, rfl⟩)⟩)
        rw [e]
        apply C05.v2_ext <;> simp only [V2.add, V2.smul, Vs2.swap, Vs2.get, Vs2.set, Vs2.setPv, Vs2.getPv] <;> ring
      · simp only [Option.some.injEq, Prod.mk.injEq] at h
        obtain ⟨rfl, rfl⟩ := h
        exact Or.inr (Or.inl ⟨rfl, hb0, hb1, hs, e, Or.inl rfl, Or.inr (Or.inr ⟨by omega, rfl⟩)⟩)
    | face sd b0 b1 b2 => exact absurd hc (by simp)
    | solid =>
      dsimp only at hl h
      simp only [Option.some.injEq, Prod.mk.injEq] at h
      obtain ⟨rfl, rfl⟩ := h
      exact Or.inr (Or.inr ⟨h2, rfl, hl.1⟩)

/-- **the kept sub-simplex contains the returned point** (2-D): `p` is in the hull of the live vertices after the reduction -/
theorem reduce2_kept_contains (s s' : Vs2 K) (p : V2 K) (hok : Vs2Ok s) :
    letI := fieldNum K sq
    s.projectOriginAndReduce = some (s', p) → Hull2 sq s' p := by
  letI := fieldNum K sq
  intro h
  rcases reduce2_kept sq s s' p hok h with ⟨d, _, e, _⟩ | ⟨d, h0, h1, hs, e, _, _⟩ | ⟨d, hss, e⟩
  · exact Or.inl ⟨d, e⟩
  · refine Or.inr (Or.inl ⟨d, s'.p1, h1, by linarith, ?_⟩)
    rw [e]
    have : s'.p0 = 1 - s'.p1 := by linarith
    rw [this]
    apply C05.v2_ext <;> simp only [V2.add, V2.smul, V2.sub] <;> ring
  · have := reduce2_mem sq s s' p hok h
    rw [hss] at d ⊢
    rcases this with ⟨d0, _⟩ | ⟨d1, _⟩ | hm
    · omega
    · omega
    · exact Or.inr (Or.inr hm)

def Live3 (s : Vs3 K) (c : CSO3 K) : Prop := c = s.v0 ∨ (1 ≤ s.dim ∧ c = s.v1) ∨ (2 ≤ s.dim ∧ c = s.v2)

/-- **the kept sub-simplex contains the returned point, with the stored barycentric weights** (3-D, simplex of dimension ≤ 2):
one old vertex with weight 1, an edge of old vertices with weights `proj[0..2] ≥ 0` summing to 1, or the whole triangle with
weights `proj[0..3] ≥ 0` summing to 1 — and `p` is that weighted sum (this is what `gjk::result` multiplies the witnesses with). -/
theorem reduce3_kept_partial (s s' : Vs3 K) (p : V3 K) (hok : Vs3Ok s) (hd : s.dim ≤ 2) :
    letI := fieldNum K sq
    s.projectOriginAndReduce = some (s', p) →
    (s'.dim = 0 ∧ s'.p0 = 1 ∧ p = s'.v0.point ∧ Live3 s s'.v0) ∨
    (s'.dim = 1 ∧ 0 ≤ s'.p0 ∧ 0 ≤ s'.p1 ∧ s'.p0 + s'.p1 = 1 ∧ p = (s'.v0.point.smul s'.p0).add (s'.v1.point.smul s'.p1)
        ∧ Live3 s s'.v0 ∧ Live3 s s'.v1) ∨
    (s'.dim = 2 ∧ s.dim = 2 ∧ 0 ≤ s'.p0 ∧ 0 ≤ s'.p1 ∧ 0 ≤ s'.p2 ∧ s'.p0 + s'.p1 + s'.p2 = 1 ∧
        p = ((s'.v0.point.smul s'.p0).add (s'.v1.point.smul s'.p1)).add (s'.v2.point.smul s'.p2) ∧
        s'.v0 = s.v0 ∧ s'.v1 = s.v1 ∧ s'.v2 = s.v2) := by
  letI := fieldNum K sq
  intro h
  unfold Vs3.projectOriginAndReduce at h
  split_ifs at h with h0 h1 h2 h3
  · simp only [Option.some.injEq, Prod.mk.injEq] at h
    obtain ⟨rfl, rfl⟩ := h
    exact Or.inl ⟨h0, rfl, rfl, Or.inl rfl⟩
  · dsimp only at h
    have hl := C05.seg3_location_sound sq ⟨s.v0.point, s.v1.point⟩ V3.zero
    generalize Segment3.projectLoc ⟨s.v0.point, s.v1.point⟩ V3.zero = r at h hl
    obtain ⟨pp, loc⟩ := r
    cases loc with
    | vertex i =>
      dsimp only at hl h
      rcases hl with ⟨rfl, e⟩ | ⟨rfl, e⟩
      · simp only [Option.some.injEq, Prod.mk.injEq] at h
        obtain ⟨rfl, rfl⟩ := h
        exact Or.inl ⟨rfl, rfl, e, Or.inl rfl⟩
      · simp only [Option.some.injEq, Prod.mk.injEq] at h
        obtain ⟨rfl, rfl⟩ := h
        exact Or.inl ⟨rfl, rfl, e, Or.inr (Or.inl ⟨by omega, rfl⟩)⟩
    | edge b0 b1 =>
      dsimp only at hl h
      simp only [Option.some.injEq, Prod.mk.injEq] at h
      obtain ⟨rfl, rfl⟩ := h
      obtain ⟨hb0, hb1, hs, e⟩ := hl
      exact Or.inr (Or.inl ⟨h1, hb0, hb1, hs, e, Or.inl rfl, Or.inr (Or.inl ⟨by omega, rfl⟩)⟩)
  · dsimp only at h
    have hl := C05.tri3_location_sound sq ⟨s.v0.point, s.v1.point, s.v2.point⟩ V3.zero true
    have hc := C05.tri3_location_contains sq ⟨s.v0.point, s.v1.point, s.v2.point⟩ V3.zero true (hok h2)
    generalize Triangle3.projectLoc ⟨s.v0.point, s.v1.point, s.v2.point⟩ V3.zero true = r at h hl hc
    obtain ⟨pp, loc⟩ := r
    cases loc with
    | vertex i =>
      dsimp only at hl hc h
      rcases hl with ⟨rfl, e⟩ | ⟨rfl, e⟩ | ⟨rfl, e⟩
      · norm_num at h
        obtain ⟨rfl, rfl⟩ := h
        exact Or.inl ⟨rfl, rfl, e, Or.inl rfl⟩
      · norm_num at h
        obtain ⟨rfl, rfl⟩ := h
        exact Or.inl ⟨rfl, rfl, e, Or.inr (Or.inl ⟨by omega, rfl⟩)⟩
      · norm_num at h
        obtain ⟨rfl, rfl⟩ := h
        exact Or.inl ⟨rfl, rfl, e, Or.inr (Or.inr ⟨by omega, rfl⟩)⟩
    | edge i b0 b1 =>
      dsimp only at hl hc h
      obtain ⟨_, hb0, hb1⟩ := hc
      obtain ⟨hs, ⟨rfl, e⟩ | ⟨rfl, e⟩ | ⟨rfl, e⟩⟩ := hl
      · simp only [Option.some.injEq, Prod.mk.injEq] at h
        obtain ⟨rfl, rfl⟩ := h
        exact Or.inr (Or.inl ⟨rfl, hb0, hb1, hs, e, Or.inl rfl, Or.inr (Or.inl ⟨by omega, rfl⟩)⟩)
      · simp only [Option.some.injEq, Prod.mk.injEq] at h
        obtain ⟨rfl, rfl⟩ := h
        refine Or.inr (Or.inl ⟨rfl, hb1, hb0, by linarith, ?_, Or.inr (Or.inr ⟨by omega, rfl⟩), Or.inr (Or.inl ⟨by omega, rfl⟩)⟩)
        rw [e]
        apply C05.v3_ext <;> simp only [V3.add, V3.smul, Vs3.swap, Vs3.get, Vs3.set, Vs3.setPv, Vs3.getPv] <;> ring
      · simp only [Option.some.injEq, Prod.mk.injEq] at h
        obtain ⟨rfl, rfl⟩ := h
        exact Or.inr (Or.inl ⟨rfl, hb0, hb1, hs, e, Or.inl rfl, Or.inr (Or.inr ⟨by omega, rfl⟩)⟩)
    | face sd b0 b1 b2 =>
      dsimp only at hl hc h
      simp only [Option.some.injEq, Prod.mk.injEq] at h
      obtain ⟨rfl, rfl⟩ := h
      exact Or.inr (Or.inr ⟨h2, h2, hc.1, hc.2.1, hc.2.2, hl.2.1, hl.2.2, rfl, rfl, rfl⟩)
    | solid => exact absurd hc (by simp)
  · omega

/-! ## `gjk::result`: the witnesses are the same convex combination of the original points, their difference is the projection -/

/-- **barycentric reconstruction (2-D)**: after a reduction that kept a vertex or an edge, `result(simplex, false)` returns
`w1 = Σ proj[i]·orig1[i]`, `w2 = Σ proj[i]·orig2[i]` — convex combinations (weights from `reduce2_kept`) of support points of
shape 1 resp. shape 2 — and `w1 - w2` is exactly the returned nearest point `p` of the simplex, provided every live CSO vertex
satisfies `point = orig1 - orig2` (true for `CSOPoint::new`, i.e. for everything `from_shapes` produces). -/
theorem result2_gap (s s' : Vs2 K) (p : V2 K) (hok : Vs2Ok s)
    (hc : ∀ c, Live2 s c → letI := fieldNum K sq; c.point = c.orig1.sub c.orig2) :
    letI := fieldNum K sq
    s.projectOriginAndReduce = some (s', p) → s'.dim ≤ 1 →
    ((s'.result false).1.sub (s'.result false).2 = p) ∧
    ((s'.dim = 0 ∧ (s'.result false).1 = s'.v0.orig1 ∧ (s'.result false).2 = s'.v0.orig2) ∨
     (s'.dim = 1 ∧ (s'.result false).1 = (s'.v0.orig1.smul s'.p0).add (s'.v1.orig1.smul s'.p1) ∧
        (s'.result false).2 = (s'.v0.orig2.smul s'.p0).add (s'.v1.orig2.smul s'.p1))) := by
  letI := fieldNum K sq
  intro h hd
  rcases reduce2_kept sq s s' p hok h with ⟨d, hp0, e, l0⟩ | ⟨d, h0, h1, hs, e, l0, l1⟩ | ⟨d, _, _⟩
  · have c0 := hc _ l0
    have r1 : (s'.result false).1 = s'.v0.orig1 := by
      simp only [Vs2.result, Vs2.result.go, d, Vs2.get, Vs2.getProj, hp0]
      apply C05.v2_ext <;> simp [Vs2.result.go, Vs2.get, Vs2.getProj, V2.add, V2.smul, V2.zero]
    have r2 : (s'.result false).2 = s'.v0.orig2 := by
      simp only [Vs2.result, Vs2.result.go, d, Vs2.get, Vs2.getProj, hp0]
      apply C05.v2_ext <;> simp [Vs2.result.go, Vs2.get, Vs2.getProj, V2.add, V2.smul, V2.zero]
    exact ⟨by rw [r1, r2, e, c0], Or.inl ⟨d, r1, r2⟩⟩
  · have c0 := hc _ l0
    have c1 := hc _ l1
    have r1 : (s'.result false).1 = (s'.v0.orig1.smul s'.p0).add (s'.v1.orig1.smul s'.p1) := by
      simp only [Vs2.result, Vs2.result.go, d, Vs2.get, Vs2.getProj]
      apply C05.v2_ext <;> simp [Vs2.result.go, Vs2.get, Vs2.getProj, V2.add, V2.smul, V2.zero]
    have r2 : (s'.result false).2 = (s'.v0.orig2.smul s'.p0).add (s'.v1.orig2.smul s'.p1) := by
      simp only [Vs2.result, Vs2.result.go, d, Vs2.get, Vs2.getProj]
      apply C05.v2_ext <;> simp [Vs2.result.go, Vs2.get, Vs2.getProj, V2.add, V2.smul, V2.zero]
    refine ⟨?_, Or.inr ⟨d, r1, r2⟩⟩
    rw [r1, r2, e, c0, c1]
    apply C05.v2_ext <;> simp only [V2.add, V2.smul, V2.sub] <;> ring
  · omega


/-- **barycentric reconstruction (3-D, simplex of dimension ≤ 2 before the reduction)**: `result(simplex, false)` is the convex
combination `Σ proj[i]·orig1[i]`, `Σ proj[i]·orig2[i]` with the weights of `reduce3_kept_partial`, and `w1 - w2 = p`. -/
theorem result3_gap_partial (s s' : Vs3 K) (p : V3 K) (hok : Vs3Ok s) (hd : s.dim ≤ 2)
    (hc : ∀ c, Live3 s c → letI := fieldNum K sq; c.point = c.orig1.sub c.orig2) :
    letI := fieldNum K sq
    s.projectOriginAndReduce = some (s', p) → (s'.result false).1.sub (s'.result false).2 = p := by
  letI := fieldNum K sq
  intro h
  rcases reduce3_kept_partial sq s s' p hok hd h with ⟨d, hp0, e, l0⟩ | ⟨d, h0, h1, hs, e, l0, l1⟩ | ⟨d, hd2, h0, h1, h2, hs, e, e0, e1, e2⟩
  · have c0 := hc _ l0
    rw [e, c0]
    simp only [Vs3.result, Vs3.result.go, d, Vs3.get, Vs3.getProj, hp0]
    apply C05.v3_ext <;> simp [Vs3.result.go, Vs3.get, Vs3.getProj, V3.add, V3.smul, V3.sub, V3.zero]
  · have c0 := hc _ l0
    have c1 := hc _ l1
    rw [e, c0, c1]
    simp only [Vs3.result, Vs3.result.go, d, Vs3.get, Vs3.getProj]
    apply C05.v3_ext <;> simp [Vs3.result.go, Vs3.get, Vs3.getProj, V3.add, V3.smul, V3.sub, V3.zero] <;> ring
  ·
    have c0 := hc s'.v0 (by rw [e0]; exact Or.inl rfl)
    have c1 := hc s'.v1 (by rw [e1]; exact Or.inr (Or.inl ⟨by omega, rfl⟩))
    have c2 := hc s'.v2 (by rw [e2]; exact Or.inr (Or.inr ⟨by omega, rfl⟩))
    rw [e, c0, c1, c2]
    simp only [Vs3.result, Vs3.result.go, d, Vs3.get, Vs3.getProj]
    apply C05.v3_ext <;> simp [Vs3.result.go, Vs3.get, Vs3.getProj, V3.add, V3.smul, V3.sub, V3.zero] <;> ring


/-! ## the witnesses belong to their own shapes -/

/-- convexity of a planar set, as the property needs it -/
def Convex2 (A : V2 K → Prop) : Prop :=
  letI := fieldNum K sq
  ∀ a b t, A a → A b → 0 ≤ t → t ≤ 1 → A ((a.smul (1 - t)).add (b.smul t))

/-- **each witness belongs to its own shape (2-D)**: if shape 1 and (posed) shape 2 are convex and every live CSO vertex was built
from a point of shape 1 (`orig1`) and a point of shape 2 (`orig2`) — what `CSOPoint::from_shapes` does with support points —
then the witnesses reconstructed by `gjk::result` after a reduction that kept a vertex or an edge lie in shape 1 resp. shape 2. -/
theorem result2_witness_mem (A B : V2 K → Prop) (hA : Convex2 sq A) (hB : Convex2 sq B) (s s' : Vs2 K) (p : V2 K) (hok : Vs2Ok s)
    (hc : ∀ c, Live2 s c → letI := fieldNum K sq; c.point = c.orig1.sub c.orig2)
    (h1 : ∀ c, Live2 s c → A c.orig1) (h2 : ∀ c, Live2 s c → B c.orig2) :
    letI := fieldNum K sq
    s.projectOriginAndReduce = some (s', p) → s'.dim ≤ 1 → A (s'.result false).1 ∧ B (s'.result false).2 := by
  letI := fieldNum K sq
  intro h hd
  obtain ⟨_, hr⟩ := result2_gap sq s s' p hok hc h hd
  rcases reduce2_kept sq s s' p hok h with ⟨d, _, _, l0⟩ | ⟨d, w0, w1, hs, _, l0, l1⟩ | ⟨d, _, _⟩
  · rcases hr with ⟨_, r1, r2⟩ | ⟨d1, _⟩
    · rw [r1, r2]; exact ⟨h1 _ l0, h2 _ l0⟩
    · omega
  · rcases hr with ⟨d0, _⟩ | ⟨_, r1, r2⟩
    · omega
    · have e0 : s'.p0 = 1 - s'.p1 := by linarith
      rw [r1, r2, e0]
      exact ⟨hA _ _ _ (h1 _ l0) (h1 _ l1) w1 (by linarith), hB _ _ _ (h2 _ l0) (h2 _ l1) w1 (by linarith)⟩
  · omega

/-- a disc is convex in this sense (non-vacuity of `Convex2`) -/
example : Convex2 (K := ℚ) (fun x => x) (fun a => a.x * a.x + a.y * a.y ≤ 4) := by
  intro a b t ha hb h0 h1
  simp only [V2.add, V2.smul] at *
  nlinarith [mul_nonneg h0 (sub_nonneg.mpr h1), sq_nonneg (a.x - b.x), sq_nonneg (a.y - b.y), mul_nonneg h0 h0,
    mul_nonneg (sub_nonneg.mpr h1) (sub_nonneg.mpr h1), sq_nonneg (a.x * b.y - a.y * b.x), sq_nonneg (a.x + b.x), sq_nonneg (a.y + b.y)]

/-! ## the bounds `gjk::closest_points` exits on -/

/-- **lower bound (3-D)**: if `dir` is a unit vector and no point `c` of the configuration-space obstacle `C` goes further than
`-min_bound` along `dir` (that is what the support point `from_shapes(dir)` certifies: `min_bound = -dir·support`), then every
point of `C` is at least `min_bound` away from the origin. Squared form (`min_bound ≥ 0`). -/
theorem gjk_lower_bound3 (C : V3 K → Prop) (dir : V3 K) (minBound : K)
    (hunit : dir.x * dir.x + dir.y * dir.y + dir.z * dir.z = 1) (hmb : 0 ≤ minBound)
    (hsup : ∀ c, C c → dir.x * c.x + dir.y * c.y + dir.z * c.z ≤ -minBound) :
    ∀ c, C c → minBound * minBound ≤ c.x * c.x + c.y * c.y + c.z * c.z := by
  intro c hcC
  have h := hsup c hcC
  have cs : (dir.x * c.x + dir.y * c.y + dir.z * c.z) ^ 2 ≤
      (dir.x * dir.x + dir.y * dir.y + dir.z * dir.z) * (c.x * c.x + c.y * c.y + c.z * c.z) := by
    nlinarith [sq_nonneg (dir.x * c.y - dir.y * c.x), sq_nonneg (dir.x * c.z - dir.z * c.x), sq_nonneg (dir.y * c.z - dir.z * c.y)]
  rw [hunit, one_mul] at cs
  nlinarith

/-- **lower bound (2-D)** -/
theorem gjk_lower_bound2 (C : V2 K → Prop) (dir : V2 K) (minBound : K)
    (hunit : dir.x * dir.x + dir.y * dir.y = 1) (hmb : 0 ≤ minBound)
    (hsup : ∀ c, C c → dir.x * c.x + dir.y * c.y ≤ -minBound) :
    ∀ c, C c → minBound * minBound ≤ c.x * c.x + c.y * c.y := by
  intro c hcC
  have h := hsup c hcC
  have cs : (dir.x * c.x + dir.y * c.y) ^ 2 ≤ (dir.x * dir.x + dir.y * dir.y) * (c.x * c.x + c.y * c.y) := by
    nlinarith [sq_nonneg (dir.x * c.y - dir.y * c.x)]
  rw [hunit, one_mul] at cs
  nlinarith

/-- **the precision test is a relative certificate**: with `max_bound = |proj|` an upper bound of the true distance `δ`
(`proj` is a point of the obstacle) and `min_bound ≤ δ` a lower bound, the exit test `max_bound - min_bound ≤ ε_rel·max_bound`
gives `max_bound - δ ≤ ε_rel·max_bound`: the reported gap exceeds the true separation by at most the factor `ε_rel = √(10ε)`. -/
theorem gjk_precision_slack (maxBound minBound delta epsRel : K)
    (hlo : minBound ≤ delta) (hhi : delta ≤ maxBound) (htest : maxBound - minBound ≤ epsRel * maxBound) :
    0 ≤ maxBound - delta ∧ maxBound - delta ≤ epsRel * maxBound := ⟨by linarith, by linarith⟩

/-! ## exits of the loop body of `gjk::closest_points` (3-D model `gjkBody3`, 2-D model `gjkBody2`) -/

/-- `Unit::try_new_and_get` returns a unit vector, the norm, and `v = norm · dir` -/
theorem tryNewAndGet3_spec (hs : LawfulSqrt sq) (v d : V3 K) (m n : K) :
    letI := fieldNum K sq
    tryNewAndGet3 v m = some (d, n) →
    d.x * d.x + d.y * d.y + d.z * d.z = 1 ∧ 0 < n ∧ n * n = v.x * v.x + v.y * v.y + v.z * v.z ∧
    v.x = d.x * n ∧ v.y = d.y * n ∧ v.z = d.z * n := by
  letI := fieldNum K sq
  intro h
  simp only [tryNewAndGet3] at h
  split_ifs at h with hlt
  simp only [Option.some.injEq, Prod.mk.injEq] at h
  obtain ⟨rfl, rfl⟩ := h
  have enq : v.normSq = v.x * v.x + v.y * v.y + v.z * v.z := rfl
  rw [enq] at hlt ⊢
  have hpos : 0 < v.x * v.x + v.y * v.y + v.z * v.z := lt_of_le_of_lt (mul_self_nonneg m) hlt
  have hn := hs.sq_mul _ hpos.le
  have hn0 := hs.nonneg _ hpos.le
  have hne : sq (v.x * v.x + v.y * v.y + v.z * v.z) ≠ 0 := by
    intro e; rw [e] at hn; linarith
  have hnpos : 0 < sq (v.x * v.x + v.y * v.y + v.z * v.z) := lt_of_le_of_ne hn0 (Ne.symm hne)
  refine ⟨?_, hnpos, hn, ?_, ?_, ?_⟩
  · simp only [V3.sdiv]
    have : @Num.sqrt K (fieldNum K sq) (v.x * v.x + v.y * v.y + v.z * v.z) = sq (v.x * v.x + v.y * v.y + v.z * v.z) := rfl
    rw [this]
    generalize sq (v.x * v.x + v.y * v.y + v.z * v.z) = N at hn hne
    have key : v.x / N * (v.x / N) + v.y / N * (v.y / N) + v.z / N * (v.z / N) =
        (v.x * v.x + v.y * v.y + v.z * v.z) / (N * N) := by field_simp
    rw [key, hn, div_self (ne_of_gt hpos)]
  · simp only [V3.sdiv]; exact (div_mul_cancel₀ _ hne).symm
  · simp only [V3.sdiv]; exact (div_mul_cancel₀ _ hne).symm
  · simp only [V3.sdiv]; exact (div_mul_cancel₀ _ hne).symm

/-- the support contract of `CSOPoint::from_shapes` with respect to an obstacle `C` (the set `A ⊖ pos12·B`): the returned
point maximises the dot product with the direction over `C` (C10 proves it for the modelled support maps). -/
def SupportsCSO3 (C : V3 K → Prop) (fs : V3 K → CSO3 K) : Prop :=
  ∀ dir c, C c → dir.x * c.x + dir.y * c.y + dir.z * c.z ≤
    dir.x * (fs dir).point.x + dir.y * (fs dir).point.y + dir.z * (fs dir).point.z

/-- **exit `NoIntersection(dir)` is sound** (3-D loop body): when the body leaves with `NoIntersection`, every point of the
obstacle is farther than `max_dist` from the origin, i.e. the two shapes are more than `max_dist` apart. -/
theorem gjkBody3_noIntersection_sound (hs : LawfulSqrt sq) (C : V3 K → Prop) (fs : V3 K → CSO3 K) (hsup : SupportsCSO3 C fs)
    (md : K) (hmd : 0 ≤ md) (exact : Bool) (s s' : Vs3 K) (proj oldDir d : V3 K) (maxBound : Option K) :
    letI := fieldNum K sq
    gjkBody3 fs (some md) exact s proj oldDir maxBound = .exit (.noIntersection d) s' →
    ∀ c, C c → md * md < c.x * c.x + c.y * c.y + c.z * c.z := by
  letI := fieldNum K sq
  intro h c hcC
  unfold gjkBody3 at h
  rcases ht : tryNewAndGet3 proj.neg epsTol with _ | ⟨dir, mb⟩
  · rw [ht] at h; simp at h
  · rw [ht] at h
    obtain ⟨hunit, _, _, _⟩ := tryNewAndGet3_spec sq hs proj.neg dir epsTol mb ht
    dsimp only at h
    split_ifs at h with h1 h2 h3 h4 h5
    all_goals first
      | (simp only [GjkStep3.exit.injEq, GjkRes3.noIntersection.injEq, reduceCtorEq, false_and, and_false] at h; done)
      | skip
    all_goals first
      | (simp only [GjkStep3.exit.injEq, GjkRes3.noIntersection.injEq] at h
         obtain ⟨hd, _⟩ := h
         subst hd
         have hdec : optLt (some md) (-dir.dot (fs dir).point) = true := by assumption
         have hlt : md < -(dir.dot (fs dir).point) := by simpa [optLt] using hdec
         have hb := gjk_lower_bound3 C dir (-(dir.dot (fs dir).point)) hunit (by linarith)
           (fun c hc => by have := hsup dir c hc; simp only [V3.dot]; linarith) c hcC
         nlinarith)
      | (split at h <;> (try split at h) <;> (try split_ifs at h) <;> simp at h)

/-- **which exits return `ClosestPoints`, and with what** (3-D loop body, `exact_dist = true`): exactly the four return sites of
the Rust loop — (a) "upper bounds inconsistencies" (previous iterate, previous direction), (b) the precision test
`max_bound - min_bound ≤ ε_rel·max_bound` (current simplex, untouched), (c) `add_point` refused the support point,
(d) the simplex became a tetrahedron while `min_bound ≥ ε_tol` (previous iterate). -/
theorem gjkBody3_closest_cases {K : Type} [Num K] (fs : V3 K → CSO3 K) (maxDist : Option K) (s s' : Vs3 K)
    (proj oldDir p1 p2 d : V3 K) (maxBound : Option K) :
    gjkBody3 fs maxDist true s proj oldDir maxBound = .exit (.closest p1 p2 d) s' →
    ∃ dir mb, tryNewAndGet3 proj.neg epsTol = some (dir, mb) ∧
      ((d = oldDir ∧ p1 = (s.result true).1 ∧ p2 = (s.result true).2 ∧ s' = s ∧ ∃ old, maxBound = some old ∧ old ≤ mb) ∨
       (d = dir ∧ p1 = (s.result false).1 ∧ p2 = (s.result false).2 ∧ s' = s ∧
          mb - (-(dir.dot (fs dir).point)) ≤ Num.sqrt epsTol * mb) ∨
       (d = dir ∧ ∃ s1, s.addPoint (fs dir) = some (s1, false) ∧ p1 = (s1.result false).1 ∧ p2 = (s1.result false).2 ∧ s' = s1) ∨
       (d = dir ∧ ∃ s1 s2 pr, s.addPoint (fs dir) = some (s1, true) ∧ s1.projectOriginAndReduce = some (s2, pr) ∧ s2.dim = 3 ∧
          epsTol ≤ -(dir.dot (fs dir).point) ∧ p1 = (s2.result true).1 ∧ p2 = (s2.result true).2 ∧ s' = s2)) := by
  intro h
  unfold gjkBody3 at h
  rcases ht : tryNewAndGet3 proj.neg epsTol with _ | ⟨dir, mb⟩
  · rw [ht] at h; simp at h
  · rw [ht] at h
    refine ⟨dir, mb, rfl, ?_⟩
    dsimp only at h
    by_cases c1 : optLe maxBound mb = true
    · rw [if_pos c1] at h
      simp only [↓reduceIte, GjkStep3.exit.injEq, GjkRes3.closest.injEq] at h
      obtain ⟨⟨e1, e2, e3⟩, e4⟩ := h
      refine Or.inl ⟨e3.symm, e1.symm, e2.symm, e4.symm, ?_⟩
      cases maxBound with
      | none => simp [optLe] at c1
      | some old => exact ⟨old, rfl, by simpa [optLe] using c1⟩
    · rw [if_neg c1] at h
      by_cases c2 : (!isFinite (-dir.dot (fs dir).point)) = true
      · rw [if_pos c2] at h; simp at h
      · rw [if_neg c2] at h
        by_cases c3 : optLt maxDist (-dir.dot (fs dir).point) = true
        · rw [if_pos c3] at h; simp at h
        · rw [if_neg c3] at h
          simp only [Bool.not_true, Bool.false_and, Bool.false_eq_true, ↓reduceIte] at h
          by_cases c4 : mb - -dir.dot (fs dir).point ≤ Num.sqrt epsTol * mb
          · rw [if_pos c4] at h
            simp only [GjkStep3.exit.injEq, GjkRes3.closest.injEq] at h
            obtain ⟨⟨e1, e2, e3⟩, e4⟩ := h
            exact Or.inr (Or.inl ⟨e3.symm, e1.symm, e2.symm, e4.symm, c4⟩)
          · rw [if_neg c4] at h
            rcases ha : s.addPoint (fs dir) with _ | ⟨s1, b⟩
            · rw [ha] at h; simp at h
            · rw [ha] at h
              cases b with
              | false =>
                simp only [↓reduceIte, GjkStep3.exit.injEq, GjkRes3.closest.injEq] at h
                obtain ⟨⟨e1, e2, e3⟩, e4⟩ := h
                exact Or.inr (Or.inr (Or.inl ⟨e3.symm, s1, rfl, e1.symm, e2.symm, e4.symm⟩))
              | true =>
                dsimp only at h
                rcases hp : s1.projectOriginAndReduce with _ | ⟨s2, pr⟩
                · rw [hp] at h; simp at h
                · rw [hp] at h
                  dsimp only at h
                  by_cases c5 : s2.dim = 3
                  · rw [if_pos c5] at h
                    by_cases c6 : epsTol ≤ -dir.dot (fs dir).point
                    · rw [if_pos c6] at h
                      simp only [↓reduceIte, GjkStep3.exit.injEq, GjkRes3.closest.injEq] at h
                      obtain ⟨⟨e1, e2, e3⟩, e4⟩ := h
                      exact Or.inr (Or.inr (Or.inr ⟨e3.symm, s1, s2, pr, rfl, hp, c5, c6, e1.symm, e2.symm, e4.symm⟩))
                    · rw [if_neg c6] at h; simp at h
                  · rw [if_neg c5] at h; simp at h

/-- **certificate of the precision exit** (3-D): with `dir = -proj/|proj|`, `max_bound = |proj|` and the support contract, the
test `max_bound - min_bound ≤ ε_rel·max_bound` (`0 ≤ ε_rel ≤ 1`) implies that every point of the obstacle is at least
`(1 - ε_rel)·max_bound` from the origin, while `proj` (a point of the obstacle when the simplex vertices are) is exactly
`max_bound` away: the reported gap `|w1 - w2| = |proj|` overestimates the true separation by at most the factor `ε_rel`. -/
theorem gjk_precise_certificate3 (hs : LawfulSqrt sq) (C : V3 K → Prop) (fs : V3 K → CSO3 K) (hsup : SupportsCSO3 C fs)
    (proj dir : V3 K) (mb epsRel : K) (h0 : 0 ≤ epsRel) (h1 : epsRel ≤ 1) :
    letI := fieldNum K sq
    tryNewAndGet3 proj.neg epsTol = some (dir, mb) →
    mb - (-(dir.dot (fs dir).point)) ≤ epsRel * mb →
    mb * mb = proj.x * proj.x + proj.y * proj.y + proj.z * proj.z ∧
    ∀ c, C c → ((1 - epsRel) * mb) * ((1 - epsRel) * mb) ≤ c.x * c.x + c.y * c.y + c.z * c.z := by
  letI := fieldNum K sq
  intro ht htest
  obtain ⟨hunit, hmb, hnn, _⟩ := tryNewAndGet3_spec sq hs proj.neg dir epsTol mb ht
  refine ⟨by rw [hnn]; simp only [V3.neg]; ring, ?_⟩
  have hlow : (1 - epsRel) * mb ≤ -(dir.dot (fs dir).point) := by linarith
  exact gjk_lower_bound3 C dir ((1 - epsRel) * mb) hunit (mul_nonneg (by linarith) hmb.le)
    (fun c hc => by have := hsup dir c hc; simp only [V3.dot] at hlow; linarith)

/-! ### the same in 2-D -/

/-- `Unit::try_new_and_get` (2-D) returns a unit vector, the norm, and `v = norm · dir` -/
theorem tryNewAndGet2_spec (hs : LawfulSqrt sq) (v d : V2 K) (m n : K) :
    letI := fieldNum K sq
    tryNewAndGet2 v m = some (d, n) →
    d.x * d.x + d.y * d.y = 1 ∧ 0 < n ∧ n * n = v.x * v.x + v.y * v.y ∧
    v.x = d.x * n ∧ v.y = d.y * n := by
  letI := fieldNum K sq
  intro h
  simp only [tryNewAndGet2] at h
  split_ifs at h with hlt
  simp only [Option.some.injEq, Prod.mk.injEq] at h
  obtain ⟨rfl, rfl⟩ := h
  have enq : v.normSq = v.x * v.x + v.y * v.y := rfl
  rw [enq] at hlt ⊢
  have hpos : 0 < v.x * v.x + v.y * v.y := lt_of_le_of_lt (mul_self_nonneg m) hlt
  have hn := hs.sq_mul _ hpos.le
  have hn0 := hs.nonneg _ hpos.le
  have hne : sq (v.x * v.x + v.y * v.y) ≠ 0 := by
    intro e; rw [e] at hn; linarith
  have hnpos : 0 < sq (v.x * v.x + v.y * v.y) := lt_of_le_of_ne hn0 (Ne.symm hne)
  refine ⟨?_, hnpos, hn, ?_, ?_⟩
  · simp only [V2.sdiv]
    have : @Num.sqrt K (fieldNum K sq) (v.x * v.x + v.y * v.y) = sq (v.x * v.x + v.y * v.y) := rfl
    rw [this]
    generalize sq (v.x * v.x + v.y * v.y) = N at hn hne
    have key : v.x / N * (v.x / N) + v.y / N * (v.y / N) =
        (v.x * v.x + v.y * v.y) / (N * N) := by field_simp
    rw [key, hn, div_self (ne_of_gt hpos)]
  · simp only [V2.sdiv]; exact (div_mul_cancel₀ _ hne).symm
  · simp only [V2.sdiv]; exact (div_mul_cancel₀ _ hne).symm

/-- the support contract of `CSOPoint::from_shapes` with respect to an obstacle `C` (the set `A ⊖ pos12·B`): the returned
point maximises the dot product with the direction over `C` (C10 proves it for the modelled support maps). -/
def SupportsCSO2 (C : V2 K → Prop) (fs : V2 K → CSO2 K) : Prop :=
  ∀ dir c, C c → dir.x * c.x + dir.y * c.y ≤
    dir.x * (fs dir).point.x + dir.y * (fs dir).point.y

/-- **exit `NoIntersection(dir)` is sound** (2-D loop body): when the body leaves with `NoIntersection`, every point of the
obstacle is farther than `max_dist` from the origin, i.e. the two shapes are more than `max_dist` apart. -/
theorem gjkBody2_noIntersection_sound (hs : LawfulSqrt sq) (C : V2 K → Prop) (fs : V2 K → CSO2 K) (hsup : SupportsCSO2 C fs)
    (md : K) (hmd : 0 ≤ md) (exact : Bool) (s s' : Vs2 K) (proj oldDir d : V2 K) (maxBound : Option K) :
    letI := fieldNum K sq
    gjkBody2 fs (some md) exact s proj oldDir maxBound = .exit (.noIntersection d) s' →
    ∀ c, C c → md * md < c.x * c.x + c.y * c.y := by
  letI := fieldNum K sq
  intro h c hcC
  unfold gjkBody2 at h
  rcases ht : tryNewAndGet2 proj.neg epsTol with _ | ⟨dir, mb⟩
  · rw [ht] at h; simp at h
  · rw [ht] at h
    obtain ⟨hunit, _, _, _⟩ := tryNewAndGet2_spec sq hs proj.neg dir epsTol mb ht
    dsimp only at h
    split_ifs at h with h1 h2 h3 h4 h5
    all_goals first
      | (simp only [GjkStep2.exit.injEq, GjkRes2.noIntersection.injEq, reduceCtorEq, false_and, and_false] at h; done)
      | skip
    all_goals first
      | (simp only [GjkStep2.exit.injEq, GjkRes2.noIntersection.injEq] at h
         obtain ⟨hd, _⟩ := h
         subst hd
         have hdec : optLt (some md) (-dir.dot (fs dir).point) = true := by assumption
         have hlt : md < -(dir.dot (fs dir).point) := by simpa [optLt] using hdec
         have hb := gjk_lower_bound2 C dir (-(dir.dot (fs dir).point)) hunit (by linarith)
           (fun c hc => by have := hsup dir c hc; simp only [V2.dot]; linarith) c hcC
         nlinarith)
      | (split at h <;> (try split at h) <;> (try split_ifs at h) <;> simp at h)

/-- **which exits return `ClosestPoints`, and with what** (2-D loop body, `exact_dist = true`): exactly the four return sites of
the Rust loop — (a) "upper bounds inconsistencies" (previous iterate, previous direction), (b) the precision test
`max_bound - min_bound ≤ ε_rel·max_bound` (current simplex, untouched), (c) `add_point` refused the support point,
(d) the simplex became a triangle while `min_bound ≥ ε_tol` (previous iterate). -/
theorem gjkBody2_closest_cases {K : Type} [Num K] (fs : V2 K → CSO2 K) (maxDist : Option K) (s s' : Vs2 K)
    (proj oldDir p1 p2 d : V2 K) (maxBound : Option K) :
    gjkBody2 fs maxDist true s proj oldDir maxBound = .exit (.closest p1 p2 d) s' →
    ∃ dir mb, tryNewAndGet2 proj.neg epsTol = some (dir, mb) ∧
      ((d = oldDir ∧ p1 = (s.result true).1 ∧ p2 = (s.result true).2 ∧ s' = s ∧ ∃ old, maxBound = some old ∧ old ≤ mb) ∨
       (d = dir ∧ p1 = (s.result false).1 ∧ p2 = (s.result false).2 ∧ s' = s ∧
          mb - (-(dir.dot (fs dir).point)) ≤ Num.sqrt epsTol * mb) ∨
       (d = dir ∧ ∃ s1, s.addPoint (fs dir) = some (s1, false) ∧ p1 = (s1.result false).1 ∧ p2 = (s1.result false).2 ∧ s' = s1) ∨
       (d = dir ∧ ∃ s1 s2 pr, s.addPoint (fs dir) = some (s1, true) ∧ s1.projectOriginAndReduce = some (s2, pr) ∧ s2.dim = 2 ∧
          epsTol ≤ -(dir.dot (fs dir).point) ∧ p1 = (s2.result true).1 ∧ p2 = (s2.result true).2 ∧ s' = s2)) := by
  intro h
  unfold gjkBody2 at h
  rcases ht : tryNewAndGet2 proj.neg epsTol with _ | ⟨dir, mb⟩
  · rw [ht] at h; simp at h
  · rw [ht] at h
    refine ⟨dir, mb, rfl, ?_⟩
    dsimp only at h
    by_cases c1 : optLe maxBound mb = true
    · rw [if_pos c1] at h
      simp only [↓reduceIte, GjkStep2.exit.injEq, GjkRes2.closest.injEq] at h
      obtain ⟨⟨e1, e2, e3⟩, e4⟩ := h
      refine Or.inl ⟨e3.symm, e1.symm, e2.symm, e4.symm, ?_⟩
      cases maxBound with
      | none => simp [optLe] at c1
      | some old => exact ⟨old, rfl, by simpa [optLe] using c1⟩
    · rw [if_neg c1] at h
      by_cases c2 : (!isFinite (-dir.dot (fs dir).point)) = true
      · rw [if_pos c2] at h; simp at h
      · rw [if_neg c2] at h
        by_cases c3 : optLt maxDist (-dir.dot (fs dir).point) = true
        · rw [if_pos c3] at h; simp at h
        · rw [if_neg c3] at h
          simp only [Bool.not_true, Bool.false_and, Bool.false_eq_true, ↓reduceIte] at h
          by_cases c4 : mb - -dir.dot (fs dir).point ≤ Num.sqrt epsTol * mb
          · rw [if_pos c4] at h
            simp only [GjkStep2.exit.injEq, GjkRes2.closest.injEq] at h
            obtain ⟨⟨e1, e2, e3⟩, e4⟩ := h
            exact Or.inr (Or.inl ⟨e3.symm, e1.symm, e2.symm, e4.symm, c4⟩)
          · rw [if_neg c4] at h
            rcases ha : s.addPoint (fs dir) with _ | ⟨s1, b⟩
            · rw [ha] at h; simp at h
            · rw [ha] at h
              cases b with
              | false =>
                simp only [↓reduceIte, GjkStep2.exit.injEq, GjkRes2.closest.injEq] at h
                obtain ⟨⟨e1, e2, e3⟩, e4⟩ := h
                exact Or.inr (Or.inr (Or.inl ⟨e3.symm, s1, rfl, e1.symm, e2.symm, e4.symm⟩))
              | true =>
                dsimp only at h
                rcases hp : s1.projectOriginAndReduce with _ | ⟨s2, pr⟩
                · rw [hp] at h; simp at h
                · rw [hp] at h
                  dsimp only at h
                  by_cases c5 : s2.dim = 2
                  · rw [if_pos c5] at h
                    by_cases c6 : epsTol ≤ -dir.dot (fs dir).point
                    · rw [if_pos c6] at h
                      simp only [↓reduceIte, GjkStep2.exit.injEq, GjkRes2.closest.injEq] at h
                      obtain ⟨⟨e1, e2, e3⟩, e4⟩ := h
                      exact Or.inr (Or.inr (Or.inr ⟨e3.symm, s1, s2, pr, rfl, hp, c5, c6, e1.symm, e2.symm, e4.symm⟩))
                    · rw [if_neg c6] at h; simp at h
                  · rw [if_neg c5] at h; simp at h

/-- **certificate of the precision exit** (2-D): with `dir = -proj/|proj|`, `max_bound = |proj|` and the support contract, the
test `max_bound - min_bound ≤ ε_rel·max_bound` (`0 ≤ ε_rel ≤ 1`) implies that every point of the obstacle is at least
`(1 - ε_rel)·max_bound` from the origin, while `proj` (a point of the obstacle when the simplex vertices are) is exactly
`max_bound` away: the reported gap `|w1 - w2| = |proj|` overestimates the true separation by at most the factor `ε_rel`. -/
theorem gjk_precise_certificate2 (hs : LawfulSqrt sq) (C : V2 K → Prop) (fs : V2 K → CSO2 K) (hsup : SupportsCSO2 C fs)
    (proj dir : V2 K) (mb epsRel : K) (h0 : 0 ≤ epsRel) (h1 : epsRel ≤ 1) :
    letI := fieldNum K sq
    tryNewAndGet2 proj.neg epsTol = some (dir, mb) →
    mb - (-(dir.dot (fs dir).point)) ≤ epsRel * mb →
    mb * mb = proj.x * proj.x + proj.y * proj.y ∧
    ∀ c, C c → ((1 - epsRel) * mb) * ((1 - epsRel) * mb) ≤ c.x * c.x + c.y * c.y := by
  letI := fieldNum K sq
  intro ht htest
  obtain ⟨hunit, hmb, hnn, _⟩ := tryNewAndGet2_spec sq hs proj.neg dir epsTol mb ht
  refine ⟨by rw [hnn]; simp only [V2.neg]; ring, ?_⟩
  have hlow : (1 - epsRel) * mb ≤ -(dir.dot (fs dir).point) := by linarith
  exact gjk_lower_bound2 C dir ((1 - epsRel) * mb) hunit (mul_nonneg (by linarith) hmb.le)
    (fun c hc => by have := hsup dir c hc; simp only [V2.dot] at hlow; linarith)



/-- **every result of the 3-D loop is a loop-body exit, or the documented iteration-cap fallback** `NoIntersection(x_axis)`
(`niter == 100`: "GJK did not converge"). Hence the exit theorems above (`gjkBody3_noIntersection_sound`,
`gjkBody3_closest_cases`, `gjk_precise_certificate3`) apply to whatever `gjk::closest_points` returns, for the state of the
iteration in which it returned. -/
theorem gjkLoop3_cases {K : Type} [Num K] (fs : V3 K → CSO3 K) (maxDist : Option K) (exact : Bool) (fuel : Nat) :
    ∀ (s : Vs3 K) (proj oldDir : V3 K) (maxBound : Option K) (r : GjkRes3 K) (s' : Vs3 K),
    gjkLoop3 fs maxDist exact fuel s proj oldDir maxBound = (r, s') →
    r = .noIntersection ⟨1, 0, 0⟩ ∨
    ∃ s0 p0 o0 m0, gjkBody3 fs maxDist exact s0 p0 o0 m0 = .exit r s' := by
  induction fuel with
  | zero =>
    intro s proj oldDir maxBound r s' h
    simp only [gjkLoop3, Prod.mk.injEq] at h
    exact Or.inl h.1.symm
  | succ n ih =>
    intro s proj oldDir maxBound r s' h
    simp only [gjkLoop3] at h
    rcases hb : gjkBody3 fs maxDist exact s proj oldDir maxBound with ⟨r0, s0⟩ | ⟨s1, p1, o1, m1⟩
    · rw [hb] at h
      simp only [Prod.mk.injEq] at h
      exact Or.inr ⟨s, proj, oldDir, maxBound, by rw [hb, h.1, h.2]⟩
    · rw [hb] at h
      exact ih s1 p1 o1 (some m1) r s' h

/-- `gjk::closest_points` (3-D): besides the loop results there is only the early `Intersection` (the first projection is the
origin itself) and the panic of the first reduction. -/
theorem gjkClosestPoints3_cases {K : Type} [Num K] (fs : V3 K → CSO3 K) (maxDist : Option K) (exact : Bool)
    (s s' : Vs3 K) (r : GjkRes3 K) :
    gjkClosestPoints3 fs maxDist exact s = (r, s') →
    r = .panic ∨ r = .intersection ∨ r = .noIntersection ⟨1, 0, 0⟩ ∨
    ∃ s0 p0 o0 m0, gjkBody3 fs maxDist exact s0 p0 o0 m0 = .exit r s' := by
  intro h
  unfold gjkClosestPoints3 at h
  rcases hp : s.projectOriginAndReduce with _ | ⟨s1, pr⟩
  · rw [hp] at h; simp only [Prod.mk.injEq] at h; exact Or.inl h.1.symm
  · rw [hp] at h
    dsimp only at h
    rcases ht : C10.tryNew3 pr 0 with _ | d
    · rw [ht] at h; simp only [Prod.mk.injEq] at h; exact Or.inr (Or.inl h.1.symm)
    · rw [ht] at h
      exact Or.inr (Or.inr (gjkLoop3_cases fs maxDist exact 100 s1 pr d.neg none r s' h))

/-- **every result of the 2-D loop is a loop-body exit, or the documented iteration-cap fallback** `NoIntersection(x_axis)`
(`niter == 100`: "GJK did not converge"). Hence the exit theorems above (`gjkBody2_noIntersection_sound`,
`gjkBody2_closest_cases`, `gjk_precise_certificate2`) apply to whatever `gjk::closest_points` returns, for the state of the
iteration in which it returned. -/
theorem gjkLoop2_cases {K : Type} [Num K] (fs : V2 K → CSO2 K) (maxDist : Option K) (exact : Bool) (fuel : Nat) :
    ∀ (s : Vs2 K) (proj oldDir : V2 K) (maxBound : Option K) (r : GjkRes2 K) (s' : Vs2 K),
    gjkLoop2 fs maxDist exact fuel s proj oldDir maxBound = (r, s') →
    r = .noIntersection ⟨1, 0⟩ ∨
    ∃ s0 p0 o0 m0, gjkBody2 fs maxDist exact s0 p0 o0 m0 = .exit r s' := by
  induction fuel with
  | zero =>
    intro s proj oldDir maxBound r s' h
    simp only [gjkLoop2, Prod.mk.injEq] at h
    exact Or.inl h.1.symm
  | succ n ih =>
    intro s proj oldDir maxBound r s' h
    simp only [gjkLoop2] at h
    rcases hb : gjkBody2 fs maxDist exact s proj oldDir maxBound with ⟨r0, s0⟩ | ⟨s1, p1, o1, m1⟩
    · rw [hb] at h
      simp only [Prod.mk.injEq] at h
      exact Or.inr ⟨s, proj, oldDir, maxBound, by rw [hb, h.1, h.2]⟩
    · rw [hb] at h
      exact ih s1 p1 o1 (some m1) r s' h

/-- `gjk::closest_points` (2-D): besides the loop results there is only the early `Intersection` (the first projection is the
origin itself) and the panic of the first reduction. -/
theorem gjkClosestPoints2_cases {K : Type} [Num K] (fs : V2 K → CSO2 K) (maxDist : Option K) (exact : Bool)
    (s s' : Vs2 K) (r : GjkRes2 K) :
    gjkClosestPoints2 fs maxDist exact s = (r, s') →
    r = .panic ∨ r = .intersection ∨ r = .noIntersection ⟨1, 0⟩ ∨
    ∃ s0 p0 o0 m0, gjkBody2 fs maxDist exact s0 p0 o0 m0 = .exit r s' := by
  intro h
  unfold gjkClosestPoints2 at h
  rcases hp : s.projectOriginAndReduce with _ | ⟨s1, pr⟩
  · rw [hp] at h; simp only [Prod.mk.injEq] at h; exact Or.inl h.1.symm
  · rw [hp] at h
    dsimp only at h
    rcases ht : C10.tryNew2 pr 0 with _ | d
    · rw [ht] at h; simp only [Prod.mk.injEq] at h; exact Or.inr (Or.inl h.1.symm)
    · rw [ht] at h
      exact Or.inr (Or.inr (gjkLoop2_cases fs maxDist exact 100 s1 pr d.neg none r s' h))


/-- **the `*_with_params` entry points start from a history-free simplex** (3-D): whatever simplex the caller supplies, after
the common head the live part is the single support point `from_shapes(d)` for a start direction `d` that does not depend on the
supplied simplex (normalised `init_dir` / `-translation`, or the x axis when that vector is shorter than `DEFAULT_EPSILON`). -/
theorem gjkStart3_spec {K : Type} [Num K] (fs : V3 K → CSO3 K) (t : V3 K) (init : Option (V3 K)) (s : Vs3 K) :
    (gjkStart3 fs t init s).dim = 0 ∧ (gjkStart3 fs t init s).prevDim = 0 ∧
    ∃ d, ∀ s2 : Vs3 K, (gjkStart3 fs t init s2).v0 = fs d := by
  unfold gjkStart3
  dsimp only
  rcases C10.tryNew3 (match init with | none => t.neg | some d => d) C10.eps with _ | d
  · exact ⟨rfl, rfl, ⟨1, 0, 0⟩, fun _ => rfl⟩
  · exact ⟨rfl, rfl, d, fun _ => rfl⟩

/-- **`distance` is glue around `gjk::closest_points`** (3-D, `distance_support_map_support_map_with_params`): the value is `0`
for `Intersection`, the length of the witness gap `|p1 - p2| ≥ 0` for `ClosestPoints`, and `0` for the documented
non-convergence fallback `NoIntersection`. -/
theorem distanceSmSmWithParams3_spec (hs : LawfulSqrt sq) (fs : V3 K → CSO3 K) (t : V3 K) (s s' : Vs3 K)
    (init : Option (V3 K)) (x : K) :
    letI := fieldNum K sq
    distanceSmSmWithParams3 fs t s init = (some x, s') →
    ((gjkClosestPoints3 fs none true (gjkStart3 fs t init s)).1 = .intersection ∧ x = 0) ∨
    (∃ p1 p2 d, (gjkClosestPoints3 fs none true (gjkStart3 fs t init s)).1 = .closest p1 p2 d ∧
        0 ≤ x ∧ x * x = (p1.sub p2).normSq) ∨
    (∃ d, (gjkClosestPoints3 fs none true (gjkStart3 fs t init s)).1 = .noIntersection d ∧ x = 0) := by
  letI := fieldNum K sq
  intro h
  unfold distanceSmSmWithParams3 at h
  dsimp only at h
  rcases hr : (gjkClosestPoints3 fs none true (gjkStart3 fs t init s)).1 with _ | ⟨p1, p2, d⟩ | d | d | _
  all_goals rw [hr] at h
  all_goals simp only [Prod.mk.injEq, Option.some.injEq, reduceCtorEq, false_and] at h
  · exact Or.inl ⟨rfl, h.1.symm⟩
  · refine Or.inr (Or.inl ⟨p1, p2, d, rfl, ?_, ?_⟩)
    · rw [← h.1]; exact hs.nonneg _ (by simp only [V3.normSq, V3.dot]; nlinarith [mul_self_nonneg (p1.sub p2).x, mul_self_nonneg (p1.sub p2).y, mul_self_nonneg (p1.sub p2).z])
    · rw [← h.1]; exact hs.sq_mul _ (by simp only [V3.normSq, V3.dot]; nlinarith [mul_self_nonneg (p1.sub p2).x, mul_self_nonneg (p1.sub p2).y, mul_self_nonneg (p1.sub p2).z])
  · exact Or.inr (Or.inr ⟨d, rfl, h.1.symm⟩)

/-- **the `*_with_params` entry points start from a history-free simplex** (2-D): whatever simplex the caller supplies, after
the common head the live part is the single support point `from_shapes(d)` for a start direction `d` that does not depend on the
supplied simplex (normalised `init_dir` / `-translation`, or the x axis when that vector is shorter than `DEFAULT_EPSILON`). -/
theorem gjkStart2_spec {K : Type} [Num K] (fs : V2 K → CSO2 K) (t : V2 K) (init : Option (V2 K)) (s : Vs2 K) :
    (gjkStart2 fs t init s).dim = 0 ∧ (gjkStart2 fs t init s).prevDim = 0 ∧
    ∃ d, ∀ s2 : Vs2 K, (gjkStart2 fs t init s2).v0 = fs d := by
  unfold gjkStart2
  dsimp only
  rcases C10.tryNew2 (match init with | none => t.neg | some d => d) C10.eps with _ | d
  · exact ⟨rfl, rfl, ⟨1, 0⟩, fun _ => rfl⟩
  · exact ⟨rfl, rfl, d, fun _ => rfl⟩

/-- **`distance` is glue around `gjk::closest_points`** (2-D, `distance_support_map_support_map_with_params`): the value is `0`
for `Intersection`, the length of the witness gap `|p1 - p2| ≥ 0` for `ClosestPoints`, and `0` for the documented
non-convergence fallback `NoIntersection`. -/
theorem distanceSmSmWithParams2_spec (hs : LawfulSqrt sq) (fs : V2 K → CSO2 K) (t : V2 K) (s s' : Vs2 K)
    (init : Option (V2 K)) (x : K) :
    letI := fieldNum K sq
    distanceSmSmWithParams2 fs t s init = (some x, s') →
    ((gjkClosestPoints2 fs none true (gjkStart2 fs t init s)).1 = .intersection ∧ x = 0) ∨
    (∃ p1 p2 d, (gjkClosestPoints2 fs none true (gjkStart2 fs t init s)).1 = .closest p1 p2 d ∧
        0 ≤ x ∧ x * x = (p1.sub p2).normSq) ∨
    (∃ d, (gjkClosestPoints2 fs none true (gjkStart2 fs t init s)).1 = .noIntersection d ∧ x = 0) := by
  letI := fieldNum K sq
  intro h
  unfold distanceSmSmWithParams2 at h
  dsimp only at h
  rcases hr : (gjkClosestPoints2 fs none true (gjkStart2 fs t init s)).1 with _ | ⟨p1, p2, d⟩ | d | d | _
  all_goals rw [hr] at h
  all_goals simp only [Prod.mk.injEq, Option.some.injEq, reduceCtorEq, false_and] at h
  · exact Or.inl ⟨rfl, h.1.symm⟩
  · refine Or.inr (Or.inl ⟨p1, p2, d, rfl, ?_, ?_⟩)
    · rw [← h.1]; exact hs.nonneg _ (by simp only [V2.normSq, V2.dot]; nlinarith [mul_self_nonneg (p1.sub p2).x, mul_self_nonneg (p1.sub p2).y])
    · rw [← h.1]; exact hs.sq_mul _ (by simp only [V2.normSq, V2.dot]; nlinarith [mul_self_nonneg (p1.sub p2).x, mul_self_nonneg (p1.sub p2).y])
  · exact Or.inr (Or.inr ⟨d, rfl, h.1.symm⟩)


/-- **which exits return `Intersection`** (3-D loop body): (a) the projection of the origin on the simplex is within `ε_tol` of the
origin (`try_new_and_get(-proj, ε_tol)` fails), or (b) after adding the support point the reduction kept a full simplex
(`dimension() == DIM`) while `min_bound < ε_tol`. -/
theorem gjkBody3_intersection_cases {K : Type} [Num K] (fs : V3 K → CSO3 K) (maxDist : Option K) (exact : Bool) (s s' : Vs3 K)
    (proj oldDir : V3 K) (maxBound : Option K) :
    gjkBody3 fs maxDist exact s proj oldDir maxBound = .exit .intersection s' →
    (tryNewAndGet3 proj.neg epsTol = none ∧ s' = s) ∨
    ∃ dir mb s1 pr, tryNewAndGet3 proj.neg epsTol = some (dir, mb) ∧ s.addPoint (fs dir) = some (s1, true) ∧
      s1.projectOriginAndReduce = some (s', pr) ∧ s'.dim = 3 ∧ ¬ epsTol ≤ -(dir.dot (fs dir).point) := by
  intro h
  unfold gjkBody3 at h
  rcases ht : tryNewAndGet3 proj.neg epsTol with _ | ⟨dir, mb⟩
  · rw [ht] at h
    simp only [GjkStep3.exit.injEq, true_and] at h
    exact Or.inl ⟨rfl, h.symm⟩
  · rw [ht] at h
    refine Or.inr ⟨dir, mb, ?_⟩
    dsimp only at h
    split_ifs at h with c1 c2 c3 c4 c5 c6
    all_goals try (simp only [GjkStep3.exit.injEq, reduceCtorEq, false_and] at h; done)
    all_goals
      rcases ha : s.addPoint (fs dir) with _ | ⟨s1, b⟩
      · rw [ha] at h; simp at h
      · rw [ha] at h
        cases b with
        | false => simp at h
        | true =>
          dsimp only at h
          rcases hp : s1.projectOriginAndReduce with _ | ⟨s2, pr⟩
          · rw [hp] at h; simp at h
          · rw [hp] at h
            dsimp only at h
            split_ifs at h with d1
            all_goals try (simp only [GjkStep3.exit.injEq, reduceCtorEq, false_and] at h; done)
            all_goals (simp only [GjkStep3.exit.injEq, true_and] at h; subst h; exact ⟨s1, pr, rfl, rfl, hp, d1, by assumption⟩)

/-- **which exits return `Intersection`** (2-D loop body): (a) the projection of the origin on the simplex is within `ε_tol` of the
origin (`try_new_and_get(-proj, ε_tol)` fails), or (b) after adding the support point the reduction kept a full simplex
(`dimension() == DIM`) while `min_bound < ε_tol`. -/
theorem gjkBody2_intersection_cases {K : Type} [Num K] (fs : V2 K → CSO2 K) (maxDist : Option K) (exact : Bool) (s s' : Vs2 K)
    (proj oldDir : V2 K) (maxBound : Option K) :
    gjkBody2 fs maxDist exact s proj oldDir maxBound = .exit .intersection s' →
    (tryNewAndGet2 proj.neg epsTol = none ∧ s' = s) ∨
    ∃ dir mb s1 pr, tryNewAndGet2 proj.neg epsTol = some (dir, mb) ∧ s.addPoint (fs dir) = some (s1, true) ∧
      s1.projectOriginAndReduce = some (s', pr) ∧ s'.dim = 2 ∧ ¬ epsTol ≤ -(dir.dot (fs dir).point) := by
  intro h
  unfold gjkBody2 at h
  rcases ht : tryNewAndGet2 proj.neg epsTol with _ | ⟨dir, mb⟩
  · rw [ht] at h
    simp only [GjkStep2.exit.injEq, true_and] at h
    exact Or.inl ⟨rfl, h.symm⟩
  · rw [ht] at h
    refine Or.inr ⟨dir, mb, ?_⟩
    dsimp only at h
    split_ifs at h with c1 c2 c3 c4 c5 c6
    all_goals try (simp only [GjkStep2.exit.injEq, reduceCtorEq, false_and] at h; done)
    all_goals
      rcases ha : s.addPoint (fs dir) with _ | ⟨s1, b⟩
      · rw [ha] at h; simp at h
      · rw [ha] at h
        cases b with
        | false => simp at h
        | true =>
          dsimp only at h
          rcases hp : s1.projectOriginAndReduce with _ | ⟨s2, pr⟩
          · rw [hp] at h; simp at h
          · rw [hp] at h
            dsimp only at h
            split_ifs at h with d1
            all_goals try (simp only [GjkStep2.exit.injEq, reduceCtorEq, false_and] at h; done)
            all_goals (simp only [GjkStep2.exit.injEq, true_and] at h; subst h; exact ⟨s1, pr, rfl, rfl, hp, d1, by assumption⟩)

/-- **exit `Intersection` through a full simplex is a genuine overlap (2-D)**: if the reduction keeps a (non-degenerate) triangle,
the origin lies in that triangle, i.e. in the hull of three points of the obstacle — the shapes share a point — and the returned
projection is the origin itself. (3-D: the analogous statement needs the tetrahedron case of `reduce3_*`, not proved.) -/
theorem gjk_full_simplex_contains_origin2 (s1 s2 : Vs2 K) (pr : V2 K) (hok : Vs2Ok s1) :
    letI := fieldNum K sq
    s1.projectOriginAndReduce = some (s2, pr) → s2.dim = 2 →
    pr = V2.zero ∧ (Triangle2.mk s2.v0.point s2.v1.point s2.v2.point).Mem V2.zero := by
  letI := fieldNum K sq
  intro h hd
  rcases reduce2_kept sq s1 s2 pr hok h with ⟨d, _⟩ | ⟨d, _⟩ | ⟨_, hss, e⟩
  · omega
  · omega
  · refine ⟨e, ?_⟩
    have hm := reduce2_kept_contains sq s1 s2 pr hok h
    rcases hm with ⟨d0, _⟩ | ⟨d1, _⟩ | ⟨_, hm⟩
    · omega
    · omega
    · rw [e] at hm; exact hm


/-! ## variational inequality of the reduction, and the slack of the `add_point`-refused exit -/

/-- **variational inequality (3-D, dim ≤ 2)**: `p·(q - p) ≥ 0` for every point `q` of the simplex (`p` = returned projection). -/
theorem reduce3_variational_partial (s s' : Vs3 K) (p q : V3 K) (hok : Vs3Ok s) (hd : s.dim ≤ 2) :
    letI := fieldNum K sq
    s.projectOriginAndReduce = some (s', p) → Hull3 sq s q → 0 ≤ p.dot (q.sub p) := by
  letI := fieldNum K sq
  intro h hq
  rcases reduce3_pt s s' p h hd with ⟨h0, rfl⟩ | ⟨h1, rfl⟩ | ⟨h2, rfl⟩
  · rcases hq with ⟨_, rfl⟩ | ⟨e, _⟩ | ⟨e, _⟩
    · simp [V3.dot, V3.sub]
    · omega
    · omega
  · rcases hq with ⟨e, _⟩ | ⟨_, hm⟩ | ⟨e, _⟩
    · omega
    · have := C05.seg3_project_variational sq _ V3.zero q hm
      simp only [V3.dot, V3.sub, V3.zero] at this ⊢
      linarith
    · omega
  · rcases hq with ⟨e, _⟩ | ⟨e, _⟩ | ⟨_, hm⟩
    · omega
    · omega
    · have := C05.tri3_project_variational sq _ V3.zero q true (hok h2) hm
      simp only [V3.dot, V3.sub, V3.zero] at this ⊢
      linarith

/-- **variational inequality (2-D, dim ≤ 1)** -/
theorem reduce2_variational_partial (s s' : Vs2 K) (p q : V2 K) (hd : s.dim ≤ 1) :
    letI := fieldNum K sq
    s.projectOriginAndReduce = some (s', p) → Hull2 sq s q → 0 ≤ p.dot (q.sub p) := by
  letI := fieldNum K sq
  intro h hq
  rcases reduce2_pt s s' p h with ⟨h0, rfl⟩ | ⟨h1, rfl⟩ | ⟨h2, _⟩
  · rcases hq with ⟨_, rfl⟩ | ⟨e, _⟩ | ⟨e, _⟩
    · simp [V2.dot, V2.sub]
    · omega
    · omega
  · rcases hq with ⟨e, _⟩ | ⟨_, hm⟩ | ⟨e, _⟩
    · omega
    · have := C05.seg2_project_variational sq _ V2.zero q hm
      simp only [V2.dot, V2.sub, V2.zero] at this ⊢
      linarith
    · omega
  · omega

/-- **slack of the `add_point`-refused exit** (3-D form; the 2-D one is the case `z = 0`): `proj = -mb·dir` with `dir` a unit vector,
`v` a vertex satisfying the variational inequality `proj·(v - proj) ≥ 0`, and the new support point `w` within `ε_rel` of `v`
(`|v - w|² < ε_tol = ε_rel²`, the duplicate test of 2-D `add_point` / the `dim = 0` test in 3-D). Then
`max_bound - min_bound ≤ ε_rel` with `min_bound = -dir·w`: the exit carries an ABSOLUTE slack `ε_rel = √(10ε)`. -/
theorem gjk_duplicate_slack3 (proj dir v w : V3 K) (mb epsRel epsTol' : K)
    (hunit : dir.x * dir.x + dir.y * dir.y + dir.z * dir.z = 1) (hmb : 0 < mb)
    (hp : proj.x = -(dir.x * mb) ∧ proj.y = -(dir.y * mb) ∧ proj.z = -(dir.z * mb))
    (hvar : 0 ≤ proj.x * (v.x - proj.x) + proj.y * (v.y - proj.y) + proj.z * (v.z - proj.z))
    (he : 0 ≤ epsRel) (hee : epsRel * epsRel = epsTol')
    (hdup : (v.x - w.x) * (v.x - w.x) + (v.y - w.y) * (v.y - w.y) + (v.z - w.z) * (v.z - w.z) < epsTol') :
    mb - (-(dir.x * w.x + dir.y * w.y + dir.z * w.z)) ≤ epsRel := by
  obtain ⟨px, py, pz⟩ := hp
  rw [px, py, pz] at hvar
  -- -dir·v ≥ mb
  have h1 : mb ≤ -(dir.x * v.x + dir.y * v.y + dir.z * v.z) := by
    have e : -(dir.x * mb) * (v.x - -(dir.x * mb)) + -(dir.y * mb) * (v.y - -(dir.y * mb)) +
        -(dir.z * mb) * (v.z - -(dir.z * mb)) =
        mb * (-(dir.x * v.x + dir.y * v.y + dir.z * v.z) - mb * (dir.x * dir.x + dir.y * dir.y + dir.z * dir.z)) := by ring
    rw [e, hunit, mul_one] at hvar
    have : 0 ≤ mb * (-(dir.x * v.x + dir.y * v.y + dir.z * v.z) - mb) := hvar
    by_contra hc
    push Not at hc
    nlinarith
  -- |dir·(w - v)| ≤ |w - v| < epsRel
  have cs : (dir.x * (w.x - v.x) + dir.y * (w.y - v.y) + dir.z * (w.z - v.z)) ^ 2 ≤
      (v.x - w.x) * (v.x - w.x) + (v.y - w.y) * (v.y - w.y) + (v.z - w.z) * (v.z - w.z) := by
    have := hunit
    nlinarith [sq_nonneg (dir.x * (w.y - v.y) - dir.y * (w.x - v.x)), sq_nonneg (dir.x * (w.z - v.z) - dir.z * (w.x - v.x)),
      sq_nonneg (dir.y * (w.z - v.z) - dir.z * (w.y - v.y))]
  have h2 : dir.x * (w.x - v.x) + dir.y * (w.y - v.y) + dir.z * (w.z - v.z) ≤ epsRel := by
    by_contra hc
    push Not at hc
    nlinarith
  linarith

/-! ## non-vacuity of the hypotheses -/

/-- `Vs2Ok` holds for a genuine triangle simplex (vertices (2,1), (-1,1), (0,-2): the origin is inside) -/
example : Vs2Ok (K := ℚ) ⟨0, 1, 2, 0, 0, 0, ⟨⟨2, 1⟩, ⟨2, 1⟩, ⟨0, 0⟩⟩, ⟨⟨-1, 1⟩, ⟨0, 1⟩, ⟨1, 0⟩⟩, ⟨⟨0, -2⟩, ⟨0, 0⟩, ⟨0, 2⟩⟩, 0, 0, 2⟩ := by
  intro _; simp only [C05.Tri2Ok]; norm_num
/-- `Vs3Ok` for the triangle (1,0,0), (0,1,0), (0,0,1) -/
example : Vs3Ok (K := ℚ) ⟨0, 1, 2, 3, 0, 0, 0, 0, ⟨⟨1, 0, 0⟩, ⟨1, 0, 0⟩, ⟨0, 0, 0⟩⟩, ⟨⟨0, 1, 0⟩, ⟨0, 1, 0⟩, ⟨0, 0, 0⟩⟩,
    ⟨⟨0, 0, 1⟩, ⟨0, 0, 1⟩, ⟨0, 0, 0⟩⟩, ⟨⟨0, 0, 0⟩, ⟨0, 0, 0⟩, ⟨0, 0, 0⟩⟩, 0, 0, 0, 2⟩ := by
  intro _; simp only [C05.Tri3Ok]; norm_num
/-- the support contract is satisfiable: a one-point obstacle with the constant support map -/
example : SupportsCSO3 (K := ℚ) (fun c => c = ⟨1, 2, 3⟩) (fun _ => ⟨⟨1, 2, 3⟩, ⟨1, 2, 3⟩, ⟨0, 0, 0⟩⟩) := by
  intro dir c hc; subst hc; exact le_refl _
example : SupportsCSO2 (K := ℚ) (fun c => c = ⟨1, 2⟩) (fun _ => ⟨⟨1, 2⟩, ⟨1, 2⟩, ⟨0, 0⟩⟩) := by
  intro dir c hc; subst hc; exact le_refl _
/-- the hypotheses of `gjk_lower_bound3`: unit direction `(0,0,-1)`, obstacle `{z ≥ 2}`, `min_bound = 2` -/
example : ∀ c : V3 ℚ, 2 ≤ c.z → (2 : ℚ) * 2 ≤ c.x * c.x + c.y * c.y + c.z * c.z :=
  gjk_lower_bound3 (fun c => 2 ≤ c.z) ⟨0, 0, -1⟩ 2 (by norm_num) (by norm_num) (fun c hc => by simp only; linarith)

end C01
