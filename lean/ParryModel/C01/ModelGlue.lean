import ParryModel.C01.Model
import ParryModel.C01.ModelGjk
/-!
# C01 model, part 3: the glue between the public entry points and the modelled kernels

Literal transliteration of
* `query/closest_points/closest_points.rs` (`ClosestPoints::flipped`, `ClosestPoints::transform_by`),
* `closest_points_support_map_support_map` / `distance_support_map_support_map` (fresh `VoronoiSimplex::new()`, mapping of the
  `GJKResult`, `pos12.inverse_transform_point(&pt2)`),
* `closest_points_support_map_halfspace` / `distance_support_map_halfspace` (`pos12.inverse()`, `.flipped()`),
* `distance_segment_segment`,
* the routing of `DefaultQueryDispatcher::{closest_points, distance}` (`default_query_dispatcher.rs`, same order of the `if let`s)
  restricted to the shape kinds whose support maps are in the C10 model,
* `query::closest_points(pos1, g1, pos2, g2, max_dist)` and `query::distance(pos1, g1, pos2, g2)`
  (`pos12 = pos1.inv_mul(pos2)`, dispatch, `.transform_by(pos1, pos2)`).

`none` = a Rust panic (`assert!`, `unreachable!()`) **or** a route that is not modelled (exactly one ball: the point-projection
routes `*_ball_convex_polyhedron`; the generator of the correspondence never produces those).
-/
namespace Model.Glue
open Model Model.Dist Model.Gjk
variable {K : Type} [Num K] [NumBits K]

/-- the shape kinds the dispatcher model knows (`TypedShape` restricted to the modelled support maps + half-space) -/
inductive DSh3 (K : Type) where
  | halfspace (n : V3 K)
  | ball (r : K)
  | cuboid (he : V3 K)
  | segment (a b : V3 K)
  | triangle (a b c : V3 K)
  | capsule (a b : V3 K) (r : K)
  | cone (hh r : K)
  | cylinder (hh r : K)
  | round (i : DSh3 K) (br : K)

namespace DSh3
/-- `local_support_point_toward` (overridden by `Ball`, `Capsule`, `RoundShape`; default = `local_support_point`) -/
def locToward : DSh3 K → V3 K → V3 K
  | .halfspace _, d => d
  | .ball r, d => C10.ballToward3 r d
  | .cuboid he, d => C10.cuboidLocal3 he d
  | .segment a b, d => C10.segmentLocal3 a b d
  | .triangle a b c, d => C10.triangleLocal3 a b c d
  | .capsule a b r, d => C10.capsuleToward3 a b r d
  | .cone hh r, d => C10.coneLocal hh r d
  | .cylinder hh r, d => C10.cylinderLocal hh r d
  | .round i br, d => C10.roundToward3 i.locToward br d
/-- `local_support_point` -/
def loc : DSh3 K → V3 K → V3 K
  | .halfspace _, d => d
  | .ball r, d => C10.ballLocal3 r d
  | .cuboid he, d => C10.cuboidLocal3 he d
  | .segment a b, d => C10.segmentLocal3 a b d
  | .triangle a b c, d => C10.triangleLocal3 a b c d
  | .capsule a b r, d => C10.capsuleLocal3 a b r d
  | .cone hh r, d => C10.coneLocal hh r d
  | .cylinder hh r, d => C10.cylinderLocal hh r d
  | .round i br, d => C10.roundLocal3 i.locToward br d
/-- `support_point(m, dir)` (`Ball` overrides it) -/
def posed (g : DSh3 K) (m : Iso3 K) (d : V3 K) : V3 K :=
  match g with
  | .ball r => C10.ballPosed3 r m d
  | _ => C10.supportPoint3 g.loc m d
/-- `support_point_toward(m, dir)` (`Ball` overrides it) -/
def posedToward (g : DSh3 K) (m : Iso3 K) (d : V3 K) : V3 K :=
  match g with
  | .ball r => C10.ballPosedToward3 r m d
  | _ => C10.supportPointToward3 g.locToward m d
def isBall : DSh3 K → Bool | .ball _ => true | _ => false
def isHalfspace : DSh3 K → Bool | .halfspace _ => true | _ => false
end DSh3

/-- `ClosestPoints::flipped` -/
def flipped {V : Type} : CP V → CP V
  | .within p1 p2 => .within p2 p1
  | r => r

/-- `ClosestPoints::transform_by(pos1, pos2)` -/
def transformBy3 (r : CP (V3 K)) (pos1 pos2 : Iso3 K) : CP (V3 K) :=
  match r with
  | .within p1 p2 => .within (pos1.act p1) (pos2.act p2)
  | r => r

/-- `closest_points_support_map_support_map(pos12, g1, g2, prediction)`; `fs` = `CSOPoint::from_shapes(pos12, g1, g2, ·)`.
`none` = panic / `unreachable!()` -/
def closestPointsSmSm3 (fs : V3 K → CSO3 K) (pos12 : Iso3 K) (prediction : K) : Option (CP (V3 K)) :=
  match (closestPointsSmSmWithParams3 fs pos12.t prediction Vs3.new none).1 with
  | .closest p1 p2 _ => some (.within p1 (pos12.invAct p2))
  | .noIntersection _ => some .disjoint
  | .intersection => some .intersecting
  | .proximity _ => none
  | .panic => none

/-- `distance_support_map_support_map(pos12, g1, g2)` -/
def distanceSmSm3 (fs : V3 K → CSO3 K) (pos12 : Iso3 K) : Option K :=
  (distanceSmSmWithParams3 fs pos12.t Vs3.new none).1

/-- `closest_points_support_map_halfspace(pos12, other, halfspace, margin)` -/
def closestPointsSmHalfspace3 (supp : Iso3 K → V3 K → V3 K) (pos12 : Iso3 K) (n : V3 K) (margin : K) : Option (CP (V3 K)) :=
  (closestPointsHalfspaceSupportMap supp pos12.inverse n margin).map flipped

/-- `distance_support_map_halfspace(pos12, other, halfspace)` -/
def distanceSmHalfspace3 (suppToward : Iso3 K → V3 K → V3 K) (pos12 : Iso3 K) (n : V3 K) : K :=
  distanceHalfspaceSupportMap suppToward pos12.inverse n

/-- `distance_segment_segment(pos12, s1, s2)` -/
def distanceSegmentSegment3 (pos12 : Iso3 K) (a1 b1 a2 b2 : V3 K) : K :=
  match closestPointsSegmentSegment pos12 a1 b1 a2 b2 realMax with
  | .within p1 p2 => ((pos12.act p2).sub p1).norm
  | _ => 0

/-- `DefaultQueryDispatcher::closest_points(pos12, shape1, shape2, max_dist)` on the modelled kinds, same order of tests -/
def dispatchCP3 (pos12 : Iso3 K) (g1 g2 : DSh3 K) (maxDist : K) : Option (CP (V3 K)) :=
  match g1, g2 with
  | .ball r1, .ball r2 => closestPointsBallBall pos12 r1 r2 maxDist
  | .ball _, _ => none                       -- closest_points_ball_convex_polyhedron (or Unsupported): not modelled
  | _, .ball _ => none                       -- closest_points_convex_polyhedron_ball: not modelled
  | .segment a1 b1, .segment a2 b2 => some (closestPointsSegmentSegment pos12 a1 b1 a2 b2 maxDist)
  | .halfspace _, .halfspace _ => none       -- Unsupported
  | .halfspace n, g2 => closestPointsHalfspaceSupportMap g2.posed pos12 n maxDist
  | g1, .halfspace n => closestPointsSmHalfspace3 g1.posed pos12 n maxDist
  | g1, g2 => closestPointsSmSm3 (fromShapes3 g1.loc (g2.posed pos12)) pos12 maxDist

/-- `DefaultQueryDispatcher::distance(pos12, shape1, shape2)` on the modelled kinds -/
def dispatchDist3 (pos12 : Iso3 K) (g1 g2 : DSh3 K) : Option K :=
  match g1, g2 with
  | .ball r1, .ball r2 => some (distanceBallBall r1 r2 pos12.t)
  | .ball _, _ => none
  | _, .ball _ => none
  | .segment a1 b1, .segment a2 b2 => some (distanceSegmentSegment3 pos12 a1 b1 a2 b2)
  | .halfspace _, .halfspace _ => none
  | .halfspace n, g2 => some (distanceHalfspaceSupportMap g2.posedToward pos12 n)
  | g1, .halfspace n => some (distanceSmHalfspace3 g1.posedToward pos12 n)
  | g1, g2 => distanceSmSm3 (fromShapes3 g1.loc (g2.posed pos12)) pos12

/-- `query::closest_points(pos1, g1, pos2, g2, max_dist)` (world space) -/
def closestPointsWorld3 (pos1 : Iso3 K) (g1 : DSh3 K) (pos2 : Iso3 K) (g2 : DSh3 K) (maxDist : K) : Option (CP (V3 K)) :=
  (dispatchCP3 (pos1.invMul pos2) g1 g2 maxDist).map fun r => transformBy3 r pos1 pos2

/-- `query::distance(pos1, g1, pos2, g2)` -/
def distanceWorld3 (pos1 : Iso3 K) (g1 : DSh3 K) (pos2 : Iso3 K) (g2 : DSh3 K) : Option K :=
  dispatchDist3 (pos1.invMul pos2) g1 g2

end Model.Glue
