import ParryModel.C01.ModelGlue
/-!
# C01 model, part 3b: the 2-D twin of `ModelGlue.lean` (`parry2d`: same source files, `Isometry2`, `VoronoiSimplex` 2-D)
-/
namespace Model.Glue
open Model Model.Dist Model.Gjk
variable {K : Type} [Num K] [NumBits K]

/-- the 2-D shape kinds the dispatcher model knows -/
inductive DSh2 (K : Type) where
  | halfspace (n : V2 K)
  | ball (r : K)
  | cuboid (he : V2 K)
  | segment (a b : V2 K)
  | triangle (a b c : V2 K)
  | capsule (a b : V2 K) (r : K)
  | round (i : DSh2 K) (br : K)

namespace DSh2
def locToward : DSh2 K → V2 K → V2 K
  | .halfspace _, d => d
  | .ball r, d => C10.ballToward2 r d
  | .cuboid he, d => C10.cuboidLocal2 he d
  | .segment a b, d => C10.segmentLocal2 a b d
  | .triangle a b c, d => C10.triangleLocal2 a b c d
  | .capsule a b r, d => C10.capsuleToward2 a b r d
  | .round i br, d => C10.roundToward2 i.locToward br d
def loc : DSh2 K → V2 K → V2 K
  | .halfspace _, d => d
  | .ball r, d => C10.ballLocal2 r d
  | .cuboid he, d => C10.cuboidLocal2 he d
  | .segment a b, d => C10.segmentLocal2 a b d
  | .triangle a b c, d => C10.triangleLocal2 a b c d
  | .capsule a b r, d => C10.capsuleLocal2 a b r d
  | .round i br, d => C10.roundLocal2 i.locToward br d
def posed (g : DSh2 K) (m : Iso2 K) (d : V2 K) : V2 K :=
  match g with
  | .ball r => C10.ballPosed2 r m d
  | _ => C10.supportPoint2 g.loc m d
def posedToward (g : DSh2 K) (m : Iso2 K) (d : V2 K) : V2 K :=
  match g with
  | .ball r => C10.ballPosedToward2 r m d
  | _ => C10.supportPointToward2 g.locToward m d
end DSh2

/-- `ClosestPoints::transform_by(pos1, pos2)` (2-D) -/
def transformBy2 (r : CP (V2 K)) (pos1 pos2 : Iso2 K) : CP (V2 K) :=
  match r with
  | .within p1 p2 => .within (pos1.act p1) (pos2.act p2)
  | r => r

def closestPointsSmSm2 (fs : V2 K → CSO2 K) (pos12 : Iso2 K) (prediction : K) : Option (CP (V2 K)) :=
  match (closestPointsSmSmWithParams2 fs pos12.t prediction Vs2.new none).1 with
  | .closest p1 p2 _ => some (.within p1 (pos12.invAct p2))
  | .noIntersection _ => some .disjoint
  | .intersection => some .intersecting
  | .proximity _ => none
  | .panic => none

def distanceSmSm2 (fs : V2 K → CSO2 K) (pos12 : Iso2 K) : Option K :=
  (distanceSmSmWithParams2 fs pos12.t Vs2.new none).1

def closestPointsSmHalfspace2 (supp : Iso2 K → V2 K → V2 K) (pos12 : Iso2 K) (n : V2 K) (margin : K) : Option (CP (V2 K)) :=
  (closestPointsHalfspaceSupportMap2 supp pos12.inverse n margin).map flipped

def distanceSmHalfspace2 (suppToward : Iso2 K → V2 K → V2 K) (pos12 : Iso2 K) (n : V2 K) : K :=
  distanceHalfspaceSupportMap2 suppToward pos12.inverse n

def distanceSegmentSegment2 (pos12 : Iso2 K) (a1 b1 a2 b2 : V2 K) : K :=
  match closestPointsSegmentSegment2 pos12 a1 b1 a2 b2 realMax with
  | .within p1 p2 => ((pos12.act p2).sub p1).norm
  | _ => 0

def dispatchCP2 (pos12 : Iso2 K) (g1 g2 : DSh2 K) (maxDist : K) : Option (CP (V2 K)) :=
  match g1, g2 with
  | .ball r1, .ball r2 => closestPointsBallBall2 pos12 r1 r2 maxDist
  | .ball _, _ => none
  | _, .ball _ => none
  | .segment a1 b1, .segment a2 b2 => some (closestPointsSegmentSegment2 pos12 a1 b1 a2 b2 maxDist)
  | .halfspace _, .halfspace _ => none
  | .halfspace n, g2 => closestPointsHalfspaceSupportMap2 g2.posed pos12 n maxDist
  | g1, .halfspace n => closestPointsSmHalfspace2 g1.posed pos12 n maxDist
  | g1, g2 => closestPointsSmSm2 (fromShapes2 g1.loc (g2.posed pos12)) pos12 maxDist

def dispatchDist2 (pos12 : Iso2 K) (g1 g2 : DSh2 K) : Option K :=
  match g1, g2 with
  | .ball r1, .ball r2 => some (distanceBallBall2 r1 r2 pos12.t)
  | .ball _, _ => none
  | _, .ball _ => none
  | .segment a1 b1, .segment a2 b2 => some (distanceSegmentSegment2 pos12 a1 b1 a2 b2)
  | .halfspace _, .halfspace _ => none
  | .halfspace n, g2 => some (distanceHalfspaceSupportMap2 g2.posedToward pos12 n)
  | g1, .halfspace n => some (distanceSmHalfspace2 g1.posedToward pos12 n)
  | g1, g2 => distanceSmSm2 (fromShapes2 g1.loc (g2.posed pos12)) pos12

/-- `query::closest_points(pos1, g1, pos2, g2, max_dist)` (2-D world space) -/
def closestPointsWorld2 (pos1 : Iso2 K) (g1 : DSh2 K) (pos2 : Iso2 K) (g2 : DSh2 K) (maxDist : K) : Option (CP (V2 K)) :=
  (dispatchCP2 (pos1.invMul pos2) g1 g2 maxDist).map fun r => transformBy2 r pos1 pos2

/-- `query::distance(pos1, g1, pos2, g2)` (2-D) -/
def distanceWorld2 (pos1 : Iso2 K) (g1 : DSh2 K) (pos2 : Iso2 K) (g2 : DSh2 K) : Option K :=
  dispatchDist2 (pos1.invMul pos2) g1 g2

end Model.Glue
