import ParryModel.Field
import ParryModel.C01.Model
/-!
# C01 helper lemmas: coordinate-wise vector algebra over an ordered field (no Mathlib analysis).
-/
namespace C01
open Model Model.Dist

variable {K : Type} [Field K] [LinearOrder K] [IsStrictOrderedRing K]

/-- The sign-bit primitives at the lawful instance: `+0` is the only zero, so `copysign mag sgn` is `-|mag|` when
`sgn < 0` and `|mag|` otherwise; the ulps comparison degenerates to its absolute-difference part. -/
@[reducible] def fieldBits (K : Type) [Field K] [LinearOrder K] [IsStrictOrderedRing K] : NumBits K where
  copysign mag sgn := if sgn < 0 then -|mag| else |mag|
  ulpsEq a b := decide (|a - b| ≤ ((mkRat 1 4503599627370496 : ℚ) : K))

theorem fieldNum_sqrt (sq : K → K) (x : K) : @Num.sqrt K (fieldNum K sq) x = sq x := rfl

/-- plain dot products / norms, free of any `Num` instance, used to state the lemmas -/
def dot3 (a b : V3 K) : K := a.x * b.x + a.y * b.y + a.z * b.z
def dot2 (a b : V2 K) : K := a.x * b.x + a.y * b.y

theorem cs3 (a b : V3 K) : (dot3 a b) ^ 2 ≤ dot3 a a * dot3 b b := by
  unfold dot3
  nlinarith [sq_nonneg (a.x * b.y - a.y * b.x), sq_nonneg (a.y * b.z - a.z * b.y), sq_nonneg (a.z * b.x - a.x * b.z)]

theorem cs2 (a b : V2 K) : (dot2 a b) ^ 2 ≤ dot2 a a * dot2 b b := by
  unfold dot2
  nlinarith [sq_nonneg (a.x * b.y - a.y * b.x)]

/-- from `x² ≤ y²` and `0 ≤ y` conclude `x ≤ y` -/
theorem le_of_sq_le_sq' {x y : K} (h : x ^ 2 ≤ y ^ 2) (hy : 0 ≤ y) : x ≤ y := by
  by_contra hc
  push Not at hc
  nlinarith [mul_pos (lt_of_le_of_lt hy hc) (lt_of_le_of_lt hy hc)]

theorem abs_le_of_sq_le_sq' {x y : K} (h : x ^ 2 ≤ y ^ 2) (hy : 0 ≤ y) : |x| ≤ y := by
  apply le_of_sq_le_sq' _ hy
  rwa [sq_abs]


/-! ## isometries -/
section iso
variable (sq : K → K)

/-- `(R v)·w = v·(Rᵀ w)` for nalgebra's quaternion formula — holds for **every** quaternion, unit or not -/
theorem rot_adj3 (m : Iso3 K) (v w : V3 K) :
    letI := fieldNum K sq
    (m.rot v).dot w = v.dot (m.invRot w) := by
  simp only [Iso3.rot, Iso3.invRot, Iso3.rotQ, Iso3.qv, V3.add, V3.smul, V3.cross, V3.dot, V3.neg, fieldNum_two]
  ring

theorem rot_invRot3 (m : Iso3 K) (v : V3 K)
    (hq : m.qi * m.qi + m.qj * m.qj + m.qk * m.qk + m.qw * m.qw = 1) :
    letI := fieldNum K sq
    m.rot (m.invRot v) = v := by
  obtain ⟨x, y, z⟩ := v
  simp only [Iso3.rot, Iso3.invRot, Iso3.rotQ, Iso3.qv, V3.add, V3.smul, V3.cross, V3.neg, fieldNum_two, V3.mk.injEq]
  refine ⟨?_, ?_, ?_⟩
  · linear_combination (-4 * (m.qi * (m.qi * x + m.qj * y + m.qk * z) - (m.qi * m.qi + m.qj * m.qj + m.qk * m.qk) * x)) * hq
  · linear_combination (-4 * (m.qj * (m.qi * x + m.qj * y + m.qk * z) - (m.qi * m.qi + m.qj * m.qj + m.qk * m.qk) * y)) * hq
  · linear_combination (-4 * (m.qk * (m.qi * x + m.qj * y + m.qk * z) - (m.qi * m.qi + m.qj * m.qj + m.qk * m.qk) * z)) * hq

theorem invRot_rot3 (m : Iso3 K) (v : V3 K)
    (hq : m.qi * m.qi + m.qj * m.qj + m.qk * m.qk + m.qw * m.qw = 1) :
    letI := fieldNum K sq
    m.invRot (m.rot v) = v := by
  obtain ⟨x, y, z⟩ := v
  simp only [Iso3.rot, Iso3.invRot, Iso3.rotQ, Iso3.qv, V3.add, V3.smul, V3.cross, V3.neg, fieldNum_two, V3.mk.injEq]
  refine ⟨?_, ?_, ?_⟩
  · linear_combination (-4 * (m.qi * (m.qi * x + m.qj * y + m.qk * z) - (m.qi * m.qi + m.qj * m.qj + m.qk * m.qk) * x)) * hq
  · linear_combination (-4 * (m.qj * (m.qi * x + m.qj * y + m.qk * z) - (m.qi * m.qi + m.qj * m.qj + m.qk * m.qk) * y)) * hq
  · linear_combination (-4 * (m.qk * (m.qi * x + m.qj * y + m.qk * z) - (m.qi * m.qi + m.qj * m.qj + m.qk * m.qk) * z)) * hq

theorem act_invAct3 (m : Iso3 K) (p : V3 K)
    (hq : m.qi * m.qi + m.qj * m.qj + m.qk * m.qk + m.qw * m.qw = 1) :
    letI := fieldNum K sq
    m.act (m.invAct p) = p := by
  have h := rot_invRot3 sq m (@V3.sub K (fieldNum K sq) p m.t) hq
  simp only [Iso3.act, Iso3.invAct, h]
  obtain ⟨x, y, z⟩ := p
  simp only [V3.add, V3.sub, V3.mk.injEq]
  refine ⟨?_, ?_, ?_⟩ <;> ring

theorem invAct_act3 (m : Iso3 K) (p : V3 K)
    (hq : m.qi * m.qi + m.qj * m.qj + m.qk * m.qk + m.qw * m.qw = 1) :
    letI := fieldNum K sq
    m.invAct (m.act p) = p := by
  have h := invRot_rot3 sq m p hq
  have e : ∀ r t : V3 K, @V3.sub K (fieldNum K sq) (@V3.add K (fieldNum K sq) r t) t = r := by
    rintro ⟨a, b, c⟩ ⟨d, e, f⟩
    simp only [V3.add, V3.sub, V3.mk.injEq]
    refine ⟨?_, ?_, ?_⟩ <;> ring
  simp only [Iso3.act, Iso3.invAct, e, h]

theorem rot_adj2 (m : Iso2 K) (v w : V2 K) :
    letI := fieldNum K sq
    (m.rot v).dot w = v.dot (m.invRot w) := by
  simp only [Iso2.rot, Iso2.invRot, V2.dot]
  ring

theorem rot_invRot2 (m : Iso2 K) (v : V2 K) (hq : m.re * m.re + m.im * m.im = 1) :
    letI := fieldNum K sq
    m.rot (m.invRot v) = v := by
  obtain ⟨x, y⟩ := v
  simp only [Iso2.rot, Iso2.invRot, V2.mk.injEq]
  refine ⟨?_, ?_⟩
  · linear_combination x * hq
  · linear_combination y * hq

theorem invRot_rot2 (m : Iso2 K) (v : V2 K) (hq : m.re * m.re + m.im * m.im = 1) :
    letI := fieldNum K sq
    m.invRot (m.rot v) = v := by
  obtain ⟨x, y⟩ := v
  simp only [Iso2.rot, Iso2.invRot, V2.mk.injEq]
  refine ⟨?_, ?_⟩
  · linear_combination x * hq
  · linear_combination y * hq

theorem act_invAct2 (m : Iso2 K) (p : V2 K) (hq : m.re * m.re + m.im * m.im = 1) :
    letI := fieldNum K sq
    m.act (m.invAct p) = p := by
  have h := rot_invRot2 sq m (@V2.sub K (fieldNum K sq) p m.t) hq
  simp only [Iso2.act, Iso2.invAct, h]
  obtain ⟨x, y⟩ := p
  simp only [V2.add, V2.sub, V2.mk.injEq]
  refine ⟨?_, ?_⟩ <;> ring

end iso

/-- separation along a direction: if `|d| = L > 0` and `d·e ≥ L·m ≥ 0` then `|e| ≥ m` (squared form) -/
theorem sep_along3 (d e : V3 K) (L m : K) (hL : 0 < L) (hdd : dot3 d d = L * L) (hm : 0 ≤ m)
    (h : L * m ≤ dot3 d e) : m * m ≤ dot3 e e := by
  have hcs := cs3 d e
  rw [hdd] at hcs
  have h2 : (L * m) ^ 2 ≤ (dot3 d e) ^ 2 := pow_le_pow_left₀ (mul_nonneg hL.le hm) h 2
  have h3 : L * L * (m * m) ≤ L * L * dot3 e e := by nlinarith
  exact le_of_mul_le_mul_left h3 (mul_pos hL hL)

theorem sep_along2 (d e : V2 K) (L m : K) (hL : 0 < L) (hdd : dot2 d d = L * L) (hm : 0 ≤ m)
    (h : L * m ≤ dot2 d e) : m * m ≤ dot2 e e := by
  have hcs := cs2 d e
  rw [hdd] at hcs
  have h2 : (L * m) ^ 2 ≤ (dot2 d e) ^ 2 := pow_le_pow_left₀ (mul_nonneg hL.le hm) h 2
  have h3 : L * L * (m * m) ≤ L * L * dot2 e e := by nlinarith
  exact le_of_mul_le_mul_left h3 (mul_pos hL hL)

/-- `d·a ≤ L·r` when `|d| = L`, `|a| ≤ r` (Cauchy–Schwarz without square roots of the operands) -/
theorem dot_le3 (d a : V3 K) (L r : K) (hL : 0 ≤ L) (hr : 0 ≤ r) (hdd : dot3 d d = L * L)
    (ha : dot3 a a ≤ r * r) : dot3 d a ≤ L * r := by
  apply le_of_sq_le_sq' _ (mul_nonneg hL hr)
  have := cs3 d a
  rw [hdd] at this
  nlinarith [mul_nonneg hL hL]

theorem dot_le2 (d a : V2 K) (L r : K) (hL : 0 ≤ L) (hr : 0 ≤ r) (hdd : dot2 d d = L * L)
    (ha : dot2 a a ≤ r * r) : dot2 d a ≤ L * r := by
  apply le_of_sq_le_sq' _ (mul_nonneg hL hr)
  have := cs2 d a
  rw [hdd] at this
  nlinarith [mul_nonneg hL hL]

/-- the ball of radius `r` centred at `c` -/
def BallAt (r : K) (c : V3 K) (p : V3 K) : Prop :=
  (p.x - c.x) * (p.x - c.x) + (p.y - c.y) * (p.y - c.y) + (p.z - c.z) * (p.z - c.z) ≤ r * r

/-- two balls whose centres are `S = |c|` apart with `r1 + r2 < S`: every pair of points is at least `S - r1 - r2` apart -/
theorem ball_sep_core (r1 r2 S : K) (c : V3 K) (hr1 : 0 ≤ r1) (hr2 : 0 ≤ r2) (hS0 : 0 ≤ S)
    (hSS : S * S = c.x * c.x + c.y * c.y + c.z * c.z) (hgt : r1 + r2 < S) (a b : V3 K)
    (ha : BallAt r1 ⟨0, 0, 0⟩ a) (hb : BallAt r2 c b) :
    (S - (r1 + r2)) * (S - (r1 + r2)) ≤
      (b.x - a.x) * (b.x - a.x) + (b.y - a.y) * (b.y - a.y) + (b.z - a.z) * (b.z - a.z) := by
  simp only [BallAt] at ha hb
  have hSpos : 0 < S := lt_of_le_of_lt (add_nonneg hr1 hr2) hgt
  have h1 := dot_le3 c a S r1 hS0 hr1 (by simp only [dot3]; linarith) (by simp only [dot3]; nlinarith)
  have h2 := dot_le3 c ⟨c.x - b.x, c.y - b.y, c.z - b.z⟩ S r2 hS0 hr2 (by simp only [dot3]; linarith)
    (by simp only [dot3]; nlinarith)
  have h3 := sep_along3 c ⟨b.x - a.x, b.y - a.y, b.z - a.z⟩ S (S - (r1 + r2)) hSpos
    (by simp only [dot3]; linarith) (by linarith) (by simp only [dot3] at *; nlinarith)
  simp only [dot3] at h3
  linarith

/-- overlapping balls (`|c|² ≤ (r1+r2)²`) share a point -/
theorem ball_overlap_core (r1 r2 : K) (c : V3 K) (hr1 : 0 ≤ r1) (hr2 : 0 ≤ r2)
    (h : c.x * c.x + c.y * c.y + c.z * c.z ≤ (r1 + r2) * (r1 + r2)) :
    ∃ p, BallAt r1 ⟨0, 0, 0⟩ p ∧ BallAt r2 c p := by
  rcases eq_or_lt_of_le (add_nonneg hr1 hr2) with h0 | hpos
  · refine ⟨⟨0, 0, 0⟩, ?_, ?_⟩ <;> simp only [BallAt]
    · nlinarith
    · rw [← h0] at h; nlinarith [mul_self_nonneg r2]
  · set k := r1 / (r1 + r2) with hk
    have hk1 : k * (r1 + r2) = r1 := div_mul_cancel₀ _ (ne_of_gt hpos)
    have hk0 : 0 ≤ k := div_nonneg hr1 hpos.le
    have hk2 : (1 - k) * (r1 + r2) = r2 := by linarith
    have hk3 : 0 ≤ 1 - k := by
      have : 0 ≤ (1 - k) * (r1 + r2) := by rw [hk2]; exact hr2
      exact nonneg_of_mul_nonneg_left this hpos
    refine ⟨⟨c.x * k, c.y * k, c.z * k⟩, ?_, ?_⟩ <;> simp only [BallAt]
    · have : k * k * (c.x * c.x + c.y * c.y + c.z * c.z) ≤ k * k * ((r1 + r2) * (r1 + r2)) :=
        mul_le_mul_of_nonneg_left h (mul_nonneg hk0 hk0)
      nlinarith
    · have : (1 - k) * (1 - k) * (c.x * c.x + c.y * c.y + c.z * c.z) ≤ (1 - k) * (1 - k) * ((r1 + r2) * (r1 + r2)) :=
        mul_le_mul_of_nonneg_left h (mul_nonneg hk3 hk3)
      nlinarith

/-- separated balls: the points `c·r1/S` and `c·(1 - r2/S)` realise the distance `S - r1 - r2` -/
theorem ball_attain_core (r1 r2 S : K) (c : V3 K) (hSpos : 0 < S)
    (hSS : S * S = c.x * c.x + c.y * c.y + c.z * c.z) :
    let a : V3 K := ⟨c.x / S * r1, c.y / S * r1, c.z / S * r1⟩
    let b : V3 K := ⟨c.x - c.x / S * r2, c.y - c.y / S * r2, c.z - c.z / S * r2⟩
    BallAt r1 ⟨0, 0, 0⟩ a ∧ BallAt r2 c b ∧
      (b.x - a.x) * (b.x - a.x) + (b.y - a.y) * (b.y - a.y) + (b.z - a.z) * (b.z - a.z)
        = (S - (r1 + r2)) * (S - (r1 + r2)) := by
  have hne : S ≠ 0 := ne_of_gt hSpos
  have hu : c.x / S * (c.x / S) + c.y / S * (c.y / S) + c.z / S * (c.z / S) = 1 := by
    field_simp; linarith
  have hx : c.x = c.x / S * S := by field_simp
  have hy : c.y = c.y / S * S := by field_simp
  have hz : c.z = c.z / S * S := by field_simp
  generalize c.x / S = ux at *; generalize c.y / S = uy at *; generalize c.z / S = uz at *
  refine ⟨?_, ?_, ?_⟩
  · simp only [BallAt]; nlinarith
  · simp only [BallAt]; nlinarith
  · simp only []; rw [hx, hy, hz]; nlinarith

section iso2
variable (sq : K → K)
theorem rot_smul3 (m : Iso3 K) (v : V3 K) (k : K) :
    letI := fieldNum K sq
    m.rot (v.smul k) = (m.rot v).smul k := by
  simp only [Iso3.rot, Iso3.rotQ, Iso3.qv, V3.add, V3.smul, V3.cross, fieldNum_two, V3.mk.injEq]
  refine ⟨?_, ?_, ?_⟩ <;> ring

theorem rot_normSq3 (m : Iso3 K) (v : V3 K)
    (hq : m.qi * m.qi + m.qj * m.qj + m.qk * m.qk + m.qw * m.qw = 1) :
    letI := fieldNum K sq
    (m.rot v).normSq = v.normSq := by
  have h1 := rot_adj3 sq m v (@Iso3.rot K (fieldNum K sq) m v)
  have h2 := invRot_rot3 sq m v hq
  simp only [V3.normSq]
  rw [h1, h2]
end iso2

end C01
