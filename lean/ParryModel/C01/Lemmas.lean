import ParryModel.Field
import ParryModel.C01.Model
/-!
# C01 helper lemmas: coordinate-wise vector algebra over an ordered field (no Mathlib analysis).
-/
namespace C01
open Model Model.Dist

variable {K : Type} [Field K] [LinearOrder K] [IsStrictOrderedRing K]

/-- The sign-bit primitives at the lawful instance: `+0` is the only zero, so `copysign mag sgn` is `-|mag|` when
`sgn < 0` and `|mag|` otherwise; the ulps comparison degenerates to its absolute-difference part. -/
@[reducible] def fieldBits (K : Type) [Field K] [LinearOrder K] [IsStrictOrderedRing K] : NumBits K where
  copysign mag sgn := if sgn < 0 then -|mag| else |mag|
  ulpsEq a b := decide (|a - b| ≤ ((mkRat 1 4503599627370496 : ℚ) : K))

/-- plain dot products / norms, free of any `Num` instance, used to state the lemmas -/
def dot3 (a b : V3 K) : K := a.x * b.x + a.y * b.y + a.z * b.z
def dot2 (a b : V2 K) : K := a.x * b.x + a.y * b.y

theorem cs3 (a b : V3 K) : (dot3 a b) ^ 2 ≤ dot3 a a * dot3 b b := by
  unfold dot3
  nlinarith [sq_nonneg (a.x * b.y - a.y * b.x), sq_nonneg (a.y * b.z - a.z * b.y), sq_nonneg (a.z * b.x - a.x * b.z)]

theorem cs2 (a b : V2 K) : (dot2 a b) ^ 2 ≤ dot2 a a * dot2 b b := by
  unfold dot2
  nlinarith [sq_nonneg (a.x * b.y - a.y * b.x)]

/-- from `x² ≤ y²` and `0 ≤ y` conclude `x ≤ y` -/
theorem le_of_sq_le_sq' {x y : K} (h : x ^ 2 ≤ y ^ 2) (hy : 0 ≤ y) : x ≤ y := by
  by_contra hc
  push Not at hc
  nlinarith [mul_pos (lt_of_le_of_lt hy hc) (lt_of_le_of_lt hy hc)]

theorem abs_le_of_sq_le_sq' {x y : K} (h : x ^ 2 ≤ y ^ 2) (hy : 0 ≤ y) : |x| ≤ y := by
  apply le_of_sq_le_sq' _ hy
  rwa [sq_abs]

end C01
