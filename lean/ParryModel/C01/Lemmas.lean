import ParryModel.Field
import ParryModel.C01.Model
/-!
# C01 helper lemmas: coordinate-wise vector algebra over an ordered field (no Mathlib analysis).
-/
namespace C01
open Model Model.Dist

variable {K : Type} [Field K] [LinearOrder K] [IsStrictOrderedRing K]

/-- The sign-bit primitives at the lawful instance: `+0` is the only zero, so `copysign mag sgn` is `-|mag|` when
`sgn < 0` and `|mag|` otherwise; the ulps comparison degenerates to its absolute-difference part. -/
@[reducible] def fieldBits (K : Type) [Field K] [LinearOrder K] [IsStrictOrderedRing K] : NumBits K where
  copysign mag sgn := if sgn < 0 then -|mag| else |mag|
  ulpsEq a b := decide (|a - b| ≤ ((mkRat 1 4503599627370496 : ℚ) : K))

theorem fieldNum_sqrt (sq : K → K) (x : K) : @Num.sqrt K (fieldNum K sq) x = sq x := rfl

/-- plain dot products / norms, free of any `Num` instance, used to state the lemmas -/
def dot3 (a b : V3 K) : K := a.x * b.x + a.y * b.y + a.z * b.z
def dot2 (a b : V2 K) : K := a.x * b.x + a.y * b.y

theorem cs3 (a b : V3 K) : (dot3 a b) ^ 2 ≤ dot3 a a * dot3 b b := by
  unfold dot3
  nlinarith [sq_nonneg (a.x * b.y - a.y * b.x), sq_nonneg (a.y * b.z - a.z * b.y), sq_nonneg (a.z * b.x - a.x * b.z)]

theorem cs2 (a b : V2 K) : (dot2 a b) ^ 2 ≤ dot2 a a * dot2 b b := by
  unfold dot2
  nlinarith [sq_nonneg (a.x * b.y - a.y * b.x)]

/-- from `x² ≤ y²` and `0 ≤ y` conclude `x ≤ y` -/
theorem le_of_sq_le_sq' {x y : K} (h : x ^ 2 ≤ y ^ 2) (hy : 0 ≤ y) : x ≤ y := by
  by_contra hc
  push Not at hc
  nlinarith [mul_pos (lt_of_le_of_lt hy hc) (lt_of_le_of_lt hy hc)]

theorem abs_le_of_sq_le_sq' {x y : K} (h : x ^ 2 ≤ y ^ 2) (hy : 0 ≤ y) : |x| ≤ y := by
  apply le_of_sq_le_sq' _ hy
  rwa [sq_abs]


/-! ## isometries -/
section iso
variable (sq : K → K)

/-- `(R v)·w = v·(Rᵀ w)` for nalgebra's quaternion formula — holds for **every** quaternion, unit or not -/
theorem rot_adj3 (m : Iso3 K) (v w : V3 K) :
    letI := fieldNum K sq
    (m.rot v).dot w = v.dot (m.invRot w) := by
  simp only [Iso3.rot, Iso3.invRot, Iso3.rotQ, Iso3.qv, V3.add, V3.smul, V3.cross, V3.dot, V3.neg, fieldNum_two]
  ring

theorem rot_invRot3 (m : Iso3 K) (v : V3 K)
    (hq : m.qi * m.qi + m.qj * m.qj + m.qk * m.qk + m.qw * m.qw = 1) :
    letI := fieldNum K sq
    m.rot (m.invRot v) = v := by
  obtain ⟨x, y, z⟩ := v
  simp only [Iso3.rot, Iso3.invRot, Iso3.rotQ, Iso3.qv, V3.add, V3.smul, V3.cross, V3.neg, fieldNum_two, V3.mk.injEq]
  refine ⟨?_, ?_, ?_⟩
  · linear_combination (-4 * (m.qi * (m.qi * x + m.qj * y + m.qk * z) - (m.qi * m.qi + m.qj * m.qj + m.qk * m.qk) * x)) * hq
  · linear_combination (-4 * (m.qj * (m.qi * x + m.qj * y + m.qk * z) - (m.qi * m.qi + m.qj * m.qj + m.qk * m.qk) * y)) * hq
  · linear_combination (-4 * (m.qk * (m.qi * x + m.qj * y + m.qk * z) - (m.qi * m.qi + m.qj * m.qj + m.qk * m.qk) * z)) * hq

theorem invRot_rot3 (m : Iso3 K) (v : V3 K)
    (hq : m.qi * m.qi + m.qj * m.qj + m.qk * m.qk + m.qw * m.qw = 1) :
    letI := fieldNum K sq
    m.invRot (m.rot v) = v := by
  obtain ⟨x, y, z⟩ := v
  simp only [Iso3.rot, Iso3.invRot, Iso3.rotQ, Iso3.qv, V3.add, V3.smul, V3.cross, V3.neg, fieldNum_two, V3.mk.injEq]
  refine ⟨?_, ?_, ?_⟩
  · linear_combination (-4 * (m.qi * (m.qi * x + m.qj * y + m.qk * z) - (m.qi * m.qi + m.qj * m.qj + m.qk * m.qk) * x)) * hq
  · linear_combination (-4 * (m.qj * (m.qi * x + m.qj * y + m.qk * z) - (m.qi * m.qi + m.qj * m.qj + m.qk * m.qk) * y)) * hq
  · linear_combination (-4 * (m.qk * (m.qi * x + m.qj * y + m.qk * z) - (m.qi * m.qi + m.qj * m.qj + m.qk * m.qk) * z)) * hq

theorem act_invAct3 (m : Iso3 K) (p : V3 K)
    (hq : m.qi * m.qi + m.qj * m.qj + m.qk * m.qk + m.qw * m.qw = 1) :
    letI := fieldNum K sq
    m.act (m.invAct p) = p := by
  have h := rot_invRot3 sq m (@V3.sub K (fieldNum K sq) p m.t) hq
  simp only [Iso3.act, Iso3.invAct, h]
  obtain ⟨x, y, z⟩ := p
  simp only [V3.add, V3.sub, V3.mk.injEq]
  refine ⟨?_, ?_, ?_⟩ <;> ring

theorem invAct_act3 (m : Iso3 K) (p : V3 K)
    (hq : m.qi * m.qi + m.qj * m.qj + m.qk * m.qk + m.qw * m.qw = 1) :
    letI := fieldNum K sq
    m.invAct (m.act p) = p := by
  have h := invRot_rot3 sq m p hq
  have e : ∀ r t : V3 K, @V3.sub K (fieldNum K sq) (@V3.add K (fieldNum K sq) r t) t = r := by
    rintro ⟨a, b, c⟩ ⟨d, e, f⟩
    simp only [V3.add, V3.sub, V3.mk.injEq]
    refine ⟨?_, ?_, ?_⟩ <;> ring
  simp only [Iso3.act, Iso3.invAct, e, h]

theorem rot_adj2 (m : Iso2 K) (v w : V2 K) :
    letI := fieldNum K sq
    (m.rot v).dot w = v.dot (m.invRot w) := by
  simp only [Iso2.rot, Iso2.invRot, V2.dot]
  ring

theorem rot_invRot2 (m : Iso2 K) (v : V2 K) (hq : m.re * m.re + m.im * m.im = 1) :
    letI := fieldNum K sq
    m.rot (m.invRot v) = v := by
  obtain ⟨x, y⟩ := v
  simp only [Iso2.rot, Iso2.invRot, V2.mk.injEq]
  refine ⟨?_, ?_⟩
  · linear_combination x * hq
  · linear_combination y * hq

theorem invRot_rot2 (m : Iso2 K) (v : V2 K) (hq : m.re * m.re + m.im * m.im = 1) :
    letI := fieldNum K sq
    m.invRot (m.rot v) = v := by
  obtain ⟨x, y⟩ := v
  simp only [Iso2.rot, Iso2.invRot, V2.mk.injEq]
  refine ⟨?_, ?_⟩
  · linear_combination x * hq
  · linear_combination y * hq

theorem act_invAct2 (m : Iso2 K) (p : V2 K) (hq : m.re * m.re + m.im * m.im = 1) :
    letI := fieldNum K sq
    m.act (m.invAct p) = p := by
  have h := rot_invRot2 sq m (@V2.sub K (fieldNum K sq) p m.t) hq
  simp only [Iso2.act, Iso2.invAct, h]
  obtain ⟨x, y⟩ := p
  simp only [V2.add, V2.sub, V2.mk.injEq]
  refine ⟨?_, ?_⟩ <;> ring

end iso

/-- separation along a direction: if `|d| = L > 0` and `d·e ≥ L·m ≥ 0` then `|e| ≥ m` (squared form) -/
theorem sep_along3 (d e : V3 K) (L m : K) (hL : 0 < L) (hdd : dot3 d d = L * L) (hm : 0 ≤ m)
    (h : L * m ≤ dot3 d e) : m * m ≤ dot3 e e := by
  have hcs := cs3 d e
  rw [hdd] at hcs
  have h2 : (L * m) ^ 2 ≤ (dot3 d e) ^ 2 := pow_le_pow_left₀ (mul_nonneg hL.le hm) h 2
  have h3 : L * L * (m * m) ≤ L * L * dot3 e e := by nlinarith
  exact le_of_mul_le_mul_left h3 (mul_pos hL hL)

theorem sep_along2 (d e : V2 K) (L m : K) (hL : 0 < L) (hdd : dot2 d d = L * L) (hm : 0 ≤ m)
    (h : L * m ≤ dot2 d e) : m * m ≤ dot2 e e := by
  have hcs := cs2 d e
  rw [hdd] at hcs
  have h2 : (L * m) ^ 2 ≤ (dot2 d e) ^ 2 := pow_le_pow_left₀ (mul_nonneg hL.le hm) h 2
  have h3 : L * L * (m * m) ≤ L * L * dot2 e e := by nlinarith
  exact le_of_mul_le_mul_left h3 (mul_pos hL hL)

/-- `d·a ≤ L·r` when `|d| = L`, `|a| ≤ r` (Cauchy–Schwarz without square roots of the operands) -/
theorem dot_le3 (d a : V3 K) (L r : K) (hL : 0 ≤ L) (hr : 0 ≤ r) (hdd : dot3 d d = L * L)
    (ha : dot3 a a ≤ r * r) : dot3 d a ≤ L * r := by
  apply le_of_sq_le_sq' _ (mul_nonneg hL hr)
  have := cs3 d a
  rw [hdd] at this
  nlinarith [mul_nonneg hL hL]

theorem dot_le2 (d a : V2 K) (L r : K) (hL : 0 ≤ L) (hr : 0 ≤ r) (hdd : dot2 d d = L * L)
    (ha : dot2 a a ≤ r * r) : dot2 d a ≤ L * r := by
  apply le_of_sq_le_sq' _ (mul_nonneg hL hr)
  have := cs2 d a
  rw [hdd] at this
  nlinarith [mul_nonneg hL hL]

/-- the ball of radius `r` centred at `c` -/
def BallAt (r : K) (c : V3 K) (p : V3 K) : Prop :=
  (p.x - c.x) * (p.x - c.x) + (p.y - c.y) * (p.y - c.y) + (p.z - c.z) * (p.z - c.z) ≤ r * r

/-- two balls whose centres are `S = |c|` apart with `r1 + r2 < S`: every pair of points is at least `S - r1 - r2` apart -/
theorem ball_sep_core (r1 r2 S : K) (c : V3 K) (hr1 : 0 ≤ r1) (hr2 : 0 ≤ r2) (hS0 : 0 ≤ S)
    (hSS : S * S = c.x * c.x + c.y * c.y + c.z * c.z) (hgt : r1 + r2 < S) (a b : V3 K)
    (ha : BallAt r1 ⟨0, 0, 0⟩ a) (hb : BallAt r2 c b) :
    (S - (r1 + r2)) * (S - (r1 + r2)) ≤
      (b.x - a.x) * (b.x - a.x) + (b.y - a.y) * (b.y - a.y) + (b.z - a.z) * (b.z - a.z) := by
  simp only [BallAt] at ha hb
  have hSpos : 0 < S := lt_of_le_of_lt (add_nonneg hr1 hr2) hgt
  have h1 := dot_le3 c a S r1 hS0 hr1 (by simp only [dot3]; linarith) (by simp only [dot3]; nlinarith)
  have h2 := dot_le3 c ⟨c.x - b.x, c.y - b.y, c.z - b.z⟩ S r2 hS0 hr2 (by simp only [dot3]; linarith)
    (by simp only [dot3]; nlinarith)
  have h3 := sep_along3 c ⟨b.x - a.x, b.y - a.y, b.z - a.z⟩ S (S - (r1 + r2)) hSpos
    (by simp only [dot3]; linarith) (by linarith) (by simp only [dot3] at *; nlinarith)
  simp only [dot3] at h3
  linarith

/-- overlapping balls (`|c|² ≤ (r1+r2)²`) share a point -/
theorem ball_overlap_core (r1 r2 : K) (c : V3 K) (hr1 : 0 ≤ r1) (hr2 : 0 ≤ r2)
    (h : c.x * c.x + c.y * c.y + c.z * c.z ≤ (r1 + r2) * (r1 + r2)) :
    ∃ p, BallAt r1 ⟨0, 0, 0⟩ p ∧ BallAt r2 c p := by
  rcases eq_or_lt_of_le (add_nonneg hr1 hr2) with h0 | hpos
  · refine ⟨⟨0, 0, 0⟩, ?_, ?_⟩ <;> simp only [BallAt]
    · nlinarith
    · rw [← h0] at h; nlinarith [mul_self_nonneg r2]
  · set k := r1 / (r1 + r2) with hk
    have hk1 : k * (r1 + r2) = r1 := div_mul_cancel₀ _ (ne_of_gt hpos)
    have hk0 : 0 ≤ k := div_nonneg hr1 hpos.le
    have hk2 : (1 - k) * (r1 + r2) = r2 := by linarith
    have hk3 : 0 ≤ 1 - k := by
      have : 0 ≤ (1 - k) * (r1 + r2) := by rw [hk2]; exact hr2
      exact nonneg_of_mul_nonneg_left this hpos
    refine ⟨⟨c.x * k, c.y * k, c.z * k⟩, ?_, ?_⟩ <;> simp only [BallAt]
    · have : k * k * (c.x * c.x + c.y * c.y + c.z * c.z) ≤ k * k * ((r1 + r2) * (r1 + r2)) :=
        mul_le_mul_of_nonneg_left h (mul_nonneg hk0 hk0)
      nlinarith
    · have : (1 - k) * (1 - k) * (c.x * c.x + c.y * c.y + c.z * c.z) ≤ (1 - k) * (1 - k) * ((r1 + r2) * (r1 + r2)) :=
        mul_le_mul_of_nonneg_left h (mul_nonneg hk3 hk3)
      nlinarith

/-- separated balls: the points `c·r1/S` and `c·(1 - r2/S)` realise the distance `S - r1 - r2` -/
theorem ball_attain_core (r1 r2 S : K) (c : V3 K) (hSpos : 0 < S)
    (hSS : S * S = c.x * c.x + c.y * c.y + c.z * c.z) :
    let a : V3 K := ⟨c.x / S * r1, c.y / S * r1, c.z / S * r1⟩
    let b : V3 K := ⟨c.x - c.x / S * r2, c.y - c.y / S * r2, c.z - c.z / S * r2⟩
    BallAt r1 ⟨0, 0, 0⟩ a ∧ BallAt r2 c b ∧
      (b.x - a.x) * (b.x - a.x) + (b.y - a.y) * (b.y - a.y) + (b.z - a.z) * (b.z - a.z)
        = (S - (r1 + r2)) * (S - (r1 + r2)) := by
  have hne : S ≠ 0 := ne_of_gt hSpos
  have hu : c.x / S * (c.x / S) + c.y / S * (c.y / S) + c.z / S * (c.z / S) = 1 := by
    field_simp; linarith
  have hx : c.x = c.x / S * S := by field_simp
  have hy : c.y = c.y / S * S := by field_simp
  have hz : c.z = c.z / S * S := by field_simp
  generalize c.x / S = ux at *; generalize c.y / S = uy at *; generalize c.z / S = uz at *
  refine ⟨?_, ?_, ?_⟩
  · simp only [BallAt]; nlinarith
  · simp only [BallAt]; nlinarith
  · simp only []; rw [hx, hy, hz]; nlinarith

section iso2
variable (sq : K → K)
theorem rot_smul3 (m : Iso3 K) (v : V3 K) (k : K) :
    letI := fieldNum K sq
    m.rot (v.smul k) = (m.rot v).smul k := by
  simp only [Iso3.rot, Iso3.rotQ, Iso3.qv, V3.add, V3.smul, V3.cross, fieldNum_two, V3.mk.injEq]
  refine ⟨?_, ?_, ?_⟩ <;> ring

theorem rot_normSq3 (m : Iso3 K) (v : V3 K)
    (hq : m.qi * m.qi + m.qj * m.qj + m.qk * m.qk + m.qw * m.qw = 1) :
    letI := fieldNum K sq
    (m.rot v).normSq = v.normSq := by
  have h1 := rot_adj3 sq m v (@Iso3.rot K (fieldNum K sq) m v)
  have h2 := invRot_rot3 sq m v hq
  simp only [V3.normSq]
  rw [h1, h2]
end iso2

theorem cs_axis (h d y : K) (hh : 0 ≤ h) (h1 : -h ≤ y) (h2 : y ≤ h) :
    d * y ≤ d * (if d < 0 then -|h| else |h|) := by
  rw [abs_of_nonneg hh]
  split_ifs with hd
  · nlinarith
  · push Not at hd; nlinarith


/-! ## segment / segment: the scalar clamping analysis -/

/-- 1-D optimality (KKT) of `s ∈ [0,1]` for the convex parabola with derivative `c + a·s` -/
def Opt1 (a c s : K) : Prop :=
  0 ≤ s ∧ s ≤ 1 ∧ ((c + a * s = 0) ∨ (s = 0 ∧ 0 ≤ c + a * s) ∨ (s = 1 ∧ c + a * s ≤ 0))

theorem opt1_clamp (a c : K) (ha : 0 < a) :
    Opt1 a c (if 0 < -c / a then (if -c / a < 1 then -c / a else 1) else 0) := by
  have hne : a ≠ 0 := ne_of_gt ha
  unfold Opt1
  split_ifs with h1 h2
  · refine ⟨h1.le, h2.le, Or.inl ?_⟩
    field_simp
    ring
  · push Not at h2
    refine ⟨zero_le_one, le_refl _, Or.inr (Or.inr ⟨rfl, ?_⟩)⟩
    have : 1 * a ≤ -c / a * a := mul_le_mul_of_nonneg_right h2 ha.le
    rw [div_mul_cancel₀ _ hne] at this
    linarith
  · push Not at h1
    refine ⟨le_refl _, zero_le_one, Or.inr (Or.inl ⟨rfl, ?_⟩)⟩
    have : -c / a * a ≤ 0 * a := mul_le_mul_of_nonneg_right h1 ha.le
    rw [div_mul_cancel₀ _ hne] at this
    linarith

/-- the variational inequality in one variable -/
theorem opt1_var (a c s s' : K) (h : Opt1 a c s) (h0 : 0 ≤ s') (h1 : s' ≤ 1) : 0 ≤ (c + a * s) * (s' - s) := by
  obtain ⟨_, _, h | ⟨rfl, h⟩ | ⟨rfl, h⟩⟩ := h
  · rw [h]; simp
  · nlinarith
  · nlinarith

/-- positive semi-definiteness of the quadratic part -/
theorem psd2 (a b e x y : K) (ha : 0 ≤ a) (he : 0 ≤ e) (h : b * b ≤ a * e) :
    0 ≤ a * x * x - 2 * b * x * y + e * y * y := by
  rcases eq_or_lt_of_le ha with h0 | hpos
  · have hb : b = 0 := by
      have : b * b ≤ 0 := by rw [← h0] at h; simpa using h
      nlinarith [mul_self_nonneg b]
    rw [← h0, hb]; nlinarith [mul_self_nonneg y]
  · have : 0 ≤ a * (a * x * x - 2 * b * x * y + e * y * y) := by
      nlinarith [mul_self_nonneg (a * x - b * y), mul_nonneg (sub_nonneg.2 h) (mul_self_nonneg y)]
    exact nonneg_of_mul_nonneg_right this hpos

/-- the objective `|r + s·d1 - t·d2|² - |r|²` in the scalars `a = |d1|²`, `b = d1·d2`, `c = d1·r`, `e = |d2|²`, `f = d2·r` -/
def Qf (a b c e f s t : K) : K := a * s * s - 2 * b * s * t + e * t * t + 2 * c * s - 2 * f * t

/-- KKT ⇒ optimal: the variational inequality at `(s,t)` towards `(s',t')` implies `Q(s,t) ≤ Q(s',t')` -/
theorem kkt_opt (a b c e f s t s' t' : K) (ha : 0 ≤ a) (he : 0 ≤ e) (h : b * b ≤ a * e)
    (hv : 0 ≤ (c + a * s - b * t) * (s' - s) - (f + b * s - e * t) * (t' - t)) :
    Qf a b c e f s t ≤ Qf a b c e f s' t' := by
  have := psd2 a b e (s' - s) (t' - t) ha he h
  unfold Qf
  nlinarith

/-- **the key claim of the clamping analysis**: if the unconstrained-in-`t` optimum over `s ∈ [0,1]` sits at `s0` with
`t0 = (b·s0 + f)/e < 0`, then after re-optimising `s` on the edge `t = 0` (`s1`), the `t`-derivative still points
outwards: `f + b·s1 ≤ 0`. (`p = e(c + a s0) - b(b s0 + f)` is `e` times the `s`-derivative at `(s0, t0)`.) -/
theorem clamp_claim (a b c e f s0 s1 : K) (ha : 0 < a) (he : 0 < e) (h : b * b ≤ a * e)
    (h00 : 0 ≤ s0) (h01 : s0 ≤ 1)
    (hp : (e * (c + a * s0) - b * (b * s0 + f) = 0) ∨ (s0 = 0 ∧ 0 ≤ e * (c + a * s0) - b * (b * s0 + f)) ∨
          (s0 = 1 ∧ e * (c + a * s0) - b * (b * s0 + f) ≤ 0))
    (hv : b * s0 + f < 0) (h1 : Opt1 a c s1) : f + b * s1 ≤ 0 := by
  obtain ⟨h10, h11, hs1⟩ := h1
  by_contra hcon
  push Not at hcon
  -- b (s1 - s0) > 0
  have hb : 0 < b * (s1 - s0) := by nlinarith
  rcases lt_trichotomy s1 s0 with hlt | heq | hgt
  · -- s1 < s0, hence b < 0, s0 > 0 so p ≤ 0, and c + a s1 ≥ 0
    have hbneg : b < 0 := by
      by_contra hh; push Not at hh
      nlinarith [mul_nonneg hh (sub_nonneg.2 hlt.le)]
    have hp' : e * (c + a * s0) - b * (b * s0 + f) ≤ 0 := by
      rcases hp with hp | ⟨hp, _⟩ | ⟨_, hp⟩
      · rw [hp]
      · rw [hp] at hlt; linarith
      · exact hp
    have hd : 0 ≤ c + a * s1 := by
      rcases hs1 with hs | ⟨_, hs⟩ | ⟨hs, _⟩
      · rw [hs]
      · exact hs
      · rw [hs] at hlt; linarith
    -- a v ≤ b u with u = c + a s0, v = b s0 + f
    have k1 : b * b * (b * s0 + f) ≤ b * e * (c + a * s0) := by nlinarith [mul_nonneg_of_nonpos_of_nonpos hbneg.le hp']
    have k2 : a * e * (b * s0 + f) ≤ b * b * (b * s0 + f) := by nlinarith [mul_nonneg_of_nonpos_of_nonpos (sub_nonpos.2 h) hv.le]
    have k3 : a * (b * s0 + f) ≤ b * (c + a * s0) := by
      have : e * (a * (b * s0 + f)) ≤ e * (b * (c + a * s0)) := by nlinarith
      exact le_of_mul_le_mul_left this he
    -- a (f + b s1) = a v + b a (s1 - s0) ≤ b u + b (a s1 - a s0) = b (c + a s1) ≤ 0
    have : a * (f + b * s1) ≤ b * (c + a * s1) := by nlinarith
    nlinarith [mul_nonneg_of_nonpos_of_nonpos hbneg.le (neg_nonpos.2 hd), mul_pos ha hcon]
  · rw [heq] at hb; simp at hb
  · have hbpos : 0 < b := by
      by_contra hh; push Not at hh
      nlinarith [mul_nonneg_of_nonpos_of_nonpos hh (sub_nonpos.2 hgt.le |> fun x => by linarith : s0 - s1 ≤ 0)]
    have hp' : 0 ≤ e * (c + a * s0) - b * (b * s0 + f) := by
      rcases hp with hp | ⟨_, hp⟩ | ⟨hp, _⟩
      · rw [hp]
      · exact hp
      · rw [hp] at hgt; linarith
    have hd : c + a * s1 ≤ 0 := by
      rcases hs1 with hs | ⟨hs, _⟩ | ⟨_, hs⟩
      · rw [hs]
      · rw [hs] at hgt; linarith
      · exact hs
    have k1 : b * b * (b * s0 + f) ≤ b * e * (c + a * s0) := by nlinarith [mul_nonneg hbpos.le hp']
    have k2 : a * e * (b * s0 + f) ≤ b * b * (b * s0 + f) := by nlinarith [mul_nonneg_of_nonpos_of_nonpos (sub_nonpos.2 h) hv.le]
    have k3 : a * (b * s0 + f) ≤ b * (c + a * s0) := by
      have : e * (a * (b * s0 + f)) ≤ e * (b * (c + a * s0)) := by nlinarith
      exact le_of_mul_le_mul_left this he
    have : a * (f + b * s1) ≤ b * (c + a * s1) := by nlinarith
    nlinarith [mul_nonneg hbpos.le (neg_nonneg.2 hd), mul_pos ha hcon]

section segseg
variable (sq : K → K)
theorem eps_nonneg : (0 : K) ≤ @eps K (fieldNum K sq) := by
  simp only [eps, fieldNum_lit]
  have : (0:ℚ) ≤ mkRat 1 4503599627370496 := by rw [Rat.mkRat_eq_div]; positivity
  exact_mod_cast this

theorem opt1_clamp01 (a c : K) (ha : 0 < a) : Opt1 a c (@clamp01 K (fieldNum K sq) (-c / a)) := by
  have := opt1_clamp a c ha
  simpa [clamp01] using this

theorem clamp01_range (x : K) : 0 ≤ @clamp01 K (fieldNum K sq) x ∧ @clamp01 K (fieldNum K sq) x ≤ 1 := by
  simp only [clamp01]
  split_ifs with h1 h2
  · exact ⟨h1.le, h2.le⟩
  · exact ⟨zero_le_one, le_refl _⟩
  · exact ⟨le_refl _, zero_le_one⟩

/-- the conclusion shared by all branches: parameters in the unit square + variational inequality -/
def SegKKT (A B C E F : K) (st : K × K) : Prop :=
  0 ≤ st.1 ∧ st.1 ≤ 1 ∧ 0 ≤ st.2 ∧ st.2 ≤ 1 ∧
    ∀ s' t', 0 ≤ s' → s' ≤ 1 → 0 ≤ t' → t' ≤ 1 →
      0 ≤ (C + A * st.1 - B * st.2) * (s' - st.1) - (F + B * st.1 - E * st.2) * (t' - st.2)

/-- the `s`-stationarity of the first stage, `p = E(C + A s0) - B(B s0 + F)` -/
def Stage1 (A B C E F s0 : K) : Prop :=
  0 ≤ s0 ∧ s0 ≤ 1 ∧
  ((E * (C + A * s0) - B * (B * s0 + F) = 0) ∨ (s0 = 0 ∧ 0 ≤ E * (C + A * s0) - B * (B * s0 + F)) ∨
    (s0 = 1 ∧ E * (C + A * s0) - B * (B * s0 + F) ≤ 0))

theorem stage1_nonparallel (A B C E F : K) (hD : 0 < A * E - B * B) :
    Stage1 A B C E F (@clamp01 K (fieldNum K sq) ((B * F - C * E) / (A * E - B * B))) := by
  have h := opt1_clamp01 sq (A * E - B * B) (C * E - B * F) hD
  have e : -(C * E - B * F) / (A * E - B * B) = (B * F - C * E) / (A * E - B * B) := by ring
  rw [e] at h
  obtain ⟨h0, h1, h2⟩ := h
  refine ⟨h0, h1, ?_⟩
  generalize @clamp01 K (fieldNum K sq) ((B * F - C * E) / (A * E - B * B)) = s0 at *
  have ep : E * (C + A * s0) - B * (B * s0 + F) = C * E - B * F + (A * E - B * B) * s0 := by ring
  rw [ep]; exact h2

theorem stage1_parallel (A B C E F : K) (_hD : A * E - B * B = 0) (hpar : B * F = C * E) : Stage1 A B C E F 0 := by
  refine ⟨le_refl _, zero_le_one, Or.inl ?_⟩
  linarith

theorem seg_mid (A B C E F s0 : K) (hE : 0 < E) (h1 : Stage1 A B C E F s0)
    (ht0 : ¬ (B * s0 + F) / E < 0) (ht1 : ¬ 1 < (B * s0 + F) / E) : SegKKT A B C E F (s0, (B * s0 + F) / E) := by
  obtain ⟨h00, h01, hp⟩ := h1
  push Not at ht0 ht1
  refine ⟨h00, h01, ht0, ht1, fun s' t' hs0 hs1 _ _ => ?_⟩
  have hne : E ≠ 0 := ne_of_gt hE
  have e2 : F + B * s0 - E * ((B * s0 + F) / E) = 0 := by field_simp; ring
  have e1 : E * (C + A * s0 - B * ((B * s0 + F) / E)) = E * (C + A * s0) - B * (B * s0 + F) := by field_simp
  simp only [e2, zero_mul, sub_zero]
  have : 0 ≤ E * ((C + A * s0 - B * ((B * s0 + F) / E)) * (s' - s0)) := by
    rw [← mul_assoc, e1]
    rcases hp with hp | ⟨rfl, hp⟩ | ⟨rfl, hp⟩
    · rw [hp]; simp
    · nlinarith
    · nlinarith
  exact nonneg_of_mul_nonneg_right this hE

theorem seg_neg (A B C E F s0 : K) (hA : 0 < A) (hE : 0 < E) (hcs : B * B ≤ A * E) (h1 : Stage1 A B C E F s0)
    (ht0 : (B * s0 + F) / E < 0) : SegKKT A B C E F (@clamp01 K (fieldNum K sq) (-C / A), 0) := by
  obtain ⟨h00, h01, hp⟩ := h1
  have hv : B * s0 + F < 0 := by
    have := mul_neg_of_neg_of_pos ht0 hE
    rwa [div_mul_cancel₀ _ (ne_of_gt hE)] at this
  have ho := opt1_clamp01 sq A C hA
  have hcl := clamp_claim A B C E F s0 _ hA hE hcs h00 h01 hp hv ho
  obtain ⟨r0, r1⟩ := clamp01_range sq (-C / A)
  refine ⟨r0, r1, le_refl _, zero_le_one, fun s' t' hs0 hs1 ht0' _ => ?_⟩
  have hvar := opt1_var A C _ s' ho hs0 hs1
  generalize @clamp01 K (fieldNum K sq) (-C / A) = s1 at *
  simp only [mul_zero, sub_zero]
  nlinarith [mul_nonneg (neg_nonneg.2 hcl) ht0']

theorem seg_pos (A B C E F s0 : K) (hA : 0 < A) (hE : 0 < E) (hcs : B * B ≤ A * E) (h1 : Stage1 A B C E F s0)
    (ht1 : 1 < (B * s0 + F) / E) : SegKKT A B C E F (@clamp01 K (fieldNum K sq) ((B - C) / A), 1) := by
  obtain ⟨h00, h01, hp⟩ := h1
  have hv : -B * s0 + (E - F) < 0 := by
    have := mul_lt_mul_of_pos_right ht1 hE
    rw [div_mul_cancel₀ _ (ne_of_gt hE)] at this
    linarith
  have ho := opt1_clamp01 sq A (C - B) hA
  have e : -(C - B) / A = (B - C) / A := by ring
  rw [e] at ho
  have hp' : (E * ((C - B) + A * s0) - (-B) * (-B * s0 + (E - F)) = 0) ∨
      (s0 = 0 ∧ 0 ≤ E * ((C - B) + A * s0) - (-B) * (-B * s0 + (E - F))) ∨
      (s0 = 1 ∧ E * ((C - B) + A * s0) - (-B) * (-B * s0 + (E - F)) ≤ 0) := by
    have ee : E * ((C - B) + A * s0) - (-B) * (-B * s0 + (E - F)) = E * (C + A * s0) - B * (B * s0 + F) := by ring
    rw [ee]; exact hp
  have hcl := clamp_claim A (-B) (C - B) E (E - F) s0 _ hA hE (by nlinarith) h00 h01 hp' hv ho
  obtain ⟨r0, r1⟩ := clamp01_range sq ((B - C) / A)
  refine ⟨r0, r1, zero_le_one, le_refl _, fun s' t' hs0 hs1 _ ht1' => ?_⟩
  have hvar := opt1_var A (C - B) _ s' ho hs0 hs1
  generalize @clamp01 K (fieldNum K sq) ((B - C) / A) = s1 at *
  simp only [mul_one]
  nlinarith [mul_nonneg (neg_nonneg.2 hcl) (sub_nonneg.2 ht1')]

end segseg

end C01
