import ParryModel.Proto
import ParryModel.C01.Model
import ParryModel.C01.Oracle
import ParryModel.C01.DriverGjk
import ParryModel.C01.ModelGlue
import ParryModel.C01.ModelGlue2
/-! C01 protocol handlers: model evaluation at `Float` (closed forms, SAT) and exact-`Rat` certificate oracles on the
implementation's output (closed forms **and** the end-to-end `query::distance` / `query::closest_points`). -/
namespace C01
open Model Model.Dist Proto C01.Oracle

/-! ### printing -/
def fcp3 : CP (V3 Float) → String
  | .intersecting => "I"
  | .disjoint => "D"
  | .within a b => s!"W {fv3 a} {fv3 b}"
def fcp2 : CP (V2 Float) → String
  | .intersecting => "I"
  | .disjoint => "D"
  | .within a b => s!"W {fv2 a} {fv2 b}"
def fcpo3 : Option (CP (V3 Float)) → String
  | none => "panic"
  | some r => fcp3 r
def fcpo2 : Option (CP (V2 Float)) → String
  | none => "panic"
  | some r => fcp2 r

/-! ### parsing implementation output -/
def pvo3 : P (V3 Float) := do let x ← pfo; let y ← pfo; let z ← pfo; pure ⟨x, y, z⟩
def pvo2 : P (V2 Float) := do let x ← pfo; let y ← pfo; pure ⟨x, y⟩
def emb (v : V2 Rat) : Q3 := ⟨v.x, v.y, 0⟩

def okF (x : Float) : Bool := FloatIO.isFinite x
def ok3 (v : V3 Float) : Bool := okF v.x && okF v.y && okF v.z
def ok2 (v : V2 Float) : Bool := okF v.x && okF v.y

/-- raw result in the coordinates the function uses; `none` = unparsable / non-finite -/
inductive Raw where
  | I | D | U | panic | bad
  | W (a b : Q3)

def praw (dim3 : Bool) : P Raw := do
  let t ← tok
  match t with
  | "I" => pure .I
  | "D" => pure .D
  | "U" => pure .U
  | "panic" => pure .panic
  | "W" =>
    if dim3 then do
      let a ← pvo3; let b ← pvo3
      if ok3 a && ok3 b then pure (.W (q3 a) (q3 b)) else pure .bad
    else do
      let a ← pvo2; let b ← pvo2
      if ok2 a && ok2 b then pure (.W (emb (q2 a)) (emb (q2 b))) else pure .bad
  | _ => failure

/-- convert a raw result to world coordinates with the two maps -/
def Raw.toRes (r : Raw) (f1 f2 : Q3 → Q3) : Option Res :=
  match r with
  | .I => some .intersecting
  | .D => some .disjoint
  | .U => some .unsupported
  | .panic => some .panic
  | .W a b => some (.within (f1 a) (f2 b))
  | .bad => none

/-! ### shapes on the wire -/
def pshapeCore3 (k : String) : P Sh := do
  match k with
  | "ball" => do let r ← pf; pure (.ball (q r))
  | "cuboid" => do let h ← pv3; pure (.cuboid (q3 h))
  | "capsule" => do let a ← pv3; let b ← pv3; let r ← pf; pure (.capsule (q3 a) (q3 b) (q r))
  | "segment" => do let a ← pv3; let b ← pv3; pure (.segment (q3 a) (q3 b))
  | "triangle" => do let a ← pv3; let b ← pv3; let c ← pv3; pure (.triangle (q3 a) (q3 b) (q3 c))
  | "cone" => do let h ← pf; let r ← pf; pure (.cone (q h) (q r))
  | "cylinder" => do let h ← pf; let r ← pf; pure (.cylinder (q h) (q r))
  | "convex" => do let ps ← plist pv3; pure (.poly3 (ps.map q3))
  | "halfspace" => do let n ← pv3; pure (.halfspace (q3 n))
  | _ => failure

/-- `round <inner shape> <border radius>` or a plain shape -/
def pshape3 : P Sh := do
  let k ← tok
  if k = "round" then do let k2 ← tok; let i ← pshapeCore3 k2; let r ← pf; pure (.round i (q r))
  else pshapeCore3 k

def pshapeCore2 (k : String) : P Sh := do
  match k with
  | "ball" => do let r ← pf; pure (.ball (q r))
  | "cuboid" => do let h ← pv2; pure (.cuboid (emb (q2 h)))
  | "capsule" => do let a ← pv2; let b ← pv2; let r ← pf; pure (.capsule (emb (q2 a)) (emb (q2 b)) (q r))
  | "segment" => do let a ← pv2; let b ← pv2; pure (.segment (emb (q2 a)) (emb (q2 b)))
  | "triangle" => do let a ← pv2; let b ← pv2; let c ← pv2; pure (.triangle (emb (q2 a)) (emb (q2 b)) (emb (q2 c)))
  | "convex" => do let ps ← plist pv2; pure (.polygon (ps.map fun p => emb (q2 p)))
  | "halfspace" => do let n ← pv2; pure (.halfspace (emb (q2 n)))
  | _ => failure

def pshape2 : P Sh := do
  let k ← tok
  if k = "round" then do let k2 ← tok; let i ← pshapeCore2 k2; let r ← pf; pure (.round i (q r))
  else pshapeCore2 k

/-- tail of an end-to-end output: `H <raw> C <n> pts…` (hint result for `max_dist = MAX`, candidate overlap points) -/
def ptail (dim3 : Bool) : P (Raw × List Q3) := do
  let h ← tok
  if h ≠ "H" then failure
  let r ← praw dim3
  let c ← tok
  if c ≠ "C" then failure
  let n ← pnat
  let rec go : Nat → P (List Q3)
    | 0 => pure []
    | k+1 => do
      let p ← (if dim3 then do let v ← pvo3; pure (if ok3 v then some (q3 v) else none)
               else do let v ← pvo2; pure (if ok2 v then some (emb (q2 v)) else none))
      let ps ← go k
      pure (match p with | some x => x :: ps | none => ps)
  let pts ← go n
  pure (r, pts)

/-- domain guard for end-to-end cases: extents in [1e-2,1e2] are guaranteed by the generator; here only finiteness -/
def hintsOf (h : Raw) (f1 f2 : Q3 → Q3) : List Res := match h.toRes f1 f2 with
  | some r => [r]
  | none => []

/-- round shapes always go through GJK and are curved: accuracy comparisons use the curved-support-map tolerance (×10) -/
def roundScale (A B : Placed) : Rat :=
  match A.sh, B.sh with
  | .round .., _ => 10
  | _, .round .. => 10
  | _, _ => 1

/-- world form (`query::closest_points(pos1, g1, pos2, g2, max_dist)`): witnesses are already in world space -/
def oracleCPWorld (dim3 : Bool) (a o : List String) : String :=
  let parsed := if dim3 then
      run (do let m ← pf; let s1 ← pshape3; let p1 ← piso3; let s2 ← pshape3; let p2 ← piso3
              pure (q m, (⟨s1, Aff.ofIso3 (qiso3 p1)⟩ : Placed), (⟨s2, Aff.ofIso3 (qiso3 p2)⟩ : Placed))) a
    else
      run (do let m ← pf; let s1 ← pshape2; let p1 ← piso2; let s2 ← pshape2; let p2 ← piso2
              pure (q m, (⟨s1, Aff.ofIso2 (qiso2 p1)⟩ : Placed), (⟨s2, Aff.ofIso2 (qiso2 p2)⟩ : Placed))) a
  match parsed with
  | none => "skip bad-args"
  | some (m, A, B) =>
    match run (do let r ← praw dim3; let t ← ptail dim3; pure (r, t)) o with
    | none => "fail unparsable-output"
    | some (r, (h, pts)) =>
      match r.toRes id id with
      | none => s!"fail route={A.sh.kind}x{B.sh.kind} non-finite-witness"
      | some res => judgeCP A B m res (hintsOf h id id) pts (!dim3) (roundScale A B)

/-- dispatcher form (`DefaultQueryDispatcher.closest_points(pos12, g1, g2, max_dist)`): witnesses in local frames -/
def oracleCPLocal (dim3 : Bool) (a o : List String) : String :=
  let parsed := if dim3 then
      run (do let m ← pf; let s1 ← pshape3; let s2 ← pshape3; let p ← piso3
              pure (q m, (⟨s1, Aff.identity⟩ : Placed), (⟨s2, Aff.ofIso3 (qiso3 p)⟩ : Placed))) a
    else
      run (do let m ← pf; let s1 ← pshape2; let s2 ← pshape2; let p ← piso2
              pure (q m, (⟨s1, Aff.identity⟩ : Placed), (⟨s2, Aff.ofIso2 (qiso2 p)⟩ : Placed))) a
  match parsed with
  | none => "skip bad-args"
  | some (m, A, B) =>
    match run (do let r ← praw dim3; let t ← ptail dim3; pure (r, t)) o with
    | none => "fail unparsable-output"
    | some (r, (h, pts)) =>
      match r.toRes id B.pose.act with
      | none => s!"fail route={A.sh.kind}x{B.sh.kind} non-finite-witness"
      | some res => judgeCP A B m res (hintsOf h id B.pose.act) (pts.map id) (!dim3) (roundScale A B)

def oracleDistWorld (dim3 : Bool) (a o : List String) : String :=
  let parsed := if dim3 then
      run (do let s1 ← pshape3; let p1 ← piso3; let s2 ← pshape3; let p2 ← piso3
              pure ((⟨s1, Aff.ofIso3 (qiso3 p1)⟩ : Placed), (⟨s2, Aff.ofIso3 (qiso3 p2)⟩ : Placed))) a
    else
      run (do let s1 ← pshape2; let p1 ← piso2; let s2 ← pshape2; let p2 ← piso2
              pure ((⟨s1, Aff.ofIso2 (qiso2 p1)⟩ : Placed), (⟨s2, Aff.ofIso2 (qiso2 p2)⟩ : Placed))) a
  match parsed with
  | none => "skip bad-args"
  | some (A, B) =>
    match o with
    | "U" :: _ => "skip unsupported-pair"
    | "panic" :: _ => s!"fail route={A.sh.kind}x{B.sh.kind} panic"
    | _ =>
    match run (do let x ← pfo; let t ← ptail dim3; pure (x, t)) o with
    | none => "fail unparsable-output"
    | some (x, (h, pts)) =>
      if !okF x then s!"fail route={A.sh.kind}x{B.sh.kind} non-finite-distance" else
      judgeDist A B (q x) (hintsOf h id id) pts (!dim3) (roundScale A B)

/-! ### histories: ONE `VoronoiSimplex` reused by a sequence of `*_support_map_support_map_with_params` queries -/

/-- one step of a history: `d` = `distance_…_with_params`, `c <max_dist>` = `closest_points_…_with_params`;
shape 1 in its local frame, shape 2 placed by `pos12`; both witnesses are reported in the frame of shape 1 -/
structure HStep where
  isDist : Bool
  maxDist : Rat
  A : Placed
  B : Placed

def phstep (dim3 : Bool) : P HStep := do
  let op ← tok
  let (isD, m) ← (if op = "d" then pure (true, (0 : Rat)) else if op = "c" then do let m ← pf; pure (false, q m) else failure)
  if dim3 then do
    let s1 ← pshape3; let s2 ← pshape3; let p ← piso3
    pure ⟨isD, m, ⟨s1, Aff.identity⟩, ⟨s2, Aff.ofIso3 (qiso3 p)⟩⟩
  else do
    let s1 ← pshape2; let s2 ← pshape2; let p ← piso2
    pure ⟨isD, m, ⟨s1, Aff.identity⟩, ⟨s2, Aff.ofIso2 (qiso2 p)⟩⟩

def judgeHStep (dim3 : Bool) (st : HStep) : P String := do
  if st.isDist then do
    let t ← tok
    let tl ← ptail dim3
    match FloatIO.ofHex? t with
    | none => pure (if t = "U" then "skip unsupported-pair" else s!"fail route={st.A.sh.kind}x{st.B.sh.kind} non-finite-distance")
    | some x =>
      if !okF x then pure s!"fail route={st.A.sh.kind}x{st.B.sh.kind} non-finite-distance" else
      pure (judgeDist st.A st.B (q x) (hintsOf tl.1 id st.B.pose.act) tl.2 (!dim3) (gjkTolScale st.A st.B))
  else do
    let r ← praw dim3
    let tl ← ptail dim3
    match r.toRes id id with
    | none => pure s!"fail route={st.A.sh.kind}x{st.B.sh.kind} non-finite-witness"
    | some res => pure (judgeCP st.A st.B st.maxDist res (hintsOf tl.1 id st.B.pose.act) tl.2 (!dim3) (gjkTolScale st.A st.B))

/-- every step of the history is judged like a fresh query (history independence): first failure wins -/
def oracleHistory (dim3 : Bool) (a o : List String) : String :=
  match run (plist (phstep dim3)) a with
  | none => "skip bad-args"
  | some steps =>
    let rec go (i : Nat) (sts : List HStep) (o : List String) (passed : Nat) : String :=
      match sts with
      | [] => if passed > 0 then s!"pass steps={passed}" else "skip no-step-judged"
      | st :: rest =>
        match (judgeHStep dim3 st) o with
        | none => "fail unparsable-output"
        | some (v, o') =>
          if v.startsWith "fail" then s!"{v} step={i}"
          else go (i + 1) rest o' (if v.startsWith "pass" then passed + 1 else passed)
    go 0 steps o 0


/-! ### bit-exact model of the `*_with_params` histories (`gjkm3`): modelled support maps only -/

/-- shapes whose support map is in the C10 model -/
inductive MSh3 where
  | cuboid (he : V3 Float) | segment (a b : V3 Float) | triangle (a b c : V3 Float) | capsule (a b : V3 Float) (r : Float)
  | cone (hh r : Float) | cylinder (hh r : Float) | ball (r : Float) | round (i : MSh3) (br : Float)

/-- `local_support_point` -/
def MSh3.loc : MSh3 → V3 Float → V3 Float
  | .cuboid he, d => Model.C10.cuboidLocal3 he d
  | .segment a b, d => Model.C10.segmentLocal3 a b d
  | .triangle a b c, d => Model.C10.triangleLocal3 a b c d
  | .capsule a b r, d => Model.C10.capsuleLocal3 a b r d
  | .cone hh r, d => Model.C10.coneLocal hh r d
  | .cylinder hh r, d => Model.C10.cylinderLocal hh r d
  | .ball r, d => Model.C10.ballLocal3 r d
  | .round i br, d => Model.C10.roundLocal3 i.loc br d   -- the rounded kinds do not override `local_support_point_toward`

/-- `support_point(pos12, ·)` (`Ball` overrides it) -/
def MSh3.posed (g : MSh3) (m : Iso3 Float) (d : V3 Float) : V3 Float :=
  match g with
  | .ball r => Model.C10.ballPosed3 r m d
  | _ => Model.C10.supportPoint3 g.loc m d

def pmshCore3 (k : String) : P MSh3 := do
  match k with
  | "cuboid" => do let h ← pv3; pure (.cuboid h)
  | "segment" => do let a ← pv3; let b ← pv3; pure (.segment a b)
  | "triangle" => do let a ← pv3; let b ← pv3; let c ← pv3; pure (.triangle a b c)
  | "capsule" => do let a ← pv3; let b ← pv3; let r ← pf; pure (.capsule a b r)
  | "cone" => do let h ← pf; let r ← pf; pure (.cone h r)
  | "cylinder" => do let h ← pf; let r ← pf; pure (.cylinder h r)
  | "ball" => do let r ← pf; pure (.ball r)
  | _ => failure
def pmsh3 : P MSh3 := do
  let k ← tok
  if k = "round" then do let k2 ← tok; let i ← pmshCore3 k2; let r ← pf; pure (.round i r) else pmshCore3 k

structure MStep3 where
  isDist : Bool
  maxDist : Float
  g1 : MSh3
  g2 : MSh3
  pos : Iso3 Float

def pmstep3 : P MStep3 := do
  let op ← tok
  let (isD, m) ← (if op = "d" then pure (true, (0 : Float)) else if op = "c" then do let m ← pf; pure (false, m) else failure)
  let g1 ← pmsh3; let g2 ← pmsh3; let p ← piso3
  pure ⟨isD, m, g1, g2, p⟩

def runMSteps3 : List MStep3 → Model.Gjk.Vs3 Float → List String → List String
  | [], _, acc => acc.reverse
  | st :: rest, s, acc =>
    let fs := Model.Gjk.fromShapes3 st.g1.loc (st.g2.posed st.pos)
    if st.isDist then
      match Model.Gjk.distanceSmSmWithParams3 fs st.pos.t s none with
      | (none, _) => ("panic" :: acc).reverse
      | (some x, s) => runMSteps3 rest s (s!"{ff x} {C01.Gjk.dump3 s}" :: acc)
    else
      -- `f64::MAX` as `max_dist` behaves like "no bound"
      let md : Option Float := if st.maxDist ≥ 1.0e308 then none else some st.maxDist
      let r := Model.Gjk.gjkClosestPoints3 fs md true (Model.Gjk.gjkStart3 fs st.pos.t none s)
      match r.1 with
      | .panic => ("panic" :: acc).reverse
      | .intersection => runMSteps3 rest r.2 (s!"I {C01.Gjk.dump3 r.2}" :: acc)
      | .closest p1 p2 d => runMSteps3 rest r.2 (s!"W {fv3 p1} {fv3 p2} {fv3 d} {C01.Gjk.dump3 r.2}" :: acc)
      | .noIntersection d => runMSteps3 rest r.2 (s!"D {fv3 d} {C01.Gjk.dump3 r.2}" :: acc)
      | .proximity d => runMSteps3 rest r.2 (s!"U {fv3 d} {C01.Gjk.dump3 r.2}" :: acc)

/-! ### bit-exact model of the `*_with_params` histories (`gjkm2`): modelled support maps only -/

/-- shapes whose support map is in the C10 model -/
inductive MSh2 where
  | cuboid (he : V2 Float) | segment (a b : V2 Float) | triangle (a b c : V2 Float) | capsule (a b : V2 Float) (r : Float)
  | cone (hh r : Float) | cylinder (hh r : Float) | ball (r : Float) | round (i : MSh2) (br : Float)

/-- `local_support_point` -/
def MSh2.loc : MSh2 → V2 Float → V2 Float
  | .cuboid he, d => Model.C10.cuboidLocal2 he d
  | .segment a b, d => Model.C10.segmentLocal2 a b d
  | .triangle a b c, d => Model.C10.triangleLocal2 a b c d
  | .capsule a b r, d => Model.C10.capsuleLocal2 a b r d
  | .cone hh r, d => d
  | .cylinder hh r, d => d
  | .ball r, d => Model.C10.ballLocal2 r d
  | .round i br, d => Model.C10.roundLocal2 i.loc br d   -- the rounded kinds do not override `local_support_point_toward`

/-- `support_point(pos12, ·)` (`Ball` overrides it) -/
def MSh2.posed (g : MSh2) (m : Iso2 Float) (d : V2 Float) : V2 Float :=
  match g with
  | .ball r => Model.C10.ballPosed2 r m d
  | _ => Model.C10.supportPoint2 g.loc m d

def pmshCore2 (k : String) : P MSh2 := do
  match k with
  | "cuboid" => do let h ← pv2; pure (.cuboid h)
  | "segment" => do let a ← pv2; let b ← pv2; pure (.segment a b)
  | "triangle" => do let a ← pv2; let b ← pv2; let c ← pv2; pure (.triangle a b c)
  | "capsule" => do let a ← pv2; let b ← pv2; let r ← pf; pure (.capsule a b r)
  | "cone" => do let h ← pf; let r ← pf; pure (.cone h r)
  | "cylinder" => do let h ← pf; let r ← pf; pure (.cylinder h r)
  | "ball" => do let r ← pf; pure (.ball r)
  | _ => failure
def pmsh2 : P MSh2 := do
  let k ← tok
  if k = "round" then do let k2 ← tok; let i ← pmshCore2 k2; let r ← pf; pure (.round i r) else pmshCore2 k

structure MStep2 where
  isDist : Bool
  maxDist : Float
  g1 : MSh2
  g2 : MSh2
  pos : Iso2 Float

def pmstep2 : P MStep2 := do
  let op ← tok
  let (isD, m) ← (if op = "d" then pure (true, (0 : Float)) else if op = "c" then do let m ← pf; pure (false, m) else failure)
  let g1 ← pmsh2; let g2 ← pmsh2; let p ← piso2
  pure ⟨isD, m, g1, g2, p⟩

def runMSteps2 : List MStep2 → Model.Gjk.Vs2 Float → List String → List String
  | [], _, acc => acc.reverse
  | st :: rest, s, acc =>
    let fs := Model.Gjk.fromShapes2 st.g1.loc (st.g2.posed st.pos)
    if st.isDist then
      match Model.Gjk.distanceSmSmWithParams2 fs st.pos.t s none with
      | (none, _) => ("panic" :: acc).reverse
      | (some x, s) => runMSteps2 rest s (s!"{ff x} {C01.Gjk.dump2 s}" :: acc)
    else
      -- `f64::MAX` as `max_dist` behaves like "no bound"
      let md : Option Float := if st.maxDist ≥ 1.0e308 then none else some st.maxDist
      let r := Model.Gjk.gjkClosestPoints2 fs md true (Model.Gjk.gjkStart2 fs st.pos.t none s)
      match r.1 with
      | .panic => ("panic" :: acc).reverse
      | .intersection => runMSteps2 rest r.2 (s!"I {C01.Gjk.dump2 r.2}" :: acc)
      | .closest p1 p2 d => runMSteps2 rest r.2 (s!"W {fv2 p1} {fv2 p2} {fv2 d} {C01.Gjk.dump2 r.2}" :: acc)
      | .noIntersection d => runMSteps2 rest r.2 (s!"D {fv2 d} {C01.Gjk.dump2 r.2}" :: acc)
      | .proximity d => runMSteps2 rest r.2 (s!"U {fv2 d} {C01.Gjk.dump2 r.2}" :: acc)

/-- oracle for `gjkm*`: every step judged like a fresh query (no hints: exact distances for polytope/round-polytope cores) -/
def judgeMStep (dim3 : Bool) (st : HStep) : P String := do
  let vec : P (Option Q3) := if dim3 then do let v ← pvo3; pure (if ok3 v then some (q3 v) else none)
                             else do let v ← pvo2; pure (if ok2 v then some (emb (q2 v)) else none)
  let route := s!"route={st.A.sh.kind}x{st.B.sh.kind}"
  if st.isDist then do
    let x ← pfo; let _ ← C01.Gjk.pobs dim3
    if !okF x then pure s!"fail {route} non-finite-distance" else pure (judgeDist st.A st.B (q x) [] [] (!dim3) (gjkTolScale st.A st.B))
  else do
    let t ← tok
    let res : Option Res ← (match t with
      | "I" => pure (some Res.intersecting)
      | "D" => do let _ ← vec; pure (some Res.disjoint)
      | "U" => do let _ ← vec; pure (some Res.unsupported)
      | "W" => do let a ← vec; let b ← vec; let _ ← vec
                  pure (match a, b with | some a, some b => some (Res.within a b) | _, _ => none)
      | _ => failure)
    let _ ← C01.Gjk.pobs dim3
    match res with
    | none => pure s!"fail {route} non-finite-witness"
    | some r => pure (judgeCP st.A st.B st.maxDist r [] [] (!dim3) (gjkTolScale st.A st.B))

def oracleMHistory (dim3 : Bool) (a o : List String) : String :=
  match run (plist (phstep dim3)) a with
  | none => "skip bad-args"
  | some steps =>
    let rec go (i : Nat) (sts : List HStep) (o : List String) (passed : Nat) : String :=
      match sts with
      | [] => if passed > 0 then s!"pass steps={passed}" else "skip no-step-judged"
      | st :: rest =>
        match o with
        | "panic" :: _ => s!"fail route={st.A.sh.kind}x{st.B.sh.kind} panic step={i}"
        | _ =>
        match (judgeMStep dim3 st) o with
        | none => "fail unparsable-output"
        | some (v, o') =>
          if v.startsWith "fail" then s!"{v} step={i}"
          else go (i + 1) rest o' (if v.startsWith "pass" then passed + 1 else passed)
    go 0 steps o 0

/-! ### closed-form oracles -/

def ballPlaced (r : Float) (pose : Aff) : Placed := ⟨.ball (q r), pose⟩
def trAff (t : Q3) : Aff := { Aff.identity with t := t }

/-- judge a closed-form `ClosestPoints` (local frames, shape 2 placed by `pose`) -/
def judgeLocal (A B : Placed) (margin : Rat) (dim3 : Bool) (o : List String) : String :=
  match run (praw dim3) o with
  | none => "fail unparsable-output"
  | some r => match r.toRes id B.pose.act with
    | none => "fail non-finite-witness"
    | some res => judgeCP A B margin res [] [] (!dim3)

def unitish3 (n : V3 Float) : Bool := let s := (q3 n).normSq; absQ (s - 1) ≤ 1 / 1000000000000
def unitish2 (n : V2 Float) : Bool := let s := (q2 n).normSq; absQ (s - 1) ≤ 1 / 1000000000000

/-! ### the SAT-based cuboid/cuboid kernels `closest_points_cuboid_cuboid` / `distance_cuboid_cuboid` (oracle only) -/

/-- which feature pair realises the exact distance of two disjoint boxes (exact brute force over features):
`face-vertex | face-edge | face-face` when a face normal of one box realises the distance (1, 2, ≥ 3 vertices of the other
box on the extreme plane), `edge-edge` when the interiors of two crossed edges are strictly closer than every pair involving
a vertex, `vertex` otherwise (vertex–edge, vertex–vertex, parallel edges). Relative guards (1e-4 / 1e-3 on squared lengths)
and the absolute oracle tolerance `tol` (touching boxes: the distance is at rounding level) keep near-ties out of `edge-edge`. -/
def cuboidPoseClass (A B : Core) (tol : Rat) : String :=
  let mn (l : List Rat) : Rat := match l with | [] => 0 | x :: xs => xs.foldl minQ x
  let m12 := minQ (mn (A.verts.map B.distSq)) (mn (B.verts.map A.distSq))
  let m3 := mn (A.edges.flatMap fun (a, b) => B.edges.map fun (c, d) => segSegDistSq a b c d)
  let m := minQ m12 m3
  if m = 0 then "overlap" else
  let faceHit (P R : Core) : Nat :=
    P.normals.foldl (fun acc n =>
      match P.verts.map n.dot, R.verts.map n.dot with
      | a :: as, b :: bs =>
        let maxP := as.foldl maxQ a; let minP := as.foldl minQ a
        let maxR := bs.foldl maxQ b; let minR := bs.foldl minQ b
        let sep := maxQ (minR - maxP) (minP - maxR)
        if sep + tol > 0 && (sep + tol) * (sep + tol) ≥ m * (1 - 1 / 10000) then
          let ext := if minR - maxP ≥ minP - maxR then minR else maxR
          Nat.max acc ((b :: bs).filter fun x => absQ (x - ext) ≤ tol).length
        else acc
      | _, _ => acc) 0
  let k := Nat.max (faceHit A B) (faceHit B A)
  if k ≥ 3 then "face-face" else if k = 2 then "face-edge" else if k = 1 then "face-vertex"
  else if m3 * 1000 < m12 * 999 && sqrtQ m12 > sqrtQ m3 + 2 * tol then "edge-edge" else "vertex"

def oracleCuboidCuboid (isDist : Bool) (a o : List String) : String :=
  match run (do let m ← (if isDist then pure 0 else pf); let h1 ← pv3; let h2 ← pv3; let p ← piso3; pure (m, h1, h2, p)) a with
  | none => "skip bad-args"
  | some (m, h1, h2, p) =>
    let pose := Aff.ofIso3 (qiso3 p)
    let A : Placed := ⟨.cuboid (q3 h1), Aff.identity⟩
    let B : Placed := ⟨.cuboid (q3 h2), pose⟩
    let cls := cuboidPoseClass (cuboidCore (q3 h1) Aff.identity) (cuboidCore (q3 h2) pose) (tolFor A B)
    let verdict :=
      if isDist then
        match o with
        | "panic" :: _ => "fail route=cuboidxcuboid panic"
        | _ => match run pfo o with
          | none => "fail unparsable-output"
          | some x => if !okF x then "fail route=cuboidxcuboid non-finite-distance" else judgeDist A B (q x) [] []
      else
        match run (praw true) o with
        | none => "fail unparsable-output"
        | some r => match r.toRes id B.pose.act with
          | none => "fail route=cuboidxcuboid non-finite-witness"
          | some res => judgeCP A B (q m) res [] []
    s!"{verdict} [closest-feature={cls}]"

/-- SAT lower-bound oracle: the reported separation never exceeds the true distance, and its axis is a unit vector -/
def judgeSat (A B : Placed) (planar : Bool) (sep : Float) (axisNormSq : Rat) : String :=
  if !okF sep then "fail non-finite-separation" else
  if absQ (axisNormSq - 1) > 1 / 1000000 then "fail axis-not-unit" else
  let tol := tolFor A B
  match exactDistance A B planar with
  | none => "skip no-exact-distance"
  | some D => if q sep ≤ D + tol then "pass" else s!"fail separation-exceeds-distance sep={showQ (q sep)} true={showQ D}"

/-! ### bit-exact model of the public entry points `query::closest_points` / `query::distance` (`cpw3`, `dw3`): routing of the
dispatcher + `inv_mul` + the wrappers around the kernels + `transform_by` (C01/ModelGlue.lean) -/
open Model.Glue in
def pdshCore3 (k : String) : P (DSh3 Float) := do
  match k with
  | "halfspace" => do let n ← pv3; pure (.halfspace n)
  | "cuboid" => do let h ← pv3; pure (.cuboid h)
  | "segment" => do let a ← pv3; let b ← pv3; pure (.segment a b)
  | "triangle" => do let a ← pv3; let b ← pv3; let c ← pv3; pure (.triangle a b c)
  | "capsule" => do let a ← pv3; let b ← pv3; let r ← pf; pure (.capsule a b r)
  | "cone" => do let h ← pf; let r ← pf; pure (.cone h r)
  | "cylinder" => do let h ← pf; let r ← pf; pure (.cylinder h r)
  | "ball" => do let r ← pf; pure (.ball r)
  | _ => failure
open Model.Glue in
def pdsh3 : P (DSh3 Float) := do
  let k ← tok
  if k = "round" then do let k2 ← tok; let i ← pdshCore3 k2; let r ← pf; pure (.round i r) else pdshCore3 k

def modelCpw3 (a : List String) : Option String :=
  (run (do let m ← pf; let s1 ← pdsh3; let p1 ← piso3; let s2 ← pdsh3; let p2 ← piso3; pure (m, s1, p1, s2, p2)) a).map
    fun (m, s1, p1, s2, p2) => fcpo3 (Model.Glue.closestPointsWorld3 p1 s1 p2 s2 m)
def modelDw3 (a : List String) : Option String :=
  (run (do let s1 ← pdsh3; let p1 ← piso3; let s2 ← pdsh3; let p2 ← piso3; pure (s1, p1, s2, p2)) a).map
    fun (s1, p1, s2, p2) => match Model.Glue.distanceWorld3 p1 s1 p2 s2 with | some x => ff x | none => "panic"

open Model.Glue in
def pdshCore2 (k : String) : P (DSh2 Float) := do
  match k with
  | "halfspace" => do let n ← pv2; pure (.halfspace n)
  | "cuboid" => do let h ← pv2; pure (.cuboid h)
  | "segment" => do let a ← pv2; let b ← pv2; pure (.segment a b)
  | "triangle" => do let a ← pv2; let b ← pv2; let c ← pv2; pure (.triangle a b c)
  | "capsule" => do let a ← pv2; let b ← pv2; let r ← pf; pure (.capsule a b r)
  | "ball" => do let r ← pf; pure (.ball r)
  | _ => failure
open Model.Glue in
def pdsh2 : P (DSh2 Float) := do
  let k ← tok
  if k = "round" then do let k2 ← tok; let i ← pdshCore2 k2; let r ← pf; pure (.round i r) else pdshCore2 k

def modelCpw2 (a : List String) : Option String :=
  (run (do let m ← pf; let s1 ← pdsh2; let p1 ← piso2; let s2 ← pdsh2; let p2 ← piso2; pure (m, s1, p1, s2, p2)) a).map
    fun (m, s1, p1, s2, p2) => fcpo2 (Model.Glue.closestPointsWorld2 p1 s1 p2 s2 m)
def modelDw2 (a : List String) : Option String :=
  (run (do let s1 ← pdsh2; let p1 ← piso2; let s2 ← pdsh2; let p2 ← piso2; pure (s1, p1, s2, p2)) a).map
    fun (s1, p1, s2, p2) => match Model.Glue.distanceWorld2 p1 s1 p2 s2 with | some x => ff x | none => "panic"

/-- world form without hint tail (the bit-exact entries print the bare result) -/
def oracleCPWorldBare (dim3 : Bool) (a o : List String) : String :=
  let parsed := if dim3 then
      run (do let m ← pf; let s1 ← pshape3; let p1 ← piso3; let s2 ← pshape3; let p2 ← piso3
              pure (q m, (⟨s1, Aff.ofIso3 (qiso3 p1)⟩ : Placed), (⟨s2, Aff.ofIso3 (qiso3 p2)⟩ : Placed))) a
    else
      run (do let m ← pf; let s1 ← pshape2; let p1 ← piso2; let s2 ← pshape2; let p2 ← piso2
              pure (q m, (⟨s1, Aff.ofIso2 (qiso2 p1)⟩ : Placed), (⟨s2, Aff.ofIso2 (qiso2 p2)⟩ : Placed))) a
  match parsed with
  | none => "skip bad-args"
  | some (m, A, B) =>
    match run (praw dim3) o with
    | none => "fail unparsable-output"
    | some r =>
      match r.toRes id id with
      | none => s!"fail route={A.sh.kind}x{B.sh.kind} non-finite-witness"
      | some res => judgeCP A B m res [] [] (!dim3) (roundScale A B)

def oracleDistWorldBare (dim3 : Bool) (a o : List String) : String :=
  let parsed := if dim3 then
      run (do let s1 ← pshape3; let p1 ← piso3; let s2 ← pshape3; let p2 ← piso3
              pure ((⟨s1, Aff.ofIso3 (qiso3 p1)⟩ : Placed), (⟨s2, Aff.ofIso3 (qiso3 p2)⟩ : Placed))) a
    else
      run (do let s1 ← pshape2; let p1 ← piso2; let s2 ← pshape2; let p2 ← piso2
              pure ((⟨s1, Aff.ofIso2 (qiso2 p1)⟩ : Placed), (⟨s2, Aff.ofIso2 (qiso2 p2)⟩ : Placed))) a
  match parsed with
  | none => "skip bad-args"
  | some (A, B) =>
    match o with
    | "U" :: _ => "skip unsupported-pair"
    | "panic" :: _ => s!"fail route={A.sh.kind}x{B.sh.kind} panic"
    | _ =>
    match run pfo o with
    | none => "fail unparsable-output"
    | some x =>
      if !okF x then s!"fail route={A.sh.kind}x{B.sh.kind} non-finite-distance" else
      judgeDist A B (q x) [] [] (!dim3) (roundScale A B)

def handler (fn : String) : Option Handler :=
  match fn with
  | "cpw3" => some { model := modelCpw3, oracle := oracleCPWorldBare true }
  | "dw3" => some { model := modelDw3, oracle := oracleDistWorldBare true }
  | "cpw2" => some { model := modelCpw2, oracle := oracleCPWorldBare false }
  | "dw2" => some { model := modelDw2, oracle := oracleDistWorldBare false }
  | "distance_ball_ball" => some {
      model := fun a => run (do let r1 ← pf; let r2 ← pf; let c ← pv3; pure (ff (distanceBallBall r1 r2 c))) a
      oracle := fun a o => match run (do let r1 ← pf; let r2 ← pf; let c ← pv3; pure (r1, r2, c)) a with
        | some (r1, r2, c) =>
          judgeDist (ballPlaced r1 Aff.identity) (ballPlaced r2 (trAff (q3 c)))
            (match run pfo o with | some x => if okF x then q x else -1 | none => -1) [] []
        | none => "skip bad-args" }
  | "distance_ball_ball2" => some {
      model := fun a => run (do let r1 ← pf; let r2 ← pf; let c ← pv2; pure (ff (distanceBallBall2 r1 r2 c))) a
      oracle := fun a o => match run (do let r1 ← pf; let r2 ← pf; let c ← pv2; pure (r1, r2, c)) a with
        | some (r1, r2, c) =>
          judgeDist (ballPlaced r1 Aff.identity) (ballPlaced r2 (trAff (emb (q2 c))))
            (match run pfo o with | some x => if okF x then q x else -1 | none => -1) [] [] true
        | none => "skip bad-args" }
  | "closest_points_ball_ball" => some {
      model := fun a => run (do let p ← piso3; let r1 ← pf; let r2 ← pf; let m ← pf
                                pure (fcpo3 (closestPointsBallBall p r1 r2 m))) a
      oracle := fun a o => match run (do let p ← piso3; let r1 ← pf; let r2 ← pf; let m ← pf; pure (p, r1, r2, m)) a with
        | some (p, r1, r2, m) =>
          judgeLocal (ballPlaced r1 Aff.identity) (ballPlaced r2 (Aff.ofIso3 (qiso3 p))) (q m) true o
        | none => "skip bad-args" }
  | "closest_points_ball_ball2" => some {
      model := fun a => run (do let p ← piso2; let r1 ← pf; let r2 ← pf; let m ← pf
                                pure (fcpo2 (closestPointsBallBall2 p r1 r2 m))) a
      oracle := fun a o => match run (do let p ← piso2; let r1 ← pf; let r2 ← pf; let m ← pf; pure (p, r1, r2, m)) a with
        | some (p, r1, r2, m) =>
          judgeLocal (ballPlaced r1 Aff.identity) (ballPlaced r2 (Aff.ofIso2 (qiso2 p))) (q m) false o
        | none => "skip bad-args" }
  | "distance_halfspace_ball" => some {
      model := fun a => run (do let p ← piso3; let n ← pv3; let r ← pf
                                pure (ff (distanceHalfspaceSupportMap (ballSupportToward r) p n))) a
      oracle := fun a o => match run (do let p ← piso3; let n ← pv3; let r ← pf; pure (p, n, r)) a with
        | some (p, n, r) => if !unitish3 n then "skip normal-not-unit" else
          judgeDist ⟨.halfspace (q3 n), Aff.identity⟩ (ballPlaced r (Aff.ofIso3 (qiso3 p)))
            (match run pfo o with | some x => if okF x then q x else -1 | none => -1) [] []
        | none => "skip bad-args" }
  | "distance_halfspace_cuboid" => some {
      model := fun a => run (do let p ← piso3; let n ← pv3; let he ← pv3
                                pure (ff (distanceHalfspaceSupportMap (cuboidSupport he) p n))) a
      oracle := fun a o => match run (do let p ← piso3; let n ← pv3; let he ← pv3; pure (p, n, he)) a with
        | some (p, n, he) => if !unitish3 n then "skip normal-not-unit" else
          judgeDist ⟨.halfspace (q3 n), Aff.identity⟩ ⟨.cuboid (q3 he), Aff.ofIso3 (qiso3 p)⟩
            (match run pfo o with | some x => if okF x then q x else -1 | none => -1) [] []
        | none => "skip bad-args" }
  | "distance_halfspace_cuboid2" => some {
      model := fun a => run (do let p ← piso2; let n ← pv2; let he ← pv2
                                pure (ff (distanceHalfspaceSupportMap2 (cuboidSupport2 he) p n))) a
      oracle := fun a o => match run (do let p ← piso2; let n ← pv2; let he ← pv2; pure (p, n, he)) a with
        | some (p, n, he) => if !unitish2 n then "skip normal-not-unit" else
          judgeDist ⟨.halfspace (emb (q2 n)), Aff.identity⟩ ⟨.cuboid (emb (q2 he)), Aff.ofIso2 (qiso2 p)⟩
            (match run pfo o with | some x => if okF x then q x else -1 | none => -1) [] [] true
        | none => "skip bad-args" }
  | "closest_points_halfspace_ball" => some {
      model := fun a => run (do let p ← piso3; let n ← pv3; let r ← pf; let m ← pf
                                pure (fcpo3 (closestPointsHalfspaceSupportMap (ballSupport r) p n m))) a
      oracle := fun a o => match run (do let p ← piso3; let n ← pv3; let r ← pf; let m ← pf; pure (p, n, r, m)) a with
        | some (p, n, r, m) => if !unitish3 n then "skip normal-not-unit" else
          judgeLocal ⟨.halfspace (q3 n), Aff.identity⟩ (ballPlaced r (Aff.ofIso3 (qiso3 p))) (q m) true o
        | none => "skip bad-args" }
  | "closest_points_halfspace_cuboid" => some {
      model := fun a => run (do let p ← piso3; let n ← pv3; let he ← pv3; let m ← pf
                                pure (fcpo3 (closestPointsHalfspaceSupportMap (cuboidSupport he) p n m))) a
      oracle := fun a o => match run (do let p ← piso3; let n ← pv3; let he ← pv3; let m ← pf; pure (p, n, he, m)) a with
        | some (p, n, he, m) => if !unitish3 n then "skip normal-not-unit" else
          judgeLocal ⟨.halfspace (q3 n), Aff.identity⟩ ⟨.cuboid (q3 he), Aff.ofIso3 (qiso3 p)⟩ (q m) true o
        | none => "skip bad-args" }
  | "closest_points_halfspace_cuboid2" => some {
      model := fun a => run (do let p ← piso2; let n ← pv2; let he ← pv2; let m ← pf
                                pure (fcpo2 (closestPointsHalfspaceSupportMap2 (cuboidSupport2 he) p n m))) a
      oracle := fun a o => match run (do let p ← piso2; let n ← pv2; let he ← pv2; let m ← pf; pure (p, n, he, m)) a with
        | some (p, n, he, m) => if !unitish2 n then "skip normal-not-unit" else
          judgeLocal ⟨.halfspace (emb (q2 n)), Aff.identity⟩ ⟨.cuboid (emb (q2 he)), Aff.ofIso2 (qiso2 p)⟩ (q m) false o
        | none => "skip bad-args" }
  | "line_line_params" => some {
      model := fun a => run (do let o1 ← pv3; let d1 ← pv3; let o2 ← pv3; let d2 ← pv3; let e ← pf
                                let (s, t, par) := lineLineParams3 o1 d1 o2 d2 e
                                pure s!"{ff s} {ff t} {fb par}") a
      oracle := fun a o => match run (do let o1 ← pv3; let d1 ← pv3; let o2 ← pv3; let d2 ← pv3; let e ← pf; pure (o1, d1, o2, d2, e)) a with
        | some (o1, d1, o2, d2, _) =>
          match run (do let s ← pfo; let t ← pfo; let par ← pbool; pure (s, t, par)) o with
          | none => "fail unparsable-output"
          | some (s, t, par) =>
            if !(okF s && okF t) then "skip non-finite-parameters" else
            if par then "skip parallel-flag" else
            -- optimality of the line parameters: the connecting vector is orthogonal to both directions
            let O1 := q3 o1; let D1 := q3 d1; let O2 := q3 o2; let D2 := q3 d2
            let w := (O1.add (D1.smul (q s))).sub (O2.add (D2.smul (q t)))
            let sc := 1 + normQ w
            let t1 := absQ (w.dot D1); let t2 := absQ (w.dot D2)
            -- relative to |w||d| and to the conditioning (denominator) of the 2×2 system
            let a := D1.normSq; let e := D2.normSq; let b := D1.dot D2
            let den := a * e - b * b
            if den * 1000000 ≤ a * e then "skip ill-conditioned" else
            if t1 ≤ (1 / 1000000) * sc * (1 + normQ D1) * (1 + normQ D1) * (1 + normQ D2) &&
               t2 ≤ (1 / 1000000) * sc * (1 + normQ D2) * (1 + normQ D1) * (1 + normQ D2) then "pass"
            else s!"fail not-orthogonal r1={showQ t1} r2={showQ t2}"
        | none => "skip bad-args" }
  | "closest_points_segment_segment" => some {
      model := fun a => run (do let p ← piso3; let a1 ← pv3; let b1 ← pv3; let a2 ← pv3; let b2 ← pv3; let m ← pf
                                pure (fcp3 (closestPointsSegmentSegment p a1 b1 a2 b2 m))) a
      oracle := fun a o => match run (do let p ← piso3; let a1 ← pv3; let b1 ← pv3; let a2 ← pv3; let b2 ← pv3; let m ← pf
                                         pure (p, a1, b1, a2, b2, m)) a with
        | some (p, a1, b1, a2, b2, m) =>
          judgeLocal ⟨.segment (q3 a1) (q3 b1), Aff.identity⟩ ⟨.segment (q3 a2) (q3 b2), Aff.ofIso3 (qiso3 p)⟩ (q m) true o
        | none => "skip bad-args" }
  | "closest_points_segment_segment2" => some {
      model := fun a => run (do let p ← piso2; let a1 ← pv2; let b1 ← pv2; let a2 ← pv2; let b2 ← pv2; let m ← pf
                                pure (fcp2 (closestPointsSegmentSegment2 p a1 b1 a2 b2 m))) a
      oracle := fun a o => match run (do let p ← piso2; let a1 ← pv2; let b1 ← pv2; let a2 ← pv2; let b2 ← pv2; let m ← pf
                                         pure (p, a1, b1, a2, b2, m)) a with
        | some (p, a1, b1, a2, b2, m) =>
          judgeLocal ⟨.segment (emb (q2 a1)) (emb (q2 b1)), Aff.identity⟩
            ⟨.segment (emb (q2 a2)) (emb (q2 b2)), Aff.ofIso2 (qiso2 p)⟩ (q m) false o
        | none => "skip bad-args" }
  | "sat_cuboid_cuboid_oneway" => some {
      model := fun a => run (do let h1 ← pv3; let h2 ← pv3; let p ← piso3
                                let r := satCuboidCuboidOneway h1 h2 p
                                pure s!"{ff r.1} {fv3 r.2}") a
      oracle := fun a o => match run (do let h1 ← pv3; let h2 ← pv3; let p ← piso3; pure (h1, h2, p)) a with
        | some (h1, h2, p) => match run (do let s ← pfo; let d ← pvo3; pure (s, d)) o with
          | some (s, d) => judgeSat ⟨.cuboid (q3 h1), Aff.identity⟩ ⟨.cuboid (q3 h2), Aff.ofIso3 (qiso3 p)⟩ false s (q3 d).normSq
          | none => "fail unparsable-output"
        | none => "skip bad-args" }
  | "sat_cuboid_cuboid_oneway2" => some {
      model := fun a => run (do let h1 ← pv2; let h2 ← pv2; let p ← piso2
                                let r := satCuboidCuboidOneway2 h1 h2 p
                                pure s!"{ff r.1} {fv2 r.2}") a
      oracle := fun a o => match run (do let h1 ← pv2; let h2 ← pv2; let p ← piso2; pure (h1, h2, p)) a with
        | some (h1, h2, p) => match run (do let s ← pfo; let d ← pvo2; pure (s, d)) o with
          | some (s, d) => judgeSat ⟨.cuboid (emb (q2 h1)), Aff.identity⟩ ⟨.cuboid (emb (q2 h2)), Aff.ofIso2 (qiso2 p)⟩ true s (q2 d).normSq
          | none => "fail unparsable-output"
        | none => "skip bad-args" }
  | "sat_cuboid_cuboid_edge_twoway" => some {
      model := fun a => run (do let h1 ← pv3; let h2 ← pv3; let p ← piso3
                                let r := satCuboidCuboidEdgeTwoway h1 h2 p
                                pure s!"{ff r.1} {fv3 r.2}") a
      oracle := fun a o => match run (do let h1 ← pv3; let h2 ← pv3; let p ← piso3; pure (h1, h2, p)) a with
        | some (h1, h2, p) => match run (do let s ← pfo; let d ← pvo3; pure (s, d)) o with
          | some (s, d) =>
            -- all nine axes degenerate (parallel boxes): the function returns (-MAX, 0): nothing to judge
            if (q3 d).normSq = 0 then (if q s < 0 then "pass" else "fail positive-separation-with-zero-axis") else
            judgeSat ⟨.cuboid (q3 h1), Aff.identity⟩ ⟨.cuboid (q3 h2), Aff.ofIso3 (qiso3 p)⟩ false s (q3 d).normSq
          | none => "fail unparsable-output"
        | none => "skip bad-args" }
  -- end-to-end, oracle-only (relations.json: kind none)
  | "cp3" => some { model := fun _ => some "oracle-only", oracle := oracleCPWorld true }
  | "cp2" => some { model := fun _ => some "oracle-only", oracle := oracleCPWorld false }
  | "cpl3" => some { model := fun _ => some "oracle-only", oracle := oracleCPLocal true }
  | "cpcc3" => some { model := fun _ => some "oracle-only", oracle := oracleCuboidCuboid false }
  | "dcc3" => some { model := fun _ => some "oracle-only", oracle := oracleCuboidCuboid true }
  | "cpl2" => some { model := fun _ => some "oracle-only", oracle := oracleCPLocal false }
  | "dist3" => some { model := fun _ => some "oracle-only", oracle := oracleDistWorld true }
  | "dist2" => some { model := fun _ => some "oracle-only", oracle := oracleDistWorld false }
  | "gjkm3" => some { model := fun a => (run (plist pmstep3) a).map fun sts => " ".intercalate (runMSteps3 sts Model.Gjk.Vs3.new [])
                      oracle := oracleMHistory true }
  | "gjkm2" => some { model := fun a => (run (plist pmstep2) a).map fun sts => " ".intercalate (runMSteps2 sts Model.Gjk.Vs2.new [])
                      oracle := oracleMHistory false }
  | "gjkh3" => some { model := fun _ => some "oracle-only", oracle := oracleHistory true }
  | "gjkh2" => some { model := fun _ => some "oracle-only", oracle := oracleHistory false }
  | _ => C01.Gjk.handler fn

end C01
