import ParryModel.Proto
import ParryModel.Shapes
/-!
# C01 oracle library: exact-`Rat` certificate checking for distance / closest-point answers.

Everything is done in 3-D; 2-D problems are embedded in the plane `z = 0` (a 2-D ball is judged as the
3-D ball of the same radius: for points and directions with `z = 0` membership and support values coincide).

The certificate (justified by `C01.duality3`/`duality2` and their slack versions): world witnesses `w1 ∈ A`,
`w2 ∈ B`, and the direction `d = w2 - w1` supports both shapes, i.e.
`h_A(d) - d·w1 ≤ σ` and `h_B(-d) + d·w2 ≤ σ` with `h_S` the support function computed here by vertex enumeration
(polytopes) or in closed form (ball, capsule, cone, cylinder). Then no pair of points is closer than `|d| - 2σ/|d|`.
-/
namespace C01.Oracle
open Model Proto

abbrev Q3 := V3 Rat

/-- shapes with exact rational parameters -/
inductive Sh where
  | ball (r : Rat)
  | cuboid (he : Q3)
  | capsule (a b : Q3) (r : Rat)
  | segment (a b : Q3)
  | triangle (a b c : Q3)
  | cone (hh r : Rat)
  | cylinder (hh r : Rat)
  /-- convex hull of a point list, full-dimensional in 3-D -/
  | poly3 (pts : List Q3)
  /-- convex hull of a point list lying in the plane `z = 0` -/
  | polygon (pts : List Q3)
  /-- `{p | n·p ≤ 0}` -/
  | halfspace (n : Q3)
  /-- `RoundShape { inner_shape, border_radius }`: the Minkowski sum of `inner` and the ball of radius `r` -/
  | round (inner : Sh) (r : Rat)

def Sh.kind : Sh → String
  | .ball _ => "ball" | .cuboid _ => "cuboid" | .capsule .. => "capsule" | .segment .. => "segment"
  | .triangle .. => "triangle" | .cone .. => "cone" | .cylinder .. => "cylinder" | .poly3 _ => "convex"
  | .polygon _ => "convex" | .halfspace _ => "halfspace" | .round i _ => "round" ++ i.kind

def Sh.isHalfspace : Sh → Bool
  | .halfspace _ => true
  | _ => false

def sqrtQ (x : Rat) : Rat := Rat.sqrtApprox x
def normQ (v : Q3) : Rat := sqrtQ v.normSq
def absQ (x : Rat) : Rat := if x < 0 then -x else x
def maxQ (a b : Rat) : Rat := if a < b then b else a
def minQ (a b : Rat) : Rat := if b < a then b else a
def maxList (l : List Rat) : Rat := match l with
  | [] => 0
  | x :: xs => xs.foldl maxQ x

/-- a size bound of the shape (for tolerances) -/
def Sh.size : Sh → Rat
  | .ball r => absQ r
  | .cuboid he => absQ he.x + absQ he.y + absQ he.z
  | .capsule a b r => maxQ (normQ a) (normQ b) + absQ r
  | .segment a b => maxQ (normQ a) (normQ b)
  | .triangle a b c => maxQ (normQ a) (maxQ (normQ b) (normQ c))
  | .cone hh r => absQ hh + absQ r
  | .cylinder hh r => absQ hh + absQ r
  | .poly3 pts => maxList (pts.map normQ)
  | .polygon pts => maxList (pts.map normQ)
  | .halfspace _ => 0
  | .round i r => i.size + absQ r

/-- local support function `h_S(d) = max_{x∈S} d·x`; `none` = unbounded (half-space) -/
def Sh.supp (s : Sh) (d : Q3) : Option Rat :=
  match s with
  | .ball r => some (r * normQ d)
  | .cuboid he => some (he.x * absQ d.x + he.y * absQ d.y + he.z * absQ d.z)
  | .capsule a b r => some (maxQ (d.dot a) (d.dot b) + r * normQ d)
  | .segment a b => some (maxQ (d.dot a) (d.dot b))
  | .triangle a b c => some (maxQ (d.dot a) (maxQ (d.dot b) (d.dot c)))
  | .cone hh r => some (maxQ (hh * d.y) (-(hh * d.y) + r * sqrtQ (d.x * d.x + d.z * d.z)))
  | .cylinder hh r => some (hh * absQ d.y + r * sqrtQ (d.x * d.x + d.z * d.z))
  | .poly3 pts => some (maxList (pts.map d.dot))
  | .polygon pts => some (maxList (pts.map d.dot))
  | .halfspace _ => none
  | .round i r => (i.supp d).map (· + r * normQ d)

def clamp01 (t : Rat) : Rat := if t < 0 then 0 else if 1 < t then 1 else t

/-- squared distance from `p` to the segment `[a,b]` (exact) -/
def distSqSeg (p a b : Q3) : Rat :=
  let d := b.sub a
  let dd := d.normSq
  if dd = 0 then (p.sub a).normSq else
    let t := clamp01 ((p.sub a).dot d / dd)
    (p.sub (a.add (d.smul t))).normSq

/-- closest point of the triangle `abc` to `p` (Ericson, Real-Time Collision Detection §5.1.5), exact -/
def closestOnTriangle (p a b c : Q3) : Q3 :=
  let ab := b.sub a; let ac := c.sub a; let ap := p.sub a
  let d1 := ab.dot ap; let d2 := ac.dot ap
  if d1 ≤ 0 ∧ d2 ≤ 0 then a else
  let bp := p.sub b
  let d3 := ab.dot bp; let d4 := ac.dot bp
  if d3 ≥ 0 ∧ d4 ≤ d3 then b else
  let vc := d1 * d4 - d3 * d2
  if vc ≤ 0 ∧ d1 ≥ 0 ∧ d3 ≤ 0 ∧ d1 - d3 ≠ 0 then a.add (ab.smul (d1 / (d1 - d3))) else
  let cp := p.sub c
  let d5 := ab.dot cp; let d6 := ac.dot cp
  if d6 ≥ 0 ∧ d5 ≤ d6 then c else
  let vb := d5 * d2 - d1 * d6
  if vb ≤ 0 ∧ d2 ≥ 0 ∧ d6 ≤ 0 ∧ d2 - d6 ≠ 0 then a.add (ac.smul (d2 / (d2 - d6))) else
  let va := d3 * d6 - d5 * d4
  if va ≤ 0 ∧ d4 - d3 ≥ 0 ∧ d5 - d6 ≥ 0 ∧ (d4 - d3) + (d5 - d6) ≠ 0 then
    b.add ((c.sub b).smul ((d4 - d3) / ((d4 - d3) + (d5 - d6)))) else
  let den := va + vb + vc
  if den = 0 then a else
  let v := vb / den; let w := vc / den
  (a.add (ab.smul v)).add (ac.smul w)

/-- brute-force distance from `p` to the triangle: min over the three edges and the interior projection -/
def distSqTriangle (p a b c : Q3) : Rat :=
  let e := minQ (distSqSeg p a b) (minQ (distSqSeg p b c) (distSqSeg p c a))
  -- interior projection
  let n := (b.sub a).cross (c.sub a)
  let nn := n.normSq
  if nn = 0 then e else
    let t := (p.sub a).dot n / nn
    let q := p.sub (n.smul t)
    -- q inside the triangle iff the three edge cross products agree with n
    let s1 := ((b.sub a).cross (q.sub a)).dot n
    let s2 := ((c.sub b).cross (q.sub b)).dot n
    let s3 := ((a.sub c).cross (q.sub c)).dot n
    if s1 ≥ 0 ∧ s2 ≥ 0 ∧ s3 ≥ 0 then minQ e ((p.sub q).normSq) else e

/-- `x ≤ tol·|n|` for a signed value `x = n·(…)`, without square roots -/
def leTolN (x tol nn : Rat) : Bool := x ≤ 0 || x * x ≤ tol * tol * nn

/-- all unordered triples of a list -/
def triples {α} : List α → List (α × α × α)
  | [] => []
  | x :: xs => (pairs xs).map (fun (y, z) => (x, y, z)) ++ triples xs
where pairs : List α → List (α × α)
  | [] => []
  | y :: ys => ys.map (fun z => (y, z)) ++ pairs ys

/-- membership in the hull of `pts` (full-dimensional) within `tol`: `p` is on the inner side (up to `tol`) of every
plane through three vertices that has all vertices on one side. -/
def memPoly3 (pts : List Q3) (p : Q3) (tol : Rat) : Bool :=
  (triples pts).all fun (a, b, c) =>
    let n := (b.sub a).cross (c.sub a)
    let nn := n.normSq
    if nn = 0 then true else
      let vals := pts.map fun v => n.dot (v.sub a)
      let x := n.dot (p.sub a)
      if vals.all (· ≤ 0) then leTolN x tol nn
      else if vals.all (· ≥ 0) then leTolN (-x) tol nn
      else true

/-- membership in a planar (`z = 0`) convex polygon given by its vertices -/
def memPolygon (pts : List Q3) (p : Q3) (tol : Rat) : Bool :=
  absQ p.z ≤ tol &&
  (triples.pairs pts).all fun (a, b) =>
    let e := b.sub a
    let n : Q3 := ⟨e.y, -e.x, 0⟩
    let nn := n.normSq
    if nn = 0 then true else
      let vals := pts.map fun v => n.dot (v.sub a)
      let x := n.dot (p.sub a)
      if vals.all (· ≤ 0) then leTolN x tol nn
      else if vals.all (· ≥ 0) then leTolN (-x) tol nn
      else true

/-- exact (up to `sqrtQ`) squared distance from `p` to a solid shape, where a closed form is available -/
def Sh.distSq? (s : Sh) (p : Q3) : Option Rat :=
  match s with
  | .cuboid he =>
      let ex := maxQ 0 (absQ p.x - he.x); let ey := maxQ 0 (absQ p.y - he.y); let ez := maxQ 0 (absQ p.z - he.z)
      some (ex * ex + ey * ey + ez * ez)
  | .segment a b => some (distSqSeg p a b)
  | .triangle a b c => some (distSqTriangle p a b c)
  | .cylinder hh r =>
      let er := maxQ 0 (sqrtQ (p.x * p.x + p.z * p.z) - r); let ey := maxQ 0 (absQ p.y - hh)
      some (er * er + ey * ey)
  | .cone hh r =>
      -- by rotational symmetry: distance in the (radial, axial) half-plane to the triangle (-r,-hh) (r,-hh) (0,hh)
      some (distSqTriangle ⟨sqrtQ (p.x * p.x + p.z * p.z), p.y, 0⟩ ⟨-r, -hh, 0⟩ ⟨r, -hh, 0⟩ ⟨0, hh, 0⟩)
  | .poly3 pts =>
      -- full-dimensional hull: 0 inside, else the nearest of all vertex triangles (every face is a union of such)
      if memPoly3 pts p 0 then some 0 else
      match (triples pts).map fun (a, b, c) => distSqTriangle p a b c with
      | [] => none
      | e :: es => some (es.foldl minQ e)
  | .polygon pts =>
      -- planar convex polygon: 0 inside, else the nearest edge
      let es := (pts.zip (pts.rotateLeft 1)).map fun (a, b) => distSqSeg p a b
      let inside := (triples.pairs pts).all fun (a, b) =>
        let e := b.sub a
        let n : Q3 := ⟨e.y, -e.x, 0⟩
        let vals := pts.map fun v => n.dot (v.sub a)
        let x := n.dot (p.sub a)
        if vals.all (· ≤ 0) then x ≤ 0 else if vals.all (· ≥ 0) then x ≥ 0 else true
      match es with
      | [] => none
      | e :: es' => some (if inside then p.z * p.z else es'.foldl minQ e)
  | _ => none

/-- is `p` within (about) `tol` of the shape, in the shape's local frame -/
def Sh.mem (s : Sh) (p : Q3) (tol : Rat) : Bool :=
  match s with
  | .round i r => match i.distSq? p with
      | some d2 => d2 ≤ (r + tol) * (r + tol)
      -- no exact distance for the core (ball/capsule/half-space cores are never rounded by the generators): core only
      | none => i.mem p tol
  | .ball r => p.normSq ≤ (r + tol) * (r + tol)
  | .cuboid he => absQ p.x ≤ he.x + tol && absQ p.y ≤ he.y + tol && absQ p.z ≤ he.z + tol
  | .capsule a b r => distSqSeg p a b ≤ (r + tol) * (r + tol)
  | .segment a b => distSqSeg p a b ≤ tol * tol
  | .triangle a b c => distSqTriangle p a b c ≤ tol * tol
  | .cone hh r =>
      let rad := maxQ 0 (r * (hh - p.y) / (2 * hh)) + tol
      absQ p.y ≤ hh + tol && p.x * p.x + p.z * p.z ≤ rad * rad
  | .cylinder hh r => absQ p.y ≤ hh + tol && p.x * p.x + p.z * p.z ≤ (r + tol) * (r + tol)
  | .poly3 pts => memPoly3 pts p tol
  | .polygon pts => memPolygon pts p tol
  | .halfspace n => leTolN (n.dot p) tol n.normSq

/-- some points of the shape (local), used as overlap candidates -/
def Sh.samplePts : Sh → List Q3
  | .ball _ => [V3.zero]
  | .cuboid _ => [V3.zero]
  | .capsule a b _ => [a, b, V3.center a b]
  | .segment a b => [a, b, V3.center a b]
  | .triangle a b c => [a, b, c, ((a.add b).add c).smul (1 / 3)]
  | .cone _ _ => [V3.zero]
  | .cylinder _ _ => [V3.zero]
  | .poly3 pts => pts
  | .polygon pts => pts
  | .halfspace _ => []
  | .round i _ => i.samplePts

/-! ## poses as exact affine maps -/

/-- `x ↦ c1·x.x + c2·x.y + c3·x.z + t` -/
structure Aff where
  c1 : Q3
  c2 : Q3
  c3 : Q3
  t : Q3

namespace Aff
def lin (m : Aff) (v : Q3) : Q3 := ((m.c1.smul v.x).add (m.c2.smul v.y)).add (m.c3.smul v.z)
def act (m : Aff) (p : Q3) : Q3 := (m.lin p).add m.t
/-- transpose of the linear part -/
def tlin (m : Aff) (v : Q3) : Q3 := ⟨m.c1.dot v, m.c2.dot v, m.c3.dot v⟩
/-- approximate inverse (exact when the linear part is orthogonal) -/
def invAct (m : Aff) (p : Q3) : Q3 := m.tlin (p.sub m.t)
def identity : Aff := ⟨⟨1, 0, 0⟩, ⟨0, 1, 0⟩, ⟨0, 0, 1⟩, V3.zero⟩
/-- the exact linear map computed by nalgebra's quaternion formula (orthogonal up to the rounding of `q`) -/
def ofIso3 (m : Iso3 Rat) : Aff := ⟨m.rot ⟨1, 0, 0⟩, m.rot ⟨0, 1, 0⟩, m.rot ⟨0, 0, 1⟩, m.t⟩
def ofIso2 (m : Iso2 Rat) : Aff := ⟨⟨m.re, m.im, 0⟩, ⟨-m.im, m.re, 0⟩, ⟨0, 0, 1⟩, ⟨m.t.x, m.t.y, 0⟩⟩
/-- `a⁻¹ ∘ b` (approximate inverse of `a`) -/
def invMul (a b : Aff) : Aff := ⟨a.tlin b.c1, a.tlin b.c2, a.tlin b.c3, a.tlin (b.t.sub a.t)⟩
end Aff

/-- a shape placed in the world -/
structure Placed where
  sh : Sh
  pose : Aff

namespace Placed
def mem (s : Placed) (w : Q3) (tol : Rat) : Bool := s.sh.mem (s.pose.invAct w) tol
/-- world support function: `max_{x∈S} d·(M x + t) = h_S(Mᵀ d) + d·t` (exact) -/
def supp (s : Placed) (d : Q3) : Option Rat := (s.sh.supp (s.pose.tlin d)).map (· + d.dot s.pose.t)
def samplePts (s : Placed) : List Q3 := s.sh.samplePts.map s.pose.act
def size (s : Placed) : Rat := s.sh.size + normQ s.pose.t
end Placed

/-- result of a closest-points query, witnesses in **world** coordinates -/
inductive Res where
  | intersecting
  | disjoint
  | within (w1 w2 : Q3)
  | unsupported
  | panic

structure Bounds where
  lo : Option Rat   -- certified lower bound on the true distance
  hi : Option Rat   -- certified upper bound
deriving Inhabited

def showQ (x : Rat) : String :=
  let f : Float := Float.ofInt x.num / Float.ofNat x.den
  toString f

/-- slack (in length units) of direction `d = w2 - w1` against both shapes, `none` if a support value is unbounded
or `|d|` is below `tol` (touching: direction meaningless). -/
def supportSlack (A B : Placed) (w1 w2 : Q3) : Option (Rat × Rat) :=
  let d := w2.sub w1
  let len := normQ d
  if len = 0 then none else
  match A.supp d, B.supp d.neg with
  | some ha, some hb =>
      let sA := (ha - d.dot w1) / len
      let sB := (hb + d.dot w2) / len
      some (sA, sB)
  | _, _ => none

/-- exact distance between a placed half-space `A` and a placed bounded shape `B` -/
def halfspaceDistance (n : Q3) (poseA : Aff) (B : Placed) : Option Rat :=
  let nw := poseA.lin n
  let len := normQ nw
  if len = 0 then none else
  match B.supp nw.neg with
  | some h => -- min_b nw·b = -h ; signed distance = (min_b nw·b - nw·t) / |nw|
      some (maxQ 0 ((-h - nw.dot poseA.t) / len))
  | none => none

/-! ### independent exact distance for pairs of (rounded) polytopes with known face structure -/

/-- exact squared distance between segments `[p1,q1]`, `[p2,q2]`: minimum over the four endpoint-to-segment distances
and the interior critical pair of the two lines when it lies inside both segments (no clamping logic). -/
def segSegDistSq (p1 q1 p2 q2 : Q3) : Rat :=
  let c := minQ (minQ (distSqSeg p1 p2 q2) (distSqSeg q1 p2 q2)) (minQ (distSqSeg p2 p1 q1) (distSqSeg q2 p1 q1))
  let d1 := q1.sub p1; let d2 := q2.sub p2; let r := p1.sub p2
  let a := d1.normSq; let e := d2.normSq; let b := d1.dot d2
  let den := a * e - b * b
  if den = 0 then c else
    let cc := d1.dot r; let f := d2.dot r
    let s := (b * f - cc * e) / den
    let t := (a * f - b * cc) / den
    if 0 ≤ s ∧ s ≤ 1 ∧ 0 ≤ t ∧ t ≤ 1 then
      minQ c (((p1.add (d1.smul s)).sub (p2.add (d2.smul t))).normSq)
    else c

/-- a polytope core in world coordinates with its face structure and a rounding radius -/
structure Core where
  verts : List Q3
  edges : List (Q3 × Q3)
  normals : List Q3
  /-- squared distance from a world point to the (solid) core -/
  distSq : Q3 → Rat
  radius : Rat

def cuboidCore (he : Q3) (pose : Aff) : Core :=
  let sg : List Rat := [-1, 1]
  let lv : List Q3 := sg.flatMap fun sx => sg.flatMap fun sy => sg.map fun sz => ⟨sx * he.x, sy * he.y, sz * he.z⟩
  let le : List (Q3 × Q3) :=
    (sg.flatMap fun s1 => sg.map fun s2 => ((⟨-he.x, s1 * he.y, s2 * he.z⟩ : Q3), (⟨he.x, s1 * he.y, s2 * he.z⟩ : Q3))) ++
    (sg.flatMap fun s1 => sg.map fun s2 => ((⟨s1 * he.x, -he.y, s2 * he.z⟩ : Q3), (⟨s1 * he.x, he.y, s2 * he.z⟩ : Q3))) ++
    (sg.flatMap fun s1 => sg.map fun s2 => ((⟨s1 * he.x, s2 * he.y, -he.z⟩ : Q3), (⟨s1 * he.x, s2 * he.y, he.z⟩ : Q3)))
  { verts := lv.map pose.act
    edges := le.map fun (a, b) => (pose.act a, pose.act b)
    normals := [pose.c1, pose.c2, pose.c3]
    distSq := fun w =>
      let p := pose.invAct w
      let ex := maxQ 0 (absQ p.x - he.x); let ey := maxQ 0 (absQ p.y - he.y); let ez := maxQ 0 (absQ p.z - he.z)
      ex * ex + ey * ey + ez * ez
    radius := 0 }

def segmentCore (a b : Q3) (pose : Aff) (r : Rat) : Core :=
  let a' := pose.act a; let b' := pose.act b
  { verts := [a', b'], edges := [(a', b')], normals := [], distSq := fun w => distSqSeg w a' b', radius := r }

def triangleCore (a b c : Q3) (pose : Aff) : Core :=
  let a' := pose.act a; let b' := pose.act b; let c' := pose.act c
  { verts := [a', b', c'], edges := [(a', b'), (b', c'), (c', a')], normals := [(b'.sub a').cross (c'.sub a')],
    distSq := fun w => distSqTriangle w a' b' c', radius := 0 }

def pointCore (pose : Aff) (r : Rat) : Core :=
  { verts := [pose.t], edges := [], normals := [], distSq := fun w => (w.sub pose.t).normSq, radius := r }

def coreOf (s : Placed) : Option Core :=
  match s.sh with
  | .ball r => some (pointCore s.pose r)
  | .cuboid he => some (cuboidCore he s.pose)
  | .capsule a b r => some (segmentCore a b s.pose r)
  | .segment a b => some (segmentCore a b s.pose 0)
  | .triangle a b c => some (triangleCore a b c s.pose)
  | .round (.cuboid he) r => some { cuboidCore he s.pose with radius := r }
  | .round (.triangle a b c) r => some { triangleCore a b c s.pose with radius := r }
  | .round (.segment a b) r => some (segmentCore a b s.pose r)
  | _ => none

/-- does some candidate axis (face normals, edge × edge) strictly separate the vertex sets -/
def satSeparated (A B : Core) : Bool :=
  let dirs (c : Core) : List Q3 := c.edges.map fun (a, b) => b.sub a
  let axes := A.normals ++ B.normals ++ (dirs A).flatMap fun e1 => (dirs B).map fun e2 => e1.cross e2
  axes.any fun n =>
    if n.normSq = 0 then false else
    match A.verts.map n.dot, B.verts.map n.dot with
    | a :: as, b :: bs =>
        let maxA := as.foldl maxQ a; let minA := as.foldl minQ a
        let maxB := bs.foldl maxQ b; let minB := bs.foldl minQ b
        maxA < minB || maxB < minA
    | _, _ => false

/-- exact distance between two cores (`none` when the brute-force boundary distance is positive but no SAT axis
separates them in 3-D: piercing or degenerate configuration). -/
def coreDistance (A B : Core) (planar : Bool) : Option Rat :=
  let c1 := A.verts.map B.distSq
  let c2 := B.verts.map A.distSq
  let c3 := A.edges.flatMap fun (a, b) => B.edges.map fun (c, d) => segSegDistSq a b c d
  match c1 ++ c2 ++ c3 with
  | [] => none
  | x :: xs =>
    let m := xs.foldl minQ x
    let finish (d : Rat) : Option Rat := some (maxQ 0 (d - A.radius - B.radius))
    if m = 0 then finish 0
    -- cores of dimension ≤ 1 (points, segments) cannot pierce each other: the feature minimum is the distance
    else if planar || (A.normals.isEmpty && B.normals.isEmpty) || (A.edges.isEmpty || B.edges.isEmpty)
        || satSeparated A B then finish (sqrtQ m)
    -- a full-dimensional core (cuboid) makes the axis set complete: no separating axis ⇒ the cores overlap
    else if A.normals.length == 3 || B.normals.length == 3 then finish 0
    else none

/-- true distance, computed independently of the implementation: half-space vs bounded shape (closed form through
the support function) and pairs among ball / capsule / segment / triangle / cuboid (brute force over features). -/
def exactDistance (A B : Placed) (planar : Bool := false) : Option Rat :=
  match A.sh, B.sh with
  | .halfspace _, .halfspace _ => none
  | .halfspace n, _ => halfspaceDistance n A.pose B
  | _, .halfspace n => halfspaceDistance n B.pose A
  | _, _ => match coreOf A, coreOf B with
    | some a, some b => coreDistance a b planar
    | _, _ => none

/-- is there a certified common point among the candidates (within `tol`) -/
def overlapWitness (A B : Placed) (cands : List Q3) (tol : Rat) : Bool :=
  cands.any fun p => A.mem p tol && B.mem p tol

/-- gather certified bounds on the true distance from a candidate witness pair -/
def boundsFromPair (A B : Placed) (w1 w2 : Q3) (tol : Rat) : Bounds :=
  if !(A.mem w1 tol && B.mem w2 tol) then ⟨none, none⟩ else
  let gap := normQ (w2.sub w1)
  let hi := some (gap + 2 * tol)
  match supportSlack A B w1 w2 with
  | some (sA, sB) => ⟨some (gap - maxQ 0 sA - maxQ 0 sB - 2 * tol), hi⟩
  | none => ⟨none, hi⟩

def mergeBounds (a b : Bounds) : Bounds :=
  ⟨match a.lo, b.lo with
    | some x, some y => some (maxQ x y) | some x, none => some x | none, y => y,
   match a.hi, b.hi with
    | some x, some y => some (minQ x y) | some x, none => some x | none, y => y⟩

def tolFor (A B : Placed) : Rat := (1 / 1000000) * (1 + A.size + B.size)

/-- shapes with curved edges (cone / cylinder rims): GJK only converges asymptotically on them and its fallback exits
stop at about `1e-5` relative precision, so the support-slack tolerance is ten times the membership tolerance -/
def Sh.curved : Sh → Bool
  | .cone .. => true
  | .cylinder .. => true
  | .round .. => true
  | _ => false
/-- support maps with a curved boundary: when such a shape is handed to GJK directly (the `*_with_params` histories; the
dispatcher never sends a ball through GJK) the iteration converges only asymptotically and the fallback exits stop at about
`1e-5` relative precision — the history oracles use ten times the tolerance for them -/
def Sh.gjkCurved : Sh → Bool
  | .ball _ => true
  | .capsule .. => true
  | s => s.curved
def gjkTolScale (A B : Placed) : Rat := if A.sh.gjkCurved || B.sh.gjkCurved then 10 else 1
def slackTolFor (A B : Placed) : Rat := tolFor A B * (if A.sh.curved || B.sh.curved then 10 else 1)

/-- all the independent knowledge about the true distance: exact closed form (half-space pairs), certified hint
pairs, certified overlap candidates -/
def knowledge (A B : Placed) (hints : List Res) (extraPts : List Q3) (planar : Bool) : Bounds :=
  let tol := tolFor A B
  let b0 : Bounds := match exactDistance A B planar with
    | some D => ⟨some (D - tol), some (D + tol)⟩
    | none => ⟨none, none⟩
  let b1 := hints.foldl (fun acc h => match h with
    | .within w1 w2 => mergeBounds acc (boundsFromPair A B w1 w2 tol)
    | _ => acc) b0
  let cands := extraPts ++ A.samplePts ++ B.samplePts ++
    hints.flatMap (fun h => match h with | .within w1 w2 => [w1, w2, V3.center w1 w2] | _ => [])
  if overlapWitness A B cands tol then mergeBounds b1 ⟨none, some 0⟩ else b1

/-- two plain segments in the plane `z = 0` whose supporting lines cross at parameters well inside both (`[1/100, 99/100]`) -/
def robustCrossing (A B : Placed) : Bool :=
  match A.sh, B.sh with
  | .segment a b, .segment c d =>
      let p1 := A.pose.act a; let q1 := A.pose.act b; let p2 := B.pose.act c; let q2 := B.pose.act d
      let d1 := q1.sub p1; let d2 := q2.sub p2; let r := p2.sub p1
      let den := d1.x * d2.y - d1.y * d2.x
      if den = 0 then false else
        let s := (r.x * d2.y - r.y * d2.x) / den
        let t := (r.x * d1.y - r.y * d1.x) / den
        let lo : Rat := 1 / 100; let hi : Rat := 99 / 100
        lo ≤ s && s ≤ hi && lo ≤ t && t ≤ hi
  | _, _ => false

/-- verdict on a `closest_points` answer -/
def judgeCP (A B : Placed) (maxDist : Rat) (res : Res) (hints : List Res) (extraPts : List Q3) (planar : Bool := false)
    (tolScale : Rat := 1) : String :=
  let tol := tolFor A B * tolScale
  let route := s!"route={A.sh.kind}x{B.sh.kind}"
  let kn := knowledge A B hints extraPts planar
  match res with
  | .panic => s!"fail {route} panic"
  | .unsupported => "skip unsupported-pair"
  | .within w1 w2 =>
      if !(A.mem w1 tol) then s!"fail {route} witness1-not-in-shape1" else
      if !(B.mem w2 tol) then s!"fail {route} witness2-not-in-shape2" else
      let gap := normQ (w2.sub w1)
      if gap > maxDist + tol then s!"fail {route} within-margin-but-gap-exceeds-max_dist gap={showQ gap}" else
      -- coincident witnesses are fine when the shapes merely touch; but two planar segments that cross well inside
      -- each other overlap robustly and the answer should have been `Intersecting`
      if gap ≤ 2 * tol && planar && robustCrossing A B then s!"fail {route} within-margin-but-overlapping" else
      match exactDistance A B planar with
      | some D => if gap ≤ D + 2 * tol then "pass" else s!"fail {route} not-closest gap={showQ gap} true={showQ D}"
      | none =>
        if gap ≤ 2 * tol then "pass" else
        match supportSlack A B w1 w2 with
        | some (sA, sB) =>
            if maxQ 0 sA + maxQ 0 sB ≤ slackTolFor A B then s!"pass slack/tol={showQ ((maxQ 0 sA + maxQ 0 sB) / slackTolFor A B)}"
            else
              -- slack found: the pair is not supported by its own direction; quantify with the hint if there is one
              let better := match kn.hi with | some h => s!" certified-upper-bound={showQ h}" | none => ""
              s!"fail {route} not-closest gap={showQ gap} slack1={showQ sA} slack2={showQ sB}{better}"
        | none => "skip no-support-value"
  | .disjoint =>
      match kn.lo, kn.hi with
      | some lo, _ => if lo > maxDist then "pass" else
          match kn.hi with
          | some hi => if hi < maxDist - tol then s!"fail {route} disjoint-but-distance<=max_dist hi={showQ hi} max={showQ maxDist}" else "skip boundary"
          | none => "skip boundary"
      | none, some hi => if hi < maxDist - tol then s!"fail {route} disjoint-but-distance<=max_dist hi={showQ hi} max={showQ maxDist}" else "skip no-lower-bound"
      | none, none => "skip no-certificate"
  | .intersecting =>
      match kn.lo with
      | some lo => if lo > 2 * tol then s!"fail {route} intersecting-but-separated lo={showQ lo}" else
          (match kn.hi with
           | some hi => if hi ≤ 4 * tol then "pass" else "skip no-overlap-certificate"
           | none => "skip no-overlap-certificate")
      | none => match kn.hi with
          | some hi => if hi ≤ 4 * tol then "pass" else "skip no-overlap-certificate"
          | none => "skip no-certificate"

/-- verdict on a `distance` answer -/
def judgeDist (A B : Placed) (x : Rat) (hints : List Res) (extraPts : List Q3) (planar : Bool := false)
    (tolScale : Rat := 1) : String :=
  let tol := tolFor A B * tolScale
  let route := s!"route={A.sh.kind}x{B.sh.kind}"
  let kn := knowledge A B hints extraPts planar
  if x < 0 then s!"fail {route} negative-distance" else
  match kn.lo, kn.hi with
  | some lo, some hi =>
      if x < lo - tol then s!"fail {route} distance-too-small got={showQ x} lo={showQ lo}"
      else if x > hi + tol then s!"fail {route} distance-too-large got={showQ x} hi={showQ hi}"
      else "pass"
  | none, some hi =>
      if x > hi + tol then s!"fail {route} distance-too-large got={showQ x} hi={showQ hi}"
      else if hi ≤ 4 * tol then "pass" else "skip no-lower-bound"
  | some lo, none => if x < lo - tol then s!"fail {route} distance-too-small got={showQ x} lo={showQ lo}" else "skip no-upper-bound"
  | none, none => "skip no-certificate"

end C01.Oracle
