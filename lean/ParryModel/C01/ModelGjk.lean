import ParryModel.C05.Model
import ParryModel.C10.Model
/-!
# C01 model, part 2: `query/gjk/voronoi_simplex2.rs`, `voronoi_simplex3.rs`, `cso_point.rs` and the exits of
`gjk::closest_points` (`gjk.rs`).

Literal transliteration. The fixed-size arrays `[CSOPoint; 3|4]`, `[Real; 2|3]`, `[usize; 3|4]` are records with one
field per slot; `get/set/swap` by index. A Rust panic (`vertices[3]` in 2-D `add_point` on a full simplex, `assert!`,
`unreachable!()`, the tetrahedron projection's own panics) is `none`.
The segment / triangle / tetrahedron projections are the C05 models (`Segment*.projectLoc`, `Triangle*.projectLoc`,
`Tetrahedron.projectLoc`, bit-exact there), called exactly as the Rust calls them: query point = origin, `solid = true`.
-/
namespace Model.Gjk
open Model
variable {K : Type} [Num K]

/-- `gjk::eps_tol()` = `DEFAULT_EPSILON * 10.0` -/
@[inline] def epsTol : K := (eps : K) * lit 10

/-! ## 2-D -/

/-- comparisons against a bound that may be `Real::max_value()` (`none`) -/
@[inline] def optLe (a : Option K) (b : K) : Bool := match a with | some x => decide (x ≤ b) | none => false
@[inline] def optLt (a : Option K) (b : K) : Bool := match a with | some x => decide (x < b) | none => false
@[inline] def leOpt (b : K) (a : Option K) : Bool := match a with | some x => decide (b ≤ x) | none => true

/-- `CSOPoint` -/
structure CSO2 (K : Type) where
  point : V2 K
  orig1 : V2 K
  orig2 : V2 K

/-- `CSOPoint::new(orig1, orig2)` : `point = orig1 - orig2` -/
@[inline] def CSO2.new (o1 o2 : V2 K) : CSO2 K := ⟨o1.sub o2, o1, o2⟩
/-- `CSOPoint::origin()` -/
@[inline] def CSO2.origin : CSO2 K := CSO2.new V2.zero V2.zero

/-- 2-D `VoronoiSimplex` -/
structure Vs2 (K : Type) where
  pv0 : Nat
  pv1 : Nat
  pv2 : Nat
  prevDim : Nat
  pp0 : K
  pp1 : K
  v0 : CSO2 K
  v1 : CSO2 K
  v2 : CSO2 K
  p0 : K
  p1 : K
  dim : Nat

namespace Vs2
/-- `VoronoiSimplex::new()` -/
def new : Vs2 K := ⟨0, 1, 2, 0, 0, 0, CSO2.origin, CSO2.origin, CSO2.origin, 0, 0, 0⟩

@[inline] def get (s : Vs2 K) (i : Nat) : CSO2 K := match i with | 0 => s.v0 | 1 => s.v1 | _ => s.v2
@[inline] def set (s : Vs2 K) (i : Nat) (c : CSO2 K) : Vs2 K :=
  match i with | 0 => { s with v0 := c } | 1 => { s with v1 := c } | _ => { s with v2 := c }
@[inline] def getPv (s : Vs2 K) (i : Nat) : Nat := match i with | 0 => s.pv0 | 1 => s.pv1 | _ => s.pv2
@[inline] def setPv (s : Vs2 K) (i : Nat) (c : Nat) : Vs2 K :=
  match i with | 0 => { s with pv0 := c } | 1 => { s with pv1 := c } | _ => { s with pv2 := c }
@[inline] def getProj (s : Vs2 K) (i : Nat) : K := match i with | 0 => s.p0 | _ => s.p1
@[inline] def getPrevProj (s : Vs2 K) (i : Nat) : K := match i with | 0 => s.pp0 | _ => s.pp1

/-- `swap(i1, i2)`: both `vertices` and `prev_vertices` -/
def swap (s : Vs2 K) (i j : Nat) : Vs2 K :=
  let a := s.get i; let b := s.get j
  let s := (s.set i b).set j a
  let x := s.getPv i; let y := s.getPv j
  (s.setPv i y).setPv j x

/-- `reset(pt)` -/
def reset (s : Vs2 K) (pt : CSO2 K) : Vs2 K := { s with prevDim := 0, dim := 0, v0 := pt }

/-- the duplicate test of `add_point`: `for i in 0..dim+1 { if (vertices[i].point - pt.point).norm_squared() < eps_tol … }` -/
def dup (s : Vs2 K) (pt : CSO2 K) : Nat → Nat → Bool
  | _, 0 => false
  | i, n+1 => if ((s.get i).point.sub pt.point).normSq < epsTol then true else dup s pt (i+1) n

/-- `add_point(pt) -> bool`; `none` = index-out-of-bounds panic (simplex already has three vertices) -/
def addPoint (s : Vs2 K) (pt : CSO2 K) : Option (Vs2 K × Bool) :=
  let s := { s with prevDim := s.dim, pp0 := s.p0, pp1 := s.p1, pv0 := 0, pv1 := 1, pv2 := 2 }
  if s.dim ≥ 3 then none else
  if dup s pt 0 (s.dim + 1) then some (s, false) else
  if s.dim + 1 ≥ 3 then none else
  some (({ s with dim := s.dim + 1 }).set (s.dim + 1) pt, true)

/-- `project_origin_and_reduce() -> Point`; `none` = `assert!(self.dim == 2)` / `unreachable!()` -/
def projectOriginAndReduce (s : Vs2 K) : Option (Vs2 K × V2 K) :=
  if s.dim = 0 then some ({ s with p0 := 1 }, s.v0.point)
  else if s.dim = 1 then
    let r := Segment2.projectLoc ⟨s.v0.point, s.v1.point⟩ V2.zero
    match r.2 with
    | .vertex 0 => some ({ s with p0 := 1, dim := 0 }, r.1.pt)
    | .vertex 1 => some ({ ({ s with p0 := 1 } : Vs2 K).swap 0 1 with dim := 0 }, r.1.pt)
    | .vertex _ => none
    | .edge b0 b1 => some ({ s with p0 := b0, p1 := b1 }, r.1.pt)
  else if s.dim = 2 then
    let r := Triangle2.projectLoc ⟨s.v0.point, s.v1.point, s.v2.point⟩ V2.zero true
    match r.2 with
    | .vertex i => if i ≥ 3 then none else some ({ s.swap 0 i with p0 := 1, dim := 0 }, r.1.pt)
    | .edge 0 b0 b1 => some ({ s with p0 := b0, p1 := b1, dim := 1 }, r.1.pt)
    | .edge 1 b0 b1 => some ({ s.swap 0 2 with p0 := b1, p1 := b0, dim := 1 }, r.1.pt)
    | .edge 2 b0 b1 => some ({ s.swap 1 2 with p0 := b0, p1 := b1, dim := 1 }, r.1.pt)
    | _ => some (s, r.1.pt)
  else none

/-- `contains_point(pt)` : exact `==` against the `dim + 1` live vertices -/
def containsPointGo (s : Vs2 K) (pt : V2 K) : Nat → Nat → Bool
  | _, 0 => false
  | i, n+1 => if V2.beq (s.get i).point pt then true else containsPointGo s pt (i+1) n
def containsPoint (s : Vs2 K) (pt : V2 K) : Bool := containsPointGo s pt 0 (s.dim + 1)

/-- `gjk::result(simplex, prev)` : barycentric reconstruction of the two witnesses -/
def result (s : Vs2 K) (prev : Bool) : V2 K × V2 K :=
  let rec go (i n : Nat) (acc : V2 K × V2 K) : V2 K × V2 K :=
    match n with
    | 0 => acc
    | n+1 =>
      let coord := if prev then s.getPrevProj i else s.getProj i
      let pt := if prev then s.get (s.getPv i) else s.get i
      go (i+1) n (acc.1.add (pt.orig1.smul coord), acc.2.add (pt.orig2.smul coord))
  go 0 ((if prev then s.prevDim else s.dim) + 1) (V2.zero, V2.zero)
end Vs2

/-! ## 3-D -/

structure CSO3 (K : Type) where
  point : V3 K
  orig1 : V3 K
  orig2 : V3 K

@[inline] def CSO3.new (o1 o2 : V3 K) : CSO3 K := ⟨o1.sub o2, o1, o2⟩
@[inline] def CSO3.origin : CSO3 K := CSO3.new V3.zero V3.zero

/-- 3-D `VoronoiSimplex` -/
structure Vs3 (K : Type) where
  pv0 : Nat
  pv1 : Nat
  pv2 : Nat
  pv3 : Nat
  pp0 : K
  pp1 : K
  pp2 : K
  prevDim : Nat
  v0 : CSO3 K
  v1 : CSO3 K
  v2 : CSO3 K
  v3 : CSO3 K
  p0 : K
  p1 : K
  p2 : K
  dim : Nat

namespace Vs3
def new : Vs3 K := ⟨0, 1, 2, 3, 0, 0, 0, 0, CSO3.origin, CSO3.origin, CSO3.origin, CSO3.origin, 0, 0, 0, 0⟩

@[inline] def get (s : Vs3 K) (i : Nat) : CSO3 K := match i with | 0 => s.v0 | 1 => s.v1 | 2 => s.v2 | _ => s.v3
@[inline] def set (s : Vs3 K) (i : Nat) (c : CSO3 K) : Vs3 K :=
  match i with | 0 => { s with v0 := c } | 1 => { s with v1 := c } | 2 => { s with v2 := c } | _ => { s with v3 := c }
@[inline] def getPv (s : Vs3 K) (i : Nat) : Nat := match i with | 0 => s.pv0 | 1 => s.pv1 | 2 => s.pv2 | _ => s.pv3
@[inline] def setPv (s : Vs3 K) (i : Nat) (c : Nat) : Vs3 K :=
  match i with | 0 => { s with pv0 := c } | 1 => { s with pv1 := c } | 2 => { s with pv2 := c } | _ => { s with pv3 := c }
@[inline] def getProj (s : Vs3 K) (i : Nat) : K := match i with | 0 => s.p0 | 1 => s.p1 | _ => s.p2
@[inline] def getPrevProj (s : Vs3 K) (i : Nat) : K := match i with | 0 => s.pp0 | 1 => s.pp1 | _ => s.pp2

def swap (s : Vs3 K) (i j : Nat) : Vs3 K :=
  let a := s.get i; let b := s.get j
  let s := (s.set i b).set j a
  let x := s.getPv i; let y := s.getPv j
  (s.setPv i y).setPv j x

def reset (s : Vs3 K) (pt : CSO3 K) : Vs3 K := { s with dim := 0, prevDim := 0, v0 := pt }

/-- `add_point`: the affine-dependence test depends on the current dimension; `none` = `unreachable!()` -/
def addPoint (s : Vs3 K) (pt : CSO3 K) : Option (Vs3 K × Bool) :=
  let s := { s with prevDim := s.dim, pp0 := s.p0, pp1 := s.p1, pp2 := s.p2, pv0 := 0, pv1 := 1, pv2 := 2, pv3 := 3 }
  let rejected : Option Bool :=
    if s.dim = 0 then some (decide ((s.v0.point.sub pt.point).normSq < epsTol))
    else if s.dim = 1 then
      let ab := s.v1.point.sub s.v0.point
      let ac := pt.point.sub s.v0.point
      some (decide ((ab.cross ac).normSq < epsTol))
    else if s.dim = 2 then
      let ab := s.v1.point.sub s.v0.point
      let ac := s.v2.point.sub s.v0.point
      let ap := pt.point.sub s.v0.point
      let n := (ab.cross ac).normalize
      some (decide (nabs (n.dot ap) < epsTol))
    else none
  match rejected with
  | none => none
  | some true => some (s, false)
  | some false => some (({ s with dim := s.dim + 1 }).set (s.dim + 1) pt, true)

/-- `project_origin_and_reduce`; `none` = `assert!(self.dim == 3)` / `unreachable!()` / a panic inside the tetrahedron projection -/
def projectOriginAndReduce (s : Vs3 K) : Option (Vs3 K × V3 K) :=
  if s.dim = 0 then some ({ s with p0 := 1 }, s.v0.point)
  else if s.dim = 1 then
    let r := Segment3.projectLoc ⟨s.v0.point, s.v1.point⟩ V3.zero
    match r.2 with
    | .vertex 0 => some ({ s with p0 := 1, dim := 0 }, r.1.pt)
    | .vertex 1 => some ({ s.swap 0 1 with p0 := 1, dim := 0 }, r.1.pt)
    | .vertex _ => none
    | .edge b0 b1 => some ({ s with p0 := b0, p1 := b1 }, r.1.pt)
  else if s.dim = 2 then
    let r := Triangle3.projectLoc ⟨s.v0.point, s.v1.point, s.v2.point⟩ V3.zero true
    match r.2 with
    | .vertex i => if i ≥ 4 then none else some ({ s.swap 0 i with p0 := 1, dim := 0 }, r.1.pt)
    | .edge 0 b0 b1 => some ({ s with p0 := b0, p1 := b1, dim := 1 }, r.1.pt)
    | .edge 1 b0 b1 => some ({ s.swap 0 2 with p0 := b1, p1 := b0, dim := 1 }, r.1.pt)
    | .edge 2 b0 b1 => some ({ s.swap 1 2 with p0 := b0, p1 := b1, dim := 1 }, r.1.pt)
    | .face _ b0 b1 b2 => some ({ s with p0 := b0, p1 := b1, p2 := b2 }, r.1.pt)
    | _ => some (s, r.1.pt)
  else if s.dim = 3 then
    match Tetrahedron.projectLoc ⟨s.v0.point, s.v1.point, s.v2.point, s.v3.point⟩ V3.zero true with
    | .panic => none
    | .ok pp loc =>
      match loc with
      | .vertex i => if i ≥ 4 then none else some ({ s.swap 0 i with p0 := 1, dim := 0 }, pp.pt)
      | .edge i b0 b1 =>
        let sw : Option (Vs3 K) := match i with
          | 0 => some s
          | 1 => some (s.swap 1 2)
          | 2 => some (s.swap 1 3)
          | 3 => some (s.swap 0 2)
          | 4 => some (s.swap 0 3)
          | 5 => some ((s.swap 0 2).swap 1 3)
          | _ => none
        match sw with
        | none => none
        | some s =>
          if i = 3 ∨ i = 4 then some ({ s with p0 := b1, p1 := b0, dim := 1 }, pp.pt)
          else some ({ s with p0 := b0, p1 := b1, dim := 1 }, pp.pt)
      | .face 0 b0 b1 b2 => some ({ s with p0 := b0, p1 := b1, p2 := b2, dim := 2 }, pp.pt)
      | .face 1 b0 b1 b2 => some ({ s with v2 := s.v3, p0 := b0, p1 := b1, p2 := b2, dim := 2 }, pp.pt)
      | .face 2 b0 b1 b2 => some ({ s with v1 := s.v3, p0 := b0, p1 := b2, p2 := b1, dim := 2 }, pp.pt)
      | .face 3 b0 b1 b2 => some ({ s with v0 := s.v3, p0 := b2, p1 := b0, p2 := b1, dim := 2 }, pp.pt)
      | .face _ _ _ _ => none
      | .solid => some (s, pp.pt)
  else none

def containsPointGo (s : Vs3 K) (pt : V3 K) : Nat → Nat → Bool
  | _, 0 => false
  | i, n+1 => if V3.beq (s.get i).point pt then true else containsPointGo s pt (i+1) n
def containsPoint (s : Vs3 K) (pt : V3 K) : Bool := containsPointGo s pt 0 (s.dim + 1)

def result (s : Vs3 K) (prev : Bool) : V3 K × V3 K :=
  let rec go (i n : Nat) (acc : V3 K × V3 K) : V3 K × V3 K :=
    match n with
    | 0 => acc
    | n+1 =>
      let coord := if prev then s.getPrevProj i else s.getProj i
      let pt := if prev then s.get (s.getPv i) else s.get i
      go (i+1) n (acc.1.add (pt.orig1.smul coord), acc.2.add (pt.orig2.smul coord))
  go 0 ((if prev then s.prevDim else s.dim) + 1) (V3.zero, V3.zero)
end Vs3


/-! ## `gjk::closest_points` (3-D) and the `*_support_map_support_map_with_params` entry points

`fs dir` stands for `CSOPoint::from_shapes(pos12, g1, g2, dir)`. `Real::max_value()` (the `max_dist` of `distance`, the initial
`max_bound`) is `none`: every finite value compares below it. -/

/-- `GJKResult` (+ `panic` for the `assert!`s and the simplex panics) -/
inductive GjkRes3 (K : Type) where
  | intersection
  | closest (p1 p2 dir : V3 K)
  | proximity (dir : V3 K)
  | noIntersection (dir : V3 K)
  | panic

/-- `Unit::try_new_and_get(v, min_norm)` -/
def tryNewAndGet3 (v : V3 K) (minNorm : K) : Option (V3 K × K) :=
  let sq := v.normSq
  if minNorm * minNorm < sq then let n := Num.sqrt sq; some (v.sdiv n, n) else none

/-- `x.is_finite()` with `Num` operations: `x - x == 0` fails exactly for `±∞` and NaN -/
@[inline] def isFinite (x : K) : Bool := neq (x - x) 0

/-- `CSOPoint::from_shapes(pos12, g1, g2, dir)`: `loc1`/`sup2` are `g1.local_support_point` and `g2.support_point(pos12, ·)` -/
def fromShapes3 (loc1 : V3 K → V3 K) (sup2 : V3 K → V3 K) (dir : V3 K) : CSO3 K :=
  CSO3.new (loc1 dir) (sup2 dir.neg)

/-- what one pass through the loop body of `gjk::closest_points` does -/
inductive GjkStep3 (K : Type) where
  | exit (r : GjkRes3 K) (s : Vs3 K)
  | next (s : Vs3 K) (proj oldDir : V3 K) (maxBound : K)

/-- the loop body (everything between `loop {` and `niter += 1`) -/
def gjkBody3 (fs : V3 K → CSO3 K) (maxDist : Option K) (exact : Bool)
    (s : Vs3 K) (proj oldDir : V3 K) (maxBound : Option K) : GjkStep3 K :=
  let epsRel : K := Num.sqrt epsTol
  match tryNewAndGet3 proj.neg epsTol with
  | none => .exit .intersection s                                  -- the origin is on the simplex
  | some (dir, mb) =>
    if optLe maxBound mb then
      -- upper bounds inconsistencies
      if exact then let r := s.result true; .exit (.closest r.1 r.2 oldDir) s else .exit (.proximity oldDir) s
    else
    let cso := fs dir
    let minBound := -(dir.dot cso.point)
    if !isFinite minBound then .exit .panic s else
    if optLt maxDist minBound then .exit (.noIntersection dir) s
    else if !exact && decide (0 < minBound) && leOpt mb maxDist then
      .exit (.proximity oldDir) s
    else if mb - minBound ≤ epsRel * mb then
      -- the distance found has a good enough precision
      if exact then let r := s.result false; .exit (.closest r.1 r.2 dir) s else .exit (.proximity dir) s
    else
    match s.addPoint cso with
    | none => .exit .panic s
    | some (s, false) =>
      if exact then let r := s.result false; .exit (.closest r.1 r.2 dir) s else .exit (.proximity dir) s
    | some (s, true) =>
      match s.projectOriginAndReduce with
      | none => .exit .panic s
      | some (s, proj') =>
        if s.dim = 3 then
          if epsTol ≤ minBound then
            if exact then let r := s.result true; .exit (.closest r.1 r.2 dir) s else .exit (.proximity dir) s
          else .exit .intersection s                               -- point inside of the CSO
        else .next s proj' dir mb

/-- the loop with its `niter == 100` cap (`fuel` = remaining iterations) -/
def gjkLoop3 (fs : V3 K → CSO3 K) (maxDist : Option K) (exact : Bool) :
    Nat → Vs3 K → V3 K → V3 K → Option K → GjkRes3 K × Vs3 K
  | 0, s, _, _, _ => (.noIntersection ⟨1, 0, 0⟩, s)
  | fuel+1, s, proj, oldDir, maxBound =>
    match gjkBody3 fs maxDist exact s proj oldDir maxBound with
    | .exit r s => (r, s)
    | .next s proj oldDir mb => gjkLoop3 fs maxDist exact fuel s proj oldDir (some mb)

/-- `gjk::closest_points(pos12, g1, g2, max_dist, exact_dist, simplex)` -/
def gjkClosestPoints3 (fs : V3 K → CSO3 K) (maxDist : Option K) (exact : Bool) (s : Vs3 K) : GjkRes3 K × Vs3 K :=
  match s.projectOriginAndReduce with
  | none => (.panic, s)
  | some (s, proj) =>
    match C10.tryNew3 proj 0 with
    | none => (.intersection, s)
    | some projDir => gjkLoop3 fs maxDist exact 100 s proj projDir.neg none

/-- the common head of `distance_…_with_params` / `closest_points_…_with_params`: the start direction and the `reset` -/
def gjkStart3 (fs : V3 K → CSO3 K) (translation : V3 K) (initDir : Option (V3 K)) (s : Vs3 K) : Vs3 K :=
  let dir := match initDir with | none => translation.neg | some d => d
  match C10.tryNew3 dir C10.eps with
  | some d => s.reset (fs d)
  | none => s.reset (fs ⟨1, 0, 0⟩)

/-- `closest_points_support_map_support_map_with_params` -/
def closestPointsSmSmWithParams3 (fs : V3 K → CSO3 K) (translation : V3 K) (prediction : K)
    (s : Vs3 K) (initDir : Option (V3 K)) : GjkRes3 K × Vs3 K :=
  gjkClosestPoints3 fs (some prediction) true (gjkStart3 fs translation initDir s)

/-- `distance_support_map_support_map_with_params`; `none` = panic -/
def distanceSmSmWithParams3 (fs : V3 K → CSO3 K) (translation : V3 K)
    (s : Vs3 K) (initDir : Option (V3 K)) : Option K × Vs3 K :=
  let r := gjkClosestPoints3 fs none true (gjkStart3 fs translation initDir s)
  (match r.1 with
   | .intersection => some 0
   | .closest p1 p2 _ => some (p1.sub p2).norm
   | .noIntersection _ => some 0
   | _ => none, r.2)

/-! ## `gjk::closest_points` (2-D) and the `*_support_map_support_map_with_params` entry points

`fs dir` stands for `CSOPoint::from_shapes(pos12, g1, g2, dir)`. `Real::max_value()` (the `max_dist` of `distance`, the initial
`max_bound`) is `none`: every finite value compares below it. -/

/-- `GJKResult` (+ `panic` for the `assert!`s and the simplex panics) -/
inductive GjkRes2 (K : Type) where
  | intersection
  | closest (p1 p2 dir : V2 K)
  | proximity (dir : V2 K)
  | noIntersection (dir : V2 K)
  | panic

/-- `Unit::try_new_and_get(v, min_norm)` -/
def tryNewAndGet2 (v : V2 K) (minNorm : K) : Option (V2 K × K) :=
  let sq := v.normSq
  if minNorm * minNorm < sq then let n := Num.sqrt sq; some (v.sdiv n, n) else none


/-- `CSOPoint::from_shapes(pos12, g1, g2, dir)`: `loc1`/`sup2` are `g1.local_support_point` and `g2.support_point(pos12, ·)` -/
def fromShapes2 (loc1 : V2 K → V2 K) (sup2 : V2 K → V2 K) (dir : V2 K) : CSO2 K :=
  CSO2.new (loc1 dir) (sup2 dir.neg)

/-- what one pass through the loop body of `gjk::closest_points` does -/
inductive GjkStep2 (K : Type) where
  | exit (r : GjkRes2 K) (s : Vs2 K)
  | next (s : Vs2 K) (proj oldDir : V2 K) (maxBound : K)

/-- the loop body (everything between `loop {` and `niter += 1`) -/
def gjkBody2 (fs : V2 K → CSO2 K) (maxDist : Option K) (exact : Bool)
    (s : Vs2 K) (proj oldDir : V2 K) (maxBound : Option K) : GjkStep2 K :=
  let epsRel : K := Num.sqrt epsTol
  match tryNewAndGet2 proj.neg epsTol with
  | none => .exit .intersection s                                  -- the origin is on the simplex
  | some (dir, mb) =>
    if optLe maxBound mb then
      -- upper bounds inconsistencies
      if exact then let r := s.result true; .exit (.closest r.1 r.2 oldDir) s else .exit (.proximity oldDir) s
    else
    let cso := fs dir
    let minBound := -(dir.dot cso.point)
    if !isFinite minBound then .exit .panic s else
    if optLt maxDist minBound then .exit (.noIntersection dir) s
    else if !exact && decide (0 < minBound) && leOpt mb maxDist then
      .exit (.proximity oldDir) s
    else if mb - minBound ≤ epsRel * mb then
      -- the distance found has a good enough precision
      if exact then let r := s.result false; .exit (.closest r.1 r.2 dir) s else .exit (.proximity dir) s
    else
    match s.addPoint cso with
    | none => .exit .panic s
    | some (s, false) =>
      if exact then let r := s.result false; .exit (.closest r.1 r.2 dir) s else .exit (.proximity dir) s
    | some (s, true) =>
      match s.projectOriginAndReduce with
      | none => .exit .panic s
      | some (s, proj') =>
        if s.dim = 2 then
          if epsTol ≤ minBound then
            if exact then let r := s.result true; .exit (.closest r.1 r.2 dir) s else .exit (.proximity dir) s
          else .exit .intersection s                               -- point inside of the CSO
        else .next s proj' dir mb

/-- the loop with its `niter == 100` cap (`fuel` = remaining iterations) -/
def gjkLoop2 (fs : V2 K → CSO2 K) (maxDist : Option K) (exact : Bool) :
    Nat → Vs2 K → V2 K → V2 K → Option K → GjkRes2 K × Vs2 K
  | 0, s, _, _, _ => (.noIntersection ⟨1, 0⟩, s)
  | fuel+1, s, proj, oldDir, maxBound =>
    match gjkBody2 fs maxDist exact s proj oldDir maxBound with
    | .exit r s => (r, s)
    | .next s proj oldDir mb => gjkLoop2 fs maxDist exact fuel s proj oldDir (some mb)

/-- `gjk::closest_points(pos12, g1, g2, max_dist, exact_dist, simplex)` -/
def gjkClosestPoints2 (fs : V2 K → CSO2 K) (maxDist : Option K) (exact : Bool) (s : Vs2 K) : GjkRes2 K × Vs2 K :=
  match s.projectOriginAndReduce with
  | none => (.panic, s)
  | some (s, proj) =>
    match C10.tryNew2 proj 0 with
    | none => (.intersection, s)
    | some projDir => gjkLoop2 fs maxDist exact 100 s proj projDir.neg none

/-- the common head of `distance_…_with_params` / `closest_points_…_with_params`: the start direction and the `reset` -/
def gjkStart2 (fs : V2 K → CSO2 K) (translation : V2 K) (initDir : Option (V2 K)) (s : Vs2 K) : Vs2 K :=
  let dir := match initDir with | none => translation.neg | some d => d
  match C10.tryNew2 dir C10.eps with
  | some d => s.reset (fs d)
  | none => s.reset (fs ⟨1, 0⟩)

/-- `closest_points_support_map_support_map_with_params` -/
def closestPointsSmSmWithParams2 (fs : V2 K → CSO2 K) (translation : V2 K) (prediction : K)
    (s : Vs2 K) (initDir : Option (V2 K)) : GjkRes2 K × Vs2 K :=
  gjkClosestPoints2 fs (some prediction) true (gjkStart2 fs translation initDir s)

/-- `distance_support_map_support_map_with_params`; `none` = panic -/
def distanceSmSmWithParams2 (fs : V2 K → CSO2 K) (translation : V2 K)
    (s : Vs2 K) (initDir : Option (V2 K)) : Option K × Vs2 K :=
  let r := gjkClosestPoints2 fs none true (gjkStart2 fs translation initDir s)
  (match r.1 with
   | .intersection => some 0
   | .closest p1 p2 _ => some (p1.sub p2).norm
   | .noIntersection _ => some 0
   | _ => none, r.2)

end Model.Gjk
