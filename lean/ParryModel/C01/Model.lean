import ParryModel.Shapes
/-!
# C01 model: closed-form distance / closest-point kernels and the cuboid SAT
Literal transliterations (same branch order, comparison strictness, operation order) of
`src/query/distance/distance_ball_ball.rs`, `closest_points/closest_points_ball_ball.rs`,
`distance/distance_halfspace_support_map.rs`, `closest_points/closest_points_halfspace_support_map.rs`
(with the `Ball` and `Cuboid` support maps of `shape/ball.rs`, `shape/cuboid.rs`, `shape/support_map.rs`),
`closest_points/closest_points_line_line.rs`, `closest_points/closest_points_segment_segment.rs`,
`sat/sat_cuboid_cuboid.rs`.

Everything lives in `Model.Dist` so that it cannot clash with other properties' models.
-/
namespace Model.Dist
open Model
variable {K : Type} [Num K]

/-- Bit-level float primitives that `Num` does not carry. They have **no laws**; the theorems state
what they assume about them (`copysign` through `LawfulBits`, `ulpsEq` through an explicit hypothesis). -/
class NumBits (K : Type) where
  /-- `mag.copysign(sgn)`: magnitude of `mag`, sign bit of `sgn` -/
  copysign : K → K → K
  /-- `approx::ulps_eq!(a, b)` with the default `epsilon = f64::EPSILON`, `max_ulps = 4` -/
  ulpsEq : K → K → Bool

export NumBits (copysign ulpsEq)

instance : NumBits Float where
  copysign mag sgn :=
    Float.ofBits ((mag.toBits &&& 0x7FFFFFFFFFFFFFFF) ||| (sgn.toBits &&& 0x8000000000000000))
  ulpsEq a b :=
    if Float.abs (a - b) ≤ Float.ofBits 0x3CB0000000000000 then true
    else if a.isNaN || b.isNaN then false
    else if (a.toBits >>> 63) != (b.toBits >>> 63) then false
    else
      let x := a.toBits.toNat; let y := b.toBits.toNat
      if x ≤ y then y - x ≤ 4 else x - y ≤ 4

/-- exact arithmetic: `+0` is the only zero; ulps comparison degenerates to the absolute test -/
instance : NumBits Rat where
  copysign mag sgn := if sgn < 0 then -(if mag < 0 then -mag else mag) else (if mag < 0 then -mag else mag)
  ulpsEq a b := decide ((if a - b < 0 then -(a - b) else a - b) ≤ (1 : Rat) / 4503599627370496)

variable [NumBits K]

/-- `f64::EPSILON` = `DEFAULT_EPSILON` of the f64 crates -/
@[inline] def eps : K := lit 1 4503599627370496
/-- `f64::MAX` = (2^53 - 1) · 2^971 -/
@[inline] def realMax : K := lit 179769313486231570814527423731704356798070567525844996598917476803157260780028538760589558632766878171540458953514382464234321326889464182768467546703537516986049910576551282076245490090389328944075868508455133942304583236903222948165808559332123348274797826204144723168738177180919299881250404026184124858368 1

/-- closest-points result (`ClosestPoints`) -/
inductive CP (V : Type) where
  | intersecting : CP V
  | within : V → V → CP V
  | disjoint : CP V

/-! ## ball / ball -/

/-- `distance_ball_ball(b1, center2, b2)` (3-D) -/
def distanceBallBall (r1 r2 : K) (c2 : V3 K) : K :=
  let dsq := c2.normSq
  let sum := r1 + r2
  if dsq ≤ sum * sum then 0 else Num.sqrt dsq - sum

/-- `distance_ball_ball` (2-D) -/
def distanceBallBall2 (r1 r2 : K) (c2 : V2 K) : K :=
  let dsq := c2.normSq
  let sum := r1 + r2
  if dsq ≤ sum * sum then 0 else Num.sqrt dsq - sum

/-- `closest_points_ball_ball(pos12, b1, b2, margin)` (3-D); points in the local frame of each ball.
The `assert!(margin >= 0)` is the `none` branch. -/
def closestPointsBallBall (pos12 : Iso3 K) (r1 r2 margin : K) : Option (CP (V3 K)) :=
  if ¬ (0 ≤ margin) then none else
  let delta := pos12.t
  let distance := delta.norm
  let sum := r1 + r2
  if distance - margin ≤ sum then
    if distance ≤ sum then some .intersecting
    else
      let normal := delta.sdiv delta.norm
      let p1 := normal.smul r1
      let p2 := (pos12.invRot normal).smul (-r2)
      some (.within p1 p2)
  else some .disjoint

def closestPointsBallBall2 (pos12 : Iso2 K) (r1 r2 margin : K) : Option (CP (V2 K)) :=
  if ¬ (0 ≤ margin) then none else
  let delta := pos12.t
  let distance := delta.norm
  let sum := r1 + r2
  if distance - margin ≤ sum then
    if distance ≤ sum then some .intersecting
    else
      let normal := delta.sdiv delta.norm
      let p1 := normal.smul r1
      let p2 := (pos12.invRot normal).smul (-r2)
      some (.within p1 p2)
  else some .disjoint

/-! ## support maps used by the half-space kernels -/

/-- `Cuboid::local_support_point(dir)` = `dir.copy_sign_to(half_extents)` -/
def cuboidLocalSupport (he dir : V3 K) : V3 K :=
  ⟨copysign he.x dir.x, copysign he.y dir.y, copysign he.z dir.z⟩
def cuboidLocalSupport2 (he dir : V2 K) : V2 K :=
  ⟨copysign he.x dir.x, copysign he.y dir.y⟩

/-- default `SupportMap::support_point(transform, dir)` (also `support_point_toward`, which only wraps `Unit`) for a cuboid -/
def cuboidSupport (he : V3 K) (m : Iso3 K) (dir : V3 K) : V3 K :=
  m.act (cuboidLocalSupport he (m.invRot dir))
def cuboidSupport2 (he : V2 K) (m : Iso2 K) (dir : V2 K) : V2 K :=
  m.act (cuboidLocalSupport2 he (m.invRot dir))

/-- `Ball::support_point_toward(m, dir)` : `m.translation + dir * radius` -/
def ballSupportToward (r : K) (m : Iso3 K) (dir : V3 K) : V3 K := m.t.add (dir.smul r)
/-- `Ball::support_point(m, dir)` : `support_point_toward(m, Unit::new_normalize(dir))` -/
def ballSupport (r : K) (m : Iso3 K) (dir : V3 K) : V3 K := ballSupportToward r m (dir.sdiv dir.norm)
def ballSupportToward2 (r : K) (m : Iso2 K) (dir : V2 K) : V2 K := m.t.add (dir.smul r)
def ballSupport2 (r : K) (m : Iso2 K) (dir : V2 K) : V2 K := ballSupportToward2 r m (dir.sdiv dir.norm)

/-! ## half-space / support map -/

/-- `distance_halfspace_support_map(pos12, halfspace, other)`; `suppToward` is `other.support_point_toward` -/
def distanceHalfspaceSupportMap (suppToward : Iso3 K → V3 K → V3 K) (pos12 : Iso3 K) (n : V3 K) : K :=
  let deepest := suppToward pos12 n.neg
  nmax (n.dot deepest) 0
def distanceHalfspaceSupportMap2 (suppToward : Iso2 K → V2 K → V2 K) (pos12 : Iso2 K) (n : V2 K) : K :=
  let deepest := suppToward pos12 n.neg
  nmax (n.dot deepest) 0

/-- `closest_points_halfspace_support_map(pos12, halfspace, other, margin)`; `supp` is `other.support_point` -/
def closestPointsHalfspaceSupportMap (supp : Iso3 K → V3 K → V3 K) (pos12 : Iso3 K) (n : V3 K) (margin : K) :
    Option (CP (V3 K)) :=
  if ¬ (0 ≤ margin) then none else
  let deepest := supp pos12 n.neg
  let distance := n.dot deepest.neg
  if -margin ≤ distance then
    if 0 ≤ distance then some .intersecting
    else
      let p1 := deepest.add (n.smul distance)
      let p2 := pos12.invAct deepest
      some (.within p1 p2)
  else some .disjoint
def closestPointsHalfspaceSupportMap2 (supp : Iso2 K → V2 K → V2 K) (pos12 : Iso2 K) (n : V2 K) (margin : K) :
    Option (CP (V2 K)) :=
  if ¬ (0 ≤ margin) then none else
  let deepest := supp pos12 n.neg
  let distance := n.dot deepest.neg
  if -margin ≤ distance then
    if 0 ≤ distance then some .intersecting
    else
      let p1 := deepest.add (n.smul distance)
      let p2 := pos12.invAct deepest
      some (.within p1 p2)
  else some .disjoint

/-! ## line / line and segment / segment -/

/-- `closest_points_line_line_parameters_eps(orig1, dir1, orig2, dir2, eps)` (any dimension; `dot` supplied) -/
def lineLineParamsGen {V : Type} (sub : V → V → V) (dot : V → V → K)
    (o1 d1 o2 d2 : V) (eps : K) : K × K × Bool :=
  let r := sub o1 o2
  let a := dot d1 d1
  let e := dot d2 d2
  let f := dot d2 r
  if a ≤ eps ∧ e ≤ eps then (0, 0, false)
  else if a ≤ eps then (0, f / e, false)
  else
    let c := dot d1 r
    if e ≤ eps then (-c / a, 0, false)
    else
      let b := dot d1 d2
      let ae := a * e
      let bb := b * b
      let denom := ae - bb
      let parallel := decide (denom ≤ eps) || ulpsEq ae bb
      let s := if !parallel then (b * f - c * e) / denom else 0
      (s, (b * s + f) / e, parallel)

def lineLineParams3 (o1 d1 o2 d2 : V3 K) (eps : K) : K × K × Bool := lineLineParamsGen V3.sub V3.dot o1 d1 o2 d2 eps
def lineLineParams2 (o1 d1 o2 d2 : V2 K) (eps : K) : K × K × Bool := lineLineParamsGen V2.sub V2.dot o1 d1 o2 d2 eps

/-- `na::clamp(x, 0, 1)`: `if val > min { if val < max { val } else { max } } else { min }` -/
@[inline] def clamp01 (x : K) : K := if 0 < x then (if x < 1 then x else 1) else 0

/-- the parameter computation of `closest_points_segment_segment_with_locations_nD`: returns `(s, t)` -/
def segSegParamsGen {V : Type} (sub : V → V → V) (dot : V → V → K) (a1 b1 a2 b2 : V) : K × K :=
  let d1 := sub b1 a1
  let d2 := sub b2 a2
  let r := sub a1 a2
  let a := dot d1 d1
  let e := dot d2 d2
  let f := dot d2 r
  if a ≤ eps ∧ e ≤ eps then (0, 0)
  else if a ≤ eps then (0, clamp01 (f / e))
  else
    let c := dot d1 r
    if e ≤ eps then (clamp01 (-c / a), 0)
    else
      let b := dot d1 d2
      let ae := a * e
      let bb := b * b
      let denom := ae - bb
      let s := if eps < denom ∧ !(ulpsEq ae bb) then clamp01 ((b * f - c * e) / denom) else 0
      let t := (b * s + f) / e
      if t < 0 then (clamp01 (-c / a), 0)
      else if 1 < t then (clamp01 ((b - c) / a), 1)
      else (s, t)

/-- `SegmentPointLocation` → `Segment::point_at`: `OnVertex(0) → a`, `OnVertex(1) → b`,
`OnEdge([1-s, s]) → a * (1-s) + b.coords * s` -/
def pointAt3 (a b : V3 K) (s : K) : V3 K :=
  if neq s 0 then a else if neq s 1 then b else (a.smul (1 - s)).add (b.smul s)
def pointAt2 (a b : V2 K) (s : K) : V2 K :=
  if neq s 0 then a else if neq s 1 then b else (a.smul (1 - s)).add (b.smul s)

/-- `closest_points_segment_segment(pos12, seg1, seg2, margin)` (3-D) -/
def closestPointsSegmentSegment (pos12 : Iso3 K) (a1 b1 a2 b2 : V3 K) (margin : K) : CP (V3 K) :=
  let a2' := pos12.act a2
  let b2' := pos12.act b2
  let (s, t) := segSegParamsGen V3.sub V3.dot a1 b1 a2' b2'
  let p1 := pointAt3 a1 b1 s
  let p2 := pointAt3 a2 b2 t
  if ((pos12.act p2).sub p1).normSq ≤ margin * margin then .within p1 p2 else .disjoint

def closestPointsSegmentSegment2 (pos12 : Iso2 K) (a1 b1 a2 b2 : V2 K) (margin : K) : CP (V2 K) :=
  let a2' := pos12.act a2
  let b2' := pos12.act b2
  let (s, t) := segSegParamsGen V2.sub V2.dot a1 b1 a2' b2'
  let p1 := pointAt2 a1 b1 s
  let p2 := pointAt2 a2 b2 t
  if ((pos12.act p2).sub p1).normSq ≤ margin * margin then .within p1 p2 else .disjoint

/-! ## cuboid / cuboid SAT (`sat_cuboid_cuboid.rs`) -/

/-- `Vector::ith(i, v)` -/
def ith3 (i : Nat) (v : K) : V3 K := (V3.zero).set i v
def ith2 (i : Nat) (v : K) : V2 K := (V2.zero).set i v

/-- one iteration of the loop of `cuboid_cuboid_find_local_separating_normal_oneway` -/
def satOnewayStep (he1 he2 : V3 K) (pos12 : Iso3 K) (best : K × V3 K) (i : Nat) : K × V3 K :=
  let sign := copysign (1 : K) (pos12.t.get i)
  let axis1 := ith3 i sign
  let axis2 := pos12.invRot axis1.neg
  let localPt2 := cuboidLocalSupport he2 axis2
  let pt2 := pos12.act localPt2
  let separation := pt2.get i * sign - he1.get i
  if best.1 < separation then (separation, axis1) else best

/-- `cuboid_cuboid_find_local_separating_normal_oneway(cuboid1, cuboid2, pos12)` (3-D) -/
def satCuboidCuboidOneway (he1 he2 : V3 K) (pos12 : Iso3 K) : K × V3 K :=
  [0, 1, 2].foldl (satOnewayStep he1 he2 pos12) (-realMax, V3.zero)

def satOnewayStep2 (he1 he2 : V2 K) (pos12 : Iso2 K) (best : K × V2 K) (i : Nat) : K × V2 K :=
  let sign := copysign (1 : K) (pos12.t.get i)
  let axis1 := ith2 i sign
  let axis2 := pos12.invRot axis1.neg
  let localPt2 := cuboidLocalSupport2 he2 axis2
  let pt2 := pos12.act localPt2
  let separation := pt2.get i * sign - he1.get i
  if best.1 < separation then (separation, axis1) else best

def satCuboidCuboidOneway2 (he1 he2 : V2 K) (pos12 : Iso2 K) : K × V2 K :=
  [0, 1].foldl (satOnewayStep2 he1 he2 pos12) (-realMax, V2.zero)

/-- `cuboid_cuboid_compute_separation_wrt_local_line(cuboid1, cuboid2, pos12, axis1)` -/
def satSeparationWrtLine (he1 he2 : V3 K) (pos12 : Iso3 K) (axis : V3 K) : K × V3 K :=
  let signum := copysign (1 : K) (pos12.t.dot axis)
  let axis1 := axis.smul signum
  let axis2 := pos12.invRot axis1.neg
  let localPt1 := cuboidLocalSupport he1 axis1
  let localPt2 := cuboidLocalSupport he2 axis2
  let pt2 := pos12.act localPt2
  let separation := (pt2.sub localPt1).dot axis1
  (separation, axis1)

/-- `cuboid_cuboid_find_local_separating_edge_twoway(cuboid1, cuboid2, pos12)` -/
def satCuboidCuboidEdgeTwoway (he1 he2 : V3 K) (pos12 : Iso3 K) : K × V3 K :=
  let x2 := pos12.rot ⟨1, 0, 0⟩
  let y2 := pos12.rot ⟨0, 1, 0⟩
  let z2 := pos12.rot ⟨0, 0, 1⟩
  let axes : List (V3 K) :=
    [⟨0, -x2.z, x2.y⟩, ⟨x2.z, 0, -x2.x⟩, ⟨-x2.y, x2.x, 0⟩,
     ⟨0, -y2.z, y2.y⟩, ⟨y2.z, 0, -y2.x⟩, ⟨-y2.y, y2.x, 0⟩,
     ⟨0, -z2.z, z2.y⟩, ⟨z2.z, 0, -z2.x⟩, ⟨-z2.y, z2.x, 0⟩]
  axes.foldl (fun best axis1 =>
    let norm1 := axis1.norm
    if eps < norm1 then
      let r := satSeparationWrtLine he1 he2 pos12 (axis1.sdiv norm1)
      if best.1 < r.1 then r else best
    else best) (-realMax, V3.zero)

end Model.Dist
