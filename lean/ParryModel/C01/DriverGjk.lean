import ParryModel.Proto
import ParryModel.C01.ModelGjk
import ParryModel.C01.Oracle
/-! C01 protocol handlers for `VoronoiSimplex` histories (`vs2`, `vs3`): a list of operations applied to ONE simplex
(`R o1 o2` = `reset(CSOPoint::new(o1,o2))`, `A o1 o2` = `add_point`, `P` = `project_origin_and_reduce`, `C p` = `contains_point`).
After every operation the return value and the observable state are printed. Model: bit-exact at `Float`.
Oracle (exact `Rat`, independent of the Voronoi-region code): after each `P` the returned point is the point of the
convex hull of the live vertices nearest to the origin (brute force over all sub-simplices with a Gram solve), it is the
barycentric combination `Σ proj[i]·vertices[i]` of the kept vertices with non-negative weights summing to one, and the kept
vertices are among the old ones; `contains_point` is compared with exact equality on the live vertices; `reset` leaves a
0-dimensional simplex. -/
namespace C01.Gjk
open Model Model.Gjk Proto C01.Oracle

inductive Op (V : Type) where
  | R (o1 o2 : V) | A (o1 o2 : V) | P | C (p : V)

def pop {V} (pv : P V) : P (Op V) := do
  let t ← tok
  match t with
  | "R" => do let a ← pv; let b ← pv; pure (.R a b)
  | "A" => do let a ← pv; let b ← pv; pure (.A a b)
  | "P" => pure .P
  | "C" => do let a ← pv; pure (.C a)
  | _ => failure

/-! ### state dumps (same text as the harness) -/
def dump2 (s : Vs2 Float) : String :=
  let vs := (List.range (s.dim + 1)).map fun i => let c := s.get i; s!"{fv2 c.point} {fv2 c.orig1} {fv2 c.orig2}"
  let ps := (List.range (min s.dim 1 + 1)).map fun i => ff (s.getProj i)
  let pvs := (List.range (s.prevDim + 1)).map fun i => fv2 (s.get (s.getPv i)).point
  let pps := (List.range (min s.prevDim 1 + 1)).map fun i => ff (s.getPrevProj i)
  " ".intercalate (["S", toString s.dim, toString s.prevDim] ++ vs ++ ps ++ pvs ++ pps)

def dump3 (s : Vs3 Float) : String :=
  let vs := (List.range (s.dim + 1)).map fun i => let c := s.get i; s!"{fv3 c.point} {fv3 c.orig1} {fv3 c.orig2}"
  let ps := (List.range (min s.dim 2 + 1)).map fun i => ff (s.getProj i)
  let pvs := (List.range (s.prevDim + 1)).map fun i => fv3 (s.get (s.getPv i)).point
  let pps := (List.range (min s.prevDim 2 + 1)).map fun i => ff (s.getPrevProj i)
  " ".intercalate (["S", toString s.dim, toString s.prevDim] ++ vs ++ ps ++ pvs ++ pps)

def runOps2 : List (Op (V2 Float)) → Vs2 Float → List String → List String
  | [], _, acc => acc.reverse
  | op :: rest, s, acc =>
    match op with
    | .R a b => let s := s.reset (CSO2.new a b); runOps2 rest s (dump2 s :: acc)
    | .A a b => match s.addPoint (CSO2.new a b) with
      | none => ("panic" :: acc).reverse
      | some (s, r) => runOps2 rest s (s!"{fb r} {dump2 s}" :: acc)
    | .P => match s.projectOriginAndReduce with
      | none => ("panic" :: acc).reverse
      | some (s, p) => runOps2 rest s (s!"{fv2 p} {dump2 s}" :: acc)
    | .C p => runOps2 rest s (fb (s.containsPoint p) :: acc)

def runOps3 : List (Op (V3 Float)) → Vs3 Float → List String → List String
  | [], _, acc => acc.reverse
  | op :: rest, s, acc =>
    match op with
    | .R a b => let s := s.reset (CSO3.new a b); runOps3 rest s (dump3 s :: acc)
    | .A a b => match s.addPoint (CSO3.new a b) with
      | none => ("panic" :: acc).reverse
      | some (s, r) => runOps3 rest s (s!"{fb r} {dump3 s}" :: acc)
    | .P => match s.projectOriginAndReduce with
      | none => ("panic" :: acc).reverse
      | some (s, p) => runOps3 rest s (s!"{fv3 p} {dump3 s}" :: acc)
    | .C p => runOps3 rest s (fb (s.containsPoint p) :: acc)

/-! ### oracle -/

/-- observable state parsed from the implementation's dump: live vertices (as exact points, 2-D embedded in `z = 0`) and `proj` -/
structure Obs where
  dim : Nat
  verts : List Q3
  proj : List Rat
  finite : Bool

def pq (dim3 : Bool) : P (Q3 × Bool) :=
  if dim3 then do let x ← pfo; let y ← pfo; let z ← pfo
                  pure (q3 ⟨x, y, z⟩, FloatIO.isFinite x && FloatIO.isFinite y && FloatIO.isFinite z)
  else do let x ← pfo; let y ← pfo; pure (⟨q x, q y, 0⟩, FloatIO.isFinite x && FloatIO.isFinite y)

def rep {α} (p : P α) : Nat → P (List α)
  | 0 => pure []
  | k+1 => do let x ← p; let xs ← rep p k; pure (x :: xs)

def pobs (dim3 : Bool) : P Obs := do
  let t ← tok
  if t ≠ "S" then failure
  let d ← pnat; let pd ← pnat
  let vs ← rep (do let a ← pq dim3; let _ ← pq dim3; let _ ← pq dim3; pure a) (d + 1)
  let np := min d (if dim3 then 2 else 1) + 1
  let ps ← rep pfo np
  let _ ← rep (pq dim3) (pd + 1)
  let _ ← rep pfo (min pd (if dim3 then 2 else 1) + 1)
  pure ⟨d, vs.map (·.1), ps.map q, vs.all (·.2) && ps.all FloatIO.isFinite⟩

/-- Gaussian elimination over `Rat` (`none` = singular) -/
def solve : Nat → List (List Rat) → Option (List Rat)
  | 0, _ => some []
  | n+1, rows =>
    -- rows are augmented `[a_1 … a_{n+1} | b]`; pivot on the first column
    match rows.partition (fun r => r.headD 0 ≠ 0) with
    | ([], _) => none
    | (piv :: others, zeros) =>
      let pv := piv.headD 1
      let pr := piv.map (· / pv)
      let elim (r : List Rat) : List Rat := let f := r.headD 0; (r.zip pr).map (fun (x, y) => x - f * y) |>.drop 1
      match solve n ((others ++ zeros).map elim) with
      | none => none
      | some xs =>
        -- back-substitute x_1 = b - Σ a_j x_j
        let coefs := (pr.drop 1).take n
        let b := (pr.drop (n + 1)).headD 0
        some ((b - ((coefs.zip xs).map (fun (a, x) => a * x)).sum) :: xs)

/-- all non-empty sublists -/
def subsets {α} : List α → List (List α)
  | [] => []
  | x :: xs => let r := subsets xs; [x] :: r.map (x :: ·) ++ r

/-- the point of the affine hull of `S` nearest to the origin, with its barycentric weights; `none` = affinely dependent -/
def affineProj (S : List Q3) : Option (Q3 × List Rat) :=
  match S with
  | [] => none
  | s0 :: rest =>
    let es := rest.map (·.sub s0)
    let rows := es.map fun ei => es.map (fun ej => ei.dot ej) ++ [-(ei.dot s0)]
    match solve es.length rows with
    | none => none
    | some lam =>
      let x := (es.zip lam).foldl (fun acc (e, l) => acc.add (e.smul l)) s0
      some (x, (1 - lam.sum) :: lam)

/-- brute-force squared distance from the origin to the hull of `vs` (`none` = `vs` affinely dependent) -/
def hullDistSq (vs : List Q3) : Option Rat :=
  match affineProj vs with
  | none => none
  | some _ =>
    let cands := (subsets vs).filterMap fun S => match affineProj S with
      | some (x, w) => if w.all (· ≥ 0) then some x.normSq else none
      | none => none
    match cands with
    | [] => none
    | c :: cs => some (cs.foldl minQ c)

def scaleOf (vs : List Q3) : Rat := 1 + maxList (vs.map fun v => v.normSq)

/-- verdict for one `project_origin_and_reduce`: `pre`/`post` observed states, `p` the returned point -/
def judgeReduce (dim3 : Bool) (pre post : Obs) (p : Q3) : String :=
  let D := if dim3 then 3 else 2
  let tol := (1 / 1000000000) * scaleOf pre.verts
  if !(post.verts.all fun v => pre.verts.any fun w => v.x = w.x ∧ v.y = w.y ∧ v.z = w.z) then "fail kept-vertex-not-in-old-simplex" else
  if post.dim > pre.dim then "fail dimension-grew" else
  match hullDistSq pre.verts with
  | none => "skip degenerate-simplex"
  | some dmin =>
    if p.normSq > dmin + tol then s!"fail not-nearest got={showQ p.normSq} min={showQ dmin}" else
    if post.dim = D then
      -- nothing was dropped: the origin must be inside the full simplex and be returned itself
      if dmin ≤ tol ∧ p.normSq ≤ tol then "pass" else "fail full-simplex-kept-but-origin-outside"
    else
      let w := post.proj.take (post.dim + 1)
      if !(w.all (· ≥ -(1 / 1000000000))) then "fail negative-weight" else
      if absQ (w.sum - 1) > 1 / 1000000000 then "fail weights-do-not-sum-to-one" else
      let rec_ := (post.verts.zip w).foldl (fun acc (v, l) => acc.add (v.smul l)) V3.zero
      if (rec_.sub p).normSq > tol * tol + tol * (1 / 1000000000) then s!"fail point-is-not-the-weighted-sum err2={showQ (rec_.sub p).normSq}" else "pass"

/-- walk the operations and the implementation's output together -/
def oracleOps {V} (dim3 : Bool) (toQ : V → Q3) : List (Op V) → Option Obs → List String → Nat → Nat → String
  | [], _, _, passed, _ => if passed > 0 then s!"pass checks={passed}" else "skip nothing-judged"
  | op :: rest, pre, o, passed, i =>
    match o with
    | "panic" :: _ => match op with
        | .P => (match pre with
                 | some st => if st.dim ≤ (if dim3 then 3 else 2) then
                     (match hullDistSq st.verts with
                      | none => if passed > 0 then s!"pass checks={passed}" else "skip panic-on-degenerate-simplex"
                      | some _ => s!"fail panic-in-reduce-on-valid-simplex op={i}")
                   else s!"fail dimension-out-of-range op={i}"
                 | none => "skip panic-before-reset")
        | _ => if passed > 0 then s!"pass checks={passed}" else "skip panic"
    | _ =>
    match op with
    | .R _ _ => match (pobs dim3) o with
      | none => "fail unparsable-output"
      | some (st, o') => if st.dim ≠ 0 then s!"fail reset-keeps-dimension dim={st.dim} op={i}" else oracleOps dim3 toQ rest (some st) o' (passed + 1) (i + 1)
    | .A _ _ => match (do let b ← pbool; let st ← pobs dim3; pure (b, st)) o with
      | none => "fail unparsable-output"
      | some ((_, st), o') => oracleOps dim3 toQ rest (some st) o' passed (i + 1)
    | .P => match (do let p ← pq dim3; let st ← pobs dim3; pure (p, st)) o with
      | none => "fail unparsable-output"
      | some ((p, post), o') =>
        match pre with
        | none => oracleOps dim3 toQ rest (some post) o' passed (i + 1)
        | some pr =>
          if !(p.2 && post.finite && pr.finite) then s!"fail non-finite op={i}" else
          let v := judgeReduce dim3 pr post p.1
          if v.startsWith "fail" then s!"{v} op={i}"
          else oracleOps dim3 toQ rest (some post) o' (if v.startsWith "pass" then passed + 1 else passed) (i + 1)
    | .C x => match pbool o with
      | none => "fail unparsable-output"
      | some (b, o') =>
        match pre with
        | none => oracleOps dim3 toQ rest pre o' passed (i + 1)
        | some pr =>
          let xq := toQ x
          let want := pr.verts.any fun w => xq.x = w.x ∧ xq.y = w.y ∧ xq.z = w.z
          if b ≠ want then s!"fail contains_point={b} expected={want} op={i}" else oracleOps dim3 toQ rest pre o' (passed + 1) (i + 1)

def handler (fn : String) : Option Handler :=
  match fn with
  | "vs2" => some {
      model := fun a => (run (plist (pop pv2)) a).map fun ops => " ".intercalate (runOps2 ops Vs2.new [])
      oracle := fun a o => match run (plist (pop pv2)) a with
        | none => "skip bad-args"
        | some ops => oracleOps false (fun v => (⟨q v.x, q v.y, 0⟩ : Q3)) ops none o 0 0 }
  | "vs3" => some {
      model := fun a => (run (plist (pop pv3)) a).map fun ops => " ".intercalate (runOps3 ops Vs3.new [])
      oracle := fun a o => match run (plist (pop pv3)) a with
        | none => "skip bad-args"
        | some ops => oracleOps true (fun v => q3 v) ops none o 0 0 }
  | _ => none

end C01.Gjk
