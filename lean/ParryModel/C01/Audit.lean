import ParryModel.C01.Theorems
#print axioms C01.duality3
#print axioms C01.duality3_slack
#print axioms C01.duality3_slack_len
#print axioms C01.duality2
#print axioms C01.duality2_slack
#print axioms C01.duality2_slack_len
