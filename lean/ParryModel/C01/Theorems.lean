import ParryModel.Field
import ParryModel.C01.Model
import ParryModel.C01.Lemmas
import ParryModel.C01.TheoremsGjk
import ParryModel.C01.TheoremsGlue
/-!
# C01 property theorems: distance / closest points are the true minimum separation.

All statements are about the model functions of `C01/Model.lean` at the lawful instance `fieldNum K sq`
(any linearly ordered field; `LawfulSqrt sq` where a square root is taken; `fieldBits K` for `copysign`/`ulps_eq`),
against set specifications written out coordinate-wise (`BallAt`, `HalfAt`, `CubAt`, `SegAt`, `Placed3`; they are the
`Mem` predicates of `Shapes.lean`).  Sets are predicates `V3 K → Prop` / `V2 K → Prop`.

1. the convex-duality certificate (`duality3/2`, `…_slack`, `…_slack_len`) — justifies the exact-`Rat` oracle;
2. ball / ball (`distanceBallBall_spec`, `…_zero_iff`, `closestPointsBallBall_spec`);
3. half-space / support map, for any support map honouring the C10 contract in direction `-n`
   (`distanceHalfspaceSupportMap_spec`, `closestPointsHalfspaceSupportMap_spec`) + the contract for the cuboid and ball
   support maps (`cuboidSupport_supports`, `ballSupportToward_supports`, `ballSupport_supports`);
4. SAT lower bounds for cuboids (`satCuboidCuboidOneway_lower/_disjoint`, `satSeparationWrtLine_lower`,
   `satCuboidCuboidEdgeTwoway_lower`);
5. segment / segment clamping analysis (`segSegParamsGen_kkt` in any dimension, `segSegParams_optimal3`,
   `closestPointsSegmentSegment_spec`) and line / line (`lineLineParamsGen_stationary`);
6. 2-D counterparts (`satCuboidCuboidOneway2_lower`, `distanceBallBall2_lower`, `segSegParams_optimal2`).
-/
namespace C01
open Model Model.Dist

variable {K : Type} [Field K] [LinearOrder K] [IsStrictOrderedRing K] (sq : K → K)

/-! ## 1. The convex-duality certificate -/

/-- **Duality certificate (3-D).** If `p1 ∈ A`, `p2 ∈ B` and the direction `d = p2 - p1` supports both sets
(`d·a ≤ d·p1` on `A`, `d·p2 ≤ d·b` on `B`), then no pair `(a, b) ∈ A × B` is closer than `(p1, p2)`:
`|p2 - p1|² ≤ |b - a|²`.  This is what makes the exact-`Rat` certificate oracle complete for the property. -/
theorem duality3 (A B : V3 K → Prop) (p1 p2 : V3 K) (_h1 : A p1) (_h2 : B p2) :
    letI := fieldNum K sq
    (∀ a, A a → (p2.sub p1).dot a ≤ (p2.sub p1).dot p1) →
    (∀ b, B b → (p2.sub p1).dot p2 ≤ (p2.sub p1).dot b) →
    ∀ a b, A a → B b → (p2.sub p1).normSq ≤ (b.sub a).normSq := by
  intro hA hB a b ha hb
  have h1 := hA a ha
  have h2 := hB b hb
  simp only [V3.sub, V3.dot, V3.normSq] at *
  nlinarith [sq_nonneg (b.x - a.x - (p2.x - p1.x)), sq_nonneg (b.y - a.y - (p2.y - p1.y)),
    sq_nonneg (b.z - a.z - (p2.z - p1.z))]

/-- **Duality with slack (3-D, squared form).** If the two support inequalities hold up to `σ1`, `σ2`
(in units of `d·x`), every pair satisfies `|b - a|² ≥ |p2 - p1|² - 2(σ1 + σ2)`. No membership of `p1, p2` needed. -/
theorem duality3_slack (A B : V3 K → Prop) (p1 p2 : V3 K) (σ1 σ2 : K) :
    letI := fieldNum K sq
    (∀ a, A a → (p2.sub p1).dot a ≤ (p2.sub p1).dot p1 + σ1) →
    (∀ b, B b → (p2.sub p1).dot p2 - σ2 ≤ (p2.sub p1).dot b) →
    ∀ a b, A a → B b → (p2.sub p1).normSq - 2 * (σ1 + σ2) ≤ (b.sub a).normSq := by
  intro hA hB a b ha hb
  have h1 := hA a ha
  have h2 := hB b hb
  simp only [V3.sub, V3.dot, V3.normSq] at *
  nlinarith [sq_nonneg (b.x - a.x - (p2.x - p1.x)), sq_nonneg (b.y - a.y - (p2.y - p1.y)),
    sq_nonneg (b.z - a.z - (p2.z - p1.z))]

/-- **Duality with slack (3-D, length form)** — the inequality the oracle evaluates. `L` is the gap `|p2 - p1|`
(`L² = |d|²`, `L > 0`) and `s` the total support slack *in length units*
(`d·(b - a) ≥ L·(L - s)` for all pairs, i.e. `(h_A(d) - d·p1 + h_B(-d) + d·p2)/L ≤ s`). Then every pair is at
distance at least `L - s`. -/
theorem duality3_slack_len (A B : V3 K → Prop) (p1 p2 : V3 K) (L s : K) (hL : 0 < L) (hs : s ≤ L) :
    letI := fieldNum K sq
    (p2.sub p1).normSq = L * L →
    (∀ a b, A a → B b → L * (L - s) ≤ (p2.sub p1).dot (b.sub a)) →
    ∀ a b, A a → B b → (L - s) * (L - s) ≤ (b.sub a).normSq := by
  intro hLL hsup a b ha hb
  have h := hsup a b ha hb
  have hcs := cs3 (⟨p2.x - p1.x, p2.y - p1.y, p2.z - p1.z⟩ : V3 K) ⟨b.x - a.x, b.y - a.y, b.z - a.z⟩
  simp only [V3.sub, V3.dot, V3.normSq] at *
  simp only [dot3] at hcs
  set e := (b.x - a.x) * (b.x - a.x) + (b.y - a.y) * (b.y - a.y) + (b.z - a.z) * (b.z - a.z) with he
  set t := (p2.x - p1.x) * (b.x - a.x) + (p2.y - p1.y) * (b.y - a.y) + (p2.z - p1.z) * (b.z - a.z) with ht
  rw [hLL] at hcs
  -- t ≥ L(L-s) ≥ 0, t² ≤ L² e  ⇒ L²(L-s)² ≤ L² e
  have h0 : 0 ≤ L * (L - s) := mul_nonneg hL.le (sub_nonneg.2 hs)
  have h2 : (L * (L - s)) ^ 2 ≤ t ^ 2 := pow_le_pow_left₀ h0 h 2
  have h3 : L * L * ((L - s) * (L - s)) ≤ L * L * e := by nlinarith
  exact le_of_mul_le_mul_left h3 (mul_pos hL hL)

/-- **Duality certificate (2-D).** -/
theorem duality2 (A B : V2 K → Prop) (p1 p2 : V2 K) (_h1 : A p1) (_h2 : B p2) :
    letI := fieldNum K sq
    (∀ a, A a → (p2.sub p1).dot a ≤ (p2.sub p1).dot p1) →
    (∀ b, B b → (p2.sub p1).dot p2 ≤ (p2.sub p1).dot b) →
    ∀ a b, A a → B b → (p2.sub p1).normSq ≤ (b.sub a).normSq := by
  intro hA hB a b ha hb
  have h1 := hA a ha
  have h2 := hB b hb
  simp only [V2.sub, V2.dot, V2.normSq] at *
  nlinarith [sq_nonneg (b.x - a.x - (p2.x - p1.x)), sq_nonneg (b.y - a.y - (p2.y - p1.y))]

/-- **Duality with slack (2-D, squared form).** -/
theorem duality2_slack (A B : V2 K → Prop) (p1 p2 : V2 K) (σ1 σ2 : K) :
    letI := fieldNum K sq
    (∀ a, A a → (p2.sub p1).dot a ≤ (p2.sub p1).dot p1 + σ1) →
    (∀ b, B b → (p2.sub p1).dot p2 - σ2 ≤ (p2.sub p1).dot b) →
    ∀ a b, A a → B b → (p2.sub p1).normSq - 2 * (σ1 + σ2) ≤ (b.sub a).normSq := by
  intro hA hB a b ha hb
  have h1 := hA a ha
  have h2 := hB b hb
  simp only [V2.sub, V2.dot, V2.normSq] at *
  nlinarith [sq_nonneg (b.x - a.x - (p2.x - p1.x)), sq_nonneg (b.y - a.y - (p2.y - p1.y))]

/-- **Duality with slack (2-D, length form).** -/
theorem duality2_slack_len (A B : V2 K → Prop) (p1 p2 : V2 K) (L s : K) (hL : 0 < L) (hs : s ≤ L) :
    letI := fieldNum K sq
    (p2.sub p1).normSq = L * L →
    (∀ a b, A a → B b → L * (L - s) ≤ (p2.sub p1).dot (b.sub a)) →
    ∀ a b, A a → B b → (L - s) * (L - s) ≤ (b.sub a).normSq := by
  intro hLL hsup a b ha hb
  have h := hsup a b ha hb
  have hcs := cs2 (⟨p2.x - p1.x, p2.y - p1.y⟩ : V2 K) ⟨b.x - a.x, b.y - a.y⟩
  simp only [V2.sub, V2.dot, V2.normSq] at *
  simp only [dot2] at hcs
  set e := (b.x - a.x) * (b.x - a.x) + (b.y - a.y) * (b.y - a.y) with he
  set t := (p2.x - p1.x) * (b.x - a.x) + (p2.y - p1.y) * (b.y - a.y) with ht
  rw [hLL] at hcs
  have h0 : 0 ≤ L * (L - s) := mul_nonneg hL.le (sub_nonneg.2 hs)
  have h2 : (L * (L - s)) ^ 2 ≤ t ^ 2 := pow_le_pow_left₀ h0 h 2
  have h3 : L * L * ((L - s) * (L - s)) ≤ L * L * e := by nlinarith
  exact le_of_mul_le_mul_left h3 (mul_pos hL hL)

/-- non-vacuity: the unit squares `[0,1]²` and `[3,4]×[0,1]` with witnesses `(1,0)`, `(3,0)` satisfy the hypotheses -/
example :
    letI := fieldNum ℚ id
    let A : V2 ℚ → Prop := fun p => 0 ≤ p.x ∧ p.x ≤ 1 ∧ 0 ≤ p.y ∧ p.y ≤ 1
    let B : V2 ℚ → Prop := fun p => 3 ≤ p.x ∧ p.x ≤ 4 ∧ 0 ≤ p.y ∧ p.y ≤ 1
    let p1 : V2 ℚ := ⟨1, 0⟩
    let p2 : V2 ℚ := ⟨3, 0⟩
    A p1 ∧ B p2 ∧ (∀ a, A a → (p2.sub p1).dot a ≤ (p2.sub p1).dot p1) ∧
      (∀ b, B b → (p2.sub p1).dot p2 ≤ (p2.sub p1).dot b) := by
  refine ⟨by norm_num, by norm_num, ?_, ?_⟩
  · rintro a ⟨h1, h2, h3, h4⟩; simp only [V2.sub, V2.dot]; linarith
  · rintro b ⟨h1, h2, h3, h4⟩; simp only [V2.sub, V2.dot]; linarith

/-! ## 2. ball / ball -/

/-- **`distance_ball_ball` is the true minimum distance.** For radii `≥ 0` the value `D` returned for the balls
`B(0, r1)`, `B(c, r2)` is non-negative, is a lower bound of `|b - a|` over all pairs (`D² ≤ |b - a|²`) and is attained
by a pair of points of the balls. -/
theorem distanceBallBall_spec (hs : LawfulSqrt sq) (r1 r2 : K) (c : V3 K) (hr1 : 0 ≤ r1) (hr2 : 0 ≤ r2) :
    letI := fieldNum K sq
    0 ≤ Dist.distanceBallBall r1 r2 c ∧
    (∀ a b, BallAt r1 ⟨0, 0, 0⟩ a → BallAt r2 c b →
      Dist.distanceBallBall r1 r2 c * Dist.distanceBallBall r1 r2 c ≤ (b.sub a).normSq) ∧
    (∃ a b, BallAt r1 ⟨0, 0, 0⟩ a ∧ BallAt r2 c b ∧
      (b.sub a).normSq = Dist.distanceBallBall r1 r2 c * Dist.distanceBallBall r1 r2 c) := by
  generalize hD : @Dist.distanceBallBall K (fieldNum K sq) r1 r2 c = D
  dsimp only [Dist.distanceBallBall] at hD
  simp only [V3.normSq, V3.dot, V3.sub]
  have hd0 : 0 ≤ c.x * c.x + c.y * c.y + c.z * c.z := by nlinarith [mul_self_nonneg c.x, mul_self_nonneg c.y, mul_self_nonneg c.z]
  split_ifs at hD with hc <;> simp only [V3.normSq, V3.dot, fieldNum_sqrt] at hD hc
  · subst hD
    refine ⟨le_refl _, fun a b _ _ => ?_, ?_⟩
    · nlinarith [mul_self_nonneg (b.x - a.x), mul_self_nonneg (b.y - a.y), mul_self_nonneg (b.z - a.z)]
    · obtain ⟨p, hp1, hp2⟩ := ball_overlap_core r1 r2 c hr1 hr2 hc
      exact ⟨p, p, hp1, hp2, by ring⟩
  · push Not at hc
    have hS0 := hs.nonneg _ hd0
    have hSS := hs.sq_mul _ hd0
    generalize sq (c.x * c.x + c.y * c.y + c.z * c.z) = S at *
    subst hD
    have hsum : 0 ≤ r1 + r2 := add_nonneg hr1 hr2
    have hgt : r1 + r2 < S := by
      by_contra h; push Not at h
      nlinarith [mul_le_mul h h hS0 hsum]
    refine ⟨by linarith, fun a b ha hb => ball_sep_core r1 r2 S c hr1 hr2 hS0 hSS hgt a b ha hb, ?_⟩
    obtain ⟨h1, h2, h3⟩ := ball_attain_core r1 r2 S c (lt_of_le_of_lt hsum hgt) hSS
    exact ⟨_, _, h1, h2, h3⟩

/-- `distance_ball_ball` returns `0` exactly when the balls share a point. -/
theorem distanceBallBall_zero_iff (hs : LawfulSqrt sq) (r1 r2 : K) (c : V3 K) (hr1 : 0 ≤ r1) (hr2 : 0 ≤ r2) :
    letI := fieldNum K sq
    Dist.distanceBallBall r1 r2 c = 0 ↔ ∃ p, BallAt r1 ⟨0, 0, 0⟩ p ∧ BallAt r2 c p := by
  obtain ⟨h0, hlow, a, b, ha, hb, hab⟩ := distanceBallBall_spec sq hs r1 r2 c hr1 hr2
  generalize @Dist.distanceBallBall K (fieldNum K sq) r1 r2 c = D at *
  simp only [V3.normSq, V3.dot, V3.sub] at hlow hab
  constructor
  · intro hD
    rw [hD] at hab
    have e1 : b.x - a.x = 0 := by nlinarith [mul_self_nonneg (b.x - a.x), mul_self_nonneg (b.y - a.y), mul_self_nonneg (b.z - a.z)]
    have e2 : b.y - a.y = 0 := by nlinarith [mul_self_nonneg (b.x - a.x), mul_self_nonneg (b.y - a.y), mul_self_nonneg (b.z - a.z)]
    have e3 : b.z - a.z = 0 := by nlinarith [mul_self_nonneg (b.x - a.x), mul_self_nonneg (b.y - a.y), mul_self_nonneg (b.z - a.z)]
    refine ⟨a, ha, ?_⟩
    simp only [BallAt] at hb ⊢
    have : a.x = b.x := by linarith
    have : a.y = b.y := by linarith
    have : a.z = b.z := by linarith
    simp only [*]
  · rintro ⟨p, hp1, hp2⟩
    have := hlow p p hp1 hp2
    nlinarith

/-- **`closest_points_ball_ball` (3-D), all three outcomes.** For a unit quaternion, radii `≥ 0` and `margin ≥ 0`
(the `assert!`), with ball 1 = `B(0, r1)` and ball 2 = `B(t, r2)` seen from frame 1 (`t = pos12.translation`):
* `Intersecting` ⇒ the balls share a point;
* `Disjoint` ⇒ every pair of points is farther apart than `margin`;
* `WithinMargin(p1, p2)` ⇒ `p1 ∈ B(0,r1)`, `p2` (local to ball 2) `∈ B(0,r2)`, its image `pos12·p2 ∈ B(t,r2)`,
  the pair is a closest pair (`|pos12·p2 - p1|² ≤ |b - a|²` for all pairs), its gap is `≤ margin` and `> 0`.
Since the three geometric conditions exclude each other, each outcome occurs *exactly* when its condition holds. -/
theorem closestPointsBallBall_spec (hs : LawfulSqrt sq) (pos12 : Iso3 K) (r1 r2 margin : K)
    (hq : pos12.qi * pos12.qi + pos12.qj * pos12.qj + pos12.qk * pos12.qk + pos12.qw * pos12.qw = 1)
    (hr1 : 0 ≤ r1) (hr2 : 0 ≤ r2) (hm : 0 ≤ margin) :
    letI := fieldNum K sq
    match Dist.closestPointsBallBall pos12 r1 r2 margin with
    | none => False
    | some .intersecting => ∃ p, BallAt r1 ⟨0, 0, 0⟩ p ∧ BallAt r2 pos12.t p
    | some .disjoint => ∀ a b, BallAt r1 ⟨0, 0, 0⟩ a → BallAt r2 pos12.t b → margin * margin < (b.sub a).normSq
    | some (.within p1 p2) =>
        BallAt r1 ⟨0, 0, 0⟩ p1 ∧ BallAt r2 ⟨0, 0, 0⟩ p2 ∧ BallAt r2 pos12.t (pos12.act p2) ∧
        (∀ a b, BallAt r1 ⟨0, 0, 0⟩ a → BallAt r2 pos12.t b → ((pos12.act p2).sub p1).normSq ≤ (b.sub a).normSq) ∧
        ((pos12.act p2).sub p1).normSq ≤ margin * margin ∧ 0 < ((pos12.act p2).sub p1).normSq := by
  generalize hR : @Dist.closestPointsBallBall K (fieldNum K sq) pos12 r1 r2 margin = R
  dsimp only [Dist.closestPointsBallBall] at hR
  obtain ⟨qi, qj, qk, qw, t⟩ := pos12
  simp only at hq hR ⊢
  have hd0 : 0 ≤ t.x * t.x + t.y * t.y + t.z * t.z := by nlinarith [mul_self_nonneg t.x, mul_self_nonneg t.y, mul_self_nonneg t.z]
  have hS0 := hs.nonneg _ hd0
  have hSS := hs.sq_mul _ hd0
  have hsum : 0 ≤ r1 + r2 := add_nonneg hr1 hr2
  rw [if_neg (not_not.2 hm)] at hR
  split_ifs at hR with h1 h2 <;> subst hR <;> simp only [V3.norm, V3.normSq, V3.dot, fieldNum_sqrt] at h1 ⊢
  · -- intersecting
    simp only [V3.norm, V3.normSq, V3.dot, fieldNum_sqrt] at h2
    generalize sq (t.x * t.x + t.y * t.y + t.z * t.z) = S at *
    exact ball_overlap_core r1 r2 t hr1 hr2 (by nlinarith [mul_le_mul h2 h2 hS0 hsum])
  · -- within
    simp only [V3.norm, V3.normSq, V3.dot, fieldNum_sqrt] at h2
    push Not at h2
    have hrot := rot_invRot3 sq ⟨qi, qj, qk, qw, t⟩
      (@V3.sdiv K (fieldNum K sq) t (sq (t.x * t.x + t.y * t.y + t.z * t.z))) hq
    have hsm := rot_smul3 sq ⟨qi, qj, qk, qw, t⟩
      (@Iso3.invRot K (fieldNum K sq) ⟨qi, qj, qk, qw, t⟩ (@V3.sdiv K (fieldNum K sq) t (sq (t.x * t.x + t.y * t.y + t.z * t.z)))) (-r2)
    have hns := rot_normSq3 sq ⟨qi, qj, qk, qw, t⟩
      (@V3.smul K (fieldNum K sq) (@Iso3.invRot K (fieldNum K sq) ⟨qi, qj, qk, qw, t⟩ (@V3.sdiv K (fieldNum K sq) t (sq (t.x * t.x + t.y * t.y + t.z * t.z)))) (-r2)) hq
    simp only [Iso3.act]
    rw [hsm, hrot] at hns ⊢
    generalize sq (t.x * t.x + t.y * t.y + t.z * t.z) = S at *
    have hSpos : 0 < S := lt_of_le_of_lt hsum h2
    obtain ⟨a1, a2, a3⟩ := ball_attain_core r1 r2 S t hSpos hSS
    simp only [V3.sdiv, V3.smul, V3.add, V3.sub, V3.normSq, V3.dot, BallAt] at hns a1 a2 a3 ⊢
    have hloc : ∀ v : V3 K,
        t.x / S * -r2 * (t.x / S * -r2) + t.y / S * -r2 * (t.y / S * -r2) + t.z / S * -r2 * (t.z / S * -r2) =
          v.x * -r2 * (v.x * -r2) + v.y * -r2 * (v.y * -r2) + v.z * -r2 * (v.z * -r2) →
        (v.x * -r2 - 0) * (v.x * -r2 - 0) + (v.y * -r2 - 0) * (v.y * -r2 - 0) + (v.z * -r2 - 0) * (v.z * -r2 - 0) ≤ r2 * r2 := by
      intro v hv; linarith
    refine ⟨by linarith, hloc _ hns, ?_⟩
    clear hns hrot hsm hloc
    have hgap : (t.x / S * -r2 + t.x - t.x / S * r1) * (t.x / S * -r2 + t.x - t.x / S * r1) +
        (t.y / S * -r2 + t.y - t.y / S * r1) * (t.y / S * -r2 + t.y - t.y / S * r1) +
        (t.z / S * -r2 + t.z - t.z / S * r1) * (t.z / S * -r2 + t.z - t.z / S * r1) = (S - (r1 + r2)) * (S - (r1 + r2)) := by
      linarith
    rw [hgap]
    refine ⟨by linarith, ?_, ?_, ?_⟩
    · intro a b ha hb
      exact ball_sep_core r1 r2 S t hr1 hr2 hS0 hSS h2 a b ha hb
    · nlinarith
    · exact mul_pos (sub_pos.2 h2) (sub_pos.2 h2)
  · -- disjoint
    push Not at h1
    generalize sq (t.x * t.x + t.y * t.y + t.z * t.z) = S at *
    intro a b ha hb
    have h2 : r1 + r2 < S := by linarith
    have := ball_sep_core r1 r2 S t hr1 hr2 hS0 hSS h2 a b ha hb
    simp only [V3.sub]
    nlinarith [mul_pos (show 0 < S - (r1 + r2) - margin by linarith) (show 0 < S - (r1 + r2) + margin by linarith)]

/-- non-vacuity of the side conditions of `closestPointsBallBall_spec`: the 90° rotation about `z`,
`(qi,qj,qk,qw) = (0,0,3/5·…)` replaced by the exact Pythagorean quaternion `(0, 0, 3/5, 4/5)`, is a unit quaternion.
(`LawfulSqrt` itself is satisfiable in every real-closed field, e.g. `Real.sqrt` on `ℝ`; `ℚ` has no lawful square root.) -/
example : ((0 : ℚ) * 0 + 0 * 0 + (3/5) * (3/5) + (4/5) * (4/5) = 1) ∧ (0 : ℚ) ≤ 1 ∧ (0 : ℚ) ≤ 1/4 := by norm_num

/-! ## 3. half-space / support map -/

/-- the half-space `{p | n·p ≤ 0}` (the set of `HalfSpace3.Mem`, written without a `Num` instance) -/
def HalfAt (n : V3 K) (p : V3 K) : Prop := n.x * p.x + n.y * p.y + n.z * p.z ≤ 0

/-- the C10 support-map contract **in one direction** for a set `S`: `q ∈ S` maximises `dir·x` over `S` -/
def SupportsIn (S : V3 K → Prop) (dir q : V3 K) : Prop :=
  S q ∧ ∀ x, S x → dir.x * x.x + dir.y * x.y + dir.z * x.z ≤ dir.x * q.x + dir.y * q.y + dir.z * q.z

/-- a local set `S2` placed by the isometry `pos12` (seen from frame 1): `w` belongs to it iff `pos12⁻¹·w ∈ S2` -/
def Placed3 (pos12 : Iso3 K) (S2 : V3 K → Prop) (w : V3 K) : Prop :=
  S2 (@Iso3.invAct K (fieldNum K sq) pos12 w)

/-- **`distance_halfspace_support_map` is the true minimum distance** between the half-space `{n·p ≤ 0}` (`|n| = 1`)
and any set `S` whose support map honours the contract in direction `-n`: the result `D` is `≥ 0`, a lower bound of
`|b - a|` over all `a` in the half-space and `b ∈ S`, and attained. -/
theorem distanceHalfspaceSupportMap_spec (S : V3 K → Prop) (supp : Iso3 K → V3 K → V3 K) (pos12 : Iso3 K) (n : V3 K)
    (hn : n.x * n.x + n.y * n.y + n.z * n.z = 1) :
    letI := fieldNum K sq
    SupportsIn S n.neg (supp pos12 n.neg) →
    0 ≤ distanceHalfspaceSupportMap supp pos12 n ∧
    (∀ a b, HalfAt n a → S b →
      distanceHalfspaceSupportMap supp pos12 n * distanceHalfspaceSupportMap supp pos12 n ≤ (b.sub a).normSq) ∧
    (∃ a b, HalfAt n a ∧ S b ∧
      (b.sub a).normSq = distanceHalfspaceSupportMap supp pos12 n * distanceHalfspaceSupportMap supp pos12 n) := by
  simp only [distanceHalfspaceSupportMap, fieldNum_nmax]
  generalize @supp pos12 (@V3.neg K (fieldNum K sq) n) = q
  rintro ⟨hq, hmax⟩
  simp only [V3.neg, V3.dot, V3.normSq, V3.sub, HalfAt] at hmax ⊢
  set δ := n.x * q.x + n.y * q.y + n.z * q.z with hδ
  refine ⟨le_max_right _ _, fun a b ha hb => ?_, ?_⟩
  · have hb' := hmax b hb
    rcases le_total δ 0 with h0 | h0
    · rw [max_eq_right h0]
      nlinarith [mul_self_nonneg (b.x - a.x), mul_self_nonneg (b.y - a.y), mul_self_nonneg (b.z - a.z)]
    · rw [max_eq_left h0]
      have := sep_along3 n ⟨b.x - a.x, b.y - a.y, b.z - a.z⟩ 1 δ one_pos (by simp only [dot3]; linarith) h0
        (by simp only [dot3]; nlinarith)
      simpa [dot3] using this
  · rcases le_total δ 0 with h0 | h0
    · rw [max_eq_right h0]
      exact ⟨q, q, h0, hq, by ring⟩
    · rw [max_eq_left h0]
      refine ⟨⟨q.x - n.x * δ, q.y - n.y * δ, q.z - n.z * δ⟩, q, ?_, hq, ?_⟩
      · show n.x * (q.x - n.x * δ) + n.y * (q.y - n.y * δ) + n.z * (q.z - n.z * δ) ≤ 0
        nlinarith
      · show (q.x - (q.x - n.x * δ)) * (q.x - (q.x - n.x * δ)) + (q.y - (q.y - n.y * δ)) * (q.y - (q.y - n.y * δ))
            + (q.z - (q.z - n.z * δ)) * (q.z - (q.z - n.z * δ)) = δ * δ
        nlinarith

/-- **`closest_points_halfspace_support_map`, all three outcomes.** Half-space `{n·p ≤ 0}` with `|n| = 1`, shape 2 =
local set `S2` placed by the unit-quaternion isometry `pos12`, `margin ≥ 0`, support map honouring the contract in
direction `-n`:
* `Intersecting` ⇒ the sets share a point; `Disjoint` ⇒ every pair is farther apart than `margin`;
* `WithinMargin(p1, p2)` ⇒ `p1` lies in the half-space, `p2 ∈ S2` (local), `pos12·p2` is the placed point,
  the pair is a closest pair, and its gap is positive and `≤ margin`. -/
theorem closestPointsHalfspaceSupportMap_spec (S2 : V3 K → Prop) (supp : Iso3 K → V3 K → V3 K) (pos12 : Iso3 K)
    (n : V3 K) (margin : K) (hn : n.x * n.x + n.y * n.y + n.z * n.z = 1) (hm : 0 ≤ margin)
    (hq : pos12.qi * pos12.qi + pos12.qj * pos12.qj + pos12.qk * pos12.qk + pos12.qw * pos12.qw = 1) :
    letI := fieldNum K sq
    SupportsIn (Placed3 sq pos12 S2) n.neg (supp pos12 n.neg) →
    match closestPointsHalfspaceSupportMap supp pos12 n margin with
    | none => False
    | some .intersecting => ∃ p, HalfAt n p ∧ Placed3 sq pos12 S2 p
    | some .disjoint => ∀ a b, HalfAt n a → Placed3 sq pos12 S2 b → margin * margin < (b.sub a).normSq
    | some (.within p1 p2) =>
        HalfAt n p1 ∧ S2 p2 ∧ Placed3 sq pos12 S2 (pos12.act p2) ∧
        (∀ a b, HalfAt n a → Placed3 sq pos12 S2 b → ((pos12.act p2).sub p1).normSq ≤ (b.sub a).normSq) ∧
        ((pos12.act p2).sub p1).normSq ≤ margin * margin ∧ 0 < ((pos12.act p2).sub p1).normSq := by
  generalize hR : @closestPointsHalfspaceSupportMap K (fieldNum K sq) supp pos12 n margin = R
  dsimp only [closestPointsHalfspaceSupportMap] at hR
  rw [if_neg (not_not.2 hm)] at hR
  generalize @supp pos12 (@V3.neg K (fieldNum K sq) n) = q at *
  rintro ⟨hqS, hmax⟩
  have hact := act_invAct3 sq pos12 q hq
  simp only [V3.neg] at hmax
  have key : ∀ a b, HalfAt n a → Placed3 sq pos12 S2 b → 0 ≤ n.x * q.x + n.y * q.y + n.z * q.z →
      (n.x * q.x + n.y * q.y + n.z * q.z) * (n.x * q.x + n.y * q.y + n.z * q.z) ≤
        (b.x - a.x) * (b.x - a.x) + (b.y - a.y) * (b.y - a.y) + (b.z - a.z) * (b.z - a.z) := by
    intro a b ha hb h0
    have hb' := hmax b hb
    simp only [HalfAt] at ha
    have := sep_along3 n ⟨b.x - a.x, b.y - a.y, b.z - a.z⟩ 1 _ one_pos (by simp only [dot3]; linarith) h0
      (by simp only [dot3]; nlinarith)
    simpa [dot3] using this
  split_ifs at hR with h1 h2 <;> subst hR <;> simp only [V3.dot, V3.neg] at h1 ⊢
  · -- intersecting
    simp only [V3.dot, V3.neg] at h2
    exact ⟨q, by simp only [HalfAt]; linarith, hqS⟩
  · -- within
    simp only [V3.dot, V3.neg] at h2
    push Not at h2
    rw [hact]
    set δ := n.x * q.x + n.y * q.y + n.z * q.z with hδ
    have hd : n.x * -q.x + n.y * -q.y + n.z * -q.z = -δ := by ring
    rw [hd] at h1 h2 ⊢
    have hpos : 0 < δ := by linarith
    have hg : (q.x - (q.x + n.x * -δ)) * (q.x - (q.x + n.x * -δ)) + (q.y - (q.y + n.y * -δ)) * (q.y - (q.y + n.y * -δ)) +
        (q.z - (q.z + n.z * -δ)) * (q.z - (q.z + n.z * -δ)) = δ * δ := by linear_combination (δ * δ) * hn
    simp only [V3.add, V3.smul, V3.sub, V3.normSq, V3.dot, HalfAt]
    rw [hg]
    refine ⟨?_, hqS, hqS, ?_, ?_, ?_⟩
    · nlinarith
    · intro a b ha hb
      exact key a b ha hb hpos.le
    · nlinarith
    · exact mul_pos hpos hpos
  · -- disjoint
    push Not at h1
    intro a b ha hb
    set δ := n.x * q.x + n.y * q.y + n.z * q.z with hδ
    have hd : n.x * -q.x + n.y * -q.y + n.z * -q.z = -δ := by ring
    rw [hd] at h1
    have h := key a b ha hb (by linarith)
    simp only [V3.sub, V3.normSq, V3.dot]
    nlinarith [mul_pos (show 0 < δ - margin by linarith) (show 0 < δ + margin by linarith)]

/-- the solid box `[-he, he]` (the set of `Cuboid3.Mem`) -/
def CubAt (he : V3 K) (p : V3 K) : Prop :=
  (-he.x ≤ p.x ∧ p.x ≤ he.x) ∧ (-he.y ≤ p.y ∧ p.y ≤ he.y) ∧ (-he.z ≤ p.z ∧ p.z ≤ he.z)

/-- **The cuboid support map honours the C10 contract** (every direction, unit quaternion, half-extents `≥ 0`):
`Cuboid::support_point(pos12, dir)` is a point of the placed box maximising `dir·x` over it. -/
theorem cuboidSupport_supports (he : V3 K) (pos12 : Iso3 K) (dir : V3 K)
    (hhe : 0 ≤ he.x ∧ 0 ≤ he.y ∧ 0 ≤ he.z)
    (hq : pos12.qi * pos12.qi + pos12.qj * pos12.qj + pos12.qk * pos12.qk + pos12.qw * pos12.qw = 1) :
    letI := fieldNum K sq
    letI := fieldBits K
    SupportsIn (Placed3 sq pos12 (CubAt he)) dir (cuboidSupport he pos12 dir) := by
  obtain ⟨hx, hy, hz⟩ := hhe
  simp only [SupportsIn, Placed3, cuboidSupport]
  have hinv := fun y => invAct_act3 sq pos12 y hq
  constructor
  · rw [hinv]
    simp only [CubAt, Dist.cuboidLocalSupport, copysign, abs_of_nonneg hx, abs_of_nonneg hy, abs_of_nonneg hz]
    refine ⟨?_, ?_, ?_⟩ <;> split_ifs <;> constructor <;> linarith
  · intro x hx'
    have hact := act_invAct3 sq pos12 x hq
    generalize @Iso3.invAct K (fieldNum K sq) pos12 x = y at hx' hact
    rw [← hact]
    have adj := fun v => rot_adj3 sq pos12 v dir
    simp only [Iso3.act, V3.add, V3.dot] at adj ⊢
    have e1 := adj y
    have e2 := adj (@Dist.cuboidLocalSupport K (fieldBits K) he (@Iso3.invRot K (fieldNum K sq) pos12 dir))
    generalize @Iso3.invRot K (fieldNum K sq) pos12 dir = d' at *
    obtain ⟨⟨a1, a2⟩, ⟨b1, b2⟩, c1, c2⟩ := hx'
    have k1 := cs_axis he.x d'.x y.x hx a1 a2
    have k2 := cs_axis he.y d'.y y.y hy b1 b2
    have k3 := cs_axis he.z d'.z y.z hz c1 c2
    simp only [Dist.cuboidLocalSupport, copysign] at e2 ⊢
    generalize @Iso3.rot K (fieldNum K sq) pos12 y = ry at *
    generalize @Iso3.rot K (fieldNum K sq) pos12 ⟨if d'.x < 0 then -|he.x| else |he.x|, if d'.y < 0 then -|he.y| else |he.y|,
      if d'.z < 0 then -|he.z| else |he.z|⟩ = rs at *
    linarith
private theorem invRot_normSq3 (m : Iso3 K) (v : V3 K)
    (hq : m.qi * m.qi + m.qj * m.qj + m.qk * m.qk + m.qw * m.qw = 1) :
    letI := fieldNum K sq
    (m.invRot v).normSq = v.normSq := by
  have h1 := rot_normSq3 sq m (@Iso3.invRot K (fieldNum K sq) m v) hq
  rw [rot_invRot3 sq m v hq] at h1
  exact h1.symm

private theorem invAct_add_t (m : Iso3 K) (v : V3 K) :
    letI := fieldNum K sq
    m.invAct (m.t.add v) = m.invRot v := by
  simp only [Iso3.invAct]
  congr 1
  obtain ⟨a, b, c⟩ := v
  simp only [V3.add, V3.sub, V3.mk.injEq]
  refine ⟨?_, ?_, ?_⟩ <;> ring

/-- **The ball support map honours the C10 contract** for unit directions:
`Ball::support_point_toward(pos12, dir) = t + dir·r` is a point of the placed ball maximising `dir·x` over it. -/
theorem ballSupportToward_supports (r : K) (pos12 : Iso3 K) (dir : V3 K) (hr : 0 ≤ r)
    (hd : dir.x * dir.x + dir.y * dir.y + dir.z * dir.z = 1)
    (hq : pos12.qi * pos12.qi + pos12.qj * pos12.qj + pos12.qk * pos12.qk + pos12.qw * pos12.qw = 1) :
    letI := fieldNum K sq
    SupportsIn (Placed3 sq pos12 (BallAt r ⟨0, 0, 0⟩)) dir (ballSupportToward r pos12 dir) := by
  simp only [SupportsIn, Placed3, ballSupportToward]
  constructor
  · rw [invAct_add_t]
    have h := invRot_normSq3 sq pos12 (@V3.smul K (fieldNum K sq) dir r) hq
    generalize @Iso3.invRot K (fieldNum K sq) pos12 (@V3.smul K (fieldNum K sq) dir r) = v at h ⊢
    simp only [V3.normSq, V3.dot, V3.smul] at h
    simp only [BallAt]
    have e : dir.x * r * (dir.x * r) + dir.y * r * (dir.y * r) + dir.z * r * (dir.z * r) = r * r := by
      linear_combination (r * r) * hd
    linarith
  · intro x hx
    have hact := act_invAct3 sq pos12 x hq
    generalize @Iso3.invAct K (fieldNum K sq) pos12 x = y at hx hact
    rw [← hact]
    have adj := rot_adj3 sq pos12 y dir
    have hn := invRot_normSq3 sq pos12 dir hq
    simp only [Iso3.act, V3.add, V3.dot, V3.smul, V3.normSq] at adj hn ⊢
    generalize @Iso3.invRot K (fieldNum K sq) pos12 dir = d' at *
    generalize @Iso3.rot K (fieldNum K sq) pos12 y = ry at *
    simp only [BallAt] at hx
    have := dot_le3 d' y 1 r zero_le_one hr (by simp only [dot3]; linarith) (by simp only [dot3]; nlinarith)
    simp only [dot3] at this
    nlinarith

/-- `Ball::support_point(pos12, dir)` (which normalises `dir`) honours the contract for every non-zero direction. -/
theorem ballSupport_supports (hs : LawfulSqrt sq) (r : K) (pos12 : Iso3 K) (dir : V3 K) (hr : 0 ≤ r)
    (hd : 0 < dir.x * dir.x + dir.y * dir.y + dir.z * dir.z)
    (hq : pos12.qi * pos12.qi + pos12.qj * pos12.qj + pos12.qk * pos12.qk + pos12.qw * pos12.qw = 1) :
    letI := fieldNum K sq
    SupportsIn (Placed3 sq pos12 (BallAt r ⟨0, 0, 0⟩)) dir (ballSupport r pos12 dir) := by
  have hS0 := hs.nonneg _ hd.le
  have hSS := hs.sq_mul _ hd.le
  simp only [ballSupport, V3.norm, V3.normSq, V3.dot, fieldNum_sqrt]
  generalize sq (dir.x * dir.x + dir.y * dir.y + dir.z * dir.z) = S at *
  have hSpos : 0 < S := by
    rcases eq_or_lt_of_le hS0 with h | h
    · rw [← h] at hSS; linarith
    · exact h
  have hne : S ≠ 0 := ne_of_gt hSpos
  have hu : dir.x / S * (dir.x / S) + dir.y / S * (dir.y / S) + dir.z / S * (dir.z / S) = 1 := by
    field_simp; linarith
  obtain ⟨h1, h2⟩ := ballSupportToward_supports sq r pos12 (@V3.sdiv K (fieldNum K sq) dir S) hr hu hq
  refine ⟨h1, fun x hx => ?_⟩
  have h3 := h2 x hx
  generalize @ballSupportToward K (fieldNum K sq) r pos12 (@V3.sdiv K (fieldNum K sq) dir S) = q at *
  simp only [V3.sdiv] at h3
  have ex : dir.x = dir.x / S * S := by field_simp
  have ey : dir.y = dir.y / S * S := by field_simp
  have ez : dir.z = dir.z / S * S := by field_simp
  rw [ex, ey, ez]
  generalize dir.x / S = ux at *; generalize dir.y / S = uy at *; generalize dir.z / S = uz at *
  nlinarith

/-- non-vacuity for the half-space theorems: the unit normal `(3/5, 4/5, 0)`, the box `[-1,1]×[-2,2]×[-1/2,1/2]`
(half-extents `≥ 0`) and the exact unit quaternion `(1/2, 1/2, 1/2, 1/2)` satisfy every side condition. -/
example : ((3/5 : ℚ) * (3/5) + (4/5) * (4/5) + 0 * 0 = 1) ∧ ((0:ℚ) ≤ 1 ∧ (0:ℚ) ≤ 2 ∧ (0:ℚ) ≤ 1/2) ∧
    ((1/2 : ℚ) * (1/2) + (1/2) * (1/2) + (1/2) * (1/2) + (1/2) * (1/2) = 1) := by norm_num

/-! ## 4. SAT lower bound for cuboids -/

/-- `d·y ≤ d·support(d)` for the cuboid local support point (half-extents `≥ 0`) -/
private theorem cuboid_local_support_max (he d y : V3 K) (hhe : 0 ≤ he.x ∧ 0 ≤ he.y ∧ 0 ≤ he.z) (hy : CubAt he y) :
    letI := fieldBits K
    d.x * y.x + d.y * y.y + d.z * y.z ≤
      d.x * (Dist.cuboidLocalSupport he d).x + d.y * (Dist.cuboidLocalSupport he d).y + d.z * (Dist.cuboidLocalSupport he d).z := by
  obtain ⟨hx, hy', hz⟩ := hhe
  obtain ⟨⟨a1, a2⟩, ⟨b1, b2⟩, c1, c2⟩ := hy
  have k1 := cs_axis he.x d.x y.x hx a1 a2
  have k2 := cs_axis he.y d.y y.y hy' b1 b2
  have k3 := cs_axis he.z d.z y.z hz c1 c2
  simp only [Dist.cuboidLocalSupport, copysign]
  linarith

/-- the invariant carried by the SAT loops: a positive best separation is a lower bound of the distance between any
point `x` of cuboid 1 and any point `pos12·y` of cuboid 2 -/
def SatInv (he1 he2 : V3 K) (pos12 : Iso3 K) (best : K × V3 K) : Prop :=
  0 < best.1 → ∀ x y, CubAt he1 x → CubAt he2 y →
    best.1 * best.1 ≤ @V3.normSq K (fieldNum K sq) (@V3.sub K (fieldNum K sq) (@Iso3.act K (fieldNum K sq) pos12 y) x)

private theorem sign_cases (t : K) : (if t < 0 then -|(1:K)| else |(1:K)|) = 1 ∨ (if t < 0 then -|(1:K)| else |(1:K)|) = -1 := by
  split_ifs <;> simp

/-- separation along a signed direction `a` (`|a|² ≤ 1`): if every pair satisfies `s ≤ a·(w - x)` with `s > 0`
then `s² ≤ |w - x|²` -/
private theorem sep_dir (a w x : V3 K) (s : K) (hs : 0 < s) (ha : a.x * a.x + a.y * a.y + a.z * a.z ≤ 1)
    (h : s ≤ a.x * (w.x - x.x) + a.y * (w.y - x.y) + a.z * (w.z - x.z)) :
    s * s ≤ (w.x - x.x) * (w.x - x.x) + (w.y - x.y) * (w.y - x.y) + (w.z - x.z) * (w.z - x.z) := by
  have hcs := cs3 a ⟨w.x - x.x, w.y - x.y, w.z - x.z⟩
  simp only [dot3] at hcs
  have h2 : s ^ 2 ≤ (a.x * (w.x - x.x) + a.y * (w.y - x.y) + a.z * (w.z - x.z)) ^ 2 := pow_le_pow_left₀ hs.le h 2
  have e0 : 0 ≤ (w.x - x.x) * (w.x - x.x) + (w.y - x.y) * (w.y - x.y) + (w.z - x.z) * (w.z - x.z) := by
    nlinarith [mul_self_nonneg (w.x - x.x), mul_self_nonneg (w.y - x.y), mul_self_nonneg (w.z - x.z)]
  nlinarith [mul_le_mul_of_nonneg_right ha e0]

/-- one step of `cuboid_cuboid_find_local_separating_normal_oneway` preserves the invariant -/
theorem satOnewayStep_inv (he1 he2 : V3 K) (pos12 : Iso3 K) (best : K × V3 K) (i : Nat)
    (h2 : 0 ≤ he2.x ∧ 0 ≤ he2.y ∧ 0 ≤ he2.z) :
    letI := fieldNum K sq
    letI := fieldBits K
    SatInv sq he1 he2 pos12 best → SatInv sq he1 he2 pos12 (satOnewayStep he1 he2 pos12 best i) := by
  intro hinv
  dsimp only [satOnewayStep]
  split_ifs with hlt
  · intro hpos x y hx hy
    simp only at hpos ⊢
    -- the support point of cuboid 2 toward `axis2 = Rᵀ(-axis1)` minimises `axis1·(pos12·y)`
    have hmax := cuboid_local_support_max he2
      (@Iso3.invRot K (fieldNum K sq) pos12 (@V3.neg K (fieldNum K sq) (@ith3 K (fieldNum K sq) i (@copysign K (fieldBits K) 1 (@V3.get K pos12.t i))))) y h2 hy
    have adj1 := rot_adj3 sq pos12 y (@V3.neg K (fieldNum K sq) (@ith3 K (fieldNum K sq) i (@copysign K (fieldBits K) 1 (@V3.get K pos12.t i))))
    have adj2 := rot_adj3 sq pos12 (@Dist.cuboidLocalSupport K (fieldBits K) he2
      (@Iso3.invRot K (fieldNum K sq) pos12 (@V3.neg K (fieldNum K sq) (@ith3 K (fieldNum K sq) i (@copysign K (fieldBits K) 1 (@V3.get K pos12.t i))))))
      (@V3.neg K (fieldNum K sq) (@ith3 K (fieldNum K sq) i (@copysign K (fieldBits K) 1 (@V3.get K pos12.t i))))
    obtain ⟨⟨a1, a2⟩, ⟨b1, b2⟩, c1, c2⟩ := hx
    have hsg := sign_cases (@V3.get K pos12.t i)
    simp only [copysign] at hmax adj1 adj2 hpos ⊢
    generalize (if @V3.get K pos12.t i < 0 then -|(1:K)| else |(1:K)|) = sg at *
    generalize @Iso3.invRot K (fieldNum K sq) pos12 (@V3.neg K (fieldNum K sq) (@ith3 K (fieldNum K sq) i sg)) = d' at *
    generalize @Dist.cuboidLocalSupport K (fieldBits K) he2 d' = ls at *
    simp only [Iso3.act, V3.add, V3.sub, V3.dot, V3.normSq, V3.neg] at adj1 adj2 hpos ⊢
    generalize @Iso3.rot K (fieldNum K sq) pos12 y = ry at *
    generalize @Iso3.rot K (fieldNum K sq) pos12 ls = rl at *
    by_cases i0 : i = 0
    · subst i0
      simp only [ith3, V3.set, V3.zero, V3.get, if_true] at adj1 adj2 hpos ⊢
      apply sep_dir ⟨sg, 0, 0⟩ ⟨ry.x + pos12.t.x, ry.y + pos12.t.y, ry.z + pos12.t.z⟩ x _ hpos
      · rcases hsg with h | h <;> rw [h] <;> norm_num
      · simp only []
        rcases hsg with h | h <;> rw [h] at adj1 adj2 ⊢ <;> nlinarith
    · by_cases i1 : i = 1
      · subst i1
        simp only [ith3, V3.set, V3.zero, V3.get, if_true, if_false, one_ne_zero] at adj1 adj2 hpos ⊢
        apply sep_dir ⟨0, sg, 0⟩ ⟨ry.x + pos12.t.x, ry.y + pos12.t.y, ry.z + pos12.t.z⟩ x _ hpos
        · rcases hsg with h | h <;> rw [h] <;> norm_num
        · simp only []
          rcases hsg with h | h <;> rw [h] at adj1 adj2 ⊢ <;> nlinarith
      · simp only [ith3, V3.set, V3.zero, V3.get, if_neg i0, if_neg i1] at adj1 adj2 hpos ⊢
        apply sep_dir ⟨0, 0, sg⟩ ⟨ry.x + pos12.t.x, ry.y + pos12.t.y, ry.z + pos12.t.z⟩ x _ hpos
        · rcases hsg with h | h <;> rw [h] <;> norm_num
        · simp only []
          rcases hsg with h | h <;> rw [h] at adj1 adj2 ⊢ <;> nlinarith
  · exact hinv

private theorem realMax_nonneg : (0 : K) ≤ @realMax K (fieldNum K sq) := by
  simp only [realMax, fieldNum_lit]
  have : (0 : ℚ) ≤ mkRat 179769313486231570814527423731704356798070567525844996598917476803157260780028538760589558632766878171540458953514382464234321326889464182768467546703537516986049910576551282076245490090389328944075868508455133942304583236903222948165808559332123348274797826204144723168738177180919299881250404026184124858368 1 := by
    rw [Rat.mkRat_eq_div]; positivity
  exact_mod_cast this

/-- **SAT lower bound (face normals of cuboid 1).** Whatever the pose (no unit-quaternion hypothesis is needed for
this direction), if `cuboid_cuboid_find_local_separating_normal_oneway` returns a positive separation `s`, then every
point `x` of cuboid 1 and every point `pos12·y` of cuboid 2 are at least `s` apart: `s² ≤ |pos12·y - x|²`. In particular
a positive value proves the cuboids disjoint; the SAT value never exceeds the true separation. -/
theorem satCuboidCuboidOneway_lower (he1 he2 : V3 K) (pos12 : Iso3 K)
    (h2 : 0 ≤ he2.x ∧ 0 ≤ he2.y ∧ 0 ≤ he2.z) :
    letI := fieldNum K sq
    letI := fieldBits K
    0 < (satCuboidCuboidOneway he1 he2 pos12).1 →
    ∀ x y, CubAt he1 x → CubAt he2 y →
      (satCuboidCuboidOneway he1 he2 pos12).1 * (satCuboidCuboidOneway he1 he2 pos12).1 ≤ ((pos12.act y).sub x).normSq := by
  have h0 : SatInv sq he1 he2 pos12 (-(@realMax K (fieldNum K sq)), @V3.zero K (fieldNum K sq)) := by
    intro hpos
    have := realMax_nonneg (K := K) sq
    simp only at hpos
    linarith
  have s0 := satOnewayStep_inv sq he1 he2 pos12 _ 0 h2 h0
  have s1 := satOnewayStep_inv sq he1 he2 pos12 _ 1 h2 s0
  have s2 := satOnewayStep_inv sq he1 he2 pos12 _ 2 h2 s1
  exact s2

/-- **value > 0 ⇒ disjoint**: a positive SAT separation excludes any common point. -/
theorem satCuboidCuboidOneway_disjoint (he1 he2 : V3 K) (pos12 : Iso3 K)
    (h2 : 0 ≤ he2.x ∧ 0 ≤ he2.y ∧ 0 ≤ he2.z) :
    letI := fieldNum K sq
    letI := fieldBits K
    0 < (satCuboidCuboidOneway he1 he2 pos12).1 →
    ∀ x y, CubAt he1 x → CubAt he2 y → pos12.act y ≠ x := by
  intro hpos x y hx hy heq
  have h := satCuboidCuboidOneway_lower sq he1 he2 pos12 h2 hpos x y hx hy
  rw [heq] at h
  simp only [V3.sub, V3.normSq, V3.dot] at h
  nlinarith [mul_pos hpos hpos]

/-- `cuboid_cuboid_compute_separation_wrt_local_line` along any axis of length `≤ 1`: a positive value is a lower
bound of the distance between the cuboids. -/
theorem satSeparationWrtLine_lower (he1 he2 : V3 K) (pos12 : Iso3 K) (axis : V3 K)
    (h1 : 0 ≤ he1.x ∧ 0 ≤ he1.y ∧ 0 ≤ he1.z) (h2 : 0 ≤ he2.x ∧ 0 ≤ he2.y ∧ 0 ≤ he2.z)
    (ha : axis.x * axis.x + axis.y * axis.y + axis.z * axis.z ≤ 1) :
    letI := fieldNum K sq
    letI := fieldBits K
    SatInv sq he1 he2 pos12 (satSeparationWrtLine he1 he2 pos12 axis) := by
  intro hpos x y hx hy
  dsimp only [satSeparationWrtLine] at hpos ⊢
  have hsg := sign_cases (@V3.dot K (fieldNum K sq) pos12.t axis)
  simp only [copysign] at hpos ⊢
  generalize (if @V3.dot K (fieldNum K sq) pos12.t axis < 0 then -|(1:K)| else |(1:K)|) = sg at *
  have hmax2 := cuboid_local_support_max he2
    (@Iso3.invRot K (fieldNum K sq) pos12 (@V3.neg K (fieldNum K sq) (@V3.smul K (fieldNum K sq) axis sg))) y h2 hy
  have hmax1 := cuboid_local_support_max he1 (@V3.smul K (fieldNum K sq) axis sg) x h1 hx
  have adj1 := rot_adj3 sq pos12 y (@V3.neg K (fieldNum K sq) (@V3.smul K (fieldNum K sq) axis sg))
  have adj2 := rot_adj3 sq pos12 (@Dist.cuboidLocalSupport K (fieldBits K) he2
    (@Iso3.invRot K (fieldNum K sq) pos12 (@V3.neg K (fieldNum K sq) (@V3.smul K (fieldNum K sq) axis sg))))
    (@V3.neg K (fieldNum K sq) (@V3.smul K (fieldNum K sq) axis sg))
  generalize @Iso3.invRot K (fieldNum K sq) pos12 (@V3.neg K (fieldNum K sq) (@V3.smul K (fieldNum K sq) axis sg)) = d' at *
  generalize @Dist.cuboidLocalSupport K (fieldBits K) he2 d' = ls2 at *
  generalize @Dist.cuboidLocalSupport K (fieldBits K) he1 (@V3.smul K (fieldNum K sq) axis sg) = ls1 at *
  simp only [Iso3.act, V3.add, V3.sub, V3.dot, V3.normSq, V3.neg, V3.smul] at adj1 adj2 hpos hmax1 ⊢
  generalize @Iso3.rot K (fieldNum K sq) pos12 y = ry at *
  generalize @Iso3.rot K (fieldNum K sq) pos12 ls2 = rl at *
  apply sep_dir ⟨axis.x * sg, axis.y * sg, axis.z * sg⟩ ⟨ry.x + pos12.t.x, ry.y + pos12.t.y, ry.z + pos12.t.z⟩ x _ hpos
  · rcases hsg with h | h <;> rw [h] <;> simp only [] <;> nlinarith
  · simp only []
    nlinarith

/-- an invariant preserved by every step is preserved by a left fold -/
private theorem foldl_inv {α β : Type} (P : β → Prop) (f : β → α → β) (l : List α) (b : β)
    (hb : P b) (hstep : ∀ b a, P b → P (f b a)) : P (l.foldl f b) := by
  induction l generalizing b with
  | nil => exact hb
  | cons a l ih => exact ih _ (hstep b a hb)

/-- **SAT lower bound (edge × edge axes).** If `cuboid_cuboid_find_local_separating_edge_twoway` returns a positive
separation `s`, every point of cuboid 1 and every point `pos12·y` of cuboid 2 are at least `s` apart. -/
theorem satCuboidCuboidEdgeTwoway_lower (hs : LawfulSqrt sq) (he1 he2 : V3 K) (pos12 : Iso3 K)
    (h1 : 0 ≤ he1.x ∧ 0 ≤ he1.y ∧ 0 ≤ he1.z) (h2 : 0 ≤ he2.x ∧ 0 ≤ he2.y ∧ 0 ≤ he2.z) :
    letI := fieldNum K sq
    letI := fieldBits K
    0 < (satCuboidCuboidEdgeTwoway he1 he2 pos12).1 →
    ∀ x y, CubAt he1 x → CubAt he2 y →
      (satCuboidCuboidEdgeTwoway he1 he2 pos12).1 * (satCuboidCuboidEdgeTwoway he1 he2 pos12).1
        ≤ ((pos12.act y).sub x).normSq := by
  have h0 : SatInv sq he1 he2 pos12 (-(@realMax K (fieldNum K sq)), @V3.zero K (fieldNum K sq)) := by
    intro hpos
    have := realMax_nonneg (K := K) sq
    simp only at hpos
    linarith
  dsimp only [satCuboidCuboidEdgeTwoway]
  apply foldl_inv (SatInv sq he1 he2 pos12) _ _ _ h0
  intro b a hb
  split_ifs with hn hlt
  · -- the normalised axis has length one
    simp only [V3.norm, V3.normSq, V3.dot, fieldNum_sqrt, Dist.eps, fieldNum_lit] at hn
    have hd0 : 0 ≤ a.x * a.x + a.y * a.y + a.z * a.z := by
      nlinarith [mul_self_nonneg a.x, mul_self_nonneg a.y, mul_self_nonneg a.z]
    have hSS := hs.sq_mul _ hd0
    have hS0 := hs.nonneg _ hd0
    apply satSeparationWrtLine_lower sq he1 he2 pos12 _ h1 h2
    simp only [V3.sdiv, V3.norm, V3.normSq, V3.dot, fieldNum_sqrt]
    generalize sq (a.x * a.x + a.y * a.y + a.z * a.z) = S at *
    have he : (0:K) ≤ ((mkRat 1 4503599627370496 : ℚ) : K) := by
      have : (0:ℚ) ≤ mkRat 1 4503599627370496 := by rw [Rat.mkRat_eq_div]; positivity
      exact_mod_cast this
    have hSpos : 0 < S := lt_of_le_of_lt he hn
    have hne : S ≠ 0 := ne_of_gt hSpos
    have : a.x / S * (a.x / S) + a.y / S * (a.y / S) + a.z / S * (a.z / S) = 1 := by
      field_simp; linarith
    linarith
  · exact hb
  · exact hb

/-- non-vacuity of the SAT theorems: two unit cubes three units apart along `x` (identity rotation) give the positive
separation `1` (evaluated at the lawful instance over `ℚ`). -/
example :
    letI := fieldNum ℚ id
    letI := fieldBits ℚ
    (satCuboidCuboidOneway (⟨1, 1, 1⟩ : V3 ℚ) ⟨1, 1, 1⟩ ⟨0, 0, 0, 1, ⟨3, 0, 0⟩⟩).1 = 1 := by
  simp only [satCuboidCuboidOneway, List.foldl, satOnewayStep, Dist.cuboidLocalSupport, copysign, ith3, V3.set, V3.get,
    V3.zero, V3.neg, Iso3.invRot, Iso3.act, Iso3.rot, Iso3.rotQ, Iso3.qv, V3.cross, V3.smul, V3.add, fieldNum_two, realMax, fieldNum_lit]
  norm_num

/-! ## 5. segment / segment -/

/-- **Clamping analysis of `closest_points_segment_segment_with_locations_nD`** (any dimension: the vector space only
enters through the five dot products). `A = |d1|²`, `E = |d2|²`, `B = d1·d2`, `C = d1·r`, `F = d2·r`, `r = a1 - a2`.
Assuming the Gram relations that hold for real dot products and that the three tolerance tests are *exact* on the input
(`A ≤ ε ⇒ A = 0`, `E ≤ ε ⇒ E = 0`, and the collinearity test answers "parallel" only when `AE - B² = 0`), the returned
parameters lie in `[0,1]²` and satisfy the variational inequality of the convex objective — hence are optimal
(`segSegParams_optimal3`). -/
theorem segSegParamsGen_kkt {V : Type} (sub : V → V → V) (dot : V → V → K) (a1 b1 a2 b2 : V) (A E F C B : K)
    (eA : dot (sub b1 a1) (sub b1 a1) = A) (eE : dot (sub b2 a2) (sub b2 a2) = E)
    (eF : dot (sub b2 a2) (sub a1 a2) = F) (eC : dot (sub b1 a1) (sub a1 a2) = C)
    (eB : dot (sub b1 a1) (sub b2 a2) = B)
    (_hA : 0 ≤ A) (_hE : 0 ≤ E) (hcs : B * B ≤ A * E) (hpar : A * E - B * B = 0 → B * F = C * E)
    (hA0 : A = 0 → B = 0 ∧ C = 0) (hE0 : E = 0 → B = 0 ∧ F = 0) :
    letI := fieldNum K sq
    letI := fieldBits K
    (A ≤ Dist.eps → A = 0) → (E ≤ Dist.eps → E = 0) →
    (Dist.eps < A → Dist.eps < E → (Dist.eps < A * E - B * B ∧ ulpsEq (A * E) (B * B) = false) ∨ A * E - B * B = 0) →
    ∀ st, st = segSegParamsGen sub dot a1 b1 a2 b2 →
    0 ≤ st.1 ∧ st.1 ≤ 1 ∧ 0 ≤ st.2 ∧ st.2 ≤ 1 ∧
    ∀ s' t', 0 ≤ s' → s' ≤ 1 → 0 ≤ t' → t' ≤ 1 →
      0 ≤ (C + A * st.1 - B * st.2) * (s' - st.1) - (F + B * st.1 - E * st.2) * (t' - st.2) := by
  intro hAe hEe hex st hst
  have heps := eps_nonneg (K := K) sq
  dsimp only [segSegParamsGen] at hst
  rw [eA, eE, eF, eC, eB] at hst
  show SegKKT A B C E F st
  split_ifs at hst with h1 h2 h3 h4 h5 h6 h7 h8
  · -- both segments are points
    obtain ⟨hb, hc⟩ := hA0 (hAe h1.1)
    obtain ⟨_, hf⟩ := hE0 (hEe h1.2)
    subst hst
    refine ⟨le_refl _, zero_le_one, le_refl _, zero_le_one, fun s' t' _ _ _ _ => ?_⟩
    simp only [hAe h1.1, hEe h1.2, hb, hc, hf]; simp
  · -- first segment is a point: 1-D problem in t
    obtain ⟨hb, hc⟩ := hA0 (hAe h2)
    have hEpos : 0 < E := by
      by_contra hh; push Not at hh
      exact h1 ⟨h2, le_trans hh heps⟩
    have ho := opt1_clamp01 sq E (-F) hEpos
    rw [neg_neg] at ho
    obtain ⟨r0, r1⟩ := clamp01_range sq (F / E)
    subst hst
    refine ⟨le_refl _, zero_le_one, r0, r1, fun s' t' _ _ ht0 ht1 => ?_⟩
    have hvar := opt1_var E (-F) _ t' ho ht0 ht1
    simp only [hAe h2, hb, hc]
    generalize @clamp01 K (fieldNum K sq) (F / E) = t at *
    nlinarith
  · -- second segment is a point: 1-D problem in s
    obtain ⟨hb, hf⟩ := hE0 (hEe h3)
    have hApos : 0 < A := lt_of_le_of_lt heps (not_le.1 h2)
    have ho := opt1_clamp01 sq A C hApos
    obtain ⟨r0, r1⟩ := clamp01_range sq (-C / A)
    subst hst
    refine ⟨r0, r1, le_refl _, zero_le_one, fun s' t' hs0 hs1 _ _ => ?_⟩
    have hvar := opt1_var A C _ s' ho hs0 hs1
    simp only [hEe h3, hb, hf]
    generalize @clamp01 K (fieldNum K sq) (-C / A) = s at *
    nlinarith
  all_goals
    have hApos : 0 < A := lt_of_le_of_lt heps (not_le.1 h2)
    have hEpos : 0 < E := lt_of_le_of_lt heps (not_le.1 h3)
  · subst hst
    exact seg_neg sq A B C E F _ hApos hEpos hcs (stage1_nonparallel sq A B C E F (lt_of_le_of_lt heps h4.1)) h5
  · subst hst
    exact seg_pos sq A B C E F _ hApos hEpos hcs (stage1_nonparallel sq A B C E F (lt_of_le_of_lt heps h4.1)) h6
  · subst hst
    exact seg_mid A B C E F _ hEpos (stage1_nonparallel sq A B C E F (lt_of_le_of_lt heps h4.1)) h5 h6
  all_goals
    have hD : A * E - B * B = 0 := by
      rcases hex (not_le.1 h2) (not_le.1 h3) with hh | hh
      · exfalso; apply h4; refine ⟨hh.1, ?_⟩; simp [hh.2]
      · exact hh
    have hs1 := stage1_parallel A B C E F hD (hpar hD)
  · subst hst
    exact seg_neg sq A B C E F 0 hApos hEpos hcs hs1 h7
  · subst hst
    exact seg_pos sq A B C E F 0 hApos hEpos hcs hs1 h8
  · subst hst
    exact seg_mid A B C E F 0 hEpos hs1 h7 h8


/-- the three tolerance tests of the segment/segment kernel are exact on this input: a squared length `≤ ε` is `0`,
and the collinearity test (`denom ≤ ε` or `ulps_eq!(ae, bb)`) fires only for exactly parallel segments. -/
def SegExact3 (a1 b1 a2 b2 : V3 K) : Prop :=
  letI := fieldNum K sq
  letI := fieldBits K
  ((b1.sub a1).dot (b1.sub a1) ≤ Dist.eps → (b1.sub a1).dot (b1.sub a1) = 0) ∧
  ((b2.sub a2).dot (b2.sub a2) ≤ Dist.eps → (b2.sub a2).dot (b2.sub a2) = 0) ∧
  (Dist.eps < (b1.sub a1).dot (b1.sub a1) → Dist.eps < (b2.sub a2).dot (b2.sub a2) →
    (Dist.eps < (b1.sub a1).dot (b1.sub a1) * (b2.sub a2).dot (b2.sub a2) - (b1.sub a1).dot (b2.sub a2) * (b1.sub a1).dot (b2.sub a2) ∧
      ulpsEq ((b1.sub a1).dot (b1.sub a1) * (b2.sub a2).dot (b2.sub a2)) ((b1.sub a1).dot (b2.sub a2) * (b1.sub a1).dot (b2.sub a2)) = false) ∨
    (b1.sub a1).dot (b1.sub a1) * (b2.sub a2).dot (b2.sub a2) - (b1.sub a1).dot (b2.sub a2) * (b1.sub a1).dot (b2.sub a2) = 0)

private theorem zero_of_sq_sum (x y z : K) (h : x * x + y * y + z * z = 0) : x = 0 ∧ y = 0 ∧ z = 0 := by
  refine ⟨?_, ?_, ?_⟩ <;> nlinarith [mul_self_nonneg x, mul_self_nonneg y, mul_self_nonneg z]

private theorem gram_nonneg (d : V3 K) : 0 ≤ dot3 d d := by
  simp only [dot3]; nlinarith [mul_self_nonneg d.x, mul_self_nonneg d.y, mul_self_nonneg d.z]

private theorem gram_zero (d r : V3 K) (h : dot3 d d = 0) : dot3 d r = 0 := by
  simp only [dot3] at h ⊢
  obtain ⟨hx, hy, hz⟩ := zero_of_sq_sum _ _ _ h
  simp only [hx, hy, hz]; simp

private theorem gram_zero' (d r : V3 K) (h : dot3 d d = 0) : dot3 r d = 0 := by
  simp only [dot3] at h ⊢
  obtain ⟨hx, hy, hz⟩ := zero_of_sq_sum _ _ _ h
  simp only [hx, hy, hz]; simp

/-- parallel directions (`|d1|²|d2|² = (d1·d2)²`) ⇒ `(d1·d2)(d2·r) = (d1·r)|d2|²` -/
private theorem gram_parallel (d1 d2 r : V3 K) (hD : dot3 d1 d1 * dot3 d2 d2 - dot3 d1 d2 * dot3 d1 d2 = 0) :
    dot3 d1 d2 * dot3 d2 r = dot3 d1 r * dot3 d2 d2 := by
  simp only [dot3] at hD ⊢
  obtain ⟨hx, hy, hz⟩ := zero_of_sq_sum
    (d1.y * d2.z - d1.z * d2.y) (d1.z * d2.x - d1.x * d2.z) (d1.x * d2.y - d1.y * d2.x) (by linear_combination hD)
  linear_combination (-(r.y * d2.z - r.z * d2.y)) * hx + (-(r.z * d2.x - r.x * d2.z)) * hy + (-(r.x * d2.y - r.y * d2.x)) * hz

omit [LinearOrder K] [IsStrictOrderedRing K] in
/-- `|a2 + t·d2 - (a1 + s·d1)|² = Q(s,t) + |r|²` -/
private theorem distSq_eq_Qf (a1 a2 d1 d2 : V3 K) (s t : K) :
    (a2.x + d2.x * t - (a1.x + d1.x * s)) * (a2.x + d2.x * t - (a1.x + d1.x * s)) +
    (a2.y + d2.y * t - (a1.y + d1.y * s)) * (a2.y + d2.y * t - (a1.y + d1.y * s)) +
    (a2.z + d2.z * t - (a1.z + d1.z * s)) * (a2.z + d2.z * t - (a1.z + d1.z * s)) =
    Qf (dot3 d1 d1) (dot3 d1 d2) (dot3 d1 ⟨a1.x - a2.x, a1.y - a2.y, a1.z - a2.z⟩) (dot3 d2 d2)
      (dot3 d2 ⟨a1.x - a2.x, a1.y - a2.y, a1.z - a2.z⟩) s t +
      ((a1.x - a2.x) * (a1.x - a2.x) + (a1.y - a2.y) * (a1.y - a2.y) + (a1.z - a2.z) * (a1.z - a2.z)) := by
  simp only [Qf, dot3]; ring

private theorem dot_eq_dot3 (a b : V3 K) : @V3.dot K (fieldNum K sq) a b = dot3 a b := rfl

/-- **Optimality of the segment/segment parameters (3-D).** Under `SegExact3`, the parameters `(s, t)` computed by
`closest_points_segment_segment_with_locations_nD` lie in `[0,1]²` and minimise the squared distance between
`a1 + s(b1 - a1)` and `a2 + t(b2 - a2)` over the whole unit square — i.e. over all pairs of points of the segments. -/
theorem segSegParams_optimal3 (a1 b1 a2 b2 : V3 K) (hex : SegExact3 sq a1 b1 a2 b2) :
    letI := fieldNum K sq
    letI := fieldBits K
    ∀ st, st = segSegParamsGen V3.sub V3.dot a1 b1 a2 b2 →
    0 ≤ st.1 ∧ st.1 ≤ 1 ∧ 0 ≤ st.2 ∧ st.2 ≤ 1 ∧
    ∀ s' t', 0 ≤ s' → s' ≤ 1 → 0 ≤ t' → t' ≤ 1 →
      ((a2.add ((b2.sub a2).smul st.2)).sub (a1.add ((b1.sub a1).smul st.1))).normSq ≤
      ((a2.add ((b2.sub a2).smul t')).sub (a1.add ((b1.sub a1).smul s'))).normSq := by
  intro st hst
  obtain ⟨h1, h2, h3⟩ := hex
  generalize hd1 : @V3.sub K (fieldNum K sq) b1 a1 = d1 at *
  generalize hd2 : @V3.sub K (fieldNum K sq) b2 a2 = d2 at *
  have hr : @V3.sub K (fieldNum K sq) a1 a2 = ⟨a1.x - a2.x, a1.y - a2.y, a1.z - a2.z⟩ := rfl
  have hcs := cs3 d1 d2
  have key := segSegParamsGen_kkt sq (@V3.sub K (fieldNum K sq)) (@V3.dot K (fieldNum K sq)) a1 b1 a2 b2
    (dot3 d1 d1) (dot3 d2 d2) (dot3 d2 ⟨a1.x - a2.x, a1.y - a2.y, a1.z - a2.z⟩)
    (dot3 d1 ⟨a1.x - a2.x, a1.y - a2.y, a1.z - a2.z⟩) (dot3 d1 d2)
    (by rw [hd1, dot_eq_dot3]) (by rw [hd2, dot_eq_dot3]) (by rw [hd2, hr, dot_eq_dot3]) (by rw [hd1, hr, dot_eq_dot3])
    (by rw [hd1, hd2, dot_eq_dot3])
    (gram_nonneg d1) (gram_nonneg d2) (by nlinarith)
    (fun hD => gram_parallel d1 d2 _ hD)
    (fun h0 => ⟨gram_zero d1 d2 h0, gram_zero d1 _ h0⟩)
    (fun h0 => ⟨gram_zero' d2 d1 h0, gram_zero d2 _ h0⟩)
    h1 h2 h3 st hst
  obtain ⟨k1, k2, k3, k4, k5⟩ := key
  refine ⟨k1, k2, k3, k4, fun s' t' hs0 hs1 ht0 ht1 => ?_⟩
  have hv := k5 s' t' hs0 hs1 ht0 ht1
  have hq := kkt_opt _ _ _ _ _ st.1 st.2 s' t' (gram_nonneg d1) (gram_nonneg d2) (by nlinarith) hv
  have e1 := distSq_eq_Qf a1 a2 d1 d2 st.1 st.2
  have e2 := distSq_eq_Qf a1 a2 d1 d2 s' t'
  simp only [V3.sub, V3.add, V3.smul, V3.normSq, V3.dot]
  rw [e1, e2]
  linarith

private theorem neq_iff (a b : K) : @neq K (fieldNum K sq) a b = true ↔ a = b := by
  simp only [neq, Bool.and_eq_true, decide_eq_true_eq]
  exact ⟨fun ⟨h1, h2⟩ => le_antisymm h1 h2, fun h => ⟨h.le, h.ge⟩⟩

/-- `Segment::point_at` of the location built from the parameter `s` is the point `a + s(b - a)` -/
theorem pointAt3_eq (a b : V3 K) (s : K) :
    letI := fieldNum K sq
    pointAt3 a b s = a.add ((b.sub a).smul s) := by
  obtain ⟨ax, ay, az⟩ := a
  obtain ⟨bx, b_y, bz⟩ := b
  simp only [pointAt3]
  split_ifs with h0 h1
  · rw [neq_iff] at h0; subst h0
    simp only [V3.add, V3.sub, V3.smul, V3.mk.injEq]; refine ⟨?_, ?_, ?_⟩ <;> ring
  · rw [neq_iff] at h1; subst h1
    simp only [V3.add, V3.sub, V3.smul, V3.mk.injEq]; refine ⟨?_, ?_, ?_⟩ <;> ring
  · simp only [V3.add, V3.sub, V3.smul, V3.mk.injEq]; refine ⟨?_, ?_, ?_⟩ <;> ring

/-- isometries are affine: `m·(a + t(b - a)) = m·a + t(m·b - m·a)` (any quaternion) -/
theorem act_affine3 (m : Iso3 K) (a b : V3 K) (t : K) :
    letI := fieldNum K sq
    m.act (a.add ((b.sub a).smul t)) = (m.act a).add (((m.act b).sub (m.act a)).smul t) := by
  simp only [Iso3.act, Iso3.rot, Iso3.rotQ, Iso3.qv, V3.add, V3.sub, V3.smul, V3.cross, fieldNum_two, V3.mk.injEq]
  refine ⟨?_, ?_, ?_⟩ <;> ring

/-- the segment `[a, b]` as a set (`Segment3.Mem`) -/
def SegAt (a b : V3 K) (p : V3 K) : Prop :=
  ∃ t : K, 0 ≤ t ∧ t ≤ 1 ∧ p = @V3.add K (fieldNum K sq) a (@V3.smul K (fieldNum K sq) (@V3.sub K (fieldNum K sq) b a) t)

/-- **`closest_points_segment_segment` (3-D).** With segment 2 placed by `pos12` (any quaternion: isometries are affine
maps of the parameter), and the tolerance tests exact on the placed input (`SegExact3`):
* `WithinMargin(p1, p2)` ⇒ `p1 ∈ [a1,b1]`, `p2 ∈ [a2,b2]` (local), `(p1, pos12·p2)` is a closest pair of the two
  segments, and its gap is `≤ margin`;
* `Disjoint` ⇒ every pair of points of the segments is farther apart than `|margin|`;
* the function **never answers `Intersecting`** (crossing segments are reported as `WithinMargin` with coincident
  witnesses) — a documented deviation from the `Intersecting ⇔ overlap` clause of the property. -/
theorem closestPointsSegmentSegment_spec (pos12 : Iso3 K) (a1 b1 a2 b2 : V3 K) (margin : K) :
    letI := fieldNum K sq
    letI := fieldBits K
    SegExact3 sq a1 b1 (pos12.act a2) (pos12.act b2) →
    match closestPointsSegmentSegment pos12 a1 b1 a2 b2 margin with
    | .intersecting => False
    | .within p1 p2 =>
        SegAt sq a1 b1 p1 ∧ SegAt sq a2 b2 p2 ∧
        (∀ x y, SegAt sq a1 b1 x → SegAt sq a2 b2 y → ((pos12.act p2).sub p1).normSq ≤ ((pos12.act y).sub x).normSq) ∧
        ((pos12.act p2).sub p1).normSq ≤ margin * margin
    | .disjoint => ∀ x y, SegAt sq a1 b1 x → SegAt sq a2 b2 y → margin * margin < ((pos12.act y).sub x).normSq := by
  intro hex
  have hopt := segSegParams_optimal3 sq a1 b1 _ _ hex _ rfl
  generalize hR : @closestPointsSegmentSegment K (fieldNum K sq) (fieldBits K) pos12 a1 b1 a2 b2 margin = R
  dsimp only [closestPointsSegmentSegment] at hR
  generalize @segSegParamsGen K (fieldNum K sq) (fieldBits K) (V3 K) (@V3.sub K (fieldNum K sq)) (@V3.dot K (fieldNum K sq)) a1 b1
    (@Iso3.act K (fieldNum K sq) pos12 a2) (@Iso3.act K (fieldNum K sq) pos12 b2) = st at *
  obtain ⟨s, t⟩ := st
  obtain ⟨hs0, hs1, ht0, ht1, hmin⟩ := hopt
  simp only at hs0 hs1 ht0 ht1 hmin hR
  rw [pointAt3_eq, pointAt3_eq, act_affine3] at hR
  have hall : ∀ x y, SegAt sq a1 b1 x → SegAt sq a2 b2 y →
      @V3.normSq K (fieldNum K sq) (@V3.sub K (fieldNum K sq)
        (@V3.add K (fieldNum K sq) (@Iso3.act K (fieldNum K sq) pos12 a2) (@V3.smul K (fieldNum K sq) (@V3.sub K (fieldNum K sq) (@Iso3.act K (fieldNum K sq) pos12 b2) (@Iso3.act K (fieldNum K sq) pos12 a2)) t))
        (@V3.add K (fieldNum K sq) a1 (@V3.smul K (fieldNum K sq) (@V3.sub K (fieldNum K sq) b1 a1) s))) ≤
      @V3.normSq K (fieldNum K sq) (@V3.sub K (fieldNum K sq) (@Iso3.act K (fieldNum K sq) pos12 y) x) := by
    rintro x y ⟨s', hs'0, hs'1, rfl⟩ ⟨t', ht'0, ht'1, rfl⟩
    rw [act_affine3]
    exact hmin s' t' hs'0 hs'1 ht'0 ht'1
  split_ifs at hR with hm <;> subst hR <;> simp only
  · refine ⟨⟨s, hs0, hs1, rfl⟩, ⟨t, ht0, ht1, rfl⟩, ?_, ?_⟩
    · intro x y hx hy
      rw [act_affine3]
      exact hall x y hx hy
    · rw [act_affine3]; exact hm
  · intro x y hx hy
    exact lt_of_lt_of_le (not_le.1 hm) (hall x y hx hy)

/-- non-vacuity of `SegExact3`: the skew unit segments `[(0,0,0),(1,0,0)]` and `[(0,1,0),(0,1,1)]` over `ℚ` pass all
three tolerance tests exactly (lengths `1 > ε`, `denom = 1 > ε`, `ulps_eq!(1, 0)` false). -/
example : SegExact3 (fun x : ℚ => x) ⟨0, 0, 0⟩ ⟨1, 0, 0⟩ ⟨0, 1, 0⟩ ⟨0, 1, 1⟩ := by
  simp only [SegExact3, V3.sub, V3.dot, Dist.eps, fieldNum_lit, ulpsEq]
  norm_num

/-- **`closest_points_line_line_parameters_eps`**: when the function does not flag the lines as parallel and both
directions are longer than `eps ≥ 0`, the returned parameters make the connecting vector orthogonal to both
directions (`C + A·s - B·t = 0`, `F + B·s - E·t = 0` with `A = |d1|²`, `B = d1·d2`, `C = d1·r`, `E = |d2|²`, `F = d2·r`),
which by `kkt_opt` is optimal over **all** real parameters. Any dimension. -/
theorem lineLineParamsGen_stationary {V : Type} (sub : V → V → V) (dot : V → V → K) (o1 d1 o2 d2 : V) (ε A E F C B : K)
    (eA : dot d1 d1 = A) (eE : dot d2 d2 = E) (eF : dot d2 (sub o1 o2) = F) (eC : dot d1 (sub o1 o2) = C)
    (eB : dot d1 d2 = B) (hε : 0 ≤ ε) (hA : ε < A) (hE : ε < E) :
    letI := fieldNum K sq
    letI := fieldBits K
    ∀ r, r = lineLineParamsGen sub dot o1 d1 o2 d2 ε → r.2.2 = false →
      C + A * r.1 - B * r.2.1 = 0 ∧ F + B * r.1 - E * r.2.1 = 0 := by
  intro r hr hpar
  dsimp only [lineLineParamsGen] at hr
  rw [eA, eE, eF, eC, eB] at hr
  have hEpos : 0 < E := lt_of_le_of_lt hε hE
  have hEne : E ≠ 0 := ne_of_gt hEpos
  rw [if_neg (fun h => absurd h.1 (not_le.2 hA)), if_neg (not_le.2 hA), if_neg (not_le.2 hE)] at hr
  subst hr
  simp only [Bool.or_eq_false_iff, decide_eq_false_iff_not, not_le] at hpar
  have hD : A * E - B * B ≠ 0 := ne_of_gt (lt_of_le_of_lt hε hpar.1)
  simp only [hpar.1.not_ge, hpar.2, decide_false, Bool.or_self, Bool.not_false, if_true]
  have hs : (B * F - C * E) / (A * E - B * B) * (A * E - B * B) = B * F - C * E := div_mul_cancel₀ _ hD
  have ht : (B * ((B * F - C * E) / (A * E - B * B)) + F) / E * E = B * ((B * F - C * E) / (A * E - B * B)) + F :=
    div_mul_cancel₀ _ hEne
  generalize (B * F - C * E) / (A * E - B * B) = s at *
  generalize (B * s + F) / E = t at *
  constructor
  · have : E * (C + A * s - B * t) = 0 := by linear_combination hs - B * ht
    rcases mul_eq_zero.1 this with h | h
    · exact absurd h hEne
    · exact h
  · linear_combination (-1 : K) * ht

/-! ## 6. two-dimensional counterparts -/

/-- the solid rectangle `[-he, he]` (the set of `Cuboid2.Mem`) -/
def CubAt2 (he : V2 K) (p : V2 K) : Prop := (-he.x ≤ p.x ∧ p.x ≤ he.x) ∧ (-he.y ≤ p.y ∧ p.y ≤ he.y)

private theorem cuboid_local_support_max2 (he d y : V2 K) (hhe : 0 ≤ he.x ∧ 0 ≤ he.y) (hy : CubAt2 he y) :
    letI := fieldBits K
    d.x * y.x + d.y * y.y ≤ d.x * (Dist.cuboidLocalSupport2 he d).x + d.y * (Dist.cuboidLocalSupport2 he d).y := by
  obtain ⟨hx, hy'⟩ := hhe
  obtain ⟨⟨a1, a2⟩, b1, b2⟩ := hy
  have k1 := cs_axis he.x d.x y.x hx a1 a2
  have k2 := cs_axis he.y d.y y.y hy' b1 b2
  simp only [Dist.cuboidLocalSupport2, copysign]
  linarith

def SatInv2 (he1 he2 : V2 K) (pos12 : Iso2 K) (best : K × V2 K) : Prop :=
  0 < best.1 → ∀ x y, CubAt2 he1 x → CubAt2 he2 y →
    best.1 * best.1 ≤ @V2.normSq K (fieldNum K sq) (@V2.sub K (fieldNum K sq) (@Iso2.act K (fieldNum K sq) pos12 y) x)

private theorem sep_dir2 (a w x : V2 K) (s : K) (hs : 0 < s) (ha : a.x * a.x + a.y * a.y ≤ 1)
    (h : s ≤ a.x * (w.x - x.x) + a.y * (w.y - x.y)) :
    s * s ≤ (w.x - x.x) * (w.x - x.x) + (w.y - x.y) * (w.y - x.y) := by
  have hcs := cs2 a ⟨w.x - x.x, w.y - x.y⟩
  simp only [dot2] at hcs
  have h2 : s ^ 2 ≤ (a.x * (w.x - x.x) + a.y * (w.y - x.y)) ^ 2 := pow_le_pow_left₀ hs.le h 2
  have e0 : 0 ≤ (w.x - x.x) * (w.x - x.x) + (w.y - x.y) * (w.y - x.y) := by
    nlinarith [mul_self_nonneg (w.x - x.x), mul_self_nonneg (w.y - x.y)]
  nlinarith [mul_le_mul_of_nonneg_right ha e0]

theorem satOnewayStep2_inv (he1 he2 : V2 K) (pos12 : Iso2 K) (best : K × V2 K) (i : Nat)
    (h2 : 0 ≤ he2.x ∧ 0 ≤ he2.y) :
    letI := fieldNum K sq
    letI := fieldBits K
    SatInv2 sq he1 he2 pos12 best → SatInv2 sq he1 he2 pos12 (satOnewayStep2 he1 he2 pos12 best i) := by
  intro hinv
  dsimp only [satOnewayStep2]
  split_ifs with hlt
  · intro hpos x y hx hy
    simp only at hpos ⊢
    have hmax := cuboid_local_support_max2 he2
      (@Iso2.invRot K (fieldNum K sq) pos12 (@V2.neg K (fieldNum K sq) (@ith2 K (fieldNum K sq) i (@copysign K (fieldBits K) 1 (@V2.get K pos12.t i))))) y h2 hy
    have adj1 := rot_adj2 sq pos12 y (@V2.neg K (fieldNum K sq) (@ith2 K (fieldNum K sq) i (@copysign K (fieldBits K) 1 (@V2.get K pos12.t i))))
    have adj2 := rot_adj2 sq pos12 (@Dist.cuboidLocalSupport2 K (fieldBits K) he2
      (@Iso2.invRot K (fieldNum K sq) pos12 (@V2.neg K (fieldNum K sq) (@ith2 K (fieldNum K sq) i (@copysign K (fieldBits K) 1 (@V2.get K pos12.t i))))))
      (@V2.neg K (fieldNum K sq) (@ith2 K (fieldNum K sq) i (@copysign K (fieldBits K) 1 (@V2.get K pos12.t i))))
    obtain ⟨⟨a1, a2⟩, b1, b2⟩ := hx
    have hsg := sign_cases (@V2.get K pos12.t i)
    simp only [copysign] at hmax adj1 adj2 hpos ⊢
    generalize (if @V2.get K pos12.t i < 0 then -|(1:K)| else |(1:K)|) = sg at *
    generalize @Iso2.invRot K (fieldNum K sq) pos12 (@V2.neg K (fieldNum K sq) (@ith2 K (fieldNum K sq) i sg)) = d' at *
    generalize @Dist.cuboidLocalSupport2 K (fieldBits K) he2 d' = ls at *
    simp only [Iso2.act, V2.add, V2.sub, V2.dot, V2.normSq, V2.neg] at adj1 adj2 hpos ⊢
    generalize @Iso2.rot K (fieldNum K sq) pos12 y = ry at *
    generalize @Iso2.rot K (fieldNum K sq) pos12 ls = rl at *
    by_cases i0 : i = 0
    · subst i0
      simp only [ith2, V2.set, V2.zero, V2.get, if_true] at adj1 adj2 hpos ⊢
      apply sep_dir2 ⟨sg, 0⟩ ⟨ry.x + pos12.t.x, ry.y + pos12.t.y⟩ x _ hpos
      · rcases hsg with h | h <;> rw [h] <;> norm_num
      · simp only []
        rcases hsg with h | h <;> rw [h] at adj1 adj2 ⊢ <;> nlinarith
    · simp only [ith2, V2.set, V2.zero, V2.get, if_neg i0] at adj1 adj2 hpos ⊢
      apply sep_dir2 ⟨0, sg⟩ ⟨ry.x + pos12.t.x, ry.y + pos12.t.y⟩ x _ hpos
      · rcases hsg with h | h <;> rw [h] <;> norm_num
      · simp only []
        rcases hsg with h | h <;> rw [h] at adj1 adj2 ⊢ <;> nlinarith
  · exact hinv

/-- **SAT lower bound, 2-D rectangles.** A positive value of `cuboid_cuboid_find_local_separating_normal_oneway`
is a lower bound of the distance between any point of rectangle 1 and any point `pos12·y` of rectangle 2. -/
theorem satCuboidCuboidOneway2_lower (he1 he2 : V2 K) (pos12 : Iso2 K) (h2 : 0 ≤ he2.x ∧ 0 ≤ he2.y) :
    letI := fieldNum K sq
    letI := fieldBits K
    0 < (satCuboidCuboidOneway2 he1 he2 pos12).1 →
    ∀ x y, CubAt2 he1 x → CubAt2 he2 y →
      (satCuboidCuboidOneway2 he1 he2 pos12).1 * (satCuboidCuboidOneway2 he1 he2 pos12).1 ≤ ((pos12.act y).sub x).normSq := by
  have h0 : SatInv2 sq he1 he2 pos12 (-(@realMax K (fieldNum K sq)), @V2.zero K (fieldNum K sq)) := by
    intro hpos
    have := realMax_nonneg (K := K) sq
    simp only at hpos
    linarith
  have s0 := satOnewayStep2_inv sq he1 he2 pos12 _ 0 h2 h0
  have s1 := satOnewayStep2_inv sq he1 he2 pos12 _ 1 h2 s0
  exact s1

/-- the disc of radius `r` centred at `c` -/
def DiscAt (r : K) (c : V2 K) (p : V2 K) : Prop := (p.x - c.x) * (p.x - c.x) + (p.y - c.y) * (p.y - c.y) ≤ r * r

/-- **2-D `distance_ball_ball` is non-negative and a lower bound of all pair distances.** -/
theorem distanceBallBall2_lower (hs : LawfulSqrt sq) (r1 r2 : K) (c : V2 K) (hr1 : 0 ≤ r1) (hr2 : 0 ≤ r2) :
    letI := fieldNum K sq
    0 ≤ distanceBallBall2 r1 r2 c ∧
    ∀ a b, DiscAt r1 ⟨0, 0⟩ a → DiscAt r2 c b →
      distanceBallBall2 r1 r2 c * distanceBallBall2 r1 r2 c ≤ (b.sub a).normSq := by
  generalize hD : @distanceBallBall2 K (fieldNum K sq) r1 r2 c = D
  dsimp only [distanceBallBall2] at hD
  simp only [V2.normSq, V2.dot, V2.sub, DiscAt]
  have hd0 : 0 ≤ c.x * c.x + c.y * c.y := by nlinarith [mul_self_nonneg c.x, mul_self_nonneg c.y]
  split_ifs at hD with hc <;> simp only [V2.normSq, V2.dot, fieldNum_sqrt] at hD hc
  · subst hD
    refine ⟨le_refl _, fun a b _ _ => ?_⟩
    nlinarith [mul_self_nonneg (b.x - a.x), mul_self_nonneg (b.y - a.y)]
  · push Not at hc
    have hS0 := hs.nonneg _ hd0
    have hSS := hs.sq_mul _ hd0
    generalize sq (c.x * c.x + c.y * c.y) = S at *
    subst hD
    have hsum : 0 ≤ r1 + r2 := add_nonneg hr1 hr2
    have hgt : r1 + r2 < S := by
      by_contra h; push Not at h
      nlinarith [mul_le_mul h h hS0 hsum]
    refine ⟨by linarith, fun a b ha hb => ?_⟩
    have hSpos : 0 < S := lt_of_le_of_lt hsum hgt
    have h1 := dot_le2 c a S r1 hS0 hr1 (by simp only [dot2]; linarith) (by simp only [dot2]; nlinarith)
    have h2 := dot_le2 c ⟨c.x - b.x, c.y - b.y⟩ S r2 hS0 hr2 (by simp only [dot2]; linarith)
      (by simp only [dot2]; nlinarith)
    have h3 := sep_along2 c ⟨b.x - a.x, b.y - a.y⟩ S (S - (r1 + r2)) hSpos
      (by simp only [dot2]; linarith) (by linarith) (by simp only [dot2] at *; nlinarith)
    simp only [dot2] at h3
    linarith

/-- 2-D version of `SegExact3` -/
def SegExact2 (a1 b1 a2 b2 : V2 K) : Prop :=
  letI := fieldNum K sq
  letI := fieldBits K
  ((b1.sub a1).dot (b1.sub a1) ≤ Dist.eps → (b1.sub a1).dot (b1.sub a1) = 0) ∧
  ((b2.sub a2).dot (b2.sub a2) ≤ Dist.eps → (b2.sub a2).dot (b2.sub a2) = 0) ∧
  (Dist.eps < (b1.sub a1).dot (b1.sub a1) → Dist.eps < (b2.sub a2).dot (b2.sub a2) →
    (Dist.eps < (b1.sub a1).dot (b1.sub a1) * (b2.sub a2).dot (b2.sub a2) - (b1.sub a1).dot (b2.sub a2) * (b1.sub a1).dot (b2.sub a2) ∧
      ulpsEq ((b1.sub a1).dot (b1.sub a1) * (b2.sub a2).dot (b2.sub a2)) ((b1.sub a1).dot (b2.sub a2) * (b1.sub a1).dot (b2.sub a2)) = false) ∨
    (b1.sub a1).dot (b1.sub a1) * (b2.sub a2).dot (b2.sub a2) - (b1.sub a1).dot (b2.sub a2) * (b1.sub a1).dot (b2.sub a2) = 0)

private theorem zero_of_sq_sum2 (x y : K) (h : x * x + y * y = 0) : x = 0 ∧ y = 0 := by
  refine ⟨?_, ?_⟩ <;> nlinarith [mul_self_nonneg x, mul_self_nonneg y]

private theorem gram_nonneg2 (d : V2 K) : 0 ≤ dot2 d d := by
  simp only [dot2]; nlinarith [mul_self_nonneg d.x, mul_self_nonneg d.y]

private theorem gram_zero2 (d r : V2 K) (h : dot2 d d = 0) : dot2 d r = 0 := by
  simp only [dot2] at h ⊢
  obtain ⟨hx, hy⟩ := zero_of_sq_sum2 _ _ h
  simp only [hx, hy]; simp

private theorem gram_zero2' (d r : V2 K) (h : dot2 d d = 0) : dot2 r d = 0 := by
  simp only [dot2] at h ⊢
  obtain ⟨hx, hy⟩ := zero_of_sq_sum2 _ _ h
  simp only [hx, hy]; simp

private theorem gram_parallel2 (d1 d2 r : V2 K) (hD : dot2 d1 d1 * dot2 d2 d2 - dot2 d1 d2 * dot2 d1 d2 = 0) :
    dot2 d1 d2 * dot2 d2 r = dot2 d1 r * dot2 d2 d2 := by
  simp only [dot2] at hD ⊢
  have hX : d1.x * d2.y - d1.y * d2.x = 0 := by
    have : (d1.x * d2.y - d1.y * d2.x) * (d1.x * d2.y - d1.y * d2.x) = 0 := by linear_combination hD
    exact mul_self_eq_zero.1 this
  linear_combination (d2.x * r.y - d2.y * r.x) * hX

omit [LinearOrder K] [IsStrictOrderedRing K] in
private theorem distSq_eq_Qf2 (a1 a2 d1 d2 : V2 K) (s t : K) :
    (a2.x + d2.x * t - (a1.x + d1.x * s)) * (a2.x + d2.x * t - (a1.x + d1.x * s)) +
    (a2.y + d2.y * t - (a1.y + d1.y * s)) * (a2.y + d2.y * t - (a1.y + d1.y * s)) =
    Qf (dot2 d1 d1) (dot2 d1 d2) (dot2 d1 ⟨a1.x - a2.x, a1.y - a2.y⟩) (dot2 d2 d2)
      (dot2 d2 ⟨a1.x - a2.x, a1.y - a2.y⟩) s t +
      ((a1.x - a2.x) * (a1.x - a2.x) + (a1.y - a2.y) * (a1.y - a2.y)) := by
  simp only [Qf, dot2]; ring

private theorem dot_eq_dot2 (a b : V2 K) : @V2.dot K (fieldNum K sq) a b = dot2 a b := rfl

/-- **Optimality of the segment/segment parameters (2-D)**, same statement as `segSegParams_optimal3`. -/
theorem segSegParams_optimal2 (a1 b1 a2 b2 : V2 K) (hex : SegExact2 sq a1 b1 a2 b2) :
    letI := fieldNum K sq
    letI := fieldBits K
    ∀ st, st = segSegParamsGen V2.sub V2.dot a1 b1 a2 b2 →
    0 ≤ st.1 ∧ st.1 ≤ 1 ∧ 0 ≤ st.2 ∧ st.2 ≤ 1 ∧
    ∀ s' t', 0 ≤ s' → s' ≤ 1 → 0 ≤ t' → t' ≤ 1 →
      ((a2.add ((b2.sub a2).smul st.2)).sub (a1.add ((b1.sub a1).smul st.1))).normSq ≤
      ((a2.add ((b2.sub a2).smul t')).sub (a1.add ((b1.sub a1).smul s'))).normSq := by
  intro st hst
  obtain ⟨h1, h2, h3⟩ := hex
  generalize hd1 : @V2.sub K (fieldNum K sq) b1 a1 = d1 at *
  generalize hd2 : @V2.sub K (fieldNum K sq) b2 a2 = d2 at *
  have hr : @V2.sub K (fieldNum K sq) a1 a2 = ⟨a1.x - a2.x, a1.y - a2.y⟩ := rfl
  have hcs := cs2 d1 d2
  have key := segSegParamsGen_kkt sq (@V2.sub K (fieldNum K sq)) (@V2.dot K (fieldNum K sq)) a1 b1 a2 b2
    (dot2 d1 d1) (dot2 d2 d2) (dot2 d2 ⟨a1.x - a2.x, a1.y - a2.y⟩)
    (dot2 d1 ⟨a1.x - a2.x, a1.y - a2.y⟩) (dot2 d1 d2)
    (by rw [hd1, dot_eq_dot2]) (by rw [hd2, dot_eq_dot2]) (by rw [hd2, hr, dot_eq_dot2]) (by rw [hd1, hr, dot_eq_dot2])
    (by rw [hd1, hd2, dot_eq_dot2])
    (gram_nonneg2 d1) (gram_nonneg2 d2) (by nlinarith)
    (fun hD => gram_parallel2 d1 d2 _ hD)
    (fun h0 => ⟨gram_zero2 d1 d2 h0, gram_zero2 d1 _ h0⟩)
    (fun h0 => ⟨gram_zero2' d2 d1 h0, gram_zero2 d2 _ h0⟩)
    h1 h2 h3 st hst
  obtain ⟨k1, k2, k3, k4, k5⟩ := key
  refine ⟨k1, k2, k3, k4, fun s' t' hs0 hs1 ht0 ht1 => ?_⟩
  have hv := k5 s' t' hs0 hs1 ht0 ht1
  have hq := kkt_opt _ _ _ _ _ st.1 st.2 s' t' (gram_nonneg2 d1) (gram_nonneg2 d2) (by nlinarith) hv
  have e1 := distSq_eq_Qf2 a1 a2 d1 d2 st.1 st.2
  have e2 := distSq_eq_Qf2 a1 a2 d1 d2 s' t'
  simp only [V2.sub, V2.add, V2.smul, V2.normSq, V2.dot]
  rw [e1, e2]
  linarith


/-! ## 8. end to end: `query::closest_points` in world space (routing + kernel + `transform_by`) -/

/-- **`query::closest_points(pos1, segment1, pos2, segment2, max_dist)`, world space, full statement.** For unit quaternions
(and the tolerance tests of the kernel exact on the relative placement, `SegExact3`): `WithinMargin(w1, w2)` ⇒ `w1`, `w2` are
images of points of the two segments under their own poses, no pair of world points of the two segments is closer, and the gap
is `≤ max_dist`; `Disjoint` ⇒ every world pair is farther than `max_dist`; `Intersecting` is never answered on this route
(known finding). Goes through the dispatcher's routing, `pos1.inv_mul(pos2)`, the kernel and `transform_by`. -/
theorem closestPointsWorld3_segment_segment (pos1 pos2 : Iso3 K) (a1 b1 a2 b2 : V3 K) (m : K) (w : CP (V3 K))
    (h1 : C03.Unit3 pos1) (h2 : C03.Unit3 pos2) :
    letI := fieldNum K sq
    letI := fieldBits K
    SegExact3 sq a1 b1 ((pos1.invMul pos2).act a2) ((pos1.invMul pos2).act b2) →
    Glue.closestPointsWorld3 pos1 (.segment a1 b1) pos2 (.segment a2 b2) m = some w →
    WorldSpec sq (SegAt sq a1 b1) (SegAt sq a2 b2) pos1 pos2 m w := by
  letI := fieldNum K sq
  letI := fieldBits K
  intro hex hw
  refine closestPointsWorld3_spec sq _ _ pos1 pos2 _ _ m w h1 h2 ?_ hw
  intro r hr
  have hspec := closestPointsSegmentSegment_spec sq (pos1.invMul pos2) a1 b1 a2 b2 m hex
  simp only [Glue.dispatchCP3, Option.some.injEq] at hr
  rw [hr] at hspec
  cases r with
  | intersecting => exact hspec.elim
  | within p1 p2 => exact hspec
  | disjoint => exact hspec


section world
open Model.Glue Model.Gjk

private theorem ballAt_act (pos12 : Iso3 K) (r : K) (y : V3 K) (h : C03.Unit3 pos12) :
    letI := fieldNum K sq
    BallAt r ⟨0, 0, 0⟩ y → BallAt r pos12.t (pos12.act y) := by
  letI := fieldNum K sq
  intro hy
  have e := IsoLemmas.rot_normSq sq pos12 y h
  simp only [BallAt, Iso3.act, V3.add, V3.normSq, V3.dot] at hy e ⊢
  have : ∀ a b : K, a + b - b = a := fun a b => by ring
  rw [this, this, this]
  linarith

private theorem ballAt_invAct (pos12 : Iso3 K) (r : K) (p : V3 K) (h : C03.Unit3 pos12) :
    letI := fieldNum K sq
    BallAt r pos12.t p → BallAt r ⟨0, 0, 0⟩ (pos12.invAct p) := by
  letI := fieldNum K sq
  intro hp
  have e := (C03.iso3_invRot_dot sq pos12 (p.sub pos12.t) (p.sub pos12.t) h).1
  simp only [BallAt, Iso3.invAct, V3.sub, V3.dot] at hp e ⊢
  simp only [sub_zero]
  linarith

/-- **`query::closest_points(pos1, ball1, pos2, ball2, max_dist)`, world space, full statement** (unit quaternions, radii and
`max_dist` `≥ 0`): the answer exists (no panic) and satisfies `WorldSpec` for the two balls `B(0,r1)`, `B(0,r2)` placed by
`pos1`, `pos2`: `Intersecting` ⇒ the placed balls share a point; `WithinMargin(w1,w2)` ⇒ the witnesses are images of points of
their balls, no world pair is closer, gap `≤ max_dist`; `Disjoint` ⇒ every world pair is farther than `max_dist`. -/
theorem closestPointsWorld3_ball_ball (hs : LawfulSqrt sq) (pos1 pos2 : Iso3 K) (r1 r2 m : K)
    (h1 : C03.Unit3 pos1) (h2 : C03.Unit3 pos2) (hr1 : 0 ≤ r1) (hr2 : 0 ≤ r2) (hm : 0 ≤ m) :
    letI := fieldNum K sq
    letI := fieldBits K
    ∃ w, Glue.closestPointsWorld3 pos1 (.ball r1) pos2 (.ball r2) m = some w ∧
      WorldSpec sq (BallAt r1 ⟨0, 0, 0⟩) (BallAt r2 ⟨0, 0, 0⟩) pos1 pos2 m w := by
  letI := fieldNum K sq
  letI := fieldBits K
  have hu : C03.Unit3 (pos1.invMul pos2) := C03.unit3_invMul sq pos1 pos2 h1 h2
  have hspec := closestPointsBallBall_spec sq hs (pos1.invMul pos2) r1 r2 m hu hr1 hr2 hm
  have hloc : ∀ r, Glue.dispatchCP3 (pos1.invMul pos2) (.ball r1) (.ball r2) m = some r →
      LocalSpec sq (BallAt r1 ⟨0, 0, 0⟩) (BallAt r2 ⟨0, 0, 0⟩) (pos1.invMul pos2) m r := by
    intro r hr
    simp only [Glue.dispatchCP3] at hr
    rw [hr] at hspec
    generalize pos1.invMul pos2 = P at hu hspec ⊢
    cases r with
    | intersecting =>
      obtain ⟨p, hp1, hp2⟩ := hspec
      refine ⟨p, P.invAct p, hp1, ballAt_invAct sq P r2 p hu hp2, ?_⟩
      unfold gapL
      rw [(C03.iso3_invAct_act sq P p hu).2]
      simp only [V3.sub, V3.normSq, V3.dot]; ring
    | within p1 p2 =>
      obtain ⟨hp1, hp2, _, hmin, hle, _⟩ := hspec
      exact ⟨hp1, hp2, fun x y hx hy => hmin x (P.act y) hx (ballAt_act sq P r2 y hu hy), hle⟩
    | disjoint =>
      intro x y hx hy
      exact hspec x (P.act y) hx (ballAt_act sq P r2 y hu hy)
  cases hc : Glue.closestPointsWorld3 pos1 (.ball r1) pos2 (.ball r2) m with
  | none =>
    exfalso
    simp only [Glue.closestPointsWorld3, Glue.dispatchCP3, Option.map_eq_none_iff] at hc
    rw [hc] at hspec
    exact hspec
  | some w => exact ⟨w, rfl, closestPointsWorld3_spec sq _ _ pos1 pos2 _ _ m w h1 h2 hloc hc⟩


/-- **the half-space kernel satisfies the local statement of the property** (`LocalSpec` form of
`closestPointsHalfspaceSupportMap_spec`): half-space `{n·p ≤ 0}`, `|n| = 1`, any local set `S2` whose support map honours the
contract in direction `-n` for the placed set, unit quaternion, `margin ≥ 0`. -/
theorem closestPointsHalfspaceSupportMap_local (S2 : V3 K → Prop) (supp : Iso3 K → V3 K → V3 K) (pos12 : Iso3 K)
    (n : V3 K) (m : K) (hn : n.x * n.x + n.y * n.y + n.z * n.z = 1) (hm : 0 ≤ m) (hq : C03.Unit3 pos12) :
    letI := fieldNum K sq
    SupportsIn (Placed3 sq pos12 S2) n.neg (supp pos12 n.neg) →
    ∃ r, closestPointsHalfspaceSupportMap supp pos12 n m = some r ∧ LocalSpec sq (HalfAt n) S2 pos12 m r := by
  letI := fieldNum K sq
  intro hsup
  have hspec := closestPointsHalfspaceSupportMap_spec sq S2 supp pos12 n m hn hm hq hsup
  have hpl : ∀ y, S2 y → Placed3 sq pos12 S2 (pos12.act y) := by
    intro y hy
    unfold Placed3
    rw [(C03.iso3_invAct_act sq pos12 y hq).1]; exact hy
  cases hc : closestPointsHalfspaceSupportMap supp pos12 n m with
  | none => rw [hc] at hspec; exact hspec.elim
  | some r =>
    rw [hc] at hspec
    refine ⟨r, rfl, ?_⟩
    cases r with
    | intersecting =>
      obtain ⟨p, hp1, hp2⟩ := hspec
      refine ⟨p, pos12.invAct p, hp1, hp2, ?_⟩
      unfold gapL
      rw [(C03.iso3_invAct_act sq pos12 p hq).2]
      simp only [V3.sub, V3.normSq, V3.dot]; ring
    | within p1 p2 =>
      obtain ⟨hp1, hp2, _, hmin, hle, _⟩ := hspec
      exact ⟨hp1, hp2, fun x y hx hy => hmin x (pos12.act y) hx (hpl y hy), hle⟩
    | disjoint =>
      intro x y hx hy
      exact hspec x (pos12.act y) hx (hpl y hy)

/-- **`query::closest_points(pos1, halfspace, pos2, g2, max_dist)`, world space, full statement**, for every modelled
support-mapped kind `g2` (cuboid, segment, triangle, capsule, cone, cylinder, rounded kinds): if `g2`'s `support_point` honours the
C10 contract in direction `-n` for the set `S2` placed by `pos12 = pos1.inv_mul(pos2)`, the entry point answers (no panic) and its
answer satisfies `WorldSpec` for the half-space and `S2`. -/
theorem closestPointsWorld3_halfspace_sm (S2 : V3 K → Prop) (pos1 pos2 : Iso3 K) (n : V3 K) (g2 : DSh3 K) (m : K)
    (h1 : C03.Unit3 pos1) (h2 : C03.Unit3 pos2) (hn : n.x * n.x + n.y * n.y + n.z * n.z = 1) (hm : 0 ≤ m)
    (hb : g2.isBall = false) (hh : g2.isHalfspace = false) :
    letI := fieldNum K sq
    letI := fieldBits K
    SupportsIn (Placed3 sq (pos1.invMul pos2) S2) n.neg (g2.posed (pos1.invMul pos2) n.neg) →
    ∃ w, Glue.closestPointsWorld3 pos1 (.halfspace n) pos2 g2 m = some w ∧ WorldSpec sq (HalfAt n) S2 pos1 pos2 m w := by
  letI := fieldNum K sq
  letI := fieldBits K
  intro hsup
  have hu : C03.Unit3 (pos1.invMul pos2) := C03.unit3_invMul sq pos1 pos2 h1 h2
  obtain ⟨r, hr, hloc⟩ := closestPointsHalfspaceSupportMap_local sq S2 g2.posed (pos1.invMul pos2) n m hn hm hu hsup
  have hd : Glue.dispatchCP3 (pos1.invMul pos2) (.halfspace n) g2 m = some r := by
    rw [← hr]
    cases g2 <;> first | rfl | (simp [DSh3.isBall, DSh3.isHalfspace] at hb hh)
  refine ⟨transformBy3 r pos1 pos2, ?_, transformBy3_spec sq _ _ pos1 pos2 m r h1 h2 hloc⟩
  simp only [Glue.closestPointsWorld3, hd, Option.map_some]

/-- **`query::closest_points(pos1, g1, pos2, halfspace, max_dist)`** (mirrored route `closest_points_support_map_halfspace`:
inverse pose, swapped roles, `.flipped()`, then `transform_by`): same statement with the roles exchanged. The support contract is
needed for the placement by `pos12⁻¹`. -/
theorem closestPointsWorld3_sm_halfspace (S1 : V3 K → Prop) (pos1 pos2 : Iso3 K) (n : V3 K) (g1 : DSh3 K) (m : K)
    (h1 : C03.Unit3 pos1) (h2 : C03.Unit3 pos2) (hn : n.x * n.x + n.y * n.y + n.z * n.z = 1) (hm : 0 ≤ m)
    (hb : g1.isBall = false) (hh : g1.isHalfspace = false) :
    letI := fieldNum K sq
    letI := fieldBits K
    SupportsIn (Placed3 sq (pos1.invMul pos2).inverse S1) n.neg (g1.posed (pos1.invMul pos2).inverse n.neg) →
    ∃ w, Glue.closestPointsWorld3 pos1 g1 pos2 (.halfspace n) m = some w ∧ WorldSpec sq S1 (HalfAt n) pos1 pos2 m w := by
  letI := fieldNum K sq
  letI := fieldBits K
  intro hsup
  have hu : C03.Unit3 (pos1.invMul pos2) := C03.unit3_invMul sq pos1 pos2 h1 h2
  have hui : C03.Unit3 (pos1.invMul pos2).inverse := C03.unit3_inverse sq _ hu
  obtain ⟨r, hr, hloc⟩ := closestPointsHalfspaceSupportMap_local sq S1 g1.posed (pos1.invMul pos2).inverse n m hn hm hui hsup
  have hd : Glue.dispatchCP3 (pos1.invMul pos2) g1 (.halfspace n) m = some (flipped r) := by
    have : Glue.closestPointsSmHalfspace3 g1.posed (pos1.invMul pos2) n m = some (flipped r) := by
      simp only [Glue.closestPointsSmHalfspace3, hr, Option.map_some]
    rw [← this]
    cases g1 <;> first | rfl | (simp [DSh3.isBall, DSh3.isHalfspace] at hb hh)
  refine ⟨transformBy3 (flipped r) pos1 pos2, ?_,
    transformBy3_spec sq _ _ pos1 pos2 m _ h1 h2 (flipped_spec sq S1 (HalfAt n) (pos1.invMul pos2) m r hu hloc)⟩
  simp only [Glue.closestPointsWorld3, hd, Option.map_some]


/-- **`query::distance(pos1, ball1, pos2, ball2)`, world space, full statement** (unit quaternions, radii `≥ 0`): the value is
`≥ 0`, a lower bound of the distance between any point of the first placed ball and any point of the second, and attained. -/
theorem distanceWorld3_ball_ball (hs : LawfulSqrt sq) (pos1 pos2 : Iso3 K) (r1 r2 : K)
    (h1 : C03.Unit3 pos1) (h2 : C03.Unit3 pos2) (hr1 : 0 ≤ r1) (hr2 : 0 ≤ r2) :
    letI := fieldNum K sq
    letI := fieldBits K
    ∃ D, Glue.distanceWorld3 pos1 (.ball r1) pos2 (.ball r2) = some D ∧ 0 ≤ D ∧
      (∀ x y, BallAt r1 ⟨0, 0, 0⟩ x → BallAt r2 ⟨0, 0, 0⟩ y → D * D ≤ gapW sq pos1 pos2 x y) ∧
      (∃ x y, BallAt r1 ⟨0, 0, 0⟩ x ∧ BallAt r2 ⟨0, 0, 0⟩ y ∧ gapW sq pos1 pos2 x y = D * D) := by
  letI := fieldNum K sq
  letI := fieldBits K
  have hu : C03.Unit3 (pos1.invMul pos2) := C03.unit3_invMul sq pos1 pos2 h1 h2
  obtain ⟨h0, hlow, a, b, ha, hb, hab⟩ := distanceBallBall_spec sq hs r1 r2 (pos1.invMul pos2).t hr1 hr2
  refine ⟨_, rfl, h0, ?_, ?_⟩
  · intro x y hx hy
    rw [gapW_eq_gapL sq pos1 pos2 x y h1 h2]
    exact hlow x _ hx (ballAt_act sq _ r2 y hu hy)
  · refine ⟨a, (pos1.invMul pos2).invAct b, ha, ballAt_invAct sq _ r2 b hu hb, ?_⟩
    rw [gapW_eq_gapL sq pos1 pos2 _ _ h1 h2]
    unfold gapL
    rw [(C03.iso3_invAct_act sq _ b hu).2]
    exact hab

/-- **`distance_segment_segment` is the true minimum distance** (kernel level, shape 2 placed by `pos12`; tolerance tests exact,
`SegExact3`): the value `D` is `≥ 0`; either it is attained by a pair of points of the two segments and no pair is closer
(`D² = gap(p1,p2) ≤ gap(x,y)`), or every pair is farther apart than `f64::MAX` (then the function answers `0`; outside the
domain of the property). -/
theorem distanceSegmentSegment3_spec (hs : LawfulSqrt sq) (pos12 : Iso3 K) (a1 b1 a2 b2 : V3 K) :
    letI := fieldNum K sq
    letI := fieldBits K
    SegExact3 sq a1 b1 (pos12.act a2) (pos12.act b2) →
    0 ≤ Glue.distanceSegmentSegment3 pos12 a1 b1 a2 b2 ∧
    ((∃ p1 p2, SegAt sq a1 b1 p1 ∧ SegAt sq a2 b2 p2 ∧
        Glue.distanceSegmentSegment3 pos12 a1 b1 a2 b2 * Glue.distanceSegmentSegment3 pos12 a1 b1 a2 b2 = gapL sq pos12 p1 p2 ∧
        ∀ x y, SegAt sq a1 b1 x → SegAt sq a2 b2 y → gapL sq pos12 p1 p2 ≤ gapL sq pos12 x y) ∨
     (Glue.distanceSegmentSegment3 pos12 a1 b1 a2 b2 = 0 ∧
        ∀ x y, SegAt sq a1 b1 x → SegAt sq a2 b2 y → (realMax : K) * realMax < gapL sq pos12 x y)) := by
  letI := fieldNum K sq
  letI := fieldBits K
  intro hex
  have hspec := closestPointsSegmentSegment_spec sq pos12 a1 b1 a2 b2 realMax hex
  unfold Glue.distanceSegmentSegment3
  cases hc : closestPointsSegmentSegment pos12 a1 b1 a2 b2 realMax with
  | intersecting => rw [hc] at hspec; exact hspec.elim
  | disjoint =>
    rw [hc] at hspec
    exact ⟨le_refl _, Or.inr ⟨rfl, hspec⟩⟩
  | within p1 p2 =>
    rw [hc] at hspec
    obtain ⟨hp1, hp2, hmin, _⟩ := hspec
    have hnn : 0 ≤ ((pos12.act p2).sub p1).normSq := by
      simp only [V3.normSq, V3.dot]; nlinarith [mul_self_nonneg ((pos12.act p2).sub p1).x, mul_self_nonneg ((pos12.act p2).sub p1).y, mul_self_nonneg ((pos12.act p2).sub p1).z]
    simp only [V3.norm, fieldNum_sqrt]
    exact ⟨hs.nonneg _ hnn, Or.inl ⟨p1, p2, hp1, hp2, hs.sq_mul _ hnn, hmin⟩⟩

/-- **`query::distance(pos1, segment1, pos2, segment2)`, world space**: routing + `inv_mul` + kernel. For unit quaternions and
exact tolerance tests the value is `≥ 0`, attained by a pair of world points of the two placed segments, and no world pair is
closer (or every pair is farther apart than `f64::MAX`). -/
theorem distanceWorld3_segment_segment (hs : LawfulSqrt sq) (pos1 pos2 : Iso3 K) (a1 b1 a2 b2 : V3 K)
    (h1 : C03.Unit3 pos1) (h2 : C03.Unit3 pos2) :
    letI := fieldNum K sq
    letI := fieldBits K
    SegExact3 sq a1 b1 ((pos1.invMul pos2).act a2) ((pos1.invMul pos2).act b2) →
    ∃ D, Glue.distanceWorld3 pos1 (.segment a1 b1) pos2 (.segment a2 b2) = some D ∧ 0 ≤ D ∧
      ((∃ p1 p2, SegAt sq a1 b1 p1 ∧ SegAt sq a2 b2 p2 ∧ D * D = gapW sq pos1 pos2 p1 p2 ∧
          ∀ x y, SegAt sq a1 b1 x → SegAt sq a2 b2 y → gapW sq pos1 pos2 p1 p2 ≤ gapW sq pos1 pos2 x y) ∨
       (D = 0 ∧ ∀ x y, SegAt sq a1 b1 x → SegAt sq a2 b2 y → (realMax : K) * realMax < gapW sq pos1 pos2 x y)) := by
  letI := fieldNum K sq
  letI := fieldBits K
  intro hex
  obtain ⟨h0, h⟩ := distanceSegmentSegment3_spec sq hs (pos1.invMul pos2) a1 b1 a2 b2 hex
  refine ⟨_, rfl, h0, ?_⟩
  rcases h with ⟨p1, p2, hp1, hp2, e, hmin⟩ | ⟨e, hfar⟩
  · left
    refine ⟨p1, p2, hp1, hp2, ?_, ?_⟩
    · rw [gapW_eq_gapL sq pos1 pos2 p1 p2 h1 h2]; exact e
    · intro x y hx hy
      rw [gapW_eq_gapL sq pos1 pos2 p1 p2 h1 h2, gapW_eq_gapL sq pos1 pos2 x y h1 h2]; exact hmin x y hx hy
  · right
    refine ⟨e, fun x y hx hy => ?_⟩
    rw [gapW_eq_gapL sq pos1 pos2 x y h1 h2]; exact hfar x y hx hy

/-- **`query::closest_points` through the GJK route answers `Disjoint` only when the placed shapes are farther apart than
`max_dist`** (world space; routing + `inv_mul` + `closest_points_support_map_support_map` + `transform_by`). `hroute` says the
dispatcher takes the support-map route for this pair of kinds (true by `rfl` for every pair of non-ball, non-half-space kinds
that are not both segments, see the example below); the support contract is the C10 one for the obstacle `A ⊖ pos12·B`.
The alternative is GJK's non-convergence fallback (`niter == 100`). -/
theorem closestPointsWorld3_gjk_disjoint_sound (hs : LawfulSqrt sq) (A B : V3 K → Prop) (pos1 pos2 : Iso3 K) (g1 g2 : DSh3 K) (m : K)
    (h1 : C03.Unit3 pos1) (h2 : C03.Unit3 pos2) (hm : 0 ≤ m) :
    letI := fieldNum K sq
    letI := fieldBits K
    Glue.dispatchCP3 (pos1.invMul pos2) g1 g2 m =
      Glue.closestPointsSmSm3 (fromShapes3 g1.loc (g2.posed (pos1.invMul pos2))) (pos1.invMul pos2) m →
    SupportsCSO3 (Obstacle3 sq A B (pos1.invMul pos2)) (fromShapes3 g1.loc (g2.posed (pos1.invMul pos2))) →
    Glue.closestPointsWorld3 pos1 g1 pos2 g2 m = some .disjoint →
    WorldSpec sq A B pos1 pos2 m .disjoint ∨
      (gjkClosestPoints3 (fromShapes3 g1.loc (g2.posed (pos1.invMul pos2))) (some m) true
        (gjkStart3 (fromShapes3 g1.loc (g2.posed (pos1.invMul pos2))) (pos1.invMul pos2).t none Vs3.new)).1 = .noIntersection ⟨1, 0, 0⟩ := by
  letI := fieldNum K sq
  letI := fieldBits K
  intro hroute hsup hw
  unfold Glue.closestPointsWorld3 at hw
  rw [hroute] at hw
  cases hc : Glue.closestPointsSmSm3 (fromShapes3 g1.loc (g2.posed (pos1.invMul pos2))) (pos1.invMul pos2) m with
  | none => rw [hc] at hw; simp at hw
  | some r =>
    rw [hc] at hw
    simp only [Option.map_some, Option.some.injEq] at hw
    cases r with
    | intersecting => simp [Glue.transformBy3] at hw
    | within p1 p2 => simp [Glue.transformBy3] at hw
    | disjoint =>
      rcases closestPointsSmSm3_disjoint_sound sq hs A B _ (pos1.invMul pos2) m hm hsup hc with h | h
      · exact Or.inl (transformBy3_spec sq A B pos1 pos2 m .disjoint h1 h2 h)
      · exact Or.inr h

/-- the routing hypothesis of `closestPointsWorld3_gjk_disjoint_sound` holds by computation, e.g. cuboid × triangle, capsule × rounded
cuboid, segment × cone -/
example (P : Iso3 ℚ) (m : ℚ) (he a b c : V3 ℚ) (r : ℚ) :
    letI := fieldNum ℚ (fun x => x)
    letI := fieldBits ℚ
    (Glue.dispatchCP3 P (.cuboid he) (.triangle a b c) m =
      Glue.closestPointsSmSm3 (fromShapes3 (DSh3.cuboid he).loc ((DSh3.triangle a b c).posed P)) P m) ∧
    (Glue.dispatchCP3 P (.capsule a b r) (.round (.cuboid he) r) m =
      Glue.closestPointsSmSm3 (fromShapes3 (DSh3.capsule a b r).loc ((DSh3.round (.cuboid he) r).posed P)) P m) ∧
    (Glue.dispatchCP3 P (.segment a b) (.cone r r) m =
      Glue.closestPointsSmSm3 (fromShapes3 (DSh3.segment a b).loc ((DSh3.cone r r).posed P)) P m) := ⟨rfl, rfl, rfl⟩

private theorem c10_copysign_eq (mag sgn : K) :
    letI := fieldNum K sq
    letI := fieldBits K
    C10.copysign mag sgn = Dist.copysign mag sgn := by
  letI := fieldNum K sq
  letI := fieldBits K
  simp only [C10.copysign, copysign, fieldNum_nabs, one_div, inv_lt_zero, or_self]

/-- the dispatcher model's cuboid support map is the support map of the half-space theorems -/
private theorem dsh_cuboid_posed (he : V3 K) (P : Iso3 K) (d : V3 K) :
    letI := fieldNum K sq
    letI := fieldBits K
    (DSh3.cuboid he).posed P d = Dist.cuboidSupport he P d := by
  letI := fieldNum K sq
  letI := fieldBits K
  simp only [DSh3.posed, DSh3.loc, C10.supportPoint3, C10.cuboidLocal3, Dist.cuboidSupport, Dist.cuboidLocalSupport, c10_copysign_eq sq]

/-- **`query::closest_points(pos1, halfspace, pos2, cuboid, max_dist)` and `(pos1, cuboid, pos2, halfspace, max_dist)`, world
space, no abstract hypothesis**: unit quaternions, unit normal, half-extents and `max_dist` `≥ 0`. Both orders answer (no panic)
and the answer satisfies `WorldSpec` for the half-space `{n·p ≤ 0}` and the box `[-he, he]` placed by their poses
(dispatcher routing, `inv_mul`, kernel, `Cuboid::support_point` = `copy_sign_to`, for the second order also `pos12.inverse()`
and `.flipped()`, then `transform_by`). -/
theorem closestPointsWorld3_halfspace_cuboid (pos1 pos2 : Iso3 K) (n he : V3 K) (m : K)
    (h1 : C03.Unit3 pos1) (h2 : C03.Unit3 pos2) (hn : n.x * n.x + n.y * n.y + n.z * n.z = 1) (hm : 0 ≤ m)
    (hhe : 0 ≤ he.x ∧ 0 ≤ he.y ∧ 0 ≤ he.z) :
    letI := fieldNum K sq
    letI := fieldBits K
    (∃ w, Glue.closestPointsWorld3 pos1 (.halfspace n) pos2 (.cuboid he) m = some w ∧
      WorldSpec sq (HalfAt n) (CubAt he) pos1 pos2 m w) ∧
    (∃ w, Glue.closestPointsWorld3 pos1 (.cuboid he) pos2 (.halfspace n) m = some w ∧
      WorldSpec sq (CubAt he) (HalfAt n) pos1 pos2 m w) := by
  letI := fieldNum K sq
  letI := fieldBits K
  have hu : C03.Unit3 (pos1.invMul pos2) := C03.unit3_invMul sq pos1 pos2 h1 h2
  have hui : C03.Unit3 (pos1.invMul pos2).inverse := C03.unit3_inverse sq _ hu
  constructor
  · refine closestPointsWorld3_halfspace_sm sq (CubAt he) pos1 pos2 n (.cuboid he) m h1 h2 hn hm rfl rfl ?_
    rw [dsh_cuboid_posed]
    exact cuboidSupport_supports sq he _ _ hhe hu
  · refine closestPointsWorld3_sm_halfspace sq (CubAt he) pos1 pos2 n (.cuboid he) m h1 h2 hn hm rfl rfl ?_
    rw [dsh_cuboid_posed]
    exact cuboidSupport_supports sq he _ _ hhe hui

end world

/-- non-vacuity of the side conditions of the world theorems: two unit quaternions over `ℚ` (one far from the origin), a unit
normal, a non-ball non-half-space kind -/
example : C03.Unit3 (⟨0, 0, 3/5, 4/5, ⟨1, -2, 3⟩⟩ : Iso3 ℚ) ∧ C03.Unit3 (⟨1/2, -1/2, 1/2, 1/2, ⟨0, 700, 1/3⟩⟩ : Iso3 ℚ) ∧
    ((0 : ℚ) * 0 + (3/5) * (3/5) + (-4/5) * (-4/5) = 1) ∧ (Glue.DSh3.cuboid (⟨1, 2, 3⟩ : V3 ℚ)).isBall = false ∧
    (Glue.DSh3.round (Glue.DSh3.cuboid (⟨1, 2, 3⟩ : V3 ℚ)) (1/4)).isHalfspace = false := by
  refine ⟨by unfold C03.Unit3; norm_num, by unfold C03.Unit3; norm_num, by norm_num, rfl, rfl⟩

end C01
