import ParryModel.Field
import ParryModel.C01.Model
import ParryModel.C01.Lemmas
/-!
# C01 property theorems: distance / closest points are the true minimum separation.

All statements are about the model functions of `C01/Model.lean` at the lawful instance `fieldNum K sq`
(any linearly ordered field; `LawfulSqrt sq` where a square root is taken), with the set specifications
(`Mem`) of `Shapes.lean`.  Sets are predicates `V3 K → Prop` / `V2 K → Prop`.
-/
namespace C01
open Model Model.Dist

variable {K : Type} [Field K] [LinearOrder K] [IsStrictOrderedRing K] (sq : K → K)

/-! ## 1. The convex-duality certificate -/

/-- **Duality certificate (3-D).** If `p1 ∈ A`, `p2 ∈ B` and the direction `d = p2 - p1` supports both sets
(`d·a ≤ d·p1` on `A`, `d·p2 ≤ d·b` on `B`), then no pair `(a, b) ∈ A × B` is closer than `(p1, p2)`:
`|p2 - p1|² ≤ |b - a|²`.  This is what makes the exact-`Rat` certificate oracle complete for the property. -/
theorem duality3 (A B : V3 K → Prop) (p1 p2 : V3 K) (_h1 : A p1) (_h2 : B p2) :
    letI := fieldNum K sq
    (∀ a, A a → (p2.sub p1).dot a ≤ (p2.sub p1).dot p1) →
    (∀ b, B b → (p2.sub p1).dot p2 ≤ (p2.sub p1).dot b) →
    ∀ a b, A a → B b → (p2.sub p1).normSq ≤ (b.sub a).normSq := by
  intro hA hB a b ha hb
  have h1 := hA a ha
  have h2 := hB b hb
  simp only [V3.sub, V3.dot, V3.normSq] at *
  nlinarith [sq_nonneg (b.x - a.x - (p2.x - p1.x)), sq_nonneg (b.y - a.y - (p2.y - p1.y)),
    sq_nonneg (b.z - a.z - (p2.z - p1.z))]

/-- **Duality with slack (3-D, squared form).** If the two support inequalities hold up to `σ1`, `σ2`
(in units of `d·x`), every pair satisfies `|b - a|² ≥ |p2 - p1|² - 2(σ1 + σ2)`. No membership of `p1, p2` needed. -/
theorem duality3_slack (A B : V3 K → Prop) (p1 p2 : V3 K) (σ1 σ2 : K) :
    letI := fieldNum K sq
    (∀ a, A a → (p2.sub p1).dot a ≤ (p2.sub p1).dot p1 + σ1) →
    (∀ b, B b → (p2.sub p1).dot p2 - σ2 ≤ (p2.sub p1).dot b) →
    ∀ a b, A a → B b → (p2.sub p1).normSq - 2 * (σ1 + σ2) ≤ (b.sub a).normSq := by
  intro hA hB a b ha hb
  have h1 := hA a ha
  have h2 := hB b hb
  simp only [V3.sub, V3.dot, V3.normSq] at *
  nlinarith [sq_nonneg (b.x - a.x - (p2.x - p1.x)), sq_nonneg (b.y - a.y - (p2.y - p1.y)),
    sq_nonneg (b.z - a.z - (p2.z - p1.z))]

/-- **Duality with slack (3-D, length form)** — the inequality the oracle evaluates. `L` is the gap `|p2 - p1|`
(`L² = |d|²`, `L > 0`) and `s` the total support slack *in length units*
(`d·(b - a) ≥ L·(L - s)` for all pairs, i.e. `(h_A(d) - d·p1 + h_B(-d) + d·p2)/L ≤ s`). Then every pair is at
distance at least `L - s`. -/
theorem duality3_slack_len (A B : V3 K → Prop) (p1 p2 : V3 K) (L s : K) (hL : 0 < L) (hs : s ≤ L) :
    letI := fieldNum K sq
    (p2.sub p1).normSq = L * L →
    (∀ a b, A a → B b → L * (L - s) ≤ (p2.sub p1).dot (b.sub a)) →
    ∀ a b, A a → B b → (L - s) * (L - s) ≤ (b.sub a).normSq := by
  intro hLL hsup a b ha hb
  have h := hsup a b ha hb
  have hcs := cs3 (⟨p2.x - p1.x, p2.y - p1.y, p2.z - p1.z⟩ : V3 K) ⟨b.x - a.x, b.y - a.y, b.z - a.z⟩
  simp only [V3.sub, V3.dot, V3.normSq] at *
  simp only [dot3] at hcs
  set e := (b.x - a.x) * (b.x - a.x) + (b.y - a.y) * (b.y - a.y) + (b.z - a.z) * (b.z - a.z) with he
  set t := (p2.x - p1.x) * (b.x - a.x) + (p2.y - p1.y) * (b.y - a.y) + (p2.z - p1.z) * (b.z - a.z) with ht
  rw [hLL] at hcs
  -- t ≥ L(L-s) ≥ 0, t² ≤ L² e  ⇒ L²(L-s)² ≤ L² e
  have h0 : 0 ≤ L * (L - s) := mul_nonneg hL.le (sub_nonneg.2 hs)
  have h2 : (L * (L - s)) ^ 2 ≤ t ^ 2 := pow_le_pow_left₀ h0 h 2
  have h3 : L * L * ((L - s) * (L - s)) ≤ L * L * e := by nlinarith
  exact le_of_mul_le_mul_left h3 (mul_pos hL hL)

/-- **Duality certificate (2-D).** -/
theorem duality2 (A B : V2 K → Prop) (p1 p2 : V2 K) (_h1 : A p1) (_h2 : B p2) :
    letI := fieldNum K sq
    (∀ a, A a → (p2.sub p1).dot a ≤ (p2.sub p1).dot p1) →
    (∀ b, B b → (p2.sub p1).dot p2 ≤ (p2.sub p1).dot b) →
    ∀ a b, A a → B b → (p2.sub p1).normSq ≤ (b.sub a).normSq := by
  intro hA hB a b ha hb
  have h1 := hA a ha
  have h2 := hB b hb
  simp only [V2.sub, V2.dot, V2.normSq] at *
  nlinarith [sq_nonneg (b.x - a.x - (p2.x - p1.x)), sq_nonneg (b.y - a.y - (p2.y - p1.y))]

/-- **Duality with slack (2-D, squared form).** -/
theorem duality2_slack (A B : V2 K → Prop) (p1 p2 : V2 K) (σ1 σ2 : K) :
    letI := fieldNum K sq
    (∀ a, A a → (p2.sub p1).dot a ≤ (p2.sub p1).dot p1 + σ1) →
    (∀ b, B b → (p2.sub p1).dot p2 - σ2 ≤ (p2.sub p1).dot b) →
    ∀ a b, A a → B b → (p2.sub p1).normSq - 2 * (σ1 + σ2) ≤ (b.sub a).normSq := by
  intro hA hB a b ha hb
  have h1 := hA a ha
  have h2 := hB b hb
  simp only [V2.sub, V2.dot, V2.normSq] at *
  nlinarith [sq_nonneg (b.x - a.x - (p2.x - p1.x)), sq_nonneg (b.y - a.y - (p2.y - p1.y))]

/-- **Duality with slack (2-D, length form).** -/
theorem duality2_slack_len (A B : V2 K → Prop) (p1 p2 : V2 K) (L s : K) (hL : 0 < L) (hs : s ≤ L) :
    letI := fieldNum K sq
    (p2.sub p1).normSq = L * L →
    (∀ a b, A a → B b → L * (L - s) ≤ (p2.sub p1).dot (b.sub a)) →
    ∀ a b, A a → B b → (L - s) * (L - s) ≤ (b.sub a).normSq := by
  intro hLL hsup a b ha hb
  have h := hsup a b ha hb
  have hcs := cs2 (⟨p2.x - p1.x, p2.y - p1.y⟩ : V2 K) ⟨b.x - a.x, b.y - a.y⟩
  simp only [V2.sub, V2.dot, V2.normSq] at *
  simp only [dot2] at hcs
  set e := (b.x - a.x) * (b.x - a.x) + (b.y - a.y) * (b.y - a.y) with he
  set t := (p2.x - p1.x) * (b.x - a.x) + (p2.y - p1.y) * (b.y - a.y) with ht
  rw [hLL] at hcs
  have h0 : 0 ≤ L * (L - s) := mul_nonneg hL.le (sub_nonneg.2 hs)
  have h2 : (L * (L - s)) ^ 2 ≤ t ^ 2 := pow_le_pow_left₀ h0 h 2
  have h3 : L * L * ((L - s) * (L - s)) ≤ L * L * e := by nlinarith
  exact le_of_mul_le_mul_left h3 (mul_pos hL hL)

/-- non-vacuity: the unit squares `[0,1]²` and `[3,4]×[0,1]` with witnesses `(1,0)`, `(3,0)` satisfy the hypotheses -/
example :
    letI := fieldNum ℚ id
    let A : V2 ℚ → Prop := fun p => 0 ≤ p.x ∧ p.x ≤ 1 ∧ 0 ≤ p.y ∧ p.y ≤ 1
    let B : V2 ℚ → Prop := fun p => 3 ≤ p.x ∧ p.x ≤ 4 ∧ 0 ≤ p.y ∧ p.y ≤ 1
    let p1 : V2 ℚ := ⟨1, 0⟩
    let p2 : V2 ℚ := ⟨3, 0⟩
    A p1 ∧ B p2 ∧ (∀ a, A a → (p2.sub p1).dot a ≤ (p2.sub p1).dot p1) ∧
      (∀ b, B b → (p2.sub p1).dot p2 ≤ (p2.sub p1).dot b) := by
  refine ⟨by norm_num, by norm_num, ?_, ?_⟩
  · rintro a ⟨h1, h2, h3, h4⟩; simp only [V2.sub, V2.dot]; linarith
  · rintro b ⟨h1, h2, h3, h4⟩; simp only [V2.sub, V2.dot]; linarith

end C01
