import ParryModel.Field
import ParryModel.IsoLemmas
import ParryModel.C01.ModelGlue
import ParryModel.C01.ModelGlue2
import ParryModel.C01.TheoremsGjk
import ParryModel.C03.Theorems
import ParryModel.C01.Lemmas
set_option linter.unusedVariables false
/-!
# C01 property theorems, part 3: from the kernels (frame of shape 1) to the public entry points (world space)

The kernels (`closest_points_ball_ball`, `closest_points_segment_segment`, `closest_points_halfspace_support_map`, GJK) answer in
the frame of shape 1, with witness 2 expressed in the frame of shape 2. `LocalSpec A B pos12 m r` is the statement of the property
for such an answer `r` (sets `A`, `B` given in their own local frames, shape 2 placed by `pos12`); `WorldSpec A B pos1 pos2 m r`
is the statement of the property for the answer of `query::closest_points(pos1, g1, pos2, g2, max_dist)`.
The theorems here carry `LocalSpec` through the glue: `flipped` (mirrored wrappers `*_support_map_halfspace`), `transform_by`
and `pos12 = pos1.inv_mul(pos2)` (world entry point), the `GJKResult → ClosestPoints` mapping of
`closest_points_support_map_support_map`, and the routing of the dispatcher.
-/
namespace C01
open Model Model.Dist Model.Gjk Model.Glue

variable {K : Type} [Field K] [LinearOrder K] [IsStrictOrderedRing K] (sq : K → K)

/-- squared gap of a pair `(x, y)`, `x` in frame 1 and `y` in the frame of shape 2 placed by `pos12` -/
def gapL (pos12 : Iso3 K) (x y : V3 K) : K :=
  letI := fieldNum K sq
  ((pos12.act y).sub x).normSq

/-- squared gap of a world pair -/
def gapW (pos1 pos2 : Iso3 K) (x y : V3 K) : K :=
  letI := fieldNum K sq
  ((pos2.act y).sub (pos1.act x)).normSq

/-- the property for an answer in local frames (`A`, `B`: the two shapes as sets in their own frames) -/
def LocalSpec (A B : V3 K → Prop) (pos12 : Iso3 K) (m : K) : CP (V3 K) → Prop
  | .intersecting => ∃ x y, A x ∧ B y ∧ gapL sq pos12 x y = 0
  | .within p1 p2 => A p1 ∧ B p2 ∧ (∀ x y, A x → B y → gapL sq pos12 p1 p2 ≤ gapL sq pos12 x y) ∧ gapL sq pos12 p1 p2 ≤ m * m
  | .disjoint => ∀ x y, A x → B y → m * m < gapL sq pos12 x y

/-- the property for the answer of the world-space entry point: witnesses are the images of points of the shapes, they realise
the minimum distance over all pairs of world points, within `max_dist`; `Disjoint` ⇒ every world pair is farther than `max_dist`;
`Intersecting` ⇒ the placed shapes share a point -/
def WorldSpec (A B : V3 K → Prop) (pos1 pos2 : Iso3 K) (m : K) : CP (V3 K) → Prop
  | .intersecting => ∃ x y, A x ∧ B y ∧ gapW sq pos1 pos2 x y = 0
  | .within w1 w2 =>
      letI := fieldNum K sq
      ∃ p1 p2, A p1 ∧ B p2 ∧ w1 = pos1.act p1 ∧ w2 = pos2.act p2 ∧
        (∀ x y, A x → B y → (w2.sub w1).normSq ≤ gapW sq pos1 pos2 x y) ∧ (w2.sub w1).normSq ≤ m * m
  | .disjoint => ∀ x y, A x → B y → m * m < gapW sq pos1 pos2 x y

/-- `pos1 · ((pos1⁻¹ pos2) · p) = pos2 · p` for `pos12 = pos1.inv_mul(pos2)` -/
theorem invMul_act3 (a b : Iso3 K) (p : V3 K) (ha : C03.Unit3 a) (hb : C03.Unit3 b) :
    letI := fieldNum K sq
    a.act ((a.invMul b).act p) = b.act p := by
  letI := fieldNum K sq
  rw [C03.iso3_invMul_eq_inverse_mul sq a b, (C03.iso3_mul_act sq a.inverse b p (C03.unit3_inverse sq a ha) hb).1]
  exact (C03.iso3_inverse_act sq a (b.act p) ha).2

/-- **the world gap of a pair equals its gap in the frame of shape 1** (`pos12 = pos1.inv_mul(pos2)`, unit quaternions) -/
theorem gapW_eq_gapL (pos1 pos2 : Iso3 K) (x y : V3 K) (h1 : C03.Unit3 pos1) (h2 : C03.Unit3 pos2) :
    letI := fieldNum K sq
    gapW sq pos1 pos2 x y = gapL sq (pos1.invMul pos2) x y := by
  letI := fieldNum K sq
  unfold gapW gapL
  rw [← invMul_act3 sq pos1 pos2 y h1 h2]
  exact IsoLemmas.act_dist sq pos1 _ _ h1

/-- **`ClosestPoints::flipped` is an involution** -/
theorem flipped_flipped (r : CP (V3 K)) : flipped (flipped r) = r := by
  cases r <;> rfl

/-- **`transform_by` carries the local statement to the world statement.** If the dispatcher's answer `r` for
`pos12 = pos1.inv_mul(pos2)` satisfies the property in local frames, then `r.transform_by(pos1, pos2)` — what
`query::closest_points` returns — satisfies it in world space (unit quaternions). -/
theorem transformBy3_spec (A B : V3 K → Prop) (pos1 pos2 : Iso3 K) (m : K) (r : CP (V3 K))
    (h1 : C03.Unit3 pos1) (h2 : C03.Unit3 pos2) :
    letI := fieldNum K sq
    LocalSpec sq A B (pos1.invMul pos2) m r → WorldSpec sq A B pos1 pos2 m (transformBy3 r pos1 pos2) := by
  letI := fieldNum K sq
  intro h
  cases r with
  | intersecting =>
    obtain ⟨x, y, hx, hy, e⟩ := h
    exact ⟨x, y, hx, hy, by rw [gapW_eq_gapL sq pos1 pos2 x y h1 h2]; exact e⟩
  | disjoint =>
    intro x y hx hy
    rw [gapW_eq_gapL sq pos1 pos2 x y h1 h2]; exact h x y hx hy
  | within p1 p2 =>
    obtain ⟨hp1, hp2, hmin, hm⟩ := h
    have e : ((pos2.act p2).sub (pos1.act p1)).normSq = gapL sq (pos1.invMul pos2) p1 p2 := gapW_eq_gapL sq pos1 pos2 p1 p2 h1 h2
    refine ⟨p1, p2, hp1, hp2, rfl, rfl, ?_, ?_⟩
    · intro x y hx hy
      rw [gapW_eq_gapL sq pos1 pos2 x y h1 h2, e]; exact hmin x y hx hy
    · rw [e]; exact hm

/-- the gap seen from the other frame: `|pos12⁻¹·x − y| = |x − pos12·y|` -/
theorem gapL_inverse (pos12 : Iso3 K) (x y : V3 K) (h : C03.Unit3 pos12) :
    letI := fieldNum K sq
    gapL sq pos12.inverse y x = gapL sq pos12 x y := by
  letI := fieldNum K sq
  unfold gapL
  have e := IsoLemmas.act_dist sq pos12 (pos12.inverse.act x) y h
  rw [(C03.iso3_inverse_act sq pos12 x h).2] at e
  rw [← e]
  simp only [V3.normSq, V3.dot, V3.sub]
  ring

/-- **mirrored wrappers** (`closest_points_support_map_halfspace` = kernel with `pos12.inverse()` and swapped roles, then
`.flipped()`): if the kernel's answer satisfies the property for `(B, A, pos12⁻¹)`, the flipped answer satisfies it for `(A, B, pos12)`. -/
theorem flipped_spec (A B : V3 K → Prop) (pos12 : Iso3 K) (m : K) (r : CP (V3 K)) (h : C03.Unit3 pos12) :
    letI := fieldNum K sq
    LocalSpec sq B A pos12.inverse m r → LocalSpec sq A B pos12 m (flipped r) := by
  letI := fieldNum K sq
  intro hr
  cases r with
  | intersecting =>
    obtain ⟨y, x, hy, hx, e⟩ := hr
    exact ⟨x, y, hx, hy, by rw [← gapL_inverse sq pos12 x y h]; exact e⟩
  | disjoint =>
    intro x y hx hy
    rw [← gapL_inverse sq pos12 x y h]; exact hr y x hy hx
  | within p2 p1 =>
    obtain ⟨hp2, hp1, hmin, hm⟩ := hr
    refine ⟨hp1, hp2, ?_, ?_⟩
    · intro x y hx hy
      rw [← gapL_inverse sq pos12 x y h, ← gapL_inverse sq pos12 p1 p2 h]; exact hmin y x hy hx
    · rw [← gapL_inverse sq pos12 p1 p2 h]; exact hm

/-- **`closest_points_support_map_halfspace`** is the flipped half-space kernel in the inverse pose; hence (by `flipped_spec`) it
inherits the kernel's correctness -/
theorem closestPointsSmHalfspace3_spec (A : V3 K → Prop) (H : V3 K → Prop) (supp : Iso3 K → V3 K → V3 K) (pos12 : Iso3 K)
    (n : V3 K) (m : K) (r : CP (V3 K)) (h : C03.Unit3 pos12) :
    letI := fieldNum K sq
    letI := fieldBits K
    (∀ r', closestPointsHalfspaceSupportMap supp pos12.inverse n m = some r' → LocalSpec sq H A pos12.inverse m r') →
    closestPointsSmHalfspace3 supp pos12 n m = some r → LocalSpec sq A H pos12 m r := by
  letI := fieldNum K sq
  letI := fieldBits K
  intro hk hr
  unfold closestPointsSmHalfspace3 at hr
  cases hc : closestPointsHalfspaceSupportMap supp pos12.inverse n m with
  | none => rw [hc] at hr; simp at hr
  | some r' =>
    rw [hc] at hr
    simp only [Option.map_some, Option.some.injEq] at hr
    subst hr
    exact flipped_spec sq A H pos12 m r' h (hk r' hc)

/-- **`closest_points_support_map_support_map`: the `GJKResult → ClosestPoints` mapping.** The answer is `Intersecting` /
`Disjoint` / `WithinMargin(p1, pos12⁻¹·p2)` exactly when GJK (started on a fresh simplex with `max_dist = prediction`,
`exact_dist = true`) answers `Intersection` / `NoIntersection` / `ClosestPoints(p1, p2, _)`; `Proximity` and a panic give no
answer. In the `WithinMargin` case witness 2 is GJK's second point pulled back into the frame of shape 2, so that its gap in the
frame of shape 1 is exactly `|p2 − p1|²` (unit quaternion). -/
theorem closestPointsSmSm3_cases (fs : V3 K → CSO3 K) (pos12 : Iso3 K) (m : K) (r : CP (V3 K)) (h : C03.Unit3 pos12) :
    letI := fieldNum K sq
    closestPointsSmSm3 fs pos12 m = some r →
    let g := (gjkClosestPoints3 fs (some m) true (gjkStart3 fs pos12.t none Vs3.new)).1
    (g = .intersection ∧ r = .intersecting) ∨ (∃ d, g = .noIntersection d ∧ r = .disjoint) ∨
    (∃ p1 p2 d, g = .closest p1 p2 d ∧ r = .within p1 (pos12.invAct p2) ∧ gapL sq pos12 p1 (pos12.invAct p2) = (p2.sub p1).normSq) := by
  letI := fieldNum K sq
  intro hr
  unfold closestPointsSmSm3 closestPointsSmSmWithParams3 at hr
  intro g
  have hg : g = (gjkClosestPoints3 fs (some m) true (gjkStart3 fs pos12.t none Vs3.new)).1 := rfl
  rw [← hg] at hr
  cases hgc : g with
  | intersection => rw [hgc] at hr; simp only [Option.some.injEq] at hr; exact Or.inl ⟨rfl, hr.symm⟩
  | noIntersection d => rw [hgc] at hr; simp only [Option.some.injEq] at hr; exact Or.inr (Or.inl ⟨d, rfl, hr.symm⟩)
  | proximity d => rw [hgc] at hr; simp at hr
  | panic => rw [hgc] at hr; simp at hr
  | closest p1 p2 d =>
    rw [hgc] at hr; simp only [Option.some.injEq] at hr
    refine Or.inr (Or.inr ⟨p1, p2, d, rfl, hr.symm, ?_⟩)
    unfold gapL
    rw [(C03.iso3_invAct_act sq pos12 p2 h).2]

/-- **`query::closest_points` (world form) inherits the property from the dispatcher's answer**: whatever route the
dispatcher takes, if its answer for `pos12 = pos1.inv_mul(pos2)` satisfies the property in local frames, the value returned by
`query::closest_points(pos1, g1, pos2, g2, max_dist)` satisfies it in world space. -/
theorem closestPointsWorld3_spec (A B : V3 K → Prop) (pos1 pos2 : Iso3 K) (g1 g2 : DSh3 K) (m : K) (w : CP (V3 K))
    (h1 : C03.Unit3 pos1) (h2 : C03.Unit3 pos2) :
    letI := fieldNum K sq
    letI := fieldBits K
    (∀ r, dispatchCP3 (pos1.invMul pos2) g1 g2 m = some r → LocalSpec sq A B (pos1.invMul pos2) m r) →
    closestPointsWorld3 pos1 g1 pos2 g2 m = some w → WorldSpec sq A B pos1 pos2 m w := by
  letI := fieldNum K sq
  letI := fieldBits K
  intro hd hw
  unfold closestPointsWorld3 at hw
  cases hc : dispatchCP3 (pos1.invMul pos2) g1 g2 m with
  | none => rw [hc] at hw; simp at hw
  | some r =>
    rw [hc] at hw
    simp only [Option.map_some, Option.some.injEq] at hw
    subst hw
    exact transformBy3_spec sq A B pos1 pos2 m r h1 h2 (hd r hc)


/-! ## the GJK route: `Disjoint` soundness at the entry-point level -/

/-- the obstacle `A ⊖ pos12·B` of a placed pair: all differences `x − pos12·y` -/
def Obstacle3 (A B : V3 K → Prop) (pos12 : Iso3 K) (c : V3 K) : Prop :=
  letI := fieldNum K sq
  ∃ x y, A x ∧ B y ∧ c = x.sub (pos12.act y)

/-- **`closest_points_support_map_support_map` answers `Disjoint` only when the shapes are farther apart than `prediction`**
(entry-point level; the GJK route of the dispatcher): if `CSOPoint::from_shapes` honours the support contract for the obstacle
`A ⊖ pos12·B` and `prediction ≥ 0`, a `Disjoint` answer satisfies the local statement of the property — every pair `(x, y)` has
gap `> prediction` — unless GJK left through its documented non-convergence fallback `NoIntersection(x_axis)` (`niter == 100`),
which is indistinguishable from a genuine exit with that direction. -/
theorem closestPointsSmSm3_disjoint_sound (hs : LawfulSqrt sq) (A B : V3 K → Prop) (fs : V3 K → CSO3 K) (pos12 : Iso3 K) (m : K)
    (hm : 0 ≤ m) :
    letI := fieldNum K sq
    SupportsCSO3 (Obstacle3 sq A B pos12) fs →
    closestPointsSmSm3 fs pos12 m = some .disjoint →
    LocalSpec sq A B pos12 m .disjoint ∨
      (gjkClosestPoints3 fs (some m) true (gjkStart3 fs pos12.t none Vs3.new)).1 = .noIntersection ⟨1, 0, 0⟩ := by
  letI := fieldNum K sq
  intro hsup hr
  unfold closestPointsSmSm3 closestPointsSmSmWithParams3 at hr
  generalize hg : gjkClosestPoints3 fs (some m) true (gjkStart3 fs pos12.t none Vs3.new) = g at hr ⊢
  obtain ⟨r, s'⟩ := g
  dsimp only at hr ⊢
  cases r with
  | intersection => simp at hr
  | closest p1 p2 d => simp at hr
  | proximity d => simp at hr
  | panic => simp at hr
  | noIntersection d =>
    rcases gjkClosestPoints3_cases fs (some m) true _ s' _ hg with h | h | h | ⟨s0, p0, o0, m0, hb⟩
    · cases h
    · cases h
    · exact Or.inr h
    · left
      intro x y hx hy
      have := gjkBody3_noIntersection_sound sq hs _ fs hsup m hm true s0 s' p0 o0 d m0 hb (x.sub (pos12.act y)) ⟨x, y, hx, hy, rfl⟩
      unfold gapL
      simp only [V3.sub, V3.normSq, V3.dot] at this ⊢
      linarith

/-! ### 2-D twins -/

def gapL2 (pos12 : Iso2 K) (x y : V2 K) : K :=
  letI := fieldNum K sq
  ((pos12.act y).sub x).normSq
def gapW2 (pos1 pos2 : Iso2 K) (x y : V2 K) : K :=
  letI := fieldNum K sq
  ((pos2.act y).sub (pos1.act x)).normSq

/-- the property for an answer in local frames (2-D) -/
def LocalSpec2 (A B : V2 K → Prop) (pos12 : Iso2 K) (m : K) : CP (V2 K) → Prop
  | .intersecting => ∃ x y, A x ∧ B y ∧ gapL2 sq pos12 x y = 0
  | .within p1 p2 => A p1 ∧ B p2 ∧ (∀ x y, A x → B y → gapL2 sq pos12 p1 p2 ≤ gapL2 sq pos12 x y) ∧ gapL2 sq pos12 p1 p2 ≤ m * m
  | .disjoint => ∀ x y, A x → B y → m * m < gapL2 sq pos12 x y

/-- the property for the answer of the 2-D world-space entry point -/
def WorldSpec2 (A B : V2 K → Prop) (pos1 pos2 : Iso2 K) (m : K) : CP (V2 K) → Prop
  | .intersecting => ∃ x y, A x ∧ B y ∧ gapW2 sq pos1 pos2 x y = 0
  | .within w1 w2 =>
      letI := fieldNum K sq
      ∃ p1 p2, A p1 ∧ B p2 ∧ w1 = pos1.act p1 ∧ w2 = pos2.act p2 ∧
        (∀ x y, A x → B y → (w2.sub w1).normSq ≤ gapW2 sq pos1 pos2 x y) ∧ (w2.sub w1).normSq ≤ m * m
  | .disjoint => ∀ x y, A x → B y → m * m < gapW2 sq pos1 pos2 x y

private theorem act_dist2 (m : Iso2 K) (p q : V2 K) (h : C03.Unit2 m) :
    letI := fieldNum K sq
    ((m.act p).sub (m.act q)).normSq = (p.sub q).normSq := by
  letI := fieldNum K sq
  unfold C03.Unit2 at h
  simp only [Iso2.act, Iso2.rot, V2.add, V2.sub, V2.normSq, V2.dot]
  linear_combination ((p.x - q.x) * (p.x - q.x) + (p.y - q.y) * (p.y - q.y)) * h

/-- 2-D: the world gap of a pair equals its gap in the frame of shape 1 -/
theorem gapW2_eq_gapL2 (pos1 pos2 : Iso2 K) (x y : V2 K) (h1 : C03.Unit2 pos1) :
    letI := fieldNum K sq
    gapW2 sq pos1 pos2 x y = gapL2 sq (pos1.invMul pos2) x y := by
  letI := fieldNum K sq
  unfold gapW2 gapL2
  have e : pos1.act ((pos1.invMul pos2).act y) = pos2.act y := by
    rw [(C03.iso2_invMul_eq_inverse_mul sq pos1 pos2 y).1, (C03.iso2_mul_act sq pos1.inverse pos2 y).1]
    exact (C03.iso2_inverse_act sq pos1 (pos2.act y) h1).2.1
  rw [← e]
  exact act_dist2 sq pos1 _ _ h1

/-- **2-D `transform_by` carries the local statement to the world statement** -/
theorem transformBy2_spec (A B : V2 K → Prop) (pos1 pos2 : Iso2 K) (m : K) (r : CP (V2 K)) (h1 : C03.Unit2 pos1) :
    letI := fieldNum K sq
    LocalSpec2 sq A B (pos1.invMul pos2) m r → WorldSpec2 sq A B pos1 pos2 m (transformBy2 r pos1 pos2) := by
  letI := fieldNum K sq
  intro h
  cases r with
  | intersecting =>
    obtain ⟨x, y, hx, hy, e⟩ := h
    exact ⟨x, y, hx, hy, by rw [gapW2_eq_gapL2 sq pos1 pos2 x y h1]; exact e⟩
  | disjoint =>
    intro x y hx hy
    rw [gapW2_eq_gapL2 sq pos1 pos2 x y h1]; exact h x y hx hy
  | within p1 p2 =>
    obtain ⟨hp1, hp2, hmin, hm⟩ := h
    have e : ((pos2.act p2).sub (pos1.act p1)).normSq = gapL2 sq (pos1.invMul pos2) p1 p2 := gapW2_eq_gapL2 sq pos1 pos2 p1 p2 h1
    refine ⟨p1, p2, hp1, hp2, rfl, rfl, ?_, ?_⟩
    · intro x y hx hy
      rw [gapW2_eq_gapL2 sq pos1 pos2 x y h1, e]; exact hmin x y hx hy
    · rw [e]; exact hm

/-- **2-D `query::closest_points` (world form) inherits the property from the dispatcher's answer** -/
theorem closestPointsWorld2_spec (A B : V2 K → Prop) (pos1 pos2 : Iso2 K) (g1 g2 : DSh2 K) (m : K) (w : CP (V2 K))
    (h1 : C03.Unit2 pos1) :
    letI := fieldNum K sq
    letI := fieldBits K
    (∀ r, dispatchCP2 (pos1.invMul pos2) g1 g2 m = some r → LocalSpec2 sq A B (pos1.invMul pos2) m r) →
    closestPointsWorld2 pos1 g1 pos2 g2 m = some w → WorldSpec2 sq A B pos1 pos2 m w := by
  letI := fieldNum K sq
  letI := fieldBits K
  intro hd hw
  unfold closestPointsWorld2 at hw
  cases hc : dispatchCP2 (pos1.invMul pos2) g1 g2 m with
  | none => rw [hc] at hw; simp at hw
  | some r =>
    rw [hc] at hw
    simp only [Option.map_some, Option.some.injEq] at hw
    subst hw
    exact transformBy2_spec sq A B pos1 pos2 m r h1 (hd r hc)

/-- 2-D: the gap seen from the other frame -/
theorem gapL2_inverse (pos12 : Iso2 K) (x y : V2 K) (h : C03.Unit2 pos12) :
    letI := fieldNum K sq
    gapL2 sq pos12.inverse y x = gapL2 sq pos12 x y := by
  letI := fieldNum K sq
  unfold gapL2
  have e := act_dist2 sq pos12 (pos12.inverse.act x) y h
  rw [(C03.iso2_inverse_act sq pos12 x h).2.1] at e
  rw [← e]
  simp only [V2.normSq, V2.dot, V2.sub]
  ring

/-- **2-D mirrored wrappers**: the flipped answer of the kernel called with `pos12⁻¹` and swapped roles -/
theorem flipped_spec2 (A B : V2 K → Prop) (pos12 : Iso2 K) (m : K) (r : CP (V2 K)) (h : C03.Unit2 pos12) :
    letI := fieldNum K sq
    LocalSpec2 sq B A pos12.inverse m r → LocalSpec2 sq A B pos12 m (flipped r) := by
  letI := fieldNum K sq
  intro hr
  cases r with
  | intersecting =>
    obtain ⟨y, x, hy, hx, e⟩ := hr
    exact ⟨x, y, hx, hy, by rw [← gapL2_inverse sq pos12 x y h]; exact e⟩
  | disjoint =>
    intro x y hx hy
    rw [← gapL2_inverse sq pos12 x y h]; exact hr y x hy hx
  | within p2 p1 =>
    obtain ⟨hp2, hp1, hmin, hm⟩ := hr
    refine ⟨hp1, hp2, ?_, ?_⟩
    · intro x y hx hy
      rw [← gapL2_inverse sq pos12 x y h, ← gapL2_inverse sq pos12 p1 p2 h]; exact hmin y x hy hx
    · rw [← gapL2_inverse sq pos12 p1 p2 h]; exact hm

def Obstacle2 (A B : V2 K → Prop) (pos12 : Iso2 K) (c : V2 K) : Prop :=
  letI := fieldNum K sq
  ∃ x y, A x ∧ B y ∧ c = x.sub (pos12.act y)

/-- **2-D `closest_points_support_map_support_map` answers `Disjoint` only when the shapes are farther apart than `prediction`**
(or GJK hit its iteration cap) -/
theorem closestPointsSmSm2_disjoint_sound (hs : LawfulSqrt sq) (A B : V2 K → Prop) (fs : V2 K → CSO2 K) (pos12 : Iso2 K) (m : K)
    (hm : 0 ≤ m) :
    letI := fieldNum K sq
    SupportsCSO2 (Obstacle2 sq A B pos12) fs →
    closestPointsSmSm2 fs pos12 m = some .disjoint →
    LocalSpec2 sq A B pos12 m .disjoint ∨
      (gjkClosestPoints2 fs (some m) true (gjkStart2 fs pos12.t none Vs2.new)).1 = .noIntersection ⟨1, 0⟩ := by
  letI := fieldNum K sq
  intro hsup hr
  unfold closestPointsSmSm2 closestPointsSmSmWithParams2 at hr
  generalize hg : gjkClosestPoints2 fs (some m) true (gjkStart2 fs pos12.t none Vs2.new) = g at hr ⊢
  obtain ⟨r, s'⟩ := g
  dsimp only at hr ⊢
  cases r with
  | intersection => simp at hr
  | closest p1 p2 d => simp at hr
  | proximity d => simp at hr
  | panic => simp at hr
  | noIntersection d =>
    rcases gjkClosestPoints2_cases fs (some m) true _ s' _ hg with h | h | h | ⟨s0, p0, o0, m0, hb⟩
    · cases h
    · cases h
    · exact Or.inr h
    · left
      intro x y hx hy
      have := gjkBody2_noIntersection_sound sq hs _ fs hsup m hm true s0 s' p0 o0 d m0 hb (x.sub (pos12.act y)) ⟨x, y, hx, hy, rfl⟩
      unfold gapL2
      simp only [V2.sub, V2.normSq, V2.dot] at this ⊢
      linarith
/-- in a set that contains `p` and, with every point `q`, the whole segment `[p, q]`, a point of minimum norm satisfies the
variational inequality `p·(q − p) ≥ 0` (2-D) -/
private theorem var_of_nearest2 (T : V2 K → Prop) (p q : V2 K)
    (hseg : ∀ t : K, 0 ≤ t → t ≤ 1 → T ⟨p.x + t * (q.x - p.x), p.y + t * (q.y - p.y)⟩)
    (hmin : ∀ x, T x → p.x * p.x + p.y * p.y ≤ x.x * x.x + x.y * x.y) :
    0 ≤ p.x * (q.x - p.x) + p.y * (q.y - p.y) := by
  by_contra hneg
  push Not at hneg
  set a := p.x * (q.x - p.x) + p.y * (q.y - p.y) with ha
  set b := (q.x - p.x) * (q.x - p.x) + (q.y - p.y) * (q.y - p.y) with hb
  have hb0 : 0 ≤ b := by rw [hb]; nlinarith [mul_self_nonneg (q.x - p.x), mul_self_nonneg (q.y - p.y)]
  have hbpos : 0 < b := by
    rcases lt_or_eq_of_le hb0 with h | h
    · exact h
    · exfalso
      have h1 : q.x - p.x = 0 := by nlinarith [mul_self_nonneg (q.x - p.x), mul_self_nonneg (q.y - p.y)]
      have h2 : q.y - p.y = 0 := by nlinarith [mul_self_nonneg (q.x - p.x), mul_self_nonneg (q.y - p.y)]
      rw [ha, h1, h2] at hneg; simp at hneg
  have key : ∀ t : K, 0 < t → t ≤ 1 → t * b ≤ -a → False := by
    intro t ht0 ht1 htb
    have h := hmin _ (hseg t ht0.le ht1)
    simp only at h
    have e : (p.x + t * (q.x - p.x)) * (p.x + t * (q.x - p.x)) + (p.y + t * (q.y - p.y)) * (p.y + t * (q.y - p.y))
        = p.x * p.x + p.y * p.y + t * (2 * a + t * b) := by rw [ha, hb]; ring
    rw [e] at h
    have : t * (2 * a + t * b) < 0 := mul_neg_of_pos_of_neg ht0 (by linarith)
    linarith
  by_cases h1 : -a / b ≤ 1
  · exact key (-a / b) (div_pos (by linarith) hbpos) h1 (by rw [div_mul_cancel₀ _ (ne_of_gt hbpos)])
  · push Not at h1
    have : b < -a := by
      have := (lt_div_iff₀ hbpos).1 h1
      linarith
    exact key 1 one_pos le_rfl (by linarith)

/-- **variational inequality of the 2-D reduction, all dimensions** (replaces `reduce2_variational_partial`): the point `p`
returned by `project_origin_and_reduce` satisfies `p·(q − p) ≥ 0` for every point `q` of the hull of the live vertices — point,
segment, and full triangle (the case that was missing: from optimality over the triangle and its convexity). This is the
inequality behind every GJK lower bound (`min_bound = −dir·support` with `dir = −p/|p|`). -/
theorem reduce2_variational (s s' : Vs2 K) (p q : V2 K) (hok : Vs2Ok s) :
    letI := fieldNum K sq
    s.projectOriginAndReduce = some (s', p) → Hull2 sq s q → 0 ≤ p.dot (q.sub p) := by
  letI := fieldNum K sq
  intro h hq
  by_cases hd : s.dim ≤ 1
  · exact reduce2_variational_partial sq s s' p q hd h hq
  · have hmem := reduce2_mem sq s s' p hok h
    have hnear := fun x hx => reduce2_nearest sq s s' p x hok h hx
    have h2 : s.dim = 2 := by
      rcases hq with ⟨e, _⟩ | ⟨e, _⟩ | ⟨e, _⟩ <;> omega
    have hT : ∀ x, Hull2 sq s x ↔ (Triangle2.mk s.v0.point s.v1.point s.v2.point).Mem x := by
      intro x
      constructor
      · rintro (⟨e, _⟩ | ⟨e, _⟩ | ⟨_, hm⟩)
        · omega
        · omega
        · exact hm
      · intro hm; exact Or.inr (Or.inr ⟨h2, hm⟩)
    have := var_of_nearest2 (Hull2 sq s) p q ?_ ?_
    · simpa [V2.dot, V2.sub] using this
    · intro t ht0 ht1
      rw [hT]
      obtain ⟨u, v, hu, hv, huv, ep⟩ := (hT p).1 hmem
      obtain ⟨u', v', hu', hv', huv', eq⟩ := (hT q).1 hq
      refine ⟨u + t * (u' - u), v + t * (v' - v), by nlinarith, by nlinarith, by nlinarith, ?_⟩
      rw [ep, eq]
      simp only [V2.add, V2.sub, V2.smul, V2.mk.injEq]
      constructor <;> ring
    · intro x hx
      have := hnear x hx
      simp only [C05.dsq2, V2.zero] at this
      nlinarith


/-! ## induction principle for the GJK loop -/
/-- **the GJK loop carries invariants** (3-D): if `I` holds for the state the loop is entered with and every pass of the body that
continues (`.next`) preserves it, then whatever the loop returns is the non-convergence fallback or the exit of a body that was
entered with a state satisfying `I`. (`gjkLoop3_cases` is the case `I = True`.) This is the induction principle for statements
about the state in which `gjk::closest_points` returns. -/
theorem gjkLoop3_inv {K : Type} [Num K] (fs : V3 K → CSO3 K) (maxDist : Option K) (exact : Bool)
    (I : Vs3 K → V3 K → V3 K → Option K → Prop)
    (hstep : ∀ s proj od mb s' proj' od' mb', I s proj od mb →
      gjkBody3 fs maxDist exact s proj od mb = .next s' proj' od' mb' → I s' proj' od' (some mb')) (fuel : Nat) :
    ∀ (s : Vs3 K) (proj oldDir : V3 K) (maxBound : Option K) (r : GjkRes3 K) (s' : Vs3 K), I s proj oldDir maxBound →
    gjkLoop3 fs maxDist exact fuel s proj oldDir maxBound = (r, s') →
    r = .noIntersection ⟨1, 0, 0⟩ ∨
    ∃ s0 p0 o0 m0, I s0 p0 o0 m0 ∧ gjkBody3 fs maxDist exact s0 p0 o0 m0 = .exit r s' := by
  induction fuel with
  | zero =>
    intro s proj oldDir maxBound r s' _ h
    simp only [gjkLoop3, Prod.mk.injEq] at h
    exact Or.inl h.1.symm
  | succ n ih =>
    intro s proj oldDir maxBound r s' hI h
    simp only [gjkLoop3] at h
    rcases hb : gjkBody3 fs maxDist exact s proj oldDir maxBound with ⟨r0, s0⟩ | ⟨s1, p1, o1, m1⟩
    · rw [hb] at h
      simp only [Prod.mk.injEq] at h
      exact Or.inr ⟨s, proj, oldDir, maxBound, hI, by rw [hb, h.1, h.2]⟩
    · rw [hb] at h
      exact ih s1 p1 o1 (some m1) r s' (hstep _ _ _ _ _ _ _ _ hI hb) h

/-- the same in 2-D -/
theorem gjkLoop2_inv {K : Type} [Num K] (fs : V2 K → CSO2 K) (maxDist : Option K) (exact : Bool)
    (I : Vs2 K → V2 K → V2 K → Option K → Prop)
    (hstep : ∀ s proj od mb s' proj' od' mb', I s proj od mb →
      gjkBody2 fs maxDist exact s proj od mb = .next s' proj' od' mb' → I s' proj' od' (some mb')) (fuel : Nat) :
    ∀ (s : Vs2 K) (proj oldDir : V2 K) (maxBound : Option K) (r : GjkRes2 K) (s' : Vs2 K), I s proj oldDir maxBound →
    gjkLoop2 fs maxDist exact fuel s proj oldDir maxBound = (r, s') →
    r = .noIntersection ⟨1, 0⟩ ∨
    ∃ s0 p0 o0 m0, I s0 p0 o0 m0 ∧ gjkBody2 fs maxDist exact s0 p0 o0 m0 = .exit r s' := by
  induction fuel with
  | zero =>
    intro s proj oldDir maxBound r s' _ h
    simp only [gjkLoop2, Prod.mk.injEq] at h
    exact Or.inl h.1.symm
  | succ n ih =>
    intro s proj oldDir maxBound r s' hI h
    simp only [gjkLoop2] at h
    rcases hb : gjkBody2 fs maxDist exact s proj oldDir maxBound with ⟨r0, s0⟩ | ⟨s1, p1, o1, m1⟩
    · rw [hb] at h
      simp only [Prod.mk.injEq] at h
      exact Or.inr ⟨s, proj, oldDir, maxBound, hI, by rw [hb, h.1, h.2]⟩
    · rw [hb] at h
      exact ih s1 p1 o1 (some m1) r s' (hstep _ _ _ _ _ _ _ _ hI hb) h

/-- **what a continuing pass of the 3-D loop body does** (`.next`): the direction is `−proj/|proj|` with `|proj| = mb'` the new
upper bound, the old upper bound is NOT `≤` the new one (the sequence of `max_bound`s decreases strictly), the support point
`fs dir` was accepted by `add_point`, the new simplex and projection are the reduction of the enlarged simplex, and the simplex is
not full. Together with `gjkLoop3_inv` this is the induction step for invariants of `gjk::closest_points`. -/
theorem gjkBody3_next_cases {K : Type} [Num K] (fs : V3 K → CSO3 K) (maxDist : Option K) (exact : Bool) (s s' : Vs3 K)
    (proj oldDir proj' od' : V3 K) (maxBound : Option K) (mb' : K) :
    gjkBody3 fs maxDist exact s proj oldDir maxBound = .next s' proj' od' mb' →
    tryNewAndGet3 proj.neg epsTol = some (od', mb') ∧ optLe maxBound mb' = false ∧
    ∃ s1, s.addPoint (fs od') = some (s1, true) ∧ s1.projectOriginAndReduce = some (s', proj') ∧ s'.dim ≠ 3 := by
  intro h
  unfold gjkBody3 at h
  rcases ht : tryNewAndGet3 proj.neg epsTol with _ | ⟨dir, mb⟩
  · rw [ht] at h; simp at h
  · rw [ht] at h
    dsimp only at h
    by_cases c1 : optLe maxBound mb = true
    · rw [if_pos c1] at h; cases exact <;> simp at h
    · rw [if_neg c1] at h
      by_cases c2 : (!isFinite (-dir.dot (fs dir).point)) = true
      · rw [if_pos c2] at h; simp at h
      · rw [if_neg c2] at h
        by_cases c3 : optLt maxDist (-dir.dot (fs dir).point) = true
        · rw [if_pos c3] at h; simp at h
        · rw [if_neg c3] at h
          by_cases c4 : (!exact && decide (0 < -dir.dot (fs dir).point) && leOpt mb maxDist) = true
          · rw [if_pos c4] at h; cases h
          · rw [if_neg c4] at h
            by_cases c5 : mb - -dir.dot (fs dir).point ≤ Num.sqrt epsTol * mb
            · rw [if_pos c5] at h; cases exact <;> cases h
            · rw [if_neg c5] at h
              rcases ha : s.addPoint (fs dir) with _ | ⟨s1, b⟩
              · rw [ha] at h; cases h
              · rw [ha] at h
                cases b with
                | false => cases exact <;> cases h
                | true =>
                  dsimp only at h
                  rcases hp : s1.projectOriginAndReduce with _ | ⟨s2, pr⟩
                  · rw [hp] at h; cases h
                  · rw [hp] at h
                    dsimp only at h
                    by_cases c6 : s2.dim = 3
                    · rw [if_pos c6] at h
                      split_ifs at h <;> cases h
                    · rw [if_neg c6] at h
                      simp only [GjkStep3.next.injEq] at h
                      obtain ⟨e1, e2, e3, e4⟩ := h
                      subst e1 e2 e3 e4
                      exact ⟨rfl, by simpa using c1, s1, ha, hp, c6⟩
/-- **what a continuing pass of the 2-D loop body does** (`.next`): the direction is `−proj/|proj|` with `|proj| = mb'` the new
upper bound, the old upper bound is NOT `≤` the new one (the sequence of `max_bound`s decreases strictly), the support point
`fs dir` was accepted by `add_point`, the new simplex and projection are the reduction of the enlarged simplex, and the simplex is
not full. Together with `gjkLoop2_inv` this is the induction step for invariants of `gjk::closest_points`. -/
theorem gjkBody2_next_cases {K : Type} [Num K] (fs : V2 K → CSO2 K) (maxDist : Option K) (exact : Bool) (s s' : Vs2 K)
    (proj oldDir proj' od' : V2 K) (maxBound : Option K) (mb' : K) :
    gjkBody2 fs maxDist exact s proj oldDir maxBound = .next s' proj' od' mb' →
    tryNewAndGet2 proj.neg epsTol = some (od', mb') ∧ optLe maxBound mb' = false ∧
    ∃ s1, s.addPoint (fs od') = some (s1, true) ∧ s1.projectOriginAndReduce = some (s', proj') ∧ s'.dim ≠ 2 := by
  intro h
  unfold gjkBody2 at h
  rcases ht : tryNewAndGet2 proj.neg epsTol with _ | ⟨dir, mb⟩
  · rw [ht] at h; simp at h
  · rw [ht] at h
    dsimp only at h
    by_cases c1 : optLe maxBound mb = true
    · rw [if_pos c1] at h; cases exact <;> simp at h
    · rw [if_neg c1] at h
      by_cases c2 : (!isFinite (-dir.dot (fs dir).point)) = true
      · rw [if_pos c2] at h; simp at h
      · rw [if_neg c2] at h
        by_cases c3 : optLt maxDist (-dir.dot (fs dir).point) = true
        · rw [if_pos c3] at h; simp at h
        · rw [if_neg c3] at h
          by_cases c4 : (!exact && decide (0 < -dir.dot (fs dir).point) && leOpt mb maxDist) = true
          · rw [if_pos c4] at h; cases h
          · rw [if_neg c4] at h
            by_cases c5 : mb - -dir.dot (fs dir).point ≤ Num.sqrt epsTol * mb
            · rw [if_pos c5] at h; cases exact <;> cases h
            · rw [if_neg c5] at h
              rcases ha : s.addPoint (fs dir) with _ | ⟨s1, b⟩
              · rw [ha] at h; cases h
              · rw [ha] at h
                cases b with
                | false => cases exact <;> cases h
                | true =>
                  dsimp only at h
                  rcases hp : s1.projectOriginAndReduce with _ | ⟨s2, pr⟩
                  · rw [hp] at h; cases h
                  · rw [hp] at h
                    dsimp only at h
                    by_cases c6 : s2.dim = 2
                    · rw [if_pos c6] at h
                      split_ifs at h <;> cases h
                    · rw [if_neg c6] at h
                      simp only [GjkStep2.next.injEq] at h
                      obtain ⟨e1, e2, e3, e4⟩ := h
                      subst e1 e2 e3 e4
                      exact ⟨rfl, by simpa using c1, s1, ha, hp, c6⟩


/-! ## non-vacuity -/
/-- non-vacuity of `LocalSpec` / `WorldSpec` on a concrete input over `ℚ`: the one-point sets `{(0,0,0)}` and `{(0,0,0)}`, shape 2
placed 3 to the right: `WithinMargin((0,0,0), (0,0,0))` satisfies the local statement for `max_dist = 4` (gap² = 9 ≤ 16), and
`Disjoint` satisfies it for `max_dist = 2`. -/
example : LocalSpec (K := ℚ) (fun x => x) (fun x => x = ⟨0, 0, 0⟩) (fun y => y = ⟨0, 0, 0⟩) ⟨0, 0, 0, 1, ⟨3, 0, 0⟩⟩ 4 (.within ⟨0, 0, 0⟩ ⟨0, 0, 0⟩) ∧
    LocalSpec (K := ℚ) (fun x => x) (fun x => x = ⟨0, 0, 0⟩) (fun y => y = ⟨0, 0, 0⟩) ⟨0, 0, 0, 1, ⟨3, 0, 0⟩⟩ 2 .disjoint := by
  refine ⟨⟨rfl, rfl, ?_, ?_⟩, ?_⟩
  · rintro x y rfl rfl; exact le_refl _
  · simp only [gapL, Iso3.act, Iso3.rot, Iso3.rotQ, Iso3.qv, V3.cross, V3.smul, V3.add, V3.sub, V3.normSq, V3.dot, fieldNum_two]
    norm_num
  · rintro x y rfl rfl
    simp only [gapL, Iso3.act, Iso3.rot, Iso3.rotQ, Iso3.qv, V3.cross, V3.smul, V3.add, V3.sub, V3.normSq, V3.dot, fieldNum_two]
    norm_num

/-- the support contract of `closestPointsSmSm3_disjoint_sound` is satisfiable: one-point shapes and the constant support map -/
example (P : Iso3 ℚ) (a0 b0 : V3 ℚ) :
    letI := fieldNum ℚ (fun x => x)
    SupportsCSO3 (Obstacle3 (fun x => x) (fun x => x = a0) (fun y => y = b0) P) (fun _ => ⟨a0.sub (P.act b0), a0, P.act b0⟩) := by
  rintro dir c ⟨x, y, rfl, rfl, rfl⟩
  exact le_refl _


/-! ## 2-D twins of the GJK-route statements -/
section twins
/-- **2-D `closest_points_support_map_support_map`: the `GJKResult → ClosestPoints` mapping** (twin of `closestPointsSmSm3_cases`) -/
theorem closestPointsSmSm2_cases (fs : V2 K → CSO2 K) (pos12 : Iso2 K) (m : K) (r : CP (V2 K)) (h : C03.Unit2 pos12) :
    letI := fieldNum K sq
    closestPointsSmSm2 fs pos12 m = some r →
    let g := (gjkClosestPoints2 fs (some m) true (gjkStart2 fs pos12.t none Vs2.new)).1
    (g = .intersection ∧ r = .intersecting) ∨ (∃ d, g = .noIntersection d ∧ r = .disjoint) ∨
    (∃ p1 p2 d, g = .closest p1 p2 d ∧ r = .within p1 (pos12.invAct p2) ∧ gapL2 sq pos12 p1 (pos12.invAct p2) = (p2.sub p1).normSq) := by
  letI := fieldNum K sq
  intro hr
  unfold closestPointsSmSm2 closestPointsSmSmWithParams2 at hr
  intro g
  have hg : g = (gjkClosestPoints2 fs (some m) true (gjkStart2 fs pos12.t none Vs2.new)).1 := rfl
  rw [← hg] at hr
  cases hgc : g with
  | intersection => rw [hgc] at hr; simp only [Option.some.injEq] at hr; exact Or.inl ⟨rfl, hr.symm⟩
  | noIntersection d => rw [hgc] at hr; simp only [Option.some.injEq] at hr; exact Or.inr (Or.inl ⟨d, rfl, hr.symm⟩)
  | proximity d => rw [hgc] at hr; simp at hr
  | panic => rw [hgc] at hr; simp at hr
  | closest p1 p2 d =>
    rw [hgc] at hr; simp only [Option.some.injEq] at hr
    refine Or.inr (Or.inr ⟨p1, p2, d, rfl, hr.symm, ?_⟩)
    unfold gapL2
    rw [(C03.iso2_inverse_act sq pos12 p2 h).2.2.2]

/-- **2-D `query::closest_points` through the GJK route answers `Disjoint` only when the placed shapes are farther apart than
`max_dist`** (twin of `closestPointsWorld3_gjk_disjoint_sound`) -/
theorem closestPointsWorld2_gjk_disjoint_sound (hs : LawfulSqrt sq) (A B : V2 K → Prop) (pos1 pos2 : Iso2 K) (g1 g2 : DSh2 K) (m : K)
    (h1 : C03.Unit2 pos1) (hm : 0 ≤ m) :
    letI := fieldNum K sq
    letI := fieldBits K
    Glue.dispatchCP2 (pos1.invMul pos2) g1 g2 m =
      Glue.closestPointsSmSm2 (fromShapes2 g1.loc (g2.posed (pos1.invMul pos2))) (pos1.invMul pos2) m →
    SupportsCSO2 (Obstacle2 sq A B (pos1.invMul pos2)) (fromShapes2 g1.loc (g2.posed (pos1.invMul pos2))) →
    Glue.closestPointsWorld2 pos1 g1 pos2 g2 m = some .disjoint →
    WorldSpec2 sq A B pos1 pos2 m .disjoint ∨
      (gjkClosestPoints2 (fromShapes2 g1.loc (g2.posed (pos1.invMul pos2))) (some m) true
        (gjkStart2 (fromShapes2 g1.loc (g2.posed (pos1.invMul pos2))) (pos1.invMul pos2).t none Vs2.new)).1 = .noIntersection ⟨1, 0⟩ := by
  letI := fieldNum K sq
  letI := fieldBits K
  intro hroute hsup hw
  unfold Glue.closestPointsWorld2 at hw
  rw [hroute] at hw
  cases hc : Glue.closestPointsSmSm2 (fromShapes2 g1.loc (g2.posed (pos1.invMul pos2))) (pos1.invMul pos2) m with
  | none => rw [hc] at hw; simp at hw
  | some r =>
    rw [hc] at hw
    simp only [Option.map_some, Option.some.injEq] at hw
    cases r with
    | intersecting => simp [Glue.transformBy2] at hw
    | within p1 p2 => simp [Glue.transformBy2] at hw
    | disjoint =>
      rcases closestPointsSmSm2_disjoint_sound sq hs A B _ (pos1.invMul pos2) m hm hsup hc with h | h
      · exact Or.inl (transformBy2_spec sq A B pos1 pos2 m .disjoint h1 h)
      · exact Or.inr h

end twins

end C01
