import ParryModel.Field
import ParryModel.IsoLemmas
import ParryModel.C01.ModelGlue
import ParryModel.C03.Theorems
import ParryModel.C01.Lemmas
set_option linter.unusedVariables false
/-!
# C01 property theorems, part 3: from the kernels (frame of shape 1) to the public entry points (world space)

The kernels (`closest_points_ball_ball`, `closest_points_segment_segment`, `closest_points_halfspace_support_map`, GJK) answer in
the frame of shape 1, with witness 2 expressed in the frame of shape 2. `LocalSpec A B pos12 m r` is the statement of the property
for such an answer `r` (sets `A`, `B` given in their own local frames, shape 2 placed by `pos12`); `WorldSpec A B pos1 pos2 m r`
is the statement of the property for the answer of `query::closest_points(pos1, g1, pos2, g2, max_dist)`.
The theorems here carry `LocalSpec` through the glue: `flipped` (mirrored wrappers `*_support_map_halfspace`), `transform_by`
and `pos12 = pos1.inv_mul(pos2)` (world entry point), the `GJKResult → ClosestPoints` mapping of
`closest_points_support_map_support_map`, and the routing of the dispatcher.
-/
namespace C01
open Model Model.Dist Model.Gjk Model.Glue

variable {K : Type} [Field K] [LinearOrder K] [IsStrictOrderedRing K] (sq : K → K)

/-- squared gap of a pair `(x, y)`, `x` in frame 1 and `y` in the frame of shape 2 placed by `pos12` -/
def gapL (pos12 : Iso3 K) (x y : V3 K) : K :=
  letI := fieldNum K sq
  ((pos12.act y).sub x).normSq

/-- squared gap of a world pair -/
def gapW (pos1 pos2 : Iso3 K) (x y : V3 K) : K :=
  letI := fieldNum K sq
  ((pos2.act y).sub (pos1.act x)).normSq

/-- the property for an answer in local frames (`A`, `B`: the two shapes as sets in their own frames) -/
def LocalSpec (A B : V3 K → Prop) (pos12 : Iso3 K) (m : K) : CP (V3 K) → Prop
  | .intersecting => ∃ x y, A x ∧ B y ∧ gapL sq pos12 x y = 0
  | .within p1 p2 => A p1 ∧ B p2 ∧ (∀ x y, A x → B y → gapL sq pos12 p1 p2 ≤ gapL sq pos12 x y) ∧ gapL sq pos12 p1 p2 ≤ m * m
  | .disjoint => ∀ x y, A x → B y → m * m < gapL sq pos12 x y

/-- the property for the answer of the world-space entry point: witnesses are the images of points of the shapes, they realise
the minimum distance over all pairs of world points, within `max_dist`; `Disjoint` ⇒ every world pair is farther than `max_dist`;
`Intersecting` ⇒ the placed shapes share a point -/
def WorldSpec (A B : V3 K → Prop) (pos1 pos2 : Iso3 K) (m : K) : CP (V3 K) → Prop
  | .intersecting => ∃ x y, A x ∧ B y ∧ gapW sq pos1 pos2 x y = 0
  | .within w1 w2 =>
      letI := fieldNum K sq
      ∃ p1 p2, A p1 ∧ B p2 ∧ w1 = pos1.act p1 ∧ w2 = pos2.act p2 ∧
        (∀ x y, A x → B y → (w2.sub w1).normSq ≤ gapW sq pos1 pos2 x y) ∧ (w2.sub w1).normSq ≤ m * m
  | .disjoint => ∀ x y, A x → B y → m * m < gapW sq pos1 pos2 x y

/-- `pos1 · ((pos1⁻¹ pos2) · p) = pos2 · p` for `pos12 = pos1.inv_mul(pos2)` -/
theorem invMul_act3 (a b : Iso3 K) (p : V3 K) (ha : C03.Unit3 a) (hb : C03.Unit3 b) :
    letI := fieldNum K sq
    a.act ((a.invMul b).act p) = b.act p := by
  letI := fieldNum K sq
  rw [C03.iso3_invMul_eq_inverse_mul sq a b, (C03.iso3_mul_act sq a.inverse b p (C03.unit3_inverse sq a ha) hb).1]
  exact (C03.iso3_inverse_act sq a (b.act p) ha).2

/-- **the world gap of a pair equals its gap in the frame of shape 1** (`pos12 = pos1.inv_mul(pos2)`, unit quaternions) -/
theorem gapW_eq_gapL (pos1 pos2 : Iso3 K) (x y : V3 K) (h1 : C03.Unit3 pos1) (h2 : C03.Unit3 pos2) :
    letI := fieldNum K sq
    gapW sq pos1 pos2 x y = gapL sq (pos1.invMul pos2) x y := by
  letI := fieldNum K sq
  unfold gapW gapL
  rw [← invMul_act3 sq pos1 pos2 y h1 h2]
  exact IsoLemmas.act_dist sq pos1 _ _ h1

/-- **`ClosestPoints::flipped` is an involution** -/
theorem flipped_flipped (r : CP (V3 K)) : flipped (flipped r) = r := by
  cases r <;> rfl

/-- **`transform_by` carries the local statement to the world statement.** If the dispatcher's answer `r` for
`pos12 = pos1.inv_mul(pos2)` satisfies the property in local frames, then `r.transform_by(pos1, pos2)` — what
`query::closest_points` returns — satisfies it in world space (unit quaternions). -/
theorem transformBy3_spec (A B : V3 K → Prop) (pos1 pos2 : Iso3 K) (m : K) (r : CP (V3 K))
    (h1 : C03.Unit3 pos1) (h2 : C03.Unit3 pos2) :
    letI := fieldNum K sq
    LocalSpec sq A B (pos1.invMul pos2) m r → WorldSpec sq A B pos1 pos2 m (transformBy3 r pos1 pos2) := by
  letI := fieldNum K sq
  intro h
  cases r with
  | intersecting =>
    obtain ⟨x, y, hx, hy, e⟩ := h
    exact ⟨x, y, hx, hy, by rw [gapW_eq_gapL sq pos1 pos2 x y h1 h2]; exact e⟩
  | disjoint =>
    intro x y hx hy
    rw [gapW_eq_gapL sq pos1 pos2 x y h1 h2]; exact h x y hx hy
  | within p1 p2 =>
    obtain ⟨hp1, hp2, hmin, hm⟩ := h
    have e : ((pos2.act p2).sub (pos1.act p1)).normSq = gapL sq (pos1.invMul pos2) p1 p2 := gapW_eq_gapL sq pos1 pos2 p1 p2 h1 h2
    refine ⟨p1, p2, hp1, hp2, rfl, rfl, ?_, ?_⟩
    · intro x y hx hy
      rw [gapW_eq_gapL sq pos1 pos2 x y h1 h2, e]; exact hmin x y hx hy
    · rw [e]; exact hm

/-- the gap seen from the other frame: `|pos12⁻¹·x − y| = |x − pos12·y|` -/
theorem gapL_inverse (pos12 : Iso3 K) (x y : V3 K) (h : C03.Unit3 pos12) :
    letI := fieldNum K sq
    gapL sq pos12.inverse y x = gapL sq pos12 x y := by
  letI := fieldNum K sq
  unfold gapL
  have e := IsoLemmas.act_dist sq pos12 (pos12.inverse.act x) y h
  rw [(C03.iso3_inverse_act sq pos12 x h).2] at e
  rw [← e]
  simp only [V3.normSq, V3.dot, V3.sub]
  ring

/-- **mirrored wrappers** (`closest_points_support_map_halfspace` = kernel with `pos12.inverse()` and swapped roles, then
`.flipped()`): if the kernel's answer satisfies the property for `(B, A, pos12⁻¹)`, the flipped answer satisfies it for `(A, B, pos12)`. -/
theorem flipped_spec (A B : V3 K → Prop) (pos12 : Iso3 K) (m : K) (r : CP (V3 K)) (h : C03.Unit3 pos12) :
    letI := fieldNum K sq
    LocalSpec sq B A pos12.inverse m r → LocalSpec sq A B pos12 m (flipped r) := by
  letI := fieldNum K sq
  intro hr
  cases r with
  | intersecting =>
    obtain ⟨y, x, hy, hx, e⟩ := hr
    exact ⟨x, y, hx, hy, by rw [← gapL_inverse sq pos12 x y h]; exact e⟩
  | disjoint =>
    intro x y hx hy
    rw [← gapL_inverse sq pos12 x y h]; exact hr y x hy hx
  | within p2 p1 =>
    obtain ⟨hp2, hp1, hmin, hm⟩ := hr
    refine ⟨hp1, hp2, ?_, ?_⟩
    · intro x y hx hy
      rw [← gapL_inverse sq pos12 x y h, ← gapL_inverse sq pos12 p1 p2 h]; exact hmin y x hy hx
    · rw [← gapL_inverse sq pos12 p1 p2 h]; exact hm

/-- **`closest_points_support_map_halfspace`** is the flipped half-space kernel in the inverse pose; hence (by `flipped_spec`) it
inherits the kernel's correctness -/
theorem closestPointsSmHalfspace3_spec (A : V3 K → Prop) (H : V3 K → Prop) (supp : Iso3 K → V3 K → V3 K) (pos12 : Iso3 K)
    (n : V3 K) (m : K) (r : CP (V3 K)) (h : C03.Unit3 pos12) :
    letI := fieldNum K sq
    letI := fieldBits K
    (∀ r', closestPointsHalfspaceSupportMap supp pos12.inverse n m = some r' → LocalSpec sq H A pos12.inverse m r') →
    closestPointsSmHalfspace3 supp pos12 n m = some r → LocalSpec sq A H pos12 m r := by
  letI := fieldNum K sq
  letI := fieldBits K
  intro hk hr
  unfold closestPointsSmHalfspace3 at hr
  cases hc : closestPointsHalfspaceSupportMap supp pos12.inverse n m with
  | none => rw [hc] at hr; simp at hr
  | some r' =>
    rw [hc] at hr
    simp only [Option.map_some, Option.some.injEq] at hr
    subst hr
    exact flipped_spec sq A H pos12 m r' h (hk r' hc)

/-- **`closest_points_support_map_support_map`: the `GJKResult → ClosestPoints` mapping.** The answer is `Intersecting` /
`Disjoint` / `WithinMargin(p1, pos12⁻¹·p2)` exactly when GJK (started on a fresh simplex with `max_dist = prediction`,
`exact_dist = true`) answers `Intersection` / `NoIntersection` / `ClosestPoints(p1, p2, _)`; `Proximity` and a panic give no
answer. In the `WithinMargin` case witness 2 is GJK's second point pulled back into the frame of shape 2, so that its gap in the
frame of shape 1 is exactly `|p2 − p1|²` (unit quaternion). -/
theorem closestPointsSmSm3_cases (fs : V3 K → CSO3 K) (pos12 : Iso3 K) (m : K) (r : CP (V3 K)) (h : C03.Unit3 pos12) :
    letI := fieldNum K sq
    closestPointsSmSm3 fs pos12 m = some r →
    let g := (gjkClosestPoints3 fs (some m) true (gjkStart3 fs pos12.t none Vs3.new)).1
    (g = .intersection ∧ r = .intersecting) ∨ (∃ d, g = .noIntersection d ∧ r = .disjoint) ∨
    (∃ p1 p2 d, g = .closest p1 p2 d ∧ r = .within p1 (pos12.invAct p2) ∧ gapL sq pos12 p1 (pos12.invAct p2) = (p2.sub p1).normSq) := by
  letI := fieldNum K sq
  intro hr
  unfold closestPointsSmSm3 closestPointsSmSmWithParams3 at hr
  intro g
  have hg : g = (gjkClosestPoints3 fs (some m) true (gjkStart3 fs pos12.t none Vs3.new)).1 := rfl
  rw [← hg] at hr
  cases hgc : g with
  | intersection => rw [hgc] at hr; simp only [Option.some.injEq] at hr; exact Or.inl ⟨rfl, hr.symm⟩
  | noIntersection d => rw [hgc] at hr; simp only [Option.some.injEq] at hr; exact Or.inr (Or.inl ⟨d, rfl, hr.symm⟩)
  | proximity d => rw [hgc] at hr; simp at hr
  | panic => rw [hgc] at hr; simp at hr
  | closest p1 p2 d =>
    rw [hgc] at hr; simp only [Option.some.injEq] at hr
    refine Or.inr (Or.inr ⟨p1, p2, d, rfl, hr.symm, ?_⟩)
    unfold gapL
    rw [(C03.iso3_invAct_act sq pos12 p2 h).2]

/-- **`query::closest_points` (world form) inherits the property from the dispatcher's answer**: whatever route the
dispatcher takes, if its answer for `pos12 = pos1.inv_mul(pos2)` satisfies the property in local frames, the value returned by
`query::closest_points(pos1, g1, pos2, g2, max_dist)` satisfies it in world space. -/
theorem closestPointsWorld3_spec (A B : V3 K → Prop) (pos1 pos2 : Iso3 K) (g1 g2 : DSh3 K) (m : K) (w : CP (V3 K))
    (h1 : C03.Unit3 pos1) (h2 : C03.Unit3 pos2) :
    letI := fieldNum K sq
    letI := fieldBits K
    (∀ r, dispatchCP3 (pos1.invMul pos2) g1 g2 m = some r → LocalSpec sq A B (pos1.invMul pos2) m r) →
    closestPointsWorld3 pos1 g1 pos2 g2 m = some w → WorldSpec sq A B pos1 pos2 m w := by
  letI := fieldNum K sq
  letI := fieldBits K
  intro hd hw
  unfold closestPointsWorld3 at hw
  cases hc : dispatchCP3 (pos1.invMul pos2) g1 g2 m with
  | none => rw [hc] at hw; simp at hw
  | some r =>
    rw [hc] at hw
    simp only [Option.map_some, Option.some.injEq] at hw
    subst hw
    exact transformBy3_spec sq A B pos1 pos2 m r h1 h2 (hd r hc)

end C01
