import ParryModel.Num
import Mathlib.Algebra.Order.Field.Basic
import Mathlib.Data.Rat.Cast.Defs
import Mathlib.Tactic.Linarith
import Mathlib.Tactic.Ring
import Mathlib.Tactic.FieldSimp
import Mathlib.Tactic.Positivity
import Mathlib.Tactic.LinearCombination
import Mathlib.Tactic.NormNum
/-!
# The lawful instance: any linearly ordered field is a `Num`.
`sq` is the square-root operation; its law (`LawfulSqrt`) is a hypothesis of the theorems that need it.
-/

@[reducible] def fieldNum (K : Type) [Field K] [LinearOrder K] [IsStrictOrderedRing K] (sq : K → K) : Num K where
  sqrt := sq
  ofRat := fun q => (q : K)
  decLt := fun a b => inferInstanceAs (Decidable (a < b))
  decLe := fun a b => inferInstanceAs (Decidable (a ≤ b))

/-- `sq` is a square root on non-negative arguments. -/
structure LawfulSqrt {K : Type} [Field K] [LinearOrder K] [IsStrictOrderedRing K] (sq : K → K) : Prop where
  nonneg : ∀ x, 0 ≤ x → 0 ≤ sq x
  sq_mul : ∀ x, 0 ≤ x → sq x * sq x = x

section
variable {K : Type} [Field K] [LinearOrder K] [IsStrictOrderedRing K] (sq : K → K)

theorem fieldNum_ofRat (q : Rat) : @Num.ofRat K (fieldNum K sq) q = (q : K) := rfl

theorem fieldNum_sqrt (x : K) : @Num.sqrt K (fieldNum K sq) x = sq x := rfl

theorem fieldNum_lit (n : Int) (d : Nat) : @Model.lit K (fieldNum K sq) n d = ((mkRat n d : Rat) : K) := rfl

theorem fieldNum_nmin (a b : K) : @Model.nmin K (fieldNum K sq) a b = min a b := by
  unfold Model.nmin
  split_ifs with h
  · exact (min_eq_right h.le).symm
  · exact (min_eq_left (not_lt.mp h)).symm

theorem fieldNum_nmax (a b : K) : @Model.nmax K (fieldNum K sq) a b = max a b := by
  unfold Model.nmax
  split_ifs with h
  · exact (max_eq_right h.le).symm
  · exact (max_eq_left (not_lt.mp h)).symm

theorem fieldNum_nabs (a : K) : @Model.nabs K (fieldNum K sq) a = |a| := by
  unfold Model.nabs
  split_ifs with h
  · exact (abs_of_neg h).symm
  · exact (abs_of_nonneg (not_lt.mp h)).symm

theorem fieldNum_two : @Model.two K (fieldNum K sq) = 2 := by
  unfold Model.two; norm_num
end
