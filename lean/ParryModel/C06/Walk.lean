import ParryModel.Vec
import ParryModel.Shapes
import ParryModel.C09.Model
import ParryModel.C04.Model
/-!
# C06 model, part 3: the cell walk of the 3-D height-field shape cast

`query/shape_cast/shape_cast_heightfield_shape.rs` (`dim3`) `cast_shapes_heightfield_shape`, with the `HeightField`
helpers it uses (`shape/heightfield3.rs`: `unit_cell_width/height`, `quantize_floor/ceil_unclamped`,
`unclamped_cell_at_point`, `signed_x_at/z_at`, `unclamped_elements_range_in_local_aabb`) and `Aabb::cast_local_ray`
from the C04 model.  The model returns the *trace* of the walk: the cells `(i, j)` handed to `hit_triangles`, in order
(only cells inside the field: `triangles_at` answers `(None, None)` outside).  The result of the cast is the minimum of the
part casts over that trace, so "the first impact is not missed" is the statement that the trace covers every cell the
moving box enters.

The three conversions between reals and cell indices (`x.floor() as isize`, `x.ceil() as isize`, `j as Real`) are a
parameter (`Quant`), so that the same text runs at `Float`, `Rat` and an abstract ordered field.

**Corrected behaviour** (fixes/C06-heightfield3-walk-negative-boundary-time.diff): the boundary times `toi_x`, `toi_z` are
clamped at 0 (`walkStep`).  On the pinned tree (`walkStepPinned`) a boundary time that rounds to a tiny negative value fails
both `toi >= 0.0` tests, the cell does not change and the walk stops after the initial block.
-/
namespace Model.HW
open Model
variable {K : Type} [Num K]

/-- `x.floor() as isize`, `x.ceil() as isize`, `j as Real` -/
structure Quant (K : Type) where
  floor : K → Int
  ceil : K → Int
  ofInt : Int → K

/-- what the walk reads of a 3-D `HeightField`: `nrows()` / `ncols()` (numbers of CELLS along z / x), `scale`, `local_aabb()` -/
structure HF3 (K : Type) where
  ni : Nat
  nj : Nat
  scale : V3 K
  aabb : Aabb3 K

/-- `Real::MAX` -/
@[inline] def realMax : K := Num.ofRat (mkRat (2 ^ 1024 - 2 ^ 971) 1)

variable (q : Quant K)

/-- `unit_cell_width()` = `1.0 / (heights.ncols() as Real - 1.0)` with `heights.ncols() = ncols() + 1` -/
def unitCellWidth (h : HF3 K) : K := 1 / (q.ofInt ((h.nj : Int) + 1) - 1)
def unitCellHeight (h : HF3 K) : K := 1 / (q.ofInt ((h.ni : Int) + 1) - 1)
/-- `quantize_floor_unclamped(val, cell_size)` = `((val + 0.5) / cell_size).floor() as isize` -/
def quantFloor (val cell : K) : Int := q.floor ((val + lit 1 2) / cell)
def quantCeil (val cell : K) : Int := q.ceil ((val + lit 1 2) / cell)
/-- `signed_x_at(j)` = `(-0.5 + unit_cell_width() * (j as Real)) * scale.x` -/
def signedXAt (h : HF3 K) (j : Int) : K := (lit (-1) 2 + unitCellWidth q h * q.ofInt j) * h.scale.x
def signedZAt (h : HF3 K) (i : Int) : K := (lit (-1) 2 + unitCellHeight q h * q.ofInt i) * h.scale.z
/-- `unclamped_cell_at_point(pt)` = `(i, j)` (row along z, column along x) -/
def cellAtPoint (h : HF3 K) (p : V3 K) : Int × Int :=
  (quantFloor q (p.z / h.scale.z) (unitCellHeight q h), quantFloor q (p.x / h.scale.x) (unitCellWidth q h))
/-- `unclamped_elements_range_in_local_aabb(aabb)` = `(min_z..max_z, min_x..max_x)` -/
def rangeInAabb (h : HF3 K) (b : Aabb3 K) : (Int × Int) × (Int × Int) :=
  ((quantFloor q (b.mins.z / h.scale.z) (unitCellHeight q h), quantCeil q (b.maxs.z / h.scale.z) (unitCellHeight q h)),
   (quantFloor q (b.mins.x / h.scale.x) (unitCellWidth q h), quantCeil q (b.maxs.x / h.scale.x) (unitCellWidth q h)))

/-- `a..b` on `isize` -/
def irange (a b : Int) : List Int := (List.range (b - a).toNat).map fun (k : Nat) => a + (k : Int)
/-- `isize::clamp(lo, hi)` -/
def iclamp (x lo hi : Int) : Int := if x < lo then lo else if hi < x then hi else x

/-- `hit_triangles(i, j)`: the cell is recorded iff `triangles_at` looks at it (`i, j ≥ 0`, inside the field) -/
def hitCell (ni nj : Nat) (out : List (Int × Int)) (i j : Int) : List (Int × Int) :=
  if 0 ≤ i ∧ 0 ≤ j ∧ i < ni ∧ j < nj then out ++ [(i, j)] else out

/-- state of the `loop`: `cell`, `curr_range_i`, `curr_range_j` (start, end), trace -/
structure St where
  cell : Int × Int
  ri : Int × Int
  rj : Int × Int
  out : List (Int × Int)
deriving Repr

inductive Step where
  | stop (out : List (Int × Int))
  | cont (s : St)
  /-- `ray.dir.x.signum()` of a zero component (`+0.0 → 1`, `-0.0 → -1`: not expressible here); reached only if the other
  boundary time is `Real::MAX` too -/
  | signumOfZero (out : List (Int × Int))

/-- `ray.dir.x.signum() as isize` for a non-zero component -/
def sgn (d : K) : Option Int := if 0 < d then some 1 else if d < 0 then some (-1) else none

/-- boundary time along one axis: `(line(c + 1) - o) / d` / `(line(c) - o) / d` / `Real::MAX` -/
def boundaryTime (line : Int → K) (c : Int) (o d : K) : K :=
  if 0 < d then (line (c + 1) - o) / d else if d < 0 then (line c - o) / d else realMax

/-- the two tests that move `cell`: `(cell_diff.0, cell_diff.1)`; `none` = `signum()` of a zero component was needed -/
def cellMove (d : V3 K) (toiX toiZ : K) : Option (Int × Int) :=
  let mvX : Bool := decide (0 ≤ toiX) && decide (toiX ≤ toiZ)
  let mvZ : Bool := decide (0 ≤ toiZ) && decide (toiZ ≤ toiX)
  match (if mvX then sgn d.x else some 0), (if mvZ then sgn d.z else some 0) with
  | none, _ => none
  | _, none => none
  | some dj, some di => some (di, dj)

/-- everything in one iteration of the `loop` after the two boundary times are known -/
def stepWith (h : HF3 K) (d : V3 K) (maxToi : K) (toiX toiZ : K) (s : St) : Step :=
  if maxToi < toiX ∧ maxToi < toiZ then .stop s.out else
  match cellMove d toiX toiZ with
  | none => .signumOfZero s.out
  | some (di, dj) =>
    if di = 0 ∧ dj = 0 then .stop s.out else
    let ri : Int × Int := (s.ri.1 + di, s.ri.2 + di)
    let rj : Int × Int := (s.rj.1 + dj, s.rj.2 + dj)
    let newI := if 0 < di then ri.2 - 1 else ri.1
    let newJ := if 0 < dj then rj.2 - 1 else rj.1
    let ignI : Bool := decide (newI < 0) || decide ((h.ni : Int) ≤ newI)
    let ignJ : Bool := decide (newJ < 0) || decide ((h.nj : Int) ≤ newJ)
    let leftI : Bool := (decide (0 ≤ d.z) && decide ((h.ni : Int) ≤ ri.1)) || (decide (d.z ≤ 0) && decide (ri.2 ≤ 0))
    let leftJ : Bool := (decide (0 ≤ d.x) && decide ((h.nj : Int) ≤ rj.1)) || (decide (d.x ≤ 0) && decide (rj.2 ≤ 0))
    if leftI || leftJ then .stop s.out else
    let out1 := if !ignI && di ≠ 0 then (irange rj.1 rj.2).foldl (fun acc j => hitCell h.ni h.nj acc newI j) s.out else s.out
    let out2 := if !ignJ && dj ≠ 0 then (irange ri.1 ri.2).foldl (fun acc i => hitCell h.ni h.nj acc i newJ) out1 else out1
    .cont ⟨(s.cell.1 + di, s.cell.2 + dj), ri, rj, out2⟩

/-- one iteration of the `loop` — corrected behaviour (boundary times clamped at 0) -/
def walkStep (h : HF3 K) (o d : V3 K) (maxToi : K) (s : St) : Step :=
  let toiX := nmax (boundaryTime (signedXAt q h) s.cell.2 o.x d.x) 0
  let toiZ := nmax (boundaryTime (signedZAt q h) s.cell.1 o.z d.z) 0
  stepWith h d maxToi toiX toiZ s

/-- one iteration of the `loop` exactly as on the pinned tree -/
def walkStepPinned (h : HF3 K) (o d : V3 K) (maxToi : K) (s : St) : Step :=
  stepWith h d maxToi (boundaryTime (signedXAt q h) s.cell.2 o.x d.x) (boundaryTime (signedZAt q h) s.cell.1 o.z d.z) s

inductive Res where
  | noBoxHit                                  -- `msum.cast_local_ray` is `None`: `return Ok(None)`
  | done (out : List (Int × Int))
  | fuelExhausted (out : List (Int × Int))
  | signumOfZero (out : List (Int × Int))

/-- the trace a `Res` carries (empty for `noBoxHit`) -/
def Res.trace : Res → List (Int × Int)
  | .noBoxHit => []
  | .done out => out
  | .fuelExhausted out => out
  | .signumOfZero out => out

def walkLoop (step : St → Step) : Nat → St → Res
  | 0, s => .fuelExhausted s.out
  | n + 1, s =>
    match step s with
    | .stop out => .done out
    | .signumOfZero out => .signumOfZero out
    | .cont s' => walkLoop step n s'

/-- the state before the `loop`: pre-advance of the box to the Minkowski-sum hit, the enlarged ranges, the initial block -/
def walkInit (h : HF3 K) (aabb2 : Aabb3 K) (vel : V3 K) (maxToi : K) : Option (V3 K × St) :=
  let o := aabb2.center
  let hext := aabb2.halfExtents
  let msum : Aabb K := ⟨h.aabb.mins.sub hext, h.aabb.maxs.add hext⟩
  match Aabb.castLocalRay realMax msum ⟨o, vel⟩ maxToi true with
  | none => none
  | some toi =>
    let b : Aabb3 K := ⟨aabb2.mins.add (vel.smul toi), aabb2.maxs.add (vel.smul toi)⟩
    let r := rangeInAabb q h b
    let ri : Int × Int := if neq vel.z 0 then r.1 else (r.1.1 - 1, r.1.2 + 1)
    let rj : Int × Int := if neq vel.x 0 then r.2 else (r.2.1 - 1, r.2.2 + 1)
    let ci := irange (iclamp ri.1 0 h.ni) (iclamp ri.2 0 h.ni)
    let cj := irange (iclamp rj.1 0 h.nj) (iclamp rj.2 0 h.nj)
    let out := ci.foldl (fun acc i => cj.foldl (fun acc j => hitCell h.ni h.nj acc i j) acc) []
    some (o, ⟨cellAtPoint q h b.center, ri, rj, out⟩)

/-- the trace of `cast_shapes_heightfield_shape` (3-D) for a shape whose loosened box in the field's frame is `aabb2` -/
def walk (pinned : Bool) (h : HF3 K) (aabb2 : Aabb3 K) (vel : V3 K) (maxToi : K) (fuel : Nat) : Res :=
  match walkInit q h aabb2 vel maxToi with
  | none => .noBoxHit
  | some (o, s0) =>
    if neq vel.x 0 && neq vel.z 0 then .done s0.out else
    walkLoop (if pinned then walkStepPinned q h o vel maxToi else walkStep q h o vel maxToi) fuel s0

end Model.HW
