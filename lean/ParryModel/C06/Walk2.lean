import ParryModel.C06.Walk
/-!
# C06 model, part 5: the cell walk of the 2-D height-field shape cast

`query/shape_cast/shape_cast_heightfield_shape.rs` (`dim2`) `cast_shapes_heightfield_shape`, with the `HeightField` helpers it
uses (`shape/heightfield2.rs`: `num_cells`, `unit_cell_width`, `cell_width`, `start_x`, `quantize_floor/ceil_unclamped`,
`unclamped_elements_range_in_local_aabb`, `segment_at` as far as "is there a segment").  As for the 3-D walk the model
returns the *trace*: the indices of the segments handed to the part cast, in order (`segment_at` answers `None` outside the
field and for removed segments).  The result of the cast is the minimum of the part casts over that trace (`bestOf`), so
"the first impact is not missed" is the statement that the trace covers every segment the moving box gets over.

The conversions between reals and indices are the `Quant` parameter of `Walk.lean`.
-/
namespace Model.HW2
open Model Model.HW
variable {K : Type} [Num K]

/-- what the walk reads of a 2-D `HeightField`: `num_cells()`, `scale`, the removed segments -/
structure HF2 (K : Type) where
  n : Nat
  scale : V2 K
  removed : List Nat

variable (q : Quant K)

/-- `unit_cell_width()` = `1.0 / (self.heights.len() as Real - 1.0)` with `heights.len() = num_cells() + 1` -/
def unitCellWidth (h : HF2 K) : K := 1 / (q.ofInt ((h.n : Int) + 1) - 1)
/-- `cell_width()` = `unit_cell_width() * scale.x` -/
def cellWidth (h : HF2 K) : K := unitCellWidth q h * h.scale.x
/-- `start_x()` = `scale.x * -0.5` -/
def startX (h : HF2 K) : K := h.scale.x * lit (-1) 2
/-- `unclamped_elements_range_in_local_aabb(aabb)` = `min_x..max_x` -/
def rangeInAabb (h : HF2 K) (b : Aabb2 K) : Int × Int :=
  (quantFloor q (b.mins.x / h.scale.x) (unitCellWidth q h), quantCeil q (b.maxs.x / h.scale.x) (unitCellWidth q h))

/-- `if let Some(seg) = segment_at(c as usize)`: the segment is handed to the part cast iff it exists
(`c as usize` of a negative `c` is beyond `num_cells()`) -/
def hitSeg (h : HF2 K) (out : List Int) (c : Int) : List Int :=
  if 0 ≤ c ∧ c < h.n ∧ !(h.removed.contains c.toNat) then out ++ [c] else out

/-- the `while` loop for `right`; `none` = fuel exhausted -/
def loopR (h : HF2 K) (o d hext maxToi : K) : Nat → Int → List Int → Option (List Int)
  | 0, c, out => if c < (h.n : Int) - 1 then none else some out
  | f + 1, c, out =>
    if c < (h.n : Int) - 1 then
      let c' := c + 1
      let param := (cellWidth q h * q.ofInt c' + startX h - o) / d
      if maxToi ≤ param - hext / nabs d then some out else loopR h o d hext maxToi f c' (hitSeg h out c')
    else some out

/-- the `while` loop for `!right` -/
def loopL (h : HF2 K) (o d hext maxToi : K) : Nat → Int → List Int → Option (List Int)
  | 0, c, out => if 0 < c then none else some out
  | f + 1, c, out =>
    if 0 < c then
      let param := (o - cellWidth q h * q.ofInt c - startX h) / d
      let c' := c - 1
      if maxToi ≤ param - hext / nabs d then some out else loopL h o d hext maxToi f c' (hitSeg h out c')
    else some out

/-- the trace of `cast_shapes_heightfield_shape` (2-D) for a shape whose loosened box in the field's frame is `aabb2` -/
def walk (h : HF2 K) (aabb2 : Aabb2 K) (vel : V2 K) (maxToi : K) (fuel : Nat) : Option (List Int) :=
  let o := aabb2.center
  let r := rangeInAabb q h aabb2
  let right : Bool := decide (0 < vel.x)
  let r : Int × Int := if right then (r.1, r.2 + 1) else (r.1 - 1, r.2)
  let out := (irange (iclamp r.1 0 h.n) (iclamp r.2 0 h.n)).foldl (hitSeg h) []
  if neq vel.x 0 then some out else
  let hext := aabb2.halfExtents.x
  if right then loopR q h o.x vel.x hext maxToi fuel (if r.2 - 1 < -1 then -1 else r.2 - 1) out
  else loopL q h o.x vel.x hext maxToi fuel (if (h.n : Int) < r.1 then (h.n : Int) else r.1) out

/-- `best_hit`: the running minimum over the part casts, `if hit.toi < best.map(toi).unwrap_or(MAX) { best = Some(hit) }` -/
def bestStep {H : Type} (toi : H → K) (best : Option H) (hit : Option H) : Option H :=
  match hit with
  | none => best
  | some x => if toi x < (match best with | some b => toi b | none => realMax) then some x else best

/-- the result of the cast from the answers of the part casts along the trace -/
def bestOf {H : Type} (toi : H → K) (hits : List (Option H)) : Option H := hits.foldl (bestStep toi) none

end Model.HW2
