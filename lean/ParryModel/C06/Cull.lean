import ParryModel.Vec
import ParryModel.Shapes
import ParryModel.C09.Model
import ParryModel.C06.Model
/-!
# C06 model, part 2: the broad-phase test of the composite shape cast

`query/shape_cast/shape_cast_composite_shape_shape.rs`: `TOICompositeShapeShapeBestFirstVisitor::new` and the box test at the
top of `visit` — the only thing that decides whether a node / leaf of the composite's BVH is looked at, and with which
weight the best-first search orders it:

```text
new:    ls_aabb2    = g2.compute_aabb(pos12)
        msum_shift  = -ls_aabb2.center().coords
        msum_margin = ls_aabb2.half_extents() + Vector::repeat(options.target_distance)
        ray         = Ray::new(Point::origin(), *vel12)
visit:  msum = SimdAabb { mins: bv.mins + msum_shift + (-msum_margin), maxs: bv.maxs + msum_shift + msum_margin }
        (mask, time_of_impact) = msum.cast_local_ray(&ray, max_time_of_impact)
```

and `bounding_volume/simd_aabb.rs` `SimdAabb::cast_local_ray` (one lane; the four lanes are independent).
`compute_aabb` is `Ball::aabb` / `Cuboid::aabb` from the C09 model.  Everything lives in `Model.SC`.
-/
namespace Model.SC
open Model
variable {K : Type} [Num K]

/-- `Real::MAX` = 2¹⁰²⁴ − 2⁹⁷¹ -/
@[inline] def realMax : K := Num.ofRat (mkRat (2 ^ 1024 - 2 ^ 971) 1)

/-- loop state of `SimdAabb::cast_local_ray` (one lane) -/
structure Slab (K : Type) where
  hit : Bool
  tmin : K
  tmax : K

/-- one iteration of `for i in 0..DIM` in `SimdAabb::cast_local_ray`: ray origin coordinate `o`, direction coordinate `d`,
box interval `[lo, hi]` on that axis. -/
def slabStep (s : Slab K) (o d lo hi : K) : Slab K :=
  let isNotZero : Bool := !(neq d 0)
  let isZeroTest : Bool := decide (lo ≤ o) && decide (o ≤ hi)
  let denom : K := 1 / d
  let near0 : K := if isNotZero then (lo - o) * denom else -realMax
  let far0 : K := if isNotZero then (hi - o) * denom else realMax
  let gt : Bool := decide (far0 < near0)
  let near : K := if gt then far0 else near0
  let far : K := if gt then near0 else far0
  let tmin := nmax s.tmin near
  let tmax := nmin s.tmax far
  let isNotZeroTest : Bool := decide (tmin ≤ tmax)
  ⟨s.hit && (if isNotZero then isNotZeroTest else isZeroTest), tmin, tmax⟩

/-- `SimdAabb::cast_local_ray` (one lane), 3-D: `(mask, tmin)` -/
def simdCastLocalRay3 (b : Aabb3 K) (o d : V3 K) (maxToi : K) : Bool × K :=
  let s0 : Slab K := ⟨true, 0, maxToi⟩
  let s1 := slabStep s0 o.x d.x b.mins.x b.maxs.x
  let s2 := slabStep s1 o.y d.y b.mins.y b.maxs.y
  let s3 := slabStep s2 o.z d.z b.mins.z b.maxs.z
  (s3.hit, s3.tmin)

/-- the same in 2-D -/
def simdCastLocalRay2 (b : Aabb2 K) (o d : V2 K) (maxToi : K) : Bool × K :=
  let s0 : Slab K := ⟨true, 0, maxToi⟩
  let s1 := slabStep s0 o.x d.x b.mins.x b.maxs.x
  let s2 := slabStep s1 o.y d.y b.mins.y b.maxs.y
  (s2.hit, s2.tmin)

/-- `TOICompositeShapeShapeBestFirstVisitor::new`: `(msum_shift, msum_margin)` from the box of shape 2 in the frame of
the composite and the target distance. -/
def cullNew3 (aabb2 : Aabb3 K) (target : K) : V3 K × V3 K :=
  (aabb2.center.neg, aabb2.halfExtents.add ⟨target, target, target⟩)
def cullNew2 (aabb2 : Aabb2 K) (target : K) : V2 K × V2 K :=
  (aabb2.center.neg, aabb2.halfExtents.add ⟨target, target⟩)

/-- the Minkowski-sum box built at the top of `visit` -/
def msum3 (bv : Aabb3 K) (shift margin : V3 K) : Aabb3 K :=
  ⟨(bv.mins.add shift).add margin.neg, (bv.maxs.add shift).add margin⟩
def msum2 (bv : Aabb2 K) (shift margin : V2 K) : Aabb2 K :=
  ⟨(bv.mins.add shift).add margin.neg, (bv.maxs.add shift).add margin⟩

/-- the node test of the composite cast: is the BVH box `bv` (frame of the composite) kept, and with which weight,
for a shape whose box in that frame is `aabb2`, moving with `vel12`. -/
def cullNode3 (aabb2 bv : Aabb3 K) (vel12 : V3 K) (maxToi target : K) : Bool × K :=
  let sm := cullNew3 aabb2 target
  simdCastLocalRay3 (msum3 bv sm.1 sm.2) ⟨0, 0, 0⟩ vel12 maxToi
def cullNode2 (aabb2 bv : Aabb2 K) (vel12 : V2 K) (maxToi target : K) : Bool × K :=
  let sm := cullNew2 aabb2 target
  simdCastLocalRay2 (msum2 bv sm.1 sm.2) ⟨0, 0⟩ vel12 maxToi

/-- `Ball::aabb(pos)` in 2-D -/
def ballAabb2 (r : K) (m : Iso2 K) : Aabb2 K :=
  ⟨m.t.add ⟨-r, -r⟩, m.t.add ⟨r, r⟩⟩

/-- node test with shape 2 a ball / a cuboid posed by `pos12` -/
def cullBall3 (pos12 : Iso3 K) (r : K) (bv : Aabb3 K) (vel12 : V3 K) (maxToi target : K) : Bool × K :=
  cullNode3 (ballAabb r pos12) bv vel12 maxToi target
def cullCuboid3 (pos12 : Iso3 K) (he : V3 K) (bv : Aabb3 K) (vel12 : V3 K) (maxToi target : K) : Bool × K :=
  cullNode3 (cuboidAabb he pos12) bv vel12 maxToi target
def cullBall2 (pos12 : Iso2 K) (r : K) (bv : Aabb2 K) (vel12 : V2 K) (maxToi target : K) : Bool × K :=
  cullNode2 (ballAabb2 r pos12) bv vel12 maxToi target
def cullCuboid2 (pos12 : Iso2 K) (he : V2 K) (bv : Aabb2 K) (vel12 : V2 K) (maxToi target : K) : Bool × K :=
  cullNode2 (cuboidAabb2 he pos12) bv vel12 maxToi target

end Model.SC
