import ParryModel.Field
import ParryModel.C06.Glue
import ParryModel.C06.Lemmas
/-!
# C06 theorems, part 4: exit conditions of the GJK-route cast (`C06/Glue.lean`) — partial correctness

`cast_shapes_support_map_support_map` relative to what the GJK layer answers (`Taps`).  With `dd` = the answer of
`gjk::directional_distance` on the shape selected by `target_distance > 0` (rounded) / `= 0` (plain):

* `castGlue_some_spec`: a hit is either the standing-pair hit (`toi = 0`, status `PenetratingOrWithinTargetDist`, only with
  `stop_at_penetration` and an existing contact within the target) or reports exactly the GJK time, which is `≤ max_time_of_impact`.
* `castGlue_none_iff`: `None` is returned exactly for: standing pair without contact within the target / without
  `stop_at_penetration`; no GJK hit; GJK time above `max_time_of_impact`; a start-up contact (`toi < 1e-5`, looked at only
  under `compute_impact_geometry_on_penetration || !stop_at_penetration`) that has no contact or — with `!stop_at_penetration`
  — whose normal velocity is not closing.
* `castGlue_status`: the status is `PenetratingOrWithinTargetDist` iff standing pair, start-up branch or `toi = 0`; `Converged` otherwise.
* `castGlue_flags_irrelevant`: for a GJK time `≥ 1e-5` the two flags do not influence the result at all.
* `castGlue_stop_startup_always_hits`: with `stop_at_penetration` a start-up contact within `max` is never discarded on account
  of its velocity (only a missing contact can drop it, and only if `compute_impact_geometry_on_penetration` asked for it).
* `castSmSm3_converged_geometry` / `castSmSm2_converged_geometry`: beyond start-up, if the GJK witnesses touch at the time of
  impact (`w1 = w2 + toi·vel12`, the certificate of the ray cast on the rounded shape), the reported witnesses are exactly
  `target_distance` apart along `normal1` at the time of impact, `normal1` is the GJK normal and `normal2` its opposite
  in the frame of shape 2.
-/
namespace C06
open Model Model.SC Model.SG
variable {K : Type} [Field K] [LinearOrder K] [IsStrictOrderedRing K] (sq : K → K)

section glue
variable {V : Type} (dot : V → V → K) (backOff : V → V → K → V) (invRotNeg : V → V) (invAct : V → V)

/-- the GJK answer the function looks at -/
def ddSel (t : Taps V K) (o : Opts K) : Option (K × V × V × V) := if 0 < o.target then t.ddRound else t.ddPlain

/-- the start-up branch is taken for this GJK time -/
def startup (o : Opts K) (toi : K) : Prop := (o.cig = true ∨ o.stop = false) ∧ toi < (1 : K) / 100000

private theorem lit5 : @lit K (fieldNum K sq) 1 100000 = (1 : K) / 100000 := by
  rw [fieldNum_lit]; norm_num

theorem castGlue_some_spec (vel12 : V) (t : Taps V K) (o : Opts K) (h : Hit V K)
    (hr : @castGlue K (fieldNum K sq) V dot backOff invRotNeg invAct vel12 t o = some h) :
    (@relEqZero K (fieldNum K sq) t.velNorm = true ∧ h.toi = 0 ∧ h.status = .penetrating ∧ o.stop = true ∧ t.cTarget.isSome) ∨
    (@relEqZero K (fieldNum K sq) t.velNorm = false ∧ h.toi ≤ o.maxToi ∧ ∃ n w1 w2, ddSel t o = some (h.toi, n, w1, w2)) := by
  unfold castGlue at hr
  split at hr
  · rename_i hz
    left
    split at hr
    · cases hr
    · rename_i c hc
      split at hr
      · cases hr
      · rename_i hs
        injection hr with hr; subst hr
        simp only [Bool.not_eq_true', Bool.not_eq_false] at hs
        exact ⟨hz, rfl, rfl, hs, by rw [hc]; rfl⟩
  · rename_i hz
    right
    simp only [Bool.not_eq_true] at hz
    split at hr
    · cases hr
    · rename_i toi n w1 w2 hdd
      split at hr
      · cases hr
      · rename_i hmax
        have hle : toi ≤ o.maxToi := not_lt.1 hmax
        split at hr
        · split at hr
          · cases hr
          · simp only at hr
            split at hr
            · cases hr
            · injection hr with hr; subst hr
              exact ⟨hz, hle, n, w1, w2, hdd⟩
        · injection hr with hr; subst hr
          exact ⟨hz, hle, n, w1, w2, hdd⟩

theorem castGlue_none_iff (vel12 : V) (t : Taps V K) (o : Opts K) :
    @castGlue K (fieldNum K sq) V dot backOff invRotNeg invAct vel12 t o = none ↔
    (@relEqZero K (fieldNum K sq) t.velNorm = true ∧ (t.cTarget = none ∨ o.stop = false)) ∨
    (@relEqZero K (fieldNum K sq) t.velNorm = false ∧
      (ddSel t o = none ∨ ∃ toi n w1 w2, ddSel t o = some (toi, n, w1, w2) ∧
        (o.maxToi < toi ∨ (startup o toi ∧ (t.cMax = none ∨ ∃ c, t.cMax = some c ∧ o.stop = false ∧ 0 ≤ dot c.n1 vel12))))) := by
  unfold castGlue ddSel startup
  simp only [lit5]
  by_cases hz : @relEqZero K (fieldNum K sq) t.velNorm = true
  · simp only [hz, if_true, true_and, Bool.true_eq_false, false_and, or_false]
    cases hc : t.cTarget with
    | none => simp
    | some c => cases hs : o.stop <;> simp
  · simp only [Bool.not_eq_true] at hz
    simp only [hz, Bool.false_eq_true, if_false, false_and, true_and, false_or]
    cases hdd : (if 0 < o.target then t.ddRound else t.ddPlain) with
    | none => simp
    | some r =>
      obtain ⟨toi, n, w1, w2⟩ := r
      simp only [Option.some.injEq, Prod.mk.injEq, reduceCtorEq, false_or]
      by_cases hmax : o.maxToi < toi
      · simp only [hmax, if_true, true_iff]
        exact ⟨toi, n, w1, w2, ⟨rfl, rfl, rfl, rfl⟩, Or.inl hmax⟩
      · simp only [hmax, if_false]
        constructor
        · intro hr
          refine ⟨toi, n, w1, w2, ⟨rfl, rfl, rfl, rfl⟩, Or.inr ?_⟩
          split at hr
          · rename_i hb
            simp only [Bool.and_eq_true, Bool.or_eq_true, Bool.not_eq_true', decide_eq_true_eq] at hb
            refine ⟨hb, ?_⟩
            split at hr
            · left; assumption
            · rename_i c hc
              right
              split at hr
              · rename_i hd
                simp only [Bool.and_eq_true, Bool.not_eq_true', decide_eq_true_eq] at hd
                exact ⟨c, hc, hd.1, hd.2⟩
              · cases hr
          · cases hr
        · rintro ⟨toi', n', w1', w2', ⟨e1, e2, e3, e4⟩, hh⟩
          subst e1 e2 e3 e4
          rcases hh with hh | ⟨hb, hh⟩
          · exact absurd hh hmax
          · have hb' : ((o.cig || !o.stop) && decide (toi < 1 / 100000)) = true := by
              simp only [Bool.and_eq_true, Bool.or_eq_true, Bool.not_eq_true', decide_eq_true_eq]; exact hb
            rw [if_pos hb']
            rcases hh with hh | ⟨c, hc, hs, hd⟩
            · rw [hh]
            · rw [hc]
              simp only [hs, Bool.not_false, Bool.true_and, decide_eq_true_eq, hd, if_true]

theorem castGlue_status (vel12 : V) (t : Taps V K) (o : Opts K) (h : Hit V K)
    (hr : @castGlue K (fieldNum K sq) V dot backOff invRotNeg invAct vel12 t o = some h) :
    (h.status = .penetrating ↔ (@relEqZero K (fieldNum K sq) t.velNorm = true ∨ startup o h.toi ∨ h.toi = 0)) ∧
    (h.status = .converged ∨ h.status = .penetrating) := by
  unfold castGlue at hr
  unfold startup
  split at hr
  · rename_i hz
    split at hr
    · cases hr
    · split at hr
      · cases hr
      · injection hr with hr; subst hr
        exact ⟨⟨fun _ => Or.inl hz, fun _ => rfl⟩, Or.inr rfl⟩
  · rename_i hz
    split at hr
    · cases hr
    · rename_i toi n w1 w2 hdd
      split at hr
      · cases hr
      · split at hr
        · rename_i hb
          simp only [Bool.and_eq_true, Bool.or_eq_true, Bool.not_eq_true', decide_eq_true_eq, lit5] at hb
          split at hr
          · cases hr
          · simp only at hr
            split at hr
            · cases hr
            · injection hr with hr; subst hr
              exact ⟨⟨fun _ => Or.inr (Or.inl hb), fun _ => rfl⟩, Or.inr rfl⟩
        · rename_i hb
          simp only [Bool.and_eq_true, Bool.or_eq_true, Bool.not_eq_true', decide_eq_true_eq, lit5] at hb
          injection hr with hr; subst hr
          by_cases h0 : toi = 0
          · subst h0
            have h1 : @neq K (fieldNum K sq) 0 0 = true := by simp [neq]
            simp [h1]
          · have h1 : @neq K (fieldNum K sq) toi 0 = false := by
              simp only [neq, Bool.and_eq_false_iff, decide_eq_false_iff_not, not_le]
              rcases lt_or_gt_of_ne h0 with hh | hh
              · exact Or.inr hh
              · exact Or.inl hh
            have hz' : ¬ (@relEqZero K (fieldNum K sq) t.velNorm = true) := hz
            simp [h1, h0, hz']
            intro hc
            by_contra hlt
            apply hb
            refine ⟨hc, ?_⟩
            have := not_le.1 hlt
            rwa [one_div]

/-- beyond the start-up window the two flags are irrelevant -/
theorem castGlue_flags_irrelevant (vel12 : V) (t : Taps V K) (o o' : Opts K) (hm : o'.maxToi = o.maxToi) (ht : o'.target = o.target)
    (hz : @relEqZero K (fieldNum K sq) t.velNorm = false) (toi : K) (n w1 w2 : V) (hdd : ddSel t o = some (toi, n, w1, w2))
    (hlate : (1 : K) / 100000 ≤ toi) :
    @castGlue K (fieldNum K sq) V dot backOff invRotNeg invAct vel12 t o' =
    @castGlue K (fieldNum K sq) V dot backOff invRotNeg invAct vel12 t o := by
  have hdd' : ddSel t o' = some (toi, n, w1, w2) := by unfold ddSel at hdd ⊢; rw [ht]; exact hdd
  unfold ddSel at hdd hdd'
  unfold castGlue
  simp only [hz, Bool.false_eq_true, if_false, hdd, hm, ht, lit5, not_lt.2 hlate, decide_false, Bool.and_false]

/-- with `stop_at_penetration`, a start-up contact within `max` is reported whenever the contact query finds it -/
theorem castGlue_stop_startup_always_hits (vel12 : V) (t : Taps V K) (o : Opts K) (hs : o.stop = true)
    (hz : @relEqZero K (fieldNum K sq) t.velNorm = false) (toi : K) (n w1 w2 : V) (hdd : ddSel t o = some (toi, n, w1, w2))
    (hmax : toi ≤ o.maxToi) (hc : o.cig = false ∨ t.cMax.isSome) :
    ∃ h, @castGlue K (fieldNum K sq) V dot backOff invRotNeg invAct vel12 t o = some h ∧ h.toi = toi := by
  unfold ddSel at hdd
  unfold castGlue
  simp only [hz, Bool.false_eq_true, if_false, hdd, not_lt.2 hmax, hs, Bool.not_true, Bool.or_false, Bool.false_and]
  rcases hc with hc | hc
  · simp only [hc, Bool.false_and, Bool.false_eq_true, if_false]
    exact ⟨_, rfl, rfl⟩
  · split
    · obtain ⟨c, hc'⟩ := Option.isSome_iff_exists.1 hc
      rw [hc']
      exact ⟨_, rfl, rfl⟩
    · exact ⟨_, rfl, rfl⟩

end glue

/-! ## geometry of the converged branch -/

private theorem act_invAct3 (m : Iso3 K) (p : V3 K) (h : UnitQ m) :
    letI := fieldNum K sq
    m.act (m.invAct p) = p := by
  simp only [Iso3.act, Iso3.invAct]
  rw [rot_invRot sq m _ h]
  obtain ⟨x, y, z⟩ := p
  apply V3.ext' <;> simp [V3.add, V3.sub]

theorem castSmSm3_converged_geometry (pos12 : Iso3 K) (hq : UnitQ pos12) (vel12 : V3 K) (t : Taps (V3 K) K) (o : Opts K)
    (hz : @relEqZero K (fieldNum K sq) t.velNorm = false) (toi : K) (n w1 w2 : V3 K) (hdd : ddSel t o = some (toi, n, w1, w2))
    (hmax : toi ≤ o.maxToi) (hlate : (1 : K) / 100000 ≤ toi)
    (hcert : letI := fieldNum K sq; w1 = w2.add (vel12.smul toi)) :
    letI := fieldNum K sq
    let h : Hit (V3 K) K := ⟨toi, w1.sub (n.smul o.target), pos12.invAct w2, n, pos12.invRot n.neg, .converged⟩
    castSmSm3 pos12 vel12 t o = some h ∧ pos12.rot h.n2 = n.neg ∧
      ((pos12.act h.w2).add (vel12.smul h.toi)).sub h.w1 = n.smul o.target := by
  unfold ddSel at hdd
  have hpos : (0 : K) < toi := lt_of_lt_of_le (by norm_num) hlate
  have h1 : @neq K (fieldNum K sq) toi 0 = false := by
    simp only [neq, Bool.and_eq_false_iff, decide_eq_false_iff_not, not_le]
    exact Or.inl hpos
  refine ⟨?_, ?_, ?_⟩
  · unfold castSmSm3 castGlue
    simp only [hz, Bool.false_eq_true, if_false, hdd, not_lt.2 hmax, lit5, not_lt.2 hlate, decide_false, Bool.and_false, h1]
  · exact rot_invRot sq pos12 _ hq
  · simp only
    rw [act_invAct3 sq pos12 w2 hq, hcert]
    obtain ⟨a, b, c⟩ := w2; obtain ⟨d, e, f⟩ := vel12; obtain ⟨g, h, i⟩ := n
    apply V3.ext' <;> simp only [V3.add, V3.sub, V3.smul] <;> ring

/-- non-vacuity of the hypotheses of `castSmSm3_converged_geometry`: identity pose, shape 2 approaching along `-x` with
unit speed, GJK time 2, witnesses `(1,0,0)` and `(3,0,0)` -/
example : letI := fieldNum ℚ id
    UnitQ (⟨0, 0, 0, 1, ⟨0, 0, 0⟩⟩ : Iso3 ℚ) ∧ relEqZero (1 : ℚ) = false ∧ (1 : ℚ) / 100000 ≤ 2 ∧
    ((⟨1, 0, 0⟩ : V3 ℚ) = (⟨3, 0, 0⟩ : V3 ℚ).add ((⟨-1, 0, 0⟩ : V3 ℚ).smul 2)) := by
  refine ⟨?_, ?_, ?_, ?_⟩
  · simp [UnitQ]
  · decide +kernel
  · norm_num
  · simp only [V3.add, V3.smul]; norm_num

private theorem act_invAct2 (m : Iso2 K) (p : V2 K) (h : UnitC m) :
    letI := fieldNum K sq
    m.act (m.invAct p) = p := by
  simp only [Iso2.act, Iso2.invAct]
  rw [rot_invRot2 sq m _ h]
  obtain ⟨x, y⟩ := p
  apply V2.ext' <;> simp [V2.add, V2.sub]

theorem castSmSm2_converged_geometry (pos12 : Iso2 K) (hq : UnitC pos12) (vel12 : V2 K) (t : Taps (V2 K) K) (o : Opts K)
    (hz : @relEqZero K (fieldNum K sq) t.velNorm = false) (toi : K) (n w1 w2 : V2 K) (hdd : ddSel t o = some (toi, n, w1, w2))
    (hmax : toi ≤ o.maxToi) (hlate : (1 : K) / 100000 ≤ toi)
    (hcert : letI := fieldNum K sq; w1 = w2.add (vel12.smul toi)) :
    letI := fieldNum K sq
    let h : Hit (V2 K) K := ⟨toi, w1.sub (n.smul o.target), pos12.invAct w2, n, pos12.invRot n.neg, .converged⟩
    castSmSm2 pos12 vel12 t o = some h ∧ pos12.rot h.n2 = n.neg ∧
      ((pos12.act h.w2).add (vel12.smul h.toi)).sub h.w1 = n.smul o.target := by
  unfold ddSel at hdd
  have hpos : (0 : K) < toi := lt_of_lt_of_le (by norm_num) hlate
  have h1 : @neq K (fieldNum K sq) toi 0 = false := by
    simp only [neq, Bool.and_eq_false_iff, decide_eq_false_iff_not, not_le]
    exact Or.inl hpos
  refine ⟨?_, ?_, ?_⟩
  · unfold castSmSm2 castGlue
    simp only [hz, Bool.false_eq_true, if_false, hdd, not_lt.2 hmax, lit5, not_lt.2 hlate, decide_false, Bool.and_false, h1]
  · exact rot_invRot2 sq pos12 _ hq
  · simp only
    rw [act_invAct2 sq pos12 w2 hq, hcert]
    obtain ⟨a, b⟩ := w2; obtain ⟨d, e⟩ := vel12; obtain ⟨g, h⟩ := n
    apply V2.ext' <;> simp only [V2.add, V2.sub, V2.smul] <;> ring

end C06
