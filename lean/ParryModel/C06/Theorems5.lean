import ParryModel.Field
import ParryModel.C06.Walk2
import ParryModel.C06.Theorems3
/-!
# C06 theorems, part 5: the cell walk of the 2-D height-field shape cast (`C06/Walk2.lean`) — full covering statement

"`None` only if the distance stays above the target on the whole interval" and "the smallest time" need the walk to hand every
segment the moving (loosened) box gets over before `max_time_of_impact` to the part cast.  In 2-D the walk is one-dimensional
and the statement is proved here at full strength, for every velocity (right, left, no horizontal motion), every start (inside,
on a grid line, outside the field on either side) and every `max_time_of_impact`:

* `walk2_covers`: if at some time `t ∈ [0, max_time_of_impact]` the x-range of the moving box meets the open x-range of an
  existing segment `k`, then `k` is in the trace.
* `walk2_terminates`: `num_cells` iterations of fuel are enough (the `while` loop ends).
* `walk2_trace_sound`: every index in the trace is an existing (in-field, not removed) segment.
* `loopR_break_sound`: the `break` of the rightward loop is sound — the segment it stops at, and every later one, is not
  reached by the leading face of the box before `max_time_of_impact`.
* `bestOf_none_iff`, `bestOf_min`: the running minimum over the part casts returns `None` iff every part cast did, and
  otherwise a hit of the list with the smallest time of impact (the first such one).
-/
namespace C06
open Model Model.HW Model.HW2

/-! ## list mechanics (any scalar type) -/
section Mech
variable {K : Type} [Num K]

/-- segment `k` exists: inside the field and not removed -/
def SegAt (h : HF2 K) (k : Int) : Prop := 0 ≤ k ∧ k < h.n ∧ (h.removed.contains k.toNat) = false

theorem mem_hitSeg (h : HF2 K) (out : List Int) (c k : Int) :
    k ∈ hitSeg h out c ↔ k ∈ out ∨ (k = c ∧ SegAt h c) := by
  unfold hitSeg SegAt
  split
  · rename_i hc
    simp only [List.mem_append, List.mem_singleton]
    constructor
    · rintro (h1 | h1)
      · exact Or.inl h1
      · refine Or.inr ⟨h1, hc.1, hc.2.1, ?_⟩
        simpa using hc.2.2
    · rintro (h1 | ⟨h1, _⟩)
      · exact Or.inl h1
      · exact Or.inr h1
  · rename_i hc
    constructor
    · exact Or.inl
    · rintro (h1 | ⟨_, h2, h3, h4⟩)
      · exact h1
      · exact absurd ⟨h2, h3, by simpa using h4⟩ hc

theorem mem_foldl_hitSeg (h : HF2 K) (l : List Int) (out : List Int) (k : Int) :
    k ∈ l.foldl (hitSeg h) out ↔ k ∈ out ∨ (k ∈ l ∧ SegAt h k) := by
  induction l generalizing out with
  | nil => simp
  | cons a l ih =>
    rw [List.foldl_cons, ih, mem_hitSeg]
    simp only [List.mem_cons]
    constructor
    · rintro ((h1 | ⟨rfl, h2⟩) | ⟨h1, h2⟩)
      · exact Or.inl h1
      · exact Or.inr ⟨Or.inl rfl, h2⟩
      · exact Or.inr ⟨Or.inr h1, h2⟩
    · rintro (h1 | ⟨rfl | h1, h2⟩)
      · exact Or.inl (Or.inl h1)
      · exact Or.inl (Or.inr ⟨rfl, h2⟩)
      · exact Or.inr ⟨h1, h2⟩

variable (q : Quant K)

/-- the quantity the rightward loop compares with `max_time_of_impact` when it is about to enter segment `c` -/
def entryR (h : HF2 K) (o d hext : K) (c : Int) : K := (cellWidth q h * q.ofInt c + startX h - o) / d - hext / nabs d
/-- the quantity the leftward loop compares with `max_time_of_impact` when it is about to leave line `c` for segment `c - 1` -/
def entryL (h : HF2 K) (o d hext : K) (c : Int) : K := (o - cellWidth q h * q.ofInt c - startX h) / d - hext / nabs d

theorem loopR_mono (h : HF2 K) (o d hext maxToi : K) (f : Nat) (c : Int) (out res : List Int)
    (hl : loopR q h o d hext maxToi f c out = some res) : ∀ x ∈ out, x ∈ res := by
  induction f generalizing c out with
  | zero =>
    unfold loopR at hl
    split at hl
    · cases hl
    · cases hl; exact fun _ hx => hx
  | succ f ih =>
    unfold loopR at hl
    split at hl
    · simp only at hl
      split at hl
      · cases hl; exact fun _ hx => hx
      · intro x hx
        exact ih _ _ hl x ((mem_hitSeg h out _ x).2 (Or.inl hx))
    · cases hl; exact fun _ hx => hx

theorem loopL_mono (h : HF2 K) (o d hext maxToi : K) (f : Nat) (c : Int) (out res : List Int)
    (hl : loopL q h o d hext maxToi f c out = some res) : ∀ x ∈ out, x ∈ res := by
  induction f generalizing c out with
  | zero =>
    unfold loopL at hl
    split at hl
    · cases hl
    · cases hl; exact fun _ hx => hx
  | succ f ih =>
    unfold loopL at hl
    split at hl
    · simp only at hl
      split at hl
      · cases hl; exact fun _ hx => hx
      · intro x hx
        exact ih _ _ hl x ((mem_hitSeg h out _ x).2 (Or.inl hx))
    · cases hl; exact fun _ hx => hx

/-- rightward loop: a segment ahead of `c` is recorded as long as no `break` fires on the way to it -/
theorem loopR_covers (h : HF2 K) (o d hext maxToi : K) (f : Nat) (c : Int) (out res : List Int)
    (hl : loopR q h o d hext maxToi f c out = some res) (k : Int) (hck : c < k) (hk : SegAt h k)
    (hno : ∀ c', c < c' → c' ≤ k → ¬ (maxToi ≤ entryR q h o d hext c')) : k ∈ res := by
  have hkn : k < h.n := hk.2.1
  induction f generalizing c out with
  | zero =>
    unfold loopR at hl
    split at hl
    · cases hl
    · omega
  | succ f ih =>
    unfold loopR at hl
    split at hl
    · simp only at hl
      split at hl
      · rename_i hb
        exact absurd hb (hno (c + 1) (by omega) (by omega))
      · by_cases hkc : k = c + 1
        · subst hkc
          exact loopR_mono q h o d hext maxToi f _ _ res hl _ ((mem_hitSeg h out _ _).2 (Or.inr ⟨rfl, hk⟩))
        · exact ih (c + 1) _ hl (by omega) (fun c' h1 h2 => hno c' (by omega) h2)
    · omega

/-- leftward loop: a segment behind line `c` is recorded as long as no `break` fires on the way to it -/
theorem loopL_covers (h : HF2 K) (o d hext maxToi : K) (f : Nat) (c : Int) (out res : List Int)
    (hl : loopL q h o d hext maxToi f c out = some res) (k : Int) (hck : k < c) (hk : SegAt h k)
    (hno : ∀ c', k < c' → c' ≤ c → ¬ (maxToi ≤ entryL q h o d hext c')) : k ∈ res := by
  have hk0 : 0 ≤ k := hk.1
  induction f generalizing c out with
  | zero =>
    unfold loopL at hl
    split at hl
    · cases hl
    · omega
  | succ f ih =>
    unfold loopL at hl
    split at hl
    · simp only at hl
      split at hl
      · rename_i hb
        exact absurd hb (hno c (by omega) (by omega))
      · by_cases hkc : k = c - 1
        · subst hkc
          exact loopL_mono q h o d hext maxToi f _ _ res hl _ ((mem_hitSeg h out _ _).2 (Or.inr ⟨rfl, hk⟩))
        · exact ih (c - 1) _ hl (by omega) (fun c' h1 h2 => hno c' h1 (by omega))
    · omega

/-- the rightward loop ends within `num_cells - 1 - c` iterations -/
theorem loopR_some (h : HF2 K) (o d hext maxToi : K) (f : Nat) (c : Int) (out : List Int)
    (hf : (h.n : Int) - 1 - c ≤ f) : ∃ res, loopR q h o d hext maxToi f c out = some res := by
  induction f generalizing c out with
  | zero =>
    unfold loopR
    split
    · omega
    · exact ⟨_, rfl⟩
  | succ f ih =>
    unfold loopR
    split
    · simp only
      split
      · exact ⟨_, rfl⟩
      · exact ih _ _ (by push_cast at hf ⊢; omega)
    · exact ⟨_, rfl⟩

theorem loopL_some (h : HF2 K) (o d hext maxToi : K) (f : Nat) (c : Int) (out : List Int)
    (hf : c ≤ f) : ∃ res, loopL q h o d hext maxToi f c out = some res := by
  induction f generalizing c out with
  | zero =>
    unfold loopL
    split
    · omega
    · exact ⟨_, rfl⟩
  | succ f ih =>
    unfold loopL
    split
    · simp only
      split
      · exact ⟨_, rfl⟩
      · exact ih _ _ (by push_cast at hf ⊢; omega)
    · exact ⟨_, rfl⟩

/-- everything the loops add is an existing segment -/
theorem loopR_sound (h : HF2 K) (o d hext maxToi : K) (f : Nat) (c : Int) (out res : List Int)
    (hl : loopR q h o d hext maxToi f c out = some res) (hout : ∀ x ∈ out, SegAt h x) : ∀ x ∈ res, SegAt h x := by
  induction f generalizing c out with
  | zero =>
    unfold loopR at hl
    split at hl
    · cases hl
    · cases hl; exact hout
  | succ f ih =>
    unfold loopR at hl
    split at hl
    · simp only at hl
      split at hl
      · cases hl; exact hout
      · refine ih _ _ hl ?_
        intro x hx
        rcases (mem_hitSeg h out _ x).1 hx with h1 | ⟨rfl, h2⟩
        · exact hout x h1
        · exact h2
    · cases hl; exact hout

theorem loopL_sound (h : HF2 K) (o d hext maxToi : K) (f : Nat) (c : Int) (out res : List Int)
    (hl : loopL q h o d hext maxToi f c out = some res) (hout : ∀ x ∈ out, SegAt h x) : ∀ x ∈ res, SegAt h x := by
  induction f generalizing c out with
  | zero =>
    unfold loopL at hl
    split at hl
    · cases hl
    · cases hl; exact hout
  | succ f ih =>
    unfold loopL at hl
    split at hl
    · simp only at hl
      split at hl
      · cases hl; exact hout
      · refine ih _ _ hl ?_
        intro x hx
        rcases (mem_hitSeg h out _ x).1 hx with h1 | ⟨rfl, h2⟩
        · exact hout x h1
        · exact h2
    · cases hl; exact hout

end Mech

/-! ## the walk over an ordered field -/
variable {K : Type} [Field K] [LinearOrder K] [IsStrictOrderedRing K] (sq : K → K)

/-- the ceiling conversion is the mathematical one (as far as the walk needs it) -/
structure LawfulCeil (q : Quant K) : Prop where
  le_ceil : ∀ x : K, x ≤ ((q.ceil x : Int) : K)

/-- grid line `k` as the loops compute it: `cell_width() * k + start_x()` -/
def X2 (q : Quant K) (h : HF2 K) (k : Int) : K :=
  @cellWidth K (fieldNum K sq) q h * q.ofInt k + @startX K (fieldNum K sq) h

private theorem lit_half5 : @lit K (fieldNum K sq) 1 2 = 1 / 2 := by
  rw [fieldNum_lit]; norm_num
private theorem lit_neg_half5 : @lit K (fieldNum K sq) (-1) 2 = -(1 / 2) := by
  rw [fieldNum_lit]; norm_num

/-- closed form of the grid lines: `num_cells` equal cells on `[-scale.x / 2, scale.x / 2]` — the end points of
`segment_at(k)`, `(-0.5 + k / num_cells) * scale.x` -/
theorem X2_eq (q : Quant K) (hq : LawfulQuant q) (h : HF2 K) (k : Int) :
    X2 sq q h k = (-(1 / 2) + 1 / (h.n : K) * (k : K)) * h.scale.x := by
  simp only [X2, cellWidth, HW2.unitCellWidth, startX, hq.ofInt_eq, lit_neg_half5]
  push_cast; ring

theorem X2_mono (q : Quant K) (hq : LawfulQuant q) (h : HF2 K) (hn : 0 < h.n) (hs : 0 < h.scale.x) (a b : Int) (hab : a ≤ b) :
    X2 sq q h a ≤ X2 sq q h b := by
  rw [X2_eq sq q hq, X2_eq sq q hq]
  have hn' : (0 : K) < (h.n : K) := by exact_mod_cast hn
  have hab' : (a : K) ≤ (b : K) := by exact_mod_cast hab
  have : 1 / (h.n : K) * (a : K) ≤ 1 / (h.n : K) * (b : K) := mul_le_mul_of_nonneg_left hab' (by positivity)
  nlinarith

/-- the unclamped range of a box contains every segment whose open x-range the box meets -/
theorem range2_contains (q : Quant K) (hq : LawfulQuant q) (hc : LawfulCeil q) (h : HF2 K) (hn : 0 < h.n) (hs : 0 < h.scale.x)
    (b : Aabb2 K) (k : Int) :
    (b.mins.x < X2 sq q h (k + 1) → (@HW2.rangeInAabb K (fieldNum K sq) q h b).1 ≤ k) ∧
    (X2 sq q h k < b.maxs.x → k < (@HW2.rangeInAabb K (fieldNum K sq) q h b).2) := by
  have hn' : (0 : K) < (h.n : K) := by exact_mod_cast hn
  have hu : ((h.n : Int) : K) + 1 - 1 = (h.n : K) := by push_cast; ring
  simp only [HW2.rangeInAabb, quantFloor, quantCeil, HW2.unitCellWidth, hq.ofInt_eq, lit_half5]
  rw [X2_eq sq q hq, X2_eq sq q hq]
  push_cast
  have hu' : (h.n : K) + 1 - 1 = (h.n : K) := by ring
  rw [hu']
  constructor
  · intro hlt
    set y := (b.mins.x / h.scale.x + 1 / 2) / (1 / (h.n : K)) with hy
    have hy' : y = (b.mins.x / h.scale.x + 1 / 2) * h.n := by rw [hy]; field_simp
    have h1 := hq.floor_le y
    have h2 : b.mins.x / h.scale.x < -(1 / 2) + 1 / (h.n : K) * ((k : K) + 1) := by
      rw [div_lt_iff₀ hs]; exact hlt
    have h3 : y < (k : K) + 1 := by
      rw [hy']
      have : (b.mins.x / h.scale.x + 1 / 2) * h.n < (1 / (h.n : K) * ((k : K) + 1)) * h.n :=
        mul_lt_mul_of_pos_right (by linarith) hn'
      have e : (1 / (h.n : K) * ((k : K) + 1)) * h.n = (k : K) + 1 := by field_simp
      linarith
    have h4 : ((q.floor y : Int) : K) < ((k + 1 : Int) : K) := by push_cast; linarith
    have h5 : q.floor y < k + 1 := by exact_mod_cast h4
    omega
  · intro hlt
    set y := (b.maxs.x / h.scale.x + 1 / 2) / (1 / (h.n : K)) with hy
    have hy' : y = (b.maxs.x / h.scale.x + 1 / 2) * h.n := by rw [hy]; field_simp
    have h1 := hc.le_ceil y
    have h2 : -(1 / 2) + 1 / (h.n : K) * (k : K) < b.maxs.x / h.scale.x := by
      rw [lt_div_iff₀ hs]; exact hlt
    have h3 : (k : K) < y := by
      rw [hy']
      have : (1 / (h.n : K) * (k : K)) * h.n < (b.maxs.x / h.scale.x + 1 / 2) * h.n :=
        mul_lt_mul_of_pos_right (by linarith) hn'
      have e : (1 / (h.n : K) * (k : K)) * h.n = (k : K) := by field_simp
      linarith
    have h4 : ((k : Int) : K) < ((q.ceil y : Int) : K) := by linarith
    exact_mod_cast h4

/-- the lower end of the unclamped range is a grid line at or before the low face of the box -/
theorem range2_start_le (q : Quant K) (hq : LawfulQuant q) (h : HF2 K) (hn : 0 < h.n) (hs : 0 < h.scale.x) (b : Aabb2 K) :
    X2 sq q h (@HW2.rangeInAabb K (fieldNum K sq) q h b).1 ≤ b.mins.x := by
  have hn' : (0 : K) < (h.n : K) := by exact_mod_cast hn
  simp only [HW2.rangeInAabb, quantFloor, HW2.unitCellWidth, hq.ofInt_eq, lit_half5]
  rw [X2_eq sq q hq]
  push_cast
  have hu' : (h.n : K) + 1 - 1 = (h.n : K) := by ring
  rw [hu']
  set y := (b.mins.x / h.scale.x + 1 / 2) / (1 / (h.n : K)) with hy
  have hy' : y = (b.mins.x / h.scale.x + 1 / 2) * h.n := by rw [hy]; field_simp
  have h1 := hq.floor_le y
  set c : K := ((q.floor y : Int) : K)
  have h3 : 1 / (h.n : K) * c ≤ b.mins.x / h.scale.x + 1 / 2 := by
    have : c / (h.n : K) ≤ b.mins.x / h.scale.x + 1 / 2 := by rw [div_le_iff₀ hn']; linarith
    have e : 1 / (h.n : K) * c = c / h.n := by ring
    linarith
  have hp : b.mins.x = b.mins.x / h.scale.x * h.scale.x := by field_simp
  calc (-(1 / 2) + 1 / (h.n : K) * c) * h.scale.x ≤ (b.mins.x / h.scale.x) * h.scale.x :=
        mul_le_mul_of_nonneg_right (by linarith) (le_of_lt hs)
    _ = b.mins.x := hp.symm

/-- the rightward loop's test value is the time at which the LEADING face `maxs.x` of the box reaches line `c` -/
theorem entryR_eq (q : Quant K) (h : HF2 K) (b : Aabb2 K) (d : K) (hd : 0 < d) (c : Int) :
    @entryR K (fieldNum K sq) q h (@Aabb2.center K (fieldNum K sq) b).x d (@Aabb2.halfExtents K (fieldNum K sq) b).x c
      = (X2 sq q h c - b.maxs.x) / d := by
  simp only [entryR, X2, Aabb2.center, Aabb2.halfExtents, V2.center, V2.add, V2.sub, V2.smul, lit_half5, fieldNum_nabs,
    abs_of_pos hd]
  field_simp
  ring

/-- the leftward loop's test value is MINUS the time at which the trailing face `maxs.x` of the box reaches line `c`
(the code divides `origin - line` by the negative velocity), so it never exceeds a non-negative `max_time_of_impact` for a
line behind the box: the leftward loop tests every segment down to the first one. -/
theorem entryL_eq (q : Quant K) (h : HF2 K) (b : Aabb2 K) (d : K) (hd : d < 0) (c : Int) :
    @entryL K (fieldNum K sq) q h (@Aabb2.center K (fieldNum K sq) b).x d (@Aabb2.halfExtents K (fieldNum K sq) b).x c
      = (b.maxs.x - X2 sq q h c) / d := by
  have hd' : d ≠ 0 := ne_of_lt hd
  have hnd : -d ≠ 0 := neg_ne_zero.2 hd'
  simp only [entryL, X2, Aabb2.center, Aabb2.halfExtents, V2.center, V2.add, V2.sub, V2.smul, lit_half5, fieldNum_nabs,
    abs_of_neg hd]
  field_simp
  ring

private theorem neq_zero_iff (x : K) : @neq K (fieldNum K sq) x 0 = true ↔ x = 0 := by
  simp only [neq, Bool.and_eq_true, decide_eq_true_eq]
  exact ⟨fun ⟨a, b⟩ => le_antisymm a b, fun e => by subst e; exact ⟨le_refl _, le_refl _⟩⟩

/-- **The 2-D walk covers the path of the box** (full strength).  Field of `num_cells ≥ 1` cells, `scale.x > 0`, any box with
`mins.x ≤ maxs.x`, any velocity, any `max_time_of_impact`: if at some time `t ∈ [0, max_time_of_impact]` the x-range
`[mins.x + t v, maxs.x + t v]` of the moving box meets the open x-range `(X k, X (k+1))` of an existing segment `k`, the walk
hands segment `k` to the part cast. -/
theorem walk2_covers (q : Quant K) (hq : LawfulQuant q) (hc : LawfulCeil q) (h : HF2 K) (hn : 0 < h.n) (hs : 0 < h.scale.x)
    (b : Aabb2 K) (hbox : b.mins.x ≤ b.maxs.x) (vel : V2 K) (maxToi : K) (fuel : Nat) (res : List Int)
    (hw : @HW2.walk K (fieldNum K sq) q h b vel maxToi fuel = some res)
    (k : Int) (hk : SegAt h k) (t : K) (ht0 : 0 ≤ t) (ht1 : t ≤ maxToi)
    (hlo : b.mins.x + t * vel.x < X2 sq q h (k + 1)) (hhi : X2 sq q h k < b.maxs.x + t * vel.x) : k ∈ res := by
  letI := fieldNum K sq
  have hk0 : 0 ≤ k := hk.1
  have hkn : k < h.n := hk.2.1
  have hr := range2_contains sq q hq hc h hn hs b k
  unfold HW2.walk at hw
  simp only at hw
  rcases lt_trichotomy vel.x 0 with hneg | hzero | hpos
  · -- leftward
    have hnr : ¬ (0 < vel.x) := not_lt.2 (le_of_lt hneg)
    have hnz : neq vel.x 0 = false := by
      rw [Bool.eq_false_iff]; intro e; exact (ne_of_lt hneg) ((neq_zero_iff sq _).1 e)
    simp only [hnr, decide_false, Bool.false_eq_true, if_false, hnz] at hw
    have h2 : k < (HW2.rangeInAabb q h b).2 := hr.2 (by nlinarith)
    by_cases hin : (HW2.rangeInAabb q h b).1 - 1 ≤ k
    · refine loopL_mono q h _ _ _ _ _ _ _ _ hw k ?_
      rw [mem_foldl_hitSeg]
      exact Or.inr ⟨mem_irange_clamp _ _ _ _ hin h2 hk0 hkn, hk⟩
    · refine loopL_covers q h _ _ _ _ _ _ _ _ hw k (by split <;> omega) hk ?_
      intro c' h1 h2' hb
      rw [entryL_eq sq q h b vel.x hneg c'] at hb
      have hc1 : c' ≤ (HW2.rangeInAabb q h b).1 - 1 := by
        have : c' ≤ (if (h.n : Int) < (HW2.rangeInAabb q h b).1 - 1 then (h.n : Int) else (HW2.rangeInAabb q h b).1 - 1) := h2'
        split at this <;> omega
      have hX : X2 sq q h c' ≤ b.mins.x :=
        le_trans (X2_mono sq q hq h hn hs _ _ (by omega)) (range2_start_le sq q hq h hn hs b)
      have hneg' : (b.maxs.x - X2 sq q h c') / vel.x ≤ 0 :=
        div_nonpos_of_nonneg_of_nonpos (by linarith) (le_of_lt hneg)
      have hX' : X2 sq q h c' < b.maxs.x ∨ maxToi ≤ 0 := by
        by_cases hm : maxToi ≤ 0
        · exact Or.inr hm
        · left
          by_contra hcon
          have : (b.maxs.x - X2 sq q h c') / vel.x = 0 := by
            have : b.maxs.x - X2 sq q h c' = 0 := by linarith
            rw [this, zero_div]
          rw [this] at hb; exact hm hb
      rcases hX' with hX' | hm
      · have : (b.maxs.x - X2 sq q h c') / vel.x < 0 := div_neg_of_pos_of_neg (by linarith) hneg
        linarith
      · -- max_time_of_impact = 0 = t: the box does not move, and `k < range.start - 1` contradicts the overlap
        have ht : t = 0 := le_antisymm (le_trans ht1 hm) ht0
        subst ht
        have := hr.1 (by linarith)
        omega
  · -- no horizontal motion
    have hnr : ¬ (0 < vel.x) := by rw [hzero]; exact lt_irrefl _
    have hz : neq vel.x 0 = true := (neq_zero_iff sq _).2 hzero
    simp only [hnr, decide_false, Bool.false_eq_true, if_false, hz, if_true] at hw
    cases hw
    rw [hzero] at hlo hhi
    have h1 := hr.1 (by linarith)
    have h2 := hr.2 (by linarith)
    rw [mem_foldl_hitSeg]
    exact Or.inr ⟨mem_irange_clamp _ _ _ _ (by omega) h2 hk0 hkn, hk⟩
  · -- rightward
    have hnz : neq vel.x 0 = false := by
      rw [Bool.eq_false_iff]; intro e; exact (ne_of_gt hpos) ((neq_zero_iff sq _).1 e)
    simp only [hpos, decide_true, if_true, hnz, Bool.false_eq_true, if_false] at hw
    have h1 : (HW2.rangeInAabb q h b).1 ≤ k := hr.1 (by nlinarith)
    by_cases hin : k < (HW2.rangeInAabb q h b).2 + 1
    · refine loopR_mono q h _ _ _ _ _ _ _ _ hw k ?_
      rw [mem_foldl_hitSeg]
      exact Or.inr ⟨mem_irange_clamp _ _ _ _ h1 hin hk0 hkn, hk⟩
    · refine loopR_covers q h _ _ _ _ _ _ _ _ hw k (by split <;> omega) hk ?_
      intro c' _ h2' hb
      rw [entryR_eq sq q h b vel.x hpos c'] at hb
      have hX : X2 sq q h c' ≤ X2 sq q h k := X2_mono sq q hq h hn hs _ _ h2'
      have : (X2 sq q h c' - b.maxs.x) / vel.x < t := by
        rw [div_lt_iff₀ hpos]; linarith
      linarith

/-- **The 2-D walk ends**: `num_cells` units of fuel are enough, whatever the start and the velocity. -/
theorem walk2_terminates (q : Quant K) (h : HF2 K) (b : Aabb2 K) (vel : V2 K) (maxToi : K) (fuel : Nat) (hf : h.n ≤ fuel) :
    ∃ res, @HW2.walk K (fieldNum K sq) q h b vel maxToi fuel = some res := by
  letI := fieldNum K sq
  unfold HW2.walk
  simp only
  split
  · exact ⟨_, rfl⟩
  · split
    · exact loopR_some q h _ _ _ _ _ _ _ (by split <;> omega)
    · exact loopL_some q h _ _ _ _ _ _ _ (by split <;> omega)

/-- every index of the trace is an existing segment (inside the field, not removed) -/
theorem walk2_trace_sound (q : Quant K) (h : HF2 K) (b : Aabb2 K) (vel : V2 K) (maxToi : K) (fuel : Nat) (res : List Int)
    (hw : @HW2.walk K (fieldNum K sq) q h b vel maxToi fuel = some res) : ∀ x ∈ res, SegAt h x := by
  letI := fieldNum K sq
  unfold HW2.walk at hw
  simp only at hw
  have h0 : ∀ (l : List Int), ∀ x ∈ l.foldl (hitSeg h) [], SegAt h x := by
    intro l x hx
    rcases (mem_foldl_hitSeg h l [] x).1 hx with h1 | h1
    · cases h1
    · exact h1.2
  split at hw
  · cases hw; exact h0 _
  · split at hw
    · exact loopR_sound q h _ _ _ _ _ _ _ _ hw (h0 _)
    · exact loopL_sound q h _ _ _ _ _ _ _ _ hw (h0 _)

/-- **The `break` of the rightward loop is sound**: when the test fires for segment `c` (`max_time_of_impact ≤` the time the
leading face needs to reach its first line), the open x-range of no segment `k ≥ c` is met by the box at any time
`t ≤ max_time_of_impact`. -/
theorem loopR_break_sound (q : Quant K) (hq : LawfulQuant q) (h : HF2 K) (hn : 0 < h.n) (hs : 0 < h.scale.x) (b : Aabb2 K)
    (d : K) (hd : 0 < d) (maxToi : K) (c : Int)
    (hb : maxToi ≤ @entryR K (fieldNum K sq) q h (@Aabb2.center K (fieldNum K sq) b).x d (@Aabb2.halfExtents K (fieldNum K sq) b).x c)
    (k : Int) (hk : c ≤ k) (t : K) (ht1 : t ≤ maxToi) : b.maxs.x + t * d ≤ X2 sq q h k := by
  rw [entryR_eq sq q h b d hd c] at hb
  have hX : X2 sq q h c ≤ X2 sq q h k := X2_mono sq q hq h hn hs _ _ hk
  have : t ≤ (X2 sq q h c - b.maxs.x) / d := le_trans ht1 hb
  rw [le_div_iff₀ hd] at this
  linarith

/-- **The 2-D walk, total statement**: with `num_cells` units of fuel the walk ends, traces only existing segments and covers every
existing segment the moving box gets over within `[0, max_time_of_impact]` (`walk2_terminates` + `walk2_trace_sound` + `walk2_covers`). -/
theorem walk2_total (q : Quant K) (hq : LawfulQuant q) (hc : LawfulCeil q) (h : HF2 K) (hn : 0 < h.n) (hs : 0 < h.scale.x)
    (b : Aabb2 K) (hbox : b.mins.x ≤ b.maxs.x) (vel : V2 K) (maxToi : K) (fuel : Nat) (hf : h.n ≤ fuel) :
    ∃ res, @HW2.walk K (fieldNum K sq) q h b vel maxToi fuel = some res ∧ (∀ x ∈ res, SegAt h x) ∧
      ∀ (k : Int) (t : K), SegAt h k → 0 ≤ t → t ≤ maxToi →
        b.mins.x + t * vel.x < X2 sq q h (k + 1) → X2 sq q h k < b.maxs.x + t * vel.x → k ∈ res := by
  obtain ⟨res, hw⟩ := walk2_terminates sq q h b vel maxToi fuel hf
  exact ⟨res, hw, walk2_trace_sound sq q h b vel maxToi fuel res hw,
    fun k t hk t0 t1 o1 o2 => walk2_covers sq q hq hc h hn hs b hbox vel maxToi fuel res hw k hk t t0 t1 o1 o2⟩

/-- non-vacuity of `LawfulCeil`: the rational ceiling -/
example : LawfulCeil (K := ℚ) ⟨Rat.floor, Rat.ceil, fun i => (i : ℚ)⟩ := ⟨fun _ => Rat.le_ceil⟩

/-- non-vacuity of `walk2_covers` / `loopR_break_sound`: 4 unit cells on `[-2, 2]`, segment 2 removed, box `[-7/4, -5/4]` in cell 0
moving right at speed 1, `max_time_of_impact = 3/2`: the initial block is `{0, 1}`, segment 2 (reached at `5/4`) is removed, the
loop stops at segment 3 (its line `x = 1` is reached at `9/4 ≥ 3/2`).  The same box in cell 3 moving LEFT with
`max_time_of_impact = 1/2` is tested against every segment down to 0, although it only gets as far as `x = 3/4`. -/
example :
    let q : Quant ℚ := ⟨Rat.floor, Rat.ceil, fun i => (i : ℚ)⟩
    let h : HF2 ℚ := ⟨4, ⟨4, 1⟩, [2]⟩
    letI := fieldNum ℚ id
    HW2.walk q h ⟨⟨-7 / 4, 0⟩, ⟨-5 / 4, 1⟩⟩ ⟨1, 0⟩ (3 / 2) 4 = some [0, 1] ∧
    HW2.walk q h ⟨⟨-7 / 4, 0⟩, ⟨-5 / 4, 1⟩⟩ ⟨1, 0⟩ (5 / 2) 4 = some [0, 1, 3] ∧
    HW2.walk q h ⟨⟨5 / 4, 0⟩, ⟨7 / 4, 1⟩⟩ ⟨-1, 0⟩ (1 / 2) 4 = some [3, 1, 0] ∧
    HW2.walk q h ⟨⟨5 / 4, 0⟩, ⟨7 / 4, 1⟩⟩ ⟨0, -1⟩ (1 / 2) 4 = some [3] ∧
    X2 id q h 3 = 1 ∧ SegAt h 3 ∧ ¬ SegAt h 2 := by
  refine ⟨by decide +kernel, by decide +kernel, by decide +kernel, by decide +kernel, ?_, by unfold SegAt; decide, by unfold SegAt; decide⟩
  simp only [X2, cellWidth, HW2.unitCellWidth, startX, fieldNum_lit]
  norm_num


/-! ## the running minimum over the part casts -/

private theorem bestOf_aux {H : Type} (toi : H → K) (big : K) (hits : List (Option H)) (init : Option H)
    (hbig : ∀ x, some x ∈ hits → toi x < big) (hinit : ∀ b, init = some b → toi b < big) :
    let step := fun (best : Option H) (hit : Option H) =>
      match hit with
      | none => best
      | some x => if toi x < (match best with | some b => toi b | none => big) then some x else best
    (hits.foldl step init = none ↔ init = none ∧ ∀ x ∈ hits, x = none) ∧
    (∀ r, hits.foldl step init = some r →
      (init = some r ∨ some r ∈ hits) ∧ (∀ b, init = some b → toi r ≤ toi b) ∧ ∀ x, some x ∈ hits → toi r ≤ toi x) := by
  intro step
  induction hits generalizing init with
  | nil =>
    refine ⟨by simp, ?_⟩
    intro r hr
    simp only [List.foldl_nil] at hr
    exact ⟨Or.inl hr, (fun b hb => by rw [hr] at hb; cases hb; exact le_refl _), (fun x hx => by cases hx)⟩
  | cons a l ih =>
    have hbig' : ∀ x, some x ∈ l → toi x < big := fun x hx => hbig x (List.mem_cons_of_mem _ hx)
    rw [List.foldl_cons]
    cases a with
    | none =>
      have e : step init none = init := rfl
      rw [e]
      obtain ⟨ih1, ih2⟩ := ih init hbig' hinit
      refine ⟨?_, ?_⟩
      · rw [ih1]
        constructor
        · rintro ⟨h1, h2⟩
          exact ⟨h1, fun x hx => by rcases List.mem_cons.1 hx with rfl | hx; rfl; exact h2 x hx⟩
        · rintro ⟨h1, h2⟩
          exact ⟨h1, fun x hx => h2 x (List.mem_cons_of_mem _ hx)⟩
      · intro r hr
        obtain ⟨h1, h2, h3⟩ := ih2 r hr
        refine ⟨h1.imp id (List.mem_cons_of_mem _), h2, ?_⟩
        intro x hx
        rcases List.mem_cons.1 hx with hx | hx
        · cases hx
        · exact h3 x hx
    | some x =>
      have hx : toi x < big := hbig x (List.mem_cons_self)
      cases init with
      | none =>
        have e : step none (some x) = some x := by simp only [step, hx, if_true]
        rw [e]
        obtain ⟨ih1, ih2⟩ := ih (some x) hbig' (fun b hb => by cases hb; exact hx)
        refine ⟨?_, ?_⟩
        · constructor
          · intro h; exact absurd (ih1.1 h).1 (by simp)
          · rintro ⟨_, h2⟩; exact absurd (h2 (some x) List.mem_cons_self) (by simp)
        · intro r hr
          obtain ⟨h1, h2, h3⟩ := ih2 r hr
          refine ⟨Or.inr ?_, (fun b hb => by cases hb), ?_⟩
          · rcases h1 with h1 | h1
            · rw [h1]; exact List.mem_cons_self
            · exact List.mem_cons_of_mem _ h1
          · intro y hy
            rcases List.mem_cons.1 hy with hy | hy
            · cases hy; exact h2 x rfl
            · exact h3 y hy
      | some b0 =>
        by_cases hlt : toi x < toi b0
        · have e : step (some b0) (some x) = some x := by simp only [step, hlt, if_true]
          rw [e]
          obtain ⟨ih1, ih2⟩ := ih (some x) hbig' (fun b hb => by cases hb; exact hx)
          refine ⟨?_, ?_⟩
          · constructor
            · intro h; exact absurd (ih1.1 h).1 (by simp)
            · rintro ⟨h1, _⟩; cases h1
          · intro r hr
            obtain ⟨h1, h2, h3⟩ := ih2 r hr
            refine ⟨Or.inr ?_, ?_, ?_⟩
            · rcases h1 with h1 | h1
              · rw [h1]; exact List.mem_cons_self
              · exact List.mem_cons_of_mem _ h1
            · intro b hb; cases hb; exact le_trans (h2 x rfl) (le_of_lt hlt)
            · intro y hy
              rcases List.mem_cons.1 hy with hy | hy
              · cases hy; exact h2 x rfl
              · exact h3 y hy
        · have e : step (some b0) (some x) = some b0 := by simp only [step, hlt, if_false]
          rw [e]
          obtain ⟨ih1, ih2⟩ := ih (some b0) hbig' hinit
          refine ⟨?_, ?_⟩
          · constructor
            · intro h; exact absurd (ih1.1 h).1 (by simp)
            · rintro ⟨h1, _⟩; cases h1
          · intro r hr
            obtain ⟨h1, h2, h3⟩ := ih2 r hr
            refine ⟨h1.imp id (List.mem_cons_of_mem _), h2, ?_⟩
            intro y hy
            rcases List.mem_cons.1 hy with hy | hy
            · cases hy; exact le_trans (h2 b0 rfl) (not_lt.1 hlt)
            · exact h3 y hy

/-- `best_hit` is `None` iff every part cast along the trace answered `None` (part times are below `Real::MAX`). -/
theorem bestOf_none_iff {H : Type} (toi : H → K) (hits : List (Option H))
    (hbig : ∀ x, some x ∈ hits → toi x < @realMax K (fieldNum K sq)) :
    @bestOf K (fieldNum K sq) H toi hits = none ↔ ∀ x ∈ hits, x = none := by
  have := (bestOf_aux toi (@realMax K (fieldNum K sq)) hits none hbig (fun b hb => by cases hb)).1
  simp only [true_and] at this
  exact this

/-- otherwise `best_hit` is one of the part hits and no part hit along the trace has a smaller time of impact. -/
theorem bestOf_min {H : Type} (toi : H → K) (hits : List (Option H))
    (hbig : ∀ x, some x ∈ hits → toi x < @realMax K (fieldNum K sq)) (r : H)
    (hr : @bestOf K (fieldNum K sq) H toi hits = some r) :
    some r ∈ hits ∧ ∀ x, some x ∈ hits → toi r ≤ toi x := by
  obtain ⟨h1, _, h3⟩ := (bestOf_aux toi (@realMax K (fieldNum K sq)) hits none hbig (fun b hb => by cases hb)).2 r hr
  rcases h1 with h1 | h1
  · cases h1
  · exact ⟨h1, h3⟩

/-! ## the cast over the trace equals the minimum over ALL parts -/

/-- **Reduction over a covering trace.**  `part k` is the answer of the part cast for part `k`, `all` the parts of the shape,
`trace` the parts the traversal hands to the part cast.  If the trace contains only parts of the shape and every part whose cast
answers a hit is in the trace, then the running minimum over the trace is `None` iff NO part of the shape has a hit, and otherwise
it is a part hit whose time of impact is minimal among the hits of ALL parts. -/
theorem bestOf_cover {ι H : Type} (toi : H → K) (part : ι → Option H) (trace all : List ι)
    (hsub : ∀ k ∈ trace, k ∈ all) (hcov : ∀ k ∈ all, part k ≠ none → k ∈ trace)
    (hbig : ∀ k ∈ all, ∀ x, part k = some x → toi x < @realMax K (fieldNum K sq)) :
    (@bestOf K (fieldNum K sq) H toi (trace.map part) = none ↔ ∀ k ∈ all, part k = none) ∧
    (∀ r, @bestOf K (fieldNum K sq) H toi (trace.map part) = some r →
      (∃ k ∈ trace, part k = some r) ∧ ∀ k ∈ all, ∀ x, part k = some x → toi r ≤ toi x) := by
  have hb : ∀ x, some x ∈ trace.map part → toi x < @realMax K (fieldNum K sq) := by
    intro x hx
    obtain ⟨k, hk, e⟩ := List.mem_map.1 hx
    exact hbig k (hsub k hk) x e
  constructor
  · rw [bestOf_none_iff sq toi _ hb]
    constructor
    · intro h k hk
      by_contra hne
      exact hne (h _ (List.mem_map.2 ⟨k, hcov k hk hne, rfl⟩))
    · intro h x hx
      obtain ⟨k, hk, e⟩ := List.mem_map.1 hx
      rw [← e]; exact h k (hsub k hk)
  · intro r hr
    obtain ⟨h1, h2⟩ := bestOf_min sq toi _ hb r hr
    obtain ⟨k, hk, e⟩ := List.mem_map.1 h1
    refine ⟨⟨k, hk, e⟩, ?_⟩
    intro k' hk' x hx
    exact h2 x (List.mem_map.2 ⟨k', hcov k' hk' (by rw [hx]; simp), hx⟩)

/-- **The 2-D height-field cast returns the first impact over ALL segments**, relative to the part casts.  `part k` is what the
dispatcher answers for segment `k`; hypothesis `hloc`: a part hit happens at a time `t ∈ [0, max_time_of_impact]` at which the
x-range of the moving (loosened) box meets the open x-range of that segment (locality of the part cast: at an impact the shape is
within `target_distance` of the segment).  Then the result (`bestOf` over the trace of the walk) is `None` iff no existing segment
has a hit, and otherwise a segment hit with the smallest time of impact among all existing segments. -/
theorem castHF2_first {H : Type} (q : Quant K) (hq : LawfulQuant q) (hc : LawfulCeil q) (h : HF2 K) (hn : 0 < h.n)
    (hs : 0 < h.scale.x) (b : Aabb2 K) (hbox : b.mins.x ≤ b.maxs.x) (vel : V2 K) (maxToi : K) (fuel : Nat) (tr : List Int)
    (hw : @HW2.walk K (fieldNum K sq) q h b vel maxToi fuel = some tr)
    (toi : H → K) (part : Int → Option H)
    (hloc : ∀ k x, SegAt h k → part k = some x → 0 ≤ toi x ∧ toi x ≤ maxToi ∧ toi x < @realMax K (fieldNum K sq) ∧
      b.mins.x + toi x * vel.x < X2 sq q h (k + 1) ∧ X2 sq q h k < b.maxs.x + toi x * vel.x) :
    (@bestOf K (fieldNum K sq) H toi (tr.map part) = none ↔ ∀ k, SegAt h k → part k = none) ∧
    (∀ r, @bestOf K (fieldNum K sq) H toi (tr.map part) = some r →
      (∃ k ∈ tr, part k = some r) ∧ ∀ k x, SegAt h k → part k = some x → toi r ≤ toi x) := by
  -- all existing segments, as a list
  let all : List Int := (irange 0 h.n).filter fun k => !(h.removed.contains k.toNat)
  have hall : ∀ k, k ∈ all ↔ SegAt h k := by
    intro k
    simp only [all, List.mem_filter, mem_irange, SegAt, Bool.not_eq_true', and_assoc]
  have hsound := walk2_trace_sound sq q h b vel maxToi fuel tr hw
  obtain ⟨c1, c2⟩ := bestOf_cover sq toi part tr all
    (fun k hk => (hall k).2 (hsound k hk))
    (fun k hk hne => by
      have hk' := (hall k).1 hk
      cases hp : part k with
      | none => exact absurd hp hne
      | some x =>
        obtain ⟨t0, t1, _, o1, o2⟩ := hloc k x hk' hp
        exact walk2_covers sq q hq hc h hn hs b hbox vel maxToi fuel tr hw k hk' (toi x) t0 t1 o1 o2)
    (fun k hk x hx => (hloc k x ((hall k).1 hk) hx).2.2.1)
  refine ⟨?_, ?_⟩
  · rw [c1]
    exact ⟨fun h' k hk => h' k ((hall k).2 hk), fun h' k hk => h' k ((hall k).1 hk)⟩
  · intro r hr
    obtain ⟨e1, e2⟩ := c2 r hr
    exact ⟨e1, fun k x hk hx => e2 k ((hall k).2 hk) x hx⟩

/-- non-vacuity of `bestOf_min`: three part casts answering `5`, nothing, `3` -/
example : letI := fieldNum ℚ id
    bestOf (K := ℚ) (fun x : ℚ => x) [some 5, none, some 3, some 3] = some 3 := by
  decide +kernel

end C06
