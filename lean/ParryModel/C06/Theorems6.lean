import ParryModel.Field
import ParryModel.C06.Walk
import ParryModel.C06.Theorems3
import ParryModel.C06.Theorems5
import ParryModel.C04.Theorems1
/-!
# C06 theorems, part 6: the cell walk of the 3-D height-field shape cast covers the path of the box

The statement `walk_covers_full` that `Theorems3.lean` left open, now proved for EVERY velocity (`walk_covers_full_generic`):

* `axis_footprint`: while the centre is in the closed cell `c`, every cell the box meets along that axis lies in the range kept
  around `c` (the relation `Rel` between range and cell: one extra line on each side of the quantised box — the "enlarge by 1"
  of the code).  `rel_init_x/z`: the enlarged ranges of the start state satisfy `Rel`; it is preserved by shifting.
  A static axis (zero velocity component, range not enlarged, never shifted: `cellMove_zero_x/z`) keeps the fixed footprint of
  the box (`static_init_x/z`); `AxInv` is the disjunction of the two.
* `axis_left` / `AxInv.left`: once the range has left the field on the side the box is moving to (`left_i` / `left_j`), no
  in-field cell is met at any later time — the third `break` is sound.
* `tracks_core`, `tracks_core_gen`: one step of the centre ray for both / at least one non-zero horizontal component (the zero
  component's boundary time is `Real::MAX`; `cellMove` then answers only if the other boundary comes strictly first).
* `walkLoop_covers_path`: main induction.  From a state whose cell contains the centre at time `t0`, whose ranges satisfy
  `AxInv` and whose block is covered by the trace, a walk that ends normally (`.done`, whatever the reason:
  `max_time_of_impact`, range left the field) has in its trace every in-field cell that the box meets at some time in
  `[t0, max_time_of_impact]`.
* `walk_covers_from_entry`: the same for the whole `walk` (pre-advance, enlarged ranges, initial block, loop; purely vertical
  motion returns after the initial block), for all times from the pre-advance time on; `walk_covers_full_generic` adds that
  before the pre-advance time the box is disjoint from the field's box (C04's `aabb_cast_solid_firstHit`).
Not covered: a walk that does not end with `.done` (fuel exhausted: the loop's termination is not proved; `signumOfZero`: a
boundary time ≥ `Real::MAX` along the moving axis, outside the domain D).
-/
namespace C06
open Model Model.HW
variable {K : Type} [Field K] [LinearOrder K] [IsStrictOrderedRing K] (sq : K → K)

private theorem lit_half6 : @lit K (fieldNum K sq) 1 2 = 1 / 2 := by
  rw [fieldNum_lit]; norm_num
private theorem lit_neg_half6 : @lit K (fieldNum K sq) (-1) 2 = -(1 / 2) := by
  rw [fieldNum_lit]; norm_num

/-! ## lines with constant spacing -/

/-- `L` is an arithmetic progression of lines with positive spacing `w` -/
structure Lines (L : Int → K) (w : K) : Prop where
  pos : 0 < w
  add : ∀ c m : Int, L (c + m) = L c + (m : K) * w

theorem Lines.succ {L : Int → K} {w : K} (hL : Lines L w) (c : Int) : L (c + 1) = L c + w := by
  have := hL.add c 1; simpa using this

theorem Lines.lt_of_lt {L : Int → K} {w : K} (hL : Lines L w) (a b : Int) (h : L a < L b) : a < b := by
  by_contra hcon
  have hba : b ≤ a := not_lt.1 hcon
  have e := hL.add b (a - b)
  have e' : b + (a - b) = a := by ring
  rw [e'] at e
  have : (0 : K) ≤ ((a - b : Int) : K) := by exact_mod_cast (by omega : (0 : Int) ≤ a - b)
  have := mul_nonneg this (le_of_lt hL.pos)
  linarith

theorem XL_lines (q : Quant K) (hq : LawfulQuant q) (h : HF3 K) (hj : 0 < h.nj) (hsx : 0 < h.scale.x) :
    Lines (XL sq q h) (1 / (h.nj : K) * h.scale.x) := by
  refine ⟨?_, ?_⟩
  · have : (0 : K) < (h.nj : K) := by exact_mod_cast hj
    positivity
  · intro c m
    simp only [XL, signedXAt, unitCellWidth, hq.ofInt_eq, lit_neg_half6]
    push_cast; ring

theorem ZL_lines (q : Quant K) (hq : LawfulQuant q) (h : HF3 K) (hi : 0 < h.ni) (hsz : 0 < h.scale.z) :
    Lines (ZL sq q h) (1 / (h.ni : K) * h.scale.z) := by
  refine ⟨?_, ?_⟩
  · have : (0 : K) < (h.ni : K) := by exact_mod_cast hi
    positivity
  · intro c m
    simp only [ZL, signedZAt, unitCellHeight, hq.ofInt_eq, lit_neg_half6]
    push_cast; ring

/-- range `(r1, r2)` kept around cell `c` for a box of half-width `wx`: one line of slack beyond the box on both sides -/
def Rel (L : Int → K) (wx : K) (c r1 r2 : Int) : Prop := L r1 ≤ L c - wx ∧ L (c + 1) + wx ≤ L r2

theorem Rel.shift {L : Int → K} {w : K} (hL : Lines L w) {wx : K} {c r1 r2 : Int} (hr : Rel L wx c r1 r2) (m : Int) :
    Rel L wx (c + m) (r1 + m) (r2 + m) := by
  unfold Rel at *
  have e : c + m + 1 = c + 1 + m := by ring
  rw [e, hL.add r1 m, hL.add c m, hL.add (c + 1) m, hL.add r2 m]
  constructor <;> linarith [hr.1, hr.2]

/-- **Footprint in the block** (one axis): centre coordinate `x` in the closed cell `c`, box `[x - wx, x + wx]` meeting the open
cell `k` ⇒ `k` is in the half-open range `r1..r2`. -/
theorem axis_footprint {L : Int → K} {w : K} (hL : Lines L w) (wx x : K) (c r1 r2 k : Int)
    (hin : L c ≤ x ∧ x ≤ L (c + 1)) (hrel : Rel L wx c r1 r2) (hov : x - wx < L (k + 1) ∧ L k < x + wx) :
    r1 ≤ k ∧ k < r2 := by
  constructor
  · have : r1 < k + 1 := hL.lt_of_lt _ _ (by linarith [hrel.1, hin.1, hov.1])
    omega
  · exact hL.lt_of_lt _ _ (by linarith [hrel.2, hin.2, hov.2])

/-- **The range has left the field** (one axis): centre coordinate `x0` in the closed cell `c` at some time, later coordinate `x`
further along the direction of motion `d`; if the range is past the field on that side (`left_i` / `left_j` of the code), the
box at `x` meets no in-field cell. -/
theorem axis_left {L : Int → K} {w : K} (hL : Lines L w) (wx x0 x d : K) (c r1 r2 k : Int) (n : Nat)
    (hin : L c ≤ x0 ∧ x0 ≤ L (c + 1)) (hrel : Rel L wx c r1 r2)
    (hleft : (0 ≤ d ∧ (n : Int) ≤ r1) ∨ (d ≤ 0 ∧ r2 ≤ 0)) (hmv : (0 ≤ d → x0 ≤ x) ∧ (d ≤ 0 → x ≤ x0))
    (hov : x - wx < L (k + 1) ∧ L k < x + wx) : ¬ (0 ≤ k ∧ k < (n : Int)) := by
  rintro ⟨hk0, hkn⟩
  rcases hleft with ⟨hd, hn⟩ | ⟨hd, hn⟩
  · have := hmv.1 hd
    have : r1 < k + 1 := hL.lt_of_lt _ _ (by linarith [hrel.1, hin.1, hov.1])
    omega
  · have := hmv.2 hd
    have : k < r2 := hL.lt_of_lt _ _ (by linarith [hrel.2, hin.2, hov.2])
    omega

/-! ## one step -/

/-- what a step that stops has seen (any scalar type) -/
theorem stepWith_stop_spec {K : Type} [Num K] (h : HF3 K) (d : V3 K) (maxToi tx tz : K) (s : St) (out : List (Int × Int))
    (hstep : stepWith h d maxToi tx tz s = .stop out) :
    out = s.out ∧ ((maxToi < tx ∧ maxToi < tz) ∨ ∃ di dj : Int, cellMove d tx tz = some (di, dj) ∧ ((di = 0 ∧ dj = 0) ∨
      ((0 ≤ d.z ∧ (h.ni : Int) ≤ s.ri.1 + di) ∨ (d.z ≤ 0 ∧ s.ri.2 + di ≤ 0)) ∨
      ((0 ≤ d.x ∧ (h.nj : Int) ≤ s.rj.1 + dj) ∨ (d.x ≤ 0 ∧ s.rj.2 + dj ≤ 0)))) := by
  unfold stepWith at hstep
  split at hstep
  · rename_i hb
    injection hstep with hstep
    exact ⟨hstep.symm, Or.inl hb⟩
  · split at hstep
    · cases hstep
    · rename_i di dj hcm
      split at hstep
      · rename_i h0
        injection hstep with hstep
        exact ⟨hstep.symm, Or.inr ⟨di, dj, hcm, Or.inl h0⟩⟩
      · simp only at hstep
        split at hstep
        · rename_i hl
          injection hstep with hstep
          refine ⟨hstep.symm, Or.inr ⟨di, dj, hcm, Or.inr ?_⟩⟩
          simp only [Bool.or_eq_true, Bool.and_eq_true, decide_eq_true_eq] at hl
          exact hl
        · cases hstep

/-- **One step of the centre ray** (both horizontal velocity components non-zero), independent of how the step ends: from a
time `t ≥ 0` at which the centre is in the closed cell `c`, the boundary times are not before `t`, the centre stays in `c` up to
`t' = min toi_x toi_z`, the cell moves (`cellMove` is not `(0, 0)`) and the new cell contains the centre at `t'`. -/
theorem tracks_core (q : Quant K) (hq : LawfulQuant q) (h : HF3 K) (hi : 0 < h.ni) (hj : 0 < h.nj)
    (hsx : 0 < h.scale.x) (hsz : 0 < h.scale.z) (o d : V3 K) (hx : d.x ≠ 0) (hz : d.z ≠ 0)
    (c : Int × Int) (t : K) (hin : InCell sq q h c (o.x + t * d.x) (o.z + t * d.z)) :
    letI := fieldNum K sq
    let rx := boundaryTime (XL sq q h) c.2 o.x d.x
    let rz := boundaryTime (ZL sq q h) c.1 o.z d.z
    t ≤ rx ∧ t ≤ rz ∧ (∀ u, t ≤ u → u ≤ min rx rz → InCell sq q h c (o.x + u * d.x) (o.z + u * d.z)) ∧
    (0 ≤ t → ∃ di dj : Int, cellMove d (nmax rx 0) (nmax rz 0) = some (di, dj) ∧ ¬ (di = 0 ∧ dj = 0) ∧
      InCell sq q h (c.1 + di, c.2 + dj) (o.x + min rx rz * d.x) (o.z + min rx rz * d.z)) := by
  have hLx := XL_lines sq q hq h hj hsx
  have hLz := ZL_lines sq q hq h hi hsz
  obtain ⟨ax1, ax2, ax3⟩ := axis_tracks sq (XL sq q h) _ hLx.pos hLx.succ c.2 o.x d.x t hx hin.1
  obtain ⟨az1, az2, az3⟩ := axis_tracks sq (ZL sq q h) _ hLz.pos hLz.succ c.1 o.z d.z t hz hin.2
  set rx := @boundaryTime K (fieldNum K sq) (XL sq q h) c.2 o.x d.x with hrx
  set rz := @boundaryTime K (fieldNum K sq) (ZL sq q h) c.1 o.z d.z with hrz
  refine ⟨ax1, az1, ?_, ?_⟩
  · intro u hu1 hu2
    exact ⟨ax2 u hu1 (le_trans hu2 (min_le_left _ _)), az2 u hu1 (le_trans hu2 (min_le_right _ _))⟩
  · intro ht
    have hrx0 : max rx 0 = rx := max_eq_left (le_trans ht ax1)
    have hrz0 : max rz 0 = rz := max_eq_left (le_trans ht az1)
    obtain ⟨di, dj, hcm, hne, hdj, hdi⟩ := cellMove_clamped_moves sq d rx rz hx hz
    rw [hrx0, hrz0] at hdj hdi
    refine ⟨di, dj, hcm, ?_, ?_⟩
    · intro h0; apply hne; rw [h0.1, h0.2]
    · simp only [InCell]
      rcases lt_trichotomy rx rz with hlt | heq | hgt
      · have e1 : dj = sgnI d.x := by rw [hdj, if_pos (le_of_lt hlt)]
        have e2 : di = 0 := by rw [hdi, if_neg (not_le.2 hlt)]
        rw [e1, e2, min_eq_left (le_of_lt hlt), add_zero]
        exact ⟨ax3, az2 rx ax1 (le_of_lt hlt)⟩
      · have e1 : dj = sgnI d.x := by rw [hdj, if_pos (le_of_eq heq)]
        have e2 : di = sgnI d.z := by rw [hdi, if_pos (le_of_eq heq.symm)]
        rw [e1, e2, min_eq_left (le_of_eq heq)]
        refine ⟨ax3, ?_⟩
        rw [heq]; exact az3
      · have e1 : dj = 0 := by rw [hdj, if_neg (not_le.2 hgt)]
        have e2 : di = sgnI d.z := by rw [hdi, if_pos (le_of_lt hgt)]
        rw [e1, e2, min_eq_right (le_of_lt hgt), add_zero]
        exact ⟨ax2 rz az1 (le_of_lt hgt), az3⟩

/-! ## the start state -/

theorem XL_floor_le (q : Quant K) (hq : LawfulQuant q) (h : HF3 K) (hi : 0 < h.ni) (hj : 0 < h.nj)
    (hsx : 0 < h.scale.x) (hsz : 0 < h.scale.z) (p : K) :
    XL sq q h (@quantFloor K (fieldNum K sq) q (p / h.scale.x) (@unitCellWidth K (fieldNum K sq) q h)) ≤ p :=
  (cellAtPoint_contains sq q hq h hi hj hsx hsz ⟨p, 0, 0⟩).1.1

theorem ZL_floor_le (q : Quant K) (hq : LawfulQuant q) (h : HF3 K) (hi : 0 < h.ni) (hj : 0 < h.nj)
    (hsx : 0 < h.scale.x) (hsz : 0 < h.scale.z) (p : K) :
    ZL sq q h (@quantFloor K (fieldNum K sq) q (p / h.scale.z) (@unitCellHeight K (fieldNum K sq) q h)) ≤ p :=
  (cellAtPoint_contains sq q hq h hi hj hsx hsz ⟨0, 0, p⟩).2.1

theorem XL_ceil_ge (q : Quant K) (hq : LawfulQuant q) (hc : LawfulCeil q) (h : HF3 K) (hj : 0 < h.nj) (hsx : 0 < h.scale.x) (p : K) :
    p ≤ XL sq q h (@quantCeil K (fieldNum K sq) q (p / h.scale.x) (@unitCellWidth K (fieldNum K sq) q h)) := by
  have hn' : (0 : K) < (h.nj : K) := by exact_mod_cast hj
  simp only [XL, signedXAt, quantCeil, unitCellWidth, hq.ofInt_eq, lit_neg_half6, lit_half6]
  push_cast
  have hu' : (h.nj : K) + 1 - 1 = (h.nj : K) := by ring
  rw [hu']
  set y := (p / h.scale.x + 1 / 2) / (1 / (h.nj : K)) with hy
  have hy' : y = (p / h.scale.x + 1 / 2) * h.nj := by rw [hy]; field_simp
  have h1 := hc.le_ceil y
  set c : K := ((q.ceil y : Int) : K)
  have h3 : p / h.scale.x + 1 / 2 ≤ 1 / (h.nj : K) * c := by
    have : p / h.scale.x + 1 / 2 ≤ c / h.nj := by rw [le_div_iff₀ hn']; linarith
    have e : 1 / (h.nj : K) * c = c / h.nj := by ring
    linarith
  have hp : p = p / h.scale.x * h.scale.x := by field_simp
  calc p = (p / h.scale.x) * h.scale.x := hp
    _ ≤ (-(1 / 2) + 1 / (h.nj : K) * c) * h.scale.x := mul_le_mul_of_nonneg_right (by linarith) (le_of_lt hsx)

theorem ZL_ceil_ge (q : Quant K) (hq : LawfulQuant q) (hc : LawfulCeil q) (h : HF3 K) (hi : 0 < h.ni) (hsz : 0 < h.scale.z) (p : K) :
    p ≤ ZL sq q h (@quantCeil K (fieldNum K sq) q (p / h.scale.z) (@unitCellHeight K (fieldNum K sq) q h)) := by
  have hn' : (0 : K) < (h.ni : K) := by exact_mod_cast hi
  simp only [ZL, signedZAt, quantCeil, unitCellHeight, hq.ofInt_eq, lit_neg_half6, lit_half6]
  push_cast
  have hu' : (h.ni : K) + 1 - 1 = (h.ni : K) := by ring
  rw [hu']
  set y := (p / h.scale.z + 1 / 2) / (1 / (h.ni : K)) with hy
  have hy' : y = (p / h.scale.z + 1 / 2) * h.ni := by rw [hy]; field_simp
  have h1 := hc.le_ceil y
  set c : K := ((q.ceil y : Int) : K)
  have h3 : p / h.scale.z + 1 / 2 ≤ 1 / (h.ni : K) * c := by
    have : p / h.scale.z + 1 / 2 ≤ c / h.ni := by rw [le_div_iff₀ hn']; linarith
    have e : 1 / (h.ni : K) * c = c / h.ni := by ring
    linarith
  have hp : p = p / h.scale.z * h.scale.z := by field_simp
  calc p = (p / h.scale.z) * h.scale.z := hp
    _ ≤ (-(1 / 2) + 1 / (h.ni : K) * c) * h.scale.z := mul_le_mul_of_nonneg_right (by linarith) (le_of_lt hsz)

/-- **The enlarged start ranges satisfy `Rel`** (x axis): with the range of the box widened by one cell on both sides, the cell
of the box centre keeps one line of slack beyond the box on both sides. -/
theorem rel_init_x (q : Quant K) (hq : LawfulQuant q) (hc : LawfulCeil q) (h : HF3 K) (hi : 0 < h.ni) (hj : 0 < h.nj)
    (hsx : 0 < h.scale.x) (hsz : 0 < h.scale.z) (b : Aabb3 K) :
    Rel (XL sq q h) (@Aabb3.halfExtents K (fieldNum K sq) b).x (@cellAtPoint K (fieldNum K sq) q h (@Aabb3.center K (fieldNum K sq) b)).2
      ((@rangeInAabb K (fieldNum K sq) q h b).2.1 - 1) ((@rangeInAabb K (fieldNum K sq) q h b).2.2 + 1) := by
  have hL := XL_lines sq q hq h hj hsx
  have hcc := (cellAtPoint_contains sq q hq h hi hj hsx hsz (@Aabb3.center K (fieldNum K sq) b)).1
  have hf := XL_floor_le sq q hq h hi hj hsx hsz b.mins.x
  have hg := XL_ceil_ge sq q hq hc h hj hsx b.maxs.x
  have e1 := hL.add (@rangeInAabb K (fieldNum K sq) q h b).2.1 (-1)
  have e2 := hL.succ (@rangeInAabb K (fieldNum K sq) q h b).2.2
  have e3 := hL.succ (@cellAtPoint K (fieldNum K sq) q h (@Aabb3.center K (fieldNum K sq) b)).2
  have hB : (@Aabb3.center K (fieldNum K sq) b).x = (b.mins.x + b.maxs.x) * (1 / 2) := by
    simp only [Aabb3.center, V3.center, V3.add, V3.smul, lit_half6]
  have hW : (@Aabb3.halfExtents K (fieldNum K sq) b).x = (b.maxs.x - b.mins.x) * (1 / 2) := by
    simp only [Aabb3.halfExtents, V3.sub, V3.smul, lit_half6]
  unfold Rel
  rw [Int.sub_eq_add_neg, e1, e2, e3, hW]
  rw [hB] at hcc
  rw [e3] at hcc
  have hf' : XL sq q h (@rangeInAabb K (fieldNum K sq) q h b).2.1 ≤ b.mins.x := hf
  have hg' : b.maxs.x ≤ XL sq q h (@rangeInAabb K (fieldNum K sq) q h b).2.2 := hg
  push_cast
  constructor <;> linarith [hcc.1, hcc.2]

theorem rel_init_z (q : Quant K) (hq : LawfulQuant q) (hc : LawfulCeil q) (h : HF3 K) (hi : 0 < h.ni) (hj : 0 < h.nj)
    (hsx : 0 < h.scale.x) (hsz : 0 < h.scale.z) (b : Aabb3 K) :
    Rel (ZL sq q h) (@Aabb3.halfExtents K (fieldNum K sq) b).z (@cellAtPoint K (fieldNum K sq) q h (@Aabb3.center K (fieldNum K sq) b)).1
      ((@rangeInAabb K (fieldNum K sq) q h b).1.1 - 1) ((@rangeInAabb K (fieldNum K sq) q h b).1.2 + 1) := by
  have hL := ZL_lines sq q hq h hi hsz
  have hcc := (cellAtPoint_contains sq q hq h hi hj hsx hsz (@Aabb3.center K (fieldNum K sq) b)).2
  have hf := ZL_floor_le sq q hq h hi hj hsx hsz b.mins.z
  have hg := ZL_ceil_ge sq q hq hc h hi hsz b.maxs.z
  have e1 := hL.add (@rangeInAabb K (fieldNum K sq) q h b).1.1 (-1)
  have e2 := hL.succ (@rangeInAabb K (fieldNum K sq) q h b).1.2
  have e3 := hL.succ (@cellAtPoint K (fieldNum K sq) q h (@Aabb3.center K (fieldNum K sq) b)).1
  have hB : (@Aabb3.center K (fieldNum K sq) b).z = (b.mins.z + b.maxs.z) * (1 / 2) := by
    simp only [Aabb3.center, V3.center, V3.add, V3.smul, lit_half6]
  have hW : (@Aabb3.halfExtents K (fieldNum K sq) b).z = (b.maxs.z - b.mins.z) * (1 / 2) := by
    simp only [Aabb3.halfExtents, V3.sub, V3.smul, lit_half6]
  unfold Rel
  rw [Int.sub_eq_add_neg, e1, e2, e3, hW]
  rw [hB] at hcc
  rw [e3] at hcc
  have hf' : ZL sq q h (@rangeInAabb K (fieldNum K sq) q h b).1.1 ≤ b.mins.z := hf
  have hg' : b.maxs.z ≤ ZL sq q h (@rangeInAabb K (fieldNum K sq) q h b).1.2 := hg
  push_cast
  constructor <;> linarith [hcc.1, hcc.2]

/-- what `walkInit` computes (any scalar type) -/
theorem walkInit_spec {K : Type} [Num K] (q : Quant K) (h : HF3 K) (aabb2 : Aabb3 K) (vel : V3 K) (maxToi : K) (o : V3 K) (s0 : St)
    (hinit : walkInit q h aabb2 vel maxToi = some (o, s0)) :
    ∃ toi : K, Aabb.castLocalRay realMax ⟨h.aabb.mins.sub aabb2.halfExtents, h.aabb.maxs.add aabb2.halfExtents⟩ ⟨aabb2.center, vel⟩ maxToi true = some toi ∧
      o = aabb2.center ∧
      s0.cell = cellAtPoint q h (Aabb3.center ⟨aabb2.mins.add (vel.smul toi), aabb2.maxs.add (vel.smul toi)⟩) ∧
      s0.ri = (if neq vel.z 0 then (rangeInAabb q h ⟨aabb2.mins.add (vel.smul toi), aabb2.maxs.add (vel.smul toi)⟩).1
        else ((rangeInAabb q h ⟨aabb2.mins.add (vel.smul toi), aabb2.maxs.add (vel.smul toi)⟩).1.1 - 1,
              (rangeInAabb q h ⟨aabb2.mins.add (vel.smul toi), aabb2.maxs.add (vel.smul toi)⟩).1.2 + 1)) ∧
      s0.rj = (if neq vel.x 0 then (rangeInAabb q h ⟨aabb2.mins.add (vel.smul toi), aabb2.maxs.add (vel.smul toi)⟩).2
        else ((rangeInAabb q h ⟨aabb2.mins.add (vel.smul toi), aabb2.maxs.add (vel.smul toi)⟩).2.1 - 1,
              (rangeInAabb q h ⟨aabb2.mins.add (vel.smul toi), aabb2.maxs.add (vel.smul toi)⟩).2.2 + 1)) := by
  unfold walkInit at hinit
  simp only at hinit
  split at hinit
  · cases hinit
  · rename_i toi heq
    injection hinit with hinit
    injection hinit with ho hs
    subst hs
    exact ⟨toi, heq, ho.symm, rfl, rfl, rfl⟩

/-! ## velocities with a zero horizontal component -/

theorem realMax_nonneg : (0 : K) ≤ @realMax K (fieldNum K sq) := by
  unfold realMax
  rw [fieldNum_ofRat]
  exact Rat.cast_nonneg.2 (by decide +kernel)

/-- a zero velocity component never moves the cell along its axis (any boundary times) -/
theorem cellMove_zero_z {K : Type} [Num K] (d : V3 K) (tx tz : K) (di dj : Int) (hz : sgn d.z = none)
    (hcm : cellMove d tx tz = some (di, dj)) : di = 0 := by
  unfold cellMove at hcm
  simp only at hcm
  split at hcm
  · cases hcm
  · cases hcm
  · rename_i a b ha hb
    injection hcm with hcm
    injection hcm with e1 e2
    subst e1
    split at hb
    · rw [hz] at hb; cases hb
    · injection hb with hb; exact hb.symm

theorem cellMove_zero_x {K : Type} [Num K] (d : V3 K) (tx tz : K) (di dj : Int) (hx : sgn d.x = none)
    (hcm : cellMove d tx tz = some (di, dj)) : dj = 0 := by
  unfold cellMove at hcm
  simp only at hcm
  split at hcm
  · cases hcm
  · cases hcm
  · rename_i a b ha hb
    injection hcm with hcm
    injection hcm with e1 e2
    subst e2
    split at ha
    · rw [hx] at ha; cases ha
    · injection ha with ha; exact ha.symm

private theorem sgn_zero (x : K) (hx : x = 0) : @sgn K (fieldNum K sq) x = none := by
  subst hx; simp [sgn]

private theorem sgn_eq_sgnI (x : K) (hx : x ≠ 0) : @sgn K (fieldNum K sq) x = some (sgnI x) := by
  rcases lt_or_gt_of_ne hx with hneg | hpos
  · simp [sgn, sgnI, hneg, not_lt.2 (le_of_lt hneg)]
  · simp [sgn, sgnI, hpos]

private theorem boundaryTime_zero (L : Int → K) (c : Int) (o : K) :
    @boundaryTime K (fieldNum K sq) L c o 0 = @realMax K (fieldNum K sq) := by
  simp [boundaryTime]

/-- `cellMove` when the `z` component of the velocity is zero (its boundary time `tz ≥ 0` is `Real::MAX`): an answer exists only
if the `x` boundary comes strictly first; the row does not move and the column moves by `signum(d.x)` if the `x` test fires -/
theorem cellMove_static_z {K : Type} [Num K] (d : V3 K) (tx tz : K) (di dj : Int) (hz : sgn d.z = none) (h0z : 0 ≤ tz)
    (hcm : cellMove d tx tz = some (di, dj)) :
    ¬ (tz ≤ tx) ∧ di = 0 ∧ ((0 ≤ tx ∧ tx ≤ tz) → sgn d.x = some dj) := by
  unfold cellMove at hcm
  simp only at hcm
  split at hcm
  · cases hcm
  · cases hcm
  · rename_i a b ha hb
    injection hcm with hcm
    injection hcm with e1 e2
    subst e1; subst e2
    have hnle : ¬ (tz ≤ tx) := by
      intro hle
      simp only [h0z, hle, decide_true, Bool.and_self, if_true, hz] at hb
      cases hb
    refine ⟨hnle, ?_, ?_⟩
    · simp only [hnle, decide_false, Bool.and_false, Bool.false_eq_true, if_false] at hb
      injection hb with hb; exact hb.symm
    · intro hx'
      simp only [hx'.1, hx'.2, decide_true, Bool.and_self, if_true] at ha
      exact ha

theorem cellMove_static_x {K : Type} [Num K] (d : V3 K) (tx tz : K) (di dj : Int) (hx : sgn d.x = none) (h0x : 0 ≤ tx)
    (hcm : cellMove d tx tz = some (di, dj)) :
    ¬ (tx ≤ tz) ∧ dj = 0 ∧ ((0 ≤ tz ∧ tz ≤ tx) → sgn d.z = some di) := by
  unfold cellMove at hcm
  simp only at hcm
  split at hcm
  · cases hcm
  · cases hcm
  · rename_i a b ha hb
    injection hcm with hcm
    injection hcm with e1 e2
    subst e1; subst e2
    have hnle : ¬ (tx ≤ tz) := by
      intro hle
      simp only [h0x, hle, decide_true, Bool.and_self, if_true, hx] at ha
      cases ha
    refine ⟨hnle, ?_, ?_⟩
    · simp only [hnle, decide_false, Bool.and_false, Bool.false_eq_true, if_false] at ha
      injection ha with ha; exact ha.symm
    · intro hz'
      simp only [hz'.1, hz'.2, decide_true, Bool.and_self, if_true] at hb
      exact hb

/-- one axis of a state: a moving axis keeps the slack relation `Rel`, a static axis (zero velocity component) keeps a range that
contains the fixed footprint of the box -/
def AxInv (L : Int → K) (wx d xc : K) (c r1 r2 : Int) : Prop :=
  (d ≠ 0 ∧ Rel L wx c r1 r2) ∨ (d = 0 ∧ ∀ k : Int, xc - wx < L (k + 1) → L k < xc + wx → r1 ≤ k ∧ k < r2)

theorem AxInv.footprint {L : Int → K} {w : K} (hL : Lines L w) {wx d xc : K} {c r1 r2 : Int} (ha : AxInv L wx d xc c r1 r2)
    (t : K) (k : Int) (hin : L c ≤ xc + t * d ∧ xc + t * d ≤ L (c + 1))
    (hov : xc + t * d - wx < L (k + 1) ∧ L k < xc + t * d + wx) : r1 ≤ k ∧ k < r2 := by
  rcases ha with ⟨_, hr⟩ | ⟨hd, hs⟩
  · exact axis_footprint hL wx _ c r1 r2 k hin hr hov
  · subst hd
    simp only [mul_zero, add_zero] at hov
    exact hs k hov.1 hov.2

theorem AxInv.shift {L : Int → K} {w : K} (hL : Lines L w) {wx d xc : K} {c r1 r2 : Int} (ha : AxInv L wx d xc c r1 r2)
    (m : Int) (hm : d = 0 → m = 0) : AxInv L wx d xc (c + m) (r1 + m) (r2 + m) := by
  rcases ha with ⟨hd, hr⟩ | ⟨hd, hs⟩
  · exact Or.inl ⟨hd, hr.shift hL m⟩
  · have := hm hd; subst this
    simp only [add_zero]
    exact Or.inr ⟨hd, hs⟩

/-- the third `break`, for a moving or a static axis -/
theorem AxInv.left {L : Int → K} {w : K} (hL : Lines L w) {wx d xc : K} {c r1 r2 : Int} (ha : AxInv L wx d xc c r1 r2)
    (t' t : K) (htt : t' ≤ t) (k : Int) (n : Nat) (hin : L c ≤ xc + t' * d ∧ xc + t' * d ≤ L (c + 1))
    (hleft : (0 ≤ d ∧ (n : Int) ≤ r1) ∨ (d ≤ 0 ∧ r2 ≤ 0))
    (hov : xc + t * d - wx < L (k + 1) ∧ L k < xc + t * d + wx) : ¬ (0 ≤ k ∧ k < (n : Int)) := by
  rcases ha with ⟨_, hr⟩ | ⟨hd, hs⟩
  · refine axis_left hL wx (xc + t' * d) (xc + t * d) d c r1 r2 k n hin hr hleft ⟨fun h0 => ?_, fun h0 => ?_⟩ hov
    · have := mul_le_mul_of_nonneg_right htt h0; linarith
    · have := mul_le_mul_of_nonpos_right htt h0; linarith
  · subst hd
    simp only [mul_zero, add_zero] at hov
    have := hs k hov.1 hov.2
    rintro ⟨k0, k1⟩
    rcases hleft with ⟨_, hn⟩ | ⟨_, hn⟩ <;> omega

/-- **One step of the centre ray, any velocity with a non-zero horizontal component.**  As `tracks_core`, with the move of the
cell stated for whatever `cellMove` answers (`none` = the walk gives up with `signumOfZero`, not `.done`). -/
theorem tracks_core_gen (q : Quant K) (hq : LawfulQuant q) (h : HF3 K) (hi : 0 < h.ni) (hj : 0 < h.nj)
    (hsx : 0 < h.scale.x) (hsz : 0 < h.scale.z) (o d : V3 K) (hxz : d.x ≠ 0 ∨ d.z ≠ 0)
    (c : Int × Int) (t : K) (ht : 0 ≤ t) (hin : InCell sq q h c (o.x + t * d.x) (o.z + t * d.z)) :
    letI := fieldNum K sq
    let rx := boundaryTime (XL sq q h) c.2 o.x d.x
    let rz := boundaryTime (ZL sq q h) c.1 o.z d.z
    0 ≤ rx ∧ 0 ≤ rz ∧ (∀ u, t ≤ u → u ≤ min rx rz → InCell sq q h c (o.x + u * d.x) (o.z + u * d.z)) ∧
    (∀ di dj : Int, cellMove d (nmax rx 0) (nmax rz 0) = some (di, dj) → ¬ (di = 0 ∧ dj = 0) ∧
      InCell sq q h (c.1 + di, c.2 + dj) (o.x + min rx rz * d.x) (o.z + min rx rz * d.z)) := by
  letI := fieldNum K sq
  have hLx := XL_lines sq q hq h hj hsx
  have hLz := ZL_lines sq q hq h hi hsz
  have hR := realMax_nonneg (K := K) sq
  have hR0 : nmax (realMax : K) 0 = realMax := by rw [fieldNum_nmax]; exact max_eq_left hR
  by_cases hx : d.x = 0
  · -- only z moves
    have hz : d.z ≠ 0 := by
      rcases hxz with h1 | h1
      · exact absurd hx h1
      · exact h1
    obtain ⟨az1, az2, az3⟩ := axis_tracks sq (ZL sq q h) _ hLz.pos hLz.succ c.1 o.z d.z t hz hin.2
    have hbx : boundaryTime (XL sq q h) c.2 o.x d.x = (realMax : K) := by rw [hx]; exact boundaryTime_zero sq _ _ _
    have hmx : ∀ u : K, o.x + u * d.x = o.x := by intro u; rw [hx]; ring
    simp only [hbx]
    set rz := boundaryTime (ZL sq q h) c.1 o.z d.z with hrz
    have h0 : (0 : K) ≤ rz := le_trans ht az1
    have hrz0 : nmax rz 0 = rz := by rw [fieldNum_nmax]; exact max_eq_left h0
    have hinx := hin.1
    rw [hmx] at hinx
    refine ⟨hR, h0, ?_, ?_⟩
    · intro u hu1 hu2
      refine ⟨?_, az2 u hu1 (le_trans hu2 (min_le_right _ _))⟩
      rw [hmx]; exact hinx
    · intro di dj hcm
      rw [hrz0, hR0] at hcm
      obtain ⟨hnle, hdj, hs⟩ := cellMove_static_x d _ _ di dj (sgn_zero sq _ hx) hR hcm
      have hlt : rz < (realMax : K) := not_le.1 hnle
      have hdi : some di = some (sgnI d.z) := by rw [← hs ⟨h0, le_of_lt hlt⟩, sgn_eq_sgnI sq _ hz]
      injection hdi with hdi
      subst hdi; subst hdj
      refine ⟨by intro h0; have := h0.1; unfold sgnI at this; split at this <;> omega, ?_⟩
      rw [min_eq_right (le_of_lt hlt)]
      simp only [InCell, add_zero]
      refine ⟨?_, az3⟩
      rw [hmx]; exact hinx
  · by_cases hz : d.z = 0
    · -- only x moves
      obtain ⟨ax1, ax2, ax3⟩ := axis_tracks sq (XL sq q h) _ hLx.pos hLx.succ c.2 o.x d.x t hx hin.1
      have hbz : boundaryTime (ZL sq q h) c.1 o.z d.z = (realMax : K) := by rw [hz]; exact boundaryTime_zero sq _ _ _
      have hmz : ∀ u : K, o.z + u * d.z = o.z := by intro u; rw [hz]; ring
      simp only [hbz]
      set rx := boundaryTime (XL sq q h) c.2 o.x d.x with hrx
      have h0 : (0 : K) ≤ rx := le_trans ht ax1
      have hrx0 : nmax rx 0 = rx := by rw [fieldNum_nmax]; exact max_eq_left h0
      have hinz := hin.2
      rw [hmz] at hinz
      refine ⟨h0, hR, ?_, ?_⟩
      · intro u hu1 hu2
        refine ⟨ax2 u hu1 (le_trans hu2 (min_le_left _ _)), ?_⟩
        rw [hmz]; exact hinz
      · intro di dj hcm
        rw [hrx0, hR0] at hcm
        obtain ⟨hnle, hdi, hs⟩ := cellMove_static_z d _ _ di dj (sgn_zero sq _ hz) hR hcm
        have hlt : rx < (realMax : K) := not_le.1 hnle
        have hdj : some dj = some (sgnI d.x) := by rw [← hs ⟨h0, le_of_lt hlt⟩, sgn_eq_sgnI sq _ hx]
        injection hdj with hdj
        subst hdj; subst hdi
        refine ⟨by intro h0; have := h0.2; unfold sgnI at this; split at this <;> omega, ?_⟩
        rw [min_eq_left (le_of_lt hlt)]
        simp only [InCell, add_zero]
        refine ⟨ax3, ?_⟩
        rw [hmz]; exact hinz
    · obtain ⟨h1, h2, hstay, hmove⟩ := tracks_core sq q hq h hi hj hsx hsz o d hx hz c t hin
      obtain ⟨di, dj, hcm, hne, hin'⟩ := hmove ht
      refine ⟨le_trans ht h1, le_trans ht h2, hstay, ?_⟩
      intro di' dj' hcm'
      have e : some (di', dj') = some (di, dj) := by rw [← hcm', ← hcm]
      injection e with e
      injection e with e1 e2
      subst e1; subst e2
      exact ⟨hne, hin'⟩

/-! ## the loop -/

/-- the box of half-widths `(wx, wz)` centred on the ray point at time `t` meets the open rectangle of cell `(i, j)` -/
def Meets (q : Quant K) (h : HF3 K) (o d : V3 K) (wx wz : K) (i j : Int) (t : K) : Prop :=
  (o.x + t * d.x - wx < XL sq q h (j + 1) ∧ XL sq q h j < o.x + t * d.x + wx) ∧
  (o.z + t * d.z - wz < ZL sq q h (i + 1) ∧ ZL sq q h i < o.z + t * d.z + wz)

/-- invariant of the loop: each axis keeps its range relation (`AxInv`), and the block is covered by the trace -/
def WInv (q : Quant K) (h : HF3 K) (o d : V3 K) (wx wz : K) (s : St) : Prop :=
  AxInv (XL sq q h) wx d.x o.x s.cell.2 s.rj.1 s.rj.2 ∧ AxInv (ZL sq q h) wz d.z o.z s.cell.1 s.ri.1 s.ri.2 ∧
    Covered h.ni h.nj s.ri s.rj s.out

set_option maxHeartbeats 1000000 in
/-- **The loop covers the path of the box.**  Any velocity with a non-zero horizontal component.  From a state whose cell contains
the centre at time `t0 ≥ 0` and which satisfies `WInv`, a loop that ends normally (`.done`) has in its trace every in-field cell
whose open rectangle the box meets at some time of `[t0, max_time_of_impact]` — whichever of the `break`s ended it — and never
drops a cell from the trace. -/
theorem walkLoop_covers_path (q : Quant K) (hq : LawfulQuant q) (h : HF3 K) (hi : 0 < h.ni) (hj : 0 < h.nj)
    (hsx : 0 < h.scale.x) (hsz : 0 < h.scale.z) (o d : V3 K) (maxToi : K) (hxz : d.x ≠ 0 ∨ d.z ≠ 0) (wx wz : K)
    (n : Nat) (s : St) (t0 : K) (ht0 : 0 ≤ t0) (hin : InCell sq q h s.cell (o.x + t0 * d.x) (o.z + t0 * d.z))
    (hinv : WInv sq q h o d wx wz s) (out : List (Int × Int))
    (hres : walkLoop (@walkStep K (fieldNum K sq) q h o d maxToi) n s = .done out) :
    (∀ c ∈ s.out, c ∈ out) ∧
    ∀ i j : Int, ∀ t : K, 0 ≤ i → i < h.ni → 0 ≤ j → j < h.nj → t0 ≤ t → t ≤ maxToi → Meets sq q h o d wx wz i j t →
      (i, j) ∈ out := by
  letI := fieldNum K sq
  have hLx := XL_lines sq q hq h hj hsx
  have hLz := ZL_lines sq q hq h hi hsz
  induction n generalizing s t0 with
  | zero => simp [walkLoop] at hres
  | succ n ih =>
    obtain ⟨h1, h2, hstay, hmove⟩ := tracks_core_gen sq q hq h hi hj hsx hsz o d hxz s.cell t0 ht0 hin
    set rx := boundaryTime (XL sq q h) s.cell.2 o.x d.x with hrx
    set rz := boundaryTime (ZL sq q h) s.cell.1 o.z d.z with hrz
    have hrx0 : nmax rx 0 = rx := by rw [fieldNum_nmax]; exact max_eq_left h1
    have hrz0 : nmax rz 0 = rz := by rw [fieldNum_nmax]; exact max_eq_left h2
    have ht' : (0 : K) ≤ min rx rz := le_min h1 h2
    -- while the centre is in the current cell the footprint lies in the covered block
    have hblock : ∀ i j : Int, ∀ t : K, 0 ≤ i → i < h.ni → 0 ≤ j → j < h.nj → t0 ≤ t → t ≤ min rx rz →
        Meets sq q h o d wx wz i j t → (i, j) ∈ s.out := by
      intro i j t i0 i1 j0 j1 t1 t2 hm
      have hc := hstay t t1 t2
      obtain ⟨a1, a2⟩ := hinv.1.footprint hLx t j hc.1 hm.1
      obtain ⟨b1, b2⟩ := hinv.2.1.footprint hLz t i hc.2 hm.2
      exact hinv.2.2 i j b1 b2 a1 a2 i0 i1 j0 j1
    have hstepdef : walkStep q h o d maxToi s = stepWith h d maxToi (nmax rx 0) (nmax rz 0) s := rfl
    unfold walkLoop at hres
    split at hres
    · -- the step stops
      rename_i out' hst
      injection hres with hres
      subst hres
      rw [hstepdef] at hst
      obtain ⟨e, hwhy⟩ := stepWith_stop_spec h d maxToi _ _ s _ hst
      subst e
      refine ⟨fun c hc => hc, ?_⟩
      intro i j t i0 i1 j0 j1 t1 t2 hm
      rcases hwhy with ⟨hbx, hbz⟩ | ⟨di', dj', hcm', hwhy'⟩
      · rw [hrx0] at hbx; rw [hrz0] at hbz
        exact hblock i j t i0 i1 j0 j1 t1 (le_trans t2 (le_of_lt (lt_min hbx hbz))) hm
      · obtain ⟨hne, hin'⟩ := hmove di' dj' hcm'
        by_cases hle : t ≤ min rx rz
        · exact hblock i j t i0 i1 j0 j1 t1 hle hm
        · exfalso
          have hgt : min rx rz ≤ t := le_of_lt (not_le.1 hle)
          rcases hwhy' with h0 | hl | hl
          · exact hne h0
          · exact (hinv.2.1.shift hLz di' (fun hd => cellMove_zero_z d _ _ di' dj' (sgn_zero sq _ hd) hcm')).left hLz
              (min rx rz) t hgt i h.ni hin'.2 hl hm.2 ⟨i0, i1⟩
          · exact (hinv.1.shift hLx dj' (fun hd => cellMove_zero_x d _ _ di' dj' (sgn_zero sq _ hd) hcm')).left hLx
              (min rx rz) t hgt j h.nj hin'.1 hl hm.1 ⟨j0, j1⟩
    · cases hres
    · -- the step goes on
      rename_i s' hst
      rw [hstepdef] at hst
      obtain ⟨di', dj', hcm', -, hcell, hri, hrj, -⟩ := stepWith_cont_spec h d maxToi _ _ s s' hst
      obtain ⟨-, hin'⟩ := hmove di' dj' hcm'
      obtain ⟨hcov', hmono⟩ := step_block_covered h d maxToi _ _ s s' hst hinv.2.2
      have hinv' : WInv sq q h o d wx wz s' := by
        refine ⟨?_, ?_, hcov'⟩
        · rw [hcell, hrj]
          exact hinv.1.shift hLx dj' (fun hd => cellMove_zero_x d _ _ di' dj' (sgn_zero sq _ hd) hcm')
        · rw [hcell, hri]
          exact hinv.2.1.shift hLz di' (fun hd => cellMove_zero_z d _ _ di' dj' (sgn_zero sq _ hd) hcm')
      have hin'' : InCell sq q h s'.cell (o.x + min rx rz * d.x) (o.z + min rx rz * d.z) := by rw [hcell]; exact hin'
      obtain ⟨m1, c1⟩ := ih s' (min rx rz) ht' hin'' hinv' hres
      refine ⟨fun c hc => m1 c (hmono c hc), ?_⟩
      intro i j t i0 i1 j0 j1 t1 t2 hm
      by_cases hle : t ≤ min rx rz
      · exact m1 _ (hmono _ (hblock i j t i0 i1 j0 j1 t1 hle hm))
      · exact c1 i j t i0 i1 j0 j1 (le_of_lt (not_le.1 hle)) t2 hm

/-! ## the whole walk -/

theorem Lines.mono {L : Int → K} {w : K} (hL : Lines L w) (a b : Int) (hab : a ≤ b) : L a ≤ L b := by
  have e := hL.add a (b - a)
  have e' : a + (b - a) = b := by ring
  rw [e'] at e
  have : (0 : K) ≤ ((b - a : Int) : K) := by exact_mod_cast (by omega : (0 : Int) ≤ b - a)
  have := mul_nonneg this (le_of_lt hL.pos)
  linarith

private theorem neq_zero_false (x : K) (hx : x ≠ 0) : @neq K (fieldNum K sq) x 0 = false := by
  rw [Bool.eq_false_iff]
  intro e
  simp only [neq, Bool.and_eq_true, decide_eq_true_eq] at e
  exact hx (le_antisymm e.1 e.2)


private theorem neq_zero_true (x : K) (hx : x = 0) : @neq K (fieldNum K sq) x 0 = true := by
  subst hx; simp [neq]

/-- the start range of a static axis (not enlarged) contains the fixed footprint of the box -/
theorem static_init_x (q : Quant K) (hq : LawfulQuant q) (hc : LawfulCeil q) (h : HF3 K) (hi : 0 < h.ni) (hj : 0 < h.nj)
    (hsx : 0 < h.scale.x) (hsz : 0 < h.scale.z) (b : Aabb3 K) (k : Int)
    (h1 : b.mins.x < XL sq q h (k + 1)) (h2 : XL sq q h k < b.maxs.x) :
    (@rangeInAabb K (fieldNum K sq) q h b).2.1 ≤ k ∧ k < (@rangeInAabb K (fieldNum K sq) q h b).2.2 := by
  have hL := XL_lines sq q hq h hj hsx
  have hf : XL sq q h (@rangeInAabb K (fieldNum K sq) q h b).2.1 ≤ b.mins.x := XL_floor_le sq q hq h hi hj hsx hsz b.mins.x
  have hg : b.maxs.x ≤ XL sq q h (@rangeInAabb K (fieldNum K sq) q h b).2.2 := XL_ceil_ge sq q hq hc h hj hsx b.maxs.x
  constructor
  · have := hL.lt_of_lt _ _ (lt_of_le_of_lt hf h1); omega
  · exact hL.lt_of_lt _ _ (lt_of_lt_of_le h2 hg)

theorem static_init_z (q : Quant K) (hq : LawfulQuant q) (hc : LawfulCeil q) (h : HF3 K) (hi : 0 < h.ni) (hj : 0 < h.nj)
    (hsx : 0 < h.scale.x) (hsz : 0 < h.scale.z) (b : Aabb3 K) (k : Int)
    (h1 : b.mins.z < ZL sq q h (k + 1)) (h2 : ZL sq q h k < b.maxs.z) :
    (@rangeInAabb K (fieldNum K sq) q h b).1.1 ≤ k ∧ k < (@rangeInAabb K (fieldNum K sq) q h b).1.2 := by
  have hL := ZL_lines sq q hq h hi hsz
  have hf : ZL sq q h (@rangeInAabb K (fieldNum K sq) q h b).1.1 ≤ b.mins.z := ZL_floor_le sq q hq h hi hj hsx hsz b.mins.z
  have hg : b.maxs.z ≤ ZL sq q h (@rangeInAabb K (fieldNum K sq) q h b).1.2 := ZL_ceil_ge sq q hq hc h hi hsz b.maxs.z
  constructor
  · have := hL.lt_of_lt _ _ (lt_of_le_of_lt hf h1); omega
  · exact hL.lt_of_lt _ _ (lt_of_lt_of_le h2 hg)

set_option maxHeartbeats 1000000 in
/-- **The 3-D walk covers the path of the box from the pre-advance time on** — every velocity (both, one or no horizontal
component).  A walk that ends normally has in its trace every in-field cell whose open rectangle the moving box `aabb2 + t·vel`
meets at some time `t` between the pre-advance time `toi` (the answer of `cast_local_ray` on the Minkowski box) and
`max_time_of_impact`. -/
theorem walk_covers_from_entry (q : Quant K) (hq : LawfulQuant q) (hc : LawfulCeil q) (h : HF3 K) (hi : 0 < h.ni) (hj : 0 < h.nj)
    (hsx : 0 < h.scale.x) (hsz : 0 < h.scale.z) (aabb2 : Aabb3 K) (vel : V3 K) (maxToi : K)
    (fuel : Nat) (out : List (Int × Int))
    (hw : @walk K (fieldNum K sq) q false h aabb2 vel maxToi fuel = .done out) :
    ∃ toi : K, @Aabb.castLocalRay K (fieldNum K sq) (@realMax K (fieldNum K sq))
        ⟨@V3.sub K (fieldNum K sq) h.aabb.mins (@Aabb3.halfExtents K (fieldNum K sq) aabb2),
         @V3.add K (fieldNum K sq) h.aabb.maxs (@Aabb3.halfExtents K (fieldNum K sq) aabb2)⟩
        ⟨@Aabb3.center K (fieldNum K sq) aabb2, vel⟩ maxToi true = some toi ∧
      (0 ≤ toi → ∀ i j : Int, ∀ t : K, 0 ≤ i → i < h.ni → 0 ≤ j → j < h.nj → toi ≤ t → t ≤ maxToi →
        aabb2.mins.x + t * vel.x < XL sq q h (j + 1) → XL sq q h j < aabb2.maxs.x + t * vel.x →
        aabb2.mins.z + t * vel.z < ZL sq q h (i + 1) → ZL sq q h i < aabb2.maxs.z + t * vel.z → (i, j) ∈ out) := by
  letI := fieldNum K sq
  have hLx := XL_lines sq q hq h hj hsx
  have hLz := ZL_lines sq q hq h hi hsz
  unfold walk at hw
  split at hw
  · cases hw
  · rename_i o s0 hinit
    obtain ⟨toi, hcast, ho, hcell, hri, hrj⟩ := walkInit_spec q h aabb2 vel maxToi o s0 hinit
    have hcov := walkInit_covered q h aabb2 vel maxToi o s0 hinit
    subst ho
    refine ⟨toi, hcast, ?_⟩
    intro htoi i j t i0 i1 j0 j1 t1 t2 ox1 ox2 oz1 oz2
    have hcx : (Aabb3.center aabb2).x = (aabb2.mins.x + aabb2.maxs.x) * (1 / 2) := by
      simp only [Aabb3.center, V3.center, V3.add, V3.smul, lit_half6]
    have hcz : (Aabb3.center aabb2).z = (aabb2.mins.z + aabb2.maxs.z) * (1 / 2) := by
      simp only [Aabb3.center, V3.center, V3.add, V3.smul, lit_half6]
    have hwx : (Aabb3.halfExtents aabb2).x = (aabb2.maxs.x - aabb2.mins.x) * (1 / 2) := by
      simp only [Aabb3.halfExtents, V3.sub, V3.smul, lit_half6]
    have hwz : (Aabb3.halfExtents aabb2).z = (aabb2.maxs.z - aabb2.mins.z) * (1 / 2) := by
      simp only [Aabb3.halfExtents, V3.sub, V3.smul, lit_half6]
    set b : Aabb3 K := ⟨aabb2.mins.add (vel.smul toi), aabb2.maxs.add (vel.smul toi)⟩ with hb
    have hbcx : (Aabb3.center b).x = (Aabb3.center aabb2).x + toi * vel.x := by
      simp only [hb, Aabb3.center, V3.center, V3.add, V3.smul, lit_half6]; ring
    have hbcz : (Aabb3.center b).z = (Aabb3.center aabb2).z + toi * vel.z := by
      simp only [hb, Aabb3.center, V3.center, V3.add, V3.smul, lit_half6]; ring
    have hbwx : (Aabb3.halfExtents b).x = (Aabb3.halfExtents aabb2).x := by
      simp only [hb, Aabb3.halfExtents, V3.sub, V3.add, V3.smul, lit_half6]; ring
    have hbwz : (Aabb3.halfExtents b).z = (Aabb3.halfExtents aabb2).z := by
      simp only [hb, Aabb3.halfExtents, V3.sub, V3.add, V3.smul, lit_half6]; ring
    have hbmx : b.mins.x = aabb2.mins.x + vel.x * toi ∧ b.maxs.x = aabb2.maxs.x + vel.x * toi := by
      simp only [hb, V3.add, V3.smul]; exact ⟨trivial, trivial⟩
    have hbmz : b.mins.z = aabb2.mins.z + vel.z * toi ∧ b.maxs.z = aabb2.maxs.z + vel.z * toi := by
      simp only [hb, V3.add, V3.smul]; exact ⟨trivial, trivial⟩
    have hin : InCell sq q h s0.cell ((Aabb3.center aabb2).x + toi * vel.x) ((Aabb3.center aabb2).z + toi * vel.z) := by
      rw [hcell, ← hbcx, ← hbcz]
      exact cellAtPoint_contains sq q hq h hi hj hsx hsz _
    -- the axis invariants of the start state
    have hax : AxInv (XL sq q h) (Aabb3.halfExtents aabb2).x vel.x (Aabb3.center aabb2).x s0.cell.2 s0.rj.1 s0.rj.2 := by
      by_cases hx : vel.x = 0
      · right
        refine ⟨hx, ?_⟩
        intro k k1 k2
        rw [hrj, neq_zero_true sq _ hx]
        simp only [if_true]
        refine static_init_x sq q hq hc h hi hj hsx hsz b k ?_ ?_
        · rw [hbmx.1, hx]; rw [hcx, hwx] at k1; linarith
        · rw [hbmx.2, hx]; rw [hcx, hwx] at k2; linarith
      · left
        refine ⟨hx, ?_⟩
        rw [hcell, hrj, neq_zero_false sq _ hx, ← hbwx]
        simp only [Bool.false_eq_true, if_false]
        exact rel_init_x sq q hq hc h hi hj hsx hsz b
    have haz : AxInv (ZL sq q h) (Aabb3.halfExtents aabb2).z vel.z (Aabb3.center aabb2).z s0.cell.1 s0.ri.1 s0.ri.2 := by
      by_cases hz : vel.z = 0
      · right
        refine ⟨hz, ?_⟩
        intro k k1 k2
        rw [hri, neq_zero_true sq _ hz]
        simp only [if_true]
        refine static_init_z sq q hq hc h hi hj hsx hsz b k ?_ ?_
        · rw [hbmz.1, hz]; rw [hcz, hwz] at k1; linarith
        · rw [hbmz.2, hz]; rw [hcz, hwz] at k2; linarith
      · left
        refine ⟨hz, ?_⟩
        rw [hcell, hri, neq_zero_false sq _ hz, ← hbwz]
        simp only [Bool.false_eq_true, if_false]
        exact rel_init_z sq q hq hc h hi hj hsx hsz b
    have hm : Meets sq q h (Aabb3.center aabb2) vel (Aabb3.halfExtents aabb2).x (Aabb3.halfExtents aabb2).z i j t := by
      refine ⟨⟨?_, ?_⟩, ⟨?_, ?_⟩⟩
      · rw [hcx, hwx]; linarith
      · rw [hcx, hwx]; linarith
      · rw [hcz, hwz]; linarith
      · rw [hcz, hwz]; linarith
    by_cases hboth : vel.x = 0 ∧ vel.z = 0
    · -- no horizontal motion: the cast returns after the initial block
      rw [neq_zero_true sq _ hboth.1, neq_zero_true sq _ hboth.2] at hw
      simp only [Bool.and_self, if_true] at hw
      injection hw with hw
      subst hw
      have hc0 := hin
      have e1 : (Aabb3.center aabb2).x + toi * vel.x = (Aabb3.center aabb2).x + t * vel.x := by rw [hboth.1]; ring
      have e2 : (Aabb3.center aabb2).z + toi * vel.z = (Aabb3.center aabb2).z + t * vel.z := by rw [hboth.2]; ring
      rw [e1, e2] at hc0
      obtain ⟨a1, a2⟩ := hax.footprint hLx t j hc0.1 hm.1
      obtain ⟨b1, b2⟩ := haz.footprint hLz t i hc0.2 hm.2
      exact hcov i j b1 b2 a1 a2 i0 i1 j0 j1
    · have hxz : vel.x ≠ 0 ∨ vel.z ≠ 0 := by
        by_contra hcon
        push Not at hcon
        exact hboth hcon
      have hnb : (neq vel.x 0 && neq vel.z 0) = false := by
        rcases hxz with h1 | h1
        · rw [neq_zero_false sq _ h1]; rfl
        · rw [neq_zero_false sq _ h1]; exact Bool.and_false _
      rw [hnb] at hw
      simp only [Bool.false_eq_true, if_false] at hw
      exact (walkLoop_covers_path sq q hq h hi hj hsx hsz (Aabb3.center aabb2) vel maxToi hxz _ _ fuel s0 toi htoi hin
        ⟨hax, haz, hcov⟩ out hw).2 i j t i0 i1 j0 j1 t1 t2 hm

/-- **`walk_covers_full` holds** — the statement left open in `Theorems3.lean`, for every velocity.  Field box containing the
grid, valid box of the shape, `0 ≤ max_time_of_impact ≤ Real::MAX`.  Every in-field cell whose open rectangle the moving box meets
at some `t ∈ [0, max_time_of_impact]` while it overlaps the vertical range of the field is in the trace of a walk that ends
normally: after the pre-advance time by `walk_covers_from_entry`, and before it the box is still disjoint from the field's box
(C04's `aabb_cast_solid_firstHit` for the Minkowski box). -/
theorem walk_covers_full_generic (q : Quant K) (hq : LawfulQuant q) (hc : LawfulCeil q) (h : HF3 K) (hi : 0 < h.ni) (hj : 0 < h.nj)
    (hsx : 0 < h.scale.x) (hsz : 0 < h.scale.z)
    (hgx : h.aabb.mins.x ≤ XL sq q h 0 ∧ XL sq q h h.nj ≤ h.aabb.maxs.x)
    (hgz : h.aabb.mins.z ≤ ZL sq q h 0 ∧ ZL sq q h h.ni ≤ h.aabb.maxs.z)
    (aabb2 : Aabb3 K) (hv2 : aabb2.mins.x ≤ aabb2.maxs.x ∧ aabb2.mins.y ≤ aabb2.maxs.y ∧ aabb2.mins.z ≤ aabb2.maxs.z)
    (vel : V3 K) (maxToi : K) (hm0 : 0 ≤ maxToi) (hmb : maxToi ≤ @realMax K (fieldNum K sq)) :
    walk_covers_full sq q h aabb2 vel maxToi := by
  letI := fieldNum K sq
  intro fuel out hw i j t i0 i1 j0 j1 t0 t1 ox1 ox2 oz1 oz2 oy1 oy2
  have hLx := XL_lines sq q hq h hj hsx
  have hLz := ZL_lines sq q hq h hi hsz
  obtain ⟨toi, hcast, hcov⟩ := walk_covers_from_entry sq q hq hc h hi hj hsx hsz aabb2 vel maxToi fuel out hw
  have hwx : (Aabb3.halfExtents aabb2).x = (aabb2.maxs.x - aabb2.mins.x) * (1 / 2) := by
    simp only [Aabb3.halfExtents, V3.sub, V3.smul, lit_half6]
  have hwy : (Aabb3.halfExtents aabb2).y = (aabb2.maxs.y - aabb2.mins.y) * (1 / 2) := by
    simp only [Aabb3.halfExtents, V3.sub, V3.smul, lit_half6]
  have hwz : (Aabb3.halfExtents aabb2).z = (aabb2.maxs.z - aabb2.mins.z) * (1 / 2) := by
    simp only [Aabb3.halfExtents, V3.sub, V3.smul, lit_half6]
  have hcx : (Aabb3.center aabb2).x = (aabb2.mins.x + aabb2.maxs.x) * (1 / 2) := by
    simp only [Aabb3.center, V3.center, V3.add, V3.smul, lit_half6]
  have hcy : (Aabb3.center aabb2).y = (aabb2.mins.y + aabb2.maxs.y) * (1 / 2) := by
    simp only [Aabb3.center, V3.center, V3.add, V3.smul, lit_half6]
  have hcz : (Aabb3.center aabb2).z = (aabb2.mins.z + aabb2.maxs.z) * (1 / 2) := by
    simp only [Aabb3.center, V3.center, V3.add, V3.smul, lit_half6]
  have gx0 := hLx.mono 0 h.nj (by omega)
  have gz0 := hLz.mono 0 h.ni (by omega)
  have hv : C04.AabbValid (⟨V3.sub h.aabb.mins (Aabb3.halfExtents aabb2), V3.add h.aabb.maxs (Aabb3.halfExtents aabb2)⟩ : Aabb K) := by
    simp only [C04.AabbValid, V3.sub, V3.add, hwx, hwy, hwz]
    refine ⟨?_, ?_, ?_⟩ <;> linarith [hv2.1, hv2.2.1, hv2.2.2, hgx.1, hgx.2, hgz.1, hgz.2]
  have fh := C04.aabb_cast_solid_firstHit sq (@realMax K (fieldNum K sq)) _ ⟨Aabb3.center aabb2, vel⟩ maxToi hv hm0 hmb
  rw [hcast] at fh
  obtain ⟨h0, -, -, hfirst⟩ := fh
  by_cases hlt : t < toi
  · exfalso
    apply hfirst t t0 hlt
    have jx1 := hLx.mono 0 j j0
    have jx2 := hLx.mono (j + 1) h.nj (by omega)
    have iz1 := hLz.mono 0 i i0
    have iz2 := hLz.mono (i + 1) h.ni (by omega)
    simp only [C04.AabbMem, C04.rayPt, Ray3.pointAt, V3.add, V3.sub, V3.smul, hwx, hwy, hwz, hcx, hcy, hcz]
    refine ⟨⟨?_, ?_⟩, ⟨?_, ?_⟩, ⟨?_, ?_⟩⟩ <;> linarith [hgx.1, hgx.2, hgz.1, hgz.2]
  · exact hcov h0 i j t i0 i1 j0 j1 (not_lt.1 hlt) t1 ox1 ox2 oz1 oz2

/-! ## the loop ends -/

/-- what a step that goes on has checked (any scalar type): the shifted ranges have not left the field -/
theorem stepWith_cont_notleft {K : Type} [Num K] (h : HF3 K) (d : V3 K) (maxToi tx tz : K) (s s' : St)
    (hstep : stepWith h d maxToi tx tz s = .cont s') :
    ∃ di dj : Int, cellMove d tx tz = some (di, dj) ∧ ¬ (di = 0 ∧ dj = 0) ∧
      s'.ri = (s.ri.1 + di, s.ri.2 + di) ∧ s'.rj = (s.rj.1 + dj, s.rj.2 + dj) ∧
      ¬ ((0 ≤ d.z ∧ (h.ni : Int) ≤ s.ri.1 + di) ∨ (d.z ≤ 0 ∧ s.ri.2 + di ≤ 0)) ∧
      ¬ ((0 ≤ d.x ∧ (h.nj : Int) ≤ s.rj.1 + dj) ∨ (d.x ≤ 0 ∧ s.rj.2 + dj ≤ 0)) := by
  unfold stepWith at hstep
  split at hstep
  · cases hstep
  · split at hstep
    · cases hstep
    · rename_i di dj hcm
      split at hstep
      · cases hstep
      · rename_i h0
        simp only at hstep
        split at hstep
        · cases hstep
        · rename_i hl
          injection hstep with hstep
          subst hstep
          simp only [Bool.or_eq_true, Bool.and_eq_true, decide_eq_true_eq, not_or] at hl
          exact ⟨di, dj, hcm, h0, rfl, rfl, not_or.2 hl.1, not_or.2 hl.2⟩

/-- each component of a cell move is 0 or the `signum` of the velocity component -/
theorem cellMove_components {K : Type} [Num K] (d : V3 K) (tx tz : K) (di dj : Int) (hcm : cellMove d tx tz = some (di, dj)) :
    (di = 0 ∨ sgn d.z = some di) ∧ (dj = 0 ∨ sgn d.x = some dj) := by
  unfold cellMove at hcm
  simp only at hcm
  split at hcm
  · cases hcm
  · cases hcm
  · rename_i a b ha hb
    injection hcm with hcm
    injection hcm with e1 e2
    subst e1; subst e2
    constructor
    · split at hb
      · exact Or.inr hb
      · injection hb with hb; exact Or.inl hb.symm
    · split at ha
      · exact Or.inr ha
      · injection ha with ha; exact Or.inl ha.symm

/-- how many more shifts the range of an axis can make before it has left the field on the side of the motion -/
def axisPot (d : K) (n : Nat) (r : Int × Int) : Int := if 0 < d then (n : Int) - r.1 else if d < 0 then r.2 else 0

private theorem sgn_cases (x : K) (m : Int) (hs : @sgn K (fieldNum K sq) x = some m) : (0 < x ∧ m = 1) ∨ (x < 0 ∧ m = -1) := by
  unfold sgn at hs
  split at hs
  · rename_i hp; injection hs with hs; exact Or.inl ⟨hp, hs.symm⟩
  · split at hs
    · rename_i hn; injection hs with hs; exact Or.inr ⟨hn, hs.symm⟩
    · cases hs

/-- one axis of a step that goes on: the potential stays non-negative and drops by `|m|` -/
private theorem axisPot_step (d : K) (n : Nat) (r : Int × Int) (m : Int) (hm : m = 0 ∨ @sgn K (fieldNum K sq) d = some m)
    (hnl : ¬ ((0 ≤ d ∧ (n : Int) ≤ r.1 + m) ∨ (d ≤ 0 ∧ r.2 + m ≤ 0))) :
    0 ≤ axisPot d n (r.1 + m, r.2 + m) ∧ axisPot d n r = axisPot d n (r.1 + m, r.2 + m) + (if m = 0 then 0 else 1) := by
  simp only [not_or, not_and, not_le] at hnl
  unfold axisPot
  rcases lt_trichotomy d 0 with hneg | hzero | hpos
  · have h1 : ¬ (0 < d) := not_lt.2 (le_of_lt hneg)
    have h2 := hnl.2 (le_of_lt hneg)
    simp only [h1, if_false, hneg, if_true]
    rcases hm with hm | hm
    · subst hm; simp at h2 ⊢; omega
    · rcases sgn_cases sq d m hm with ⟨hp, _⟩ | ⟨_, hm'⟩
      · exact absurd hp h1
      · subst hm'; simp at h2 ⊢; omega
  · subst hzero
    simp only [lt_irrefl, if_false]
    rcases hm with hm | hm
    · subst hm; simp
    · rcases sgn_cases sq 0 m hm with ⟨hp, _⟩ | ⟨hn, _⟩
      · exact absurd hp (lt_irrefl _)
      · exact absurd hn (lt_irrefl _)
  · have h2 := hnl.1 (le_of_lt hpos)
    simp only [hpos, if_true]
    rcases hm with hm | hm
    · subst hm; simp at h2 ⊢; omega
    · rcases sgn_cases sq d m hm with ⟨_, hm'⟩ | ⟨hn, _⟩
      · subst hm'; simp at h2 ⊢; omega
      · exact absurd hn (not_lt.2 (le_of_lt hpos))

/-- **The loop ends.**  Whatever the boundary times are, every step that goes on shifts a range towards the side the box is moving
to, and the loop stops as soon as a range has left the field there: with more fuel than the number of shifts the two ranges can
still make (`axisPot`), the loop does not run out of fuel. -/
theorem walkLoop_terminates (h : HF3 K) (d : V3 K) (maxToi : K) (tx tz : St → K) (n : Nat) (s : St)
    (hfuel : max 0 (axisPot d.x h.nj s.rj) + max 0 (axisPot d.z h.ni s.ri) < (n : Int)) :
    ∀ out, walkLoop (fun s => @stepWith K (fieldNum K sq) h d maxToi (tx s) (tz s) s) n s ≠ .fuelExhausted out := by
  letI := fieldNum K sq
  induction n generalizing s with
  | zero =>
    intro out
    have h1 := le_max_left 0 (axisPot d.x h.nj s.rj)
    have h2 := le_max_left 0 (axisPot d.z h.ni s.ri)
    simp only [Nat.cast_zero] at hfuel
    omega
  | succ n ih =>
    intro out
    unfold walkLoop
    split
    · intro hc; cases hc
    · intro hc; cases hc
    · rename_i s' hst
      obtain ⟨di, dj, hcm, hne, hri, hrj, hli, hlj⟩ := stepWith_cont_notleft h d maxToi _ _ s s' hst
      obtain ⟨hdi, hdj⟩ := cellMove_components d _ _ di dj hcm
      obtain ⟨px0, pxe⟩ := axisPot_step sq d.x h.nj s.rj dj hdj hlj
      obtain ⟨pz0, pze⟩ := axisPot_step sq d.z h.ni s.ri di hdi hli
      refine ih s' ?_ out
      rw [hri, hrj, max_eq_right px0, max_eq_right pz0]
      have e1 : max 0 (axisPot d.x h.nj s.rj) = axisPot d.x h.nj s.rj := max_eq_right (by rw [pxe]; split <;> omega)
      have e2 : max 0 (axisPot d.z h.ni s.ri) = axisPot d.z h.ni s.ri := max_eq_right (by rw [pze]; split <;> omega)
      rw [e1, e2, pxe, pze] at hfuel
      push_cast at hfuel
      have : (if dj = 0 then (0 : Int) else 1) + (if di = 0 then (0 : Int) else 1) ≥ 1 := by
        by_cases a : dj = 0 <;> by_cases b : di = 0 <;> simp [a, b]
        exact hne ⟨b, a⟩
      omega

/-- **The walk ends**: with more fuel than the start ranges can still be shifted, `walk` (corrected step) does not run out of fuel
— it ends with `.done` (or gives up with `signumOfZero` / `noBoxHit`). -/
theorem walk_not_fuelExhausted (q : Quant K) (h : HF3 K) (aabb2 : Aabb3 K) (vel : V3 K) (maxToi : K) (fuel : Nat) (o : V3 K) (s0 : St)
    (hinit : @walkInit K (fieldNum K sq) q h aabb2 vel maxToi = some (o, s0))
    (hfuel : max 0 (axisPot vel.x h.nj s0.rj) + max 0 (axisPot vel.z h.ni s0.ri) < (fuel : Int)) :
    ∀ out, @walk K (fieldNum K sq) q false h aabb2 vel maxToi fuel ≠ .fuelExhausted out := by
  letI := fieldNum K sq
  intro out
  unfold walk
  rw [hinit]
  simp only [Bool.false_eq_true, if_false]
  split
  · intro hc; cases hc
  · exact walkLoop_terminates sq h vel maxToi
      (fun s => nmax (boundaryTime (signedXAt q h) s.cell.2 o.x vel.x) 0)
      (fun s => nmax (boundaryTime (signedZAt q h) s.cell.1 o.z vel.z) 0) fuel s0 hfuel out

/-! ## every traced cell is a cell of the field -/

section infield
variable {K : Type} [Num K]

/-- cell inside the field -/
def InField (ni nj : Nat) (c : Int × Int) : Prop := 0 ≤ c.1 ∧ c.1 < ni ∧ 0 ≤ c.2 ∧ c.2 < nj

theorem hitCell_infield (ni nj : Nat) (out : List (Int × Int)) (i j : Int) (ho : ∀ c ∈ out, InField ni nj c) :
    ∀ c ∈ hitCell ni nj out i j, InField ni nj c := by
  unfold hitCell
  split
  · rename_i hc
    intro c hcm
    rcases List.mem_append.1 hcm with h1 | h1
    · exact ho c h1
    · simp only [List.mem_singleton] at h1
      subst h1
      exact ⟨hc.1, hc.2.2.1, hc.2.1, hc.2.2.2⟩
  · exact ho

theorem foldl_hitCell_infield {α : Type} (ni nj : Nat) (f : α → Int × Int) (l : List α) (out : List (Int × Int))
    (ho : ∀ c ∈ out, InField ni nj c) :
    ∀ c ∈ l.foldl (fun acc a => hitCell ni nj acc (f a).1 (f a).2) out, InField ni nj c := by
  induction l generalizing out with
  | nil => exact ho
  | cons a l ih => exact ih _ (hitCell_infield ni nj out _ _ ho)

theorem stepWith_infield (h : HF3 K) (d : V3 K) (maxToi tx tz : K) (s s' : St)
    (hstep : stepWith h d maxToi tx tz s = .cont s') (ho : ∀ c ∈ s.out, InField h.ni h.nj c) :
    ∀ c ∈ s'.out, InField h.ni h.nj c := by
  obtain ⟨di, dj, -, -, -, -, -, hout⟩ := stepWith_cont_spec h d maxToi tx tz s s' hstep
  rw [hout]
  simp only
  have h1 : ∀ (o : List (Int × Int)) (i0 : Int) (l : List Int), (∀ c ∈ o, InField h.ni h.nj c) →
      ∀ c ∈ l.foldl (fun acc j => hitCell h.ni h.nj acc i0 j) o, InField h.ni h.nj c :=
    fun o i0 l hoo => foldl_hitCell_infield h.ni h.nj (fun j => (i0, j)) l o hoo
  have h2 : ∀ (o : List (Int × Int)) (j0 : Int) (l : List Int), (∀ c ∈ o, InField h.ni h.nj c) →
      ∀ c ∈ l.foldl (fun acc i => hitCell h.ni h.nj acc i j0) o, InField h.ni h.nj c :=
    fun o j0 l hoo => foldl_hitCell_infield h.ni h.nj (fun i => (i, j0)) l o hoo
  have key : ∀ (c1 c2 : Prop) [Decidable c1] [Decidable c2] (i0 j0 : Int) (l1 l2 : List Int),
      ∀ c ∈ (if c2 then l2.foldl (fun acc i => hitCell h.ni h.nj acc i j0)
                (if c1 then l1.foldl (fun acc j => hitCell h.ni h.nj acc i0 j) s.out else s.out)
              else (if c1 then l1.foldl (fun acc j => hitCell h.ni h.nj acc i0 j) s.out else s.out)),
        InField h.ni h.nj c := by
    intro c1 c2 _ _ i0 j0 l1 l2
    have hA : ∀ c ∈ (if c1 then l1.foldl (fun acc j => hitCell h.ni h.nj acc i0 j) s.out else s.out),
        InField h.ni h.nj c := by
      split
      · exact h1 _ _ _ ho
      · exact ho
    split
    · exact h2 _ _ _ hA
    · exact hA
  exact key _ _ _ _ _ _

theorem walkLoop_infield (h : HF3 K) (d : V3 K) (maxToi : K) (tx tz : St → K) (n : Nat) (s : St)
    (ho : ∀ c ∈ s.out, InField h.ni h.nj c) :
    ∀ c ∈ (walkLoop (fun s => stepWith h d maxToi (tx s) (tz s) s) n s).trace, InField h.ni h.nj c := by
  induction n generalizing s with
  | zero => exact ho
  | succ n ih =>
    unfold walkLoop
    split
    · rename_i out hst
      obtain ⟨e, -⟩ := stepWith_stop_spec h d maxToi _ _ s out hst
      subst e; exact ho
    · rename_i out hst
      have : out = s.out := by
        unfold stepWith at hst
        split at hst
        · cases hst
        · split at hst
          · injection hst with hst; exact hst.symm
          · split at hst
            · cases hst
            · simp only at hst
              split at hst
              · cases hst
              · cases hst
      subst this; exact ho
    · rename_i s' hst
      exact ih s' (stepWith_infield h d maxToi _ _ s s' hst ho)

/-- **Every cell of the trace is a cell of the field.** -/
theorem walk_trace_infield (q : Quant K) (pinned : Bool) (h : HF3 K) (aabb2 : Aabb3 K) (vel : V3 K) (maxToi : K) (fuel : Nat) :
    ∀ c ∈ (walk q pinned h aabb2 vel maxToi fuel).trace, InField h.ni h.nj c := by
  unfold walk
  split
  · intro c hc; cases hc
  · rename_i o s0 hinit
    have h0 : ∀ c ∈ s0.out, InField h.ni h.nj c := by
      unfold walkInit at hinit
      simp only at hinit
      split at hinit
      · cases hinit
      · injection hinit with hinit
        injection hinit with _ hs
        subst hs
        simp only
        intro c hc
        rw [mem_foldl_block] at hc
        rcases hc with hc | hc
        · cases hc
        · exact ⟨hc.2.2.1, hc.2.2.2.2.1, hc.2.2.2.1, hc.2.2.2.2.2⟩
    split
    · exact h0
    · cases pinned
      · exact walkLoop_infield h vel maxToi _ _ fuel s0 h0
      · exact walkLoop_infield h vel maxToi _ _ fuel s0 h0

end infield

/-! ## `None` before the walk is sound -/

theorem walkLoop_ne_noBoxHit (step : St → Step) (n : Nat) (s : St) : walkLoop step n s ≠ .noBoxHit := by
  induction n generalizing s with
  | zero => intro hc; simp [walkLoop] at hc
  | succ n ih =>
    unfold walkLoop
    split
    · intro hc; cases hc
    · intro hc; cases hc
    · exact ih _

/-- **The early `return Ok(None)` is sound**: when `cast_local_ray` on the Minkowski box answers `None` (`noBoxHit`), the moving box
meets no in-field cell while overlapping the vertical range of the field at any time of `[0, max_time_of_impact]`. -/
theorem walk_noBoxHit_sound (q : Quant K) (hq : LawfulQuant q) (h : HF3 K) (hi : 0 < h.ni) (hj : 0 < h.nj)
    (hsx : 0 < h.scale.x) (hsz : 0 < h.scale.z)
    (hgx : h.aabb.mins.x ≤ XL sq q h 0 ∧ XL sq q h h.nj ≤ h.aabb.maxs.x)
    (hgz : h.aabb.mins.z ≤ ZL sq q h 0 ∧ ZL sq q h h.ni ≤ h.aabb.maxs.z)
    (aabb2 : Aabb3 K) (hv2 : aabb2.mins.x ≤ aabb2.maxs.x ∧ aabb2.mins.y ≤ aabb2.maxs.y ∧ aabb2.mins.z ≤ aabb2.maxs.z)
    (vel : V3 K) (maxToi : K) (hm0 : 0 ≤ maxToi) (hmb : maxToi ≤ @realMax K (fieldNum K sq)) (fuel : Nat) (pinned : Bool)
    (hw : @walk K (fieldNum K sq) q pinned h aabb2 vel maxToi fuel = .noBoxHit)
    (i j : Int) (t : K) (i0 : 0 ≤ i) (i1 : i < h.ni) (j0 : 0 ≤ j) (j1 : j < h.nj) (t0 : 0 ≤ t) (t1 : t ≤ maxToi)
    (ox1 : aabb2.mins.x + t * vel.x < XL sq q h (j + 1)) (ox2 : XL sq q h j < aabb2.maxs.x + t * vel.x)
    (oz1 : aabb2.mins.z + t * vel.z < ZL sq q h (i + 1)) (oz2 : ZL sq q h i < aabb2.maxs.z + t * vel.z)
    (oy1 : aabb2.mins.y + t * vel.y < h.aabb.maxs.y) (oy2 : h.aabb.mins.y < aabb2.maxs.y + t * vel.y) : False := by
  letI := fieldNum K sq
  have hLx := XL_lines sq q hq h hj hsx
  have hLz := ZL_lines sq q hq h hi hsz
  have hcast : Aabb.castLocalRay (realMax : K)
      ⟨V3.sub h.aabb.mins (Aabb3.halfExtents aabb2), V3.add h.aabb.maxs (Aabb3.halfExtents aabb2)⟩
      ⟨Aabb3.center aabb2, vel⟩ maxToi true = none := by
    unfold walk at hw
    split at hw
    · rename_i hinit
      unfold walkInit at hinit
      simp only at hinit
      split at hinit
      · rename_i hc; exact hc
      · cases hinit
    · split at hw
      · cases hw
      · exact absurd hw (walkLoop_ne_noBoxHit _ _ _)
  have hwx : (Aabb3.halfExtents aabb2).x = (aabb2.maxs.x - aabb2.mins.x) * (1 / 2) := by
    simp only [Aabb3.halfExtents, V3.sub, V3.smul, lit_half6]
  have hwy : (Aabb3.halfExtents aabb2).y = (aabb2.maxs.y - aabb2.mins.y) * (1 / 2) := by
    simp only [Aabb3.halfExtents, V3.sub, V3.smul, lit_half6]
  have hwz : (Aabb3.halfExtents aabb2).z = (aabb2.maxs.z - aabb2.mins.z) * (1 / 2) := by
    simp only [Aabb3.halfExtents, V3.sub, V3.smul, lit_half6]
  have hcx : (Aabb3.center aabb2).x = (aabb2.mins.x + aabb2.maxs.x) * (1 / 2) := by
    simp only [Aabb3.center, V3.center, V3.add, V3.smul, lit_half6]
  have hcy : (Aabb3.center aabb2).y = (aabb2.mins.y + aabb2.maxs.y) * (1 / 2) := by
    simp only [Aabb3.center, V3.center, V3.add, V3.smul, lit_half6]
  have hcz : (Aabb3.center aabb2).z = (aabb2.mins.z + aabb2.maxs.z) * (1 / 2) := by
    simp only [Aabb3.center, V3.center, V3.add, V3.smul, lit_half6]
  have gx0 := hLx.mono 0 h.nj (by omega)
  have gz0 := hLz.mono 0 h.ni (by omega)
  have hv : C04.AabbValid (⟨V3.sub h.aabb.mins (Aabb3.halfExtents aabb2), V3.add h.aabb.maxs (Aabb3.halfExtents aabb2)⟩ : Aabb K) := by
    simp only [C04.AabbValid, V3.sub, V3.add, hwx, hwy, hwz]
    refine ⟨?_, ?_, ?_⟩ <;> linarith [hv2.1, hv2.2.1, hv2.2.2, hgx.1, hgx.2, hgz.1, hgz.2]
  have fh := C04.aabb_cast_solid_firstHit sq (@realMax K (fieldNum K sq)) _ ⟨Aabb3.center aabb2, vel⟩ maxToi hv hm0 hmb
  rw [hcast] at fh
  apply fh t t0 t1
  have jx1 := hLx.mono 0 j j0
  have jx2 := hLx.mono (j + 1) h.nj (by omega)
  have iz1 := hLz.mono 0 i i0
  have iz2 := hLz.mono (i + 1) h.ni (by omega)
  simp only [C04.AabbMem, C04.rayPt, Ray3.pointAt, V3.add, V3.sub, V3.smul, hwx, hwy, hwz, hcx, hcy, hcz]
  refine ⟨⟨?_, ?_⟩, ⟨?_, ?_⟩, ⟨?_, ?_⟩⟩ <;> linarith [hgx.1, hgx.2, hgz.1, hgz.2]

/-! ## the 3-D cast returns the first impact over ALL triangles -/

/-- the triangles `hit_triangles` hands to the part cast along a trace of cells: both triangles of each cell, in order -/
def trianglesOf (tr : List (Int × Int)) : List ((Int × Int) × Bool) := tr.flatMap fun c => [(c, false), (c, true)]

theorem mem_trianglesOf (tr : List (Int × Int)) (c : Int × Int) (b : Bool) : (c, b) ∈ trianglesOf tr ↔ c ∈ tr := by
  simp only [trianglesOf, List.mem_flatMap, List.mem_cons, List.not_mem_nil, or_false, Prod.mk.injEq]
  constructor
  · rintro ⟨a, ha, ⟨rfl, _⟩ | ⟨rfl, _⟩⟩ <;> exact ha
  · intro hc
    refine ⟨c, hc, ?_⟩
    cases b
    · exact Or.inl ⟨rfl, rfl⟩
    · exact Or.inr ⟨rfl, rfl⟩

/-- **The 3-D height-field cast returns the first impact over ALL triangles**, relative to the part casts.  `part (c, b)` is what
the dispatcher answers for triangle `b` of cell `c` (`None` for a removed triangle); hypothesis `hloc`: a part hit happens at a time
`t ∈ [0, max_time_of_impact]` at which the moving (loosened) box meets the open rectangle of the cell and overlaps the vertical
range of the field (locality of the part cast).  Then for a walk that ends normally the running minimum over the triangles of the
trace is `None` iff no triangle of the field has a hit, and otherwise a triangle hit with the smallest time of impact among all
triangles of the field. -/
theorem castHF3_first {H : Type} (q : Quant K) (hq : LawfulQuant q) (hc : LawfulCeil q) (h : HF3 K) (hi : 0 < h.ni) (hj : 0 < h.nj)
    (hsx : 0 < h.scale.x) (hsz : 0 < h.scale.z)
    (hgx : h.aabb.mins.x ≤ XL sq q h 0 ∧ XL sq q h h.nj ≤ h.aabb.maxs.x)
    (hgz : h.aabb.mins.z ≤ ZL sq q h 0 ∧ ZL sq q h h.ni ≤ h.aabb.maxs.z)
    (aabb2 : Aabb3 K) (hv2 : aabb2.mins.x ≤ aabb2.maxs.x ∧ aabb2.mins.y ≤ aabb2.maxs.y ∧ aabb2.mins.z ≤ aabb2.maxs.z)
    (vel : V3 K) (maxToi : K) (hm0 : 0 ≤ maxToi) (hmb : maxToi ≤ @realMax K (fieldNum K sq))
    (fuel : Nat) (tr : List (Int × Int)) (hw : @walk K (fieldNum K sq) q false h aabb2 vel maxToi fuel = .done tr)
    (toi : H → K) (part : (Int × Int) × Bool → Option H)
    (hloc : ∀ (c : Int × Int) (b : Bool) (x : H), 0 ≤ c.1 → c.1 < h.ni → 0 ≤ c.2 → c.2 < h.nj → part (c, b) = some x →
      0 ≤ toi x ∧ toi x ≤ maxToi ∧ toi x < @realMax K (fieldNum K sq) ∧
      (aabb2.mins.x + toi x * vel.x < XL sq q h (c.2 + 1) ∧ XL sq q h c.2 < aabb2.maxs.x + toi x * vel.x) ∧
      (aabb2.mins.z + toi x * vel.z < ZL sq q h (c.1 + 1) ∧ ZL sq q h c.1 < aabb2.maxs.z + toi x * vel.z) ∧
      (aabb2.mins.y + toi x * vel.y < h.aabb.maxs.y ∧ h.aabb.mins.y < aabb2.maxs.y + toi x * vel.y)) :
    let InField := fun c : Int × Int => 0 ≤ c.1 ∧ c.1 < h.ni ∧ 0 ≤ c.2 ∧ c.2 < h.nj
    (@HW2.bestOf K (fieldNum K sq) H toi ((trianglesOf tr).map part) = none ↔ ∀ c b, InField c → part (c, b) = none) ∧
    (∀ r, @HW2.bestOf K (fieldNum K sq) H toi ((trianglesOf tr).map part) = some r →
      (∃ k ∈ trianglesOf tr, part k = some r) ∧ ∀ c b x, InField c → part (c, b) = some x → toi r ≤ toi x) := by
  intro InField
  have htr : ∀ c ∈ tr, 0 ≤ c.1 ∧ c.1 < h.ni ∧ 0 ≤ c.2 ∧ c.2 < h.nj := by
    have := @walk_trace_infield K (fieldNum K sq) q false h aabb2 vel maxToi fuel
    rw [hw] at this
    exact this
  have hfull := walk_covers_full_generic sq q hq hc h hi hj hsx hsz hgx hgz aabb2 hv2 vel maxToi hm0 hmb
  let cells : List (Int × Int) := (irange 0 h.ni).flatMap fun i => (irange 0 h.nj).map fun j => (i, j)
  have hcells : ∀ c, c ∈ cells ↔ InField c := by
    intro c
    simp only [cells, List.mem_flatMap, List.mem_map, mem_irange, InField]
    constructor
    · rintro ⟨i, ⟨i0, i1⟩, j, ⟨j0, j1⟩, rfl⟩; exact ⟨i0, i1, j0, j1⟩
    · rintro ⟨i0, i1, j0, j1⟩; exact ⟨c.1, ⟨i0, i1⟩, c.2, ⟨j0, j1⟩, rfl⟩
  have hall : ∀ c b, (c, b) ∈ trianglesOf cells ↔ InField c := fun c b => by rw [mem_trianglesOf, hcells]
  obtain ⟨c1, c2⟩ := bestOf_cover sq toi part (trianglesOf tr) (trianglesOf cells)
    (fun k hk => by
      obtain ⟨c, b⟩ := k
      exact (hall c b).2 (htr c ((mem_trianglesOf tr c b).1 hk)))
    (fun k hk hne => by
      obtain ⟨c, b⟩ := k
      obtain ⟨i0, i1, j0, j1⟩ := (hall c b).1 hk
      cases hp : part (c, b) with
      | none => exact absurd hp hne
      | some x =>
        obtain ⟨t0, t1, _, ox, oz, oy⟩ := hloc c b x i0 i1 j0 j1 hp
        exact (mem_trianglesOf tr c b).2 (hfull fuel tr hw c.1 c.2 (toi x) i0 i1 j0 j1 t0 t1 ox.1 ox.2 oz.1 oz.2 oy.1 oy.2))
    (fun k hk x hx => by
      obtain ⟨c, b⟩ := k
      obtain ⟨i0, i1, j0, j1⟩ := (hall c b).1 hk
      exact (hloc c b x i0 i1 j0 j1 hx).2.2.1)
  refine ⟨?_, ?_⟩
  · rw [c1]
    exact ⟨fun h' c b hc' => h' (c, b) ((hall c b).2 hc'), fun h' k hk => by
      obtain ⟨c, b⟩ := k
      exact h' c b ((hall c b).1 hk)⟩
  · intro r hr
    obtain ⟨e1, e2⟩ := c2 r hr
    exact ⟨e1, fun c b x hc' hx => e2 (c, b) ((hall c b).2 hc') x hx⟩

/-- non-vacuity of `walk_covers_full_generic` / `walkLoop_covers_path`: 4 × 4 unit cells on `[-2, 2]²`, a box of half-width `1/4`
centred in cell `(0, 0)` moving along `(1, 0, 1/2)` for `max_time_of_impact = 2`: the walk ends normally (first `break`), its trace
holds the 3 × 3 start block, then column 3 and row 3 as the centre crosses `x = 0` (t = 3/2) and `z = -1` (t = 1) — in particular
cell `(1, 2)`, which the box reaches at `t = 5/4`, long after the start. -/
example :
    let q : Quant ℚ := ⟨Rat.floor, Rat.ceil, fun i => (i : ℚ)⟩
    let h : HF3 ℚ := ⟨4, 4, ⟨4, 1, 4⟩, ⟨⟨-2, 0, -2⟩, ⟨2, 1, 2⟩⟩⟩
    letI := fieldNum ℚ id
    let r := walk q false h ⟨⟨-7 / 4, 1 / 2, -7 / 4⟩, ⟨-5 / 4, 3 / 2, -5 / 4⟩⟩ ⟨1, 0, 1 / 2⟩ 2 16
    (match r with | .done _ => true | _ => false) = true ∧ ((1, 2) : Int × Int) ∈ r.trace ∧ ((0, 0) : Int × Int) ∈ r.trace ∧
      ((3, 3) : Int × Int) ∉ r.trace := by
  refine ⟨by decide +kernel, by decide +kernel, by decide +kernel, by decide +kernel⟩


/-- non-vacuity for a static axis: the same field and box moving along `+x` only (`vel.z = 0`, its boundary time is `Real::MAX`),
`max_time_of_impact = 5/2`: the walk ends normally; the `z` range is not enlarged (rows 0 only), the columns are entered one by
one — cell `(0, 3)` is in the trace, row 1 is not. -/
example :
    let q : Quant ℚ := ⟨Rat.floor, Rat.ceil, fun i => (i : ℚ)⟩
    let h : HF3 ℚ := ⟨4, 4, ⟨4, 1, 4⟩, ⟨⟨-2, 0, -2⟩, ⟨2, 1, 2⟩⟩⟩
    letI := fieldNum ℚ id
    let r := walk q false h ⟨⟨-7 / 4, 1 / 2, -7 / 4⟩, ⟨-5 / 4, 3 / 2, -5 / 4⟩⟩ ⟨1, 0, 0⟩ (5 / 2) 16
    (match r with | .done _ => true | _ => false) = true ∧ ((0, 3) : Int × Int) ∈ r.trace ∧ ((1, 0) : Int × Int) ∉ r.trace := by
  refine ⟨by decide +kernel, by decide +kernel, by decide +kernel⟩

/-- the hypotheses of `walk_covers_full_generic` on the field of the examples: its box `[-2, 2] × [0, 1] × [-2, 2]` contains the grid
(`XL 0 = -2`, `XL 4 = 2`, same along `z`), and `max_time_of_impact = 2` is within `[0, Real::MAX]` -/
example :
    let q : Quant ℚ := ⟨Rat.floor, Rat.ceil, fun i => (i : ℚ)⟩
    let h : HF3 ℚ := ⟨4, 4, ⟨4, 1, 4⟩, ⟨⟨-2, 0, -2⟩, ⟨2, 1, 2⟩⟩⟩
    (h.aabb.mins.x ≤ XL id q h 0 ∧ XL id q h h.nj ≤ h.aabb.maxs.x) ∧ (h.aabb.mins.z ≤ ZL id q h 0 ∧ ZL id q h h.ni ≤ h.aabb.maxs.z) ∧
      (2 : ℚ) ≤ @realMax ℚ (fieldNum ℚ id) := by
  refine ⟨⟨?_, ?_⟩, ⟨?_, ?_⟩, ?_⟩
  · simp only [XL, signedXAt, unitCellWidth, fieldNum_lit]; norm_num
  · simp only [XL, signedXAt, unitCellWidth, fieldNum_lit]; norm_num
  · simp only [ZL, signedZAt, unitCellHeight, fieldNum_lit]; norm_num
  · simp only [ZL, signedZAt, unitCellHeight, fieldNum_lit]; norm_num
  · unfold realMax; rw [fieldNum_ofRat]; exact_mod_cast (by decide +kernel : (2 : ℚ) ≤ mkRat (2 ^ 1024 - 2 ^ 971) 1)

end C06
