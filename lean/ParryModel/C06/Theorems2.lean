import ParryModel.Field
import ParryModel.C06.Cull
import ParryModel.C09.Theorems
/-!
# C06 theorems, part 2: the broad-phase test of the composite shape cast never prunes a part that comes within
`target_distance`, and orders the nodes by a lower bound of the time at which that can happen.

`cast_shapes_composite_shape_shape` (Compound / Polyline / TriMesh, either argument order) looks at a part only if every box
of the BVH above it passes the test modelled by `cullNode3` / `cullNode2` (`C06/Cull.lean`), and abandons the search once the
smallest pending weight exceeds the best time found.  For the cast to "return `None` only if the distance stays above the
target, and otherwise the first time it does not", the test has to be *conservative with respect to the target distance*:

* soundness (`cullNode*_keeps`, `cull*_sound_points`, `cullBall*_sound`): if at some time `t ∈ [0, max]` a point of the moving
  shape's box is within `target_distance` of a point of the node's box (Euclidean, hence on every axis), the node is kept
  and its weight is `≤ t`;
* exactness (`cullNode*_weight_exact`): a kept node's weight is a time in `[0, max]` at which the two boxes are within
  `target_distance` on every axis — so, with soundness, the weight is the *first* such time and nothing is kept needlessly.

All statements are at the lawful instance `fieldNum K sq` (any linearly ordered field); `max_time_of_impact ≤ f64::MAX`
is the only side condition (true of every `f64`; the code uses `±f64::MAX` as the "no constraint" sentinel).
-/
namespace C06
open Model Model.SC
variable {K : Type} [Field K] [LinearOrder K] [IsStrictOrderedRing K] (sq : K → K)

/-- `f64::MAX` as an element of `K` -/
def bigR (K : Type) [Field K] : K := (2 : K) ^ 1024 - (2 : K) ^ 971

private theorem realMax_eq : @realMax K (fieldNum K sq) = bigR K := by
  simp only [realMax, fieldNum_ofRat, bigR]
  rw [Rat.mkRat_one]
  push_cast
  rfl

private theorem bigR_nonneg : (0 : K) ≤ bigR K := by
  unfold bigR
  have h : (2 : K) ^ 1024 = 2 ^ 971 * 2 ^ 53 := by rw [← pow_add]
  rw [h]
  have h1 : (1 : K) ≤ 2 ^ 971 := one_le_pow₀ (by norm_num)
  have h2 : (1 : K) ≤ 2 ^ 53 := one_le_pow₀ (by norm_num)
  generalize (2 : K) ^ 971 = a at *
  generalize (2 : K) ^ 53 = c at *
  nlinarith [mul_nonneg (sub_nonneg.2 h1) (sub_nonneg.2 h2)]

/-! ## one axis of the slab loop -/

/-- the ray point `o + t·d` lies in `[lo, hi]` -/
def AxisIn (o d lo hi t : K) : Prop := lo ≤ o + t * d ∧ o + t * d ≤ hi

/-- direction coordinate `0`: the parameter interval is untouched (the `∓f64::MAX` sentinels are no constraint on
`0 ≤ tmin`, `tmax ≤ f64::MAX`), the lane survives iff the origin coordinate is inside `[lo, hi]`. -/
private theorem slabStep_zero (s : Slab K) (o lo hi : K) (h0 : 0 ≤ s.tmin) (hm : s.tmax ≤ bigR K) :
    letI := fieldNum K sq
    (slabStep s o 0 lo hi).tmin = s.tmin ∧ (slabStep s o 0 lo hi).tmax = s.tmax ∧
    ((slabStep s o 0 lo hi).hit = true ↔ (s.hit = true ∧ lo ≤ o ∧ o ≤ hi)) := by
  have hR := bigR_nonneg (K := K)
  simp only [slabStep, neq, fieldNum_nmax, fieldNum_nmin, realMax_eq, le_refl, decide_true, Bool.and_self, Bool.not_true,
    Bool.false_eq_true, if_false]
  have hgt : ¬ (bigR K < -bigR K) := by linarith
  simp only [hgt, decide_false, Bool.false_eq_true, if_false]
  refine ⟨max_eq_left (by linarith), min_eq_left hm, ?_⟩
  simp only [Bool.and_eq_true, decide_eq_true_eq]

/-- direction coordinate `≠ 0`: the parameter interval is intersected with `{t | o + t·d ∈ [lo, hi]}`, the lane survives iff
the intersection is non-empty. -/
private theorem slabStep_nonzero (s : Slab K) (o d lo hi : K) (hd : d ≠ 0) :
    letI := fieldNum K sq
    (slabStep s o d lo hi).tmin = max s.tmin (min ((lo - o) / d) ((hi - o) / d)) ∧
    (slabStep s o d lo hi).tmax = min s.tmax (max ((lo - o) / d) ((hi - o) / d)) ∧
    ((slabStep s o d lo hi).hit = true ↔ (s.hit = true ∧ (slabStep s o d lo hi).tmin ≤ (slabStep s o d lo hi).tmax)) := by
  have hnz : (!(decide (d ≤ 0) && decide (0 ≤ d))) = true := by
    rcases lt_or_gt_of_ne hd with h | h
    · simp [not_le.2 h]
    · simp [not_le.2 h]
  simp only [slabStep, neq, fieldNum_nmax, fieldNum_nmin, hnz, if_true, mul_one_div, decide_eq_true_eq]
  by_cases hg : (hi - o) / d < (lo - o) / d
  · simp only [hg, if_true]
    rw [min_eq_right hg.le, max_eq_left hg.le]
    exact ⟨rfl, rfl, by simp only [Bool.and_eq_true, decide_eq_true_eq]⟩
  · simp only [hg, if_false]
    rw [min_eq_left (not_lt.1 hg), max_eq_right (not_lt.1 hg)]
    exact ⟨rfl, rfl, by simp only [Bool.and_eq_true, decide_eq_true_eq]⟩

/-- for `d ≠ 0`: if `o + t·d ∈ [lo, hi]` then `t` lies between the two plane parameters (whatever their order) -/
private theorem axisIn_imp (o d lo hi t : K) (hd : d ≠ 0) (h : AxisIn o d lo hi t) :
    min ((lo - o) / d) ((hi - o) / d) ≤ t ∧ t ≤ max ((lo - o) / d) ((hi - o) / d) := by
  obtain ⟨h1, h2⟩ := h
  rcases lt_or_gt_of_ne hd with hneg | hpos
  · have e3 : (hi - o) / d ≤ t := by rw [div_le_iff_of_neg hneg]; linarith
    have e2 : t ≤ (lo - o) / d := by rw [le_div_iff_of_neg hneg]; linarith
    exact ⟨le_trans (min_le_right _ _) e3, le_trans e2 (le_max_left _ _)⟩
  · have e1 : (lo - o) / d ≤ t := by rw [div_le_iff₀ hpos]; linarith
    have e4 : t ≤ (hi - o) / d := by rw [le_div_iff₀ hpos]; linarith
    exact ⟨le_trans (min_le_left _ _) e1, le_trans e4 (le_max_right _ _)⟩

/-- conversely, for a non-empty interval `lo ≤ hi` -/
private theorem axisIn_of (o d lo hi t : K) (hd : d ≠ 0) (hb : lo ≤ hi)
    (h1 : min ((lo - o) / d) ((hi - o) / d) ≤ t) (h2 : t ≤ max ((lo - o) / d) ((hi - o) / d)) : AxisIn o d lo hi t := by
  unfold AxisIn
  rcases lt_or_gt_of_ne hd with hneg | hpos
  · have hle : (hi - o) / d ≤ (lo - o) / d := by
      rw [div_le_div_right_of_neg hneg]; linarith
    rw [min_eq_right hle] at h1; rw [max_eq_left hle] at h2
    rw [div_le_iff_of_neg hneg] at h1; rw [le_div_iff_of_neg hneg] at h2
    constructor <;> linarith
  · have hle : (lo - o) / d ≤ (hi - o) / d := by
      rw [div_le_div_iff_of_pos_right hpos]; linarith
    rw [min_eq_left hle] at h1; rw [max_eq_right hle] at h2
    rw [div_le_iff₀ hpos] at h1; rw [le_div_iff₀ hpos] at h2
    constructor <;> linarith

/-- one loop iteration keeps a feasible parameter `t` feasible -/
private theorem slabStep_sound (s : Slab K) (o d lo hi t : K)
    (hh : s.hit = true) (h0 : 0 ≤ s.tmin) (h1 : s.tmin ≤ t) (h2 : t ≤ s.tmax) (hm : s.tmax ≤ bigR K)
    (hin : AxisIn o d lo hi t) :
    letI := fieldNum K sq
    (slabStep s o d lo hi).hit = true ∧ 0 ≤ (slabStep s o d lo hi).tmin ∧ (slabStep s o d lo hi).tmin ≤ t ∧
      t ≤ (slabStep s o d lo hi).tmax ∧ (slabStep s o d lo hi).tmax ≤ bigR K := by
  by_cases hd : d = 0
  · subst hd
    obtain ⟨e1, e2, e3⟩ := slabStep_zero sq s o lo hi h0 hm
    rw [e1, e2, e3]
    unfold AxisIn at hin
    rw [mul_zero, add_zero] at hin
    exact ⟨⟨hh, hin⟩, h0, h1, h2, hm⟩
  · obtain ⟨e1, e2, e3⟩ := slabStep_nonzero sq s o d lo hi hd
    obtain ⟨a1, a2⟩ := axisIn_imp o d lo hi t hd hin
    have b1 := max_le h1 a1
    have b2 := le_min h2 a2
    rw [← e1] at b1; rw [← e2] at b2
    refine ⟨e3.2 ⟨hh, le_trans b1 b2⟩, ?_, b1, b2, ?_⟩
    · rw [e1]; exact le_trans h0 (le_max_left _ _)
    · rw [e2]; exact le_trans (min_le_left _ _) hm

/-- one loop iteration, read backwards: a surviving lane had survived before, its interval only shrank, and every parameter
left in it puts the ray point inside `[lo, hi]` on this axis -/
private theorem slabStep_exact (s : Slab K) (o d lo hi : K) (h0 : 0 ≤ s.tmin) (hm : s.tmax ≤ bigR K) (hb : lo ≤ hi)
    (hinv : s.hit = true → s.tmin ≤ s.tmax) :
    letI := fieldNum K sq
    0 ≤ (slabStep s o d lo hi).tmin ∧ (slabStep s o d lo hi).tmax ≤ bigR K ∧
    s.tmin ≤ (slabStep s o d lo hi).tmin ∧ (slabStep s o d lo hi).tmax ≤ s.tmax ∧
    ((slabStep s o d lo hi).hit = true → (s.hit = true ∧ (slabStep s o d lo hi).tmin ≤ (slabStep s o d lo hi).tmax ∧
        ∀ t, (slabStep s o d lo hi).tmin ≤ t → t ≤ (slabStep s o d lo hi).tmax → AxisIn o d lo hi t)) := by
  by_cases hd : d = 0
  · subst hd
    obtain ⟨e1, e2, e3⟩ := slabStep_zero sq s o lo hi h0 hm
    rw [e1, e2, e3]
    refine ⟨h0, hm, le_refl _, le_refl _, fun h => ⟨h.1, hinv h.1, fun t _ _ => ?_⟩⟩
    unfold AxisIn
    rw [mul_zero, add_zero]
    exact h.2
  · obtain ⟨e1, e2, e3⟩ := slabStep_nonzero sq s o d lo hi hd
    refine ⟨?_, ?_, ?_, ?_, fun h => ?_⟩
    · rw [e1]; exact le_trans h0 (le_max_left _ _)
    · rw [e2]; exact le_trans (min_le_left _ _) hm
    · rw [e1]; exact le_max_left _ _
    · rw [e2]; exact min_le_left _ _
    · obtain ⟨g1, g2⟩ := e3.1 h
      refine ⟨g1, g2, fun t t1 t2 => axisIn_of o d lo hi t hd hb ?_ ?_⟩
      · rw [e1] at t1; exact le_trans (le_max_right _ _) t1
      · rw [e2] at t2; exact le_trans t2 (min_le_right _ _)

/-! ## `SimdAabb::cast_local_ray` (one lane) -/

/-- **slab test, soundness (3-D)**: if the ray point at some `t ∈ [0, max]` is in the box, the lane is kept and the reported
parameter is `≤ t` (and `≥ 0`). -/
theorem simdCastLocalRay3_sound (b : Aabb3 K) (o d : V3 K) (maxToi t : K) (ht0 : 0 ≤ t) (ht : t ≤ maxToi)
    (hmax : maxToi ≤ bigR K)
    (hx : AxisIn o.x d.x b.mins.x b.maxs.x t) (hy : AxisIn o.y d.y b.mins.y b.maxs.y t)
    (hz : AxisIn o.z d.z b.mins.z b.maxs.z t) :
    letI := fieldNum K sq
    (simdCastLocalRay3 b o d maxToi).1 = true ∧ 0 ≤ (simdCastLocalRay3 b o d maxToi).2 ∧
      (simdCastLocalRay3 b o d maxToi).2 ≤ t := by
  obtain ⟨a1, b1, c1, d1, e1⟩ := slabStep_sound sq ⟨true, 0, maxToi⟩ o.x d.x b.mins.x b.maxs.x t rfl (le_refl _) ht0 ht hmax hx
  obtain ⟨a2, b2, c2, d2, e2⟩ := slabStep_sound sq _ o.y d.y b.mins.y b.maxs.y t a1 b1 c1 d1 e1 hy
  obtain ⟨a3, b3, c3, _, _⟩ := slabStep_sound sq _ o.z d.z b.mins.z b.maxs.z t a2 b2 c2 d2 e2 hz
  exact ⟨a3, b3, c3⟩

/-- **slab test, exactness (3-D)**: a kept lane reports a parameter in `[0, max]` at which the ray point is in the (non-empty)
box.  With `simdCastLocalRay3_sound`: the reported parameter is the first one. -/
theorem simdCastLocalRay3_exact (b : Aabb3 K) (o d : V3 K) (maxToi : K) (h0 : 0 ≤ maxToi) (hmax : maxToi ≤ bigR K)
    (hbx : b.mins.x ≤ b.maxs.x) (hby : b.mins.y ≤ b.maxs.y) (hbz : b.mins.z ≤ b.maxs.z) :
    letI := fieldNum K sq
    (simdCastLocalRay3 b o d maxToi).1 = true →
      0 ≤ (simdCastLocalRay3 b o d maxToi).2 ∧ (simdCastLocalRay3 b o d maxToi).2 ≤ maxToi ∧
      AxisIn o.x d.x b.mins.x b.maxs.x (simdCastLocalRay3 b o d maxToi).2 ∧
      AxisIn o.y d.y b.mins.y b.maxs.y (simdCastLocalRay3 b o d maxToi).2 ∧
      AxisIn o.z d.z b.mins.z b.maxs.z (simdCastLocalRay3 b o d maxToi).2 := by
  intro hit
  obtain ⟨p1, q1, r1, s1, k1⟩ := slabStep_exact sq ⟨true, 0, maxToi⟩ o.x d.x b.mins.x b.maxs.x (le_refl _) hmax hbx (fun _ => h0)
  obtain ⟨p2, q2, r2, s2, k2⟩ := slabStep_exact sq _ o.y d.y b.mins.y b.maxs.y p1 q1 hby (fun h => (k1 h).2.1)
  obtain ⟨p3, q3, r3, s3, k3⟩ := slabStep_exact sq _ o.z d.z b.mins.z b.maxs.z p2 q2 hbz (fun h => (k2 h).2.1)
  obtain ⟨h2, le3, ax3⟩ := k3 hit
  obtain ⟨h1, _, ax2⟩ := k2 h2
  obtain ⟨_, _, ax1⟩ := k1 h1
  refine ⟨p3, le_trans le3 (le_trans s3 (le_trans s2 s1)), ax1 _ (le_trans r2 r3) (le_trans le3 (le_trans s3 s2)),
    ax2 _ r3 (le_trans le3 s3), ax3 _ (le_refl _) le3⟩

/-- **slab test, soundness (2-D)** -/
theorem simdCastLocalRay2_sound (b : Aabb2 K) (o d : V2 K) (maxToi t : K) (ht0 : 0 ≤ t) (ht : t ≤ maxToi)
    (hmax : maxToi ≤ bigR K)
    (hx : AxisIn o.x d.x b.mins.x b.maxs.x t) (hy : AxisIn o.y d.y b.mins.y b.maxs.y t) :
    letI := fieldNum K sq
    (simdCastLocalRay2 b o d maxToi).1 = true ∧ 0 ≤ (simdCastLocalRay2 b o d maxToi).2 ∧
      (simdCastLocalRay2 b o d maxToi).2 ≤ t := by
  obtain ⟨a1, b1, c1, d1, e1⟩ := slabStep_sound sq ⟨true, 0, maxToi⟩ o.x d.x b.mins.x b.maxs.x t rfl (le_refl _) ht0 ht hmax hx
  obtain ⟨a2, b2, c2, _, _⟩ := slabStep_sound sq _ o.y d.y b.mins.y b.maxs.y t a1 b1 c1 d1 e1 hy
  exact ⟨a2, b2, c2⟩

/-- **slab test, exactness (2-D)** -/
theorem simdCastLocalRay2_exact (b : Aabb2 K) (o d : V2 K) (maxToi : K) (h0 : 0 ≤ maxToi) (hmax : maxToi ≤ bigR K)
    (hbx : b.mins.x ≤ b.maxs.x) (hby : b.mins.y ≤ b.maxs.y) :
    letI := fieldNum K sq
    (simdCastLocalRay2 b o d maxToi).1 = true →
      0 ≤ (simdCastLocalRay2 b o d maxToi).2 ∧ (simdCastLocalRay2 b o d maxToi).2 ≤ maxToi ∧
      AxisIn o.x d.x b.mins.x b.maxs.x (simdCastLocalRay2 b o d maxToi).2 ∧
      AxisIn o.y d.y b.mins.y b.maxs.y (simdCastLocalRay2 b o d maxToi).2 := by
  intro hit
  obtain ⟨p1, q1, r1, s1, k1⟩ := slabStep_exact sq ⟨true, 0, maxToi⟩ o.x d.x b.mins.x b.maxs.x (le_refl _) hmax hbx (fun _ => h0)
  obtain ⟨p2, q2, r2, s2, k2⟩ := slabStep_exact sq _ o.y d.y b.mins.y b.maxs.y p1 q1 hby (fun h => (k1 h).2.1)
  obtain ⟨h1, le2, ax2⟩ := k2 hit
  obtain ⟨_, _, ax1⟩ := k1 h1
  exact ⟨p2, le_trans le2 (le_trans s2 s1), ax1 _ r2 (le_trans le2 s2), ax2 _ (le_refl _) le2⟩

/-! ## the node test of the composite cast -/

/-- on one axis the intervals `[alo, ahi]` and `[blo, bhi] + s` are at most `τ` apart (`τ ≥ 0`: they overlap or leave a
gap `≤ τ`) -/
def axisWithin (alo ahi blo bhi s τ : K) : Prop := alo - (bhi + s) ≤ τ ∧ (blo + s) - ahi ≤ τ

/-- the node's box `bv` and the moving shape's box `aabb2`, advanced by `t·vel`, are within `τ` of each other on every axis —
a necessary condition for anything inside the first to be within Euclidean distance `τ` of anything inside the second
(`within_of_points3`). -/
def BoxesWithin3 (bv aabb2 : Aabb3 K) (vel : V3 K) (t τ : K) : Prop :=
  axisWithin bv.mins.x bv.maxs.x aabb2.mins.x aabb2.maxs.x (t * vel.x) τ ∧
  axisWithin bv.mins.y bv.maxs.y aabb2.mins.y aabb2.maxs.y (t * vel.y) τ ∧
  axisWithin bv.mins.z bv.maxs.z aabb2.mins.z aabb2.maxs.z (t * vel.z) τ
def BoxesWithin2 (bv aabb2 : Aabb2 K) (vel : V2 K) (t τ : K) : Prop :=
  axisWithin bv.mins.x bv.maxs.x aabb2.mins.x aabb2.maxs.x (t * vel.x) τ ∧
  axisWithin bv.mins.y bv.maxs.y aabb2.mins.y aabb2.maxs.y (t * vel.y) τ

/-- membership in a box, by coordinates -/
def InBox3 (b : Aabb3 K) (p : V3 K) : Prop :=
  (b.mins.x ≤ p.x ∧ p.x ≤ b.maxs.x) ∧ (b.mins.y ≤ p.y ∧ p.y ≤ b.maxs.y) ∧ (b.mins.z ≤ p.z ∧ p.z ≤ b.maxs.z)
def InBox2 (b : Aabb2 K) (p : V2 K) : Prop :=
  (b.mins.x ≤ p.x ∧ p.x ≤ b.maxs.x) ∧ (b.mins.y ≤ p.y ∧ p.y ≤ b.maxs.y)

private theorem abs_le_of_sq_le (x τ : K) (hτ : 0 ≤ τ) (h : x * x ≤ τ * τ) : -τ ≤ x ∧ x ≤ τ := by
  constructor <;> nlinarith [sq_nonneg (x - τ), sq_nonneg (x + τ)]

/-- two points, one in each box, whose Euclidean distance at time `t` is `≤ τ` force the boxes within `τ` on every axis -/
theorem within_of_points3 (bv aabb2 : Aabb3 K) (vel a b : V3 K) (t τ : K) (hτ : 0 ≤ τ)
    (ha : InBox3 bv a) (hb : InBox3 aabb2 b)
    (hd : (a.x - (b.x + t * vel.x)) * (a.x - (b.x + t * vel.x)) + (a.y - (b.y + t * vel.y)) * (a.y - (b.y + t * vel.y))
          + (a.z - (b.z + t * vel.z)) * (a.z - (b.z + t * vel.z)) ≤ τ * τ) :
    BoxesWithin3 bv aabb2 vel t τ := by
  obtain ⟨⟨a1, a2⟩, ⟨a3, a4⟩, a5, a6⟩ := ha
  obtain ⟨⟨b1, b2⟩, ⟨b3, b4⟩, b5, b6⟩ := hb
  have hx := abs_le_of_sq_le (a.x - (b.x + t * vel.x)) τ hτ (by nlinarith [mul_self_nonneg (a.y - (b.y + t * vel.y)), mul_self_nonneg (a.z - (b.z + t * vel.z))])
  have hy := abs_le_of_sq_le (a.y - (b.y + t * vel.y)) τ hτ (by nlinarith [mul_self_nonneg (a.x - (b.x + t * vel.x)), mul_self_nonneg (a.z - (b.z + t * vel.z))])
  have hz := abs_le_of_sq_le (a.z - (b.z + t * vel.z)) τ hτ (by nlinarith [mul_self_nonneg (a.x - (b.x + t * vel.x)), mul_self_nonneg (a.y - (b.y + t * vel.y))])
  refine ⟨⟨?_, ?_⟩, ⟨?_, ?_⟩, ?_, ?_⟩ <;> linarith [hx.1, hx.2, hy.1, hy.2, hz.1, hz.2]

theorem within_of_points2 (bv aabb2 : Aabb2 K) (vel a b : V2 K) (t τ : K) (hτ : 0 ≤ τ)
    (ha : InBox2 bv a) (hb : InBox2 aabb2 b)
    (hd : (a.x - (b.x + t * vel.x)) * (a.x - (b.x + t * vel.x)) + (a.y - (b.y + t * vel.y)) * (a.y - (b.y + t * vel.y)) ≤ τ * τ) :
    BoxesWithin2 bv aabb2 vel t τ := by
  obtain ⟨⟨a1, a2⟩, a3, a4⟩ := ha
  obtain ⟨⟨b1, b2⟩, b3, b4⟩ := hb
  have hx := abs_le_of_sq_le (a.x - (b.x + t * vel.x)) τ hτ (by nlinarith [mul_self_nonneg (a.y - (b.y + t * vel.y))])
  have hy := abs_le_of_sq_le (a.y - (b.y + t * vel.y)) τ hτ (by nlinarith [mul_self_nonneg (a.x - (b.x + t * vel.x))])
  refine ⟨⟨?_, ?_⟩, ?_, ?_⟩ <;> linarith [hx.1, hx.2, hy.1, hy.2]

/-- **C06 (broad phase never prunes within the target distance, 3-D)** — `TOICompositeShapeShapeBestFirstVisitor`: if at
some time `t ∈ [0, max_time_of_impact]` the node's box and the moving shape's box are within `target_distance` of each
other on every axis, the node is kept (`mask = true`) and its weight is in `[0, t]`.  Any velocity (zero components, zero
vector), any boxes, any `target_distance` (its sign is not even used). -/
theorem cullNode3_keeps (aabb2 bv : Aabb3 K) (vel : V3 K) (maxToi τ t : K) (ht0 : 0 ≤ t) (ht : t ≤ maxToi)
    (hmax : maxToi ≤ bigR K) (hw : BoxesWithin3 bv aabb2 vel t τ) :
    letI := fieldNum K sq
    (cullNode3 aabb2 bv vel maxToi τ).1 = true ∧ 0 ≤ (cullNode3 aabb2 bv vel maxToi τ).2 ∧
      (cullNode3 aabb2 bv vel maxToi τ).2 ≤ t := by
  have hl : ((mkRat 1 2 : Rat) : K) = 1/2 := by norm_num
  obtain ⟨⟨x1, x2⟩, ⟨y1, y2⟩, z1, z2⟩ := hw
  refine simdCastLocalRay3_sound sq _ _ _ maxToi t ht0 ht hmax ?_ ?_ ?_ <;>
    simp only [AxisIn, msum3, cullNew3, Aabb3.center, Aabb3.halfExtents, V3.center, V3.add, V3.sub, V3.neg, V3.smul,
      fieldNum_lit, hl] <;>
    constructor <;> linarith

/-- **C06 (the weight is a time at which the boxes are within the target, 3-D)**: a kept node's weight lies in
`[0, max_time_of_impact]` and at that time the two (non-empty) boxes are within `target_distance ≥ 0` on every axis.
Together with `cullNode3_keeps`: the weight is the first such time, and a node is kept only if there is one. -/
theorem cullNode3_weight_exact (aabb2 bv : Aabb3 K) (vel : V3 K) (maxToi τ : K) (h0 : 0 ≤ maxToi) (hmax : maxToi ≤ bigR K)
    (hτ : 0 ≤ τ)
    (hbv : bv.mins.x ≤ bv.maxs.x ∧ bv.mins.y ≤ bv.maxs.y ∧ bv.mins.z ≤ bv.maxs.z)
    (hb2 : aabb2.mins.x ≤ aabb2.maxs.x ∧ aabb2.mins.y ≤ aabb2.maxs.y ∧ aabb2.mins.z ≤ aabb2.maxs.z) :
    letI := fieldNum K sq
    (cullNode3 aabb2 bv vel maxToi τ).1 = true →
      0 ≤ (cullNode3 aabb2 bv vel maxToi τ).2 ∧ (cullNode3 aabb2 bv vel maxToi τ).2 ≤ maxToi ∧
      BoxesWithin3 bv aabb2 vel (cullNode3 aabb2 bv vel maxToi τ).2 τ := by
  have hl : ((mkRat 1 2 : Rat) : K) = 1/2 := by norm_num
  intro hit
  have h := simdCastLocalRay3_exact sq
    (@msum3 K (fieldNum K sq) bv (@cullNew3 K (fieldNum K sq) aabb2 τ).1 (@cullNew3 K (fieldNum K sq) aabb2 τ).2)
    ⟨0, 0, 0⟩ vel maxToi h0 hmax ?_ ?_ ?_ hit
  · obtain ⟨T, hT⟩ : ∃ T, T = (@cullNode3 K (fieldNum K sq) aabb2 bv vel maxToi τ).2 := ⟨_, rfl⟩
    rw [← hT]
    have h' : 0 ≤ T ∧ T ≤ maxToi ∧
        AxisIn 0 vel.x (@msum3 K (fieldNum K sq) bv (@cullNew3 K (fieldNum K sq) aabb2 τ).1 (@cullNew3 K (fieldNum K sq) aabb2 τ).2).mins.x
          (@msum3 K (fieldNum K sq) bv (@cullNew3 K (fieldNum K sq) aabb2 τ).1 (@cullNew3 K (fieldNum K sq) aabb2 τ).2).maxs.x T ∧
        AxisIn 0 vel.y (@msum3 K (fieldNum K sq) bv (@cullNew3 K (fieldNum K sq) aabb2 τ).1 (@cullNew3 K (fieldNum K sq) aabb2 τ).2).mins.y
          (@msum3 K (fieldNum K sq) bv (@cullNew3 K (fieldNum K sq) aabb2 τ).1 (@cullNew3 K (fieldNum K sq) aabb2 τ).2).maxs.y T ∧
        AxisIn 0 vel.z (@msum3 K (fieldNum K sq) bv (@cullNew3 K (fieldNum K sq) aabb2 τ).1 (@cullNew3 K (fieldNum K sq) aabb2 τ).2).mins.z
          (@msum3 K (fieldNum K sq) bv (@cullNew3 K (fieldNum K sq) aabb2 τ).1 (@cullNew3 K (fieldNum K sq) aabb2 τ).2).maxs.z T := by
      rw [hT]; exact h
    obtain ⟨g1, g2, gx, gy, gz⟩ := h'
    refine ⟨g1, g2, ?_⟩
    simp only [AxisIn, msum3, cullNew3, Aabb3.center, Aabb3.halfExtents, V3.center, V3.add, V3.sub, V3.neg, V3.smul,
      fieldNum_lit, hl] at gx gy gz
    refine ⟨⟨?_, ?_⟩, ⟨?_, ?_⟩, ?_, ?_⟩ <;> linarith [gx.1, gx.2, gy.1, gy.2, gz.1, gz.2]
  all_goals
    simp only [msum3, cullNew3, Aabb3.center, Aabb3.halfExtents, V3.center, V3.add, V3.sub, V3.neg, V3.smul, fieldNum_lit, hl]
    linarith [hbv.1, hbv.2.1, hbv.2.2, hb2.1, hb2.2.1, hb2.2.2]

/-- **C06 (broad phase never prunes within the target distance, 2-D)** -/
theorem cullNode2_keeps (aabb2 bv : Aabb2 K) (vel : V2 K) (maxToi τ t : K) (ht0 : 0 ≤ t) (ht : t ≤ maxToi)
    (hmax : maxToi ≤ bigR K) (hw : BoxesWithin2 bv aabb2 vel t τ) :
    letI := fieldNum K sq
    (cullNode2 aabb2 bv vel maxToi τ).1 = true ∧ 0 ≤ (cullNode2 aabb2 bv vel maxToi τ).2 ∧
      (cullNode2 aabb2 bv vel maxToi τ).2 ≤ t := by
  have hl : ((mkRat 1 2 : Rat) : K) = 1/2 := by norm_num
  obtain ⟨⟨x1, x2⟩, y1, y2⟩ := hw
  refine simdCastLocalRay2_sound sq _ _ _ maxToi t ht0 ht hmax ?_ ?_ <;>
    simp only [AxisIn, msum2, cullNew2, Aabb2.center, Aabb2.halfExtents, V2.center, V2.add, V2.sub, V2.neg, V2.smul,
      fieldNum_lit, hl] <;>
    constructor <;> linarith

/-- **C06 (the weight is a time at which the boxes are within the target, 2-D)** -/
theorem cullNode2_weight_exact (aabb2 bv : Aabb2 K) (vel : V2 K) (maxToi τ : K) (h0 : 0 ≤ maxToi) (hmax : maxToi ≤ bigR K)
    (hτ : 0 ≤ τ)
    (hbv : bv.mins.x ≤ bv.maxs.x ∧ bv.mins.y ≤ bv.maxs.y)
    (hb2 : aabb2.mins.x ≤ aabb2.maxs.x ∧ aabb2.mins.y ≤ aabb2.maxs.y) :
    letI := fieldNum K sq
    (cullNode2 aabb2 bv vel maxToi τ).1 = true →
      0 ≤ (cullNode2 aabb2 bv vel maxToi τ).2 ∧ (cullNode2 aabb2 bv vel maxToi τ).2 ≤ maxToi ∧
      BoxesWithin2 bv aabb2 vel (cullNode2 aabb2 bv vel maxToi τ).2 τ := by
  have hl : ((mkRat 1 2 : Rat) : K) = 1/2 := by norm_num
  intro hit
  have h := simdCastLocalRay2_exact sq
    (@msum2 K (fieldNum K sq) bv (@cullNew2 K (fieldNum K sq) aabb2 τ).1 (@cullNew2 K (fieldNum K sq) aabb2 τ).2)
    ⟨0, 0⟩ vel maxToi h0 hmax ?_ ?_ hit
  · obtain ⟨T, hT⟩ : ∃ T, T = (@cullNode2 K (fieldNum K sq) aabb2 bv vel maxToi τ).2 := ⟨_, rfl⟩
    rw [← hT]
    have h' : 0 ≤ T ∧ T ≤ maxToi ∧
        AxisIn 0 vel.x (@msum2 K (fieldNum K sq) bv (@cullNew2 K (fieldNum K sq) aabb2 τ).1 (@cullNew2 K (fieldNum K sq) aabb2 τ).2).mins.x
          (@msum2 K (fieldNum K sq) bv (@cullNew2 K (fieldNum K sq) aabb2 τ).1 (@cullNew2 K (fieldNum K sq) aabb2 τ).2).maxs.x T ∧
        AxisIn 0 vel.y (@msum2 K (fieldNum K sq) bv (@cullNew2 K (fieldNum K sq) aabb2 τ).1 (@cullNew2 K (fieldNum K sq) aabb2 τ).2).mins.y
          (@msum2 K (fieldNum K sq) bv (@cullNew2 K (fieldNum K sq) aabb2 τ).1 (@cullNew2 K (fieldNum K sq) aabb2 τ).2).maxs.y T := by
      rw [hT]; exact h
    obtain ⟨g1, g2, gx, gy⟩ := h'
    refine ⟨g1, g2, ?_⟩
    simp only [AxisIn, msum2, cullNew2, Aabb2.center, Aabb2.halfExtents, V2.center, V2.add, V2.sub, V2.neg, V2.smul,
      fieldNum_lit, hl] at gx gy
    refine ⟨⟨?_, ?_⟩, ?_, ?_⟩ <;> linarith [gx.1, gx.2, gy.1, gy.2]
  all_goals
    simp only [msum2, cullNew2, Aabb2.center, Aabb2.halfExtents, V2.center, V2.add, V2.sub, V2.neg, V2.smul, fieldNum_lit, hl]
    linarith [hbv.1, hbv.2, hb2.1, hb2.2]

/-- **C06 (composite cast, broad phase vs. points, 3-D)**: let `a` be any point inside the node's box (e.g. a point of a part
below that node) and `b` any point inside the moving shape's box (e.g. a point of that shape at `t = 0`, frame of the
composite).  If at some `t ∈ [0, max_time_of_impact]` the moved point `b + t·vel12` is within Euclidean distance
`target_distance` of `a`, the node is kept and its weight is `≤ t`: the hierarchy never hides a part that comes within the
target distance, and the best-first order never postpones it beyond the time at which that happens. -/
theorem cull3_sound_points (aabb2 bv : Aabb3 K) (vel a b : V3 K) (maxToi τ t : K) (ht0 : 0 ≤ t) (ht : t ≤ maxToi)
    (hmax : maxToi ≤ bigR K) (hτ : 0 ≤ τ) (ha : InBox3 bv a) (hb : InBox3 aabb2 b)
    (hd : (a.x - (b.x + t * vel.x)) * (a.x - (b.x + t * vel.x)) + (a.y - (b.y + t * vel.y)) * (a.y - (b.y + t * vel.y))
          + (a.z - (b.z + t * vel.z)) * (a.z - (b.z + t * vel.z)) ≤ τ * τ) :
    letI := fieldNum K sq
    (cullNode3 aabb2 bv vel maxToi τ).1 = true ∧ 0 ≤ (cullNode3 aabb2 bv vel maxToi τ).2 ∧
      (cullNode3 aabb2 bv vel maxToi τ).2 ≤ t :=
  cullNode3_keeps sq aabb2 bv vel maxToi τ t ht0 ht hmax (within_of_points3 bv aabb2 vel a b t τ hτ ha hb hd)

/-- **C06 (composite cast, broad phase vs. points, 2-D)** -/
theorem cull2_sound_points (aabb2 bv : Aabb2 K) (vel a b : V2 K) (maxToi τ t : K) (ht0 : 0 ≤ t) (ht : t ≤ maxToi)
    (hmax : maxToi ≤ bigR K) (hτ : 0 ≤ τ) (ha : InBox2 bv a) (hb : InBox2 aabb2 b)
    (hd : (a.x - (b.x + t * vel.x)) * (a.x - (b.x + t * vel.x)) + (a.y - (b.y + t * vel.y)) * (a.y - (b.y + t * vel.y)) ≤ τ * τ) :
    letI := fieldNum K sq
    (cullNode2 aabb2 bv vel maxToi τ).1 = true ∧ 0 ≤ (cullNode2 aabb2 bv vel maxToi τ).2 ∧
      (cullNode2 aabb2 bv vel maxToi τ).2 ≤ t :=
  cullNode2_keeps sq aabb2 bv vel maxToi τ t ht0 ht hmax (within_of_points2 bv aabb2 vel a b t τ hτ ha hb hd)

/-! ## the boxes `compute_aabb(pos12)` of a ball and of a cuboid contain the posed shape -/

/-- every point within `r` of the ball's centre `pos12.translation` lies in `Ball::aabb(pos12)` (3-D) -/
theorem ballAabb_contains3 (pos : Iso3 K) (r : K) (hr : 0 ≤ r) (p : V3 K)
    (hp : (p.x - pos.t.x) * (p.x - pos.t.x) + (p.y - pos.t.y) * (p.y - pos.t.y) + (p.z - pos.t.z) * (p.z - pos.t.z) ≤ r * r) :
    letI := fieldNum K sq
    InBox3 (ballAabb r pos) p := by
  have hx := abs_le_of_sq_le (p.x - pos.t.x) r hr (by nlinarith [mul_self_nonneg (p.y - pos.t.y), mul_self_nonneg (p.z - pos.t.z)])
  have hy := abs_le_of_sq_le (p.y - pos.t.y) r hr (by nlinarith [mul_self_nonneg (p.x - pos.t.x), mul_self_nonneg (p.z - pos.t.z)])
  have hz := abs_le_of_sq_le (p.z - pos.t.z) r hr (by nlinarith [mul_self_nonneg (p.x - pos.t.x), mul_self_nonneg (p.y - pos.t.y)])
  simp only [InBox3, ballAabb, V3.add]
  refine ⟨⟨?_, ?_⟩, ⟨?_, ?_⟩, ?_, ?_⟩ <;> linarith [hx.1, hx.2, hy.1, hy.2, hz.1, hz.2]

/-- the same in 2-D -/
theorem ballAabb_contains2 (pos : Iso2 K) (r : K) (hr : 0 ≤ r) (p : V2 K)
    (hp : (p.x - pos.t.x) * (p.x - pos.t.x) + (p.y - pos.t.y) * (p.y - pos.t.y) ≤ r * r) :
    letI := fieldNum K sq
    InBox2 (SC.ballAabb2 r pos) p := by
  have hx := abs_le_of_sq_le (p.x - pos.t.x) r hr (by nlinarith [mul_self_nonneg (p.y - pos.t.y)])
  have hy := abs_le_of_sq_le (p.y - pos.t.y) r hr (by nlinarith [mul_self_nonneg (p.x - pos.t.x)])
  simp only [InBox2, SC.ballAabb2, V2.add]
  refine ⟨⟨?_, ?_⟩, ?_, ?_⟩ <;> linarith [hx.1, hx.2, hy.1, hy.2]

private theorem lin_bound2 (r1 r2 d1 d2 h1 h2 : K) (e1 : |d1| ≤ h1) (e2 : |d2| ≤ h2) :
    |r1 * d1 + r2 * d2| ≤ |r1| * h1 + |r2| * h2 := by
  have a1 : |r1 * d1| ≤ |r1| * h1 := by rw [abs_mul]; exact mul_le_mul_of_nonneg_left e1 (abs_nonneg _)
  have a2 : |r2 * d2| ≤ |r2| * h2 := by rw [abs_mul]; exact mul_le_mul_of_nonneg_left e2 (abs_nonneg _)
  linarith [abs_add_le (r1 * d1) (r2 * d2)]

/-- every point `pos12 • q`, `q` in the cuboid, lies in `Cuboid::aabb(pos12)` (2-D; any `re, im`, unit or not) -/
theorem cuboidAabb_contains2 (pos : Iso2 K) (he q : V2 K) :
    letI := fieldNum K sq
    Cuboid2.Mem ⟨he⟩ q → InBox2 (cuboidAabb2 he pos) (pos.act q) := by
  intro hq
  obtain ⟨⟨q1, q2⟩, q3, q4⟩ := hq
  have ax : |q.x| ≤ he.x := abs_le.2 ⟨q1, q2⟩
  have ay : |q.y| ≤ he.y := abs_le.2 ⟨q3, q4⟩
  have b1 := lin_bound2 pos.re (-pos.im) q.x q.y he.x he.y ax ay
  have b2 := lin_bound2 pos.im pos.re q.x q.y he.x he.y ax ay
  rw [abs_le] at b1 b2
  simp only [InBox2, cuboidAabb2, Aabb2.fromHalfExtents, Iso2.absTransform, Iso2.act, Iso2.rot, V2.add, V2.sub, fieldNum_nabs]
  refine ⟨⟨?_, ?_⟩, ?_, ?_⟩ <;> linarith [b1.1, b1.2, b2.1, b2.2]

/-- **C06 (composite cast vs. a ball, 3-D)**: if at some `t ∈ [0, max]` a point of the moving ball (centre
`pos12.translation + t·vel12`, radius `r`) is within `target_distance` of a point `a` of the node's box, the node is kept
with weight `≤ t`. -/
theorem cullBall3_sound (pos : Iso3 K) (r : K) (hr : 0 ≤ r) (bv : Aabb3 K) (vel a p : V3 K) (maxToi τ t : K)
    (ht0 : 0 ≤ t) (ht : t ≤ maxToi) (hmax : maxToi ≤ bigR K) (hτ : 0 ≤ τ) (ha : InBox3 bv a)
    (hp : (p.x - pos.t.x) * (p.x - pos.t.x) + (p.y - pos.t.y) * (p.y - pos.t.y) + (p.z - pos.t.z) * (p.z - pos.t.z) ≤ r * r)
    (hd : (a.x - (p.x + t * vel.x)) * (a.x - (p.x + t * vel.x)) + (a.y - (p.y + t * vel.y)) * (a.y - (p.y + t * vel.y))
          + (a.z - (p.z + t * vel.z)) * (a.z - (p.z + t * vel.z)) ≤ τ * τ) :
    letI := fieldNum K sq
    (cullBall3 pos r bv vel maxToi τ).1 = true ∧ 0 ≤ (cullBall3 pos r bv vel maxToi τ).2 ∧
      (cullBall3 pos r bv vel maxToi τ).2 ≤ t :=
  cull3_sound_points sq _ bv vel a p maxToi τ t ht0 ht hmax hτ ha (ballAabb_contains3 sq pos r hr p hp) hd

/-- **C06 (composite cast vs. a ball, 2-D)** -/
theorem cullBall2_sound (pos : Iso2 K) (r : K) (hr : 0 ≤ r) (bv : Aabb2 K) (vel a p : V2 K) (maxToi τ t : K)
    (ht0 : 0 ≤ t) (ht : t ≤ maxToi) (hmax : maxToi ≤ bigR K) (hτ : 0 ≤ τ) (ha : InBox2 bv a)
    (hp : (p.x - pos.t.x) * (p.x - pos.t.x) + (p.y - pos.t.y) * (p.y - pos.t.y) ≤ r * r)
    (hd : (a.x - (p.x + t * vel.x)) * (a.x - (p.x + t * vel.x)) + (a.y - (p.y + t * vel.y)) * (a.y - (p.y + t * vel.y)) ≤ τ * τ) :
    letI := fieldNum K sq
    (cullBall2 pos r bv vel maxToi τ).1 = true ∧ 0 ≤ (cullBall2 pos r bv vel maxToi τ).2 ∧
      (cullBall2 pos r bv vel maxToi τ).2 ≤ t :=
  cull2_sound_points sq _ bv vel a p maxToi τ t ht0 ht hmax hτ ha (ballAabb_contains2 sq pos r hr p hp) hd

/-- **C06 (composite cast vs. a cuboid, 2-D)**: the same for a point `pos12 • q` of the posed cuboid. -/
theorem cullCuboid2_sound (pos : Iso2 K) (he : V2 K) (bv : Aabb2 K) (vel a q : V2 K) (maxToi τ t : K)
    (ht0 : 0 ≤ t) (ht : t ≤ maxToi) (hmax : maxToi ≤ bigR K) (hτ : 0 ≤ τ) (ha : InBox2 bv a) :
    letI := fieldNum K sq
    Cuboid2.Mem ⟨he⟩ q →
    (a.x - ((pos.act q).x + t * vel.x)) * (a.x - ((pos.act q).x + t * vel.x))
        + (a.y - ((pos.act q).y + t * vel.y)) * (a.y - ((pos.act q).y + t * vel.y)) ≤ τ * τ →
    (cullCuboid2 pos he bv vel maxToi τ).1 = true ∧ 0 ≤ (cullCuboid2 pos he bv vel maxToi τ).2 ∧
      (cullCuboid2 pos he bv vel maxToi τ).2 ≤ t := by
  intro hq hd
  exact cull2_sound_points sq _ bv vel a _ maxToi τ t ht0 ht hmax hτ ha (cuboidAabb_contains2 sq pos he q hq) hd

private theorem lin_bound3 (r1 r2 r3 d1 d2 d3 h1 h2 h3 : K)
    (e1 : |d1| ≤ h1) (e2 : |d2| ≤ h2) (e3 : |d3| ≤ h3) :
    |r1 * d1 + r2 * d2 + r3 * d3| ≤ |r1| * h1 + |r2| * h2 + |r3| * h3 := by
  have a1 : |r1 * d1| ≤ |r1| * h1 := by rw [abs_mul]; exact mul_le_mul_of_nonneg_left e1 (abs_nonneg _)
  have a2 : |r2 * d2| ≤ |r2| * h2 := by rw [abs_mul]; exact mul_le_mul_of_nonneg_left e2 (abs_nonneg _)
  have a3 : |r3 * d3| ≤ |r3| * h3 := by rw [abs_mul]; exact mul_le_mul_of_nonneg_left e3 (abs_nonneg _)
  linarith [abs_add_le (r1 * d1 + r2 * d2) (r3 * d3), abs_add_le (r1 * d1) (r2 * d2)]

/-- every point `pos12 • q`, `q` in the cuboid, lies in `Cuboid::aabb(pos12)` (3-D, unit quaternion) -/
theorem cuboidAabb_contains3 (pos : Iso3 K) (he q : V3 K)
    (hu : pos.qi * pos.qi + pos.qj * pos.qj + pos.qk * pos.qk + pos.qw * pos.qw = 1) :
    letI := fieldNum K sq
    Cuboid3.Mem ⟨he⟩ q → InBox3 (cuboidAabb he pos) (pos.act q) := by
  intro hq
  obtain ⟨⟨q1, q2⟩, ⟨q3, q4⟩, q5, q6⟩ := hq
  have ax : |q.x| ≤ he.x := abs_le.2 ⟨q1, q2⟩
  have ay : |q.y| ≤ he.y := abs_le.2 ⟨q3, q4⟩
  have az : |q.z| ≤ he.z := abs_le.2 ⟨q5, q6⟩
  obtain ⟨px, py, pz⟩ := C09.rot_eq_mat sq pos q hu
  simp only [InBox3, cuboidAabb, Aabb3.fromHalfExtents, Iso3.absTransform, Iso3.act, V3.add, V3.sub, fieldNum_nabs, px, py, pz]
  generalize (@Iso3.mat K (fieldNum K sq) pos).1.x = r00; generalize (@Iso3.mat K (fieldNum K sq) pos).1.y = r01
  generalize (@Iso3.mat K (fieldNum K sq) pos).1.z = r02
  generalize (@Iso3.mat K (fieldNum K sq) pos).2.1.x = r10; generalize (@Iso3.mat K (fieldNum K sq) pos).2.1.y = r11
  generalize (@Iso3.mat K (fieldNum K sq) pos).2.1.z = r12
  generalize (@Iso3.mat K (fieldNum K sq) pos).2.2.x = r20; generalize (@Iso3.mat K (fieldNum K sq) pos).2.2.y = r21
  generalize (@Iso3.mat K (fieldNum K sq) pos).2.2.z = r22
  have b1 := lin_bound3 r00 r01 r02 q.x q.y q.z he.x he.y he.z ax ay az
  have b2 := lin_bound3 r10 r11 r12 q.x q.y q.z he.x he.y he.z ax ay az
  have b3 := lin_bound3 r20 r21 r22 q.x q.y q.z he.x he.y he.z ax ay az
  rw [abs_le] at b1 b2 b3
  refine ⟨⟨?_, ?_⟩, ⟨?_, ?_⟩, ?_, ?_⟩ <;> linarith [b1.1, b1.2, b2.1, b2.2, b3.1, b3.2]

/-- **C06 (composite cast vs. a cuboid, 3-D)**: if at some `t ∈ [0, max]` a point `pos12 • q + t·vel12` of the moving cuboid
is within `target_distance` of a point `a` of the node's box, the node is kept with weight `≤ t`. -/
theorem cullCuboid3_sound (pos : Iso3 K) (he : V3 K) (bv : Aabb3 K) (vel a q : V3 K) (maxToi τ t : K)
    (hu : pos.qi * pos.qi + pos.qj * pos.qj + pos.qk * pos.qk + pos.qw * pos.qw = 1)
    (ht0 : 0 ≤ t) (ht : t ≤ maxToi) (hmax : maxToi ≤ bigR K) (hτ : 0 ≤ τ) (ha : InBox3 bv a) :
    letI := fieldNum K sq
    Cuboid3.Mem ⟨he⟩ q →
    (a.x - ((pos.act q).x + t * vel.x)) * (a.x - ((pos.act q).x + t * vel.x))
        + (a.y - ((pos.act q).y + t * vel.y)) * (a.y - ((pos.act q).y + t * vel.y))
        + (a.z - ((pos.act q).z + t * vel.z)) * (a.z - ((pos.act q).z + t * vel.z)) ≤ τ * τ →
    (cullCuboid3 pos he bv vel maxToi τ).1 = true ∧ 0 ≤ (cullCuboid3 pos he bv vel maxToi τ).2 ∧
      (cullCuboid3 pos he bv vel maxToi τ).2 ≤ t := by
  intro hq hd
  exact cull3_sound_points sq _ bv vel a _ maxToi τ t ht0 ht hmax hτ ha (cuboidAabb_contains3 sq pos he q hu hq) hd

/-! ## non-vacuity, and what the `target_distance` term of the margin buys -/

/-- `f64::MAX ≥ 100` -/
theorem hundred_le_bigR : (100 : K) ≤ bigR K := by
  unfold bigR
  have h : (2 : K) ^ 1024 = 2 ^ 971 * 2 ^ 53 := by rw [← pow_add]
  rw [h]
  have h1 : (1 : K) ≤ 2 ^ 971 := one_le_pow₀ (by norm_num)
  have h2 : (101 : K) ≤ 2 ^ 53 := by norm_num
  generalize (2 : K) ^ 971 = a at *
  generalize (2 : K) ^ 53 = c at *
  nlinarith [mul_nonneg (sub_nonneg.2 h1) (sub_nonneg.2 h2)]

/-- The seeded demo (a ball of radius 1/4 flying down past the left face of a cuboid part `[-1,1]×[-1/2,1/2]` at a
horizontal gap of 1/4, `target_distance = 2/5`): the hypotheses of `cullBall2_sound` hold at `t = 11/4` (ball point
`(-5/4, 1/2)`, corner `(-1, 1/2)`, 1/4 apart), so the part's box is kept and ordered no later than `11/4`. -/
example : letI := fieldNum ℚ (fun x => x)
    (cullBall2 (⟨1, 0, ⟨-3/2, 6⟩⟩ : Iso2 ℚ) (1/4) ⟨⟨-1, -1/2⟩, ⟨1, 1/2⟩⟩ ⟨0, -2⟩ 100 (2/5)).1 = true ∧
    (cullBall2 (⟨1, 0, ⟨-3/2, 6⟩⟩ : Iso2 ℚ) (1/4) ⟨⟨-1, -1/2⟩, ⟨1, 1/2⟩⟩ ⟨0, -2⟩ 100 (2/5)).2 ≤ 11/4 := by
  have h := cullBall2_sound (K := ℚ) (fun x => x) ⟨1, 0, ⟨-3/2, 6⟩⟩ (1/4) (by norm_num) ⟨⟨-1, -1/2⟩, ⟨1, 1/2⟩⟩ ⟨0, -2⟩
    ⟨-1, 1/2⟩ ⟨-5/4, 6⟩ 100 (2/5) (11/4) (by norm_num) (by norm_num) hundred_le_bigR (by norm_num)
    (by simp only [InBox2]; norm_num) (by norm_num) (by norm_num)
  exact ⟨h.1, h.2.2⟩

/-- … and with the target term left out of the margin (`target_distance = 0` in the test) the same box is dropped, although
the ball comes within 1/4 < 2/5 of the part: the box test is conservative *only because* the margin carries the target. -/
example : letI := fieldNum ℚ (fun x => x)
    (cullBall2 (⟨1, 0, ⟨-3/2, 6⟩⟩ : Iso2 ℚ) (1/4) ⟨⟨-1, -1/2⟩, ⟨1, 1/2⟩⟩ ⟨0, -2⟩ 100 0).1 = false := by
  by_contra h
  rw [Bool.not_eq_false] at h
  obtain ⟨_, _, ⟨hx, _⟩, _⟩ := cullNode2_weight_exact (K := ℚ) (fun x => x)
    (@SC.ballAabb2 ℚ (fieldNum ℚ (fun x => x)) (1/4) ⟨1, 0, ⟨-3/2, 6⟩⟩) ⟨⟨-1, -1/2⟩, ⟨1, 1/2⟩⟩ ⟨0, -2⟩ 100 0
    (by norm_num) hundred_le_bigR (le_refl _) (by norm_num) (by simp only [SC.ballAabb2, V2.add]; norm_num) h
  simp only [SC.ballAabb2, V2.add] at hx
  norm_num at hx

/-- non-vacuity of `cullCuboid3_sound`: a unit cube turned a quarter turn about `z`, 1/2 above the box `[-1,1]³`,
`target_distance = 1`, sliding along `x`: within the target at `t = 1`. -/
example : letI := fieldNum ℚ (fun x => x)
    (cullCuboid3 (⟨0, 0, 3/5, 4/5, ⟨-1, 0, 5/2⟩⟩ : Iso3 ℚ) ⟨1, 1, 1⟩ ⟨⟨-1, -1, -1⟩, ⟨1, 1, 1⟩⟩ ⟨1, 0, 0⟩ 100 1).1 = true := by
  have h := cullCuboid3_sound (K := ℚ) (fun x => x) ⟨0, 0, 3/5, 4/5, ⟨-1, 0, 5/2⟩⟩ ⟨1, 1, 1⟩ ⟨⟨-1, -1, -1⟩, ⟨1, 1, 1⟩⟩ ⟨1, 0, 0⟩
    ⟨0, 0, 1⟩ ⟨0, 0, -1⟩ 100 1 1 (by norm_num) (by norm_num) (by norm_num) hundred_le_bigR (by norm_num)
    (by simp only [InBox3]; norm_num)
    (by simp only [Cuboid3.Mem]; norm_num)
    (by simp only [Iso3.act, Iso3.rot, Iso3.rotQ, Iso3.qv, V3.add, V3.smul, V3.cross, fieldNum_two]; norm_num)
  exact h.1

end C06
