import ParryModel.Field
import ParryModel.C06.Model
/-!
# C06 helper lemmas: quadratics, Cauchy–Schwarz without square roots, rotations.
-/
namespace C06
open Model Model.SC
variable {K : Type} [Field K] [LinearOrder K] [IsStrictOrderedRing K] (sq : K → K)

/-! ## quadratics `q s = a s² + 2 b s + c` -/

theorem quad_pos_of_disc_neg (a b c s : K) (ha : 0 < a) (hd : b * b - a * c < 0) :
    0 < a * s * s + 2 * b * s + c := by
  by_contra h
  push Not at h
  nlinarith [sq_nonneg (a * s + b), mul_nonneg ha.le (neg_nonneg.2 h)]

theorem quad_pos_of_pos_pos (a b c s : K) (ha : 0 ≤ a) (hb : 0 < b) (hc : 0 < c) (hs : 0 ≤ s) :
    0 < a * s * s + 2 * b * s + c := by
  nlinarith [mul_nonneg ha (mul_nonneg hs hs), mul_nonneg hb.le hs]

/-- the smaller root `t = (-b - r)/a`, `r² = b² - ac`, `r ≥ 0`: `q t = 0` and `q > 0` strictly before it -/
theorem quad_first_root (a b c r t : K) (ha : 0 < a) (hr : 0 ≤ r) (hrr : r * r = b * b - a * c)
    (ht : a * t = -b - r) :
    a * t * t + 2 * b * t + c = 0 ∧ ∀ s, s < t → 0 < a * s * s + 2 * b * s + c := by
  constructor
  · have : a * (a * t * t + 2 * b * t + c) = 0 := by
      have : a * (a * t * t + 2 * b * t + c) = (a * t + b) * (a * t + b) - (b * b - a * c) := by ring
      rw [this, ht, ← hrr]; ring
    rcases mul_eq_zero.1 this with h | h
    · exact absurd h ha.ne'
    · exact h
  · intro s hs
    have h1 : a * s + b < -r := by nlinarith
    have h2 : r * r < (a * s + b) * (a * s + b) := by nlinarith
    have h3 : 0 < a * (a * s * s + 2 * b * s + c) := by nlinarith
    by_contra h4; push Not at h4; nlinarith [mul_nonneg ha.le (neg_nonneg.2 h4)]

/-- the larger root `t = (-b + r)/a`: `q t = 0`, `q > 0` strictly after it, `q ≤ 0` between the roots -/
theorem quad_second_root (a b c r t : K) (ha : 0 < a) (hr : 0 ≤ r) (hrr : r * r = b * b - a * c)
    (ht : a * t = -b + r) :
    a * t * t + 2 * b * t + c = 0 ∧ (∀ s, t < s → 0 < a * s * s + 2 * b * s + c) ∧
      (∀ s, a * s ≥ -b - r → s ≤ t → a * s * s + 2 * b * s + c ≤ 0) := by
  refine ⟨?_, ?_, ?_⟩
  · have : a * (a * t * t + 2 * b * t + c) = 0 := by
      have : a * (a * t * t + 2 * b * t + c) = (a * t + b) * (a * t + b) - (b * b - a * c) := by ring
      rw [this, ht, ← hrr]; ring
    rcases mul_eq_zero.1 this with h | h
    · exact absurd h ha.ne'
    · exact h
  · intro s hs
    have h1 : r < a * s + b := by nlinarith
    have h2 : r * r < (a * s + b) * (a * s + b) := by nlinarith
    have h3 : 0 < a * (a * s * s + 2 * b * s + c) := by nlinarith
    by_contra h4; push Not at h4; nlinarith [mul_nonneg ha.le (neg_nonneg.2 h4)]
  · intro s h1 h2
    have h3 : a * s + b ≤ r := by nlinarith
    have h4 : -r ≤ a * s + b := by linarith
    have h5 : (a * s + b) * (a * s + b) ≤ r * r := by nlinarith
    have h6 : a * (a * s * s + 2 * b * s + c) ≤ 0 := by nlinarith
    by_contra h7; push Not at h7; nlinarith [mul_pos ha h7]

/-! ## vectors -/

theorem V3.ext' {K : Type} {a b : V3 K} (hx : a.x = b.x) (hy : a.y = b.y) (hz : a.z = b.z) : a = b := by
  cases a; cases b; simp_all
theorem V2.ext' {K : Type} {a b : V2 K} (hx : a.x = b.x) (hy : a.y = b.y) : a = b := by
  cases a; cases b; simp_all

/-- the rotation part of the isometry is a unit quaternion / unit complex number -/
def UnitQ (m : Iso3 K) : Prop := m.qi * m.qi + m.qj * m.qj + m.qk * m.qk + m.qw * m.qw = 1
def UnitC (m : Iso2 K) : Prop := m.re * m.re + m.im * m.im = 1

section rot3
variable (m : Iso3 K) (a b v : V3 K) (c : K)

theorem rot_invRot (h : UnitQ m) :
    letI := fieldNum K sq
    m.rot (m.invRot v) = v := by
  unfold UnitQ at h
  obtain ⟨i, j, k, w, t⟩ := m
  obtain ⟨x, y, z⟩ := v
  simp only at h
  apply V3.ext' <;>
  simp only [Iso3.rot, Iso3.invRot, Iso3.rotQ, Iso3.qv, V3.cross, V3.smul, V3.add, V3.neg, fieldNum_two]
  · linear_combination (-4 * (j * (i * y - j * x) - k * (k * x - i * z))) * h
  · linear_combination (-4 * (k * (j * z - k * y) - i * (i * y - j * x))) * h
  · linear_combination (-4 * (i * (k * x - i * z) - j * (j * z - k * y))) * h

theorem invRot_rot (h : UnitQ m) :
    letI := fieldNum K sq
    m.invRot (m.rot v) = v := by
  unfold UnitQ at h
  obtain ⟨i, j, k, w, t⟩ := m
  obtain ⟨x, y, z⟩ := v
  simp only at h
  apply V3.ext' <;>
  simp only [Iso3.rot, Iso3.invRot, Iso3.rotQ, Iso3.qv, V3.cross, V3.smul, V3.add, V3.neg, fieldNum_two]
  · linear_combination (-4 * (j * (i * y - j * x) - k * (k * x - i * z))) * h
  · linear_combination (-4 * (k * (j * z - k * y) - i * (i * y - j * x))) * h
  · linear_combination (-4 * (i * (k * x - i * z) - j * (j * z - k * y))) * h

theorem dot_rot_rot (h : UnitQ m) :
    letI := fieldNum K sq
    (m.rot a).dot (m.rot b) = a.dot b := by
  unfold UnitQ at h
  obtain ⟨i, j, k, w, t⟩ := m
  obtain ⟨x, y, z⟩ := a
  obtain ⟨x', y', z'⟩ := b
  simp only at h
  simp only [Iso3.rot, Iso3.rotQ, Iso3.qv, V3.cross, V3.smul, V3.add, V3.dot, fieldNum_two]
  linear_combination (4 * ((j * z - k * y) * (j * z' - k * y') + (k * x - i * z) * (k * x' - i * z') + (i * y - j * x) * (i * y' - j * x'))) * h

theorem dot_invRot_invRot (h : UnitQ m) :
    letI := fieldNum K sq
    (m.invRot a).dot (m.invRot b) = a.dot b := by
  unfold UnitQ at h
  obtain ⟨i, j, k, w, t⟩ := m
  obtain ⟨x, y, z⟩ := a
  obtain ⟨x', y', z'⟩ := b
  simp only at h
  simp only [Iso3.invRot, Iso3.rotQ, Iso3.qv, V3.cross, V3.smul, V3.add, V3.dot, V3.neg, fieldNum_two]
  linear_combination (4 * ((j * z - k * y) * (j * z' - k * y') + (k * x - i * z) * (k * x' - i * z') + (i * y - j * x) * (i * y' - j * x'))) * h

/-- adjointness: `n · (R q) = (Rᵀ n) · q` -/
theorem dot_rot_eq (h : UnitQ m) :
    letI := fieldNum K sq
    a.dot (m.rot b) = (m.invRot a).dot b := by
  have h1 := dot_rot_rot sq m (@Iso3.invRot K (fieldNum K sq) m a) b h
  rw [rot_invRot sq m a h] at h1
  exact h1

theorem rot_add :
    letI := fieldNum K sq
    m.rot (a.add b) = (m.rot a).add (m.rot b) := by
  apply V3.ext' <;>
  simp only [Iso3.rot, Iso3.rotQ, Iso3.qv, V3.cross, V3.smul, V3.add, fieldNum_two] <;> ring
theorem rot_sub :
    letI := fieldNum K sq
    m.rot (a.sub b) = (m.rot a).sub (m.rot b) := by
  apply V3.ext' <;>
  simp only [Iso3.rot, Iso3.rotQ, Iso3.qv, V3.cross, V3.smul, V3.add, V3.sub, fieldNum_two] <;> ring
theorem rot_smul :
    letI := fieldNum K sq
    m.rot (a.smul c) = (m.rot a).smul c := by
  apply V3.ext' <;>
  simp only [Iso3.rot, Iso3.rotQ, Iso3.qv, V3.cross, V3.smul, V3.add, fieldNum_two] <;> ring
theorem rot_neg :
    letI := fieldNum K sq
    m.rot a.neg = (m.rot a).neg := by
  apply V3.ext' <;>
  simp only [Iso3.rot, Iso3.rotQ, Iso3.qv, V3.cross, V3.smul, V3.add, V3.neg, fieldNum_two] <;> ring
theorem invRot_add :
    letI := fieldNum K sq
    m.invRot (a.add b) = (m.invRot a).add (m.invRot b) := by
  apply V3.ext' <;>
  simp only [Iso3.invRot, Iso3.rotQ, Iso3.qv, V3.cross, V3.smul, V3.add, V3.neg, fieldNum_two] <;> ring
theorem invRot_sub :
    letI := fieldNum K sq
    m.invRot (a.sub b) = (m.invRot a).sub (m.invRot b) := by
  apply V3.ext' <;>
  simp only [Iso3.invRot, Iso3.rotQ, Iso3.qv, V3.cross, V3.smul, V3.add, V3.sub, V3.neg, fieldNum_two] <;> ring
theorem invRot_smul :
    letI := fieldNum K sq
    m.invRot (a.smul c) = (m.invRot a).smul c := by
  apply V3.ext' <;>
  simp only [Iso3.invRot, Iso3.rotQ, Iso3.qv, V3.cross, V3.smul, V3.add, V3.neg, fieldNum_two] <;> ring
theorem invRot_neg :
    letI := fieldNum K sq
    m.invRot a.neg = (m.invRot a).neg := by
  apply V3.ext' <;>
  simp only [Iso3.invRot, Iso3.rotQ, Iso3.qv, V3.cross, V3.smul, V3.add, V3.neg, fieldNum_two] <;> ring
end rot3

section rot2
variable (m : Iso2 K) (a b v : V2 K) (c : K)

theorem rot_invRot2 (h : UnitC m) :
    letI := fieldNum K sq
    m.rot (m.invRot v) = v := by
  unfold UnitC at h
  apply V2.ext' <;> simp only [Iso2.rot, Iso2.invRot]
  · linear_combination v.x * h
  · linear_combination v.y * h
theorem invRot_rot2 (h : UnitC m) :
    letI := fieldNum K sq
    m.invRot (m.rot v) = v := by
  unfold UnitC at h
  apply V2.ext' <;> simp only [Iso2.rot, Iso2.invRot]
  · linear_combination v.x * h
  · linear_combination v.y * h
theorem dot_rot_rot2 (h : UnitC m) :
    letI := fieldNum K sq
    (m.rot a).dot (m.rot b) = a.dot b := by
  unfold UnitC at h
  simp only [Iso2.rot, V2.dot]
  linear_combination (a.x * b.x + a.y * b.y) * h
theorem dot_invRot_invRot2 (h : UnitC m) :
    letI := fieldNum K sq
    (m.invRot a).dot (m.invRot b) = a.dot b := by
  unfold UnitC at h
  simp only [Iso2.invRot, V2.dot]
  linear_combination (a.x * b.x + a.y * b.y) * h
theorem dot_rot_eq2 (h : UnitC m) :
    letI := fieldNum K sq
    a.dot (m.rot b) = (m.invRot a).dot b := by
  have h1 := dot_rot_rot2 sq m (@Iso2.invRot K (fieldNum K sq) m a) b h
  rw [rot_invRot2 sq m a h] at h1
  exact h1
theorem rot_add2 :
    letI := fieldNum K sq
    m.rot (a.add b) = (m.rot a).add (m.rot b) := by
  apply V2.ext' <;> simp only [Iso2.rot, V2.add] <;> ring
theorem rot_sub2 :
    letI := fieldNum K sq
    m.rot (a.sub b) = (m.rot a).sub (m.rot b) := by
  apply V2.ext' <;> simp only [Iso2.rot, V2.sub] <;> ring
theorem rot_smul2 :
    letI := fieldNum K sq
    m.rot (a.smul c) = (m.rot a).smul c := by
  apply V2.ext' <;> simp only [Iso2.rot, V2.smul] <;> ring
theorem rot_neg2 :
    letI := fieldNum K sq
    m.rot a.neg = (m.rot a).neg := by
  apply V2.ext' <;> simp only [Iso2.rot, V2.neg] <;> ring
theorem invRot_add2 :
    letI := fieldNum K sq
    m.invRot (a.add b) = (m.invRot a).add (m.invRot b) := by
  apply V2.ext' <;> simp only [Iso2.invRot, V2.add] <;> ring
theorem invRot_sub2 :
    letI := fieldNum K sq
    m.invRot (a.sub b) = (m.invRot a).sub (m.invRot b) := by
  apply V2.ext' <;> simp only [Iso2.invRot, V2.sub] <;> ring
theorem invRot_smul2 :
    letI := fieldNum K sq
    m.invRot (a.smul c) = (m.invRot a).smul c := by
  apply V2.ext' <;> simp only [Iso2.invRot, V2.smul] <;> ring
theorem invRot_neg2 :
    letI := fieldNum K sq
    m.invRot a.neg = (m.invRot a).neg := by
  apply V2.ext' <;> simp only [Iso2.invRot, V2.neg] <;> ring
end rot2

/-! ## Cauchy–Schwarz and the triangle inequality, stated on squares (no square root needed) -/

theorem cs3 (a b : V3 K) :
    letI := fieldNum K sq
    a.dot b * a.dot b ≤ a.normSq * b.normSq := by
  simp only [V3.dot, V3.normSq]
  nlinarith [sq_nonneg (a.x * b.y - a.y * b.x), sq_nonneg (a.y * b.z - a.z * b.y), sq_nonneg (a.z * b.x - a.x * b.z)]
theorem cs2 (a b : V2 K) :
    letI := fieldNum K sq
    a.dot b * a.dot b ≤ a.normSq * b.normSq := by
  simp only [V2.dot, V2.normSq]
  nlinarith [sq_nonneg (a.x * b.y - a.y * b.x)]

/-- `x² ≤ A·B`, `A ≤ α²`, `B ≤ β²` (all non-negative) ⇒ `|x| ≤ αβ` -/
theorem abs_le_of_sq_le_mul (x A B α β : K) (hx : x * x ≤ A * B) (hA0 : 0 ≤ A) (hB0 : 0 ≤ B) (hA : A ≤ α * α) (hB : B ≤ β * β)
    (hα : 0 ≤ α) (hβ : 0 ≤ β) : -(α * β) ≤ x ∧ x ≤ α * β := by
  have h1 : x * x ≤ (α * β) * (α * β) := by nlinarith [mul_le_mul hA hB hB0 (mul_self_nonneg α)]
  have h2 : 0 ≤ α * β := mul_nonneg hα hβ
  constructor <;> nlinarith [abs_le_of_sq_le_sq' (by simpa [pow_two] using h1) h2]

theorem dot_bounds3 (a b : V3 K) (α β : K) (hα : 0 ≤ α) (hβ : 0 ≤ β) :
    letI := fieldNum K sq
    a.normSq ≤ α * α → b.normSq ≤ β * β → -(α * β) ≤ a.dot b ∧ a.dot b ≤ α * β := by
  intro ha hb
  have ha0 : 0 ≤ @V3.normSq K (fieldNum K sq) a := by simp only [V3.normSq, V3.dot]; nlinarith [mul_self_nonneg a.x, mul_self_nonneg a.y, mul_self_nonneg a.z]
  have hb0 : 0 ≤ @V3.normSq K (fieldNum K sq) b := by simp only [V3.normSq, V3.dot]; nlinarith [mul_self_nonneg b.x, mul_self_nonneg b.y, mul_self_nonneg b.z]
  exact abs_le_of_sq_le_mul _ _ _ α β (cs3 sq a b) ha0 hb0 ha hb hα hβ
theorem dot_bounds2 (a b : V2 K) (α β : K) (hα : 0 ≤ α) (hβ : 0 ≤ β) :
    letI := fieldNum K sq
    a.normSq ≤ α * α → b.normSq ≤ β * β → -(α * β) ≤ a.dot b ∧ a.dot b ≤ α * β := by
  intro ha hb
  have ha0 : 0 ≤ @V2.normSq K (fieldNum K sq) a := by simp only [V2.normSq, V2.dot]; nlinarith [mul_self_nonneg a.x, mul_self_nonneg a.y]
  have hb0 : 0 ≤ @V2.normSq K (fieldNum K sq) b := by simp only [V2.normSq, V2.dot]; nlinarith [mul_self_nonneg b.x, mul_self_nonneg b.y]
  exact abs_le_of_sq_le_mul _ _ _ α β (cs2 sq a b) ha0 hb0 ha hb hα hβ

/-- triangle inequality on squares: `|a| ≤ α`, `|b| ≤ β` ⇒ `|a + b| ≤ α + β` -/
theorem tri3 (a b : V3 K) (α β : K) (hα : 0 ≤ α) (hβ : 0 ≤ β) :
    letI := fieldNum K sq
    a.normSq ≤ α * α → b.normSq ≤ β * β → (a.add b).normSq ≤ (α + β) * (α + β) := by
  intro ha hb
  have h := (dot_bounds3 sq a b α β hα hβ ha hb).2
  simp only [V3.normSq, V3.dot, V3.add] at *
  nlinarith
theorem tri2 (a b : V2 K) (α β : K) (hα : 0 ≤ α) (hβ : 0 ≤ β) :
    letI := fieldNum K sq
    a.normSq ≤ α * α → b.normSq ≤ β * β → (a.add b).normSq ≤ (α + β) * (α + β) := by
  intro ha hb
  have h := (dot_bounds2 sq a b α β hα hβ ha hb).2
  simp only [V2.normSq, V2.dot, V2.add] at *
  nlinarith

/-! ## square roots -/
theorem sq_unique (hsq : LawfulSqrt sq) (x r : K) (hr : 0 ≤ r) (h : r * r = x) : sq x = r := by
  have hx : 0 ≤ x := by rw [← h]; exact mul_self_nonneg r
  have h1 := hsq.nonneg x hx
  have h2 := hsq.sq_mul x hx
  nlinarith [mul_self_nonneg (sq x - r), mul_nonneg h1 hr]
theorem sq_one (hsq : LawfulSqrt sq) : sq 1 = 1 := sq_unique sq hsq 1 1 zero_le_one (by ring)
theorem sq_pos (hsq : LawfulSqrt sq) (x : K) (hx : 0 < x) : 0 < sq x := by
  have h1 := hsq.nonneg x hx.le
  have h2 := hsq.sq_mul x hx.le
  rcases h1.lt_or_eq with h3 | h3
  · exact h3
  · rw [← h3] at h2; simp at h2; linarith

/-- in a field the sign bit is just `x < 0` (`1/0 = 0`) -/
theorem signbit_field (x : K) :
    letI := fieldNum K sq
    signbit x = decide (x < 0) := by
  simp only [signbit, neq]
  by_cases h : x < 0
  · simp [h]
  · by_cases h0 : x = 0
    · subst h0; simp
    · have : ¬ (x ≤ 0 ∧ 0 ≤ x) := fun ⟨a, b⟩ => h0 (le_antisymm a b)
      simp [h, this]

end C06
