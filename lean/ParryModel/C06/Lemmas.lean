import ParryModel.Field
import ParryModel.C06.Model
/-!
# C06 helper lemmas: quadratics, Cauchy–Schwarz without square roots, rotations.
-/
namespace C06
open Model Model.SC
variable {K : Type} [Field K] [LinearOrder K] [IsStrictOrderedRing K] (sq : K → K)

/-! ## quadratics `q s = a s² + 2 b s + c` -/

theorem quad_pos_of_disc_neg (a b c s : K) (ha : 0 < a) (hd : b * b - a * c < 0) :
    0 < a * s * s + 2 * b * s + c := by
  by_contra h
  push Not at h
  nlinarith [sq_nonneg (a * s + b), mul_nonneg ha.le (neg_nonneg.2 h)]

theorem quad_pos_of_pos_pos (a b c s : K) (ha : 0 ≤ a) (hb : 0 < b) (hc : 0 < c) (hs : 0 ≤ s) :
    0 < a * s * s + 2 * b * s + c := by
  nlinarith [mul_nonneg ha (mul_nonneg hs hs), mul_nonneg hb.le hs]

/-- the smaller root `t = (-b - r)/a`, `r² = b² - ac`, `r ≥ 0`: `q t = 0` and `q > 0` strictly before it -/
theorem quad_first_root (a b c r t : K) (ha : 0 < a) (hr : 0 ≤ r) (hrr : r * r = b * b - a * c)
    (ht : a * t = -b - r) :
    a * t * t + 2 * b * t + c = 0 ∧ ∀ s, s < t → 0 < a * s * s + 2 * b * s + c := by
  constructor
  · have : a * (a * t * t + 2 * b * t + c) = 0 := by
      have : a * (a * t * t + 2 * b * t + c) = (a * t + b) * (a * t + b) - (b * b - a * c) := by ring
      rw [this, ht, ← hrr]; ring
    rcases mul_eq_zero.1 this with h | h
    · exact absurd h ha.ne'
    · exact h
  · intro s hs
    have h1 : a * s + b < -r := by nlinarith
    have h2 : r * r < (a * s + b) * (a * s + b) := by nlinarith
    have h3 : 0 < a * (a * s * s + 2 * b * s + c) := by nlinarith
    by_contra h4; push Not at h4; nlinarith [mul_nonneg ha.le (neg_nonneg.2 h4)]

/-- the larger root `t = (-b + r)/a`: `q t = 0`, `q > 0` strictly after it, `q ≤ 0` between the roots -/
theorem quad_second_root (a b c r t : K) (ha : 0 < a) (hr : 0 ≤ r) (hrr : r * r = b * b - a * c)
    (ht : a * t = -b + r) :
    a * t * t + 2 * b * t + c = 0 ∧ (∀ s, t < s → 0 < a * s * s + 2 * b * s + c) ∧
      (∀ s, a * s ≥ -b - r → s ≤ t → a * s * s + 2 * b * s + c ≤ 0) := by
  refine ⟨?_, ?_, ?_⟩
  · have : a * (a * t * t + 2 * b * t + c) = 0 := by
      have : a * (a * t * t + 2 * b * t + c) = (a * t + b) * (a * t + b) - (b * b - a * c) := by ring
      rw [this, ht, ← hrr]; ring
    rcases mul_eq_zero.1 this with h | h
    · exact absurd h ha.ne'
    · exact h
  · intro s hs
    have h1 : r < a * s + b := by nlinarith
    have h2 : r * r < (a * s + b) * (a * s + b) := by nlinarith
    have h3 : 0 < a * (a * s * s + 2 * b * s + c) := by nlinarith
    by_contra h4; push Not at h4; nlinarith [mul_nonneg ha.le (neg_nonneg.2 h4)]
  · intro s h1 h2
    have h3 : a * s + b ≤ r := by nlinarith
    have h4 : -r ≤ a * s + b := by linarith
    have h5 : (a * s + b) * (a * s + b) ≤ r * r := by nlinarith
    have h6 : a * (a * s * s + 2 * b * s + c) ≤ 0 := by nlinarith
    by_contra h7; push Not at h7; nlinarith [mul_pos ha h7]

end C06
