import ParryModel.C06.Theorems
#print axioms C06.rayBallCore_solid_spec
