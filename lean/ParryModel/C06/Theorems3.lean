import ParryModel.Field
import ParryModel.C06.Walk
/-!
# C06 theorems, part 3: the cell walk of the 3-D height-field shape cast (`C06/Walk.lean`)

"First time of impact for all start poses" needs the walk to hand every cell the moving box enters to the part cast — also
when the centre of the box starts exactly on a grid line or a grid point, moves towards `-x` / `-z`, or along one axis only.

* `cellMove_clamped_moves`: with the boundary times clamped at 0 (corrected behaviour) the cell always changes, along the axis
  (or both axes, on a tie) whose boundary comes first, in the direction of the velocity — the walk never ends for the reason
  `cell == prev_cell`.  `cellMove_pinned_stalls`: without the clamp (pinned tree) a boundary time of `-1/2^52` freezes the cell
  (the genuine defect); `cellMove_strict_stalls_on_line`: with `toi_x > 0.0` instead of `>= 0.0` a start exactly on a grid line
  moving towards `-x` (boundary time 0) freezes it too.
* `axis_tracks` / `walkStep_tracks_ray`: the DDA invariant.  If at some time `t ≥ 0` the centre ray point `o + t·d` lies in the
  closed rectangle of the current cell, then after the step the same holds for the new cell at the new time
  `t' = min toi_x toi_z ≥ t`, and during `[t, t']` the point never leaves the old cell: the walk follows the centre of the box
  cell by cell, in order, without skipping a cell boundary.
* `cellAtPoint_contains`: the start cell contains the start point (lawful floor), so the invariant holds initially at `t = 0`.
* `step_block_covered`: the integer part — if every in-field cell of the current block `range_i × range_j` is in the trace
  before a step, then every in-field cell of the shifted block is in the trace after it (the new row and the new column are
  tested along the whole current range).

`walk_covers_full` (the end-to-end statement "every cell the box enters before `max_time_of_impact` is in the trace") is stated here and
proved in `Theorems6.lean` (`walk_covers_full_generic`, every velocity); it is also checked on every generated case by the exact
oracle of `hfwalk3`.
-/
namespace C06
open Model Model.HW
variable {K : Type} [Field K] [LinearOrder K] [IsStrictOrderedRing K] (sq : K → K)

/-! ## the cell always moves (corrected), and does not on the pinned / seeded variants -/

/-- sign of a non-zero velocity component as the code's `signum() as isize` -/
def sgnI (d : K) : Int := if 0 < d then 1 else -1

/-- With both boundary times clamped at 0 and both velocity components non-zero, the walk moves the cell: along `x` iff
`toi_x ≤ toi_z`, along `z` iff `toi_z ≤ toi_x`, each by one cell in the direction of the velocity. -/
theorem cellMove_clamped_moves (d : V3 K) (rawX rawZ : K) (hx : d.x ≠ 0) (hz : d.z ≠ 0) :
    letI := fieldNum K sq
    ∃ di dj : Int, cellMove d (nmax rawX 0) (nmax rawZ 0) = some (di, dj) ∧ (di, dj) ≠ (0, 0) ∧
      dj = (if max rawX 0 ≤ max rawZ 0 then sgnI d.x else 0) ∧
      di = (if max rawZ 0 ≤ max rawX 0 then sgnI d.z else 0) := by
  simp only [cellMove, sgn, fieldNum_nmax, sgnI]
  have h0x : (0 : K) ≤ max rawX 0 := le_max_right _ _
  have h0z : (0 : K) ≤ max rawZ 0 := le_max_right _ _
  generalize max rawX 0 = a at *
  generalize max rawZ 0 = b at *
  rcases lt_or_gt_of_ne hx with hx' | hx' <;> rcases lt_or_gt_of_ne hz with hz' | hz' <;>
  rcases lt_trichotomy a b with hab | hab | hab
  all_goals first
    | (have h1 : a ≤ b := le_of_lt hab
       have h2 : ¬ (b ≤ a) := not_le.2 hab
       simp [h0x, h0z, h1, h2, hx', hz', not_lt.2 (le_of_lt hx'), not_lt.2 (le_of_lt hz')])
    | (subst hab
       simp [h0x, hx', hz', not_lt.2 (le_of_lt hx'), not_lt.2 (le_of_lt hz')])
    | (have h1 : b ≤ a := le_of_lt hab
       have h2 : ¬ (a ≤ b) := not_le.2 hab
       simp [h0x, h0z, h1, h2, hx', hz', not_lt.2 (le_of_lt hx'), not_lt.2 (le_of_lt hz')])

/-- The same when only one velocity component is non-zero (boundary time of the other one: `Real::MAX`, never the smaller
one as long as the moving one's is below it). -/
theorem cellMove_clamped_moves_x (d : V3 K) (rawX big : K) (hx : d.x ≠ 0) (hlt : max rawX 0 < max big 0) :
    letI := fieldNum K sq
    cellMove d (nmax rawX 0) (nmax big 0) = some (0, sgnI d.x) := by
  simp only [cellMove, sgn, fieldNum_nmax, sgnI]
  have h0x : (0 : K) ≤ max rawX 0 := le_max_right _ _
  have h0z : (0 : K) ≤ max big 0 := le_max_right _ _
  have h1 : max rawX 0 ≤ max big 0 := le_of_lt hlt
  have h2 : ¬ (max big 0 ≤ max rawX 0) := not_le.2 hlt
  rcases lt_or_gt_of_ne hx with hx' | hx' <;> simp [h0x, h0z, h1, h2, hx', not_lt.2 (le_of_lt hx')]

theorem cellMove_clamped_moves_z (d : V3 K) (rawZ big : K) (hz : d.z ≠ 0) (hlt : max rawZ 0 < max big 0) :
    letI := fieldNum K sq
    cellMove d (nmax big 0) (nmax rawZ 0) = some (sgnI d.z, 0) := by
  simp only [cellMove, sgn, fieldNum_nmax, sgnI]
  have h0x : (0 : K) ≤ max rawZ 0 := le_max_right _ _
  have h0z : (0 : K) ≤ max big 0 := le_max_right _ _
  have h1 : max rawZ 0 ≤ max big 0 := le_of_lt hlt
  have h2 : ¬ (max big 0 ≤ max rawZ 0) := not_le.2 hlt
  rcases lt_or_gt_of_ne hz with hz' | hz' <;> simp [h0x, h0z, h1, h2, hz', not_lt.2 (le_of_lt hz')]

/-- Pinned tree: boundary times are not clamped.  Centre a rounding error behind the line of the cell it was quantised
into, moving towards `-x` and `+z`: `toi_x = -1/2^52`, `toi_z = 2` — neither test fires, the cell stays, the walk ends. -/
theorem cellMove_pinned_stalls :
    letI := fieldNum ℚ id
    cellMove (⟨-1, 0, 1⟩ : V3 ℚ) (-(1 / 2 ^ 52)) 2 = some (0, 0) := by
  decide +kernel

/-- the cell move with the seeded comparison `toi_x > 0.0 && toi_x <= toi_z` (z test unchanged) -/
def cellMoveStrictX {K : Type} [Num K] (d : V3 K) (toiX toiZ : K) : Option (Int × Int) :=
  let mvX : Bool := decide (0 < toiX) && decide (toiX ≤ toiZ)
  let mvZ : Bool := decide (0 ≤ toiZ) && decide (toiZ ≤ toiX)
  match (if mvX then sgn d.x else some 0), (if mvZ then sgn d.z else some 0) with
  | none, _ => none
  | _, none => none
  | some dj, some di => some (di, dj)

/-- With a strict test on `toi_x`, a centre exactly on a grid line moving towards `-x` (boundary time exactly 0, the next
`z` line 3 time units away) does not move at all, whereas the code's `>=` moves it one column to the left. -/
theorem cellMove_strict_stalls_on_line :
    letI := fieldNum ℚ id
    cellMoveStrictX (⟨-1, 0, 1⟩ : V3 ℚ) 0 3 = some (0, 0) ∧ cellMove (⟨-1, 0, 1⟩ : V3 ℚ) (nmax 0 0) (nmax 3 0) = some (0, -1) := by
  constructor <;> decide +kernel

/-! ## one axis of the DDA -/

/-- Grid lines `L c` with constant positive spacing.  If the ray coordinate `o + t·d` is in the closed cell `[L c, L (c+1)]`
at a time `t`, then (1) `t` is not after the boundary time, (2) the coordinate stays in the cell up to the boundary time,
(3) at the boundary time it is on the line shared with the next cell in the direction of `d`, hence in that closed cell. -/
theorem axis_tracks (L : Int → K) (w : K) (hw : 0 < w) (hL : ∀ c, L (c + 1) = L c + w) (c : Int) (o d t : K) (hd : d ≠ 0)
    (hin : L c ≤ o + t * d ∧ o + t * d ≤ L (c + 1)) :
    letI := fieldNum K sq
    let raw := boundaryTime L c o d
    t ≤ raw ∧ (∀ t', t ≤ t' → t' ≤ raw → L c ≤ o + t' * d ∧ o + t' * d ≤ L (c + 1)) ∧
    (L (c + sgnI d) ≤ o + raw * d ∧ o + raw * d ≤ L (c + sgnI d + 1)) := by
  simp only [boundaryTime, sgnI]
  rcases lt_or_gt_of_ne hd with hneg | hpos
  · have hn : ¬ (0 < d) := not_lt.2 (le_of_lt hneg)
    simp only [hn, if_false, hneg, if_true]
    have hraw : o + (L c - o) / d * d = L c := by rw [div_mul_cancel₀ _ hd]; ring
    have h1 : t ≤ (L c - o) / d := by
      rw [le_div_iff_of_neg hneg]; linarith [hin.1]
    refine ⟨h1, ?_, ?_⟩
    · intro t' h2 h3
      have h4 : (L c - o) / d * d ≤ t' * d := mul_le_mul_of_nonpos_right h3 (le_of_lt hneg)
      have h5 : t' * d ≤ t * d := mul_le_mul_of_nonpos_right h2 (le_of_lt hneg)
      constructor <;> linarith [hin.1, hin.2]
    · have h6 : L (c + -1 + 1) = L c := by congr 1; ring
      have h7 := hL (c + -1)
      rw [h6] at h7
      rw [hraw, h6]
      constructor <;> linarith
  · simp only [hpos, if_true]
    have hraw : o + (L (c + 1) - o) / d * d = L (c + 1) := by rw [div_mul_cancel₀ _ hd]; ring
    have h1 : t ≤ (L (c + 1) - o) / d := by
      rw [le_div_iff₀ hpos]; linarith [hin.2]
    refine ⟨h1, ?_, ?_⟩
    · intro t' h2 h3
      have h4 : t' * d ≤ (L (c + 1) - o) / d * d := mul_le_mul_of_nonneg_right h3 (le_of_lt hpos)
      have h5 : t * d ≤ t' * d := mul_le_mul_of_nonneg_right h2 (le_of_lt hpos)
      constructor <;> linarith [hin.1, hin.2]
    · rw [hraw]
      have h7 := hL (c + 1)
      constructor <;> linarith

/-- non-vacuity: lines at the integers, centre at `x = 5/2` moving with `d = -2` from `t = 0`: boundary time `1/4`. -/
example : let L : Int → ℚ := fun c => (c : ℚ)
    (L 2 ≤ 5 / 2 + 0 * (-2 : ℚ) ∧ 5 / 2 + 0 * (-2 : ℚ) ≤ L (2 + 1)) ∧ (∀ c, L (c + 1) = L c + 1) := by
  constructor
  · norm_num
  · intro c; push_cast; ring

/-! ## the grid lines, the start cell, and the DDA invariant of one step -/

/-- the conversions between reals and cell indices are the mathematical ones -/
structure LawfulQuant (q : Quant K) : Prop where
  ofInt_eq : ∀ i : Int, q.ofInt i = (i : K)
  floor_le : ∀ x : K, ((q.floor x : Int) : K) ≤ x
  lt_floor : ∀ x : K, x < ((q.floor x : Int) : K) + 1

/-- `signed_x_at` / `signed_z_at` at the lawful instance -/
def XL (q : Quant K) (h : HF3 K) : Int → K := @signedXAt K (fieldNum K sq) q h
def ZL (q : Quant K) (h : HF3 K) : Int → K := @signedZAt K (fieldNum K sq) q h

/-- the horizontal point `(px, pz)` lies in the closed rectangle of cell `c = (i, j)` -/
def InCell (q : Quant K) (h : HF3 K) (c : Int × Int) (px pz : K) : Prop :=
  (XL sq q h c.2 ≤ px ∧ px ≤ XL sq q h (c.2 + 1)) ∧ (ZL sq q h c.1 ≤ pz ∧ pz ≤ ZL sq q h (c.1 + 1))

private theorem lit_half : @lit K (fieldNum K sq) 1 2 = 1 / 2 := by
  rw [fieldNum_lit]; norm_num
private theorem lit_neg_half : @lit K (fieldNum K sq) (-1) 2 = -(1 / 2) := by
  rw [fieldNum_lit]; norm_num

/-- consecutive `x` lines are one cell width `scale.x / ncols` apart -/
theorem XL_succ (q : Quant K) (hq : LawfulQuant q) (h : HF3 K) (c : Int) :
    XL sq q h (c + 1) = XL sq q h c + 1 / (h.nj : K) * h.scale.x := by
  simp only [XL, signedXAt, unitCellWidth, hq.ofInt_eq, lit_neg_half]
  push_cast; ring

theorem ZL_succ (q : Quant K) (hq : LawfulQuant q) (h : HF3 K) (c : Int) :
    ZL sq q h (c + 1) = ZL sq q h c + 1 / (h.ni : K) * h.scale.z := by
  simp only [ZL, signedZAt, unitCellHeight, hq.ofInt_eq, lit_neg_half]
  push_cast; ring

/-- one axis of `unclamped_cell_at_point`: the quantised index `c` satisfies `line c ≤ p < line (c + 1)` -/
private theorem quant_contains (q : Quant K) (hq : LawfulQuant q) (n : Nat) (hn : 0 < n) (sc p : K) (hs : 0 < sc) :
    letI := fieldNum K sq
    let c := quantFloor q (p / sc) (1 / ((n : K) + 1 - 1))
    (-(1 / 2) + 1 / ((n : K) + 1 - 1) * (c : K)) * sc ≤ p ∧ p < (-(1 / 2) + 1 / ((n : K) + 1 - 1) * ((c : K) + 1)) * sc := by
  simp only [quantFloor, lit_half]
  have hn' : (0 : K) < (n : K) := by exact_mod_cast hn
  have hu : (n : K) + 1 - 1 = n := by ring
  rw [hu]
  set y := (p / sc + 1 / 2) / (1 / (n : K)) with hy
  have h1 := hq.floor_le y
  have h2 := hq.lt_floor y
  have hy' : y = (p / sc + 1 / 2) * n := by rw [hy]; field_simp
  have hp : p = p / sc * sc := by field_simp
  set c : K := ((q.floor y : Int) : K)
  have e1 : (-(1 / 2) + 1 / (n : K) * c) * sc = (c / n - 1 / 2) * sc := by ring
  have e2 : (-(1 / 2) + 1 / (n : K) * (c + 1)) * sc = ((c + 1) / n - 1 / 2) * sc := by ring
  rw [e1, e2]
  have h3 : c / n ≤ p / sc + 1 / 2 := by rw [div_le_iff₀ hn']; linarith
  have h4 : p / sc + 1 / 2 < (c + 1) / n := by rw [lt_div_iff₀ hn']; linarith
  constructor
  · calc (c / n - 1 / 2) * sc ≤ (p / sc) * sc := mul_le_mul_of_nonneg_right (by linarith) (le_of_lt hs)
      _ = p := hp.symm
  · calc p = (p / sc) * sc := hp
      _ < ((c + 1) / n - 1 / 2) * sc := mul_lt_mul_of_pos_right (by linarith) hs

/-- The cell computed by `unclamped_cell_at_point` contains the point (closed rectangle): the DDA invariant holds at the
start of the walk, at `t = 0`, also for a point exactly on a grid line or a grid point (it is then on the low side of
its cell). -/
theorem cellAtPoint_contains (q : Quant K) (hq : LawfulQuant q) (h : HF3 K) (hi : 0 < h.ni) (hj : 0 < h.nj)
    (hsx : 0 < h.scale.x) (hsz : 0 < h.scale.z) (p : V3 K) :
    InCell sq q h (@cellAtPoint K (fieldNum K sq) q h p) p.x p.z := by
  have hx := quant_contains sq q hq h.nj hj h.scale.x p.x hsx
  have hz := quant_contains sq q hq h.ni hi h.scale.z p.z hsz
  simp only [InCell, XL, ZL, cellAtPoint, signedXAt, signedZAt, unitCellWidth, unitCellHeight, hq.ofInt_eq, lit_neg_half]
  simp only [unitCellWidth, unitCellHeight, hq.ofInt_eq] at hx hz
  push_cast at hx hz ⊢
  exact ⟨⟨hx.1, le_of_lt hx.2⟩, ⟨hz.1, le_of_lt hz.2⟩⟩

/-- non-vacuity of `LawfulQuant`: the rational floor -/
example : LawfulQuant (K := ℚ) ⟨Rat.floor, Rat.ceil, fun i => (i : ℚ)⟩ :=
  ⟨fun _ => rfl, fun x => Rat.floor_le x, fun x => by have := Rat.lt_floor_add_one x; push_cast at this; exact this⟩

/-- non-vacuity of `cellAtPoint_contains` / `walkStep_tracks_ray`: a 4 × 4 field of unit cells (scale 4), centre exactly on
the grid POINT `(1, ·, 1)` moving towards `-x` and `+z/2`: the start cell is `(3, 3)` (the point is on its low corner), the
boundary times are exactly `0` (the `x` line under the centre) and `2`, and the cell moves to column 2 — the lattice start
that a strict `toi_x > 0.0` test loses. -/
example :
    let q : Quant ℚ := ⟨Rat.floor, Rat.ceil, fun i => (i : ℚ)⟩
    let h : HF3 ℚ := ⟨4, 4, ⟨4, 1, 4⟩, ⟨⟨-2, 0, -2⟩, ⟨2, 1, 2⟩⟩⟩
    letI := fieldNum ℚ id
    cellAtPoint q h ⟨1, 1 / 2, 1⟩ = (3, 3) ∧
    boundaryTime (signedXAt q h) 3 1 (-1) = 0 ∧ boundaryTime (signedZAt q h) 3 1 (1 / 2) = 2 ∧
    cellMove (⟨-1, 0, 1 / 2⟩ : V3 ℚ) (nmax 0 0) (nmax 2 0) = some (0, -1) := by
  refine ⟨?_, ?_, ?_, ?_⟩
  · simp only [cellAtPoint, quantFloor, unitCellWidth, unitCellHeight, fieldNum_lit]
    norm_num
    first | rfl | decide
  · simp only [boundaryTime, signedXAt, unitCellWidth, fieldNum_lit]
    norm_num
  · simp only [boundaryTime, signedZAt, unitCellHeight, fieldNum_lit]
    norm_num
  · decide +kernel

/-- a step that goes on moves the cell by the `cellMove` of its boundary times (any scalar type) -/
theorem stepWith_cont_cell {K : Type} [Num K] (h : HF3 K) (d : V3 K) (maxToi tx tz : K) (s s' : St)
    (hstep : stepWith h d maxToi tx tz s = .cont s') :
    ∃ di dj : Int, cellMove d tx tz = some (di, dj) ∧ s'.cell = (s.cell.1 + di, s.cell.2 + dj) ∧
      s'.ri = (s.ri.1 + di, s.ri.2 + di) ∧ s'.rj = (s.rj.1 + dj, s.rj.2 + dj) := by
  unfold stepWith at hstep
  split at hstep
  · cases hstep
  · split at hstep
    · cases hstep
    · rename_i di dj hcm
      refine ⟨di, dj, hcm, ?_⟩
      split at hstep
      · cases hstep
      · simp only at hstep
        split at hstep
        · cases hstep
        · injection hstep with hstep
          subst hstep
          exact ⟨rfl, rfl, rfl⟩

/-- **The DDA invariant** (both velocity components non-zero).  If the centre ray point is in the closed rectangle of the
current cell at a time `t ≥ 0` and the loop goes on (`.cont`), then with `t' = min toi_x toi_z`: `t ≤ t'`, the point stays in
the old cell during `[t, t']`, and at `t'` it is in the closed rectangle of the new cell.  So the walk visits the cells of
the centre ray in order and never jumps over one. -/
theorem walkStep_tracks_ray (q : Quant K) (hq : LawfulQuant q) (h : HF3 K) (hi : 0 < h.ni) (hj : 0 < h.nj)
    (hsx : 0 < h.scale.x) (hsz : 0 < h.scale.z) (o d : V3 K) (maxToi : K) (hx : d.x ≠ 0) (hz : d.z ≠ 0)
    (s s' : St) (t : K) (ht : 0 ≤ t) (hin : InCell sq q h s.cell (o.x + t * d.x) (o.z + t * d.z))
    (hstep : @walkStep K (fieldNum K sq) q h o d maxToi s = .cont s') :
    letI := fieldNum K sq
    let t' := min (boundaryTime (XL sq q h) s.cell.2 o.x d.x) (boundaryTime (ZL sq q h) s.cell.1 o.z d.z)
    t ≤ t' ∧ (∀ u, t ≤ u → u ≤ t' → InCell sq q h s.cell (o.x + u * d.x) (o.z + u * d.z)) ∧
      InCell sq q h s'.cell (o.x + t' * d.x) (o.z + t' * d.z) := by
  have hwx : (0 : K) < 1 / (h.nj : K) * h.scale.x := by
    have : (0 : K) < (h.nj : K) := by exact_mod_cast hj
    positivity
  have hwz : (0 : K) < 1 / (h.ni : K) * h.scale.z := by
    have : (0 : K) < (h.ni : K) := by exact_mod_cast hi
    positivity
  obtain ⟨ax1, ax2, ax3⟩ := axis_tracks sq (XL sq q h) _ hwx (XL_succ sq q hq h) s.cell.2 o.x d.x t hx hin.1
  obtain ⟨az1, az2, az3⟩ := axis_tracks sq (ZL sq q h) _ hwz (ZL_succ sq q hq h) s.cell.1 o.z d.z t hz hin.2
  set rx := @boundaryTime K (fieldNum K sq) (XL sq q h) s.cell.2 o.x d.x with hrx
  set rz := @boundaryTime K (fieldNum K sq) (ZL sq q h) s.cell.1 o.z d.z with hrz
  have hrx0 : max rx 0 = rx := max_eq_left (le_trans ht ax1)
  have hrz0 : max rz 0 = rz := max_eq_left (le_trans ht az1)
  obtain ⟨di, dj, hcm, -, hdj, hdi⟩ := cellMove_clamped_moves sq d rx rz hx hz
  rw [hrx0, hrz0] at hdj hdi
  -- the new cell
  have hcell : s'.cell = (s.cell.1 + di, s.cell.2 + dj) := by
    obtain ⟨di', dj', hcm', hc, -, -⟩ := @stepWith_cont_cell K (fieldNum K sq) h d maxToi _ _ s s' hstep
    have : some (di', dj') = some (di, dj) := by rw [← hcm', ← hcm]; rfl
    injection this with this
    injection this with e1 e2
    rw [hc, e1, e2]
  refine ⟨le_min ax1 az1, ?_, ?_⟩
  · intro u hu1 hu2
    exact ⟨ax2 u hu1 (le_trans hu2 (min_le_left _ _)), az2 u hu1 (le_trans hu2 (min_le_right _ _))⟩
  · rw [hcell]
    simp only [InCell]
    rcases lt_trichotomy rx rz with hlt | heq | hgt
    · have e1 : dj = sgnI d.x := by rw [hdj, if_pos (le_of_lt hlt)]
      have e2 : di = 0 := by rw [hdi, if_neg (not_le.2 hlt)]
      rw [e1, e2, min_eq_left (le_of_lt hlt), add_zero]
      exact ⟨ax3, az2 rx ax1 (le_of_lt hlt)⟩
    · have e1 : dj = sgnI d.x := by rw [hdj, if_pos (le_of_eq heq)]
      have e2 : di = sgnI d.z := by rw [hdi, if_pos (le_of_eq heq.symm)]
      rw [e1, e2, min_eq_left (le_of_eq heq)]
      refine ⟨ax3, ?_⟩
      rw [heq]; exact az3
    · have e1 : dj = 0 := by rw [hdj, if_neg (not_le.2 hgt)]
      have e2 : di = sgnI d.z := by rw [hdi, if_pos (le_of_lt hgt)]
      rw [e1, e2, min_eq_right (le_of_lt hgt), add_zero]
      exact ⟨ax2 rz az1 (le_of_lt hgt), az3⟩

/-- **The `max_time_of_impact` break is sound for the centre**: when both boundary times exceed `max_time_of_impact`, the centre
ray point stays in the closed rectangle of the current cell up to `max_time_of_impact` — no further cell of the centre ray is
due (the block around that cell is already in the trace, `walkLoop_covered`). -/
theorem walk_break_maxToi_sound (q : Quant K) (hq : LawfulQuant q) (h : HF3 K) (hi : 0 < h.ni) (hj : 0 < h.nj)
    (hsx : 0 < h.scale.x) (hsz : 0 < h.scale.z) (o d : V3 K) (maxToi : K) (hx : d.x ≠ 0) (hz : d.z ≠ 0)
    (c : Int × Int) (t : K) (hin : InCell sq q h c (o.x + t * d.x) (o.z + t * d.z))
    (hbx : maxToi < @boundaryTime K (fieldNum K sq) (XL sq q h) c.2 o.x d.x)
    (hbz : maxToi < @boundaryTime K (fieldNum K sq) (ZL sq q h) c.1 o.z d.z) :
    ∀ u, t ≤ u → u ≤ maxToi → InCell sq q h c (o.x + u * d.x) (o.z + u * d.z) := by
  have hwx : (0 : K) < 1 / (h.nj : K) * h.scale.x := by
    have : (0 : K) < (h.nj : K) := by exact_mod_cast hj
    positivity
  have hwz : (0 : K) < 1 / (h.ni : K) * h.scale.z := by
    have : (0 : K) < (h.ni : K) := by exact_mod_cast hi
    positivity
  obtain ⟨-, ax2, -⟩ := axis_tracks sq (XL sq q h) _ hwx (XL_succ sq q hq h) c.2 o.x d.x t hx hin.1
  obtain ⟨-, az2, -⟩ := axis_tracks sq (ZL sq q h) _ hwz (ZL_succ sq q hq h) c.1 o.z d.z t hz hin.2
  intro u hu1 hu2
  exact ⟨ax2 u hu1 (le_trans hu2 (le_of_lt hbx)), az2 u hu1 (le_trans hu2 (le_of_lt hbz))⟩

/-- The end-to-end statement (NOT proved in this file; proved in `Theorems6.lean`, `walk_covers_full_generic`, for every velocity): whenever the (loosened) box of the moving shape, translated by `t·vel`
for some `t ∈ [0, max_time_of_impact]`, overlaps the open rectangle of an in-field cell `(i, j)` (and the vertical range of
the field), the trace of the walk contains `(i, j)`.  Proved parts: the cell always moves (`cellMove_clamped_moves`), the
walk follows the centre ray cell by cell (`walkStep_tracks_ray`, `cellAtPoint_contains`), the block of ranges around the
centre's cell is covered by the trace at every step (`walkInit_covered`, `step_block_covered`, `walkLoop_covered`).  Missing:
that the footprint of the box lies in the block whenever the centre lies in the block's cell (relation between the
quantised box corners and the quantised centre), and the soundness of the three `break`s. -/
def walk_covers_full (q : Quant K) (h : HF3 K) (aabb2 : Aabb3 K) (vel : V3 K) (maxToi : K) : Prop :=
  ∀ (fuel : Nat) (out : List (Int × Int)), @walk K (fieldNum K sq) q false h aabb2 vel maxToi fuel = .done out →
    ∀ (i j : Int) (t : K), 0 ≤ i → i < h.ni → 0 ≤ j → j < h.nj → 0 ≤ t → t ≤ maxToi →
      aabb2.mins.x + t * vel.x < XL sq q h (j + 1) → XL sq q h j < aabb2.maxs.x + t * vel.x →
      aabb2.mins.z + t * vel.z < ZL sq q h (i + 1) → ZL sq q h i < aabb2.maxs.z + t * vel.z →
      aabb2.mins.y + t * vel.y < h.aabb.maxs.y → h.aabb.mins.y < aabb2.maxs.y + t * vel.y →
      (i, j) ∈ out

/-! ## the integer part: the block of cells around the centre's cell stays covered by the trace -/

section block
variable {K : Type} [Num K]

/-- every in-field cell of the block `ri × rj` (half-open ranges) is in the trace -/
def Covered (ni nj : Nat) (ri rj : Int × Int) (out : List (Int × Int)) : Prop :=
  ∀ i j : Int, ri.1 ≤ i → i < ri.2 → rj.1 ≤ j → j < rj.2 → 0 ≤ i → i < ni → 0 ≤ j → j < nj → (i, j) ∈ out

theorem mem_irange (a b x : Int) : x ∈ irange a b ↔ a ≤ x ∧ x < b := by
  simp only [irange, List.mem_map, List.mem_range]
  constructor
  · rintro ⟨k, hk, rfl⟩; omega
  · intro ⟨h1, h2⟩
    exact ⟨(x - a).toNat, by omega, by omega⟩

theorem mem_foldl_hitCell {α : Type} (ni nj : Nat) (f : α → Int × Int) (l : List α) (out : List (Int × Int)) (c : Int × Int) :
    c ∈ l.foldl (fun acc a => hitCell ni nj acc (f a).1 (f a).2) out ↔
      c ∈ out ∨ ∃ a ∈ l, f a = c ∧ 0 ≤ c.1 ∧ 0 ≤ c.2 ∧ c.1 < ni ∧ c.2 < nj := by
  induction l generalizing out with
  | nil => simp
  | cons a l ih =>
    rw [List.foldl_cons, ih]
    simp only [hitCell, List.mem_cons]
    constructor
    · rintro (h | ⟨b, hb, h⟩)
      · split at h
        · rename_i hc
          rcases List.mem_append.1 h with h | h
          · exact Or.inl h
          · right
            refine ⟨a, Or.inl rfl, ?_⟩
            have : c = ((f a).1, (f a).2) := by simpa using h
            subst this
            exact ⟨rfl, hc⟩
        · exact Or.inl h
      · exact Or.inr ⟨b, Or.inr hb, h⟩
    · rintro (h | ⟨b, hb | hb, h⟩)
      · left; split
        · exact List.mem_append.2 (Or.inl h)
        · exact h
      · subst hb
        left
        obtain ⟨rfl, h⟩ := h
        rw [if_pos h]
        exact List.mem_append.2 (Or.inr (by simp))
      · exact Or.inr ⟨b, hb, h⟩

/-- the trace of one step, spelled out -/
theorem stepWith_cont_spec (h : HF3 K) (d : V3 K) (maxToi tx tz : K) (s s' : St)
    (hstep : stepWith h d maxToi tx tz s = .cont s') :
    ∃ di dj : Int, cellMove d tx tz = some (di, dj) ∧ ¬ (di = 0 ∧ dj = 0) ∧
      s'.cell = (s.cell.1 + di, s.cell.2 + dj) ∧ s'.ri = (s.ri.1 + di, s.ri.2 + di) ∧ s'.rj = (s.rj.1 + dj, s.rj.2 + dj) ∧
      s'.out =
        (let ri : Int × Int := (s.ri.1 + di, s.ri.2 + di)
         let rj : Int × Int := (s.rj.1 + dj, s.rj.2 + dj)
         let newI := if 0 < di then ri.2 - 1 else ri.1
         let newJ := if 0 < dj then rj.2 - 1 else rj.1
         let ignI : Bool := decide (newI < 0) || decide ((h.ni : Int) ≤ newI)
         let ignJ : Bool := decide (newJ < 0) || decide ((h.nj : Int) ≤ newJ)
         let out1 := if !ignI && di ≠ 0 then (irange rj.1 rj.2).foldl (fun acc j => hitCell h.ni h.nj acc newI j) s.out else s.out
         if !ignJ && dj ≠ 0 then (irange ri.1 ri.2).foldl (fun acc i => hitCell h.ni h.nj acc i newJ) out1 else out1) := by
  unfold stepWith at hstep
  split at hstep
  · cases hstep
  · split at hstep
    · cases hstep
    · rename_i di dj hcm
      refine ⟨di, dj, hcm, ?_⟩
      split at hstep
      · cases hstep
      · rename_i hne
        simp only at hstep
        split at hstep
        · cases hstep
        · injection hstep with hstep
          subst hstep
          exact ⟨hne, rfl, rfl, rfl, rfl⟩

theorem cellMove_range (d : V3 K) (tx tz : K) (di dj : Int) (hcm : cellMove d tx tz = some (di, dj)) :
    (di = -1 ∨ di = 0 ∨ di = 1) ∧ (dj = -1 ∨ dj = 0 ∨ dj = 1) := by
  unfold cellMove sgn at hcm
  simp only at hcm
  split at hcm
  · cases hcm
  · cases hcm
  · rename_i a b ha hb
    injection hcm with hcm
    injection hcm with e1 e2
    subst e1 e2
    constructor
    · split at hb
      · split at hb
        · injection hb with hb; omega
        · split at hb
          · injection hb with hb; omega
          · cases hb
      · injection hb with hb; omega
    · split at ha
      · split at ha
        · injection ha with ha; omega
        · split at ha
          · injection ha with ha; omega
          · cases ha
      · injection ha with ha; omega

/-- **Block coverage is preserved by a step.**  If every in-field cell of `range_i × range_j` is in the trace before the
step, the same holds for the shifted ranges after it, and nothing is lost from the trace: the row and the column that
enter the block are tested along the whole (already shifted) other range — including the corner cell when the walk steps
diagonally through a grid point. -/
theorem step_block_covered (h : HF3 K) (d : V3 K) (maxToi tx tz : K) (s s' : St)
    (hstep : stepWith h d maxToi tx tz s = .cont s') (hcov : Covered h.ni h.nj s.ri s.rj s.out) :
    Covered h.ni h.nj s'.ri s'.rj s'.out ∧ ∀ c ∈ s.out, c ∈ s'.out := by
  obtain ⟨di, dj, hcm, -, -, hri, hrj, hout⟩ := stepWith_cont_spec h d maxToi tx tz s s' hstep
  obtain ⟨hdi, hdj⟩ := cellMove_range d tx tz di dj hcm
  simp only at hout
  -- membership in the new trace
  have key : ∀ c : Int × Int, c ∈ s'.out ↔
      (c ∈ s.out ∨
        (di ≠ 0 ∧ c.1 = (if 0 < di then s.ri.2 + di - 1 else s.ri.1 + di) ∧ s.rj.1 + dj ≤ c.2 ∧ c.2 < s.rj.2 + dj ∧
          0 ≤ c.1 ∧ 0 ≤ c.2 ∧ c.1 < h.ni ∧ c.2 < h.nj)) ∨
        (dj ≠ 0 ∧ c.2 = (if 0 < dj then s.rj.2 + dj - 1 else s.rj.1 + dj) ∧ s.ri.1 + di ≤ c.1 ∧ c.1 < s.ri.2 + di ∧
          0 ≤ c.1 ∧ 0 ≤ c.2 ∧ c.1 < h.ni ∧ c.2 < h.nj) := by
    intro c
    rw [hout]
    generalize (if 0 < di then s.ri.2 + di - 1 else s.ri.1 + di) = nI
    generalize (if 0 < dj then s.rj.2 + dj - 1 else s.rj.1 + dj) = nJ
    have hrow : ∀ (o : List (Int × Int)) (i0 : Int) (a b : Int),
        c ∈ (irange a b).foldl (fun acc j => hitCell h.ni h.nj acc i0 j) o ↔
          c ∈ o ∨ (c.1 = i0 ∧ a ≤ c.2 ∧ c.2 < b ∧ 0 ≤ c.1 ∧ 0 ≤ c.2 ∧ c.1 < h.ni ∧ c.2 < h.nj) := by
      intro o i0 a b
      rw [mem_foldl_hitCell h.ni h.nj (fun j => (i0, j)) (irange a b) o c]
      constructor
      · rintro (h1 | ⟨j, hj, rfl, h2⟩)
        · exact Or.inl h1
        · rw [mem_irange] at hj; exact Or.inr ⟨rfl, hj.1, hj.2, h2⟩
      · rintro (h1 | ⟨e, h2, h3, h4⟩)
        · exact Or.inl h1
        · exact Or.inr ⟨c.2, (mem_irange _ _ _).2 ⟨h2, h3⟩, by rw [← e], h4⟩
    have hcol : ∀ (o : List (Int × Int)) (j0 : Int) (a b : Int),
        c ∈ (irange a b).foldl (fun acc i => hitCell h.ni h.nj acc i j0) o ↔
          c ∈ o ∨ (c.2 = j0 ∧ a ≤ c.1 ∧ c.1 < b ∧ 0 ≤ c.1 ∧ 0 ≤ c.2 ∧ c.1 < h.ni ∧ c.2 < h.nj) := by
      intro o j0 a b
      rw [mem_foldl_hitCell h.ni h.nj (fun i => (i, j0)) (irange a b) o c]
      constructor
      · rintro (h1 | ⟨j, hj, rfl, h2⟩)
        · exact Or.inl h1
        · rw [mem_irange] at hj; exact Or.inr ⟨rfl, hj.1, hj.2, h2⟩
      · rintro (h1 | ⟨e, h2, h3, h4⟩)
        · exact Or.inl h1
        · exact Or.inr ⟨c.1, (mem_irange _ _ _).2 ⟨h2, h3⟩, by rw [← e], h4⟩
    have hR : ∀ o : List (Int × Int),
        c ∈ (if (!(decide (nI < 0) || decide ((h.ni : Int) ≤ nI)) && decide (di ≠ 0)) = true
              then (irange (s.rj.1 + dj) (s.rj.2 + dj)).foldl (fun acc j => hitCell h.ni h.nj acc nI j) o else o) ↔
          c ∈ o ∨ (di ≠ 0 ∧ c.1 = nI ∧ s.rj.1 + dj ≤ c.2 ∧ c.2 < s.rj.2 + dj ∧ 0 ≤ c.1 ∧ 0 ≤ c.2 ∧ c.1 < h.ni ∧ c.2 < h.nj) := by
      intro o
      by_cases hI : (!(decide (nI < 0) || decide ((h.ni : Int) ≤ nI)) && decide (di ≠ 0)) = true
      · rw [if_pos hI, hrow]
        simp only [Bool.and_eq_true, Bool.not_eq_true', Bool.or_eq_false_iff, decide_eq_false_iff_not, decide_eq_true_eq] at hI
        constructor
        · rintro (h1 | h1)
          · exact Or.inl h1
          · exact Or.inr ⟨hI.2, h1⟩
        · rintro (h1 | h1)
          · exact Or.inl h1
          · exact Or.inr h1.2
      · rw [if_neg hI]
        constructor
        · intro h1; exact Or.inl h1
        · rintro (h1 | ⟨hd, e, -, -, h5, -, h7, -⟩)
          · exact h1
          · exfalso; apply hI
            simp only [Bool.and_eq_true, Bool.not_eq_true', Bool.or_eq_false_iff, decide_eq_false_iff_not, decide_eq_true_eq]
            exact ⟨⟨by omega, by omega⟩, hd⟩
    have hC : ∀ o : List (Int × Int),
        c ∈ (if (!(decide (nJ < 0) || decide ((h.nj : Int) ≤ nJ)) && decide (dj ≠ 0)) = true
              then (irange (s.ri.1 + di) (s.ri.2 + di)).foldl (fun acc i => hitCell h.ni h.nj acc i nJ) o else o) ↔
          c ∈ o ∨ (dj ≠ 0 ∧ c.2 = nJ ∧ s.ri.1 + di ≤ c.1 ∧ c.1 < s.ri.2 + di ∧ 0 ≤ c.1 ∧ 0 ≤ c.2 ∧ c.1 < h.ni ∧ c.2 < h.nj) := by
      intro o
      by_cases hJ : (!(decide (nJ < 0) || decide ((h.nj : Int) ≤ nJ)) && decide (dj ≠ 0)) = true
      · rw [if_pos hJ, hcol]
        simp only [Bool.and_eq_true, Bool.not_eq_true', Bool.or_eq_false_iff, decide_eq_false_iff_not, decide_eq_true_eq] at hJ
        constructor
        · rintro (h1 | h1)
          · exact Or.inl h1
          · exact Or.inr ⟨hJ.2, h1⟩
        · rintro (h1 | h1)
          · exact Or.inl h1
          · exact Or.inr h1.2
      · rw [if_neg hJ]
        constructor
        · intro h1; exact Or.inl h1
        · rintro (h1 | ⟨hd, e, -, -, -, h6, -, h8⟩)
          · exact h1
          · exfalso; apply hJ
            simp only [Bool.and_eq_true, Bool.not_eq_true', Bool.or_eq_false_iff, decide_eq_false_iff_not, decide_eq_true_eq]
            exact ⟨⟨by omega, by omega⟩, hd⟩
    rw [hC, hR]
  constructor
  · intro i j h1 h2 h3 h4 h5 h6 h7 h8
    rw [hri] at h1 h2
    rw [hrj] at h3 h4
    simp only at h1 h2 h3 h4
    rw [key]
    by_cases hiold : s.ri.1 ≤ i ∧ i < s.ri.2
    · by_cases hjold : s.rj.1 ≤ j ∧ j < s.rj.2
      · exact Or.inl (Or.inl (hcov i j hiold.1 hiold.2 hjold.1 hjold.2 h5 h6 h7 h8))
      · right
        refine ⟨by omega, ?_, h1, h2, h5, h7, h6, h8⟩
        show j = _
        split <;> omega
    · left; right
      refine ⟨by omega, ?_, h3, h4, h5, h7, h6, h8⟩
      show i = _
      split <;> omega
  · intro c hc
    rw [key]; exact Or.inl (Or.inl hc)

/-- membership in the trace of the initial block (the nested `for i … for j …` over the clamped ranges) -/
theorem mem_foldl_block (ni nj : Nat) (cj : List Int) (ci : List Int) (out : List (Int × Int)) (c : Int × Int) :
    c ∈ ci.foldl (fun acc i => cj.foldl (fun acc j => hitCell ni nj acc i j) acc) out ↔
      c ∈ out ∨ (c.1 ∈ ci ∧ c.2 ∈ cj ∧ 0 ≤ c.1 ∧ 0 ≤ c.2 ∧ c.1 < ni ∧ c.2 < nj) := by
  induction ci generalizing out with
  | nil => simp
  | cons i ci ih =>
    rw [List.foldl_cons, ih, mem_foldl_hitCell ni nj (fun j => (i, j)) cj out c]
    simp only [List.mem_cons]
    constructor
    · rintro ((h | ⟨j, hj, rfl, h⟩) | h)
      · exact Or.inl h
      · exact Or.inr ⟨Or.inl rfl, hj, h⟩
      · exact Or.inr ⟨Or.inr h.1, h.2⟩
    · rintro (h | ⟨h1 | h1, h2, h3⟩)
      · exact Or.inl (Or.inl h)
      · left; right
        exact ⟨c.2, h2, by rw [← h1], h3⟩
      · exact Or.inr ⟨h1, h2, h3⟩

/-- clamping a range to the field keeps its in-field members -/
theorem mem_irange_clamp (a b : Int) (n : Nat) (x : Int) (h1 : a ≤ x) (h2 : x < b) (h3 : 0 ≤ x) (h4 : x < n) :
    x ∈ irange (iclamp a 0 n) (iclamp b 0 n) := by
  rw [mem_irange]; unfold iclamp
  constructor <;> split <;> (try split) <;> omega

/-- **The initial block is covered**: before the loop, every in-field cell of the (enlarged, unclamped) ranges is in the
trace — clamping the ranges to the field loses nothing. -/
theorem walkInit_covered (q : Quant K) (h : HF3 K) (aabb2 : Aabb3 K) (vel : V3 K) (maxToi : K) (o : V3 K) (s0 : St)
    (hinit : walkInit q h aabb2 vel maxToi = some (o, s0)) : Covered h.ni h.nj s0.ri s0.rj s0.out := by
  unfold walkInit at hinit
  simp only at hinit
  split at hinit
  · cases hinit
  · injection hinit with hinit
    injection hinit with _ hs
    subst hs
    intro i j h1 h2 h3 h4 h5 h6 h7 h8
    simp only at h1 h2 h3 h4 ⊢
    rw [mem_foldl_block]
    right
    refine ⟨?_, ?_, h5, h7, h6, h8⟩
    · exact mem_irange_clamp _ _ _ _ h1 h2 h5 h6
    · exact mem_irange_clamp _ _ _ _ h3 h4 h7 h8

/-- **Block coverage is an invariant of the whole loop** (corrected and pinned step alike, any fuel): starting from a covered
state, nothing is ever lost from the trace, and the walk ends (for whatever reason) in a state whose block is covered by
the final trace. -/
theorem walkLoop_covered (h : HF3 K) (d : V3 K) (maxToi : K) (tx tz : St → K) (n : Nat) (s : St)
    (hcov : Covered h.ni h.nj s.ri s.rj s.out) :
    (∀ c ∈ s.out, c ∈ (walkLoop (fun s => stepWith h d maxToi (tx s) (tz s) s) n s).trace) ∧
    ∃ sl : St, Covered h.ni h.nj sl.ri sl.rj sl.out ∧ (∀ c ∈ sl.out, c ∈ (walkLoop (fun s => stepWith h d maxToi (tx s) (tz s) s) n s).trace) := by
  induction n generalizing s with
  | zero => exact ⟨fun c hc => hc, s, hcov, fun c hc => hc⟩
  | succ n ih =>
    unfold walkLoop
    split
    · rename_i out hst
      have : out = s.out := by
        unfold stepWith at hst
        split at hst
        · injection hst with hst; exact hst.symm
        · split at hst
          · cases hst
          · split at hst
            · injection hst with hst; exact hst.symm
            · simp only at hst
              split at hst
              · injection hst with hst; exact hst.symm
              · cases hst
      subst this
      exact ⟨fun c hc => hc, s, hcov, fun c hc => hc⟩
    · rename_i out hst
      have : out = s.out := by
        unfold stepWith at hst
        split at hst
        · cases hst
        · split at hst
          · injection hst with hst; exact hst.symm
          · split at hst
            · cases hst
            · simp only at hst
              split at hst
              · cases hst
              · cases hst
      subst this
      exact ⟨fun c hc => hc, s, hcov, fun c hc => hc⟩
    · rename_i s' hst
      obtain ⟨hc', hmono⟩ := step_block_covered h d maxToi (tx s) (tz s) s s' hst hcov
      obtain ⟨i1, sl, i2, i3⟩ := ih s' hc'
      exact ⟨fun c hc => i1 c (hmono c hc), sl, i2, i3⟩

end block

end C06
