import ParryModel.Field
import ParryModel.C06.Walk
/-!
# C06 theorems, part 3: the cell walk of the 3-D height-field shape cast (`C06/Walk.lean`)

"First time of impact for all start poses" needs the walk to hand every cell the moving box enters to the part cast — also
when the centre of the box starts exactly on a grid line or a grid point, moves towards `-x` / `-z`, or along one axis only.

* `cellMove_clamped_moves`: with the boundary times clamped at 0 (corrected behaviour) the cell always changes, along the axis
  (or both axes, on a tie) whose boundary comes first, in the direction of the velocity — the walk never ends for the reason
  `cell == prev_cell`.  `cellMove_pinned_stalls`: without the clamp (pinned tree) a boundary time of `-1/2^52` freezes the cell
  (the genuine defect); `cellMove_strict_stalls_on_line`: with `toi_x > 0.0` instead of `>= 0.0` a start exactly on a grid line
  moving towards `-x` (boundary time 0) freezes it too.
* `axis_tracks` / `walkStep_tracks_ray`: the DDA invariant.  If at some time `t ≥ 0` the centre ray point `o + t·d` lies in the
  closed rectangle of the current cell, then after the step the same holds for the new cell at the new time
  `t' = min toi_x toi_z ≥ t`, and during `[t, t']` the point never leaves the old cell: the walk follows the centre of the box
  cell by cell, in order, without skipping a cell boundary.
* `cellAtPoint_contains`: the start cell contains the start point (lawful floor), so the invariant holds initially at `t = 0`.
* `step_block_covered`: the integer part — if every in-field cell of the current block `range_i × range_j` is in the trace
  before a step, then every in-field cell of the shifted block is in the trace after it (the new row and the new column are
  tested along the whole current range).

Not proved (`walk_covers_full`): that the block `range_i × range_j` around the centre's cell contains the footprint of the
box at every time the centre is in that cell (needs the rounding-free relation between `quantize_floor/ceil` of the box
corners and of the centre), and hence the end-to-end statement "every cell the box enters before `max_time_of_impact` is in
the trace".  That statement is checked on every generated case by the exact oracle of `hfwalk3`.
-/
namespace C06
open Model Model.HW
variable {K : Type} [Field K] [LinearOrder K] [IsStrictOrderedRing K] (sq : K → K)

/-! ## the cell always moves (corrected), and does not on the pinned / seeded variants -/

/-- sign of a non-zero velocity component as the code's `signum() as isize` -/
def sgnI (d : K) : Int := if 0 < d then 1 else -1

/-- With both boundary times clamped at 0 and both velocity components non-zero, the walk moves the cell: along `x` iff
`toi_x ≤ toi_z`, along `z` iff `toi_z ≤ toi_x`, each by one cell in the direction of the velocity. -/
theorem cellMove_clamped_moves (d : V3 K) (rawX rawZ : K) (hx : d.x ≠ 0) (hz : d.z ≠ 0) :
    letI := fieldNum K sq
    ∃ di dj : Int, cellMove d (nmax rawX 0) (nmax rawZ 0) = some (di, dj) ∧ (di, dj) ≠ (0, 0) ∧
      dj = (if max rawX 0 ≤ max rawZ 0 then sgnI d.x else 0) ∧
      di = (if max rawZ 0 ≤ max rawX 0 then sgnI d.z else 0) := by
  simp only [cellMove, sgn, fieldNum_nmax, sgnI]
  have h0x : (0 : K) ≤ max rawX 0 := le_max_right _ _
  have h0z : (0 : K) ≤ max rawZ 0 := le_max_right _ _
  generalize max rawX 0 = a at *
  generalize max rawZ 0 = b at *
  rcases lt_or_gt_of_ne hx with hx' | hx' <;> rcases lt_or_gt_of_ne hz with hz' | hz' <;>
  rcases lt_trichotomy a b with hab | hab | hab
  all_goals first
    | (have h1 : a ≤ b := le_of_lt hab
       have h2 : ¬ (b ≤ a) := not_le.2 hab
       simp [h0x, h0z, h1, h2, hx', hz', not_lt.2 (le_of_lt hx'), not_lt.2 (le_of_lt hz')])
    | (subst hab
       simp [h0x, hx', hz', not_lt.2 (le_of_lt hx'), not_lt.2 (le_of_lt hz')])
    | (have h1 : b ≤ a := le_of_lt hab
       have h2 : ¬ (a ≤ b) := not_le.2 hab
       simp [h0x, h0z, h1, h2, hx', hz', not_lt.2 (le_of_lt hx'), not_lt.2 (le_of_lt hz')])

/-- The same when only one velocity component is non-zero (boundary time of the other one: `Real::MAX`, never the smaller
one as long as the moving one's is below it). -/
theorem cellMove_clamped_moves_x (d : V3 K) (rawX big : K) (hx : d.x ≠ 0) (hlt : max rawX 0 < max big 0) :
    letI := fieldNum K sq
    cellMove d (nmax rawX 0) (nmax big 0) = some (0, sgnI d.x) := by
  simp only [cellMove, sgn, fieldNum_nmax, sgnI]
  have h0x : (0 : K) ≤ max rawX 0 := le_max_right _ _
  have h0z : (0 : K) ≤ max big 0 := le_max_right _ _
  have h1 : max rawX 0 ≤ max big 0 := le_of_lt hlt
  have h2 : ¬ (max big 0 ≤ max rawX 0) := not_le.2 hlt
  rcases lt_or_gt_of_ne hx with hx' | hx' <;> simp [h0x, h0z, h1, h2, hx', not_lt.2 (le_of_lt hx')]

theorem cellMove_clamped_moves_z (d : V3 K) (rawZ big : K) (hz : d.z ≠ 0) (hlt : max rawZ 0 < max big 0) :
    letI := fieldNum K sq
    cellMove d (nmax big 0) (nmax rawZ 0) = some (sgnI d.z, 0) := by
  simp only [cellMove, sgn, fieldNum_nmax, sgnI]
  have h0x : (0 : K) ≤ max rawZ 0 := le_max_right _ _
  have h0z : (0 : K) ≤ max big 0 := le_max_right _ _
  have h1 : max rawZ 0 ≤ max big 0 := le_of_lt hlt
  have h2 : ¬ (max big 0 ≤ max rawZ 0) := not_le.2 hlt
  rcases lt_or_gt_of_ne hz with hz' | hz' <;> simp [h0x, h0z, h1, h2, hz', not_lt.2 (le_of_lt hz')]

/-- Pinned tree: boundary times are not clamped.  Centre a rounding error behind the line of the cell it was quantised
into, moving towards `-x` and `+z`: `toi_x = -1/2^52`, `toi_z = 2` — neither test fires, the cell stays, the walk ends. -/
theorem cellMove_pinned_stalls :
    letI := fieldNum ℚ id
    cellMove (⟨-1, 0, 1⟩ : V3 ℚ) (-(1 / 2 ^ 52)) 2 = some (0, 0) := by
  decide +kernel

/-- the cell move with the seeded comparison `toi_x > 0.0 && toi_x <= toi_z` (z test unchanged) -/
def cellMoveStrictX {K : Type} [Num K] (d : V3 K) (toiX toiZ : K) : Option (Int × Int) :=
  let mvX : Bool := decide (0 < toiX) && decide (toiX ≤ toiZ)
  let mvZ : Bool := decide (0 ≤ toiZ) && decide (toiZ ≤ toiX)
  match (if mvX then sgn d.x else some 0), (if mvZ then sgn d.z else some 0) with
  | none, _ => none
  | _, none => none
  | some dj, some di => some (di, dj)

/-- With a strict test on `toi_x`, a centre exactly on a grid line moving towards `-x` (boundary time exactly 0, the next
`z` line 3 time units away) does not move at all, whereas the code's `>=` moves it one column to the left. -/
theorem cellMove_strict_stalls_on_line :
    letI := fieldNum ℚ id
    cellMoveStrictX (⟨-1, 0, 1⟩ : V3 ℚ) 0 3 = some (0, 0) ∧ cellMove (⟨-1, 0, 1⟩ : V3 ℚ) (nmax 0 0) (nmax 3 0) = some (0, -1) := by
  constructor <;> decide +kernel

/-! ## one axis of the DDA -/

/-- Grid lines `L c` with constant positive spacing.  If the ray coordinate `o + t·d` is in the closed cell `[L c, L (c+1)]`
at a time `t`, then (1) `t` is not after the boundary time, (2) the coordinate stays in the cell up to the boundary time,
(3) at the boundary time it is on the line shared with the next cell in the direction of `d`, hence in that closed cell. -/
theorem axis_tracks (L : Int → K) (w : K) (hw : 0 < w) (hL : ∀ c, L (c + 1) = L c + w) (c : Int) (o d t : K) (hd : d ≠ 0)
    (hin : L c ≤ o + t * d ∧ o + t * d ≤ L (c + 1)) :
    letI := fieldNum K sq
    let raw := boundaryTime L c o d
    t ≤ raw ∧ (∀ t', t ≤ t' → t' ≤ raw → L c ≤ o + t' * d ∧ o + t' * d ≤ L (c + 1)) ∧
    (L (c + sgnI d) ≤ o + raw * d ∧ o + raw * d ≤ L (c + sgnI d + 1)) := by
  simp only [boundaryTime, sgnI]
  rcases lt_or_gt_of_ne hd with hneg | hpos
  · have hn : ¬ (0 < d) := not_lt.2 (le_of_lt hneg)
    simp only [hn, if_false, hneg, if_true]
    have hraw : o + (L c - o) / d * d = L c := by rw [div_mul_cancel₀ _ hd]; ring
    have h1 : t ≤ (L c - o) / d := by
      rw [le_div_iff_of_neg hneg]; linarith [hin.1]
    refine ⟨h1, ?_, ?_⟩
    · intro t' h2 h3
      have h4 : (L c - o) / d * d ≤ t' * d := mul_le_mul_of_nonpos_right h3 (le_of_lt hneg)
      have h5 : t' * d ≤ t * d := mul_le_mul_of_nonpos_right h2 (le_of_lt hneg)
      constructor <;> linarith [hin.1, hin.2]
    · have h6 : L (c + -1 + 1) = L c := by congr 1; ring
      have h7 := hL (c + -1)
      rw [h6] at h7
      rw [hraw, h6]
      constructor <;> linarith
  · simp only [hpos, if_true]
    have hraw : o + (L (c + 1) - o) / d * d = L (c + 1) := by rw [div_mul_cancel₀ _ hd]; ring
    have h1 : t ≤ (L (c + 1) - o) / d := by
      rw [le_div_iff₀ hpos]; linarith [hin.2]
    refine ⟨h1, ?_, ?_⟩
    · intro t' h2 h3
      have h4 : t' * d ≤ (L (c + 1) - o) / d * d := mul_le_mul_of_nonneg_right h3 (le_of_lt hpos)
      have h5 : t * d ≤ t' * d := mul_le_mul_of_nonneg_right h2 (le_of_lt hpos)
      constructor <;> linarith [hin.1, hin.2]
    · rw [hraw]
      have h7 := hL (c + 1)
      constructor <;> linarith

/-- non-vacuity: lines at the integers, centre at `x = 5/2` moving with `d = -2` from `t = 0`: boundary time `1/4`. -/
example : let L : Int → ℚ := fun c => (c : ℚ)
    (L 2 ≤ 5 / 2 + 0 * (-2 : ℚ) ∧ 5 / 2 + 0 * (-2 : ℚ) ≤ L (2 + 1)) ∧ (∀ c, L (c + 1) = L c + 1) := by
  constructor
  · norm_num
  · intro c; push_cast; ring

/-! ## the grid lines, the start cell, and the DDA invariant of one step -/

/-- the conversions between reals and cell indices are the mathematical ones -/
structure LawfulQuant (q : Quant K) : Prop where
  ofInt_eq : ∀ i : Int, q.ofInt i = (i : K)
  floor_le : ∀ x : K, ((q.floor x : Int) : K) ≤ x
  lt_floor : ∀ x : K, x < ((q.floor x : Int) : K) + 1

/-- `signed_x_at` / `signed_z_at` at the lawful instance -/
def XL (q : Quant K) (h : HF3 K) : Int → K := @signedXAt K (fieldNum K sq) q h
def ZL (q : Quant K) (h : HF3 K) : Int → K := @signedZAt K (fieldNum K sq) q h

/-- the horizontal point `(px, pz)` lies in the closed rectangle of cell `c = (i, j)` -/
def InCell (q : Quant K) (h : HF3 K) (c : Int × Int) (px pz : K) : Prop :=
  (XL sq q h c.2 ≤ px ∧ px ≤ XL sq q h (c.2 + 1)) ∧ (ZL sq q h c.1 ≤ pz ∧ pz ≤ ZL sq q h (c.1 + 1))

private theorem lit_half : @lit K (fieldNum K sq) 1 2 = 1 / 2 := by
  rw [fieldNum_lit]; norm_num
private theorem lit_neg_half : @lit K (fieldNum K sq) (-1) 2 = -(1 / 2) := by
  rw [fieldNum_lit]; norm_num

/-- consecutive `x` lines are one cell width `scale.x / ncols` apart -/
theorem XL_succ (q : Quant K) (hq : LawfulQuant q) (h : HF3 K) (c : Int) :
    XL sq q h (c + 1) = XL sq q h c + 1 / (h.nj : K) * h.scale.x := by
  simp only [XL, signedXAt, unitCellWidth, hq.ofInt_eq, lit_neg_half]
  push_cast; ring

theorem ZL_succ (q : Quant K) (hq : LawfulQuant q) (h : HF3 K) (c : Int) :
    ZL sq q h (c + 1) = ZL sq q h c + 1 / (h.ni : K) * h.scale.z := by
  simp only [ZL, signedZAt, unitCellHeight, hq.ofInt_eq, lit_neg_half]
  push_cast; ring

/-- one axis of `unclamped_cell_at_point`: the quantised index `c` satisfies `line c ≤ p < line (c + 1)` -/
private theorem quant_contains (q : Quant K) (hq : LawfulQuant q) (n : Nat) (hn : 0 < n) (sc p : K) (hs : 0 < sc) :
    letI := fieldNum K sq
    let c := quantFloor q (p / sc) (1 / ((n : K) + 1 - 1))
    (-(1 / 2) + 1 / ((n : K) + 1 - 1) * (c : K)) * sc ≤ p ∧ p < (-(1 / 2) + 1 / ((n : K) + 1 - 1) * ((c : K) + 1)) * sc := by
  simp only [quantFloor, lit_half]
  have hn' : (0 : K) < (n : K) := by exact_mod_cast hn
  have hu : (n : K) + 1 - 1 = n := by ring
  rw [hu]
  set y := (p / sc + 1 / 2) / (1 / (n : K)) with hy
  have h1 := hq.floor_le y
  have h2 := hq.lt_floor y
  have hy' : y = (p / sc + 1 / 2) * n := by rw [hy]; field_simp
  have hp : p = p / sc * sc := by field_simp
  set c : K := ((q.floor y : Int) : K)
  have e1 : (-(1 / 2) + 1 / (n : K) * c) * sc = (c / n - 1 / 2) * sc := by ring
  have e2 : (-(1 / 2) + 1 / (n : K) * (c + 1)) * sc = ((c + 1) / n - 1 / 2) * sc := by ring
  rw [e1, e2]
  have h3 : c / n ≤ p / sc + 1 / 2 := by rw [div_le_iff₀ hn']; linarith
  have h4 : p / sc + 1 / 2 < (c + 1) / n := by rw [lt_div_iff₀ hn']; linarith
  constructor
  · calc (c / n - 1 / 2) * sc ≤ (p / sc) * sc := mul_le_mul_of_nonneg_right (by linarith) (le_of_lt hs)
      _ = p := hp.symm
  · calc p = (p / sc) * sc := hp
      _ < ((c + 1) / n - 1 / 2) * sc := mul_lt_mul_of_pos_right (by linarith) hs

/-- The cell computed by `unclamped_cell_at_point` contains the point (closed rectangle): the DDA invariant holds at the
start of the walk, at `t = 0`, also for a point exactly on a grid line or a grid point (it is then on the low side of
its cell). -/
theorem cellAtPoint_contains (q : Quant K) (hq : LawfulQuant q) (h : HF3 K) (hi : 0 < h.ni) (hj : 0 < h.nj)
    (hsx : 0 < h.scale.x) (hsz : 0 < h.scale.z) (p : V3 K) :
    InCell sq q h (@cellAtPoint K (fieldNum K sq) q h p) p.x p.z := by
  have hx := quant_contains sq q hq h.nj hj h.scale.x p.x hsx
  have hz := quant_contains sq q hq h.ni hi h.scale.z p.z hsz
  simp only [InCell, XL, ZL, cellAtPoint, signedXAt, signedZAt, unitCellWidth, unitCellHeight, hq.ofInt_eq, lit_neg_half]
  simp only [unitCellWidth, unitCellHeight, hq.ofInt_eq] at hx hz
  push_cast at hx hz ⊢
  exact ⟨⟨hx.1, le_of_lt hx.2⟩, ⟨hz.1, le_of_lt hz.2⟩⟩

/-- a step that goes on moves the cell by the `cellMove` of its boundary times (any scalar type) -/
theorem stepWith_cont_cell {K : Type} [Num K] (h : HF3 K) (d : V3 K) (maxToi tx tz : K) (s s' : St)
    (hstep : stepWith h d maxToi tx tz s = .cont s') :
    ∃ di dj : Int, cellMove d tx tz = some (di, dj) ∧ s'.cell = (s.cell.1 + di, s.cell.2 + dj) ∧
      s'.ri = (s.ri.1 + di, s.ri.2 + di) ∧ s'.rj = (s.rj.1 + dj, s.rj.2 + dj) := by
  unfold stepWith at hstep
  split at hstep
  · cases hstep
  · split at hstep
    · cases hstep
    · rename_i di dj hcm
      refine ⟨di, dj, hcm, ?_⟩
      split at hstep
      · cases hstep
      · simp only at hstep
        split at hstep
        · cases hstep
        · injection hstep with hstep
          subst hstep
          exact ⟨rfl, rfl, rfl⟩

/-- **The DDA invariant** (both velocity components non-zero).  If the centre ray point is in the closed rectangle of the
current cell at a time `t ≥ 0` and the loop goes on (`.cont`), then with `t' = min toi_x toi_z`: `t ≤ t'`, the point stays in
the old cell during `[t, t']`, and at `t'` it is in the closed rectangle of the new cell.  So the walk visits the cells of
the centre ray in order and never jumps over one. -/
theorem walkStep_tracks_ray (q : Quant K) (hq : LawfulQuant q) (h : HF3 K) (hi : 0 < h.ni) (hj : 0 < h.nj)
    (hsx : 0 < h.scale.x) (hsz : 0 < h.scale.z) (o d : V3 K) (maxToi : K) (hx : d.x ≠ 0) (hz : d.z ≠ 0)
    (s s' : St) (t : K) (ht : 0 ≤ t) (hin : InCell sq q h s.cell (o.x + t * d.x) (o.z + t * d.z))
    (hstep : @walkStep K (fieldNum K sq) q h o d maxToi s = .cont s') :
    letI := fieldNum K sq
    let t' := min (boundaryTime (XL sq q h) s.cell.2 o.x d.x) (boundaryTime (ZL sq q h) s.cell.1 o.z d.z)
    t ≤ t' ∧ (∀ u, t ≤ u → u ≤ t' → InCell sq q h s.cell (o.x + u * d.x) (o.z + u * d.z)) ∧
      InCell sq q h s'.cell (o.x + t' * d.x) (o.z + t' * d.z) := by
  have hwx : (0 : K) < 1 / (h.nj : K) * h.scale.x := by
    have : (0 : K) < (h.nj : K) := by exact_mod_cast hj
    positivity
  have hwz : (0 : K) < 1 / (h.ni : K) * h.scale.z := by
    have : (0 : K) < (h.ni : K) := by exact_mod_cast hi
    positivity
  obtain ⟨ax1, ax2, ax3⟩ := axis_tracks sq (XL sq q h) _ hwx (XL_succ sq q hq h) s.cell.2 o.x d.x t hx hin.1
  obtain ⟨az1, az2, az3⟩ := axis_tracks sq (ZL sq q h) _ hwz (ZL_succ sq q hq h) s.cell.1 o.z d.z t hz hin.2
  set rx := @boundaryTime K (fieldNum K sq) (XL sq q h) s.cell.2 o.x d.x with hrx
  set rz := @boundaryTime K (fieldNum K sq) (ZL sq q h) s.cell.1 o.z d.z with hrz
  have hrx0 : max rx 0 = rx := max_eq_left (le_trans ht ax1)
  have hrz0 : max rz 0 = rz := max_eq_left (le_trans ht az1)
  obtain ⟨di, dj, hcm, -, hdj, hdi⟩ := cellMove_clamped_moves sq d rx rz hx hz
  rw [hrx0, hrz0] at hdj hdi
  -- the new cell
  have hcell : s'.cell = (s.cell.1 + di, s.cell.2 + dj) := by
    obtain ⟨di', dj', hcm', hc, -, -⟩ := @stepWith_cont_cell K (fieldNum K sq) h d maxToi _ _ s s' hstep
    have : some (di', dj') = some (di, dj) := by rw [← hcm', ← hcm]; rfl
    injection this with this
    injection this with e1 e2
    rw [hc, e1, e2]
  refine ⟨le_min ax1 az1, ?_, ?_⟩
  · intro u hu1 hu2
    exact ⟨ax2 u hu1 (le_trans hu2 (min_le_left _ _)), az2 u hu1 (le_trans hu2 (min_le_right _ _))⟩
  · rw [hcell]
    simp only [InCell]
    rcases lt_trichotomy rx rz with hlt | heq | hgt
    · have e1 : dj = sgnI d.x := by rw [hdj, if_pos (le_of_lt hlt)]
      have e2 : di = 0 := by rw [hdi, if_neg (not_le.2 hlt)]
      rw [e1, e2, min_eq_left (le_of_lt hlt), add_zero]
      exact ⟨ax3, az2 rx ax1 (le_of_lt hlt)⟩
    · have e1 : dj = sgnI d.x := by rw [hdj, if_pos (le_of_eq heq)]
      have e2 : di = sgnI d.z := by rw [hdi, if_pos (le_of_eq heq.symm)]
      rw [e1, e2, min_eq_left (le_of_eq heq)]
      refine ⟨ax3, ?_⟩
      rw [heq]; exact az3
    · have e1 : dj = 0 := by rw [hdj, if_neg (not_le.2 hgt)]
      have e2 : di = sgnI d.z := by rw [hdi, if_pos (le_of_lt hgt)]
      rw [e1, e2, min_eq_right (le_of_lt hgt), add_zero]
      exact ⟨ax2 rz az1 (le_of_lt hgt), az3⟩

end C06
