import ParryModel.Proto
import ParryModel.C06.Model
import ParryModel.C06.Cull
import ParryModel.C06.DriverW
/-!
C06 protocol handlers: model evaluation at `Float` (bit-exact against the harness) and exact-`Rat` oracles that
re-judge the implementation's output against the property, independently of the model functions.
-/
namespace C06
open Model Model.SC Proto

/-! ### parsing / printing -/
def popts : P (Opts Float) := do
  let m ← pf; let t ← pf; let s ← pbool; let c ← pbool; pure ⟨m, t, s, c⟩

def statusCode : Status → Nat
  | .outOfIterations => 0 | .converged => 1 | .failed => 2 | .penetrating => 3
def statusOf (n : Nat) : Status :=
  match n with | 0 => .outOfIterations | 1 => .converged | 2 => .failed | _ => .penetrating

def fhit3 (h : Hit (V3 Float) Float) : String :=
  s!"{ff h.toi} {fv3 h.w1} {fv3 h.w2} {fv3 h.n1} {fv3 h.n2} {statusCode h.status}"
def fhit2 (h : Hit (V2 Float) Float) : String :=
  s!"{ff h.toi} {fv2 h.w1} {fv2 h.w2} {fv2 h.n1} {fv2 h.n2} {statusCode h.status}"
def fohit3 : Option (Hit (V3 Float) Float) → String
  | none => "none" | some h => "some " ++ fhit3 h
def fohit2 : Option (Hit (V2 Float) Float) → String
  | none => "none" | some h => "some " ++ fhit2 h

def pov3 : P (V3 Float) := do let x ← pfo; let y ← pfo; let z ← pfo; pure ⟨x, y, z⟩
def pov2 : P (V2 Float) := do let x ← pfo; let y ← pfo; pure ⟨x, y⟩
def phit3 (pv : P (V3 Float)) (pfl : P Float) : P (Hit (V3 Float) Float) := do
  let t ← pfl; let w1 ← pv; let w2 ← pv; let n1 ← pv; let n2 ← pv; let s ← pnat; pure ⟨t, w1, w2, n1, n2, statusOf s⟩
def phit2 (pv : P (V2 Float) ) (pfl : P Float) : P (Hit (V2 Float) Float) := do
  let t ← pfl; let w1 ← pv; let w2 ← pv; let n1 ← pv; let n2 ← pv; let s ← pnat; pure ⟨t, w1, w2, n1, n2, statusOf s⟩
/-- implementation output `none` | `some <hit>` -/
def pohit3 : P (Option (Hit (V3 Float) Float)) := do
  let t ← tok
  if t = "none" then pure none else if t = "some" then (do let h ← phit3 pov3 pfo; pure (some h)) else failure
def pohit2 : P (Option (Hit (V2 Float) Float)) := do
  let t ← tok
  if t = "none" then pure none else if t = "some" then (do let h ← phit2 pov2 pfo; pure (some h)) else failure

def finiteHit3 (h : Hit (V3 Float) Float) : Bool :=
  FloatIO.isFinite h.toi && finite3 h.w1 && finite3 h.w2 && finite3 h.n1 && finite3 h.n2
def finite2 (v : V2 Float) : Bool := FloatIO.isFinite v.x && FloatIO.isFinite v.y
def finiteHit2 (h : Hit (V2 Float) Float) : Bool :=
  FloatIO.isFinite h.toi && finite2 h.w1 && finite2 h.w2 && finite2 h.n1 && finite2 h.n2

def withOut {α} (p : P α) (out : List String) (k : α → String) : String :=
  match out with
  | "panic" :: _ => "fail panic"
  | _ => match run p out with
    | some a => k a
    | none => "fail unparsable-output"

/-! ### exact helpers -/
def tol5 : Rat := 1 / 100000
def tol6 : Rat := 1 / 1000000
def rmax (a b : Rat) : Rat := if a < b then b else a
/-- `|a - b| ≤ tol·scale` -/
def near (a b tol scale : Rat) : Bool := rabs (a - b) ≤ tol * scale

/-- quadratic `|d + s v|² - R²` evaluated exactly -/
def quad3 (d v : V3 Rat) (R s : Rat) : Rat := ((d.add (v.smul s)).normSq) - R * R
def quad2 (d v : V2 Rat) (R s : Rat) : Rat := ((d.add (v.smul s)).normSq) - R * R

/-- sample times strictly before `t`: `t·(1 - 2^-k)`, `k = 1..12`, and `0` -/
def pow2 (e : Int) : Rat := if e ≥ 0 then ((2 ^ e.toNat : Nat) : Rat) else 1 / ((2 ^ (-e).toNat : Nat) : Rat)
/-- geometric grid `2^-20 … 2^19` -/
def geoGrid : List Rat := (List.range 40).map fun (k : Nat) => pow2 ((k : Int) - 20)
def earlier (t : Rat) : List Rat := 0 :: (List.range 12).map fun (k : Nat) => t * (1 - 1 / ((2 ^ (k + 1) : Nat) : Rat))
/-- 33 sample times of `[0, m]` -/
def grid (m : Rat) : List Rat := (List.range 33).map fun (k : Nat) => m * (k : Rat) / 32

/-- Oracle for `ray_toi_with_ball`, by the definition of "first parameter at which the point is in the ball":
`q(s) = |o + s·dir - c|² - r²`.  `scale` makes the tolerance relative to the magnitudes involved. -/
def rayBallOracle (q : Rat → Rat) (sc : Rat) (solid : Bool) (zeroDir : Bool) (inside : Bool) (res : Option Float) : String :=
  let tolq := tol6 * sc
  if zeroDir && !solid then "skip zero-direction-non-solid (C04 domain)" else
  match res with
  | none =>
    if inside then "fail inside-flag-without-hit" else
    -- no hit: the point must stay outside on a wide range of sample times (geometric grid)
    let ts : List Rat := 0 :: geoGrid
    match ts.filter (fun s => q s < -tolq) with
    | [] => "pass"
    | s :: _ => s!"fail none-but-inside-at s={s} q={q s}"
  | some t =>
    if !FloatIO.isFinite t then "fail nonfinite-toi" else
    let T := Proto.q t
    if T < 0 then "fail negative-toi" else
    if inside then
      -- started inside (or on) the ball
      if q 0 > tolq then s!"fail inside-flag-but-outside q0={q 0}" else
      if solid then (if T = 0 then "pass" else "fail solid-inside-toi-nonzero")
      else if rabs (q T) ≤ tolq * (1 + T * T) * 1000 then "pass" else s!"fail exit-point-not-on-sphere q={q T}"
    else
      if q 0 < -tolq then s!"fail outside-flag-but-inside q0={q 0}" else
      if rabs (q T) > tolq * (1 + T * T) * 1000 then s!"fail hit-point-not-on-sphere q={q T}" else
      match (earlier T).filter (fun s => s < T ∧ q s < -tolq) with
      | [] => "pass"
      | s :: _ => s!"fail earlier-contact s={s} q={q s}"

def vmax3 (v : V3 Rat) : Rat := rmax (rabs v.x) (rmax (rabs v.y) (rabs v.z))
def vmax2 (v : V2 Rat) : Rat := rmax (rabs v.x) (rabs v.y)

/-! ### frames: 2-D data embedded in 3-D (`z = 0`), rotations as closures -/

structure Frame where
  rot : V3 Rat → V3 Rat
  invRot : V3 Rat → V3 Rat
  t : V3 Rat
def Frame.act (f : Frame) (p : V3 Rat) : V3 Rat := (f.rot p).add f.t
def Frame.invAct (f : Frame) (p : V3 Rat) : V3 Rat := f.invRot (p.sub f.t)
def frame3 (m : Iso3 Float) : Frame := let M := qiso3 m; ⟨M.rot, M.invRot, M.t⟩
def e2 (v : V2 Rat) : V3 Rat := ⟨v.x, v.y, 0⟩
def frame2 (m : Iso2 Float) : Frame :=
  let M := qiso2 m
  ⟨fun v => let r := M.rot ⟨v.x, v.y⟩; ⟨r.x, r.y, v.z⟩, fun v => let r := M.invRot ⟨v.x, v.y⟩; ⟨r.x, r.y, v.z⟩, e2 M.t⟩
/-- inverse frame and composition `a⁻¹ ∘ b`, computed from the closures -/
def Frame.inverse (f : Frame) : Frame := ⟨f.invRot, f.rot, f.invRot f.t.neg⟩
def Frame.invMul (a b : Frame) : Frame := ⟨fun v => a.invRot (b.rot v), fun v => b.invRot (a.rot v), a.invRot (b.t.sub a.t)⟩
def Frame.unitOk (f : Frame) : Bool :=
  -- the rotation part must be a rotation up to rounding (domain: unit complex / quaternion)
  let ex := f.rot ⟨1, 0, 0⟩; let ey := f.rot ⟨0, 1, 0⟩
  rabs (ex.normSq - 1) ≤ tol6 / 1000 && rabs (ey.normSq - 1) ≤ tol6 / 1000 && rabs (ex.dot ey) ≤ tol6 / 1000

structure RHit where
  toi : Rat
  w1 : V3 Rat
  w2 : V3 Rat
  n1 : V3 Rat
  n2 : V3 Rat
  status : Nat
def rhit3 (h : Hit (V3 Float) Float) : RHit := ⟨q h.toi, q3 h.w1, q3 h.w2, q3 h.n1, q3 h.n2, statusCode h.status⟩
def rhit2 (h : Hit (V2 Float) Float) : RHit := ⟨q h.toi, e2 (q2 h.w1), e2 (q2 h.w2), e2 (q2 h.n1), e2 (q2 h.n2), statusCode h.status⟩
def RHit.swapped (h : RHit) : RHit := ⟨h.toi, h.w2, h.w1, h.n2, h.n1, h.status⟩

structure ROpts where
  maxToi : Rat
  target : Rat
  stop : Bool
  cig : Bool
def ropts (o : Opts Float) : ROpts := ⟨q o.maxToi, q o.target, o.stop, o.cig⟩
def optsOk (o : Opts Float) : Bool :=
  FloatIO.isFinite o.maxToi && FloatIO.isFinite o.target && decide (0 ≤ q o.target) && decide (0 < q o.maxToi)

def vnear (a b : V3 Rat) (tol : Rat) : Bool := (a.sub b).normSq ≤ tol * tol
def normAbs (v : V3 Rat) : Rat := rmax (rabs v.x) (rmax (rabs v.y) (rabs v.z))
/-- the sample window used for `None` verdicts: `[0,max]` (33 points) and, for a huge `max`, a geometric grid -/
def noneTimes (m : Rat) : List Rat :=
  if m > 1000000 then grid 1000000 ++ geoGrid else grid m

/-! ### ball/ball oracle (independent of the model: the exact quadratic and the definitions) -/

def ballBallOracle (f : Frame) (v : V3 Rat) (r1 r2 : Rat) (o : ROpts) (res : Option RHit) : String :=
  if !f.unitOk then "skip non-unit-rotation" else
  if r1 < 0 ∨ r2 < 0 then "skip negative-radius" else
  let rsum := r1 + r2 + o.target
  let d := fun (s : Rat) => f.t.add (v.smul s)           -- centre of ball 2 seen from ball 1 at time s
  let qf := fun (s : Rat) => (d s).normSq - rsum * rsum
  let dq := fun (s : Rat) => (d s).dot v
  let sc := 1 + f.t.normSq + rsum * rsum
  let tolq := tol6 * sc
  match res with
  | none =>
    match (noneTimes o.maxToi).filter (fun s => qf s < -(tolq * (1 + s * s * v.normSq))) with
    | [] => "pass"
    | s :: _ =>
      if !o.stop then
        -- a discarded start-up contact: first contact before 1e-5 and not approaching there
        match ((0 : Rat) :: grid (1 / 100000)).filter (fun s => qf s ≤ tolq) with
        | [] => s!"fail none-but-contact-at s={s}"
        | s0 :: _ => if dq s0 ≥ -tolq then "pass" else s!"fail discarded-approaching-contact s={s0}"
      else s!"fail none-but-contact-at s={s}"
  | some h =>
    let T := h.toi
    if T < 0 then "fail negative-toi" else
    if T > o.maxToi then "fail toi-above-max" else
    let scT := sc + T * T * v.normSq
    let tolT := tol6 * scT
    -- status
    let pen := h.status = 3
    if h.status ≠ 3 ∧ h.status ≠ 1 then "fail unexpected-status" else
    if pen ∧ qf 0 > tolq then "fail status-penetrating-but-apart" else
    if !pen ∧ qf 0 < -tolq then "fail status-converged-but-initially-within-target" else
    if pen ∧ T ≠ 0 then "fail penetrating-with-nonzero-toi" else
    if !pen ∧ rabs (qf T) > tolT * 1000 then s!"fail not-touching-at-toi q={qf T}" else
    match (earlier T).filter (fun s => s < T ∧ qf s < -tolT) with
    | s :: _ => s!"fail earlier-contact s={s}"
    | [] =>
    if !o.stop ∧ T < 1 / 100000 ∧ dq T > tolT then "fail kept-separating-contact" else
    -- normals: unit, opposite
    if rabs (h.n1.normSq - 1) > tol6 then "fail normal1-not-unit" else
    if rabs (h.n2.normSq - 1) > tol6 then "fail normal2-not-unit" else
    if !vnear (f.rot h.n2) h.n1.neg tol6 then "fail normals-not-opposite" else
    -- normal1 points from centre 1 to centre 2 at the time of impact (when they do not coincide)
    let D := d T
    if D.normSq > tol6 * tol6 ∧ (h.n1.dot D < 0 ∨ (h.n1.dot D) * (h.n1.dot D) < (1 - tol6) * D.normSq) then "fail normal1-not-along-centres" else
    -- witnesses on the spheres along the normals
    if !vnear h.w1 (h.n1.smul r1) (tol6 * (1 + r1)) then "fail witness1-not-on-sphere1" else
    if !vnear h.w2 (h.n2.smul r2) (tol6 * (1 + r2)) then "fail witness2-not-on-sphere2" else
    "pass"

/-! ### half-space / support-map oracle -/

inductive RSM where
  | ball (r : Rat)
  | cuboid (he : V3 Rat)

def RSM.corners : RSM → List (V3 Rat)
  | .ball _ => [⟨0, 0, 0⟩]
  | .cuboid he => [he.x, -he.x].flatMap fun x => [he.y, -he.y].flatMap fun y => [he.z, -he.z].map fun z => ⟨x, y, z⟩
def RSM.size : RSM → Rat
  | .ball r => r
  | .cuboid he => normAbs he
def lmin (l : List Rat) : Rat := l.foldl (fun a b => if b < a then b else a) (l.headD 0)

/-- signed distance of the (unmoved) shape 2 to the plane `n·p = 0`, by brute force over vertices / centre−radius -/
def RSM.depth (s : RSM) (f : Frame) (n : V3 Rat) : Rat :=
  match s with
  | .ball r => n.dot f.t - r
  | .cuboid _ => lmin (s.corners.map fun c => n.dot (f.act c))
/-- is the local point `p` in the shape (tolerance `t`)? -/
def RSM.memTol (s : RSM) (p : V3 Rat) (t : Rat) : Bool :=
  match s with
  | .ball r => p.normSq ≤ (r + t) * (r + t)
  | .cuboid he => rabs p.x ≤ he.x + t && rabs p.y ≤ he.y + t && rabs p.z ≤ he.z + t

def halfspaceOracle (f : Frame) (v n : V3 Rat) (s : RSM) (o : ROpts) (nExact : Bool) (res : Option RHit) : String :=
  if !f.unitOk then "skip non-unit-rotation" else
  if rabs (n.normSq - 1) > tol6 / 1000 then "skip non-unit-normal" else
  let d0 := s.depth f n
  let nv := n.dot v
  let g := fun (t : Rat) => d0 + t * nv - o.target       -- signed gap minus target at time t (exactly linear)
  let sc := 1 + normAbs f.t + s.size + o.target
  match res with
  | none =>
    if !o.stop ∧ nv > -(tol6 * (1 + normAbs v)) then "pass" else
    let m := if o.maxToi > 1000000 then 1000000 else o.maxToi
    let tl := tol6 * (sc + m * rabs nv)
    if g 0 < -tl ∨ g m < -tl then s!"fail none-but-contact g0={g 0} gmax={g m}" else "pass"
  | some h =>
    let T := h.toi
    if T < 0 then "fail negative-toi" else
    if T > o.maxToi then "fail toi-above-max" else
    let tl := tol6 * (sc + T * normAbs v)
    if !o.stop ∧ nv > tol6 * (1 + normAbs v) then "fail kept-separating-cast" else
    let pen := h.status = 3
    if h.status ≠ 3 ∧ h.status ≠ 1 then "fail unexpected-status" else
    if pen ∧ g 0 > tl then "fail status-penetrating-but-apart" else
    if !pen ∧ g 0 < -tl then "fail status-converged-but-initially-within-target" else
    if pen ∧ T ≠ 0 then "fail penetrating-with-nonzero-toi" else
    if !pen ∧ rabs (g T) > tl then s!"fail not-at-target-at-toi g={g T}" else
    match (earlier T).filter (fun t => t < T ∧ g t < -tl) with
    | t :: _ => s!"fail earlier-contact s={t}"
    | [] =>
    -- normals
    if nExact ∧ (h.n1.x ≠ n.x ∨ h.n1.y ≠ n.y ∨ h.n1.z ≠ n.z) then "fail normal1-is-not-the-plane-normal" else
    if !vnear h.n1 n tol6 then "fail normal1-is-not-the-plane-normal" else
    if rabs (h.n2.normSq - 1) > tol6 then "fail normal2-not-unit" else
    if !vnear (f.rot h.n2) h.n1.neg tol6 then "fail normals-not-opposite" else
    -- witness 2: a deepest point of shape 2; witness 1: its projection on the plane at the time of impact
    if !s.memTol h.w2 tl then "fail witness2-not-in-shape2" else
    let W2 := f.act h.w2
    if rabs (n.dot W2 - d0) > tl then s!"fail witness2-not-deepest" else
    if rabs (n.dot h.w1) > tl then "fail witness1-not-on-plane" else
    let W2T := W2.add (v.smul T)
    if !vnear (W2T.sub (n.smul (n.dot W2T))) h.w1 tl then "fail witness1-not-projection-of-witness2" else
    "pass"

/-! ### shapes of the free function / end-to-end runs -/

inductive FShape where
  | ball (r : Float)
  | cuboid (he : V3 Float)      -- 2-D: z = 0
  | halfspace (n : V3 Float)
  | other (coords : List Float)

def pfl' : Nat → P (List Float)
  | 0 => pure []
  | k+1 => do let x ← pf; let xs ← pfl' k; pure (x :: xs)
def pnats : Nat → P (List Nat)
  | 0 => pure []
  | k+1 => do let x ← pnat; let xs ← pnats k; pure (x :: xs)
def pv (dim : Nat) : P (V3 Float) := if dim = 3 then pv3 else (do let v ← pv2; pure ⟨v.x, v.y, 0.0⟩)
/-- simple shapes, plus (for the oracle-only runs) composites: only an overall size is kept for those -/
def pshapeN (dim : Nat) : Nat → P FShape
  | 0 => failure
  | fuel + 1 => do
    let t ← tok
    match t with
    | "b" => do let r ← pf; pure (.ball r)
    | "c" => do let he ← pv dim; pure (.cuboid he)
    | "h" => do let n ← pv dim; pure (.halfspace n)
    | "p" => do let a ← pv dim; let b ← pv dim; let r ← pf; pure (.other [a.x, a.y, a.z, b.x, b.y, b.z, r])
    | "t" => do let a ← pv dim; let b ← pv dim; let c ← pv dim; pure (.other [a.x, a.y, a.z, b.x, b.y, b.z, c.x, c.y, c.z])
    | "s" => do let a ← pv dim; let b ← pv dim; pure (.other [a.x, a.y, a.z, b.x, b.y, b.z])
    | "x" => do let ps ← plist (pv dim); pure (.other (ps.flatMap fun p => [p.x, p.y, p.z]))
    | "hf" =>
      if dim = 3 then do
        let nr ← pnat; let nc ← pnat; let hs ← pfl' (nr * nc); let sc ← pv3
        let ns ← pnat; let _ ← pnats (3 * ns)
        pure (.other ([sc.x, sc.z] ++ hs.map (· * sc.y)))
      else do
        let n ← pnat; let hs ← pfl' n; let sc ← pv2
        let nr ← pnat; let _ ← pnats nr
        pure (.other (sc.x :: hs.map (· * sc.y)))
    | "cp" => do
      let k ← pnat
      let rec go : Nat → P (List Float)
        | 0 => pure []
        | j + 1 => do
          let t ← (if dim = 3 then (do let m ← piso3; pure m.t) else (do let m ← piso2; pure (⟨m.t.x, m.t.y, 0.0⟩ : V3 Float)))
          let g ← pshapeN dim fuel
          let sz : Float := match g with
            | .ball r => r | .cuboid he => Float.sqrt (he.x * he.x + he.y * he.y + he.z * he.z) | .halfspace _ => 0.0
            | .other cs => cs.foldl (fun a c => if a < c.abs then c.abs else a) 0.0
          let rest ← go j
          pure ([t.x.abs + sz, t.y.abs + sz, t.z.abs + sz] ++ rest)
      let cs ← go k
      pure (.other cs)
    | "tm" => do let ps ← plist (pv dim); let nt ← pnat; let _ ← pnats (3 * nt); pure (.other (ps.flatMap fun p => [p.x, p.y, p.z]))
    | "pl" => do let ps ← plist (pv dim); pure (.other (ps.flatMap fun p => [p.x, p.y, p.z]))
    | _ => failure
def pshape (dim : Nat) : P FShape := pshapeN dim 3
def FShape.size : FShape → Rat
  | .ball r => q r
  | .cuboid he => normAbs (q3 he)
  | .halfspace _ => 0
  | .other cs => cs.foldl (fun a c => rmax a (rabs (q c))) 0

def toShape3 : FShape → Option (Shape3 Float)
  | .ball r => some (.ball r) | .cuboid he => some (.cuboid he) | .halfspace n => some (.halfspace n) | .other _ => none
def toShape2 : FShape → Option (Shape2 Float)
  | .ball r => some (.ball r) | .cuboid he => some (.cuboid ⟨he.x, he.y⟩) | .halfspace n => some (.halfspace ⟨n.x, n.y⟩) | .other _ => none

/-- oracle of the free function on the closed-form pairs: convert to the relative frame *exactly* and judge with
the pair's oracle. -/
def freeOracle (f1 f2 : Frame) (v1 v2 : V3 Rat) (g1 g2 : FShape) (o : ROpts) (out : List String) (res : Option (Option RHit)) : String :=
  if !f1.unitOk ∨ !f2.unitOk then "skip non-unit-rotation" else
  let f12 := f1.invMul f2
  let v12 := f1.invRot (v2.sub v1)
  match out, res with
  | ["unsupported"], _ => "skip unsupported-pair"
  | _, none => "fail unparsable-output"
  | _, some r =>
    match g1, g2 with
    | .ball r1, .ball r2 => ballBallOracle f12 v12 (q r1) (q r2) o r
    | .halfspace n, .ball r2 => halfspaceOracle f12 v12 (q3 n) (.ball (q r2)) o true r
    | .halfspace n, .cuboid he => halfspaceOracle f12 v12 (q3 n) (.cuboid (q3 he)) o true r
    | .ball r1, .halfspace n => halfspaceOracle f12.inverse (f12.invRot v12).neg (q3 n) (.ball (q r1)) o true (r.map RHit.swapped)
    | .cuboid he, .halfspace n => halfspaceOracle f12.inverse (f12.invRot v12).neg (q3 n) (.cuboid (q3 he)) o true (r.map RHit.swapped)
    | _, _ => "skip pair-not-closed-form"

/-! ### end-to-end oracle (kind none): the harness ran the real `query::cast_shapes`, then the real `query::distance`
at the returned time, at `toi·(1-2^-k)` and (for `None`) at 33 sample times; this judges those measurements. -/

def pfl (n : Nat) : P (List Float) := match n with
  | 0 => pure []
  | k+1 => do let x ← pfo; let xs ← pfl k; pure (x :: xs)

/-- The distance between two sets is 1-Lipschitz in the relative translation, so along the motion
`|d(s) - d(t)| ≤ |v_rel|·|s - t|` must hold *exactly* for the true distance.  Measurements of the real `query::distance`
that violate it (beyond `slack`) are self-contradictory and cannot serve as an oracle. -/
def lipschitzOk (L slack : Rat) (samples : List (Rat × Rat)) : Bool :=
  let rec go : List (Rat × Rat) → Bool
    | (t1, d1) :: (t2, d2) :: rest => rabs (d1 - d2) ≤ L * rabs (t1 - t2) + slack && go ((t2, d2) :: rest)
    | _ => true
  go samples

def e2eCore (dim : Nat) (sizeScale vrel : Rat) (o : ROpts) (out : List String) : String :=
  let tl := tol5 * sizeScale
  let bad (x : Float) : Bool := !FloatIO.isFinite x
  match out with
  | "panic" :: _ => "fail panic"
  | ["unsupported"] => "skip unsupported-pair"
  | "none" :: rest =>
    match run (do let ds ← pfl 33; let _ ← tok; let d0 ← pfo; pure (ds, d0)) rest with
    | none => "fail unparsable-output"
    | some (ds, d0) =>
      if ds.any bad then "skip distance-unsupported" else
      if !lipschitzOk (2 * vrel) tl ((grid o.maxToi).zip (ds.map q)) then "skip distance-measurements-inconsistent (not 1-Lipschitz along the motion)" else
      if !o.stop ∧ q d0 ≤ o.target + tl then "pass" else
      match ds.filter (fun d => q d < o.target - tl) with
      | [] => "pass"
      | d :: _ =>
        if vrel = 0 then s!"fail none-but-distance-below-target[zero-relative-velocity] d={q d}"
        else s!"fail none-but-distance-below-target d={q d}"
  | "some" :: rest =>
    match run (do let toi ← pfo; let st ← pnat; let dt ← pfo; let ds ← pfl 12
                  let geo ← pfl (4 * dim); let _ ← tok; let d0 ← pfo; pure (toi, st, dt, ds, d0, geo)) rest with
    | none => "fail unparsable-output"
    | some (toi, st, dt, ds, d0, geo) =>
      -- world-space witnesses and normals at the time of impact
      let gv (i : Nat) : V3 Rat :=
        let c (j : Nat) : Rat := q ((geo.drop (i * dim + j)).headD 0.0)
        if dim = 3 then ⟨c 0, c 1, c 2⟩ else ⟨c 0, c 1, 0⟩
      let W1 := gv 0; let W2 := gv 1; let N1 := gv 2; let N2 := gv 3
      let geoVerdict : String :=
        if geo.any bad then "fail nonfinite-witness-or-normal" else
        let gtol := tol5 * sizeScale * 10
        if rabs (N1.normSq - 1) > tol5 ∨ rabs (N2.normSq - 1) > tol5 then "fail normal-not-unit" else
        if !vnear N1 N2.neg (tol5 * 10) then "fail normals-not-opposite" else
        -- the witnesses are `target` apart, along normal1
        let D := W2.sub W1
        -- (a wrong gap ALONG the normal and a tangential slide on parallel features are different failures: only the
        --  second one is the recorded known finding of gjk::directional_distance)
        -- (`wd a b`, appended by the harness: real point-query distances of the two witnesses to their OWN shapes at the time
        --  of impact.  Witnesses that are points of their shapes but not a closest pair are what gjk::directional_distance
        --  produces when it rebuilds them from a stale simplex; witnesses that are off their shapes are a different failure.)
        let onShapes : Bool :=
          match (((out.dropWhile (· ≠ "wd")).drop 1).take 2).filterMap FloatIO.ofHex? with
          | [a, b] => FloatIO.isFinite a && FloatIO.isFinite b && rabs (q a) ≤ gtol && rabs (q b) ≤ gtol
          | _ => false
        if rabs (D.dot N1 - o.target) > gtol then
          (if onShapes ∧ D.dot N1 > o.target then s!"fail witness-gap-along-normal-is-not-target[witnesses-on-their-shapes,not-a-closest-pair] gap·n={D.dot N1} target={o.target}"
           else s!"fail witness-gap-along-normal-is-not-target gap·n={D.dot N1} target={o.target}") else
        if !vnear D (N1.smul o.target) gtol then s!"fail witnesses-not-target-apart-along-normal[tangential-slide] |gap|²={D.normSq}" else "pass"
      if bad toi then "fail nonfinite-toi" else
      if bad dt ∨ ds.any bad ∨ bad d0 then "skip distance-unsupported" else
      let T := q toi
      let tlT := tl + tol5 * T * vrel
      if T < 0 then "fail negative-toi" else
      if T > o.maxToi then "fail toi-above-max" else
      if !lipschitzOk (2 * vrel) tl ((((earlier T).drop 1).zip (ds.map q)) ++ [(T, q dt)]) then "skip distance-measurements-inconsistent (not 1-Lipschitz along the motion)" else
      if st = 0 ∨ st = 2 then "skip fallback-exit-status" else
      if st = 3 then
        if q d0 > o.target + tlT + vrel / 100000 then s!"fail status-penetrating-but-initially-apart d0={q d0}" else
        if T > 1 / 100000 then "fail penetrating-with-late-toi" else "pass"
      else
        if q dt > o.target + tlT then s!"fail still-apart-at-toi d={q dt}" else
        -- without stop_at_penetration a start-up contact that is separating is discarded (per pair of parts for
        -- composites) and a later impact may legitimately be reported while the discarded one is still within target
        if !o.stop ∧ q d0 ≤ o.target + tl then "pass" else
        if q dt < o.target - tlT then s!"fail already-closer-than-target-at-toi d={q dt}" else
        match ds.filter (fun d => q d < o.target - tlT) with
        | d :: _ => s!"fail earlier-contact d={q d}"
        | [] => geoVerdict
  | _ => "fail unparsable-output"

/-- Composite shapes and height fields: "first time of impact" also means *the minimum over the parts*.  The harness
appended the brute-force reduction (`bf none | some t`): the same real cast, same options, pair of parts by pair of parts.
A traversal (BVH best-first search, height-field cell walk) that skips a part shows up here even when the distance samples
are too coarse to see it. -/
def bfToken (tag : String) (out : List String) : Option (Option Rat) :=
  match ((out.dropWhile (· ≠ tag)).drop 1) with
  | "none" :: _ => some none
  | "some" :: t :: _ => (FloatIO.ofHex? t).map fun x => some (q x)
  | _ => none

def bfVerdict (sizeScale vrel : Rat) (o : ROpts) (out : List String) : String :=
  let tl := tol5 * sizeScale
  let res : Option (Option Rat) := match out with
    | "none" :: _ => some none
    | "some" :: t :: _ => (FloatIO.ofHex? t).map fun x => some (q x)
    | _ => none
  let close (a b : Rat) : Bool := rabs (a - b) * vrel ≤ tl + tol5 * b * vrel
  -- the parts' first impact is a genuine crossing (not a grazing tie): shortly after it the real distance is clearly
  -- below the target (exactly 0 = intersecting, for target 0) at two of the three sample times at least
  let realHit : Bool :=
    let ds := (((out.dropWhile (· ≠ "bfd")).drop 1).take 3).filterMap FloatIO.ofHex?
    -- (`bfp`: the distance of the first-hit PAIR of parts alone at six times shortly after its impact.  When present it is
    --  the pair that has to cross: another part dipping below the target a little later — which is all that `bfd`, the
    --  distance of the whole composite, can see — says nothing about whether THIS pair's impact was a crossing or an exact
    --  tie at the target distance, which the broad phase may legitimately resolve either way.)
    let ps := (((out.dropWhile (· ≠ "bfp")).drop 1).take 6).filterMap FloatIO.ofHex?
    let below (l : List Float) : Nat := (l.filter fun d => FloatIO.isFinite d && (q d < o.target - tl ∨ (o.target = 0 ∧ q d = 0))).length
    below ds ≥ 2 ∧ (ps.isEmpty ∨ below ps ≥ 2)
  let inMax (b : Rat) : Bool := b ≤ o.maxToi * (1 - 1 / 1000000) - 1 / 1000000000
  -- `bfl`: the parts cast with the traversal's own frames (what it must reproduce); `bf`: the same casts in world frames
  match bfToken "bfl" out, res with
  | none, _ => "pass"                       -- not a composite run / unsupported
  | _, none => "pass"
  | some none, some none => "pass"
  | some none, some (some T) => s!"fail hit-but-no-pair-of-parts-hits toi={T}"
  | some (some B), some none =>
    if inMax B ∧ realHit then s!"fail none-but-a-pair-of-parts-hits-within-max t={B} max={o.maxToi}" else "pass"
  | some (some B), some (some T) =>
    if (T - B) * vrel > tl + tol5 * B * vrel ∧ realHit then s!"fail later-than-the-first-impact-over-the-parts toi={T} parts={B}" else
    if (B - T) * vrel > tl + tol5 * B * vrel then s!"fail earlier-than-every-pair-of-parts toi={T} parts={B}" else
    -- the two brute-force reductions are the same casts in two frames: they must agree too
    match bfToken "bf" out with
    | some (some W) => if close W B then "pass" else s!"fail part-cast-depends-on-the-frame local={B} world={W}"
    | some none => if inMax B then s!"fail part-cast-depends-on-the-frame local={B} world=none" else "pass"
    | none => "pass"

/-- frame dependence when the traversal agrees with its own parts but both say `None` -/
def frameVerdict (o : ROpts) (out : List String) : String :=
  match bfToken "bfl" out, bfToken "bf" out with
  | some none, some (some W) =>
    if W ≤ o.maxToi * (1 - 1 / 1000000) - 1 / 1000000000 then s!"fail part-cast-depends-on-the-frame local=none world={W}" else "pass"
  | _, _ => "pass"

def e2eOracle (dim : Nat) (sizeScale vrel : Rat) (o : ROpts) (out : List String) : String :=
  let base := e2eCore dim sizeScale vrel o out
  let b := bfVerdict sizeScale vrel o out
  -- a wrong TIME (late / early / missed, by the distance samples) reported by a traversal that reproduces its own parts
  -- exactly, while the same pair of parts cast from world poses gives another time: the primitive cast of that pair
  -- depends on the frame it is evaluated in — that is the failure to name (the samples only show its consequence)
  let timing := ["fail already-closer-than-target-at-toi", "fail earlier-contact", "fail still-apart-at-toi",
                 "fail none-but-distance-below-target d="].any (fun (p : String) => base.startsWith p)
  if base.startsWith "fail" ∧ timing ∧ b.startsWith "fail part-cast-depends-on-the-frame" then s!"{b} ({base.drop 5})" else
  -- the same when both the traversal and its own part casts say `None` while the world-frame cast of a pair hits within max
  let f0 := frameVerdict o out
  if base.startsWith "fail" ∧ timing ∧ f0.startsWith "fail part-cast-depends-on-the-frame" then s!"{f0} ({base.drop 5})" else
  if base.startsWith "fail" then base else
  if b.startsWith "fail" then b else
  let f := frameVerdict o out
  if f.startsWith "fail" then f else base

/-- nonlinear(ω = 0) vs linear, from the same output line -/
def nlOracle (sizeScale vrel : Rat) (o : ROpts) (out : List String) : String :=
  let tl := tol5 * sizeScale
  let lin : Option (Option Rat) := match out with
    | "none" :: _ => some none
    | "some" :: t :: _ => (FloatIO.ofHex? t).map fun x => some (q x)
    | _ => none
  let nlAll := (out.dropWhile (· ≠ "nl")).drop 1
  let nl := nlAll.takeWhile (· ≠ "bfnl")
  let bfnl := ((nlAll.dropWhile (· ≠ "bfnl")).drop 1).takeWhile (· ≠ "cull")
  let cull := (nlAll.dropWhile (· ≠ "cull")).drop 1
  -- composites: the nonlinear cast must equal the minimum of the same nonlinear cast over the pairs of parts
  let nlT : Option (Option Rat) := match nl with
    | ["none"] => some none
    | "some" :: t :: _ => (FloatIO.ofHex? t).map fun x => some (q x)
    | _ => none
  let compV : String := match bfnl, nlT with
    | [], _ => "pass" | ["unsupported"], _ => "pass" | _, none => "pass"
    | ["none"], some none => "pass"
    | ["none"], some (some T) => s!"fail nonlinear-composite-hit-but-no-pair-of-parts-hits toi={T}"
    | ["some", t], some r =>
      match FloatIO.ofHex? t with
      | none => "fail unparsable-output"
      | some t =>
        let B := q t
        match r with
        | none =>
          -- the traversal prunes with the real nonlinear ball/ball cast of the bounding balls; when that very cast, with
          -- the balls correctly placed, denies the impact of the first-hit pair, the miss is the known weakness of the
          -- nonlinear support-map cast and not a traversal error
          if cull = ["none"] then s!"fail nonlinear-none-but-linear-hit (culling ball/ball nonlinear cast of the first-hit pair returns None) t={B}"
          else s!"fail nonlinear-composite-none-but-a-pair-of-parts-hits t={B}"
        | some T =>
          if rabs (T - B) * vrel ≤ tl + tol5 * B * vrel then "pass" else
          if T > B ∧ cull = ["none"] then s!"fail nonlinear-none-but-linear-hit (culling ball/ball nonlinear cast of the first-hit pair returns None; a later pair is reported) toi={T} parts={B}"
          else s!"fail nonlinear-composite-differs-from-the-minimum-over-parts toi={T} parts={B}"
    | _, _ => "fail unparsable-output"
  if compV.startsWith "fail" then compV else
  let isComp := !bfnl.isEmpty
  match lin, nl with
  | _, ["unsupported"] => "skip nonlinear-unsupported"
  | _, ["hang"] => "fail nonlinear-hang (no result within the 2 s watchdog)"
  | _, "panic" :: _ => "fail nonlinear-panic"
  | none, _ => "skip no-linear-result"
  | some none, ["none"] => "pass"
  | some (some TL), ["none"] =>
    -- with stop_at_penetration = false the nonlinear cast runs in its own "directional" mode, whose treatment of a
    -- start-up contact is not the linear one: only casts that hit later than the start-up window are compared
    if !o.stop ∧ TL < 1 / 100000 then "skip directional-mode-start-up-contact" else "fail nonlinear-none-but-linear-hit"
  | some l, "some" :: t :: st :: d :: _ =>
    match FloatIO.ofHex? t, FloatIO.ofHex? d with
    | some t, some d =>
      let T := q t
      if st = "2" ∨ st = "0" then "skip fallback-exit-status" else
      if q d > tl + tol5 * T * vrel then s!"fail nonlinear-still-apart-at-toi d={q d}" else
      match l with
      | none =>
        -- the nonlinear hit has just been confirmed by the distance query (shapes within tolerance of touching at its
        -- time); whether the linear `None` is legitimate is the e2e oracle's business (same inputs).  With relative
        -- motion this is a grazing tie; without, the linear cast must have seen the same standing contact.
        if !o.stop then "skip directional-mode" else
        if vrel = 0 ∧ q d ≤ 0 then "fail nonlinear-hit-but-linear-none[zero-relative-velocity]" else "pass"
      | some TL =>
        if !o.stop ∧ (TL < 1 / 100000 ∨ T < 1 / 100000) then "skip directional-mode-start-up-contact" else
        if rabs (T - TL) * vrel ≤ tl + tol5 * TL * vrel then "pass" else
        -- composite whose nonlinear result equals the minimum over its parts but comes later than the linear impact:
        -- the nonlinear cast of the pair of parts that the linear cast hits first returned None (or later)
        if isComp ∧ T > TL then s!"fail nonlinear-none-but-linear-hit (for the first-hit pair of parts; composite = minimum over parts) nl={T} lin={TL}" else
        s!"fail nonlinear-differs-from-linear nl={T} lin={TL}"
    | _, _ => "skip distance-unsupported"
  | _, _ => "fail unparsable-output"

/-! ### handlers -/

def zero3 (v : V3 Float) : Bool := v.x == 0.0 && v.y == 0.0 && v.z == 0.0
def zero2 (v : V2 Float) : Bool := v.x == 0.0 && v.y == 0.0

def rayOut : P (Bool × Option Float) := do
  let i ← pbool; let t ← tok
  if t = "none" then pure (i, none) else (do let x ← pfo; pure (i, some x))

def pfree3 : P (Iso3 Float × V3 Float × FShape × Iso3 Float × V3 Float × FShape × Opts Float) := do
  let p1 ← piso3; let v1 ← pv3; let g1 ← pshape 3; let p2 ← piso3; let v2 ← pv3; let g2 ← pshape 3; let o ← popts
  pure (p1, v1, g1, p2, v2, g2, o)
def pfree2 : P (Iso2 Float × V2 Float × FShape × Iso2 Float × V2 Float × FShape × Opts Float) := do
  let p1 ← piso2; let v1 ← pv2; let g1 ← pshape 2; let p2 ← piso2; let v2 ← pv2; let g2 ← pshape 2; let o ← popts
  pure (p1, v1, g1, p2, v2, g2, o)

def pfreeOut3 : P (Option RHit) := do let h ← pohit3; pure (h.map rhit3)
def pfreeOut2 : P (Option RHit) := do let h ← pohit2; pure (h.map rhit2)

/-! ### broad-phase box test of the composite cast (`cull3` / `cull2`)

Independent of the model (which follows the code: centre / half-extents / margin / slab loop): the box of the posed shape 2
is recomputed by brute force from its definition (ball: centre ± r; cuboid: min / max over the posed vertices, exact
rotation), and the set of times at which the two boxes are within `target` of each other on EVERY axis — a necessary
condition for the Euclidean distance of anything inside them to be ≤ `target` — is computed by exact interval arithmetic.
The node must be kept whenever that set meets `[0, max]`, and its weight must not exceed the first such time (the best-first
search relies on the weight being a lower bound).  Keeping a node that could have been dropped is not an error. -/
def exactBox (f : Frame) : FShape → Option (V3 Rat × V3 Rat)
  | .ball r => let R := q r; some (f.t.sub ⟨R, R, R⟩, f.t.add ⟨R, R, R⟩)
  | .cuboid he =>
    let H := q3 he
    let vs : List (V3 Rat) := [1, -1].flatMap fun (sx : Rat) => [1, -1].flatMap fun (sy : Rat) => [1, -1].map fun (sz : Rat) =>
      f.act ⟨sx * H.x, sy * H.y, sz * H.z⟩
    match vs with
    | [] => none
    | v :: rest => some (rest.foldl (fun (acc : V3 Rat × V3 Rat) p =>
        (⟨min acc.1.x p.x, min acc.1.y p.y, min acc.1.z p.z⟩, ⟨max acc.2.x p.x, max acc.2.y p.y, max acc.2.z p.z⟩)) (v, v))
  | _ => none

def cullOracle (dim : Nat) (f : Frame) (v : V3 Rat) (g : FShape) (maxToi target : Rat) (lo hi : V3 Rat) (out : List String) : String :=
  if !f.unitOk then "skip non-unit-rotation" else
  if target < 0 ∨ maxToi ≤ 0 then "skip options-outside-domain" else
  match exactBox f g with
  | none => "skip shape-not-modelled"
  | some (blo, bhi) =>
    withOut (do let m ← pbool; let t ← pfo; pure (m, t)) out fun (mask, toiF) =>
      if !FloatIO.isFinite toiF then "fail nonfinite-weight" else
      let toi := q toiF
      let axes : List (Rat × Rat × Rat) :=   -- (L, U, v): t·v must lie in [L, U]
        [(lo.x - bhi.x - target, hi.x - blo.x + target, v.x), (lo.y - bhi.y - target, hi.y - blo.y + target, v.y)] ++
        (if dim = 3 then [(lo.z - bhi.z - target, hi.z - blo.z + target, v.z)] else [])
      let scale : Rat := 1 + normAbs lo + normAbs hi + normAbs blo + normAbs bhi + target
      let tolA := tolDefault * scale
      -- axes without motion: signed room (negative: never within target on that axis)
      let room0 : Rat := (axes.filter fun a => a.2.2 = 0).foldl (fun m a => min m (min (-a.1) a.2.1)) (scale * 4)
      -- axes with motion: the time interval
      let ivs : List (Rat × Rat) := (axes.filter fun a => a.2.2 ≠ 0).map fun a =>
        let t1 := a.1 / a.2.2; let t2 := a.2.1 / a.2.2; (min t1 t2, max t1 t2)
      let t0 := ivs.foldl (fun m i => max m i.1) 0
      let t1 := ivs.foldl (fun m i => min m i.2) maxToi
      -- rounding of the box corners moves an interval end by about tolA / |v|
      let tolT := tolDefault * (1 + rabs t0) + (ivs.zip (axes.filter fun a => a.2.2 ≠ 0)).foldl (fun m ia => max m (tolA / rabs ia.2.2.2)) 0
      if toi < 0 then "fail negative-weight" else
      if room0 ≥ tolA ∧ t1 - t0 ≥ tolT then
        if !mask then s!"fail node-culled-although-the-boxes-come-within-target-distance first-time={t0} target={target}"
        else if toi > t0 + tolT then s!"fail weight-above-the-first-time-within-target weight={toi} first-time={t0}"
        else "pass"
      else if room0 ≤ -tolA ∨ t1 - t0 ≤ -tolT then "pass"     -- nothing is due: the boxes are never within target on [0, max]
      -- a tie within rounding: dropping the node cannot be blamed, but a kept node still needs an admissible weight
      else if mask then (if toi > t0 + tolT then s!"fail weight-above-the-first-time-within-target weight={toi} first-time={t0}" else "pass")
      else "skip tie-within-rounding"

def fiso3 (m : Iso3 Float) : String := s!"{ff m.qi} {ff m.qj} {ff m.qk} {ff m.qw} {fv3 m.t}"
def fiso2 (m : Iso2 Float) : String := s!"{ff m.re} {ff m.im} {fv2 m.t}"

def handler (fn : String) : Option Handler :=
  match fn with
  | "cull3" => some {
      model := fun a => run (do
        let m ← piso3; let v ← pv3; let g ← pshape 3; let mx ← pf; let tg ← pf; let lo ← pv3; let hi ← pv3
        let r : Option (Bool × Float) := match g with
          | .ball r => some (cullBall3 m r ⟨lo, hi⟩ v mx tg)
          | .cuboid he => some (cullCuboid3 m he ⟨lo, hi⟩ v mx tg)
          | _ => none
        pure (match r with | some (k, w) => s!"{fb k} {ff w}" | none => "unmodelled-shape")) a
      oracle := fun a out => match run (do let m ← piso3; let v ← pv3; let g ← pshape 3; let mx ← pf; let tg ← pf; let lo ← pv3; let hi ← pv3; pure (m, v, g, mx, tg, lo, hi)) a with
        | some (m, v, g, mx, tg, lo, hi) =>
          if !(FloatIO.isFinite mx && FloatIO.isFinite tg) then "skip options-outside-domain" else
          cullOracle 3 (frame3 m) (q3 v) g (q mx) (q tg) (q3 lo) (q3 hi) out
        | none => "skip bad-args" }
  | "cull2" => some {
      model := fun a => run (do
        let m ← piso2; let v ← pv2; let g ← pshape 2; let mx ← pf; let tg ← pf; let lo ← pv2; let hi ← pv2
        let r : Option (Bool × Float) := match g with
          | .ball r => some (cullBall2 m r ⟨lo, hi⟩ v mx tg)
          | .cuboid he => some (cullCuboid2 m ⟨he.x, he.y⟩ ⟨lo, hi⟩ v mx tg)
          | _ => none
        pure (match r with | some (k, w) => s!"{fb k} {ff w}" | none => "unmodelled-shape")) a
      oracle := fun a out => match run (do let m ← piso2; let v ← pv2; let g ← pshape 2; let mx ← pf; let tg ← pf; let lo ← pv2; let hi ← pv2; pure (m, v, g, mx, tg, lo, hi)) a with
        | some (m, v, g, mx, tg, lo, hi) =>
          if !(FloatIO.isFinite mx && FloatIO.isFinite tg) then "skip options-outside-domain" else
          cullOracle 2 (frame2 m) (e2 (q2 v)) g (q mx) (q tg) (e2 (q2 lo)) (e2 (q2 hi)) out
        | none => "skip bad-args" }
  | "ray_ball3" => some {
      model := fun a => run (do
        let c ← pv3; let r ← pf; let o ← pv3; let d ← pv3; let solid ← pbool
        let (inside, t) := rayToiWithBall3 c r o d solid
        pure (match t with | none => s!"{fb inside} none" | some t => s!"{fb inside} some {ff t}")) a
      oracle := fun a out => match run (do let c ← pv3; let r ← pf; let o ← pv3; let d ← pv3; let solid ← pbool; pure (c, r, o, d, solid)) a with
        | some (c, r, o, d, solid) =>
          let C := q3 c; let O := q3 o; let D := q3 d; let R := Proto.q r
          let qf := fun s => quad3 (O.sub C) D R s
          let sc := 1 + (O.sub C).normSq + R * R
          withOut rayOut out fun (i, t) => rayBallOracle qf sc solid (zero3 d) i t
        | none => "skip bad-args" }
  | "ray_ball2" => some {
      model := fun a => run (do
        let c ← pv2; let r ← pf; let o ← pv2; let d ← pv2; let solid ← pbool
        let (inside, t) := rayToiWithBall2 c r o d solid
        pure (match t with | none => s!"{fb inside} none" | some t => s!"{fb inside} some {ff t}")) a
      oracle := fun a out => match run (do let c ← pv2; let r ← pf; let o ← pv2; let d ← pv2; let solid ← pbool; pure (c, r, o, d, solid)) a with
        | some (c, r, o, d, solid) =>
          let C := q2 c; let O := q2 o; let D := q2 d; let R := Proto.q r
          let qf := fun s => quad2 (O.sub C) D R s
          let sc := 1 + (O.sub C).normSq + R * R
          withOut rayOut out fun (i, t) => rayBallOracle qf sc solid (zero2 d) i t
        | none => "skip bad-args" }
  | "ballball3" => some {
      model := fun a => run (do
        let m ← piso3; let v ← pv3; let r1 ← pf; let r2 ← pf; let o ← popts
        pure (fohit3 (castBallBall3 m v r1 r2 o))) a
      oracle := fun a out => match run (do let m ← piso3; let v ← pv3; let r1 ← pf; let r2 ← pf; let o ← popts; pure (m, v, r1, r2, o)) a with
        | some (m, v, r1, r2, o) =>
          if !optsOk o then "skip options-outside-domain" else
          withOut pfreeOut3 out fun r => ballBallOracle (frame3 m) (q3 v) (q r1) (q r2) (ropts o) r
        | none => "skip bad-args" }
  | "ballball2" => some {
      model := fun a => run (do
        let m ← piso2; let v ← pv2; let r1 ← pf; let r2 ← pf; let o ← popts
        pure (fohit2 (castBallBall2 m v r1 r2 o))) a
      oracle := fun a out => match run (do let m ← piso2; let v ← pv2; let r1 ← pf; let r2 ← pf; let o ← popts; pure (m, v, r1, r2, o)) a with
        | some (m, v, r1, r2, o) =>
          if !optsOk o then "skip options-outside-domain" else
          withOut pfreeOut2 out fun r => ballBallOracle (frame2 m) (e2 (q2 v)) (q r1) (q r2) (ropts o) r
        | none => "skip bad-args" }
  | "hs_ball3" => some {
      model := fun a => run (do
        let m ← piso3; let v ← pv3; let n ← pv3; let r ← pf; let o ← popts
        pure (fohit3 (castHalfspaceSM3 m v n (.ball r) o))) a
      oracle := fun a out => match run (do let m ← piso3; let v ← pv3; let n ← pv3; let r ← pf; let o ← popts; pure (m, v, n, r, o)) a with
        | some (m, v, n, r, o) =>
          if !optsOk o then "skip options-outside-domain" else
          withOut pfreeOut3 out fun res => halfspaceOracle (frame3 m) (q3 v) (q3 n) (.ball (q r)) (ropts o) true res
        | none => "skip bad-args" }
  | "hs_ball2" => some {
      model := fun a => run (do
        let m ← piso2; let v ← pv2; let n ← pv2; let r ← pf; let o ← popts
        pure (fohit2 (castHalfspaceSM2 m v n (.ball r) o))) a
      oracle := fun a out => match run (do let m ← piso2; let v ← pv2; let n ← pv2; let r ← pf; let o ← popts; pure (m, v, n, r, o)) a with
        | some (m, v, n, r, o) =>
          if !optsOk o then "skip options-outside-domain" else
          withOut pfreeOut2 out fun res => halfspaceOracle (frame2 m) (e2 (q2 v)) (e2 (q2 n)) (.ball (q r)) (ropts o) true res
        | none => "skip bad-args" }
  | "hs_cuboid3" => some {
      model := fun a => run (do
        let m ← piso3; let v ← pv3; let n ← pv3; let he ← pv3; let o ← popts
        pure (fohit3 (castHalfspaceSM3 m v n (.cuboid he) o))) a
      oracle := fun a out => match run (do let m ← piso3; let v ← pv3; let n ← pv3; let he ← pv3; let o ← popts; pure (m, v, n, he, o)) a with
        | some (m, v, n, he, o) =>
          if !optsOk o then "skip options-outside-domain" else
          withOut pfreeOut3 out fun res => halfspaceOracle (frame3 m) (q3 v) (q3 n) (.cuboid (q3 he)) (ropts o) true res
        | none => "skip bad-args" }
  | "hs_cuboid2" => some {
      model := fun a => run (do
        let m ← piso2; let v ← pv2; let n ← pv2; let he ← pv2; let o ← popts
        pure (fohit2 (castHalfspaceSM2 m v n (.cuboid he) o))) a
      oracle := fun a out => match run (do let m ← piso2; let v ← pv2; let n ← pv2; let he ← pv2; let o ← popts; pure (m, v, n, he, o)) a with
        | some (m, v, n, he, o) =>
          if !optsOk o then "skip options-outside-domain" else
          withOut pfreeOut2 out fun res => halfspaceOracle (frame2 m) (e2 (q2 v)) (e2 (q2 n)) (.cuboid (e2 (q2 he))) (ropts o) true res
        | none => "skip bad-args" }
  | "ball_hs3" => some {
      model := fun a => run (do
        let m ← piso3; let v ← pv3; let r ← pf; let n ← pv3; let o ← popts
        pure (fohit3 (castSMHalfspace3 m v (.ball r) n o))) a
      oracle := fun a out => match run (do let m ← piso3; let v ← pv3; let r ← pf; let n ← pv3; let o ← popts; pure (m, v, n, r, o)) a with
        | some (m, v, n, r, o) =>
          if !optsOk o then "skip options-outside-domain" else
          let f := frame3 m
          withOut pfreeOut3 out fun res => halfspaceOracle f.inverse (f.invRot (q3 v)).neg (q3 n) (.ball (q r)) (ropts o) true (res.map RHit.swapped)
        | none => "skip bad-args" }
  | "ball_hs2" => some {
      model := fun a => run (do
        let m ← piso2; let v ← pv2; let r ← pf; let n ← pv2; let o ← popts
        pure (fohit2 (castSMHalfspace2 m v (.ball r) n o))) a
      oracle := fun a out => match run (do let m ← piso2; let v ← pv2; let r ← pf; let n ← pv2; let o ← popts; pure (m, v, n, r, o)) a with
        | some (m, v, n, r, o) =>
          if !optsOk o then "skip options-outside-domain" else
          let f := frame2 m
          withOut pfreeOut2 out fun res => halfspaceOracle f.inverse (f.invRot (e2 (q2 v))).neg (e2 (q2 n)) (.ball (q r)) (ropts o) true (res.map RHit.swapped)
        | none => "skip bad-args" }
  | "cuboid_hs3" => some {
      model := fun a => run (do
        let m ← piso3; let v ← pv3; let he ← pv3; let n ← pv3; let o ← popts
        pure (fohit3 (castSMHalfspace3 m v (.cuboid he) n o))) a
      oracle := fun a out => match run (do let m ← piso3; let v ← pv3; let he ← pv3; let n ← pv3; let o ← popts; pure (m, v, n, he, o)) a with
        | some (m, v, n, he, o) =>
          if !optsOk o then "skip options-outside-domain" else
          let f := frame3 m
          withOut pfreeOut3 out fun res => halfspaceOracle f.inverse (f.invRot (q3 v)).neg (q3 n) (.cuboid (q3 he)) (ropts o) true (res.map RHit.swapped)
        | none => "skip bad-args" }
  | "cuboid_hs2" => some {
      model := fun a => run (do
        let m ← piso2; let v ← pv2; let he ← pv2; let n ← pv2; let o ← popts
        pure (fohit2 (castSMHalfspace2 m v (.cuboid he) n o))) a
      oracle := fun a out => match run (do let m ← piso2; let v ← pv2; let he ← pv2; let n ← pv2; let o ← popts; pure (m, v, n, he, o)) a with
        | some (m, v, n, he, o) =>
          if !optsOk o then "skip options-outside-domain" else
          let f := frame2 m
          withOut pfreeOut2 out fun res => halfspaceOracle f.inverse (f.invRot (e2 (q2 v))).neg (e2 (q2 n)) (.cuboid (e2 (q2 he))) (ropts o) true (res.map RHit.swapped)
        | none => "skip bad-args" }
  | "swapped3" => some {
      model := fun a => run (do let h ← phit3 pv3 pf; pure (fhit3 h.swapped)) a
      oracle := fun a out => match run (phit3 pv3 pf) a with
        | some h => withOut (phit3 pov3 pfo) out fun r =>
            -- roles exchanged, time and status kept: compared field by field, bit for bit
            if fhit3 r = fhit3 ⟨h.toi, h.w2, h.w1, h.n2, h.n1, h.status⟩ then "pass" else "fail fields-not-exchanged"
        | none => "skip bad-args" }
  | "swapped2" => some {
      model := fun a => run (do let h ← phit2 pv2 pf; pure (fhit2 h.swapped)) a
      oracle := fun a out => match run (phit2 pv2 pf) a with
        | some h => withOut (phit2 pov2 pfo) out fun r =>
            if fhit2 r = fhit2 ⟨h.toi, h.w2, h.w1, h.n2, h.n1, h.status⟩ then "pass" else "fail fields-not-exchanged"
        | none => "skip bad-args" }
  | "transform13" => some {
      model := fun a => run (do let h ← phit3 pv3 pf; let m ← piso3; pure (fhit3 (h.transform1By3 m))) a
      oracle := fun a out => match run (do let h ← phit3 pv3 pf; let m ← piso3; pure (h, m)) a with
        | some (h, m) => withOut (phit3 pov3 pfo) out fun r =>
            let f := frame3 m; let H := rhit3 h; let R := rhit3 r
            let t := tol6 / 1000 * (1 + normAbs H.w1 + normAbs f.t)
            if R.toi ≠ H.toi ∨ R.status ≠ H.status then "fail toi-or-status-changed" else
            if !vnear R.w2 H.w2 0 ∨ !vnear R.n2 H.n2 0 then "fail side-2-changed" else
            if !vnear R.w1 (f.act H.w1) t then "fail witness1-not-transformed" else
            if !vnear R.n1 (f.rot H.n1) t then "fail normal1-not-rotated" else "pass"
        | none => "skip bad-args" }
  | "transform12" => some {
      model := fun a => run (do let h ← phit2 pv2 pf; let m ← piso2; pure (fhit2 (h.transform1By2 m))) a
      oracle := fun a out => match run (do let h ← phit2 pv2 pf; let m ← piso2; pure (h, m)) a with
        | some (h, m) => withOut (phit2 pov2 pfo) out fun r =>
            let f := frame2 m; let H := rhit2 h; let R := rhit2 r
            let t := tol6 / 1000 * (1 + normAbs H.w1 + normAbs f.t)
            if R.toi ≠ H.toi ∨ R.status ≠ H.status then "fail toi-or-status-changed" else
            if !vnear R.w2 H.w2 0 ∨ !vnear R.n2 H.n2 0 then "fail side-2-changed" else
            if !vnear R.w1 (f.act H.w1) t then "fail witness1-not-transformed" else
            if !vnear R.n1 (f.rot H.n1) t then "fail normal1-not-rotated" else "pass"
        | none => "skip bad-args" }
  | "free3" => some {
      model := fun a => run (do
        let (p1, v1, g1, p2, v2, g2, o) ← pfree3
        match toShape3 g1, toShape3 g2 with
        | some s1, some s2 => match castShapes3 p1 v1 s1 p2 v2 s2 o with
          | some r => pure (fohit3 r)
          | none => pure "unmodelled-pair"
        | _, _ => pure "unmodelled-pair") a
      oracle := fun a out => match run pfree3 a with
        | some (p1, v1, g1, p2, v2, g2, o) =>
          if !optsOk o then "skip options-outside-domain" else
          freeOracle (frame3 p1) (frame3 p2) (q3 v1) (q3 v2) g1 g2 (ropts o) out (run pfreeOut3 out)
        | none => "skip bad-args" }
  | "free2" => some {
      model := fun a => run (do
        let (p1, v1, g1, p2, v2, g2, o) ← pfree2
        match toShape2 g1, toShape2 g2 with
        | some s1, some s2 => match castShapes2 p1 v1 s1 p2 v2 s2 o with
          | some r => pure (fohit2 r)
          | none => pure "unmodelled-pair"
        | _, _ => pure "unmodelled-pair") a
      oracle := fun a out => match run pfree2 a with
        | some (p1, v1, g1, p2, v2, g2, o) =>
          if !optsOk o then "skip options-outside-domain" else
          freeOracle (frame2 p1) (frame2 p2) (e2 (q2 v1)) (e2 (q2 v2)) g1 g2 (ropts o) out (run pfreeOut2 out)
        | none => "skip bad-args" }
  | "nlpos3" => some {
      model := fun a => run (do
        let s ← piso3; let lc ← pv3; let lv ← pv3; let t ← pf
        pure (fiso3 ((⟨s, lc, lv⟩ : Motion3 Float).positionAtTime t))) a
      oracle := fun a out => match run (do let s ← piso3; let lc ← pv3; let lv ← pv3; let t ← pf; pure (s, lc, lv, t)) a with
        | some (s, lc, lv, t) => withOut (do let i ← pfo; let j ← pfo; let k ← pfo; let w ← pfo; let tr ← pov3; pure (i, j, k, w, tr)) out fun (i, j, k, w, tr) =>
            -- zero angular velocity: same rotation, translation advanced by linvel·t (whatever the local centre)
            let S := qiso3 s; let T := q t
            let sc := 1 + normAbs S.t + normAbs (q3 lc) + normAbs (q3 lv) * rabs T
            if !FloatIO.isFinite i ∨ !finite3 tr then "fail nonfinite-output" else
            if rabs (q i - S.qi) > tol6 / 1000 ∨ rabs (q j - S.qj) > tol6 / 1000 ∨ rabs (q k - S.qk) > tol6 / 1000 ∨ rabs (q w - S.qw) > tol6 / 1000 then "fail rotation-changed" else
            if !vnear (q3 tr) (S.t.add ((q3 lv).smul T)) (tol6 / 1000 * sc) then "fail translation-not-start-plus-linvel-t" else "pass"
        | none => "skip bad-args" }
  | "nlpos2" => some {
      model := fun a => run (do
        let s ← piso2; let lc ← pv2; let lv ← pv2; let t ← pf
        pure (fiso2 ((⟨s, lc, lv⟩ : Motion2 Float).positionAtTime t))) a
      oracle := fun a out => match run (do let s ← piso2; let lc ← pv2; let lv ← pv2; let t ← pf; pure (s, lc, lv, t)) a with
        | some (s, lc, lv, t) => withOut (do let re ← pfo; let im ← pfo; let tr ← pov2; pure (re, im, tr)) out fun (re, im, tr) =>
            let S := qiso2 s; let T := q t
            let sc := 1 + normAbs (e2 S.t) + normAbs (e2 (q2 lc)) + normAbs (e2 (q2 lv)) * rabs T
            if !FloatIO.isFinite re ∨ !finite2 tr then "fail nonfinite-output" else
            if rabs (q re - S.re) > tol6 / 1000 ∨ rabs (q im - S.im) > tol6 / 1000 then "fail rotation-changed" else
            if !vnear (e2 (q2 tr)) (e2 (S.t.add ((q2 lv).smul T))) (tol6 / 1000 * sc) then "fail translation-not-start-plus-linvel-t" else "pass"
        | none => "skip bad-args" }
  | "e2e3" => some {
      model := fun _ => some "oracle-only"
      oracle := fun a out => match run pfree3 a with
        | some (p1, v1, g1, p2, v2, g2, o) =>
          if !optsOk o then "skip options-outside-domain" else
          if !(frame3 p1).unitOk ∨ !(frame3 p2).unitOk then "skip non-unit-rotation" else
          let sz := 1 + g1.size + g2.size + normAbs (q3 p1.t) + normAbs (q3 p2.t) + q o.target
          e2eOracle 3 sz (normAbs ((q3 v2).sub (q3 v1))) (ropts o) out
        | none => "skip bad-args" }
  | "e2e2" => some {
      model := fun _ => some "oracle-only"
      oracle := fun a out => match run pfree2 a with
        | some (p1, v1, g1, p2, v2, g2, o) =>
          if !optsOk o then "skip options-outside-domain" else
          if !(frame2 p1).unitOk ∨ !(frame2 p2).unitOk then "skip non-unit-rotation" else
          let sz := 1 + g1.size + g2.size + normAbs (e2 (q2 p1.t)) + normAbs (e2 (q2 p2.t)) + q o.target
          e2eOracle 2 sz (normAbs (e2 ((q2 v2).sub (q2 v1)))) (ropts o) out
        | none => "skip bad-args" }
  | "nl3" => some {
      model := fun _ => some "oracle-only"
      oracle := fun a out => match run pfree3 a with
        | some (p1, v1, g1, p2, v2, g2, o) =>
          if !optsOk o then "skip options-outside-domain" else
          let sz := 1 + g1.size + g2.size + normAbs (q3 p1.t) + normAbs (q3 p2.t) + q o.target
          nlOracle sz (normAbs ((q3 v2).sub (q3 v1))) (ropts o) out
        | none => "skip bad-args" }
  | "nl2" => some {
      model := fun _ => some "oracle-only"
      oracle := fun a out => match run pfree2 a with
        | some (p1, v1, g1, p2, v2, g2, o) =>
          if !optsOk o then "skip options-outside-domain" else
          let sz := 1 + g1.size + g2.size + normAbs (e2 (q2 p1.t)) + normAbs (e2 (q2 p2.t)) + q o.target
          nlOracle sz (normAbs (e2 ((q2 v2).sub (q2 v1)))) (ropts o) out
        | none => "skip bad-args" }
  | _ => handlerW fn

end C06
