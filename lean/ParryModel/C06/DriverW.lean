import ParryModel.Proto
import ParryModel.C06.Walk
/-!
C06 protocol handler `hfwalk3`: the trace of the cell walk of the 3-D height-field shape cast (which cells are handed to
`hit_triangles`), model at `Float` against the real function run with a recording dispatcher, and an exact-`Rat` oracle
that asks of the implementation's trace: is every cell the moving (loosened) box enters within `[0, max_time_of_impact]`,
while it overlaps the vertical range of the field, in the trace?

args: `ni nj hmin hmax sx sy sz  <iso3 pos12>  vx vy vz  hex hey hez  max_toi target`
(a field of `ni × nj` cells whose heights are `hmin` except one sample `hmax`; shape 2 is a cuboid)
out:  `none` | `cells n i j i j …`
-/
namespace C06
open Model Model.HW Proto

def quantF : Quant Float := ⟨fun x => (Float.floor x).toInt64.toInt, fun x => (Float.ceil x).toInt64.toInt, Float.ofInt⟩
def quantQ : Quant Rat := ⟨Rat.floor, Rat.ceil, fun i => (i : Rat)⟩

/-- `HeightField::with_flags`: the stored box -/
def hfAabb {K} [Num K] (hmin hmax : K) (sc : V3 K) : Aabb3 K :=
  let hs := sc.smul (lit 1 2)
  let a : V3 K := ⟨-hs.x, hmin * sc.y, -hs.z⟩
  let b : V3 K := ⟨hs.x, hmax * sc.y, hs.z⟩
  ⟨a.inf b, a.sup b⟩

structure WArgs where
  ni : Nat
  nj : Nat
  hmin : Float
  hmax : Float
  sc : V3 Float
  m : Iso3 Float
  v : V3 Float
  he : V3 Float
  mx : Float
  tg : Float

def pwargs : P WArgs := do
  let ni ← pnat; let nj ← pnat; let hmin ← pf; let hmax ← pf; let sc ← pv3; let m ← piso3; let v ← pv3; let he ← pv3
  let mx ← pf; let tg ← pf; pure ⟨ni, nj, hmin, hmax, sc, m, v, he, mx, tg⟩

def fcells (l : List (Int × Int)) : String :=
  l.foldl (fun s c => s ++ s!" {c.1} {c.2}") s!"cells {l.length}"

def walkModel (a : WArgs) : String :=
  let h : HF3 Float := ⟨a.ni, a.nj, a.sc, hfAabb a.hmin a.hmax a.sc⟩
  let b := (cuboidAabb a.he a.m).loosened a.tg
  match walk quantF false h b a.v a.mx 100000 with
  | .noBoxHit => "none"
  | .done out => fcells out
  | .fuelExhausted _ => "fuel-exhausted"
  | .signumOfZero _ => "signum-of-zero"

/-- open interval of times at which `[lo + t v, hi + t v]` overlaps `[a, b]` by more than `eps`: `none` = empty,
`some (l, u)` with `none` bounds = unbounded -/
def overlapTimes (lo hi v a b eps : Rat) : Option (Option Rat × Option Rat) :=
  -- lo + t v < b - eps  and  hi + t v > a + eps
  if v = 0 then (if lo < b - eps ∧ hi > a + eps then some (none, none) else none)
  else if v > 0 then some (some ((a + eps - hi) / v), some ((b - eps - lo) / v))
  else some (some ((b - eps - lo) / v), some ((a + eps - hi) / v))

def meet3 (xs : List (Option (Option Rat × Option Rat))) (t0 t1 : Rat) : Bool :=
  if xs.any Option.isNone then false else
  let los := xs.filterMap (fun x => x.bind (·.1))
  let his := xs.filterMap (fun x => x.bind (·.2))
  let lo := los.foldl (fun a b => if a < b then b else a) t0
  let hi := his.foldl (fun a b => if b < a then b else a) t1
  -- the open intervals meet [t0, t1] in a set with non-empty interior
  lo < hi

def pcells : P (List (Int × Int)) := do
  let n ← pnat
  let rec go : Nat → P (List (Int × Int))
    | 0 => pure []
    | k+1 => do let i ← pint; let j ← pint; let r ← go k; pure ((i, j) :: r)
  go n

def walkOracle (a : WArgs) (out : List String) : String :=
  let fin := [a.hmin, a.hmax, a.sc.x, a.sc.y, a.sc.z, a.mx, a.tg, a.v.x, a.v.y, a.v.z, a.m.t.x, a.m.t.y, a.m.t.z, a.m.qi, a.m.qj, a.m.qk, a.m.qw, a.he.x, a.he.y, a.he.z].all FloatIO.isFinite
  if !fin then "skip non-finite-args" else
  let sc := q3 a.sc
  if sc.x ≤ 0 ∨ sc.y ≤ 0 ∨ sc.z ≤ 0 ∨ a.ni = 0 ∨ a.nj = 0 ∨ q a.tg < 0 ∨ q a.mx < 0 ∨ q a.hmax < q a.hmin then "skip outside-domain" else
  let M := qiso3 a.m
  let he := q3 a.he
  -- brute-force box of the posed cuboid (its eight corners), loosened by the target distance
  let corners : List (V3 Rat) := [(1 : Rat), -1].flatMap fun sx => [(1 : Rat), -1].flatMap fun sy => [(1 : Rat), -1].map fun sz =>
    M.act ⟨sx * he.x, sy * he.y, sz * he.z⟩
  let c0 := M.act ⟨0, 0, 0⟩
  let mn (f : V3 Rat → Rat) := corners.foldl (fun m p => if f p < m then f p else m) (f c0) - q a.tg
  let mxx (f : V3 Rat → Rat) := corners.foldl (fun m p => if m < f p then f p else m) (f c0) + q a.tg
  let v := q3 a.v
  let scale := rabs sc.x + rabs sc.z + rabs c0.x + rabs c0.z + 1
  let eps := scale / 100000000
  let X (j : Int) : Rat := (-(1 : Rat) / 2 + (j : Rat) / (a.nj : Rat)) * sc.x
  let Z (i : Int) : Rat := (-(1 : Rat) / 2 + (i : Rat) / (a.ni : Rat)) * sc.z
  let ty := overlapTimes (mn (·.y)) (mxx (·.y)) v.y (q a.hmin * sc.y) (q a.hmax * sc.y) eps
  let due : List (Int × Int) := (List.range a.ni).flatMap fun (i' : Nat) => (List.range a.nj).filterMap fun (j' : Nat) =>
    let i : Int := i'; let j : Int := j'
    let tx := overlapTimes (mn (·.x)) (mxx (·.x)) v.x (X j) (X (j + 1)) eps
    let tz := overlapTimes (mn (·.z)) (mxx (·.z)) v.z (Z i) (Z (i + 1)) eps
    if meet3 [tx, ty, tz] 0 (q a.mx) then some (i, j) else none
  match out with
  | "panic" :: _ => "fail panic"
  | ["none"] => (match due with | [] => "pass" | c :: _ => s!"fail no-box-hit-but-cell-entered cell={c.1},{c.2}")
  | "cells" :: rest =>
    match run pcells rest with
    | none => "fail unparsable-output"
    | some tr =>
      if tr.any (fun c => c.1 < 0 ∨ c.2 < 0 ∨ c.1 ≥ a.ni ∨ c.2 ≥ a.nj) then "fail cell-outside-the-field" else
      match due.filter (fun c => !tr.contains c) with
      | [] => if due.isEmpty ∧ tr.isEmpty then "pass" else s!"pass"
      | c :: _ => s!"fail entered-cell-never-tested cell={c.1},{c.2} (of {due.length} due, {tr.length} tested)"
  | _ => "fail unparsable-output"

def handlerW (fn : String) : Option Handler :=
  match fn with
  | "hfwalk3" => some {
      model := fun a => (run pwargs a).map walkModel
      oracle := fun a out => match run pwargs a with
        | some w => walkOracle w out
        | none => "skip bad-args" }
  | _ => none

end C06
