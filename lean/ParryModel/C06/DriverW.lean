import ParryModel.Proto
import ParryModel.C06.Walk
import ParryModel.C06.Glue
import ParryModel.C06.Walk2
/-!
C06 protocol handler `hfwalk3`: the trace of the cell walk of the 3-D height-field shape cast (which cells are handed to
`hit_triangles`), model at `Float` against the real function run with a recording dispatcher, and an exact-`Rat` oracle
that asks of the implementation's trace: is every cell the moving (loosened) box enters within `[0, max_time_of_impact]`,
while it overlaps the vertical range of the field, in the trace?

args: `ni nj hmin hmax sx sy sz  <iso3 pos12>  vx vy vz  hex hey hez  max_toi target`
(a field of `ni × nj` cells whose heights are `hmin` except one sample `hmax`; shape 2 is a cuboid)
out:  `none` | `cells n i j i j …`
-/
namespace C06
open Model Model.SC Model.HW Model.SG Proto
open Model.HW2 (HF2)

def quantF : Quant Float := ⟨fun x => (Float.floor x).toInt64.toInt, fun x => (Float.ceil x).toInt64.toInt, Float.ofInt⟩
def quantQ : Quant Rat := ⟨Rat.floor, Rat.ceil, fun i => (i : Rat)⟩

/-- `HeightField::with_flags`: the stored box -/
def hfAabb {K} [Num K] (hmin hmax : K) (sc : V3 K) : Aabb3 K :=
  let hs := sc.smul (lit 1 2)
  let a : V3 K := ⟨-hs.x, hmin * sc.y, -hs.z⟩
  let b : V3 K := ⟨hs.x, hmax * sc.y, hs.z⟩
  ⟨a.inf b, a.sup b⟩

structure WArgs where
  ni : Nat
  nj : Nat
  hmin : Float
  hmax : Float
  sc : V3 Float
  m : Iso3 Float
  v : V3 Float
  he : V3 Float
  mx : Float
  tg : Float

def pwargs : P WArgs := do
  let ni ← pnat; let nj ← pnat; let hmin ← pf; let hmax ← pf; let sc ← pv3; let m ← piso3; let v ← pv3; let he ← pv3
  let mx ← pf; let tg ← pf; pure ⟨ni, nj, hmin, hmax, sc, m, v, he, mx, tg⟩

def fcells (l : List (Int × Int)) : String :=
  l.foldl (fun s c => s ++ s!" {c.1} {c.2}") s!"cells {l.length}"

def walkModel (a : WArgs) : String :=
  let h : HF3 Float := ⟨a.ni, a.nj, a.sc, hfAabb a.hmin a.hmax a.sc⟩
  let b := (cuboidAabb a.he a.m).loosened a.tg
  match walk quantF false h b a.v a.mx 100000 with
  | .noBoxHit => "none"
  | .done out => fcells out
  | .fuelExhausted _ => "fuel-exhausted"
  | .signumOfZero _ => "signum-of-zero"

/-- open interval of times at which `[lo + t v, hi + t v]` overlaps `[a, b]` by more than `eps`: `none` = empty,
`some (l, u)` with `none` bounds = unbounded -/
def overlapTimes (lo hi v a b eps : Rat) : Option (Option Rat × Option Rat) :=
  -- lo + t v < b - eps  and  hi + t v > a + eps
  if v = 0 then (if lo < b - eps ∧ hi > a + eps then some (none, none) else none)
  else if v > 0 then some (some ((a + eps - hi) / v), some ((b - eps - lo) / v))
  else some (some ((b - eps - lo) / v), some ((a + eps - hi) / v))

def meet3 (xs : List (Option (Option Rat × Option Rat))) (t0 t1 : Rat) : Bool :=
  if xs.any Option.isNone then false else
  let los := xs.filterMap (fun x => x.bind (·.1))
  let his := xs.filterMap (fun x => x.bind (·.2))
  let lo := los.foldl (fun a b => if a < b then b else a) t0
  let hi := his.foldl (fun a b => if b < a then b else a) t1
  -- the open intervals meet [t0, t1] in a set with non-empty interior
  lo < hi

def pcells : P (List (Int × Int)) := do
  let n ← pnat
  let rec go : Nat → P (List (Int × Int))
    | 0 => pure []
    | k+1 => do let i ← pint; let j ← pint; let r ← go k; pure ((i, j) :: r)
  go n

def walkOracle (a : WArgs) (out : List String) : String :=
  let fin := [a.hmin, a.hmax, a.sc.x, a.sc.y, a.sc.z, a.mx, a.tg, a.v.x, a.v.y, a.v.z, a.m.t.x, a.m.t.y, a.m.t.z, a.m.qi, a.m.qj, a.m.qk, a.m.qw, a.he.x, a.he.y, a.he.z].all FloatIO.isFinite
  if !fin then "skip non-finite-args" else
  let sc := q3 a.sc
  if sc.x ≤ 0 ∨ sc.y ≤ 0 ∨ sc.z ≤ 0 ∨ a.ni = 0 ∨ a.nj = 0 ∨ q a.tg < 0 ∨ q a.mx < 0 ∨ q a.hmax < q a.hmin then "skip outside-domain" else
  let M := qiso3 a.m
  let he := q3 a.he
  -- brute-force box of the posed cuboid (its eight corners), loosened by the target distance
  let corners : List (V3 Rat) := [(1 : Rat), -1].flatMap fun sx => [(1 : Rat), -1].flatMap fun sy => [(1 : Rat), -1].map fun sz =>
    M.act ⟨sx * he.x, sy * he.y, sz * he.z⟩
  let c0 := M.act ⟨0, 0, 0⟩
  let mn (f : V3 Rat → Rat) := corners.foldl (fun m p => if f p < m then f p else m) (f c0) - q a.tg
  let mxx (f : V3 Rat → Rat) := corners.foldl (fun m p => if m < f p then f p else m) (f c0) + q a.tg
  let v := q3 a.v
  let scale := rabs sc.x + rabs sc.z + rabs c0.x + rabs c0.z + 1
  let eps := scale / 100000000
  let X (j : Int) : Rat := (-(1 : Rat) / 2 + (j : Rat) / (a.nj : Rat)) * sc.x
  let Z (i : Int) : Rat := (-(1 : Rat) / 2 + (i : Rat) / (a.ni : Rat)) * sc.z
  let ty := overlapTimes (mn (·.y)) (mxx (·.y)) v.y (q a.hmin * sc.y) (q a.hmax * sc.y) eps
  let due : List (Int × Int) := (List.range a.ni).flatMap fun (i' : Nat) => (List.range a.nj).filterMap fun (j' : Nat) =>
    let i : Int := i'; let j : Int := j'
    let tx := overlapTimes (mn (·.x)) (mxx (·.x)) v.x (X j) (X (j + 1)) eps
    let tz := overlapTimes (mn (·.z)) (mxx (·.z)) v.z (Z i) (Z (i + 1)) eps
    if meet3 [tx, ty, tz] 0 (q a.mx) then some (i, j) else none
  match out with
  | "panic" :: _ => "fail panic"
  | ["none"] => (match due with | [] => "pass" | c :: _ => s!"fail no-box-hit-but-cell-entered cell={c.1},{c.2}")
  | "cells" :: rest =>
    match run pcells rest with
    | none => "fail unparsable-output"
    | some tr =>
      if tr.any (fun c => c.1 < 0 ∨ c.2 < 0 ∨ c.1 ≥ a.ni ∨ c.2 ≥ a.nj) then "fail cell-outside-the-field" else
      match due.filter (fun c => !tr.contains c) with
      | [] => if due.isEmpty ∧ tr.isEmpty then "pass" else s!"pass"
      | c :: _ => s!"fail entered-cell-never-tested cell={c.1},{c.2} (of {due.length} due, {tr.length} tested)"
  | _ => "fail unparsable-output"

/-! ### `hfwalk2`: the trace of the 2-D height-field cast
args: `nh h_0 … h_{nh-1} sx sy nrem idx…  <iso2 pos12>  vx vy  hex hey  max_toi target`  (the `hf` token of the end-to-end
families without its tag; shape 2 is a cuboid);  out: `cells n 0 j 0 j …` (row index 0, as the harness reports segments) -/

structure W2Args where
  hs : List Float
  sc : V2 Float
  rem : List Nat
  m : Iso2 Float
  v : V2 Float
  he : V2 Float
  mx : Float
  tg : Float

def pw2args : P W2Args := do
  let hs ← plist pf; let sc ← pv2; let rem ← plist pnat; let m ← piso2; let v ← pv2; let he ← pv2
  let mx ← pf; let tg ← pf; pure ⟨hs, sc, rem, m, v, he, mx, tg⟩

def loosened2 {K} [Num K] (a : Aabb2 K) (m : K) : Aabb2 K := ⟨a.mins.add ⟨-m, -m⟩, a.maxs.add ⟨m, m⟩⟩

def walk2Model (a : W2Args) : String :=
  let h : HF2 Float := ⟨a.hs.length - 1, a.sc, a.rem⟩
  let b := loosened2 (cuboidAabb2 a.he a.m) a.tg
  match HW2.walk quantF h b a.v a.mx (h.n + 2) with
  | none => "fuel-exhausted"
  | some out => fcells (out.map fun j => ((0 : Int), j))

/-- exact oracle of `hfwalk2`: every existing segment whose bounding box the moving loosened box (brute force over the four
corners of the posed cuboid) overlaps by more than `eps` on both axes at a common time in `[0, max]` must be in the trace;
every traced index is an existing segment. -/
def walk2Oracle (a : W2Args) (out : List String) : String :=
  let fin := ([a.sc.x, a.sc.y, a.mx, a.tg, a.v.x, a.v.y, a.m.t.x, a.m.t.y, a.m.re, a.m.im, a.he.x, a.he.y] ++ a.hs).all FloatIO.isFinite
  if !fin then "skip non-finite-args" else
  let sc := q2 a.sc
  let n := a.hs.length - 1
  if sc.x ≤ 0 ∨ sc.y ≤ 0 ∨ a.hs.length < 2 ∨ q a.tg < 0 ∨ q a.mx < 0 then "skip outside-domain" else
  let M := qiso2 a.m
  let he := q2 a.he
  let corners : List (V2 Rat) := [(1 : Rat), -1].flatMap fun sx => [(1 : Rat), -1].map fun sy => M.act ⟨sx * he.x, sy * he.y⟩
  let c0 := M.act ⟨0, 0⟩
  let mn (f : V2 Rat → Rat) := corners.foldl (fun m p => if f p < m then f p else m) (f c0) - q a.tg
  let mxx (f : V2 Rat → Rat) := corners.foldl (fun m p => if m < f p then f p else m) (f c0) + q a.tg
  let v := q2 a.v
  let scale := rabs sc.x + rabs sc.y + rabs c0.x + rabs c0.y + 1
  let eps := scale / 100000000
  let X (j : Int) : Rat := (-(1 : Rat) / 2 + (j : Rat) / (n : Rat)) * sc.x
  let hq : Array Rat := (a.hs.map q).toArray
  let due : List (Int × Int) := (List.range n).filterMap fun (j' : Nat) =>
    if a.rem.contains j' then none else
    let j : Int := j'
    let y0 := hq[j']! * sc.y; let y1 := hq[j' + 1]! * sc.y
    let tx := overlapTimes (mn (·.x)) (mxx (·.x)) v.x (X j) (X (j + 1)) eps
    -- the segment's own vertical range, widened by 2 eps so that a flat segment still has an interior
    let ty := overlapTimes (mn (·.y)) (mxx (·.y)) v.y (min y0 y1 - 2 * eps) (max y0 y1 + 2 * eps) eps
    if meet3 [tx, ty] 0 (q a.mx) then some (0, j) else none
  match out with
  | "panic" :: _ => "fail panic"
  | "cells" :: rest =>
    match run pcells rest with
    | none => "fail unparsable-output"
    | some tr =>
      if tr.any (fun c => c.1 ≠ 0 ∨ c.2 < 0 ∨ c.2 ≥ n ∨ a.rem.contains c.2.toNat) then "fail traced-segment-does-not-exist" else
      match due.filter (fun c => !tr.contains c) with
      | [] => "pass"
      | c :: _ => s!"fail entered-cell-never-tested cell={c.2} (of {due.length} due, {tr.length} tested)"
  | _ => "fail unparsable-output"

/-! ### `hfbest2` / `hfbest3`: the height-field casts run with SCRIPTED part-cast answers
args: the `hfwalk2` / `hfwalk3` args followed by `ns (0 | 1 toi)*ns` — the k-th call of the dispatcher answers the k-th entry
(`None` beyond the end of the script); out: `none calls` | `some toi k calls` (`k` = index of the call whose hit was returned).
Model: the trace of the walk gives the number of calls (one per traced segment in 2-D, two per traced cell in 3-D), `bestOf`
over the scripted answers in call order gives the result. -/

def pscript : P (List (Option Float)) := plist (do
  let k ← pnat
  if k = 0 then pure none else do let t ← pf; pure (some t))

def bestModel (calls : Nat) (script : List (Option Float)) : String :=
  let arr := script.toArray
  let hits : List (Option (Float × Nat)) := (List.range calls).map fun k => (arr[k]?.join).map fun t => (t, k)
  match HW2.bestOf (K := Float) (fun x : Float × Nat => x.1) hits with
  | none => s!"none {calls}"
  | some (t, k) => s!"some {ff t} {k} {calls}"

def best2Model (a : W2Args) (script : List (Option Float)) : String :=
  let h : HF2 Float := ⟨a.hs.length - 1, a.sc, a.rem⟩
  let b := loosened2 (cuboidAabb2 a.he a.m) a.tg
  match HW2.walk quantF h b a.v a.mx (h.n + 2) with
  | none => "fuel-exhausted"
  | some out => bestModel out.length script

def best3Model (a : WArgs) (script : List (Option Float)) : String :=
  let h : HF3 Float := ⟨a.ni, a.nj, a.sc, hfAabb a.hmin a.hmax a.sc⟩
  let b := (cuboidAabb a.he a.m).loosened a.tg
  match walk quantF false h b a.v a.mx 100000 with
  | .noBoxHit => bestModel 0 script
  | .done out => bestModel (2 * out.length) script
  | .fuelExhausted _ => "fuel-exhausted"
  | .signumOfZero _ => "signum-of-zero"

/-- exact oracle, independent of the walk: among the scripted answers of the calls the implementation reports having made, the
usable hits are those with a finite time below `Real::MAX`; `none` is due iff there is none, otherwise the returned hit must be
entry `k` of the script, usable, of minimal time, and the FIRST entry with that time. -/
def bestOracle (script : List (Option Float)) (out : List String) : String :=
  let big : Rat := (2 : Rat) ^ 1024 - (2 : Rat) ^ 971
  let usable (c : Nat) : List (Rat × Nat) := (List.range c).filterMap fun k =>
    match (script.toArray[k]?).join with
    | some t => if FloatIO.isFinite t ∧ q t < big then some (q t, k) else none
    | none => none
  match out with
  | "panic" :: _ => "fail panic"
  | ["none", c] =>
    (match c.toNat? with
     | none => "fail unparsable-output"
     | some c => match usable c with
       | [] => "pass"
       | (_, k) :: _ => s!"fail none-but-call-{k}-answered-a-hit")
  | ["some", t, k, c] =>
    (match FloatIO.ofHex? t, k.toNat?, c.toNat? with
     | some tf, some k, some c =>
       if k ≥ c then "fail returned-call-index-beyond-calls" else
       match (script.toArray[k]?).join with
       | none => "fail returned-hit-was-not-scripted"
       | some ts =>
         if !(FloatIO.isFinite tf) then "fail nonfinite-toi" else
         if !(FloatIO.isFinite ts) ∨ q ts ≠ q tf then "fail toi-differs-from-the-scripted-answer" else
         if !(q tf < big) then "fail hit-at-real-max-kept" else
         match (usable c).filter (fun x => x.1 < q tf ∨ (x.1 = q tf ∧ x.2 < k)) with
         | [] => "pass"
         | (_, k') :: _ => s!"fail call-{k'}-has-an-earlier-or-equal-first-hit"
     | _, _, _ => "fail unparsable-output")
  | _ => "fail unparsable-output"

/-! ### `smsm3` / `smsm2`: the exit conditions of the GJK-route cast
args: `<iso pos12> <vel12> <opts> velnorm <cTarget> <ddPlain> <ddRound> <cMax> shapes <shape1> <shape2>`
(`0` | `1 p1 p2 n1 n2 dist` for a contact, `0` | `1 toi n w1 w2` for `directional_distance`); out: `none` | `some <hit>` -/

def pOptG : P (Opts Float) := do let m ← pf; let t ← pf; let s ← pbool; let c ← pbool; pure ⟨m, t, s, c⟩
def pContact {V} (pv : P V) : P (Option (Contact V Float)) := do
  let k ← pnat
  if k = 0 then pure none else do
    let p1 ← pv; let p2 ← pv; let n1 ← pv; let n2 ← pv; let d ← pf; pure (some ⟨p1, p2, n1, n2, d⟩)
def pDD {V} (pv : P V) : P (Option (Float × V × V × V)) := do
  let k ← pnat
  if k = 0 then pure none else do
    let t ← pf; let n ← pv; let w1 ← pv; let w2 ← pv; pure (some (t, n, w1, w2))
def pTaps {V} (pv : P V) : P (Taps V Float) := do
  let vn ← pf; let c ← pContact pv; let d1 ← pDD pv; let d2 ← pDD pv; let cm ← pContact pv; pure ⟨vn, c, d1, d2, cm⟩

def gstatus : Status → Nat
  | .outOfIterations => 0 | .converged => 1 | .failed => 2 | .penetrating => 3
def fhitG3 : Option (Hit (V3 Float) Float) → String
  | none => "none"
  | some h => s!"some {ff h.toi} {fv3 h.w1} {fv3 h.w2} {fv3 h.n1} {fv3 h.n2} {gstatus h.status}"
def fhitG2 : Option (Hit (V2 Float) Float) → String
  | none => "none"
  | some h => s!"some {ff h.toi} {fv2 h.w1} {fv2 h.w2} {fv2 h.n1} {fv2 h.n2} {gstatus h.status}"

/-- Clause oracle on the implementation's output, from the option semantics (exact `Rat`; `taps` = what the GJK layer
answered): a hit lies in `[0, max]`; `PenetratingOrWithinTargetDist` only at start-up (`toi < 1e-5`), `Converged` only for
`toi > 0`; with relative motion, `None` needs a reason (no GJK hit, a GJK time above `max`, or a start-up contact that is
discarded: no contact at all, or `!stop_at_penetration` and not approaching); a start-up hit with `!stop_at_penetration`
is approaching; a hit beyond start-up reports the GJK time; without relative motion: a hit iff `stop_at_penetration` and
the shapes are within the target (a contact exists), at time 0.  The sign of the normal velocity `n1·vel` is judged with the
tolerance `nvTol` (1e-12 relative): at an exact tangential start-up contact the code's rounded dot product may fall on either
side of 0, and both answers are accepted. -/
def smsmOracle (velNormZero : Bool) (o : Opts Float) (dd : Option Rat) (cT cM : Bool) (nvel : Option Rat) (out : List String)
    (nvTol : Rat := 0) : String :=
  if !(FloatIO.isFinite o.maxToi && FloatIO.isFinite o.target) then "skip options-outside-domain" else
  let mx := q o.maxToi
  let startup (t : Rat) : Bool := (o.cig || !o.stop) && decide (t < 1 / 100000)
  match out with
  | "panic" :: _ => "fail panic"
  | ["unsupported"] => "skip unsupported"
  | ["none"] =>
    if velNormZero then (if cT ∧ o.stop then "fail none-but-standing-within-target" else "pass") else
    (match dd with
     | none => "pass"
     | some t =>
       if t > mx then "pass" else
       if startup t then
         (if !cM then "pass" else
          match nvel with
          | some nv => if !o.stop ∧ nv ≥ -nvTol then "pass" else "fail none-but-start-up-contact-is-due"
          | none => "pass")
       else "fail none-but-gjk-time-within-max")
  | "some" :: t :: rest =>
    match FloatIO.ofHex? t, rest.getLast? with
    | some tf, some st =>
      if !FloatIO.isFinite tf then "fail nonfinite-toi" else
      let T := q tf
      if T < 0 then "fail negative-toi" else
      if T > mx then "fail toi-above-max" else
      if velNormZero then
        (if T ≠ 0 then "fail standing-pair-with-positive-toi" else if !o.stop then "fail standing-pair-hit-without-stop-at-penetration"
         else if !cT then "fail standing-pair-hit-without-contact" else if st ≠ "3" then "fail standing-pair-status" else "pass")
      else
      (match dd with
       | none => "fail hit-without-gjk-hit"
       | some t =>
         if T ≠ t then "fail toi-is-not-the-gjk-time" else
         if startup t then
           (if st ≠ "3" then "fail start-up-status" else
            match nvel with
            | some nv => if !o.stop ∧ nv > nvTol then "fail separating-start-up-contact-reported" else "pass"
            | none => "fail start-up-hit-without-contact")
         else if T = 0 then (if st = "3" then "pass" else "fail status-at-time-zero")
         else (if st = "1" then "pass" else "fail status-converged-expected"))
    | _, _ => "fail unparsable-output"
  | _ => "fail unparsable-output"

def handlerW (fn : String) : Option Handler :=
  match fn with
  | "smsm3" => some {
      model := fun a => run (do
        let m ← piso3; let v ← pv3; let o ← pOptG; let t ← pTaps pv3
        pure (fhitG3 (castSmSm3 m v t o))) a
      oracle := fun a out => match run (do let m ← piso3; let v ← pv3; let o ← pOptG; let t ← pTaps pv3; pure (m, v, o, t)) a with
        | some (_, v, o, t) =>
          let dd := (if 0 < o.target then t.ddRound else t.ddPlain).map fun x => q x.1
          let nvel := t.cMax.map fun c => (q3 c.n1).dot (q3 v)
          smsmOracle (relEqZero t.velNorm) o dd t.cTarget.isSome t.cMax.isSome nvel out
            ((rabs (q v.x) + rabs (q v.y) + rabs (q v.z)) / 1000000000000)
        | none => "skip bad-args" }
  | "smsm2" => some {
      model := fun a => run (do
        let m ← piso2; let v ← pv2; let o ← pOptG; let t ← pTaps pv2
        pure (fhitG2 (castSmSm2 m v t o))) a
      oracle := fun a out => match run (do let m ← piso2; let v ← pv2; let o ← pOptG; let t ← pTaps pv2; pure (m, v, o, t)) a with
        | some (_, v, o, t) =>
          let dd := (if 0 < o.target then t.ddRound else t.ddPlain).map fun x => q x.1
          let nvel := t.cMax.map fun c => (q2 c.n1).dot (q2 v)
          smsmOracle (relEqZero t.velNorm) o dd t.cTarget.isSome t.cMax.isSome nvel out
            ((rabs (q v.x) + rabs (q v.y)) / 1000000000000)
        | none => "skip bad-args" }
  | "hfwalk3" => some {
      model := fun a => (run pwargs a).map walkModel
      oracle := fun a out => match run pwargs a with
        | some w => walkOracle w out
        | none => "skip bad-args" }
  | "hfbest2" => some {
      model := fun a => (run (do let w ← pw2args; let sc ← pscript; pure (w, sc)) a).map fun x => best2Model x.1 x.2
      oracle := fun a out => match run (do let w ← pw2args; let sc ← pscript; pure (w, sc)) a with
        | some x => bestOracle x.2 out
        | none => "skip bad-args" }
  | "hfbest3" => some {
      model := fun a => (run (do let w ← pwargs; let sc ← pscript; pure (w, sc)) a).map fun x => best3Model x.1 x.2
      oracle := fun a out => match run (do let w ← pwargs; let sc ← pscript; pure (w, sc)) a with
        | some x => bestOracle x.2 out
        | none => "skip bad-args" }
  | "hfwalk2" => some {
      model := fun a => (run pw2args a).map walk2Model
      oracle := fun a out => match run pw2args a with
        | some w => walk2Oracle w out
        | none => "skip bad-args" }
  | _ => none

end C06
