import ParryModel.Vec
import ParryModel.Shapes
/-!
# C06 model: closed-form shape casts and their wrappers

Literal transliterations (same branch order, comparison strictness, floating-point operation order) of

* `query/ray/ray_ball.rs`                 `ray_toi_with_ball`
* `query/ray/ray_halfspace.rs`            `HalfSpace::cast_local_ray` (via `cast_local_ray_and_get_normal`)
* `query/shape_cast/shape_cast_ball_ball.rs`              `cast_shapes_ball_ball`
* `query/shape_cast/shape_cast_halfspace_support_map.rs`  `cast_shapes_halfspace_support_map`, `cast_shapes_support_map_halfspace`
  with `Ball` / `Cuboid` as the support-mapped shape (`SupportMap::support_point`, `Ball`'s override, `RoundShapeRef`)
* `query/shape_cast/shape_cast.rs`        `ShapeCastHit::{swapped, transform1_by}`, the free function `query::cast_shapes`
  (velocity conversion + dispatcher branch selection for these pairs)
* `query/nonlinear_shape_cast/nonlinear_rigid_motion.rs`  `NonlinearRigidMotion::position_at_time` for zero angular velocity

Everything lives in `Model.SC` (2-D functions end in `2`, 3-D in `3`).

`cast_shapes_ball_ball` is modelled as *corrected* (fixes/C06-ballball-unit-normal.diff); the pinned behaviour is kept as
`castBallBallPinned*` for the refutation theorem.  The half-space ray cast follows the tree after
`fix: HalfSpace ray cast handles rays parallel to the boundary plane`.
-/
namespace Model.SC
open Model
variable {K : Type} [Num K]

/-! ## small nalgebra / parry primitives -/

/-- IEEE sign bit.  `x < 0`, or `x` is a zero whose reciprocal is negative (`1/(-0.0) = -∞`).  In a field
`1/0 = 0`, so there a zero counts as positive. -/
def signbit (x : K) : Bool := decide (x < 0) || (neq x 0 && decide (1 / x < 0))

/-- `WSign::copy_sign_to` on scalars: magnitude of `to`, sign bit of `d`. -/
def copysign (d to : K) : K := if signbit d then -(nabs to) else nabs to
def copysign3 (d to : V3 K) : V3 K := ⟨copysign d.x to.x, copysign d.y to.y, copysign d.z to.z⟩
def copysign2 (d to : V2 K) : V2 K := ⟨copysign d.x to.x, copysign d.y to.y⟩

/-- `f64::EPSILON` = `DEFAULT_EPSILON` -/
def eps : K := lit 1 4503599627370496

/-- `Unit::new_normalize(v)`: `v / v.norm()` -/
def normalize3 (v : V3 K) : V3 K := v.sdiv v.norm
def normalize2 (v : V2 K) : V2 K := v.sdiv v.norm

/-- `Unit::try_new(v, min_norm)` -/
def tryNormalize3 (v : V3 K) (minNorm : K) : Option (V3 K) :=
  let sqn := v.normSq
  if minNorm * minNorm < sqn then some (v.sdiv (Num.sqrt sqn)) else none
def tryNormalize2 (v : V2 K) (minNorm : K) : Option (V2 K) :=
  let sqn := v.normSq
  if minNorm * minNorm < sqn then some (v.sdiv (Num.sqrt sqn)) else none

/-- `Vector::x_axis()` -/
def xAxis3 : V3 K := ⟨1, 0, 0⟩
def xAxis2 : V2 K := ⟨1, 0⟩

/-! ## `ray_toi_with_ball` -/

/-- the scalar part of `ray_toi_with_ball` once `a = |dir|²`, `b = dcenter·dir`, `c = |dcenter|² - radius²` are known. -/
def rayBallCore (a b c : K) (solid : Bool) : Bool × Option K :=
  if neq a 0 then
    if 0 < c then (false, none) else (true, some 0)
  else if decide (0 < c) && decide (0 < b) then (false, none)
  else
    let delta := b * b - a * c
    if delta < 0 then (false, none)
    else
      let t := (-b - Num.sqrt delta) / a
      if t ≤ 0 then
        if solid then (true, some 0) else (true, some ((-b + Num.sqrt delta) / a))
      else (false, some t)

def rayToiWithBall3 (center : V3 K) (radius : K) (origin dir : V3 K) (solid : Bool) : Bool × Option K :=
  let dcenter := origin.sub center
  let a := dir.normSq
  let b := dcenter.dot dir
  let c := dcenter.normSq - radius * radius
  rayBallCore a b c solid

def rayToiWithBall2 (center : V2 K) (radius : K) (origin dir : V2 K) (solid : Bool) : Bool × Option K :=
  let dcenter := origin.sub center
  let a := dir.normSq
  let b := dcenter.dot dir
  let c := dcenter.normSq - radius * radius
  rayBallCore a b c solid

/-! ## options, status, hit -/

structure Opts (K : Type) where
  maxToi : K
  target : K
  stop : Bool
  /-- `compute_impact_geometry_on_penetration` (ignored by the closed-form casts) -/
  cig : Bool

inductive Status where
  | outOfIterations | converged | failed | penetrating
deriving DecidableEq, Repr

structure Hit (V : Type) (K : Type) where
  toi : K
  w1 : V
  w2 : V
  n1 : V
  n2 : V
  status : Status

/-- `ShapeCastHit::swapped` -/
def Hit.swapped {V : Type} (h : Hit V K) : Hit V K := ⟨h.toi, h.w2, h.w1, h.n2, h.n1, h.status⟩
/-- `ShapeCastHit::transform1_by` -/
def Hit.transform1By3 (h : Hit (V3 K) K) (pos : Iso3 K) : Hit (V3 K) K :=
  ⟨h.toi, pos.act h.w1, h.w2, pos.rot h.n1, h.n2, h.status⟩
def Hit.transform1By2 (h : Hit (V2 K) K) (pos : Iso2 K) : Hit (V2 K) K :=
  ⟨h.toi, pos.act h.w1, h.w2, pos.rot h.n1, h.n2, h.status⟩

/-! ## `cast_shapes_ball_ball`

Corrected behaviour (fixes/C06-ballball-unit-normal.diff): `normal1` is the *normalised* centre offset at the time of
impact (x-axis when the centres coincide); the pinned tree divides by `r1 + r2 + target_distance` instead, which is
not unit whenever the balls start closer than the target distance. -/

/-- normals and witnesses as computed on the pinned tree: `dpt / radius` (x-axis if `radius == 0`). -/
def ballBallGeomPinned3 (pos12 : Iso3 K) (dpt : V3 K) (radius r1 r2 : K) : V3 K × V3 K × V3 K × V3 K :=
  if neq radius 0 then (xAxis3, pos12.invRot (xAxis3 : V3 K).neg, V3.zero, V3.zero)
  else
    let n1 := dpt.sdiv radius
    let n2 := pos12.invRot n1.neg
    (n1, n2, n1.smul r1, n2.smul r2)
def ballBallGeomPinned2 (pos12 : Iso2 K) (dpt : V2 K) (radius r1 r2 : K) : V2 K × V2 K × V2 K × V2 K :=
  if neq radius 0 then (xAxis2, pos12.invRot (xAxis2 : V2 K).neg, V2.zero, V2.zero)
  else
    let n1 := dpt.sdiv radius
    let n2 := pos12.invRot n1.neg
    (n1, n2, n1.smul r1, n2.smul r2)

/-- corrected normals and witnesses: `Unit::try_new(dpt, DEFAULT_EPSILON).unwrap_or(x_axis)`. -/
def ballBallGeom3 (pos12 : Iso3 K) (dpt : V3 K) (_radius r1 r2 : K) : V3 K × V3 K × V3 K × V3 K :=
  let n1 := match tryNormalize3 dpt eps with
    | some n => n
    | none => xAxis3
  let n2 := pos12.invRot n1.neg
  (n1, n2, n1.smul r1, n2.smul r2)
def ballBallGeom2 (pos12 : Iso2 K) (dpt : V2 K) (_radius r1 r2 : K) : V2 K × V2 K × V2 K × V2 K :=
  let n1 := match tryNormalize2 dpt eps with
    | some n => n
    | none => xAxis2
  let n2 := pos12.invRot n1.neg
  (n1, n2, n1.smul r1, n2.smul r2)

def castBallBallWith3 (geom : Iso3 K → V3 K → K → K → K → V3 K × V3 K × V3 K × V3 K)
    (pos12 : Iso3 K) (vel12 : V3 K) (r1 r2 : K) (o : Opts K) : Option (Hit (V3 K) K) :=
  let rsum := r1 + r2 + o.target
  let radius := rsum
  let center := pos12.t.neg
  let origin : V3 K := V3.zero
  match rayToiWithBall3 center radius origin vel12 true with
  | (inside, some toi) =>
    if o.maxToi < toi then none else
    let dpt := (origin.add (vel12.smul toi)).sub center
    let (n1, n2, w1, w2) := geom pos12 dpt radius r1 r2
    if !o.stop && decide (toi < lit 1 100000) && decide (0 ≤ n1.dot vel12) then none else
    let status := if inside && decide (center.normSq < rsum * rsum) then Status.penetrating else Status.converged
    some ⟨toi, w1, w2, n1, n2, status⟩
  | (_, none) => none

def castBallBallWith2 (geom : Iso2 K → V2 K → K → K → K → V2 K × V2 K × V2 K × V2 K)
    (pos12 : Iso2 K) (vel12 : V2 K) (r1 r2 : K) (o : Opts K) : Option (Hit (V2 K) K) :=
  let rsum := r1 + r2 + o.target
  let radius := rsum
  let center := pos12.t.neg
  let origin : V2 K := V2.zero
  match rayToiWithBall2 center radius origin vel12 true with
  | (inside, some toi) =>
    if o.maxToi < toi then none else
    let dpt := (origin.add (vel12.smul toi)).sub center
    let (n1, n2, w1, w2) := geom pos12 dpt radius r1 r2
    if !o.stop && decide (toi < lit 1 100000) && decide (0 ≤ n1.dot vel12) then none else
    let status := if inside && decide (center.normSq < rsum * rsum) then Status.penetrating else Status.converged
    some ⟨toi, w1, w2, n1, n2, status⟩
  | (_, none) => none

/-- `cast_shapes_ball_ball` (corrected) -/
def castBallBall3 (pos12 : Iso3 K) (vel12 : V3 K) (r1 r2 : K) (o : Opts K) : Option (Hit (V3 K) K) :=
  castBallBallWith3 ballBallGeom3 pos12 vel12 r1 r2 o
def castBallBall2 (pos12 : Iso2 K) (vel12 : V2 K) (r1 r2 : K) (o : Opts K) : Option (Hit (V2 K) K) :=
  castBallBallWith2 ballBallGeom2 pos12 vel12 r1 r2 o
/-- `cast_shapes_ball_ball` exactly as on the pinned tree (kept for the refutation theorem and for replaying the defect) -/
def castBallBallPinned3 (pos12 : Iso3 K) (vel12 : V3 K) (r1 r2 : K) (o : Opts K) : Option (Hit (V3 K) K) :=
  castBallBallWith3 ballBallGeomPinned3 pos12 vel12 r1 r2 o
def castBallBallPinned2 (pos12 : Iso2 K) (vel12 : V2 K) (r1 r2 : K) (o : Opts K) : Option (Hit (V2 K) K) :=
  castBallBallWith2 ballBallGeomPinned2 pos12 vel12 r1 r2 o

/-! ## support maps used by the half-space cast -/

/-- the support-mapped shapes modelled for the half-space cast -/
inductive SM3 (K : Type) where
  | ball (r : K)
  | cuboid (he : V3 K)
inductive SM2 (K : Type) where
  | ball (r : K)
  | cuboid (he : V2 K)

/-- `local_support_point_toward(u)` (`u` already unit): `Ball`: `u * r`; `Cuboid`: default = `local_support_point(u)` -/
def SM3.localSupportToward (s : SM3 K) (u : V3 K) : V3 K :=
  match s with
  | .ball r => u.smul r
  | .cuboid he => copysign3 u he
def SM2.localSupportToward (s : SM2 K) (u : V2 K) : V2 K :=
  match s with
  | .ball r => u.smul r
  | .cuboid he => copysign2 u he

/-- `support_point(transform, dir)`: `Ball` overrides it (`translation + normalize(dir) * r`, no rotation involved);
`Cuboid` uses the trait default `transform * local_support_point(transform⁻¹ dir)`. -/
def SM3.supportPoint (s : SM3 K) (m : Iso3 K) (dir : V3 K) : V3 K :=
  match s with
  | .ball r => m.t.add ((normalize3 dir).smul r)
  | .cuboid he => m.act (copysign3 (m.invRot dir) he)
def SM2.supportPoint (s : SM2 K) (m : Iso2 K) (dir : V2 K) : V2 K :=
  match s with
  | .ball r => m.t.add ((normalize2 dir).smul r)
  | .cuboid he => m.act (copysign2 (m.invRot dir) he)

/-- `RoundShapeRef { inner_shape, border_radius }.support_point(transform, dir)` (trait default on the round shape):
`transform * (inner.local_support_point_toward(u) + u * border)` with `u = normalize(transform⁻¹ dir)`. -/
def SM3.roundSupportPoint (s : SM3 K) (border : K) (m : Iso3 K) (dir : V3 K) : V3 K :=
  let u := normalize3 (m.invRot dir)
  m.act ((s.localSupportToward u).add (u.smul border))
def SM2.roundSupportPoint (s : SM2 K) (border : K) (m : Iso2 K) (dir : V2 K) : V2 K :=
  let u := normalize2 (m.invRot dir)
  m.act ((s.localSupportToward u).add (u.smul border))

/-! ## `HalfSpace::cast_local_ray`  (`cast_local_ray_and_get_normal(..).map(|i| i.time_of_impact)`)

A ray parallel to the boundary plane (`normal·dir == 0`) touches it only if its origin already lies on it
(`Some(0)`), otherwise `None`; no division happens in that case. -/
def halfspaceCastLocalRay3 (n origin dir : V3 K) (maxToi : K) (solid : Bool) : Option K :=
  let dpos := origin.neg
  let dnd := n.dot dpos
  if solid && decide (0 < dnd) then some 0 else
  let den := n.dot dir
  if neq den 0 then (if neq dnd 0 then some 0 else none) else
  let t := dnd / den
  if decide (0 ≤ t) && decide (t ≤ maxToi) then some t else none
def halfspaceCastLocalRay2 (n origin dir : V2 K) (maxToi : K) (solid : Bool) : Option K :=
  let dpos := origin.neg
  let dnd := n.dot dpos
  if solid && decide (0 < dnd) then some 0 else
  let den := n.dot dir
  if neq den 0 then (if neq dnd 0 then some 0 else none) else
  let t := dnd / den
  if decide (0 ≤ t) && decide (t ≤ maxToi) then some t else none

/-! ## `cast_shapes_halfspace_support_map` and the mirrored wrapper -/

def castHalfspaceSM3 (pos12 : Iso3 K) (vel12 : V3 K) (n : V3 K) (s : SM3 K) (o : Opts K) : Option (Hit (V3 K) K) :=
  if !o.stop && decide (0 < vel12.dot n) then none else
  let sp := if 0 < o.target then s.roundSupportPoint o.target pos12 n.neg else s.supportPoint pos12 n.neg
  match halfspaceCastLocalRay3 n sp vel12 o.maxToi true with
  | some toi =>
    if o.maxToi < toi then none else
    let w2 := sp.add (n.smul o.target)
    let w1 := sp.add (vel12.smul toi)
    let w1 := w1.sub (n.smul (w1.dot n))
    let status := if sp.dot n < 0 then Status.penetrating else Status.converged
    some ⟨toi, w1, pos12.invAct w2, n, pos12.invRot n.neg, status⟩
  | none => none

def castHalfspaceSM2 (pos12 : Iso2 K) (vel12 : V2 K) (n : V2 K) (s : SM2 K) (o : Opts K) : Option (Hit (V2 K) K) :=
  if !o.stop && decide (0 < vel12.dot n) then none else
  let sp := if 0 < o.target then s.roundSupportPoint o.target pos12 n.neg else s.supportPoint pos12 n.neg
  match halfspaceCastLocalRay2 n sp vel12 o.maxToi true with
  | some toi =>
    if o.maxToi < toi then none else
    let w2 := sp.add (n.smul o.target)
    let w1 := sp.add (vel12.smul toi)
    let w1 := w1.sub (n.smul (w1.dot n))
    let status := if sp.dot n < 0 then Status.penetrating else Status.converged
    some ⟨toi, w1, pos12.invAct w2, n, pos12.invRot n.neg, status⟩
  | none => none

/-- `cast_shapes_support_map_halfspace` -/
def castSMHalfspace3 (pos12 : Iso3 K) (vel12 : V3 K) (s : SM3 K) (n : V3 K) (o : Opts K) : Option (Hit (V3 K) K) :=
  (castHalfspaceSM3 pos12.inverse (pos12.invRot vel12).neg n s o).map Hit.swapped
def castSMHalfspace2 (pos12 : Iso2 K) (vel12 : V2 K) (s : SM2 K) (n : V2 K) (o : Opts K) : Option (Hit (V2 K) K) :=
  (castHalfspaceSM2 pos12.inverse (pos12.invRot vel12).neg n s o).map Hit.swapped

/-! ## the free function `query::cast_shapes` (velocity conversion) on the closed-form pairs -/

inductive Shape3 (K : Type) where
  | ball (r : K)
  | cuboid (he : V3 K)
  | halfspace (n : V3 K)
inductive Shape2 (K : Type) where
  | ball (r : K)
  | cuboid (he : V2 K)
  | halfspace (n : V2 K)

/-- `DefaultQueryDispatcher::cast_shapes` restricted to ball / cuboid / half-space: same branch order.
`none` = a pair this model does not cover (cuboid/cuboid, ball/cuboid go to GJK; half-space/half-space is `Unsupported`). -/
def dispatchCast3 (pos12 : Iso3 K) (vel12 : V3 K) (g1 g2 : Shape3 K) (o : Opts K) : Option (Option (Hit (V3 K) K)) :=
  match g1, g2 with
  | .ball r1, .ball r2 => some (castBallBall3 pos12 vel12 r1 r2 o)
  | .halfspace n, .ball r => some (castHalfspaceSM3 pos12 vel12 n (.ball r) o)
  | .halfspace n, .cuboid he => some (castHalfspaceSM3 pos12 vel12 n (.cuboid he) o)
  | .ball r, .halfspace n => some (castSMHalfspace3 pos12 vel12 (.ball r) n o)
  | .cuboid he, .halfspace n => some (castSMHalfspace3 pos12 vel12 (.cuboid he) n o)
  | _, _ => none
def dispatchCast2 (pos12 : Iso2 K) (vel12 : V2 K) (g1 g2 : Shape2 K) (o : Opts K) : Option (Option (Hit (V2 K) K)) :=
  match g1, g2 with
  | .ball r1, .ball r2 => some (castBallBall2 pos12 vel12 r1 r2 o)
  | .halfspace n, .ball r => some (castHalfspaceSM2 pos12 vel12 n (.ball r) o)
  | .halfspace n, .cuboid he => some (castHalfspaceSM2 pos12 vel12 n (.cuboid he) o)
  | .ball r, .halfspace n => some (castSMHalfspace2 pos12 vel12 (.ball r) n o)
  | .cuboid he, .halfspace n => some (castSMHalfspace2 pos12 vel12 (.cuboid he) n o)
  | _, _ => none

/-- `query::cast_shapes`: `pos12 = pos1.inv_mul(pos2)`, `vel12 = pos1.inverse_transform_vector(vel2 - vel1)` -/
def castShapes3 (pos1 : Iso3 K) (vel1 : V3 K) (g1 : Shape3 K) (pos2 : Iso3 K) (vel2 : V3 K) (g2 : Shape3 K) (o : Opts K) :
    Option (Option (Hit (V3 K) K)) :=
  let pos12 := pos1.invMul pos2
  let vel12 := pos1.invRot (vel2.sub vel1)
  dispatchCast3 pos12 vel12 g1 g2 o
def castShapes2 (pos1 : Iso2 K) (vel1 : V2 K) (g1 : Shape2 K) (pos2 : Iso2 K) (vel2 : V2 K) (g2 : Shape2 K) (o : Opts K) :
    Option (Option (Hit (V2 K) K)) :=
  let pos12 := pos1.invMul pos2
  let vel12 := pos1.invRot (vel2.sub vel1)
  dispatchCast2 pos12 vel12 g1 g2 o

/-! ## `NonlinearRigidMotion::position_at_time` with zero angular velocity

`Isometry::new(linvel * t, angvel * t)` with `angvel = 0`: nalgebra's `UnitQuaternion::new(0)` goes through
`Quaternion::exp_eps`, whose `norm² ≤ ε²` special case returns the identity; in 2-D `UnitComplex::new(0)` is
`(cos 0, sin 0) = (1, 0)`.  So the rotation factor is the identity and the rest is the isometry algebra below. -/
structure Motion3 (K : Type) where
  start : Iso3 K
  localCenter : V3 K
  linvel : V3 K
structure Motion2 (K : Type) where
  start : Iso2 K
  localCenter : V2 K
  linvel : V2 K

def Motion3.positionAtTime (m : Motion3 K) (t : K) : Iso3 K :=
  let center := m.start.act m.localCenter
  -- shift * Isometry::new(linvel * t, 0)
  let a : Iso3 K := ⟨0, 0, 0, 1, center.add (m.linvel.smul t)⟩
  -- shift.inverse() * start
  let b : Iso3 K := { m.start with t := center.neg.add m.start.t }
  a.mul b
def Motion2.positionAtTime (m : Motion2 K) (t : K) : Iso2 K :=
  let center := m.start.act m.localCenter
  let a : Iso2 K := ⟨1, 0, center.add (m.linvel.smul t)⟩
  let b : Iso2 K := { m.start with t := center.neg.add m.start.t }
  a.mul b

end Model.SC
