import ParryModel.Vec
import ParryModel.Shapes
import ParryModel.C06.Model
/-!
# C06 model, part 4: the exit conditions of the GJK-route shape cast

`query/shape_cast/shape_cast_support_map_support_map.rs` `cast_shapes_support_map_support_map`: everything the function does
*around* its three calls into the GJK layer — the zero-relative-velocity branch, the choice of the rounded shape for
`target_distance > 0`, the `max_time_of_impact` test, the start-up branch `toi < 1e-5` governed by `stop_at_penetration` /
`compute_impact_geometry_on_penetration`, the reconstruction of witnesses / normals / status.  The three GJK results are
inputs (`Taps`): `contact_support_map_support_map(pos12, g1, g2, target)`, `gjk::directional_distance` on the plain and on
the rounded first shape, `contact_support_map_support_map(pos12, g1, g2, Real::MAX)`.
-/
namespace Model.SG
open Model Model.SC
variable {K : Type} [Num K]

/-- `Contact` -/
structure Contact (V : Type) (K : Type) where
  p1 : V
  p2 : V
  n1 : V
  n2 : V
  dist : K

/-- results of the GJK layer on the same `(pos12, g1, g2)`; `dd*` = `(time_of_impact, normal1, witness1, witness2)` -/
structure Taps (V : Type) (K : Type) where
  velNorm : K
  cTarget : Option (Contact V K)
  ddPlain : Option (K × V × V × V)
  ddRound : Option (K × V × V × V)
  cMax : Option (Contact V K)

/-- `relative_eq!(x, 0.0)` (approx, default `epsilon = max_relative = f64::EPSILON`) for `x ≥ 0`:
`x == 0 || |x| <= eps || |x| <= |x| * eps` -/
def relEqZero (x : K) : Bool := neq x 0 || decide (nabs (x - 0) ≤ eps) || decide (nabs (x - 0) ≤ nmax (nabs x) (nabs 0) * eps)

/-- the glue, generic in the vector type: `dot`, `w1 - n * target`, `inverse_transform_vector(-n)`, `inverse_transform_point` -/
def castGlue {V : Type} (dot : V → V → K) (backOff : V → V → K → V) (invRotNeg : V → V) (invAct : V → V)
    (vel12 : V) (t : Taps V K) (o : Opts K) : Option (Hit V K) :=
  if relEqZero t.velNorm then
    match t.cTarget with
    | none => none
    | some c => if !o.stop then none else some ⟨0, c.p1, c.p2, c.n1, c.n2, .penetrating⟩
  else
    match (if 0 < o.target then t.ddRound else t.ddPlain) with
    | none => none
    | some (toi, n, w1, w2) =>
      if o.maxToi < toi then none
      else if (o.cig || !o.stop) && decide (toi < lit 1 100000) then
        match t.cMax with
        | none => none
        | some c =>
          let normalVel := dot c.n1 vel12
          if !o.stop && decide (0 ≤ normalVel) then none
          else some ⟨toi, c.p1, c.p2, c.n1, c.n2, .penetrating⟩
      else
        some ⟨toi, backOff w1 n o.target, invAct w2, n, invRotNeg n, if neq toi 0 then .penetrating else .converged⟩

def castSmSm3 (pos12 : Iso3 K) (vel12 : V3 K) (t : Taps (V3 K) K) (o : Opts K) : Option (Hit (V3 K) K) :=
  castGlue V3.dot (fun w n tg => w.sub (n.smul tg)) (fun n => pos12.invRot n.neg) pos12.invAct vel12 t o
def castSmSm2 (pos12 : Iso2 K) (vel12 : V2 K) (t : Taps (V2 K) K) (o : Opts K) : Option (Hit (V2 K) K) :=
  castGlue V2.dot (fun w n tg => w.sub (n.smul tg)) (fun n => pos12.invRot n.neg) pos12.invAct vel12 t o

end Model.SG
