# Regenerates the 2-D section of Theorems.lean from the 3-D block (renaming + the listed manual patches).
import re
import os
p=os.path.join(os.path.dirname(os.path.abspath(__file__)),'Theorems.lean')
s=open(p).read()
start=s.index('private theorem normSq3_eq_zero')
end_=s.index('/-! # the same in 2-D') if '/-! # the same in 2-D' in s else s.index('/-! ## the pinned tree is refuted; non-vacuity -/')
block=s[start:end_]
def drop(block, startpat, endpat):
    i=block.index(startpat); j=block.index(endpat,i)
    return block[:i]+block[j:]
block=drop(block,'private theorem copysign_field','private theorem normalize3_unit')
block=drop(block,'/-! ## hit wrappers -/','theorem transform1By3_identity')
ren={
 'V3':'V2','Iso3':'Iso2','SM3':'SM2','Motion3':'Motion2','UnitQ':'UnitC','Cuboid3':'Cuboid2','Mem3':'Mem2',
 'rot_invRot':'rot_invRot2','invRot_rot':'invRot_rot2','dot_rot_rot':'dot_rot_rot2','dot_invRot_invRot':'dot_invRot_invRot2',
 'dot_rot_eq':'dot_rot_eq2','rot_add':'rot_add2','rot_sub':'rot_sub2','rot_smul':'rot_smul2','rot_neg':'rot_neg2',
 'tri3':'tri2','cs3':'cs2',
 'invRot_add':'invRot_add2','invRot_sub':'invRot_sub2','invRot_smul':'invRot_smul2','invRot_neg':'invRot_neg2',
}
def sub_ident(m):
    w=m.group(0)
    if w in ren: return ren[w]
    if re.fullmatch(r"[a-zA-Z]{1,3}\d'?", w): return w      # hypothesis names like h3, e3, hx1
    if re.fullmatch(r"[A-Za-z_][A-Za-z_0-9']*3", w): return w[:-1]+'2'
    return re.sub(r'3_', '2_', w)
b=re.sub(r"[A-Za-z_][A-Za-z_0-9']*", sub_ident, block)
R=[
('v.x = 0 ∧ v.y = 0 ∧ v.z = 0','v.x = 0 ∧ v.y = 0'),
('have hx := mul_self_nonneg v.x; have hy := mul_self_nonneg v.y; have hz := mul_self_nonneg v.z\n  refine ⟨?_, ?_, ?_⟩','have hx := mul_self_nonneg v.x; have hy := mul_self_nonneg v.y\n  refine ⟨?_, ?_⟩'),
(', mul_self_nonneg dir.z',''),(', mul_self_nonneg v.z',''),
('obtain ⟨hx, hy, hz⟩ := normSq2_eq_zero sq dir h\n    simp only [V2.dot, hx, hy, hz]','obtain ⟨hx, hy⟩ := normSq2_eq_zero sq dir h\n    simp only [V2.dot, hx, hy]'),
('| .cuboid he => 0 ≤ he.x ∧ 0 ≤ he.y ∧ 0 ≤ he.z','| .cuboid he => 0 ≤ he.x ∧ 0 ≤ he.y'),
('    obtain ⟨hx, hy, hz⟩ := hv\n','    obtain ⟨hx, hy⟩ := hv\n'),
("      copysign_field sq _ _ hx, copysign_field sq _ _ hy, copysign_field sq _ _ hz]","      copysign_field sq _ _ hx, copysign_field sq _ _ hy]"),
('      refine ⟨?_, ?_, ?_⟩ <;> split_ifs <;> constructor <;> linarith','      refine ⟨?_, ?_⟩ <;> split_ifs <;> constructor <;> linarith'),
('    · intro q ⟨⟨qx1, qx2⟩, ⟨qy1, qy2⟩, qz1, qz2⟩','    · intro q ⟨⟨qx1, qx2⟩, qy1, qy2⟩'),
('''      have bz : m.z * (if -m.z < 0 then -he.z else he.z) ≤ m.z * q.z := by
        split_ifs with c
        · nlinarith
        · nlinarith
''',''),
('linear_combination (-(sp0.x - n.x * o.target + vel12.x * toi) * n.x - (sp0.y - n.y * o.target + vel12.y * toi) * n.y - (sp0.z - n.z * o.target + vel12.z * toi) * n.z) * hn','linear_combination (-(sp0.x - n.x * o.target + vel12.x * toi) * n.x - (sp0.y - n.y * o.target + vel12.y * toi) * n.y) * hn'),
('''        · linear_combination (-(n.y * o.target)) * hn
        · linear_combination (-(n.z * o.target)) * hn''','''        · linear_combination (-(n.y * o.target)) * hn'''),
# isometry-specific proofs
('''  apply V2.ext' <;>
  simp only [moved2, Iso2.invAct, Iso2.act, Iso2.inverse, Iso2.invRot, Iso2.rot, Iso2.rotQ, Iso2.qv, V2.cross, V2.smul,
    V2.add, V2.sub, V2.neg, fieldNum_two] <;> ring''','''  apply V2.ext' <;>
  simp only [moved2, Iso2.invAct, Iso2.act, Iso2.inverse, Iso2.invRot, Iso2.rot, V2.smul,
    V2.add, V2.sub, V2.neg] <;> ring'''),
('''  simp only [moved2, Iso2.invMul, Iso2.qmul, Iso2.qv, V2.neg]
  congr 1
  apply V2.ext' <;>
  simp only [Iso2.invRot, Iso2.rotQ, Iso2.qv, V2.cross, V2.smul, V2.add, V2.sub, V2.neg, fieldNum_two] <;> ring''','''  simp only [moved2, Iso2.invMul]
  congr 1
  apply V2.ext' <;>
  simp only [Iso2.invRot, Iso2.rot, V2.smul, V2.add, V2.sub] <;> ring'''),
('''  obtain ⟨⟨i, j, k, w, tr⟩, lc, lv⟩ := m
  simp only [Motion2.positionAtTime, moved2, Iso2.mul, Iso2.qmul, Iso2.rot, Iso2.rotQ, Iso2.qv, Iso2.act]
  congr 1
  · ring
  · ring
  · ring
  · ring
  · apply V2.ext' <;> simp only [V2.cross, V2.smul, V2.add, V2.neg, fieldNum_two] <;> ring''','''  obtain ⟨⟨re, im, tr⟩, lc, lv⟩ := m
  simp only [Motion2.positionAtTime, moved2, Iso2.mul, Iso2.rot, Iso2.act]
  congr 1
  · ring
  · ring
  · apply V2.ext' <;> simp only [V2.smul, V2.add, V2.neg] <;> ring'''),
('''  simp only [Hit.transform1By2, Iso2.identity, Iso2.act, Iso2.rot, Iso2.rotQ, Iso2.qv]
  congr 1 <;> apply V2.ext' <;> simp only [V2.cross, V2.smul, V2.add, V2.zero, fieldNum_two] <;> ring''','''  simp only [Hit.transform1By2, Iso2.identity, Iso2.act, Iso2.rot]
  congr 1 <;> apply V2.ext' <;> simp only [V2.add, V2.zero] <;> ring'''),
('any quaternion','any complex number'),('halfspace n) pos2 vel2 (.cuboid he)','halfspace n) pos2 vel2 (.cuboid he)'),('(unit quaternion','(unit complex rotation'),('unit quaternion','unit complex rotation'),
]
for a,c in R:
    if a not in b: print('MISSING',a[:70])
    b=b.replace(a,c)
pass
T=open(p).read()
marker='/-! ## the pinned tree is refuted; non-vacuity -/'
if '/-! # the same in 2-D' in T:
    T=T[:T.index('/-! # the same in 2-D')]+T[T.index(marker):]
T=T.replace(marker,'/-! # the same in 2-D (generated from the 3-D block by renaming; proofs identical up to the dropped `z` component) -/\n\n'+b+'\n'+marker)
open(p,'w').write(T)

