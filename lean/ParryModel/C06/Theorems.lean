import ParryModel.C06.Lemmas
import ParryModel.C06.Theorems2
import ParryModel.C06.Theorems3
import ParryModel.C06.Theorems4
import ParryModel.C06.Theorems5
import ParryModel.C06.Theorems6
import Mathlib.Analysis.Real.Sqrt
/-!
# C06 property theorems: closed-form shape casts report the first time of impact.

All statements are about the model functions of `C06/Model.lean` at the lawful instance `fieldNum K sq`
(any linearly ordered field `K`; `sq` a lawful square root where the code calls `sqrt`).
Distances are compared through their squares, so no statement needs a square root in its *specification*.
-/
namespace C06
open Model Model.SC
variable {K : Type} [Field K] [LinearOrder K] [IsStrictOrderedRing K] (sq : K → K)

/-! ## `ray_toi_with_ball` -/

/-- **ray/ball kernel, solid** — for `q(s) = a s² + 2 b s + c` (`= |o + s·dir - centre|² - r²` with the `a b c` the code
computes; `a = |dir|² ≥ 0`, and `dir = 0 ⇒ b = 0`): a returned `t` is the *first* `s ≥ 0` with `q(s) ≤ 0`
(`q(t) ≤ 0`, `q > 0` on `[0,t)`), `inside ⇔ q(0) ≤ 0` and then `t = 0`, otherwise `q(t) = 0` (on the sphere);
`None` ⇒ `q > 0` on all of `[0,∞)`.  Zero and non-unit directions included. -/
theorem rayBallCore_solid_spec (hsq : LawfulSqrt sq) (a b c : K) (ha : 0 ≤ a) (hab : a = 0 → b = 0) :
    letI := fieldNum K sq
    match rayBallCore a b c true with
    | (inside, some t) => 0 ≤ t ∧ a*t*t + 2*b*t + c ≤ 0 ∧ (∀ s, 0 ≤ s → s < t → 0 < a*s*s + 2*b*s + c)
         ∧ (inside = true ↔ c ≤ 0) ∧ (inside = true → t = 0) ∧ (inside = false → a*t*t + 2*b*t + c = 0)
    | (inside, none) => inside = false ∧ ∀ s, 0 ≤ s → 0 < a*s*s + 2*b*s + c := by
  simp only [rayBallCore, neq, fieldNum_sqrt]
  split_ifs with h1 h2 h3 h4 h5
  · simp only [Bool.and_eq_true, decide_eq_true_eq] at h1
    have a0 : a = 0 := le_antisymm h1.1 h1.2
    have b0 := hab a0
    refine ⟨rfl, fun s _ => ?_⟩
    rw [a0, b0]; simpa using h2
  · simp only [Bool.and_eq_true, decide_eq_true_eq] at h1
    have a0 : a = 0 := le_antisymm h1.1 h1.2
    have b0 := hab a0
    push Not at h2
    refine ⟨le_refl _, by simpa using h2, fun s h h' => absurd h' (not_lt.2 h), by simpa using h2, fun _ => rfl, fun h => by simp at h⟩
  · simp only [Bool.and_eq_true, decide_eq_true_eq] at h3
    exact ⟨rfl, fun s hs => quad_pos_of_pos_pos a b c s ha h3.2 h3.1 hs⟩
  · simp only [Bool.and_eq_true, decide_eq_true_eq, not_and, not_le] at h1
    have apos : 0 < a := lt_of_le_of_ne ha (fun e => by have := h1 (by rw [← e]); exact absurd this (by rw [← e]; simp))
    exact ⟨rfl, fun s _ => quad_pos_of_disc_neg a b c s apos h4⟩
  · simp only [Bool.and_eq_true, decide_eq_true_eq, not_and, not_le] at h1 h3
    have apos : 0 < a := lt_of_le_of_ne ha (fun e => by have := h1 (by rw [← e]); exact absurd this (by rw [← e]; simp))
    push Not at h4
    have hr := hsq.nonneg _ h4
    have hrr := hsq.sq_mul _ h4
    set r := sq (b * b - a * c) with hrdef
    have hnum : -b - r ≤ 0 := by
      by_contra hh; push Not at hh
      exact absurd h5 (not_le.2 (div_pos hh apos))
    have hc : c ≤ 0 := by
      by_contra hc; push Not at hc
      have hb : b ≤ 0 := not_lt.1 (h3 hc)
      nlinarith [mul_pos apos hc]
    refine ⟨le_refl _, by simpa using hc, fun s h h' => absurd h' (not_lt.2 h), by simpa using hc, fun _ => rfl, fun h => by simp at h⟩
  · simp only [Bool.and_eq_true, decide_eq_true_eq, not_and, not_le] at h1 h3
    have apos : 0 < a := lt_of_le_of_ne ha (fun e => by have := h1 (by rw [← e]); exact absurd this (by rw [← e]; simp))
    push Not at h4 h5
    have hr := hsq.nonneg _ h4
    have hrr := hsq.sq_mul _ h4
    set r := sq (b * b - a * c) with hrdef
    have hat : a * ((-b - r) / a) = -b - r := mul_div_cancel₀ _ apos.ne'
    obtain ⟨q0, qpos⟩ := quad_first_root a b c r _ apos hr hrr hat
    have hc : 0 < c := by have := qpos 0 h5; simpa using this
    refine ⟨h5.le, q0.le, fun s _ h' => qpos s h', ?_, fun h => by simp at h, fun _ => q0⟩
    simp [not_le.2 hc]

example : (0:ℚ) ≤ 4 ∧ ((4:ℚ) = 0 → (-6:ℚ) = 0) := by norm_num

private theorem normSq3_eq_zero (v : V3 K) :
    letI := fieldNum K sq
    v.normSq = 0 → v.x = 0 ∧ v.y = 0 ∧ v.z = 0 := by
  simp only [V3.normSq, V3.dot]
  intro h
  have hx := mul_self_nonneg v.x; have hy := mul_self_nonneg v.y; have hz := mul_self_nonneg v.z
  refine ⟨?_, ?_, ?_⟩ <;> exact mul_self_eq_zero.1 (by linarith)

/-- **ray/ball, solid, vectors** — `q(s) = |o + s·dir - c|² - r²`; a returned `t` is the first `s ≥ 0` at which the ray point is in the ball, `inside ⇔` the origin is in the ball (then `t = 0`), otherwise the hit point is on the sphere; `None` ⇒ the ray never meets the ball.  Any direction (zero, non-unit). -/
theorem rayToiWithBall3_solid_spec (hsq : LawfulSqrt sq) (center origin dir : V3 K) (radius : K) :
    letI := fieldNum K sq
    let q : K → K := fun s => ((origin.add (dir.smul s)).sub center).normSq - radius * radius
    match rayToiWithBall3 center radius origin dir true with
    | (inside, some t) => 0 ≤ t ∧ q t ≤ 0 ∧ (∀ s, 0 ≤ s → s < t → 0 < q s)
         ∧ (inside = true ↔ q 0 ≤ 0) ∧ (inside = true → t = 0) ∧ (inside = false → q t = 0)
    | (inside, none) => inside = false ∧ ∀ s, 0 ≤ s → 0 < q s := by
  intro q
  have key : ∀ s, q s = (@V3.normSq K (fieldNum K sq) dir) * s * s + 2 * (@V3.dot K (fieldNum K sq) (@V3.sub K (fieldNum K sq) origin center) dir) * s
      + ((@V3.normSq K (fieldNum K sq) (@V3.sub K (fieldNum K sq) origin center)) - radius * radius) := by
    intro s; simp only [q, V3.normSq, V3.dot, V3.sub, V3.add, V3.smul]; ring
  have ha : 0 ≤ @V3.normSq K (fieldNum K sq) dir := by
    simp only [V3.normSq, V3.dot]; nlinarith [mul_self_nonneg dir.x, mul_self_nonneg dir.y, mul_self_nonneg dir.z]
  have hab : @V3.normSq K (fieldNum K sq) dir = 0 → @V3.dot K (fieldNum K sq) (@V3.sub K (fieldNum K sq) origin center) dir = 0 := by
    intro h; obtain ⟨hx, hy, hz⟩ := normSq3_eq_zero sq dir h
    simp only [V3.dot, hx, hy, hz]; ring
  have h := rayBallCore_solid_spec sq hsq _ _ ((@V3.normSq K (fieldNum K sq) (@V3.sub K (fieldNum K sq) origin center)) - radius * radius) ha hab
  simp only [rayToiWithBall3]
  revert h
  generalize @rayBallCore K (fieldNum K sq) _ _ _ true = res
  rcases res with ⟨inside, _ | t⟩
  · simp only [key]; exact id
  · simp only [key]
    intro h
    refine ⟨h.1, h.2.1, h.2.2.1, ?_, h.2.2.2.2.1, h.2.2.2.2.2⟩
    rw [h.2.2.2.1]; simp

/-- squared distance between the two ball centres at time `s`, in the frame of ball 1: `|t₁₂ + s·v₁₂|²` -/
def centreDistSq3 (pos12 : Iso3 K) (vel12 : V3 K) (s : K) : K :=
  letI := fieldNum K sq
  (pos12.t.add (vel12.smul s)).normSq

/-- **ball/ball, returned hit** (whatever the normal/witness computation `geom` — so also for the pinned tree): with `D(s) = |t₁₂ + s·v₁₂|²` the squared centre distance and `R = r1 + r2 + target`: `0 ≤ toi ≤ max`, `D(toi) ≤ R²`, `D > R²` on `[0, toi)` (first time of impact), status is `Penetrating…` or `Converged`, `Penetrating… ⇔ D(0) < R²` (initially strictly within target) and then `toi = 0`, `Converged ⇒ D(toi) = R²` (centre distance exactly `r1 + r2 + target`). -/
theorem castBallBallWith3_hit (hsq : LawfulSqrt sq) (geom : Iso3 K → V3 K → K → K → K → V3 K × V3 K × V3 K × V3 K)
    (pos12 : Iso3 K) (vel12 : V3 K) (r1 r2 : K) (o : Opts K) (h : Hit (V3 K) K) :
    letI := fieldNum K sq
    castBallBallWith3 geom pos12 vel12 r1 r2 o = some h →
    let R := r1 + r2 + o.target
    0 ≤ h.toi ∧ h.toi ≤ o.maxToi ∧ centreDistSq3 sq pos12 vel12 h.toi ≤ R * R ∧
    (∀ s, 0 ≤ s → s < h.toi → R * R < centreDistSq3 sq pos12 vel12 s) ∧
    (h.status = Status.penetrating ∨ h.status = Status.converged) ∧
    (h.status = Status.penetrating ↔ centreDistSq3 sq pos12 vel12 0 < R * R) ∧
    (h.status = Status.penetrating → h.toi = 0) ∧
    (h.status = Status.converged → centreDistSq3 sq pos12 vel12 h.toi = R * R) := by
  intro hres R
  let _ : Num K := fieldNum K sq
  have hr := rayToiWithBall3_solid_spec sq hsq pos12.t.neg V3.zero vel12 R
  have key : ∀ s, (((V3.zero : V3 K).add (vel12.smul s)).sub pos12.t.neg).normSq - R * R
      = centreDistSq3 sq pos12 vel12 s - R * R := by
    intro s; simp only [centreDistSq3, V3.normSq, V3.dot, V3.sub, V3.add, V3.smul, V3.neg, V3.zero]; ring
  have key0 : pos12.t.neg.normSq = centreDistSq3 sq pos12 vel12 0 := by
    simp only [centreDistSq3, V3.normSq, V3.dot, V3.add, V3.smul, V3.neg]; ring
  simp only [castBallBallWith3] at hres
  revert hr hres
  generalize rayToiWithBall3 _ _ _ vel12 true = res
  rcases res with ⟨inside, _ | toi⟩
  · intro _ hres; simp at hres
  · simp only [key]
    intro hr hres
    obtain ⟨t0, qle, qpos, hin, hin0, hout⟩ := hr
    split_ifs at hres with h1 h2 h3
    · -- penetrating
      simp only [Option.some.injEq] at hres
      subst hres
      push Not at h1
      simp only [Bool.and_eq_true, decide_eq_true_eq] at h3
      rw [key0] at h3
      refine ⟨t0, h1, by linarith, fun s hs hs' => by linarith [qpos s hs hs'], Or.inl rfl, ?_, fun _ => hin0 h3.1, fun hh => by simp at hh⟩
      simp only [true_iff]; exact h3.2
    · -- converged
      simp only [Option.some.injEq] at hres
      subst hres
      push Not at h1
      simp only [Bool.and_eq_true, decide_eq_true_eq, not_and, not_lt] at h3
      rw [key0] at h3
      refine ⟨t0, h1, by linarith, fun s hs hs' => by linarith [qpos s hs hs'], Or.inr rfl, ?_, fun hh => by simp at hh, fun _ => ?_⟩
      · simp only [reduceCtorEq, false_iff, not_lt]
        cases inside
        · have : ¬ (centreDistSq3 sq pos12 vel12 0 - R * R ≤ 0) := fun hh => by simpa using hin.2 hh
          linarith [not_le.1 this]
        · exact h3 rfl
      · cases inside
        · linarith [hout rfl]
        · have h0 := hin0 rfl
          have h4 := hin.1 rfl
          have h5 := h3 rfl
          rw [h0]
          linarith

/-- **ball/ball, `None` with `stop_at_penetration`**: the centre distance stays strictly above `r1 + r2 + target` on all of `[0, max_time_of_impact]`. -/
theorem castBallBallWith3_none_stop (hsq : LawfulSqrt sq) (geom : Iso3 K → V3 K → K → K → K → V3 K × V3 K × V3 K × V3 K)
    (pos12 : Iso3 K) (vel12 : V3 K) (r1 r2 : K) (o : Opts K) :
    letI := fieldNum K sq
    castBallBallWith3 geom pos12 vel12 r1 r2 o = none → o.stop = true →
    let R := r1 + r2 + o.target
    ∀ s, 0 ≤ s → s ≤ o.maxToi → R * R < centreDistSq3 sq pos12 vel12 s := by
  intro hres hstop R
  let _ : Num K := fieldNum K sq
  have hr := rayToiWithBall3_solid_spec sq hsq pos12.t.neg V3.zero vel12 R
  have key : ∀ s, (((V3.zero : V3 K).add (vel12.smul s)).sub pos12.t.neg).normSq - R * R
      = centreDistSq3 sq pos12 vel12 s - R * R := by
    intro s; simp only [centreDistSq3, V3.normSq, V3.dot, V3.sub, V3.add, V3.smul, V3.neg, V3.zero]; ring
  simp only [castBallBallWith3] at hres
  revert hr hres
  generalize rayToiWithBall3 _ _ _ vel12 true = res
  rcases res with ⟨inside, _ | toi⟩
  · simp only [key]
    intro hr _ s hs _
    linarith [hr.2 s hs]
  · simp only [key]
    intro hr hres s hs hs'
    obtain ⟨t0, qle, qpos, hin, hin0, hout⟩ := hr
    split_ifs at hres with h1 h2
    · linarith [qpos s hs (lt_of_le_of_lt hs' h1)]
    · simp [hstop] at h2

private theorem dpt_eq3 (t v : V3 K) (s : K) :
    letI := fieldNum K sq
    ((V3.zero : V3 K).add (v.smul s)).sub t.neg = t.add (v.smul s) := by
  apply V3.ext' <;> simp only [V3.zero, V3.add, V3.sub, V3.smul, V3.neg] <;> ring

private theorem castBallBallWith3_fields (geom : Iso3 K → V3 K → K → K → K → V3 K × V3 K × V3 K × V3 K)
    (pos12 : Iso3 K) (vel12 : V3 K) (r1 r2 : K) (o : Opts K) (h : Hit (V3 K) K) :
    letI := fieldNum K sq
    castBallBallWith3 geom pos12 vel12 r1 r2 o = some h →
    let g := geom pos12 (pos12.t.add (vel12.smul h.toi)) (r1 + r2 + o.target) r1 r2
    h.n1 = g.1 ∧ h.n2 = g.2.1 ∧ h.w1 = g.2.2.1 ∧ h.w2 = g.2.2.2 ∧
      (o.stop = false → h.toi < 1 / 100000 → g.1.dot vel12 < 0) := by
  intro hres
  let _ : Num K := fieldNum K sq
  simp only [castBallBallWith3, dpt_eq3] at hres
  revert hres
  generalize rayToiWithBall3 _ _ _ vel12 true = res
  rcases res with ⟨inside, _ | toi⟩
  · intro hres; simp at hres
  · intro hres
    have hl : ((mkRat 1 100000 : Rat) : K) = 1 / 100000 := by norm_num
    dsimp only at hres
    split_ifs at hres with h1 h2 h3 <;>
    · simp only [Option.some.injEq] at hres
      subst hres
      refine ⟨rfl, rfl, rfl, rfl, fun hs ht => ?_⟩
      simp only [hs, Bool.not_false, Bool.true_and, Bool.and_eq_true, decide_eq_true_eq, not_and, not_le, fieldNum_lit, hl] at h2
      exact h2 ht

private theorem normSq3_nonneg (v : V3 K) :
    letI := fieldNum K sq
    0 ≤ v.normSq := by
  simp only [V3.normSq, V3.dot]; nlinarith [mul_self_nonneg v.x, mul_self_nonneg v.y, mul_self_nonneg v.z]

/-- the corrected normal: unit in every case; the normalised argument when that is longer than `ε`, else the x-axis -/
private theorem ballBallGeom3_n1 (hsq : LawfulSqrt sq) (pos12 : Iso3 K) (dpt : V3 K) (R r1 r2 : K) :
    letI := fieldNum K sq
    let n1 := (ballBallGeom3 pos12 dpt R r1 r2).1
    n1.normSq = 1 ∧ (eps * eps < dpt.normSq → n1.smul (sq dpt.normSq) = dpt) ∧ (¬ eps * eps < dpt.normSq → n1 = xAxis3) := by
  let _ : Num K := fieldNum K sq
  simp only [ballBallGeom3, tryNormalize3, fieldNum_sqrt]
  by_cases hN : (eps : K) * eps < dpt.normSq
  · simp only [hN, ↓reduceIte, not_true_eq_false, false_implies, and_true, true_implies]
    have hpos : (0 : K) < dpt.normSq := lt_of_le_of_lt (mul_self_nonneg _) hN
    have hρ := sq_pos sq hsq _ hpos
    have hρρ := hsq.sq_mul _ hpos.le
    generalize sq dpt.normSq = ρ at hρ hρρ ⊢
    have hne : ρ ≠ 0 := hρ.ne'
    constructor
    · simp only [V3.normSq, V3.dot, V3.sdiv] at hρρ ⊢
      field_simp
      linarith
    · apply V3.ext' <;> simp only [V3.sdiv, V3.smul] <;> field_simp
  · simp only [hN, ↓reduceIte, false_implies, not_false_eq_true, true_implies, and_true]
    simp only [xAxis3, V3.normSq, V3.dot]; ring

/-- **ball/ball, normals and witnesses** (corrected code; unit quaternion): both normals are unit, opposite in the common frame (`R₁₂ n2 = -n1`), the witnesses are `r_i · n_i` — on their spheres —, `n1` is the direction from centre 1 to centre 2 at the time of impact (`n1 · |dpt| = dpt` when `|dpt| > ε`), and for a `Converged` hit the two witnesses, seen in frame 1 at the time of impact, are exactly `target` apart along `n1`. -/
theorem castBallBall3_geometry (hsq : LawfulSqrt sq) (pos12 : Iso3 K) (vel12 : V3 K) (r1 r2 : K) (o : Opts K)
    (h : Hit (V3 K) K) (hq : UnitQ pos12) :
    letI := fieldNum K sq
    castBallBall3 pos12 vel12 r1 r2 o = some h →
    let R := r1 + r2 + o.target
    let dpt := pos12.t.add (vel12.smul h.toi)
    h.n1.normSq = 1 ∧ h.n2.normSq = 1 ∧ pos12.rot h.n2 = h.n1.neg ∧
    h.w1 = h.n1.smul r1 ∧ h.w2 = h.n2.smul r2 ∧ h.w1.normSq = r1 * r1 ∧ h.w2.normSq = r2 * r2 ∧
    (eps * eps < dpt.normSq → h.n1.smul (sq dpt.normSq) = dpt) ∧
    (h.status = Status.converged → eps * eps < dpt.normSq → 0 ≤ R →
      ((pos12.rot h.w2).add dpt).sub h.w1 = h.n1.smul o.target) := by
  intro hres R dpt
  let _ : Num K := fieldNum K sq
  obtain ⟨e1, e2, e3, e4, -⟩ := castBallBallWith3_fields sq ballBallGeom3 pos12 vel12 r1 r2 o h hres
  obtain ⟨_, _, _, _, _, _, _, hconv⟩ := castBallBallWith3_hit sq hsq ballBallGeom3 pos12 vel12 r1 r2 o h hres
  obtain ⟨g1, g2, _⟩ := ballBallGeom3_n1 sq hsq pos12 dpt R r1 r2
  have hn2 : h.n2 = pos12.invRot h.n1.neg := by rw [e2, e1]; rfl
  have hw1 : h.w1 = h.n1.smul r1 := by rw [e3, e1]; rfl
  have hw2 : h.w2 = h.n2.smul r2 := by rw [e4, e2]; rfl
  have hn1 : h.n1.normSq = 1 := by rw [e1]; exact g1
  have hrot : pos12.rot h.n2 = h.n1.neg := by rw [hn2]; exact rot_invRot sq pos12 _ hq
  have hn2n : h.n2.normSq = 1 := by
    have := dot_invRot_invRot sq pos12 h.n1.neg h.n1.neg hq
    rw [hn2]; simp only [V3.normSq] at hn1 ⊢; rw [this]
    simp only [V3.dot, V3.neg] at hn1 ⊢; linarith
  refine ⟨hn1, hn2n, hrot, hw1, hw2, ?_, ?_, fun hd => by rw [e1]; exact g2 hd, fun hc hd hR => ?_⟩
  · rw [hw1]; simp only [V3.normSq, V3.dot, V3.smul] at hn1 ⊢; linear_combination (r1 * r1) * hn1
  · rw [hw2]; simp only [V3.normSq, V3.dot, V3.smul] at hn2n ⊢; linear_combination (r2 * r2) * hn2n
  · have hD : dpt.normSq = R * R := hconv hc
    have hρ : sq dpt.normSq = R := sq_unique sq hsq _ R hR hD.symm
    have hd' := g2 hd
    rw [← e1, hρ] at hd'
    rw [hw2, rot_smul, hrot, hw1, ← hd']
    apply V3.ext' <;> simp only [V3.add, V3.sub, V3.smul, V3.neg] <;> ring

/-- **ball/ball, `None` without `stop_at_penetration`**: either the distance stays above target on `[0,max]`, or there is a first contact at some `t < 1e-5` that was discarded because the balls are not approaching there — and then (centres not coincident) they never get closer than at `t` again. -/
theorem castBallBall3_none_nostop (hsq : LawfulSqrt sq) (pos12 : Iso3 K) (vel12 : V3 K) (r1 r2 : K) (o : Opts K) :
    letI := fieldNum K sq
    castBallBall3 pos12 vel12 r1 r2 o = none → o.stop = false →
    let R := r1 + r2 + o.target
    let D := centreDistSq3 sq pos12 vel12
    (∀ s, 0 ≤ s → s ≤ o.maxToi → R * R < D s) ∨
    (∃ t, 0 ≤ t ∧ t < 1 / 100000 ∧ t ≤ o.maxToi ∧ D t ≤ R * R ∧ (∀ s, 0 ≤ s → s < t → R * R < D s) ∧
      (eps * eps < D t → ∀ s, t ≤ s → D t ≤ D s)) := by
  intro hres hstop R D
  let _ : Num K := fieldNum K sq
  have hr := rayToiWithBall3_solid_spec sq hsq pos12.t.neg V3.zero vel12 R
  have key : ∀ s, (((V3.zero : V3 K).add (vel12.smul s)).sub pos12.t.neg).normSq - R * R = D s - R * R := by
    intro s; simp only [D, centreDistSq3, V3.normSq, V3.dot, V3.sub, V3.add, V3.smul, V3.neg, V3.zero]; ring
  simp only [castBallBall3, castBallBallWith3, dpt_eq3] at hres
  revert hr hres
  generalize rayToiWithBall3 _ _ _ vel12 true = res
  rcases res with ⟨inside, _ | toi⟩
  · simp only [key]
    intro hr _
    exact Or.inl fun s hs _ => by linarith [hr.2 s hs]
  · simp only [key]
    intro hr hres
    obtain ⟨t0, qle, qpos, hin, hin0, hout⟩ := hr
    have hl : ((mkRat 1 100000 : Rat) : K) = 1 / 100000 := by norm_num
    split_ifs at hres with h1 h2
    · exact Or.inl fun s hs hs' => by linarith [qpos s hs (lt_of_le_of_lt hs' h1)]
    · push Not at h1
      simp only [hstop, Bool.not_false, Bool.true_and, Bool.and_eq_true, decide_eq_true_eq, fieldNum_lit, hl] at h2
      refine Or.inr ⟨toi, t0, h2.1, h1, by linarith, fun s hs hs' => by linarith [qpos s hs hs'], fun hd s hs => ?_⟩
      obtain ⟨_, g2, _⟩ := ballBallGeom3_n1 sq hsq pos12 (pos12.t.add (vel12.smul toi)) R r1 r2
      have hDt : D toi = (pos12.t.add (vel12.smul toi)).normSq := rfl
      rw [hDt] at hd
      have hd' := g2 hd
      have hρ := sq_pos sq hsq _ (lt_of_le_of_lt (mul_self_nonneg _) hd)
      -- dpt·v = ρ (n1·v) ≥ 0
      have hdv : 0 ≤ (pos12.t.add (vel12.smul toi)).dot vel12 := by
        have : (pos12.t.add (vel12.smul toi)).dot vel12
            = sq (pos12.t.add (vel12.smul toi)).normSq * ((ballBallGeom3 pos12 (pos12.t.add (vel12.smul toi)) R r1 r2).1.dot vel12) := by
          conv_lhs => rw [← hd']
          simp only [V3.dot, V3.smul]; ring
        rw [this]; exact mul_nonneg hρ.le h2.2
      have : D s - D toi = 2 * (s - toi) * (pos12.t.add (vel12.smul toi)).dot vel12 + (s - toi) * (s - toi) * vel12.normSq := by
        simp only [D, centreDistSq3, V3.normSq, V3.dot, V3.add, V3.smul]; ring
      nlinarith [mul_nonneg (sub_nonneg.2 hs) hdv, mul_nonneg (mul_self_nonneg (s - toi)) (normSq3_nonneg sq vel12)]

/-! ## Minkowski reduction -/

/-- **Minkowski reduction, arbitrary sets.**  Two sets `A`, `B + s·v` come within `τ` of each other iff the ray point
`s·v` lies in `(A ⊖ B) ⊕ Ball τ`. -/
theorem minkowski_reduction_sets3 (A B : V3 K → Prop) (v : V3 K) (s τ : K) :
    letI := fieldNum K sq
    (∃ a b : V3 K, A a ∧ B b ∧ (a.sub (b.add (v.smul s))).normSq ≤ τ * τ) ↔
    (∃ m e : V3 K, (∃ a b : V3 K, A a ∧ B b ∧ m = a.sub b) ∧ e.normSq ≤ τ * τ ∧ v.smul s = m.add e) := by
  let _ : Num K := fieldNum K sq
  constructor
  · rintro ⟨a, b, ha, hb, h⟩
    refine ⟨a.sub b, (b.add (v.smul s)).sub a, ⟨a, b, ha, hb, rfl⟩, ?_, ?_⟩
    · have : ((b.add (v.smul s)).sub a).normSq = (a.sub (b.add (v.smul s))).normSq := by
        simp only [V3.normSq, V3.dot, V3.sub, V3.add, V3.smul]; ring
      rw [this]; exact h
    · apply V3.ext' <;> simp only [V3.sub, V3.add, V3.smul] <;> ring
  · rintro ⟨m, e, ⟨a, b, ha, hb, rfl⟩, he, hv⟩
    refine ⟨a, b, ha, hb, ?_⟩
    have : (a.sub (b.add (v.smul s))).normSq = e.normSq := by
      rw [hv]; simp only [V3.normSq, V3.dot, V3.sub, V3.add]; ring
    rw [this]; exact he

/-- **Minkowski reduction for balls.**  Balls `B(c₁,r₁)` and `B(c₂,r₂)+s·v` contain points within `τ` of each other
iff the centres are within `r₁+r₂+τ`: the time-of-impact question is a ray cast on one ball of radius `r₁+r₂+τ`. -/
theorem minkowski_reduction_balls3 (c1 c2 v : V3 K) (r1 r2 τ s : K) (h1 : 0 ≤ r1) (h2 : 0 ≤ r2) (hτ : 0 ≤ τ) :
    letI := fieldNum K sq
    (∃ a b : V3 K, (a.sub c1).normSq ≤ r1 * r1 ∧ (b.sub (c2.add (v.smul s))).normSq ≤ r2 * r2 ∧ (a.sub b).normSq ≤ τ * τ) ↔
    ((c2.add (v.smul s)).sub c1).normSq ≤ (r1 + r2 + τ) * (r1 + r2 + τ) := by
  let _ : Num K := fieldNum K sq
  constructor
  · rintro ⟨a, b, ha, hb, hab⟩
    -- c2' - c1 = (a - c1) + ((b - a) + (c2' - b))
    have hba : (b.sub a).normSq ≤ τ * τ := by
      have : (b.sub a).normSq = (a.sub b).normSq := by simp only [V3.normSq, V3.dot, V3.sub]; ring
      rw [this]; exact hab
    have hcb : ((c2.add (v.smul s)).sub b).normSq ≤ r2 * r2 := by
      have : ((c2.add (v.smul s)).sub b).normSq = (b.sub (c2.add (v.smul s))).normSq := by simp only [V3.normSq, V3.dot, V3.sub]; ring
      rw [this]; exact hb
    have t1 := tri3 sq _ _ τ r2 hτ h2 hba hcb
    have t2 := tri3 sq _ _ r1 (τ + r2) h1 (add_nonneg hτ h2) ha t1
    have : (c2.add (v.smul s)).sub c1 = (a.sub c1).add ((b.sub a).add ((c2.add (v.smul s)).sub b)) := by
      apply V3.ext' <;> simp only [V3.sub, V3.add] <;> ring
    rw [this]
    calc _ ≤ (r1 + (τ + r2)) * (r1 + (τ + r2)) := t2
      _ = _ := by ring
  · intro h
    set d := (c2.add (v.smul s)).sub c1 with hd
    set R := r1 + r2 + τ with hR
    have hR0 : 0 ≤ R := by positivity
    rcases hR0.lt_or_eq with hpos | hzero
    · -- points on the segment between the centres, at fractions r1/R and 1 - r2/R
      refine ⟨c1.add (d.smul (r1 / R)), c1.add (d.smul (1 - r2 / R)), ?_, ?_, ?_⟩
      · have : ((c1.add (d.smul (r1 / R))).sub c1).normSq = d.normSq * ((r1 / R) * (r1 / R)) := by
          simp only [V3.normSq, V3.dot, V3.sub, V3.add, V3.smul]; ring
        rw [this]
        have : d.normSq * ((r1 / R) * (r1 / R)) ≤ (R * R) * ((r1 / R) * (r1 / R)) :=
          mul_le_mul_of_nonneg_right h (mul_self_nonneg _)
        have e : (R * R) * ((r1 / R) * (r1 / R)) = r1 * r1 := by field_simp
        linarith
      · have : ((c1.add (d.smul (1 - r2 / R))).sub (c2.add (v.smul s))).normSq = d.normSq * ((r2 / R) * (r2 / R)) := by
          simp only [hd, V3.normSq, V3.dot, V3.sub, V3.add, V3.smul]; ring
        rw [this]
        have : d.normSq * ((r2 / R) * (r2 / R)) ≤ (R * R) * ((r2 / R) * (r2 / R)) :=
          mul_le_mul_of_nonneg_right h (mul_self_nonneg _)
        have e : (R * R) * ((r2 / R) * (r2 / R)) = r2 * r2 := by field_simp
        linarith
      · have : ((c1.add (d.smul (r1 / R))).sub (c1.add (d.smul (1 - r2 / R)))).normSq = d.normSq * ((τ / R) * (τ / R)) := by
          have hτR : τ / R = 1 - r2 / R - r1 / R := by field_simp; simp only [hR]; ring
          rw [hτR]; simp only [V3.normSq, V3.dot, V3.sub, V3.add, V3.smul]; ring
        rw [this]
        have : d.normSq * ((τ / R) * (τ / R)) ≤ (R * R) * ((τ / R) * (τ / R)) :=
          mul_le_mul_of_nonneg_right h (mul_self_nonneg _)
        have e : (R * R) * ((τ / R) * (τ / R)) = τ * τ := by field_simp
        linarith
    · -- all radii vanish: the centres coincide
      have hr1 : r1 = 0 := by linarith
      have hr2 : r2 = 0 := by linarith
      have hτ0 : τ = 0 := by linarith
      have hd0 : d.normSq ≤ 0 := by rw [← hzero] at h; simpa using h
      have hd1 := normSq3_nonneg sq d
      refine ⟨c1, c1, ?_, ?_, ?_⟩
      · simp only [V3.normSq, V3.dot, V3.sub, hr1]; ring_nf; exact le_refl _
      · have : (c1.sub (c2.add (v.smul s))).normSq = d.normSq := by simp only [hd, V3.normSq, V3.dot, V3.sub]; ring
        rw [this, hr2]; linarith
      · simp only [V3.normSq, V3.dot, V3.sub, hτ0]; ring_nf; exact le_refl _

/-! ## half-space against a support-mapped shape -/

/-- the support-mapped shape as a set (local frame) -/
def smMem3 (s : SM3 K) (p : V3 K) : Prop :=
  letI := fieldNum K sq
  match s with
  | .ball r => (Ball.mk r).Mem3 p
  | .cuboid he => (Cuboid3.mk he).Mem p
/-- non-negative radius / half-extents -/
def smValid3 (s : SM3 K) : Prop :=
  match s with
  | .ball r => 0 ≤ r
  | .cuboid he => 0 ≤ he.x ∧ 0 ≤ he.y ∧ 0 ≤ he.z

private theorem copysign_field (d t : K) (ht : 0 ≤ t) :
    letI := fieldNum K sq
    copysign d t = if d < 0 then -t else t := by
  simp only [copysign, signbit_field, fieldNum_nabs, abs_of_nonneg ht, decide_eq_true_eq]

private theorem normalize3_unit (hsq : LawfulSqrt sq) (v : V3 K) :
    letI := fieldNum K sq
    v.normSq = 1 → normalize3 v = v := by
  intro h
  let _ : Num K := fieldNum K sq
  simp only [normalize3, V3.norm, fieldNum_sqrt, h, sq_one sq hsq]
  apply V3.ext' <;> simp [V3.sdiv]

private theorem normSq_neg3 (v : V3 K) :
    letI := fieldNum K sq
    v.neg.normSq = v.normSq := by
  simp only [V3.normSq, V3.dot, V3.neg]; ring

/-- **support point = deepest point.**  For a unit normal `n`, a unit rotation and a valid ball/cuboid, the point
`support_point(pos12, -n)` belongs to the posed shape and minimises `n·p` over it. -/
theorem supportPoint3_deepest (hsq : LawfulSqrt sq) (s : SM3 K) (pos12 : Iso3 K) (n : V3 K)
    (hq : UnitQ pos12) (hn : letI := fieldNum K sq; n.normSq = 1) (hv : smValid3 s) :
    letI := fieldNum K sq
    (∃ q, smMem3 sq s q ∧ s.supportPoint pos12 n.neg = pos12.act q) ∧
    ∀ q, smMem3 sq s q → n.dot (s.supportPoint pos12 n.neg) ≤ n.dot (pos12.act q) := by
  let _ : Num K := fieldNum K sq
  cases s with
  | ball r =>
    have hnn : n.neg.normSq = 1 := by rw [normSq_neg3]; exact hn
    simp only [SM3.supportPoint, normalize3_unit sq hsq _ hnn, smMem3, Ball.Mem3]
    simp only [smValid3] at hv
    constructor
    · refine ⟨pos12.invRot (n.neg.smul r), ?_, ?_⟩
      · have := dot_invRot_invRot sq pos12 (n.neg.smul r) (n.neg.smul r) hq
        simp only [V3.normSq] at hn ⊢; rw [this]
        simp only [V3.dot, V3.smul, V3.neg] at hn ⊢; nlinarith
      · simp only [Iso3.act, rot_invRot sq pos12 _ hq]
        apply V3.ext' <;> simp only [V3.add] <;> ring
    · intro q hqm
      have hb := (dot_bounds3 sq n (pos12.rot q) 1 r zero_le_one hv (by rw [hn]; norm_num)
        (by have := dot_rot_rot sq pos12 q q hq; simp only [V3.normSq] at hqm ⊢; rw [this]; exact hqm)).1
      simp only [Iso3.act, V3.dot, V3.add, V3.smul, V3.neg, V3.normSq] at hb hn ⊢
      nlinarith
  | cuboid he =>
    simp only [smValid3] at hv
    obtain ⟨hx, hy, hz⟩ := hv
    simp only [SM3.supportPoint, smMem3, Cuboid3.Mem]
    rw [invRot_neg sq pos12 n]
    simp only [copysign3, V3.neg,
      copysign_field sq _ _ hx, copysign_field sq _ _ hy, copysign_field sq _ _ hz]
    constructor
    · refine ⟨_, ?_, rfl⟩
      refine ⟨?_, ?_, ?_⟩ <;> split_ifs <;> constructor <;> linarith
    · intro q ⟨⟨qx1, qx2⟩, ⟨qy1, qy2⟩, qz1, qz2⟩
      simp only [Iso3.act]
      have e1 : ∀ p : V3 K, n.dot ((pos12.rot p).add pos12.t) = (pos12.invRot n).dot p + n.dot pos12.t := by
        intro p
        have := dot_rot_eq sq pos12 n p hq
        simp only [V3.dot, V3.add] at this ⊢; linarith
      rw [e1, e1]
      generalize pos12.invRot n = m
      simp only [V3.dot]
      have bx : m.x * (if -m.x < 0 then -he.x else he.x) ≤ m.x * q.x := by
        split_ifs with c
        · nlinarith
        · nlinarith
      have by' : m.y * (if -m.y < 0 then -he.y else he.y) ≤ m.y * q.y := by
        split_ifs with c
        · nlinarith
        · nlinarith
      have bz : m.z * (if -m.z < 0 then -he.z else he.z) ≤ m.z * q.z := by
        split_ifs with c
        · nlinarith
        · nlinarith
      linarith

/-- **`RoundShapeRef`** moves the deepest point by `τ` along `-n`. -/
theorem roundSupportPoint3_eq (hsq : LawfulSqrt sq) (s : SM3 K) (pos12 : Iso3 K) (n : V3 K) (τ : K)
    (hq : UnitQ pos12) (hn : letI := fieldNum K sq; n.normSq = 1) :
    letI := fieldNum K sq
    s.roundSupportPoint τ pos12 n.neg = (s.supportPoint pos12 n.neg).sub (n.smul τ) := by
  let _ : Num K := fieldNum K sq
  have hu : (pos12.invRot n.neg).normSq = 1 := by
    have := dot_invRot_invRot sq pos12 n.neg n.neg hq
    simp only [V3.normSq]; rw [this]; exact (normSq_neg3 sq n).trans hn
  have hnn : n.neg.normSq = 1 := by rw [normSq_neg3]; exact hn
  have hr : pos12.rot (pos12.invRot n.neg) = n.neg := rot_invRot sq pos12 _ hq
  simp only [SM3.roundSupportPoint, normalize3_unit sq hsq _ hu, Iso3.act, rot_add, rot_smul, hr]
  cases s with
  | ball r =>
    simp only [SM3.localSupportToward, SM3.supportPoint, normalize3_unit sq hsq _ hnn, rot_smul, hr]
    apply V3.ext' <;> simp only [V3.add, V3.sub, V3.smul, V3.neg] <;> ring
  | cuboid he =>
    simp only [SM3.localSupportToward, SM3.supportPoint, Iso3.act]
    apply V3.ext' <;> simp only [V3.add, V3.sub, V3.smul, V3.neg] <;> ring

/-- **half-space ray kernel (solid).**  `G s = n·(o + s·dir)` is the signed height of the ray point above the plane. -/
theorem halfspaceCastLocalRay3_spec (n o dir : V3 K) (mx : K) :
    letI := fieldNum K sq
    let G : K → K := fun s => n.dot o + s * n.dot dir
    match halfspaceCastLocalRay3 n o dir mx true with
    | some t => 0 ≤ t ∧ (t ≤ mx ∨ t = 0) ∧ G t ≤ 0 ∧ (∀ s, 0 ≤ s → s < t → 0 < G s) ∧ (G 0 < 0 → t = 0) ∧ (0 ≤ G 0 → G t = 0)
    | none => 0 ≤ G 0 ∧ ∀ s, 0 ≤ s → s ≤ mx → 0 < G s := by
  intro G
  let _ : Num K := fieldNum K sq
  have hG0 : G 0 = n.dot o := by simp [G]
  have hdnd : n.dot o.neg = -(n.dot o) := by simp only [V3.dot, V3.neg]; ring
  simp only [halfspaceCastLocalRay3, neq, hdnd, Bool.true_and, decide_eq_true_eq, Bool.and_eq_true]
  split_ifs with h1 h2 h2' h3
  · -- origin strictly inside
    have : n.dot o < 0 := by linarith
    refine ⟨le_refl _, Or.inr rfl, by rw [hG0]; exact this.le, fun s h h' => absurd h' (not_lt.2 h), fun _ => rfl, fun h => ?_⟩
    rw [hG0] at h; linarith
  · -- parallel ray starting on the plane
    have hden : n.dot dir = 0 := le_antisymm h2.1 h2.2
    have h0 : n.dot o = 0 := by linarith [h2'.1, h2'.2]
    refine ⟨le_refl _, Or.inr rfl, by rw [hG0, h0], fun s h h' => absurd h' (not_lt.2 h), fun _ => rfl, fun _ => by rw [hG0, h0]⟩
  · -- parallel ray, origin strictly outside
    have hden : n.dot dir = 0 := le_antisymm h2.1 h2.2
    push Not at h1
    have h0 : 0 < n.dot o := by
      rcases (show 0 ≤ n.dot o by linarith).lt_or_eq with hp | he
      · exact hp
      · exact absurd ⟨by linarith, by linarith⟩ h2'
    exact ⟨by rw [hG0]; exact h0.le, fun s _ _ => by simp only [G, hden]; linarith⟩
  · -- hit at t = -(n·o)/(n·dir)
    push Not at h1
    have hden : n.dot dir ≠ 0 := fun e => h2 ⟨e.le, e.ge⟩
    have h0 : 0 ≤ n.dot o := by linarith
    have ht : (-(n.dot o) / n.dot dir) * n.dot dir = -(n.dot o) := div_mul_cancel₀ _ hden
    have hGt : G (-(n.dot o) / n.dot dir) = 0 := by simp only [G]; linarith
    refine ⟨h3.1, Or.inl h3.2, hGt.le, fun s hs hs' => ?_, fun h => by rw [hG0] at h; linarith, fun _ => hGt⟩
    -- the denominator is negative whenever there is some s before t
    have hneg : n.dot dir < 0 := by
      rcases lt_or_gt_of_ne hden with c | c
      · exact c
      · have : -(n.dot o) / n.dot dir ≤ 0 := div_nonpos_of_nonpos_of_nonneg (by linarith) c.le
        linarith
    simp only [G]
    nlinarith
  · -- t < 0 or t > max
    push Not at h1
    have hden : n.dot dir ≠ 0 := fun e => h2 ⟨e.le, e.ge⟩
    have h0 : 0 ≤ n.dot o := by linarith
    have ht : (-(n.dot o) / n.dot dir) * n.dot dir = -(n.dot o) := div_mul_cancel₀ _ hden
    refine ⟨by rw [hG0]; exact h0, fun s hs hs' => ?_⟩
    simp only [G]
    rcases lt_or_gt_of_ne hden with c | c
    · -- approaching: the hit time exists and is ≥ 0, so it must exceed max
      have htn : 0 ≤ -(n.dot o) / n.dot dir := div_nonneg_of_nonpos (by linarith) c.le
      have : mx < -(n.dot o) / n.dot dir := by
        by_contra hh; push Not at hh; exact h3 ⟨htn, hh⟩
      nlinarith
    · -- receding
      rcases h0.lt_or_eq with hp | he
      · nlinarith [mul_nonneg hs c.le]
      · have : -(n.dot o) / n.dot dir = 0 := by rw [← he]; simp
        rw [this] at h3
        have : mx < 0 := by
          by_contra hh; push Not at hh; exact h3 ⟨le_refl _, hh⟩
        linarith

/-- signed distance to the plane `n·p = 0` of the deepest point of shape 2 at time `t`
(`= min { n·(p + t·v) | p ∈ pos12·S }` by `supportPoint3_deepest`) -/
def hsGap3 (s : SM3 K) (pos12 : Iso3 K) (n v : V3 K) (t : K) : K :=
  letI := fieldNum K sq
  n.dot (s.supportPoint pos12 n.neg) + t * n.dot v

/-- the support point the cast actually uses (rounded iff `target_distance > 0`) is `sp0 - τ·n` -/
private theorem hs_sp3 (hsq : LawfulSqrt sq) (s : SM3 K) (pos12 : Iso3 K) (n : V3 K) (τ : K)
    (hq : UnitQ pos12) (hn : letI := fieldNum K sq; n.normSq = 1) (hτ : 0 ≤ τ) :
    letI := fieldNum K sq
    (if 0 < τ then s.roundSupportPoint τ pos12 n.neg else s.supportPoint pos12 n.neg)
      = (s.supportPoint pos12 n.neg).sub (n.smul τ) := by
  let _ : Num K := fieldNum K sq
  split_ifs with h
  · exact roundSupportPoint3_eq sq hsq s pos12 n τ hq hn
  · have : τ = 0 := le_antisymm (not_lt.1 h) hτ
    subst this
    apply V3.ext' <;> simp [V3.sub, V3.smul]

/-- **half-space / support map, returned hit** (unit quaternion, unit plane normal, `target ≥ 0`; ball or cuboid): with `gap(t) = min { n·(p + t·v) | p ∈ pos12·S }` (see `supportPoint3_deepest`): `0 ≤ toi ≤ max`, `gap(toi) ≤ target`, `gap > target` on `[0,toi)`, `Penetrating… ⇔ gap(0) < target` and then `toi = 0`, `Converged ⇒ gap(toi) = target`; with `stop_at_penetration = false` a hit is only reported for a non-separating velocity. -/
theorem halfspace3_first_contact (hsq : LawfulSqrt sq) (pos12 : Iso3 K) (vel12 n : V3 K) (s : SM3 K) (o : Opts K)
    (h : Hit (V3 K) K) (hq : UnitQ pos12) (hn : letI := fieldNum K sq; n.normSq = 1) (hτ : 0 ≤ o.target) :
    letI := fieldNum K sq
    castHalfspaceSM3 pos12 vel12 n s o = some h →
    let gap := hsGap3 sq s pos12 n vel12
    0 ≤ h.toi ∧ h.toi ≤ o.maxToi ∧ gap h.toi ≤ o.target ∧
    (∀ t, 0 ≤ t → t < h.toi → o.target < gap t) ∧
    (h.status = Status.penetrating ∨ h.status = Status.converged) ∧
    (h.status = Status.penetrating ↔ gap 0 < o.target) ∧
    (h.status = Status.penetrating → h.toi = 0) ∧
    (h.status = Status.converged → gap h.toi = o.target) ∧
    (o.stop = false → vel12.dot n ≤ 0) := by
  intro hres gap
  let _ : Num K := fieldNum K sq
  have hsp := hs_sp3 sq hsq s pos12 n o.target hq hn hτ
  simp only [castHalfspaceSM3, hsp] at hres
  set sp0 := s.supportPoint pos12 n.neg with hsp0
  have hray := halfspaceCastLocalRay3_spec sq n (sp0.sub (n.smul o.target)) vel12 o.maxToi
  have key : ∀ t, n.dot (sp0.sub (n.smul o.target)) + t * n.dot vel12 = gap t - o.target := by
    intro t
    simp only [gap, hsGap3, ← hsp0]
    simp only [V3.normSq, V3.dot, V3.sub, V3.smul] at hn ⊢
    linear_combination (-o.target) * hn
  have kdot : (sp0.sub (n.smul o.target)).dot n = gap 0 - o.target := by
    rw [← key 0]; simp only [V3.dot]; ring
  by_cases hstop : (!o.stop && decide (0 < vel12.dot n)) = true
  · rw [if_pos hstop] at hres; simp at hres
  rw [if_neg hstop] at hres
  simp only [key] at hray
  revert hray hres
  generalize halfspaceCastLocalRay3 n _ vel12 o.maxToi true = res
  rcases res with _ | toi
  · intro hres _; simp at hres
  · intro hres hray
    dsimp only at hres
    obtain ⟨t0, tmax, gle, gpos, gpen, gconv⟩ := hray
    have hstop' : o.stop = false → vel12.dot n ≤ 0 := by
      intro hs
      simp only [hs, Bool.not_false, Bool.true_and, decide_eq_true_eq, not_lt] at hstop
      exact hstop
    split_ifs at hres with h1 h2
    · simp only [Option.some.injEq] at hres; subst hres
      push Not at h1
      rw [kdot] at h2
      refine ⟨t0, h1, by linarith, fun t ht ht' => by linarith [gpos t ht ht'], Or.inl rfl, ?_, fun _ => gpen (by linarith), fun hh => by simp at hh, hstop'⟩
      simp only [true_iff]; linarith
    · simp only [Option.some.injEq] at hres; subst hres
      push Not at h1 h2
      rw [kdot] at h2
      refine ⟨t0, h1, by linarith, fun t ht ht' => by linarith [gpos t ht ht'], Or.inr rfl, ?_, fun hh => by simp at hh, fun _ => by linarith [gconv (by linarith)], hstop'⟩
      simp only [reduceCtorEq, false_iff, not_lt]; linarith

/-- **half-space cast, `None`.**  Either the cast was discarded as separating (`stop_at_penetration = false` and
`v·n > 0`), or the deepest point of shape 2 stays strictly farther than `target` from the plane on `[0, max]`. -/
theorem halfspace3_none (hsq : LawfulSqrt sq) (pos12 : Iso3 K) (vel12 n : V3 K) (s : SM3 K) (o : Opts K)
    (hq : UnitQ pos12) (hn : letI := fieldNum K sq; n.normSq = 1) (hτ : 0 ≤ o.target) :
    letI := fieldNum K sq
    castHalfspaceSM3 pos12 vel12 n s o = none →
    let gap := hsGap3 sq s pos12 n vel12
    (o.stop = false ∧ 0 < vel12.dot n) ∨
    (∀ t, 0 ≤ t → t ≤ o.maxToi → o.target < gap t) := by
  intro hres gap
  let _ : Num K := fieldNum K sq
  have hsp := hs_sp3 sq hsq s pos12 n o.target hq hn hτ
  simp only [castHalfspaceSM3, hsp] at hres
  set sp0 := s.supportPoint pos12 n.neg with hsp0
  have hray := halfspaceCastLocalRay3_spec sq n (sp0.sub (n.smul o.target)) vel12 o.maxToi
  have key : ∀ t, n.dot (sp0.sub (n.smul o.target)) + t * n.dot vel12 = gap t - o.target := by
    intro t
    simp only [gap, hsGap3, ← hsp0]
    simp only [V3.normSq, V3.dot, V3.sub, V3.smul] at hn ⊢
    linear_combination (-o.target) * hn
  by_cases hstop : (!o.stop && decide (0 < vel12.dot n)) = true
  · simp only [Bool.and_eq_true, Bool.not_eq_true', decide_eq_true_eq] at hstop
    exact Or.inl hstop
  rw [if_neg hstop] at hres
  simp only [key] at hray
  revert hray hres
  generalize halfspaceCastLocalRay3 n _ vel12 o.maxToi true = res
  rcases res with _ | toi
  · intro _ hray
    exact Or.inr fun t ht ht' => by linarith [hray.2 t ht ht']
  · intro hres hray
    dsimp only at hres
    obtain ⟨t0, tmax, gle, gpos, gpen, gconv⟩ := hray
    split_ifs at hres with h1
    refine Or.inr fun t ht ht' => ?_
    linarith [gpos t ht (lt_of_le_of_lt ht' h1)]

/-- **half-space cast, witnesses and normals.** -/
theorem halfspace3_geometry (hsq : LawfulSqrt sq) (pos12 : Iso3 K) (vel12 n : V3 K) (s : SM3 K) (o : Opts K)
    (h : Hit (V3 K) K) (hq : UnitQ pos12) (hn : letI := fieldNum K sq; n.normSq = 1) (hτ : 0 ≤ o.target) :
    letI := fieldNum K sq
    castHalfspaceSM3 pos12 vel12 n s o = some h →
    let sp0 := s.supportPoint pos12 n.neg
    h.n1 = n ∧ pos12.rot h.n2 = n.neg ∧ h.n2.normSq = 1 ∧
    pos12.act h.w2 = sp0 ∧ n.dot h.w1 = 0 ∧
    (sp0.add (vel12.smul h.toi)).sub h.w1 = n.smul (hsGap3 sq s pos12 n vel12 h.toi) := by
  intro hres sp0
  let _ : Num K := fieldNum K sq
  have hsp := hs_sp3 sq hsq s pos12 n o.target hq hn hτ
  simp only [castHalfspaceSM3, hsp] at hres
  by_cases hstop : (!o.stop && decide (0 < vel12.dot n)) = true
  · rw [if_pos hstop] at hres; simp at hres
  rw [if_neg hstop] at hres
  revert hres
  generalize halfspaceCastLocalRay3 n _ vel12 o.maxToi true = res
  rcases res with _ | toi
  · intro hres; simp at hres
  · intro hres
    dsimp only at hres
    have hn2 : (pos12.invRot n.neg).normSq = 1 := by
      have := dot_invRot_invRot sq pos12 n.neg n.neg hq
      simp only [V3.normSq]; rw [this]; exact (normSq_neg3 sq n).trans hn
    have hw2 : pos12.act (pos12.invAct ((sp0.sub (n.smul o.target)).add (n.smul o.target))) = sp0 := by
      simp only [Iso3.act, Iso3.invAct, rot_invRot sq pos12 _ hq]
      apply V3.ext' <;> simp only [V3.add, V3.sub, V3.smul] <;> ring
    have hall : ∀ st, (⟨toi, ((sp0.sub (n.smul o.target)).add (vel12.smul toi)).sub (n.smul (((sp0.sub (n.smul o.target)).add (vel12.smul toi)).dot n)),
          pos12.invAct ((sp0.sub (n.smul o.target)).add (n.smul o.target)), n, pos12.invRot n.neg, st⟩ : Hit (V3 K) K) = h →
        h.n1 = n ∧ pos12.rot h.n2 = n.neg ∧ h.n2.normSq = 1 ∧ pos12.act h.w2 = sp0 ∧ n.dot h.w1 = 0 ∧
        (sp0.add (vel12.smul h.toi)).sub h.w1 = n.smul (hsGap3 sq s pos12 n vel12 h.toi) := by
      intro st e; subst e
      refine ⟨rfl, rot_invRot sq pos12 _ hq, hn2, hw2, ?_, ?_⟩
      · simp only [V3.normSq, V3.dot, V3.sub, V3.add, V3.smul] at hn ⊢
        linear_combination (-(sp0.x - n.x * o.target + vel12.x * toi) * n.x - (sp0.y - n.y * o.target + vel12.y * toi) * n.y - (sp0.z - n.z * o.target + vel12.z * toi) * n.z) * hn
      · simp only [hsGap3]
        apply V3.ext' <;> simp only [V3.normSq, V3.dot, V3.sub, V3.add, V3.smul] at hn ⊢
        · linear_combination (-(n.x * o.target)) * hn
        · linear_combination (-(n.y * o.target)) * hn
        · linear_combination (-(n.z * o.target)) * hn
    split_ifs at hres with h1 h2
    · exact hall _ (Option.some.inj hres)
    · exact hall _ (Option.some.inj hres)

/-- **half-space cast in terms of the posed shape as a set** (headline form).  If a hit is returned then every point of
shape 2 stays farther than `target` from the plane before `toi`, some point of shape 2 is within `target` at `toi`, and
for a `Converged` hit no point is closer than `target` at `toi` (the shape exactly touches the offset plane). -/
theorem halfspace3_first_contact_sets (hsq : LawfulSqrt sq) (pos12 : Iso3 K) (vel12 n : V3 K) (s : SM3 K) (o : Opts K)
    (h : Hit (V3 K) K) (hq : UnitQ pos12) (hn : letI := fieldNum K sq; n.normSq = 1) (hτ : 0 ≤ o.target) (hv : smValid3 s) :
    letI := fieldNum K sq
    castHalfspaceSM3 pos12 vel12 n s o = some h →
    (∀ t, 0 ≤ t → t < h.toi → ∀ q, smMem3 sq s q → o.target < n.dot ((pos12.act q).add (vel12.smul t))) ∧
    (∃ q, smMem3 sq s q ∧ n.dot ((pos12.act q).add (vel12.smul h.toi)) ≤ o.target) ∧
    (h.status = Status.converged → ∀ q, smMem3 sq s q → o.target ≤ n.dot ((pos12.act q).add (vel12.smul h.toi))) := by
  intro hres
  let _ : Num K := fieldNum K sq
  obtain ⟨_, _, gle, gpos, _, _, _, gconv, _⟩ := halfspace3_first_contact sq hsq pos12 vel12 n s o h hq hn hτ hres
  obtain ⟨⟨q0, hq0, e0⟩, hmin⟩ := supportPoint3_deepest sq hsq s pos12 n hq hn hv
  have lin : ∀ (p : V3 K) (t : K), n.dot (p.add (vel12.smul t)) = n.dot p + t * n.dot vel12 := by
    intro p t; simp only [V3.dot, V3.add, V3.smul]; ring
  refine ⟨fun t ht ht' q hqm => ?_, ⟨q0, hq0, ?_⟩, fun hc q hqm => ?_⟩
  · have := gpos t ht ht'; simp only [hsGap3] at this
    rw [lin]; linarith [hmin q hqm]
  · simp only [hsGap3] at gle; rw [lin, ← e0]; exact gle
  · have := gconv hc; simp only [hsGap3] at this
    rw [lin]; linarith [hmin q hqm]

/-- **half-space cast, `None`, in terms of the posed shape as a set**: with `stop_at_penetration`, every point of shape 2
stays strictly farther than `target` from the plane on all of `[0, max_time_of_impact]`. -/
theorem halfspace3_none_sets (hsq : LawfulSqrt sq) (pos12 : Iso3 K) (vel12 n : V3 K) (s : SM3 K) (o : Opts K)
    (hq : UnitQ pos12) (hn : letI := fieldNum K sq; n.normSq = 1) (hτ : 0 ≤ o.target) (hv : smValid3 s) :
    letI := fieldNum K sq
    castHalfspaceSM3 pos12 vel12 n s o = none → o.stop = true →
    ∀ t, 0 ≤ t → t ≤ o.maxToi → ∀ q, smMem3 sq s q → o.target < n.dot ((pos12.act q).add (vel12.smul t)) := by
  intro hres hstop t ht ht' q hqm
  let _ : Num K := fieldNum K sq
  obtain ⟨_, hmin⟩ := supportPoint3_deepest sq hsq s pos12 n hq hn hv
  have lin : ∀ (p : V3 K) (t : K), n.dot (p.add (vel12.smul t)) = n.dot p + t * n.dot vel12 := by
    intro p t; simp only [V3.dot, V3.add, V3.smul]; ring
  rcases halfspace3_none sq hsq pos12 vel12 n s o hq hn hτ hres with h1 | h1
  · rw [hstop] at h1; simp at h1
  · have := h1 t ht ht'; simp only [hsGap3] at this
    rw [lin]; linarith [hmin q hqm]

/-! ## wrappers, free function, nonlinear motion -/

/-- isometry translated by `d` (the pose of a body after moving by `d` without rotating) -/
def moved3 (m : Iso3 K) (d : V3 K) : Iso3 K :=
  letI := fieldNum K sq
  { m with t := m.t.add d }

/-- **mirrored wrapper** = the same cast with the roles exchanged. -/
theorem castSMHalfspace3_eq (pos12 : Iso3 K) (vel12 : V3 K) (s : SM3 K) (n : V3 K) (o : Opts K) :
    letI := fieldNum K sq
    castSMHalfspace3 pos12 vel12 s n o = (castHalfspaceSM3 pos12.inverse (pos12.invRot vel12).neg n s o).map Hit.swapped := rfl

/-- **mirrored wrapper, motion.**  Seen from the half-space (shape 2, at `pos12` moving with `vel12`), a point `q` of
shape 1's frame sits at `pos12⁻¹·q + t·(-(R₁₂ᵀ vel12))`: exactly the pose/velocity the wrapper passes on. No
unit-norm hypothesis is needed. -/
theorem mirrored_motion3 (pos12 : Iso3 K) (vel12 q : V3 K) (t : K) :
    letI := fieldNum K sq
    (moved3 sq pos12 (vel12.smul t)).invAct q = (pos12.inverse.act q).add ((pos12.invRot vel12).neg.smul t) := by
  apply V3.ext' <;>
  simp only [moved3, Iso3.invAct, Iso3.act, Iso3.inverse, Iso3.invRot, Iso3.rot, Iso3.rotQ, Iso3.qv, V3.cross, V3.smul,
    V3.add, V3.sub, V3.neg, fieldNum_two] <;> ring

/-- **free function, velocity conversion.**  At every time `t` the relative pose of body 2 in the frame of body 1 is
the initial relative pose translated by `t · vel12` with `vel12 = R₁ᵀ (vel2 - vel1)` — what `query::cast_shapes` hands
to the dispatcher.  Pure algebra: holds for any quaternion. -/
theorem castShapes_relative_motion3 (pos1 pos2 : Iso3 K) (vel1 vel2 : V3 K) (t : K) :
    letI := fieldNum K sq
    (moved3 sq pos1 (vel1.smul t)).invMul (moved3 sq pos2 (vel2.smul t))
      = moved3 sq (pos1.invMul pos2) ((pos1.invRot (vel2.sub vel1)).smul t) := by
  simp only [moved3, Iso3.invMul, Iso3.qmul, Iso3.qv, V3.neg]
  congr 1
  apply V3.ext' <;>
  simp only [Iso3.invRot, Iso3.rotQ, Iso3.qv, V3.cross, V3.smul, V3.add, V3.sub, V3.neg, fieldNum_two] <;> ring

/-- the free function applies the pair's closed form to `(pos12, vel12) = (pos1⁻¹·pos2, R₁ᵀ(vel2 - vel1))`, with the
dispatcher's branch order (ball/ball, half-space/support-map, support-map/half-space) -/
theorem castShapes3_dispatch (pos1 pos2 : Iso3 K) (vel1 vel2 n he : V3 K) (r1 r2 : K) (o : Opts K) :
    letI := fieldNum K sq
    let pos12 := pos1.invMul pos2
    let vel12 := pos1.invRot (vel2.sub vel1)
    castShapes3 pos1 vel1 (.ball r1) pos2 vel2 (.ball r2) o = some (castBallBall3 pos12 vel12 r1 r2 o) ∧
    castShapes3 pos1 vel1 (.halfspace n) pos2 vel2 (.ball r2) o = some (castHalfspaceSM3 pos12 vel12 n (.ball r2) o) ∧
    castShapes3 pos1 vel1 (.halfspace n) pos2 vel2 (.cuboid he) o = some (castHalfspaceSM3 pos12 vel12 n (.cuboid he) o) ∧
    castShapes3 pos1 vel1 (.ball r1) pos2 vel2 (.halfspace n) o = some (castSMHalfspace3 pos12 vel12 (.ball r1) n o) ∧
    castShapes3 pos1 vel1 (.cuboid he) pos2 vel2 (.halfspace n) o = some (castSMHalfspace3 pos12 vel12 (.cuboid he) n o) :=
  ⟨rfl, rfl, rfl, rfl, rfl⟩

/-- **nonlinear = linear for zero angular velocity**: `position_at_time(t)` is the start pose translated by
`linvel · t`, whatever the local centre. -/
theorem positionAtTime3_zero_angvel (m : Motion3 K) (t : K) :
    letI := fieldNum K sq
    m.positionAtTime t = moved3 sq m.start (m.linvel.smul t) := by
  obtain ⟨⟨i, j, k, w, tr⟩, lc, lv⟩ := m
  simp only [Motion3.positionAtTime, moved3, Iso3.mul, Iso3.qmul, Iso3.rot, Iso3.rotQ, Iso3.qv, Iso3.act]
  congr 1
  · ring
  · ring
  · ring
  · ring
  · apply V3.ext' <;> simp only [V3.cross, V3.smul, V3.add, V3.neg, fieldNum_two] <;> ring

/-- hence two bodies in nonlinear motion with zero angular velocities are, at every time, in the relative pose the
linear cast uses. -/
theorem nonlinear_eq_linear3 (m1 m2 : Motion3 K) (t : K) :
    letI := fieldNum K sq
    (m1.positionAtTime t).invMul (m2.positionAtTime t)
      = moved3 sq (m1.start.invMul m2.start) ((m1.start.invRot (m2.linvel.sub m1.linvel)).smul t) := by
  rw [positionAtTime3_zero_angvel, positionAtTime3_zero_angvel]
  exact castShapes_relative_motion3 sq _ _ _ _ t

/-! ## hit wrappers -/
/-- `swapped` exchanges the two sides and is an involution -/
theorem swapped_swapped {V K' : Type} (h : Hit V K') :
    h.swapped.swapped = h ∧ h.swapped.toi = h.toi ∧ h.swapped.status = h.status ∧
    h.swapped.w1 = h.w2 ∧ h.swapped.w2 = h.w1 ∧ h.swapped.n1 = h.n2 ∧ h.swapped.n2 = h.n1 :=
  ⟨rfl, rfl, rfl, rfl, rfl, rfl, rfl⟩

theorem transform1By3_identity (h : Hit (V3 K) K) :
    letI := fieldNum K sq
    h.transform1By3 Iso3.identity = h := by
  obtain ⟨toi, w1, w2, n1, n2, st⟩ := h
  simp only [Hit.transform1By3, Iso3.identity, Iso3.act, Iso3.rot, Iso3.rotQ, Iso3.qv]
  congr 1 <;> apply V3.ext' <;> simp only [V3.cross, V3.smul, V3.add, V3.zero, fieldNum_two] <;> ring

/-- `transform1_by` touches only side 1: time, status, witness 2 and normal 2 are kept, witness 1 is mapped as a point
and normal 1 as a vector -/
theorem transform1By3_fields (h : Hit (V3 K) K) (a : Iso3 K) :
    letI := fieldNum K sq
    (h.transform1By3 a).w1 = a.act h.w1 ∧ (h.transform1By3 a).n1 = a.rot h.n1 ∧
    (h.transform1By3 a).toi = h.toi ∧ (h.transform1By3 a).status = h.status ∧
    (h.transform1By3 a).w2 = h.w2 ∧ (h.transform1By3 a).n2 = h.n2 := ⟨rfl, rfl, rfl, rfl, rfl, rfl⟩

/-- the closed-form casts ignore `compute_impact_geometry_on_penetration` -/
theorem cig_irrelevant3 (pos12 : Iso3 K) (v n : V3 K) (r1 r2 : K) (s : SM3 K) (o : Opts K) (c : Bool) :
    letI := fieldNum K sq
    castBallBall3 pos12 v r1 r2 { o with cig := c } = castBallBall3 pos12 v r1 r2 o ∧
    castHalfspaceSM3 pos12 v n s { o with cig := c } = castHalfspaceSM3 pos12 v n s o := ⟨rfl, rfl⟩

/-! # the same in 2-D (generated from the 3-D block by renaming; proofs identical up to the dropped `z` component) -/

private theorem normSq2_eq_zero (v : V2 K) :
    letI := fieldNum K sq
    v.normSq = 0 → v.x = 0 ∧ v.y = 0 := by
  simp only [V2.normSq, V2.dot]
  intro h
  have hx := mul_self_nonneg v.x; have hy := mul_self_nonneg v.y
  refine ⟨?_, ?_⟩ <;> exact mul_self_eq_zero.1 (by linarith)

/-- **ray/ball, solid, vectors** — `q(s) = |o + s·dir - c|² - r²`; a returned `t` is the first `s ≥ 0` at which the ray point is in the ball, `inside ⇔` the origin is in the ball (then `t = 0`), otherwise the hit point is on the sphere; `None` ⇒ the ray never meets the ball.  Any direction (zero, non-unit). -/
theorem rayToiWithBall2_solid_spec (hsq : LawfulSqrt sq) (center origin dir : V2 K) (radius : K) :
    letI := fieldNum K sq
    let q : K → K := fun s => ((origin.add (dir.smul s)).sub center).normSq - radius * radius
    match rayToiWithBall2 center radius origin dir true with
    | (inside, some t) => 0 ≤ t ∧ q t ≤ 0 ∧ (∀ s, 0 ≤ s → s < t → 0 < q s)
         ∧ (inside = true ↔ q 0 ≤ 0) ∧ (inside = true → t = 0) ∧ (inside = false → q t = 0)
    | (inside, none) => inside = false ∧ ∀ s, 0 ≤ s → 0 < q s := by
  intro q
  have key : ∀ s, q s = (@V2.normSq K (fieldNum K sq) dir) * s * s + 2 * (@V2.dot K (fieldNum K sq) (@V2.sub K (fieldNum K sq) origin center) dir) * s
      + ((@V2.normSq K (fieldNum K sq) (@V2.sub K (fieldNum K sq) origin center)) - radius * radius) := by
    intro s; simp only [q, V2.normSq, V2.dot, V2.sub, V2.add, V2.smul]; ring
  have ha : 0 ≤ @V2.normSq K (fieldNum K sq) dir := by
    simp only [V2.normSq, V2.dot]; nlinarith [mul_self_nonneg dir.x, mul_self_nonneg dir.y]
  have hab : @V2.normSq K (fieldNum K sq) dir = 0 → @V2.dot K (fieldNum K sq) (@V2.sub K (fieldNum K sq) origin center) dir = 0 := by
    intro h; obtain ⟨hx, hy⟩ := normSq2_eq_zero sq dir h
    simp only [V2.dot, hx, hy]; ring
  have h := rayBallCore_solid_spec sq hsq _ _ ((@V2.normSq K (fieldNum K sq) (@V2.sub K (fieldNum K sq) origin center)) - radius * radius) ha hab
  simp only [rayToiWithBall2]
  revert h
  generalize @rayBallCore K (fieldNum K sq) _ _ _ true = res
  rcases res with ⟨inside, _ | t⟩
  · simp only [key]; exact id
  · simp only [key]
    intro h
    refine ⟨h.1, h.2.1, h.2.2.1, ?_, h.2.2.2.2.1, h.2.2.2.2.2⟩
    rw [h.2.2.2.1]; simp

/-- squared distance between the two ball centres at time `s`, in the frame of ball 1: `|t₁₂ + s·v₁₂|²` -/
def centreDistSq2 (pos12 : Iso2 K) (vel12 : V2 K) (s : K) : K :=
  letI := fieldNum K sq
  (pos12.t.add (vel12.smul s)).normSq

/-- **ball/ball, returned hit** (whatever the normal/witness computation `geom` — so also for the pinned tree): with `D(s) = |t₁₂ + s·v₁₂|²` the squared centre distance and `R = r1 + r2 + target`: `0 ≤ toi ≤ max`, `D(toi) ≤ R²`, `D > R²` on `[0, toi)` (first time of impact), status is `Penetrating…` or `Converged`, `Penetrating… ⇔ D(0) < R²` (initially strictly within target) and then `toi = 0`, `Converged ⇒ D(toi) = R²` (centre distance exactly `r1 + r2 + target`). -/
theorem castBallBallWith2_hit (hsq : LawfulSqrt sq) (geom : Iso2 K → V2 K → K → K → K → V2 K × V2 K × V2 K × V2 K)
    (pos12 : Iso2 K) (vel12 : V2 K) (r1 r2 : K) (o : Opts K) (h : Hit (V2 K) K) :
    letI := fieldNum K sq
    castBallBallWith2 geom pos12 vel12 r1 r2 o = some h →
    let R := r1 + r2 + o.target
    0 ≤ h.toi ∧ h.toi ≤ o.maxToi ∧ centreDistSq2 sq pos12 vel12 h.toi ≤ R * R ∧
    (∀ s, 0 ≤ s → s < h.toi → R * R < centreDistSq2 sq pos12 vel12 s) ∧
    (h.status = Status.penetrating ∨ h.status = Status.converged) ∧
    (h.status = Status.penetrating ↔ centreDistSq2 sq pos12 vel12 0 < R * R) ∧
    (h.status = Status.penetrating → h.toi = 0) ∧
    (h.status = Status.converged → centreDistSq2 sq pos12 vel12 h.toi = R * R) := by
  intro hres R
  let _ : Num K := fieldNum K sq
  have hr := rayToiWithBall2_solid_spec sq hsq pos12.t.neg V2.zero vel12 R
  have key : ∀ s, (((V2.zero : V2 K).add (vel12.smul s)).sub pos12.t.neg).normSq - R * R
      = centreDistSq2 sq pos12 vel12 s - R * R := by
    intro s; simp only [centreDistSq2, V2.normSq, V2.dot, V2.sub, V2.add, V2.smul, V2.neg, V2.zero]; ring
  have key0 : pos12.t.neg.normSq = centreDistSq2 sq pos12 vel12 0 := by
    simp only [centreDistSq2, V2.normSq, V2.dot, V2.add, V2.smul, V2.neg]; ring
  simp only [castBallBallWith2] at hres
  revert hr hres
  generalize rayToiWithBall2 _ _ _ vel12 true = res
  rcases res with ⟨inside, _ | toi⟩
  · intro _ hres; simp at hres
  · simp only [key]
    intro hr hres
    obtain ⟨t0, qle, qpos, hin, hin0, hout⟩ := hr
    split_ifs at hres with h1 h2 h3
    · -- penetrating
      simp only [Option.some.injEq] at hres
      subst hres
      push Not at h1
      simp only [Bool.and_eq_true, decide_eq_true_eq] at h3
      rw [key0] at h3
      refine ⟨t0, h1, by linarith, fun s hs hs' => by linarith [qpos s hs hs'], Or.inl rfl, ?_, fun _ => hin0 h3.1, fun hh => by simp at hh⟩
      simp only [true_iff]; exact h3.2
    · -- converged
      simp only [Option.some.injEq] at hres
      subst hres
      push Not at h1
      simp only [Bool.and_eq_true, decide_eq_true_eq, not_and, not_lt] at h3
      rw [key0] at h3
      refine ⟨t0, h1, by linarith, fun s hs hs' => by linarith [qpos s hs hs'], Or.inr rfl, ?_, fun hh => by simp at hh, fun _ => ?_⟩
      · simp only [reduceCtorEq, false_iff, not_lt]
        cases inside
        · have : ¬ (centreDistSq2 sq pos12 vel12 0 - R * R ≤ 0) := fun hh => by simpa using hin.2 hh
          linarith [not_le.1 this]
        · exact h3 rfl
      · cases inside
        · linarith [hout rfl]
        · have h0 := hin0 rfl
          have h4 := hin.1 rfl
          have h5 := h3 rfl
          rw [h0]
          linarith

/-- **ball/ball, `None` with `stop_at_penetration`**: the centre distance stays strictly above `r1 + r2 + target` on all of `[0, max_time_of_impact]`. -/
theorem castBallBallWith2_none_stop (hsq : LawfulSqrt sq) (geom : Iso2 K → V2 K → K → K → K → V2 K × V2 K × V2 K × V2 K)
    (pos12 : Iso2 K) (vel12 : V2 K) (r1 r2 : K) (o : Opts K) :
    letI := fieldNum K sq
    castBallBallWith2 geom pos12 vel12 r1 r2 o = none → o.stop = true →
    let R := r1 + r2 + o.target
    ∀ s, 0 ≤ s → s ≤ o.maxToi → R * R < centreDistSq2 sq pos12 vel12 s := by
  intro hres hstop R
  let _ : Num K := fieldNum K sq
  have hr := rayToiWithBall2_solid_spec sq hsq pos12.t.neg V2.zero vel12 R
  have key : ∀ s, (((V2.zero : V2 K).add (vel12.smul s)).sub pos12.t.neg).normSq - R * R
      = centreDistSq2 sq pos12 vel12 s - R * R := by
    intro s; simp only [centreDistSq2, V2.normSq, V2.dot, V2.sub, V2.add, V2.smul, V2.neg, V2.zero]; ring
  simp only [castBallBallWith2] at hres
  revert hr hres
  generalize rayToiWithBall2 _ _ _ vel12 true = res
  rcases res with ⟨inside, _ | toi⟩
  · simp only [key]
    intro hr _ s hs _
    linarith [hr.2 s hs]
  · simp only [key]
    intro hr hres s hs hs'
    obtain ⟨t0, qle, qpos, hin, hin0, hout⟩ := hr
    split_ifs at hres with h1 h2
    · linarith [qpos s hs (lt_of_le_of_lt hs' h1)]
    · simp [hstop] at h2

private theorem dpt_eq2 (t v : V2 K) (s : K) :
    letI := fieldNum K sq
    ((V2.zero : V2 K).add (v.smul s)).sub t.neg = t.add (v.smul s) := by
  apply V2.ext' <;> simp only [V2.zero, V2.add, V2.sub, V2.smul, V2.neg] <;> ring

private theorem castBallBallWith2_fields (geom : Iso2 K → V2 K → K → K → K → V2 K × V2 K × V2 K × V2 K)
    (pos12 : Iso2 K) (vel12 : V2 K) (r1 r2 : K) (o : Opts K) (h : Hit (V2 K) K) :
    letI := fieldNum K sq
    castBallBallWith2 geom pos12 vel12 r1 r2 o = some h →
    let g := geom pos12 (pos12.t.add (vel12.smul h.toi)) (r1 + r2 + o.target) r1 r2
    h.n1 = g.1 ∧ h.n2 = g.2.1 ∧ h.w1 = g.2.2.1 ∧ h.w2 = g.2.2.2 ∧
      (o.stop = false → h.toi < 1 / 100000 → g.1.dot vel12 < 0) := by
  intro hres
  let _ : Num K := fieldNum K sq
  simp only [castBallBallWith2, dpt_eq2] at hres
  revert hres
  generalize rayToiWithBall2 _ _ _ vel12 true = res
  rcases res with ⟨inside, _ | toi⟩
  · intro hres; simp at hres
  · intro hres
    have hl : ((mkRat 1 100000 : Rat) : K) = 1 / 100000 := by norm_num
    dsimp only at hres
    split_ifs at hres with h1 h2 h3 <;>
    · simp only [Option.some.injEq] at hres
      subst hres
      refine ⟨rfl, rfl, rfl, rfl, fun hs ht => ?_⟩
      simp only [hs, Bool.not_false, Bool.true_and, Bool.and_eq_true, decide_eq_true_eq, not_and, not_le, fieldNum_lit, hl] at h2
      exact h2 ht

private theorem normSq2_nonneg (v : V2 K) :
    letI := fieldNum K sq
    0 ≤ v.normSq := by
  simp only [V2.normSq, V2.dot]; nlinarith [mul_self_nonneg v.x, mul_self_nonneg v.y]

/-- the corrected normal: unit in every case; the normalised argument when that is longer than `ε`, else the x-axis -/
private theorem ballBallGeom2_n1 (hsq : LawfulSqrt sq) (pos12 : Iso2 K) (dpt : V2 K) (R r1 r2 : K) :
    letI := fieldNum K sq
    let n1 := (ballBallGeom2 pos12 dpt R r1 r2).1
    n1.normSq = 1 ∧ (eps * eps < dpt.normSq → n1.smul (sq dpt.normSq) = dpt) ∧ (¬ eps * eps < dpt.normSq → n1 = xAxis2) := by
  let _ : Num K := fieldNum K sq
  simp only [ballBallGeom2, tryNormalize2, fieldNum_sqrt]
  by_cases hN : (eps : K) * eps < dpt.normSq
  · simp only [hN, ↓reduceIte, not_true_eq_false, false_implies, and_true, true_implies]
    have hpos : (0 : K) < dpt.normSq := lt_of_le_of_lt (mul_self_nonneg _) hN
    have hρ := sq_pos sq hsq _ hpos
    have hρρ := hsq.sq_mul _ hpos.le
    generalize sq dpt.normSq = ρ at hρ hρρ ⊢
    have hne : ρ ≠ 0 := hρ.ne'
    constructor
    · simp only [V2.normSq, V2.dot, V2.sdiv] at hρρ ⊢
      field_simp
      linarith
    · apply V2.ext' <;> simp only [V2.sdiv, V2.smul] <;> field_simp
  · simp only [hN, ↓reduceIte, false_implies, not_false_eq_true, true_implies, and_true]
    simp only [xAxis2, V2.normSq, V2.dot]; ring

/-- **ball/ball, normals and witnesses** (corrected code; unit complex rotation): both normals are unit, opposite in the common frame (`R₁₂ n2 = -n1`), the witnesses are `r_i · n_i` — on their spheres —, `n1` is the direction from centre 1 to centre 2 at the time of impact (`n1 · |dpt| = dpt` when `|dpt| > ε`), and for a `Converged` hit the two witnesses, seen in frame 1 at the time of impact, are exactly `target` apart along `n1`. -/
theorem castBallBall2_geometry (hsq : LawfulSqrt sq) (pos12 : Iso2 K) (vel12 : V2 K) (r1 r2 : K) (o : Opts K)
    (h : Hit (V2 K) K) (hq : UnitC pos12) :
    letI := fieldNum K sq
    castBallBall2 pos12 vel12 r1 r2 o = some h →
    let R := r1 + r2 + o.target
    let dpt := pos12.t.add (vel12.smul h.toi)
    h.n1.normSq = 1 ∧ h.n2.normSq = 1 ∧ pos12.rot h.n2 = h.n1.neg ∧
    h.w1 = h.n1.smul r1 ∧ h.w2 = h.n2.smul r2 ∧ h.w1.normSq = r1 * r1 ∧ h.w2.normSq = r2 * r2 ∧
    (eps * eps < dpt.normSq → h.n1.smul (sq dpt.normSq) = dpt) ∧
    (h.status = Status.converged → eps * eps < dpt.normSq → 0 ≤ R →
      ((pos12.rot h.w2).add dpt).sub h.w1 = h.n1.smul o.target) := by
  intro hres R dpt
  let _ : Num K := fieldNum K sq
  obtain ⟨e1, e2, e3, e4, -⟩ := castBallBallWith2_fields sq ballBallGeom2 pos12 vel12 r1 r2 o h hres
  obtain ⟨_, _, _, _, _, _, _, hconv⟩ := castBallBallWith2_hit sq hsq ballBallGeom2 pos12 vel12 r1 r2 o h hres
  obtain ⟨g1, g2, _⟩ := ballBallGeom2_n1 sq hsq pos12 dpt R r1 r2
  have hn2 : h.n2 = pos12.invRot h.n1.neg := by rw [e2, e1]; rfl
  have hw1 : h.w1 = h.n1.smul r1 := by rw [e3, e1]; rfl
  have hw2 : h.w2 = h.n2.smul r2 := by rw [e4, e2]; rfl
  have hn1 : h.n1.normSq = 1 := by rw [e1]; exact g1
  have hrot : pos12.rot h.n2 = h.n1.neg := by rw [hn2]; exact rot_invRot2 sq pos12 _ hq
  have hn2n : h.n2.normSq = 1 := by
    have := dot_invRot_invRot2 sq pos12 h.n1.neg h.n1.neg hq
    rw [hn2]; simp only [V2.normSq] at hn1 ⊢; rw [this]
    simp only [V2.dot, V2.neg] at hn1 ⊢; linarith
  refine ⟨hn1, hn2n, hrot, hw1, hw2, ?_, ?_, fun hd => by rw [e1]; exact g2 hd, fun hc hd hR => ?_⟩
  · rw [hw1]; simp only [V2.normSq, V2.dot, V2.smul] at hn1 ⊢; linear_combination (r1 * r1) * hn1
  · rw [hw2]; simp only [V2.normSq, V2.dot, V2.smul] at hn2n ⊢; linear_combination (r2 * r2) * hn2n
  · have hD : dpt.normSq = R * R := hconv hc
    have hρ : sq dpt.normSq = R := sq_unique sq hsq _ R hR hD.symm
    have hd' := g2 hd
    rw [← e1, hρ] at hd'
    rw [hw2, rot_smul2, hrot, hw1, ← hd']
    apply V2.ext' <;> simp only [V2.add, V2.sub, V2.smul, V2.neg] <;> ring

/-- **ball/ball, `None` without `stop_at_penetration`**: either the distance stays above target on `[0,max]`, or there is a first contact at some `t < 1e-5` that was discarded because the balls are not approaching there — and then (centres not coincident) they never get closer than at `t` again. -/
theorem castBallBall2_none_nostop (hsq : LawfulSqrt sq) (pos12 : Iso2 K) (vel12 : V2 K) (r1 r2 : K) (o : Opts K) :
    letI := fieldNum K sq
    castBallBall2 pos12 vel12 r1 r2 o = none → o.stop = false →
    let R := r1 + r2 + o.target
    let D := centreDistSq2 sq pos12 vel12
    (∀ s, 0 ≤ s → s ≤ o.maxToi → R * R < D s) ∨
    (∃ t, 0 ≤ t ∧ t < 1 / 100000 ∧ t ≤ o.maxToi ∧ D t ≤ R * R ∧ (∀ s, 0 ≤ s → s < t → R * R < D s) ∧
      (eps * eps < D t → ∀ s, t ≤ s → D t ≤ D s)) := by
  intro hres hstop R D
  let _ : Num K := fieldNum K sq
  have hr := rayToiWithBall2_solid_spec sq hsq pos12.t.neg V2.zero vel12 R
  have key : ∀ s, (((V2.zero : V2 K).add (vel12.smul s)).sub pos12.t.neg).normSq - R * R = D s - R * R := by
    intro s; simp only [D, centreDistSq2, V2.normSq, V2.dot, V2.sub, V2.add, V2.smul, V2.neg, V2.zero]; ring
  simp only [castBallBall2, castBallBallWith2, dpt_eq2] at hres
  revert hr hres
  generalize rayToiWithBall2 _ _ _ vel12 true = res
  rcases res with ⟨inside, _ | toi⟩
  · simp only [key]
    intro hr _
    exact Or.inl fun s hs _ => by linarith [hr.2 s hs]
  · simp only [key]
    intro hr hres
    obtain ⟨t0, qle, qpos, hin, hin0, hout⟩ := hr
    have hl : ((mkRat 1 100000 : Rat) : K) = 1 / 100000 := by norm_num
    split_ifs at hres with h1 h2
    · exact Or.inl fun s hs hs' => by linarith [qpos s hs (lt_of_le_of_lt hs' h1)]
    · push Not at h1
      simp only [hstop, Bool.not_false, Bool.true_and, Bool.and_eq_true, decide_eq_true_eq, fieldNum_lit, hl] at h2
      refine Or.inr ⟨toi, t0, h2.1, h1, by linarith, fun s hs hs' => by linarith [qpos s hs hs'], fun hd s hs => ?_⟩
      obtain ⟨_, g2, _⟩ := ballBallGeom2_n1 sq hsq pos12 (pos12.t.add (vel12.smul toi)) R r1 r2
      have hDt : D toi = (pos12.t.add (vel12.smul toi)).normSq := rfl
      rw [hDt] at hd
      have hd' := g2 hd
      have hρ := sq_pos sq hsq _ (lt_of_le_of_lt (mul_self_nonneg _) hd)
      -- dpt·v = ρ (n1·v) ≥ 0
      have hdv : 0 ≤ (pos12.t.add (vel12.smul toi)).dot vel12 := by
        have : (pos12.t.add (vel12.smul toi)).dot vel12
            = sq (pos12.t.add (vel12.smul toi)).normSq * ((ballBallGeom2 pos12 (pos12.t.add (vel12.smul toi)) R r1 r2).1.dot vel12) := by
          conv_lhs => rw [← hd']
          simp only [V2.dot, V2.smul]; ring
        rw [this]; exact mul_nonneg hρ.le h2.2
      have : D s - D toi = 2 * (s - toi) * (pos12.t.add (vel12.smul toi)).dot vel12 + (s - toi) * (s - toi) * vel12.normSq := by
        simp only [D, centreDistSq2, V2.normSq, V2.dot, V2.add, V2.smul]; ring
      nlinarith [mul_nonneg (sub_nonneg.2 hs) hdv, mul_nonneg (mul_self_nonneg (s - toi)) (normSq2_nonneg sq vel12)]

/-! ## Minkowski reduction -/

/-- **Minkowski reduction, arbitrary sets.**  Two sets `A`, `B + s·v` come within `τ` of each other iff the ray point
`s·v` lies in `(A ⊖ B) ⊕ Ball τ`. -/
theorem minkowski_reduction_sets2 (A B : V2 K → Prop) (v : V2 K) (s τ : K) :
    letI := fieldNum K sq
    (∃ a b : V2 K, A a ∧ B b ∧ (a.sub (b.add (v.smul s))).normSq ≤ τ * τ) ↔
    (∃ m e : V2 K, (∃ a b : V2 K, A a ∧ B b ∧ m = a.sub b) ∧ e.normSq ≤ τ * τ ∧ v.smul s = m.add e) := by
  let _ : Num K := fieldNum K sq
  constructor
  · rintro ⟨a, b, ha, hb, h⟩
    refine ⟨a.sub b, (b.add (v.smul s)).sub a, ⟨a, b, ha, hb, rfl⟩, ?_, ?_⟩
    · have : ((b.add (v.smul s)).sub a).normSq = (a.sub (b.add (v.smul s))).normSq := by
        simp only [V2.normSq, V2.dot, V2.sub, V2.add, V2.smul]; ring
      rw [this]; exact h
    · apply V2.ext' <;> simp only [V2.sub, V2.add, V2.smul] <;> ring
  · rintro ⟨m, e, ⟨a, b, ha, hb, rfl⟩, he, hv⟩
    refine ⟨a, b, ha, hb, ?_⟩
    have : (a.sub (b.add (v.smul s))).normSq = e.normSq := by
      rw [hv]; simp only [V2.normSq, V2.dot, V2.sub, V2.add]; ring
    rw [this]; exact he

/-- **Minkowski reduction for balls.**  Balls `B(c₁,r₁)` and `B(c₂,r₂)+s·v` contain points within `τ` of each other
iff the centres are within `r₁+r₂+τ`: the time-of-impact question is a ray cast on one ball of radius `r₁+r₂+τ`. -/
theorem minkowski_reduction_balls2 (c1 c2 v : V2 K) (r1 r2 τ s : K) (h1 : 0 ≤ r1) (h2 : 0 ≤ r2) (hτ : 0 ≤ τ) :
    letI := fieldNum K sq
    (∃ a b : V2 K, (a.sub c1).normSq ≤ r1 * r1 ∧ (b.sub (c2.add (v.smul s))).normSq ≤ r2 * r2 ∧ (a.sub b).normSq ≤ τ * τ) ↔
    ((c2.add (v.smul s)).sub c1).normSq ≤ (r1 + r2 + τ) * (r1 + r2 + τ) := by
  let _ : Num K := fieldNum K sq
  constructor
  · rintro ⟨a, b, ha, hb, hab⟩
    -- c2' - c1 = (a - c1) + ((b - a) + (c2' - b))
    have hba : (b.sub a).normSq ≤ τ * τ := by
      have : (b.sub a).normSq = (a.sub b).normSq := by simp only [V2.normSq, V2.dot, V2.sub]; ring
      rw [this]; exact hab
    have hcb : ((c2.add (v.smul s)).sub b).normSq ≤ r2 * r2 := by
      have : ((c2.add (v.smul s)).sub b).normSq = (b.sub (c2.add (v.smul s))).normSq := by simp only [V2.normSq, V2.dot, V2.sub]; ring
      rw [this]; exact hb
    have t1 := tri2 sq _ _ τ r2 hτ h2 hba hcb
    have t2 := tri2 sq _ _ r1 (τ + r2) h1 (add_nonneg hτ h2) ha t1
    have : (c2.add (v.smul s)).sub c1 = (a.sub c1).add ((b.sub a).add ((c2.add (v.smul s)).sub b)) := by
      apply V2.ext' <;> simp only [V2.sub, V2.add] <;> ring
    rw [this]
    calc _ ≤ (r1 + (τ + r2)) * (r1 + (τ + r2)) := t2
      _ = _ := by ring
  · intro h
    set d := (c2.add (v.smul s)).sub c1 with hd
    set R := r1 + r2 + τ with hR
    have hR0 : 0 ≤ R := by positivity
    rcases hR0.lt_or_eq with hpos | hzero
    · -- points on the segment between the centres, at fractions r1/R and 1 - r2/R
      refine ⟨c1.add (d.smul (r1 / R)), c1.add (d.smul (1 - r2 / R)), ?_, ?_, ?_⟩
      · have : ((c1.add (d.smul (r1 / R))).sub c1).normSq = d.normSq * ((r1 / R) * (r1 / R)) := by
          simp only [V2.normSq, V2.dot, V2.sub, V2.add, V2.smul]; ring
        rw [this]
        have : d.normSq * ((r1 / R) * (r1 / R)) ≤ (R * R) * ((r1 / R) * (r1 / R)) :=
          mul_le_mul_of_nonneg_right h (mul_self_nonneg _)
        have e : (R * R) * ((r1 / R) * (r1 / R)) = r1 * r1 := by field_simp
        linarith
      · have : ((c1.add (d.smul (1 - r2 / R))).sub (c2.add (v.smul s))).normSq = d.normSq * ((r2 / R) * (r2 / R)) := by
          simp only [hd, V2.normSq, V2.dot, V2.sub, V2.add, V2.smul]; ring
        rw [this]
        have : d.normSq * ((r2 / R) * (r2 / R)) ≤ (R * R) * ((r2 / R) * (r2 / R)) :=
          mul_le_mul_of_nonneg_right h (mul_self_nonneg _)
        have e : (R * R) * ((r2 / R) * (r2 / R)) = r2 * r2 := by field_simp
        linarith
      · have : ((c1.add (d.smul (r1 / R))).sub (c1.add (d.smul (1 - r2 / R)))).normSq = d.normSq * ((τ / R) * (τ / R)) := by
          have hτR : τ / R = 1 - r2 / R - r1 / R := by field_simp; simp only [hR]; ring
          rw [hτR]; simp only [V2.normSq, V2.dot, V2.sub, V2.add, V2.smul]; ring
        rw [this]
        have : d.normSq * ((τ / R) * (τ / R)) ≤ (R * R) * ((τ / R) * (τ / R)) :=
          mul_le_mul_of_nonneg_right h (mul_self_nonneg _)
        have e : (R * R) * ((τ / R) * (τ / R)) = τ * τ := by field_simp
        linarith
    · -- all radii vanish: the centres coincide
      have hr1 : r1 = 0 := by linarith
      have hr2 : r2 = 0 := by linarith
      have hτ0 : τ = 0 := by linarith
      have hd0 : d.normSq ≤ 0 := by rw [← hzero] at h; simpa using h
      have hd1 := normSq2_nonneg sq d
      refine ⟨c1, c1, ?_, ?_, ?_⟩
      · simp only [V2.normSq, V2.dot, V2.sub, hr1]; ring_nf; exact le_refl _
      · have : (c1.sub (c2.add (v.smul s))).normSq = d.normSq := by simp only [hd, V2.normSq, V2.dot, V2.sub]; ring
        rw [this, hr2]; linarith
      · simp only [V2.normSq, V2.dot, V2.sub, hτ0]; ring_nf; exact le_refl _

/-! ## half-space against a support-mapped shape -/

/-- the support-mapped shape as a set (local frame) -/
def smMem2 (s : SM2 K) (p : V2 K) : Prop :=
  letI := fieldNum K sq
  match s with
  | .ball r => (Ball.mk r).Mem2 p
  | .cuboid he => (Cuboid2.mk he).Mem p
/-- non-negative radius / half-extents -/
def smValid2 (s : SM2 K) : Prop :=
  match s with
  | .ball r => 0 ≤ r
  | .cuboid he => 0 ≤ he.x ∧ 0 ≤ he.y

private theorem normalize2_unit (hsq : LawfulSqrt sq) (v : V2 K) :
    letI := fieldNum K sq
    v.normSq = 1 → normalize2 v = v := by
  intro h
  let _ : Num K := fieldNum K sq
  simp only [normalize2, V2.norm, fieldNum_sqrt, h, sq_one sq hsq]
  apply V2.ext' <;> simp [V2.sdiv]

private theorem normSq_neg2 (v : V2 K) :
    letI := fieldNum K sq
    v.neg.normSq = v.normSq := by
  simp only [V2.normSq, V2.dot, V2.neg]; ring

/-- **support point = deepest point.**  For a unit normal `n`, a unit rotation and a valid ball/cuboid, the point
`support_point(pos12, -n)` belongs to the posed shape and minimises `n·p` over it. -/
theorem supportPoint2_deepest (hsq : LawfulSqrt sq) (s : SM2 K) (pos12 : Iso2 K) (n : V2 K)
    (hq : UnitC pos12) (hn : letI := fieldNum K sq; n.normSq = 1) (hv : smValid2 s) :
    letI := fieldNum K sq
    (∃ q, smMem2 sq s q ∧ s.supportPoint pos12 n.neg = pos12.act q) ∧
    ∀ q, smMem2 sq s q → n.dot (s.supportPoint pos12 n.neg) ≤ n.dot (pos12.act q) := by
  let _ : Num K := fieldNum K sq
  cases s with
  | ball r =>
    have hnn : n.neg.normSq = 1 := by rw [normSq_neg2]; exact hn
    simp only [SM2.supportPoint, normalize2_unit sq hsq _ hnn, smMem2, Ball.Mem2]
    simp only [smValid2] at hv
    constructor
    · refine ⟨pos12.invRot (n.neg.smul r), ?_, ?_⟩
      · have := dot_invRot_invRot2 sq pos12 (n.neg.smul r) (n.neg.smul r) hq
        simp only [V2.normSq] at hn ⊢; rw [this]
        simp only [V2.dot, V2.smul, V2.neg] at hn ⊢; nlinarith
      · simp only [Iso2.act, rot_invRot2 sq pos12 _ hq]
        apply V2.ext' <;> simp only [V2.add] <;> ring
    · intro q hqm
      have hb := (dot_bounds2 sq n (pos12.rot q) 1 r zero_le_one hv (by rw [hn]; norm_num)
        (by have := dot_rot_rot2 sq pos12 q q hq; simp only [V2.normSq] at hqm ⊢; rw [this]; exact hqm)).1
      simp only [Iso2.act, V2.dot, V2.add, V2.smul, V2.neg, V2.normSq] at hb hn ⊢
      nlinarith
  | cuboid he =>
    simp only [smValid2] at hv
    obtain ⟨hx, hy⟩ := hv
    simp only [SM2.supportPoint, smMem2, Cuboid2.Mem]
    rw [invRot_neg2 sq pos12 n]
    simp only [copysign2, V2.neg,
      copysign_field sq _ _ hx, copysign_field sq _ _ hy]
    constructor
    · refine ⟨_, ?_, rfl⟩
      refine ⟨?_, ?_⟩ <;> split_ifs <;> constructor <;> linarith
    · intro q ⟨⟨qx1, qx2⟩, qy1, qy2⟩
      simp only [Iso2.act]
      have e1 : ∀ p : V2 K, n.dot ((pos12.rot p).add pos12.t) = (pos12.invRot n).dot p + n.dot pos12.t := by
        intro p
        have := dot_rot_eq2 sq pos12 n p hq
        simp only [V2.dot, V2.add] at this ⊢; linarith
      rw [e1, e1]
      generalize pos12.invRot n = m
      simp only [V2.dot]
      have bx : m.x * (if -m.x < 0 then -he.x else he.x) ≤ m.x * q.x := by
        split_ifs with c
        · nlinarith
        · nlinarith
      have by' : m.y * (if -m.y < 0 then -he.y else he.y) ≤ m.y * q.y := by
        split_ifs with c
        · nlinarith
        · nlinarith
      linarith

/-- **`RoundShapeRef`** moves the deepest point by `τ` along `-n`. -/
theorem roundSupportPoint2_eq (hsq : LawfulSqrt sq) (s : SM2 K) (pos12 : Iso2 K) (n : V2 K) (τ : K)
    (hq : UnitC pos12) (hn : letI := fieldNum K sq; n.normSq = 1) :
    letI := fieldNum K sq
    s.roundSupportPoint τ pos12 n.neg = (s.supportPoint pos12 n.neg).sub (n.smul τ) := by
  let _ : Num K := fieldNum K sq
  have hu : (pos12.invRot n.neg).normSq = 1 := by
    have := dot_invRot_invRot2 sq pos12 n.neg n.neg hq
    simp only [V2.normSq]; rw [this]; exact (normSq_neg2 sq n).trans hn
  have hnn : n.neg.normSq = 1 := by rw [normSq_neg2]; exact hn
  have hr : pos12.rot (pos12.invRot n.neg) = n.neg := rot_invRot2 sq pos12 _ hq
  simp only [SM2.roundSupportPoint, normalize2_unit sq hsq _ hu, Iso2.act, rot_add2, rot_smul2, hr]
  cases s with
  | ball r =>
    simp only [SM2.localSupportToward, SM2.supportPoint, normalize2_unit sq hsq _ hnn, rot_smul2, hr]
    apply V2.ext' <;> simp only [V2.add, V2.sub, V2.smul, V2.neg] <;> ring
  | cuboid he =>
    simp only [SM2.localSupportToward, SM2.supportPoint, Iso2.act]
    apply V2.ext' <;> simp only [V2.add, V2.sub, V2.smul, V2.neg] <;> ring

/-- **half-space ray kernel (solid).**  `G s = n·(o + s·dir)` is the signed height of the ray point above the plane. -/
theorem halfspaceCastLocalRay2_spec (n o dir : V2 K) (mx : K) :
    letI := fieldNum K sq
    let G : K → K := fun s => n.dot o + s * n.dot dir
    match halfspaceCastLocalRay2 n o dir mx true with
    | some t => 0 ≤ t ∧ (t ≤ mx ∨ t = 0) ∧ G t ≤ 0 ∧ (∀ s, 0 ≤ s → s < t → 0 < G s) ∧ (G 0 < 0 → t = 0) ∧ (0 ≤ G 0 → G t = 0)
    | none => 0 ≤ G 0 ∧ ∀ s, 0 ≤ s → s ≤ mx → 0 < G s := by
  intro G
  let _ : Num K := fieldNum K sq
  have hG0 : G 0 = n.dot o := by simp [G]
  have hdnd : n.dot o.neg = -(n.dot o) := by simp only [V2.dot, V2.neg]; ring
  simp only [halfspaceCastLocalRay2, neq, hdnd, Bool.true_and, decide_eq_true_eq, Bool.and_eq_true]
  split_ifs with h1 h2 h2' h3
  · -- origin strictly inside
    have : n.dot o < 0 := by linarith
    refine ⟨le_refl _, Or.inr rfl, by rw [hG0]; exact this.le, fun s h h' => absurd h' (not_lt.2 h), fun _ => rfl, fun h => ?_⟩
    rw [hG0] at h; linarith
  · -- parallel ray starting on the plane
    have hden : n.dot dir = 0 := le_antisymm h2.1 h2.2
    have h0 : n.dot o = 0 := by linarith [h2'.1, h2'.2]
    refine ⟨le_refl _, Or.inr rfl, by rw [hG0, h0], fun s h h' => absurd h' (not_lt.2 h), fun _ => rfl, fun _ => by rw [hG0, h0]⟩
  · -- parallel ray, origin strictly outside
    have hden : n.dot dir = 0 := le_antisymm h2.1 h2.2
    push Not at h1
    have h0 : 0 < n.dot o := by
      rcases (show 0 ≤ n.dot o by linarith).lt_or_eq with hp | he
      · exact hp
      · exact absurd ⟨by linarith, by linarith⟩ h2'
    exact ⟨by rw [hG0]; exact h0.le, fun s _ _ => by simp only [G, hden]; linarith⟩
  · -- hit at t = -(n·o)/(n·dir)
    push Not at h1
    have hden : n.dot dir ≠ 0 := fun e => h2 ⟨e.le, e.ge⟩
    have h0 : 0 ≤ n.dot o := by linarith
    have ht : (-(n.dot o) / n.dot dir) * n.dot dir = -(n.dot o) := div_mul_cancel₀ _ hden
    have hGt : G (-(n.dot o) / n.dot dir) = 0 := by simp only [G]; linarith
    refine ⟨h3.1, Or.inl h3.2, hGt.le, fun s hs hs' => ?_, fun h => by rw [hG0] at h; linarith, fun _ => hGt⟩
    -- the denominator is negative whenever there is some s before t
    have hneg : n.dot dir < 0 := by
      rcases lt_or_gt_of_ne hden with c | c
      · exact c
      · have : -(n.dot o) / n.dot dir ≤ 0 := div_nonpos_of_nonpos_of_nonneg (by linarith) c.le
        linarith
    simp only [G]
    nlinarith
  · -- t < 0 or t > max
    push Not at h1
    have hden : n.dot dir ≠ 0 := fun e => h2 ⟨e.le, e.ge⟩
    have h0 : 0 ≤ n.dot o := by linarith
    have ht : (-(n.dot o) / n.dot dir) * n.dot dir = -(n.dot o) := div_mul_cancel₀ _ hden
    refine ⟨by rw [hG0]; exact h0, fun s hs hs' => ?_⟩
    simp only [G]
    rcases lt_or_gt_of_ne hden with c | c
    · -- approaching: the hit time exists and is ≥ 0, so it must exceed max
      have htn : 0 ≤ -(n.dot o) / n.dot dir := div_nonneg_of_nonpos (by linarith) c.le
      have : mx < -(n.dot o) / n.dot dir := by
        by_contra hh; push Not at hh; exact h3 ⟨htn, hh⟩
      nlinarith
    · -- receding
      rcases h0.lt_or_eq with hp | he
      · nlinarith [mul_nonneg hs c.le]
      · have : -(n.dot o) / n.dot dir = 0 := by rw [← he]; simp
        rw [this] at h3
        have : mx < 0 := by
          by_contra hh; push Not at hh; exact h3 ⟨le_refl _, hh⟩
        linarith

/-- signed distance to the plane `n·p = 0` of the deepest point of shape 2 at time `t`
(`= min { n·(p + t·v) | p ∈ pos12·S }` by `supportPoint2_deepest`) -/
def hsGap2 (s : SM2 K) (pos12 : Iso2 K) (n v : V2 K) (t : K) : K :=
  letI := fieldNum K sq
  n.dot (s.supportPoint pos12 n.neg) + t * n.dot v

/-- the support point the cast actually uses (rounded iff `target_distance > 0`) is `sp0 - τ·n` -/
private theorem hs_sp2 (hsq : LawfulSqrt sq) (s : SM2 K) (pos12 : Iso2 K) (n : V2 K) (τ : K)
    (hq : UnitC pos12) (hn : letI := fieldNum K sq; n.normSq = 1) (hτ : 0 ≤ τ) :
    letI := fieldNum K sq
    (if 0 < τ then s.roundSupportPoint τ pos12 n.neg else s.supportPoint pos12 n.neg)
      = (s.supportPoint pos12 n.neg).sub (n.smul τ) := by
  let _ : Num K := fieldNum K sq
  split_ifs with h
  · exact roundSupportPoint2_eq sq hsq s pos12 n τ hq hn
  · have : τ = 0 := le_antisymm (not_lt.1 h) hτ
    subst this
    apply V2.ext' <;> simp [V2.sub, V2.smul]

/-- **half-space / support map, returned hit** (unit complex rotation, unit plane normal, `target ≥ 0`; ball or cuboid): with `gap(t) = min { n·(p + t·v) | p ∈ pos12·S }` (see `supportPoint2_deepest`): `0 ≤ toi ≤ max`, `gap(toi) ≤ target`, `gap > target` on `[0,toi)`, `Penetrating… ⇔ gap(0) < target` and then `toi = 0`, `Converged ⇒ gap(toi) = target`; with `stop_at_penetration = false` a hit is only reported for a non-separating velocity. -/
theorem halfspace2_first_contact (hsq : LawfulSqrt sq) (pos12 : Iso2 K) (vel12 n : V2 K) (s : SM2 K) (o : Opts K)
    (h : Hit (V2 K) K) (hq : UnitC pos12) (hn : letI := fieldNum K sq; n.normSq = 1) (hτ : 0 ≤ o.target) :
    letI := fieldNum K sq
    castHalfspaceSM2 pos12 vel12 n s o = some h →
    let gap := hsGap2 sq s pos12 n vel12
    0 ≤ h.toi ∧ h.toi ≤ o.maxToi ∧ gap h.toi ≤ o.target ∧
    (∀ t, 0 ≤ t → t < h.toi → o.target < gap t) ∧
    (h.status = Status.penetrating ∨ h.status = Status.converged) ∧
    (h.status = Status.penetrating ↔ gap 0 < o.target) ∧
    (h.status = Status.penetrating → h.toi = 0) ∧
    (h.status = Status.converged → gap h.toi = o.target) ∧
    (o.stop = false → vel12.dot n ≤ 0) := by
  intro hres gap
  let _ : Num K := fieldNum K sq
  have hsp := hs_sp2 sq hsq s pos12 n o.target hq hn hτ
  simp only [castHalfspaceSM2, hsp] at hres
  set sp0 := s.supportPoint pos12 n.neg with hsp0
  have hray := halfspaceCastLocalRay2_spec sq n (sp0.sub (n.smul o.target)) vel12 o.maxToi
  have key : ∀ t, n.dot (sp0.sub (n.smul o.target)) + t * n.dot vel12 = gap t - o.target := by
    intro t
    simp only [gap, hsGap2, ← hsp0]
    simp only [V2.normSq, V2.dot, V2.sub, V2.smul] at hn ⊢
    linear_combination (-o.target) * hn
  have kdot : (sp0.sub (n.smul o.target)).dot n = gap 0 - o.target := by
    rw [← key 0]; simp only [V2.dot]; ring
  by_cases hstop : (!o.stop && decide (0 < vel12.dot n)) = true
  · rw [if_pos hstop] at hres; simp at hres
  rw [if_neg hstop] at hres
  simp only [key] at hray
  revert hray hres
  generalize halfspaceCastLocalRay2 n _ vel12 o.maxToi true = res
  rcases res with _ | toi
  · intro hres _; simp at hres
  · intro hres hray
    dsimp only at hres
    obtain ⟨t0, tmax, gle, gpos, gpen, gconv⟩ := hray
    have hstop' : o.stop = false → vel12.dot n ≤ 0 := by
      intro hs
      simp only [hs, Bool.not_false, Bool.true_and, decide_eq_true_eq, not_lt] at hstop
      exact hstop
    split_ifs at hres with h1 h2
    · simp only [Option.some.injEq] at hres; subst hres
      push Not at h1
      rw [kdot] at h2
      refine ⟨t0, h1, by linarith, fun t ht ht' => by linarith [gpos t ht ht'], Or.inl rfl, ?_, fun _ => gpen (by linarith), fun hh => by simp at hh, hstop'⟩
      simp only [true_iff]; linarith
    · simp only [Option.some.injEq] at hres; subst hres
      push Not at h1 h2
      rw [kdot] at h2
      refine ⟨t0, h1, by linarith, fun t ht ht' => by linarith [gpos t ht ht'], Or.inr rfl, ?_, fun hh => by simp at hh, fun _ => by linarith [gconv (by linarith)], hstop'⟩
      simp only [reduceCtorEq, false_iff, not_lt]; linarith

/-- **half-space cast, `None`.**  Either the cast was discarded as separating (`stop_at_penetration = false` and
`v·n > 0`), or the deepest point of shape 2 stays strictly farther than `target` from the plane on `[0, max]`. -/
theorem halfspace2_none (hsq : LawfulSqrt sq) (pos12 : Iso2 K) (vel12 n : V2 K) (s : SM2 K) (o : Opts K)
    (hq : UnitC pos12) (hn : letI := fieldNum K sq; n.normSq = 1) (hτ : 0 ≤ o.target) :
    letI := fieldNum K sq
    castHalfspaceSM2 pos12 vel12 n s o = none →
    let gap := hsGap2 sq s pos12 n vel12
    (o.stop = false ∧ 0 < vel12.dot n) ∨
    (∀ t, 0 ≤ t → t ≤ o.maxToi → o.target < gap t) := by
  intro hres gap
  let _ : Num K := fieldNum K sq
  have hsp := hs_sp2 sq hsq s pos12 n o.target hq hn hτ
  simp only [castHalfspaceSM2, hsp] at hres
  set sp0 := s.supportPoint pos12 n.neg with hsp0
  have hray := halfspaceCastLocalRay2_spec sq n (sp0.sub (n.smul o.target)) vel12 o.maxToi
  have key : ∀ t, n.dot (sp0.sub (n.smul o.target)) + t * n.dot vel12 = gap t - o.target := by
    intro t
    simp only [gap, hsGap2, ← hsp0]
    simp only [V2.normSq, V2.dot, V2.sub, V2.smul] at hn ⊢
    linear_combination (-o.target) * hn
  by_cases hstop : (!o.stop && decide (0 < vel12.dot n)) = true
  · simp only [Bool.and_eq_true, Bool.not_eq_true', decide_eq_true_eq] at hstop
    exact Or.inl hstop
  rw [if_neg hstop] at hres
  simp only [key] at hray
  revert hray hres
  generalize halfspaceCastLocalRay2 n _ vel12 o.maxToi true = res
  rcases res with _ | toi
  · intro _ hray
    exact Or.inr fun t ht ht' => by linarith [hray.2 t ht ht']
  · intro hres hray
    dsimp only at hres
    obtain ⟨t0, tmax, gle, gpos, gpen, gconv⟩ := hray
    split_ifs at hres with h1
    refine Or.inr fun t ht ht' => ?_
    linarith [gpos t ht (lt_of_le_of_lt ht' h1)]

/-- **half-space cast, witnesses and normals.** -/
theorem halfspace2_geometry (hsq : LawfulSqrt sq) (pos12 : Iso2 K) (vel12 n : V2 K) (s : SM2 K) (o : Opts K)
    (h : Hit (V2 K) K) (hq : UnitC pos12) (hn : letI := fieldNum K sq; n.normSq = 1) (hτ : 0 ≤ o.target) :
    letI := fieldNum K sq
    castHalfspaceSM2 pos12 vel12 n s o = some h →
    let sp0 := s.supportPoint pos12 n.neg
    h.n1 = n ∧ pos12.rot h.n2 = n.neg ∧ h.n2.normSq = 1 ∧
    pos12.act h.w2 = sp0 ∧ n.dot h.w1 = 0 ∧
    (sp0.add (vel12.smul h.toi)).sub h.w1 = n.smul (hsGap2 sq s pos12 n vel12 h.toi) := by
  intro hres sp0
  let _ : Num K := fieldNum K sq
  have hsp := hs_sp2 sq hsq s pos12 n o.target hq hn hτ
  simp only [castHalfspaceSM2, hsp] at hres
  by_cases hstop : (!o.stop && decide (0 < vel12.dot n)) = true
  · rw [if_pos hstop] at hres; simp at hres
  rw [if_neg hstop] at hres
  revert hres
  generalize halfspaceCastLocalRay2 n _ vel12 o.maxToi true = res
  rcases res with _ | toi
  · intro hres; simp at hres
  · intro hres
    dsimp only at hres
    have hn2 : (pos12.invRot n.neg).normSq = 1 := by
      have := dot_invRot_invRot2 sq pos12 n.neg n.neg hq
      simp only [V2.normSq]; rw [this]; exact (normSq_neg2 sq n).trans hn
    have hw2 : pos12.act (pos12.invAct ((sp0.sub (n.smul o.target)).add (n.smul o.target))) = sp0 := by
      simp only [Iso2.act, Iso2.invAct, rot_invRot2 sq pos12 _ hq]
      apply V2.ext' <;> simp only [V2.add, V2.sub, V2.smul] <;> ring
    have hall : ∀ st, (⟨toi, ((sp0.sub (n.smul o.target)).add (vel12.smul toi)).sub (n.smul (((sp0.sub (n.smul o.target)).add (vel12.smul toi)).dot n)),
          pos12.invAct ((sp0.sub (n.smul o.target)).add (n.smul o.target)), n, pos12.invRot n.neg, st⟩ : Hit (V2 K) K) = h →
        h.n1 = n ∧ pos12.rot h.n2 = n.neg ∧ h.n2.normSq = 1 ∧ pos12.act h.w2 = sp0 ∧ n.dot h.w1 = 0 ∧
        (sp0.add (vel12.smul h.toi)).sub h.w1 = n.smul (hsGap2 sq s pos12 n vel12 h.toi) := by
      intro st e; subst e
      refine ⟨rfl, rot_invRot2 sq pos12 _ hq, hn2, hw2, ?_, ?_⟩
      · simp only [V2.normSq, V2.dot, V2.sub, V2.add, V2.smul] at hn ⊢
        linear_combination (-(sp0.x - n.x * o.target + vel12.x * toi) * n.x - (sp0.y - n.y * o.target + vel12.y * toi) * n.y) * hn
      · simp only [hsGap2]
        apply V2.ext' <;> simp only [V2.normSq, V2.dot, V2.sub, V2.add, V2.smul] at hn ⊢
        · linear_combination (-(n.x * o.target)) * hn
        · linear_combination (-(n.y * o.target)) * hn
    split_ifs at hres with h1 h2
    · exact hall _ (Option.some.inj hres)
    · exact hall _ (Option.some.inj hres)

/-- **half-space cast in terms of the posed shape as a set** (headline form).  If a hit is returned then every point of
shape 2 stays farther than `target` from the plane before `toi`, some point of shape 2 is within `target` at `toi`, and
for a `Converged` hit no point is closer than `target` at `toi` (the shape exactly touches the offset plane). -/
theorem halfspace2_first_contact_sets (hsq : LawfulSqrt sq) (pos12 : Iso2 K) (vel12 n : V2 K) (s : SM2 K) (o : Opts K)
    (h : Hit (V2 K) K) (hq : UnitC pos12) (hn : letI := fieldNum K sq; n.normSq = 1) (hτ : 0 ≤ o.target) (hv : smValid2 s) :
    letI := fieldNum K sq
    castHalfspaceSM2 pos12 vel12 n s o = some h →
    (∀ t, 0 ≤ t → t < h.toi → ∀ q, smMem2 sq s q → o.target < n.dot ((pos12.act q).add (vel12.smul t))) ∧
    (∃ q, smMem2 sq s q ∧ n.dot ((pos12.act q).add (vel12.smul h.toi)) ≤ o.target) ∧
    (h.status = Status.converged → ∀ q, smMem2 sq s q → o.target ≤ n.dot ((pos12.act q).add (vel12.smul h.toi))) := by
  intro hres
  let _ : Num K := fieldNum K sq
  obtain ⟨_, _, gle, gpos, _, _, _, gconv, _⟩ := halfspace2_first_contact sq hsq pos12 vel12 n s o h hq hn hτ hres
  obtain ⟨⟨q0, hq0, e0⟩, hmin⟩ := supportPoint2_deepest sq hsq s pos12 n hq hn hv
  have lin : ∀ (p : V2 K) (t : K), n.dot (p.add (vel12.smul t)) = n.dot p + t * n.dot vel12 := by
    intro p t; simp only [V2.dot, V2.add, V2.smul]; ring
  refine ⟨fun t ht ht' q hqm => ?_, ⟨q0, hq0, ?_⟩, fun hc q hqm => ?_⟩
  · have := gpos t ht ht'; simp only [hsGap2] at this
    rw [lin]; linarith [hmin q hqm]
  · simp only [hsGap2] at gle; rw [lin, ← e0]; exact gle
  · have := gconv hc; simp only [hsGap2] at this
    rw [lin]; linarith [hmin q hqm]

/-- **half-space cast, `None`, in terms of the posed shape as a set**: with `stop_at_penetration`, every point of shape 2
stays strictly farther than `target` from the plane on all of `[0, max_time_of_impact]`. -/
theorem halfspace2_none_sets (hsq : LawfulSqrt sq) (pos12 : Iso2 K) (vel12 n : V2 K) (s : SM2 K) (o : Opts K)
    (hq : UnitC pos12) (hn : letI := fieldNum K sq; n.normSq = 1) (hτ : 0 ≤ o.target) (hv : smValid2 s) :
    letI := fieldNum K sq
    castHalfspaceSM2 pos12 vel12 n s o = none → o.stop = true →
    ∀ t, 0 ≤ t → t ≤ o.maxToi → ∀ q, smMem2 sq s q → o.target < n.dot ((pos12.act q).add (vel12.smul t)) := by
  intro hres hstop t ht ht' q hqm
  let _ : Num K := fieldNum K sq
  obtain ⟨_, hmin⟩ := supportPoint2_deepest sq hsq s pos12 n hq hn hv
  have lin : ∀ (p : V2 K) (t : K), n.dot (p.add (vel12.smul t)) = n.dot p + t * n.dot vel12 := by
    intro p t; simp only [V2.dot, V2.add, V2.smul]; ring
  rcases halfspace2_none sq hsq pos12 vel12 n s o hq hn hτ hres with h1 | h1
  · rw [hstop] at h1; simp at h1
  · have := h1 t ht ht'; simp only [hsGap2] at this
    rw [lin]; linarith [hmin q hqm]

/-! ## wrappers, free function, nonlinear motion -/

/-- isometry translated by `d` (the pose of a body after moving by `d` without rotating) -/
def moved2 (m : Iso2 K) (d : V2 K) : Iso2 K :=
  letI := fieldNum K sq
  { m with t := m.t.add d }

/-- **mirrored wrapper** = the same cast with the roles exchanged. -/
theorem castSMHalfspace2_eq (pos12 : Iso2 K) (vel12 : V2 K) (s : SM2 K) (n : V2 K) (o : Opts K) :
    letI := fieldNum K sq
    castSMHalfspace2 pos12 vel12 s n o = (castHalfspaceSM2 pos12.inverse (pos12.invRot vel12).neg n s o).map Hit.swapped := rfl

/-- **mirrored wrapper, motion.**  Seen from the half-space (shape 2, at `pos12` moving with `vel12`), a point `q` of
shape 1's frame sits at `pos12⁻¹·q + t·(-(R₁₂ᵀ vel12))`: exactly the pose/velocity the wrapper passes on. No
unit-norm hypothesis is needed. -/
theorem mirrored_motion2 (pos12 : Iso2 K) (vel12 q : V2 K) (t : K) :
    letI := fieldNum K sq
    (moved2 sq pos12 (vel12.smul t)).invAct q = (pos12.inverse.act q).add ((pos12.invRot vel12).neg.smul t) := by
  apply V2.ext' <;>
  simp only [moved2, Iso2.invAct, Iso2.act, Iso2.inverse, Iso2.invRot, Iso2.rot, V2.smul,
    V2.add, V2.sub, V2.neg] <;> ring

/-- **free function, velocity conversion.**  At every time `t` the relative pose of body 2 in the frame of body 1 is
the initial relative pose translated by `t · vel12` with `vel12 = R₁ᵀ (vel2 - vel1)` — what `query::cast_shapes` hands
to the dispatcher.  Pure algebra: holds for any complex number. -/
theorem castShapes_relative_motion2 (pos1 pos2 : Iso2 K) (vel1 vel2 : V2 K) (t : K) :
    letI := fieldNum K sq
    (moved2 sq pos1 (vel1.smul t)).invMul (moved2 sq pos2 (vel2.smul t))
      = moved2 sq (pos1.invMul pos2) ((pos1.invRot (vel2.sub vel1)).smul t) := by
  simp only [moved2, Iso2.invMul]
  congr 1
  apply V2.ext' <;>
  simp only [Iso2.invRot, Iso2.rot, V2.smul, V2.add, V2.sub] <;> ring

/-- the free function applies the pair's closed form to `(pos12, vel12) = (pos1⁻¹·pos2, R₁ᵀ(vel2 - vel1))`, with the
dispatcher's branch order (ball/ball, half-space/support-map, support-map/half-space) -/
theorem castShapes2_dispatch (pos1 pos2 : Iso2 K) (vel1 vel2 n he : V2 K) (r1 r2 : K) (o : Opts K) :
    letI := fieldNum K sq
    let pos12 := pos1.invMul pos2
    let vel12 := pos1.invRot (vel2.sub vel1)
    castShapes2 pos1 vel1 (.ball r1) pos2 vel2 (.ball r2) o = some (castBallBall2 pos12 vel12 r1 r2 o) ∧
    castShapes2 pos1 vel1 (.halfspace n) pos2 vel2 (.ball r2) o = some (castHalfspaceSM2 pos12 vel12 n (.ball r2) o) ∧
    castShapes2 pos1 vel1 (.halfspace n) pos2 vel2 (.cuboid he) o = some (castHalfspaceSM2 pos12 vel12 n (.cuboid he) o) ∧
    castShapes2 pos1 vel1 (.ball r1) pos2 vel2 (.halfspace n) o = some (castSMHalfspace2 pos12 vel12 (.ball r1) n o) ∧
    castShapes2 pos1 vel1 (.cuboid he) pos2 vel2 (.halfspace n) o = some (castSMHalfspace2 pos12 vel12 (.cuboid he) n o) :=
  ⟨rfl, rfl, rfl, rfl, rfl⟩

/-- **nonlinear = linear for zero angular velocity**: `position_at_time(t)` is the start pose translated by
`linvel · t`, whatever the local centre. -/
theorem positionAtTime2_zero_angvel (m : Motion2 K) (t : K) :
    letI := fieldNum K sq
    m.positionAtTime t = moved2 sq m.start (m.linvel.smul t) := by
  obtain ⟨⟨re, im, tr⟩, lc, lv⟩ := m
  simp only [Motion2.positionAtTime, moved2, Iso2.mul, Iso2.rot, Iso2.act]
  congr 1
  · ring
  · ring
  · apply V2.ext' <;> simp only [V2.smul, V2.add, V2.neg] <;> ring

/-- hence two bodies in nonlinear motion with zero angular velocities are, at every time, in the relative pose the
linear cast uses. -/
theorem nonlinear_eq_linear2 (m1 m2 : Motion2 K) (t : K) :
    letI := fieldNum K sq
    (m1.positionAtTime t).invMul (m2.positionAtTime t)
      = moved2 sq (m1.start.invMul m2.start) ((m1.start.invRot (m2.linvel.sub m1.linvel)).smul t) := by
  rw [positionAtTime2_zero_angvel, positionAtTime2_zero_angvel]
  exact castShapes_relative_motion2 sq _ _ _ _ t

theorem transform1By2_identity (h : Hit (V2 K) K) :
    letI := fieldNum K sq
    h.transform1By2 Iso2.identity = h := by
  obtain ⟨toi, w1, w2, n1, n2, st⟩ := h
  simp only [Hit.transform1By2, Iso2.identity, Iso2.act, Iso2.rot]
  congr 1 <;> apply V2.ext' <;> simp only [V2.add, V2.zero] <;> ring

/-- `transform1_by` touches only side 1: time, status, witness 2 and normal 2 are kept, witness 1 is mapped as a point
and normal 1 as a vector -/
theorem transform1By2_fields (h : Hit (V2 K) K) (a : Iso2 K) :
    letI := fieldNum K sq
    (h.transform1By2 a).w1 = a.act h.w1 ∧ (h.transform1By2 a).n1 = a.rot h.n1 ∧
    (h.transform1By2 a).toi = h.toi ∧ (h.transform1By2 a).status = h.status ∧
    (h.transform1By2 a).w2 = h.w2 ∧ (h.transform1By2 a).n2 = h.n2 := ⟨rfl, rfl, rfl, rfl, rfl, rfl⟩

/-- the closed-form casts ignore `compute_impact_geometry_on_penetration` -/
theorem cig_irrelevant2 (pos12 : Iso2 K) (v n : V2 K) (r1 r2 : K) (s : SM2 K) (o : Opts K) (c : Bool) :
    letI := fieldNum K sq
    castBallBall2 pos12 v r1 r2 { o with cig := c } = castBallBall2 pos12 v r1 r2 o ∧
    castHalfspaceSM2 pos12 v n s { o with cig := c } = castHalfspaceSM2 pos12 v n s o := ⟨rfl, rfl⟩


/-! ## the pinned tree is refuted; non-vacuity -/

/-- **Refutation of the pinned tree.**  Two unit balls whose centres are 1 apart (overlapping), no motion, default
options: `cast_shapes_ball_ball` as written on the pinned tree (`normal1 = dpt / (r1 + r2 + target)`) returns
`normal1 = (1/2, 0, 0)` inside a `Unit<Vector>` — squared norm `1/4`.  (Every square root involved is avoided: the
direction is zero, so `ray_toi_with_ball` takes its zero-direction branch.) -/
theorem castBallBallPinned3_normal_not_unit :
    letI := fieldNum ℚ (fun _ => 0)
    ∃ h, castBallBallPinned3 (⟨0, 0, 0, 1, ⟨1, 0, 0⟩⟩ : Iso3 ℚ) ⟨0, 0, 0⟩ 1 1 ⟨1, 0, true, true⟩ = some h ∧
      h.status = Status.penetrating ∧ h.n1.normSq = 1 / 4 := by
  refine ⟨⟨0, ⟨1/2, 0, 0⟩, ⟨-1/2, 0, 0⟩, ⟨1/2, 0, 0⟩, ⟨-1/2, 0, 0⟩, Status.penetrating⟩, ?_, rfl, ?_⟩
  · simp only [castBallBallPinned3, castBallBallWith3, rayToiWithBall3, rayBallCore, ballBallGeomPinned3, neq,
      V3.normSq, V3.dot, V3.sub, V3.add, V3.smul, V3.neg, V3.zero, V3.sdiv, Iso3.invRot, Iso3.rotQ, Iso3.qv, V3.cross,
      fieldNum_two, fieldNum_lit]
    norm_num
  · simp only [V3.normSq, V3.dot]; norm_num

/-- non-vacuity of `LawfulSqrt`: the real square root -/
theorem lawfulSqrt_real : LawfulSqrt Real.sqrt := ⟨fun x _ => Real.sqrt_nonneg x, fun _ h => Real.mul_self_sqrt h⟩

private theorem sqrt4 : Real.sqrt 4 = 2 := by
  rw [show (4:ℝ) = 2 * 2 by norm_num]; exact Real.sqrt_mul_self (by norm_num)

/-- non-vacuity (ℝ, the real square root): unit balls 4 apart closing at speed 1 touch at `t = 2`, converged. -/
example :
    letI := fieldNum ℝ Real.sqrt
    ∃ h, castBallBall3 (⟨0, 0, 0, 1, ⟨4, 0, 0⟩⟩ : Iso3 ℝ) ⟨-1, 0, 0⟩ 1 1 ⟨10, 0, true, true⟩ = some h ∧
      h.toi = 2 ∧ h.status = Status.converged ∧ h.n1 = ⟨1, 0, 0⟩ := by
  refine ⟨⟨2, ⟨1, 0, 0⟩, ⟨-1, 0, 0⟩, ⟨1, 0, 0⟩, ⟨-1, 0, 0⟩, Status.converged⟩, ?_, rfl, rfl, rfl⟩
  have hl : ((mkRat 1 4503599627370496 : ℚ) : ℝ) = 1 / 4503599627370496 := by norm_num
  simp only [castBallBall3, castBallBallWith3, rayToiWithBall3, rayBallCore, ballBallGeom3, tryNormalize3, eps, neq,
    V3.normSq, V3.dot, V3.sub, V3.add, V3.smul, V3.neg, V3.zero, V3.sdiv, Iso3.invRot, Iso3.rotQ, Iso3.qv, V3.cross,
    fieldNum_two, fieldNum_lit, fieldNum_sqrt, hl]
  norm_num [sqrt4]

/-- a rational unit quaternion (rotation about `z` by `2·atan(3/4)`) and a rational unit complex number -/
example : UnitQ (⟨0, 0, 3/5, 4/5, ⟨1, 2, 3⟩⟩ : Iso3 ℚ) ∧ UnitC (⟨3/5, 4/5, ⟨1, 2⟩⟩ : Iso2 ℚ) := by
  unfold UnitQ UnitC; norm_num

/-- non-vacuity of `castBallBallWith3_none_stop`: balls moving apart → `None` with `stop_at_penetration` -/
example :
    letI := fieldNum ℝ Real.sqrt
    castBallBall3 (⟨0, 0, 3/5, 4/5, ⟨4, 0, 0⟩⟩ : Iso3 ℝ) ⟨1, 0, 0⟩ 1 1 ⟨10, 1/2, true, true⟩ = none := by
  simp only [castBallBall3, castBallBallWith3, rayToiWithBall3, rayBallCore, neq,
    V3.normSq, V3.dot, V3.sub, V3.add, V3.smul, V3.neg, V3.zero]
  norm_num

/-- non-vacuity of `castBallBall3_none_nostop`, second alternative: overlapping balls that separate, without
`stop_at_penetration`, are discarded -/
example :
    letI := fieldNum ℝ Real.sqrt
    castBallBall3 (⟨0, 0, 0, 1, ⟨1, 0, 0⟩⟩ : Iso3 ℝ) ⟨1, 0, 0⟩ 1 1 ⟨10, 0, false, true⟩ = none := by
  have hl : ((mkRat 1 4503599627370496 : ℚ) : ℝ) = 1 / 4503599627370496 := by norm_num
  have hl2 : ((mkRat 1 100000 : ℚ) : ℝ) = 1 / 100000 := by norm_num
  simp only [castBallBall3, castBallBallWith3, rayToiWithBall3, rayBallCore, ballBallGeom3, tryNormalize3, eps, neq,
    V3.normSq, V3.dot, V3.sub, V3.add, V3.smul, V3.neg, V3.zero, V3.sdiv, Iso3.invRot, Iso3.rotQ, Iso3.qv, V3.cross,
    fieldNum_two, fieldNum_lit, fieldNum_sqrt, hl, hl2]
  norm_num [sqrt4]

/-- non-vacuity of the half-space theorems: a rotated cuboid 10 above the plane `y ≤ 0`, falling, target distance 1/2 -/
example :
    letI := fieldNum ℝ Real.sqrt
    ∃ h, castHalfspaceSM3 (⟨0, 0, 3/5, 4/5, ⟨0, 10, 0⟩⟩ : Iso3 ℝ) ⟨0, -1, 0⟩ ⟨0, 1, 0⟩ (.cuboid ⟨1, 2, 3⟩) ⟨100, 1/2, true, false⟩ = some h := by
  rw [← Option.isSome_iff_exists]
  simp only [castHalfspaceSM3, halfspaceCastLocalRay3, SM3.roundSupportPoint, SM3.supportPoint, SM3.localSupportToward,
    normalize3, V3.norm, copysign3, copysign, signbit, neq, fieldNum_nabs,
    V3.normSq, V3.dot, V3.sub, V3.add, V3.smul, V3.neg, V3.sdiv, Iso3.invRot, Iso3.invAct, Iso3.act, Iso3.rot, Iso3.rotQ, Iso3.qv, V3.cross,
    fieldNum_two, fieldNum_sqrt]
  norm_num

/-- 2-D non-vacuity: unit discs 4 apart closing at speed 1 touch at `t = 2` -/
example :
    letI := fieldNum ℝ Real.sqrt
    ∃ h, castBallBall2 (⟨3/5, 4/5, ⟨4, 0⟩⟩ : Iso2 ℝ) ⟨-1, 0⟩ 1 1 ⟨10, 0, true, true⟩ = some h := by
  rw [← Option.isSome_iff_exists]
  have hl : ((mkRat 1 4503599627370496 : ℚ) : ℝ) = 1 / 4503599627370496 := by norm_num
  simp only [castBallBall2, castBallBallWith2, rayToiWithBall2, rayBallCore, ballBallGeom2, tryNormalize2, eps, neq,
    V2.normSq, V2.dot, V2.sub, V2.add, V2.smul, V2.neg, V2.zero, V2.sdiv, Iso2.invRot,
    fieldNum_lit, fieldNum_sqrt, hl]
  norm_num [sqrt4]

/-- 2-D non-vacuity: a rotated box 10 above the line `y ≤ 0`, falling, target distance 1/2 -/
example :
    letI := fieldNum ℝ Real.sqrt
    ∃ h, castHalfspaceSM2 (⟨3/5, 4/5, ⟨0, 10⟩⟩ : Iso2 ℝ) ⟨0, -1⟩ ⟨0, 1⟩ (.cuboid ⟨1, 2⟩) ⟨100, 1/2, true, false⟩ = some h := by
  rw [← Option.isSome_iff_exists]
  simp only [castHalfspaceSM2, halfspaceCastLocalRay2, SM2.roundSupportPoint, SM2.supportPoint, SM2.localSupportToward,
    normalize2, V2.norm, copysign2, copysign, signbit, neq, fieldNum_nabs,
    V2.normSq, V2.dot, V2.sub, V2.add, V2.smul, V2.neg, V2.sdiv, Iso2.invRot, Iso2.invAct, Iso2.act, Iso2.rot,
    fieldNum_sqrt]
  norm_num

/-- hypotheses of the Minkowski lemma and of the kernel theorem are satisfiable -/
example : (0:ℚ) ≤ 1 ∧ (0:ℚ) ≤ 2 ∧ (0:ℚ) ≤ 1/2 ∧ (0:ℚ) ≤ 4 ∧ ((4:ℚ) = 0 → (-6:ℚ) = 0) := by norm_num

end C06
