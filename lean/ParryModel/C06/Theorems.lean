import ParryModel.C06.Lemmas
/-!
# C06 property theorems: closed-form shape casts report the first time of impact.

All statements are about the model functions of `C06/Model.lean` at the lawful instance `fieldNum K sq`
(any linearly ordered field `K`; `sq` a lawful square root where the code calls `sqrt`).
Distances are compared through their squares, so no statement needs a square root in its *specification*.
-/
namespace C06
open Model Model.SC
variable {K : Type} [Field K] [LinearOrder K] [IsStrictOrderedRing K] (sq : K → K)

/-! ## `ray_toi_with_ball` -/

/-- **ray/ball kernel, solid** — for `q(s) = a s² + 2 b s + c` (`= |o + s·dir - centre|² - r²` with the `a b c` the code
computes; `a = |dir|² ≥ 0`, and `dir = 0 ⇒ b = 0`): a returned `t` is the *first* `s ≥ 0` with `q(s) ≤ 0`
(`q(t) ≤ 0`, `q > 0` on `[0,t)`), `inside ⇔ q(0) ≤ 0` and then `t = 0`, otherwise `q(t) = 0` (on the sphere);
`None` ⇒ `q > 0` on all of `[0,∞)`.  Zero and non-unit directions included. -/
theorem rayBallCore_solid_spec (hsq : LawfulSqrt sq) (a b c : K) (ha : 0 ≤ a) (hab : a = 0 → b = 0) :
    letI := fieldNum K sq
    match rayBallCore a b c true with
    | (inside, some t) => 0 ≤ t ∧ a*t*t + 2*b*t + c ≤ 0 ∧ (∀ s, 0 ≤ s → s < t → 0 < a*s*s + 2*b*s + c)
         ∧ (inside = true ↔ c ≤ 0) ∧ (inside = true → t = 0) ∧ (inside = false → a*t*t + 2*b*t + c = 0)
    | (inside, none) => inside = false ∧ ∀ s, 0 ≤ s → 0 < a*s*s + 2*b*s + c := by
  simp only [rayBallCore, neq, fieldNum_sqrt]
  split_ifs with h1 h2 h3 h4 h5
  · simp only [Bool.and_eq_true, decide_eq_true_eq] at h1
    have a0 : a = 0 := le_antisymm h1.1 h1.2
    have b0 := hab a0
    refine ⟨rfl, fun s _ => ?_⟩
    rw [a0, b0]; simpa using h2
  · simp only [Bool.and_eq_true, decide_eq_true_eq] at h1
    have a0 : a = 0 := le_antisymm h1.1 h1.2
    have b0 := hab a0
    push Not at h2
    refine ⟨le_refl _, by simpa using h2, fun s h h' => absurd h' (not_lt.2 h), by simpa using h2, fun _ => rfl, fun h => by simp at h⟩
  · simp only [Bool.and_eq_true, decide_eq_true_eq] at h3
    exact ⟨rfl, fun s hs => quad_pos_of_pos_pos a b c s ha h3.2 h3.1 hs⟩
  · simp only [Bool.and_eq_true, decide_eq_true_eq, not_and, not_le] at h1
    have apos : 0 < a := lt_of_le_of_ne ha (fun e => by have := h1 (by rw [← e]); exact absurd this (by rw [← e]; simp))
    exact ⟨rfl, fun s _ => quad_pos_of_disc_neg a b c s apos h4⟩
  · simp only [Bool.and_eq_true, decide_eq_true_eq, not_and, not_le] at h1 h3
    have apos : 0 < a := lt_of_le_of_ne ha (fun e => by have := h1 (by rw [← e]); exact absurd this (by rw [← e]; simp))
    push Not at h4
    have hr := hsq.nonneg _ h4
    have hrr := hsq.sq_mul _ h4
    set r := sq (b * b - a * c) with hrdef
    have hnum : -b - r ≤ 0 := by
      by_contra hh; push Not at hh
      exact absurd h5 (not_le.2 (div_pos hh apos))
    have hc : c ≤ 0 := by
      by_contra hc; push Not at hc
      have hb : b ≤ 0 := not_lt.1 (h3 hc)
      nlinarith [mul_pos apos hc]
    refine ⟨le_refl _, by simpa using hc, fun s h h' => absurd h' (not_lt.2 h), by simpa using hc, fun _ => rfl, fun h => by simp at h⟩
  · simp only [Bool.and_eq_true, decide_eq_true_eq, not_and, not_le] at h1 h3
    have apos : 0 < a := lt_of_le_of_ne ha (fun e => by have := h1 (by rw [← e]); exact absurd this (by rw [← e]; simp))
    push Not at h4 h5
    have hr := hsq.nonneg _ h4
    have hrr := hsq.sq_mul _ h4
    set r := sq (b * b - a * c) with hrdef
    have hat : a * ((-b - r) / a) = -b - r := mul_div_cancel₀ _ apos.ne'
    obtain ⟨q0, qpos⟩ := quad_first_root a b c r _ apos hr hrr hat
    have hc : 0 < c := by have := qpos 0 h5; simpa using this
    refine ⟨h5.le, q0.le, fun s _ h' => qpos s h', ?_, fun h => by simp at h, fun _ => q0⟩
    simp [not_le.2 hc]

example : (0:ℚ) ≤ 4 ∧ ((4:ℚ) = 0 → (-6:ℚ) = 0) := by norm_num

end C06
