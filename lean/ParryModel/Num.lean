/-!
# `Num`: the lawless scalar interface every model function is written against.

Model files import nothing but this (no Mathlib) so that the line-protocol driver links as a
`lean_exe`.  Instances: `Float` (bit-exact correspondence with parry*-f64), `Rat` (exact oracles
and counter-examples), `NaNable` (definedness), and — in `ParryModel/Field.lean` — any linearly
ordered field (the theorems).
-/

class Num (K : Type) extends Add K, Sub K, Mul K, Div K, Neg K, LT K, LE K, Zero K, One K where
  sqrt  : K → K
  ofRat : Rat → K
  decLt : ∀ a b : K, Decidable (a < b)
  decLe : ∀ a b : K, Decidable (a ≤ b)

instance {K} [Num K] (a b : K) : Decidable (a < b) := Num.decLt a b
instance {K} [Num K] (a b : K) : Decidable (a ≤ b) := Num.decLe a b

namespace Model
variable {K : Type} [Num K]

/-- Rust `a.min(b)` / simba `simd_min` on non-NaN operands. -/
@[inline] def nmin (a b : K) : K := if b < a then b else a
/-- Rust `a.max(b)` / simba `simd_max` on non-NaN operands. -/
@[inline] def nmax (a b : K) : K := if a < b then b else a
/-- Rust `x.abs()`. -/
@[inline] def nabs (a : K) : K := if a < 0 then -a else a
/-- Rust `a == b` on floats. -/
@[inline] def neq (a b : K) : Bool := decide (a ≤ b) && decide (b ≤ a)
/-- literal helper -/
@[inline] def lit (n : Int) (d : Nat := 1) : K := Num.ofRat (mkRat n d)
@[inline] def two : K := (1 : K) + 1
/-- `clamp(x, lo, hi)` as nalgebra/simba: `max(lo, min(x, hi))`-style with Rust `f64::clamp` order. -/
@[inline] def nclamp (x lo hi : K) : K := if x < lo then lo else if hi < x then hi else x

end Model

/-! ## Float instance -/

instance : Num Float where
  zero := 0.0
  one := 1.0
  sqrt := Float.sqrt
  ofRat q := Float.ofInt q.num / Float.ofNat q.den
  decLt a b := inferInstanceAs (Decidable (a < b))
  decLe a b := inferInstanceAs (Decidable (a ≤ b))

/-! ## Rat instance (sqrt exact on perfect squares; otherwise a rational upper approximation —
oracles that need sqrt compare squares instead and never call it) -/

def Rat.sqrtApprox (x : Rat) : Rat :=
  if x ≤ 0 then 0 else
    -- scale to 2^-40 resolution
    let s : Nat := 2 ^ 80
    let n := (x * (s : Rat)).floor.toNat
    (Nat.sqrt n : Rat) / ((2 ^ 40 : Nat) : Rat)

def Rat.sqrtExact? (x : Rat) : Option Rat :=
  if x < 0 then none else
    let n := x.num.toNat
    let d := x.den
    let sn := Nat.sqrt n
    let sd := Nat.sqrt d
    if sn * sn = n ∧ sd * sd = d then some ((sn : Rat) / (sd : Rat)) else none

instance : Num Rat where
  sqrt x := match Rat.sqrtExact? x with
    | some r => r
    | none => Rat.sqrtApprox x
  ofRat q := q
  decLt a b := inferInstanceAs (Decidable (a < b))
  decLe a b := inferInstanceAs (Decidable (a ≤ b))

/-! ## NaN-propagating exact arithmetic: `none` = NaN/inf.  `x/0 = none`, `sqrt` of a negative or
of a non-square = `none` is too strong, so sqrt of a non-square yields the approximation (defined)
and only the *definedness* is observed. Every comparison with `none` is false, as in IEEE. -/

def NaNable := Option Rat

namespace NaNable
def lt' (a b : NaNable) : Prop := match a, b with
  | some x, some y => x < y
  | _, _ => False
def le' (a b : NaNable) : Prop := match a, b with
  | some x, some y => x ≤ y
  | _, _ => False
instance : (a b : NaNable) → Decidable (lt' a b)
  | some x, some y => inferInstanceAs (Decidable (x < y))
  | none, _ => isFalse (by simp [lt'])
  | some _, none => isFalse (by simp [lt'])
instance : (a b : NaNable) → Decidable (le' a b)
  | some x, some y => inferInstanceAs (Decidable (x ≤ y))
  | none, _ => isFalse (by simp [le'])
  | some _, none => isFalse (by simp [le'])
end NaNable

instance : Num NaNable where
  add a b := match a, b with | some x, some y => some (x + y) | _, _ => none
  sub a b := match a, b with | some x, some y => some (x - y) | _, _ => none
  mul a b := match a, b with | some x, some y => some (x * y) | _, _ => none
  div a b := match a, b with
    | some x, some y => if y = 0 then none else some (x / y)
    | _, _ => none
  neg a := match a with | some x => some (-x) | none => none
  lt := NaNable.lt'
  le := NaNable.le'
  zero := some 0
  one := some 1
  sqrt a := match a with
    | some x => if x < 0 then none else
        match Rat.sqrtExact? x with
        | some r => some r
        | none => some (Rat.sqrtApprox x)
    | none => none
  ofRat q := some q
  decLt a b := inferInstanceAs (Decidable (NaNable.lt' a b))
  decLe a b := inferInstanceAs (Decidable (NaNable.le' a b))

/-! ## Float ⇄ text / Rat -/

namespace FloatIO

def hexDigit (n : Nat) : Char :=
  if n < 10 then Char.ofNat (48 + n) else Char.ofNat (87 + n)

def toHex (x : Float) : String :=
  let b := x.toBits.toNat
  String.ofList ((List.range 16).map fun i => hexDigit ((b >>> (4 * (15 - i))) % 16))

def hexVal (c : Char) : Option Nat :=
  if '0' ≤ c ∧ c ≤ '9' then some (c.toNat - 48)
  else if 'a' ≤ c ∧ c ≤ 'f' then some (c.toNat - 87)
  else none

def ofHex? (s : String) : Option Float :=
  if s.length ≠ 16 then none else
    (s.toList.foldlM (fun (acc : Nat) c => (hexVal c).map (acc * 16 + ·)) 0).map
      fun n => Float.ofBits (UInt64.ofNat n)

/-- exact value of a finite double -/
def toRat? (x : Float) : Option Rat :=
  let b : Nat := x.toBits.toNat
  let sign : Nat := b >>> 63
  let e : Nat := (b >>> 52) % 2048
  let m : Nat := b % (2 ^ 52)
  if e = 2047 then none else
    let mag : Rat :=
      if e = 0 then (m : Rat) / ((2 ^ 1074 : Nat) : Rat)
      else
        let mant : Nat := m + 2 ^ 52
        if e ≥ 1075 then ((mant * 2 ^ (e - 1075) : Nat) : Rat)
        else (mant : Rat) / ((2 ^ (1075 - e) : Nat) : Rat)
    some (if sign = 1 then -mag else mag)

def isFinite (x : Float) : Bool := (x.toBits.toNat >>> 52) % 2048 != 2047

end FloatIO
