import ParryModel.Field
import ParryModel.C12.Lemmas5
/-!
# C12 theorems, seventh pass: the edge table of `ConvexPolyhedron::from_convex_mesh` (model `ModelPoly.lean`), for **every**
`Num` instance (`Float` included): the statements are about indices, never about arithmetic.

* `pass1_edge_incidence` — after the first pass (triangles + edges with their `edge_map`), whatever the input triangle list:
  triangle `k` carries the `k`-th index triple; each of its three edge slots holds the id of an existing edge whose end points
  are the two vertices of that side and which lists triangle `k` as one of its two faces; every edge joins two different
  vertices, its first face is a triangle id, its second face is a triangle id or still `u32::MAX`; the `edge_map` is an exact
  index of the edges (so two edges never join the same pair of vertices).
* `fromConvexMesh_edge_table` — the same for the finished polyhedron: its points are the given points, its edges join distinct
  vertices, no two edges join the same pair, and every side of every input triangle is an edge.
* `rewriteFaces_spec` — the pass "update face ids inside edges so that they point to the faces instead of the triangles":
  side `k` of an edge becomes the `parent_face` of the triangle it pointed to when that triangle has one, and is left alone
  otherwise; when both triangles have a parent face the edge's two faces are exactly those two parent faces.
-/
namespace C12
open Model

variable {K : Type} [Num K]

/-- **first pass of `from_convex_mesh`: edge ↔ triangle incidence** (`EdgeInv` is spelled out in `Lemmas5.lean`). -/
theorem pass1_edge_incidence (pts : Array (V3 K)) (idxs : List (Nat × Nat × Nat)) (st : P1State K)
    (hlen : idxs.length ≤ u32Max)
    (h : pass1 pts idxs { edges := #[], tris := #[], emap := [] } = .ok st) :
    EdgeInv st ∧ st.tris.size = idxs.length ∧ ∀ k, k < idxs.length → (st.tris[k]?).map (·.v) = idxs[k]? := by
  obtain ⟨inv, hs, _, hnew⟩ := pass1_inv pts idxs _ st (by simpa using hlen) edgeInv_empty h
  refine ⟨inv, by simpa using hs, ?_⟩
  intro k hk
  have := hnew k hk
  simpa using this

/-- **edge table of the finished `ConvexPolyhedron`.** -/
theorem fromConvexMesh_edge_table (pts : Array (V3 K)) (idxs : List (Nat × Nat × Nat)) (p : Poly K)
    (hlen : idxs.length ≤ u32Max) (h : fromConvexMesh pts idxs = .ok p) :
    p.pts = pts ∧
    (∀ (i : Nat) (e : PEdge K), p.edges[i]? = some e → e.v0 ≠ e.v1) ∧
    (∀ (i j : Nat) (e e' : PEdge K), p.edges[i]? = some e → p.edges[j]? = some e' →
      sortedPair e.v0 e.v1 = sortedPair e'.v0 e'.v1 → i = j) ∧
    (∀ (k : Nat) (idx : Nat × Nat × Nat), idxs[k]? = some idx → ∀ j : Nat, j < 3 →
      ∃ (i : Nat) (e : PEdge K), p.edges[i]? = some e ∧
        sortedPair e.v0 e.v1 = sortedPair (get3 idx j) (get3 idx ((j + 1) % 3))) := by
  obtain ⟨s1, edges2, s3, h1, h2, _, h4, hp, _, _, _⟩ := fromConvexMesh_ok pts idxs p h
  obtain ⟨inv, hsz, hv⟩ := pass1_edge_incidence pts idxs s1 hlen h1
  obtain ⟨back, fwd⟩ := edges_corr s1.edges edges2 p.edges s1.tris s3.tris h2 h4
  refine ⟨hp, ?_, ?_, ?_⟩
  · intro i e he
    obtain ⟨e1, he1, a, b⟩ := back i e he
    rw [a, b]; exact inv.ne i e1 he1
  · intro i j e e' he he' hk
    obtain ⟨e1, he1, a, b⟩ := back i e he
    obtain ⟨e1', he1', a', b'⟩ := back j e' he'
    rw [a, b, a', b'] at hk
    have c1 := inv.complete i e1 he1
    have c2 := inv.complete j e1' he1'
    rw [hk, c2] at c1
    cases c1; rfl
  · intro k idx hidx j hj
    have hk : k < idxs.length := by
      rcases Nat.lt_or_ge k idxs.length with h | h
      · exact h
      · rw [List.getElem?_eq_none h] at hidx; cases hidx
    have hvk := hv k hk
    rw [hidx] at hvk
    cases ht : s1.tris[k]? with
    | none => rw [ht] at hvk; cases hvk
    | some t =>
      rw [ht] at hvk
      simp only [Option.map_some, Option.some.injEq] at hvk
      obtain ⟨e1, he1, hkey, _⟩ := inv.tri_edges k t ht j hj
      obtain ⟨e, he, a, b⟩ := fwd _ e1 he1
      exact ⟨_, e, he, by rw [a, b, hkey, hvk]⟩

omit [Num K] in
/-- **face ids inside edges**: `rewriteFaces` (the pass after the contour extraction) replaces side `k` of an edge by the
`parent_face` of the triangle it pointed to, when there is one. -/
theorem rewriteFaces_spec (tris : Array (PTri K)) (e e' : PEdge K) (h : rewriteFaces tris e = some e') :
    ∃ t0 t1 : PTri K, tris[e.f0]? = some t0 ∧ tris[e.f1]? = some t1 ∧
      e'.f0 = t0.parent.getD e.f0 ∧ e'.f1 = t1.parent.getD e.f1 ∧
      e'.v0 = e.v0 ∧ e'.v1 = e.v1 ∧ e'.dir = e.dir ∧ e'.deleted = e.deleted ∧
      (∀ f0 f1 : Nat, t0.parent = some f0 → t1.parent = some f1 → e'.f0 = f0 ∧ e'.f1 = f1) := by
  unfold rewriteFaces at h
  cases h0 : tris[e.f0]? with
  | none => rw [h0] at h; cases h
  | some t0 =>
    cases h1 : tris[e.f1]? with
    | none => rw [h0, h1] at h; cases h
    | some t1 =>
      rw [h0, h1] at h
      simp only [Option.some.injEq] at h
      subst h
      refine ⟨t0, t1, rfl, rfl, ?_, ?_, rfl, rfl, rfl, rfl, ?_⟩
      · cases t0.parent <;> rfl
      · cases t1.parent <;> rfl
      · intro f0 f1 hf0 hf1
        simp only [hf0, hf1, and_self]

/-! non-vacuity: the first pass succeeds on a single triangle (any scalar type), and its table satisfies the invariant -/

example (a b c : V3 K) : ∃ st, pass1 #[a, b, c] [(0, 1, 2)] { edges := #[], tris := #[], emap := [] } = .ok st ∧
    st.edges.size = 3 ∧ st.tris.size = 1 :=
  ⟨_, rfl, rfl, rfl⟩

end C12
